"""Minimal failing inputs for the two C16 findings (C16.1, C16.2; both repaired in /repo).  Run with
   PYTHONPATH=<verif>/.build/pkg /venv/bin/python findings/C16_repro.py"""
from sourmash import MinHash, SourmashSignature
from sourmash.compare import compare_serial_max_containment, compare_serial_avg_containment
from sourmash.logging import set_quiet
set_quiet(True)


def sig(hashes, scaled, name):
    mh = MinHash(n=0, ksize=21, scaled=scaled)
    mh.add_many(hashes)
    return SourmashSignature(mh, name=name)


# --- finding 1 (repaired in /repo by 0bf3075; prints True there, False before):
#     max_containment(downsample=True) was not symmetric for mixed scaled ------------
a = sig([1, 2, 3], 1, "a")
b = sig([2, 3, 4, 5, 6], 2, "b")
ab = compare_serial_max_containment([a, b], downsample=True)
ba = compare_serial_max_containment([b, a], downsample=True)
print("max_containment  a.f(b) =", a.max_containment(b, downsample=True), " b.f(a) =", b.max_containment(a, downsample=True))
print("matrix [a,b] =", ab.tolist())
print("matrix [b,a] =", ba.tolist())
print("permuting the inputs permutes the matrix:", ab[0][1] == ba[1][0])

# --- finding 2 = C16.2 (repaired in /repo by b596f84: matrix == pairwise value, and it raises when the pairwise call raises;
#     before: 0.0 vs 0.959, and a matrix where the pairwise call raises): compare_serial_avg_containment(return_ani=True)
#     ignored `downsample` ------------
c = sig(range(1, 11), 1, "c")            # 10 hashes at scaled=1: size is exact
d = sig(range(1, 61), 2, "d")            # 60 hashes at scaled=2: size estimate is accurate
print("pairwise d.avg_containment_ani(c, downsample=True) =", d.avg_containment_ani(c, downsample=True))
print("matrix (downsample=True) =", compare_serial_avg_containment([c, d], downsample=True, return_ani=True).tolist())
try:
    d.avg_containment_ani(c, downsample=False)
except Exception as e:
    print("pairwise downsample=False raises:", type(e).__name__, e)
try:
    print("matrix (downsample=False) =", compare_serial_avg_containment([c, d], downsample=False, return_ani=True).tolist())
except Exception as e:
    print("matrix (downsample=False) raises:", type(e).__name__, e)
