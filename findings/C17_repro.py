"""Minimal failing input for finding D16 (C17).  Run with
   PYTHONPATH=<verif>/.build/pkg /venv/bin/python findings/C17_repro.py"""
from sourmash.distance_utils import jaccard_to_distance, var_n_mutated
from sourmash import MinHash

# (jaccard, ksize, scaled, n_unique_kmers); the third is self-consistent: two scaled=1 sketches of ~10^7 hashes, k=100
for args in [(0.9999999, 100, 1000, 10000), ((10**7 - 1) / 10**7, 10, 2, 10000), ((10**7 - 1) / 10**7, 100, 1, 10**7),
             ((10**7 - 1) / 10**7, 21, 1000, 10**9)]:
    try:
        r = jaccard_to_distance(args[0], args[1], args[2], n_unique_kmers=args[3])
        print("jaccard_to_distance", args, "->", r.dist, r.ani, r.jaccard_error)
    except ValueError as e:
        print("jaccard_to_distance", args, "raises ValueError:", e)

# the same through the sketch API (slow, 2 x 10^7 hashes): C17_SKETCH=1
import os
if os.environ.get("C17_SKETCH"):
    N = 10**7
    a = MinHash(n=0, ksize=100, scaled=1)
    b = MinHash(n=0, ksize=100, scaled=1)
    a.add_many(range(1, N + 1))
    b.add_many(range(1, N))            # b = a minus one hash: Jaccard = (10^7-1)/10^7
    try:
        print("jaccard_ani:", a.jaccard_ani(b))
    except ValueError as e:
        print("MinHash.jaccard_ani of two ~10^7-hash sketches differing by one hash raises ValueError:", e)
