// Line-protocol adapter for the Rust-only surfaces of sourmash (KmerMinHashBTree, ani_utils, Nodegraph):
//   smharness <module>   reads ops on stdin, prints one observation per line.
use std::io::{self, BufRead, Write};

use sourmash::encodings::HashFunctions;
use sourmash::signature::SigsTrait;
use sourmash::sketch::minhash::{KmerMinHash, KmerMinHashBTree};

fn join(v: &[u64]) -> String {
    v.iter().map(|x| x.to_string()).collect::<Vec<_>>().join(",")
}

fn show_vec(m: &KmerMinHash) -> String {
    let ab = match m.abunds() {
        Some(a) => join(&a),
        None => "-".to_string(),
    };
    format!(
        "ok num={} mh={} tr={} mins={} ab={} md5={}",
        m.num(),
        m.max_hash(),
        m.track_abundance() as u8,
        join(&m.mins()),
        ab,
        m.md5sum()
    )
}

fn show_bt(m: &KmerMinHashBTree) -> String {
    let ab = match m.abunds() {
        Some(a) => join(&a),
        None => "-".to_string(),
    };
    format!(
        "ok num={} mh={} tr={} mins={} ab={} md5={}",
        m.num(),
        m.max_hash(),
        m.track_abundance() as u8,
        join(&m.mins()),
        ab,
        m.md5sum()
    )
}

// twin tables: the same op is applied to a KmerMinHash and a KmerMinHashBTree; both observations are printed
fn run_twin() {
    let stdin = io::stdin();
    let stdout = io::stdout();
    let mut out = stdout.lock();
    let mut v: Vec<Option<KmerMinHash>> = (0..16).map(|_| None).collect();
    let mut b: Vec<Option<KmerMinHashBTree>> = (0..16).map(|_| None).collect();
    for line in stdin.lock().lines() {
        let line = line.unwrap();
        let w: Vec<&str> = line.split_whitespace().collect();
        if w.is_empty() {
            writeln!(out, "bad-op").unwrap();
            continue;
        }
        if w[0] == "#" {
            for x in v.iter_mut() {
                *x = None;
            }
            for x in b.iter_mut() {
                *x = None;
            }
            writeln!(out, "#").unwrap();
            continue;
        }
        let n: Vec<u64> = w[1..].iter().filter_map(|x| x.parse::<u64>().ok()).collect();
        if n.len() != w.len() - 1 {
            writeln!(out, "bad-op").unwrap();
            continue;
        }
        let res: String = (|| -> Option<String> {
            let h = *n.first()? as usize;
            if h >= 16 {
                return None;
            }
            match w[0] {
                // new H num scaled track ksize seed
                "new" => {
                    if n.len() != 6 {
                        return None;
                    }
                    v[h] = Some(KmerMinHash::new(n[2], n[4] as u32, HashFunctions::Murmur64Dna, n[5], n[3] != 0, n[1] as u32));
                    b[h] = Some(KmerMinHashBTree::new(n[2], n[4] as u32, HashFunctions::Murmur64Dna, n[5], n[3] != 0, n[1] as u32));
                }
                "add" => {
                    v[h].as_mut()?.add_hash(n[1]);
                    b[h].as_mut()?.add_hash(n[1]);
                }
                "addab" => {
                    v[h].as_mut()?.add_hash_with_abundance(n[1], n[2]);
                    b[h].as_mut()?.add_hash_with_abundance(n[1], n[2]);
                }
                "addmany" => {
                    v[h].as_mut()?.add_many(&n[1..]).ok()?;
                    b[h].as_mut()?.add_many(&n[1..]).ok()?;
                }
                "rm" => {
                    v[h].as_mut()?.remove_many(n[1..].iter().copied()).ok()?;
                    b[h].as_mut()?.remove_many(n[1..].iter().copied()).ok()?;
                }
                "clear" => {
                    v[h].as_mut()?.clear();
                    b[h].as_mut()?.clear();
                }
                "merge" => {
                    let g = n[1] as usize;
                    let ov = v.get(g)?.as_ref()?.clone();
                    let ob = b.get(g)?.as_ref()?.clone();
                    let r1 = v[h].as_mut()?.merge(&ov);
                    let r2 = b[h].as_mut()?.merge(&ob);
                    if r1.is_err() || r2.is_err() {
                        return Some(format!("err vec={} bt={}", r1.is_err() as u8, r2.is_err() as u8));
                    }
                }
                "addfrom" => {
                    let g = n[1] as usize;
                    let ov = v.get(g)?.as_ref()?.clone();
                    let ob = b.get(g)?.as_ref()?.clone();
                    v[h].as_mut()?.add_from(&ov).ok()?;
                    b[h].as_mut()?.add_from(&ob).ok()?;
                }
                "md5" => {}
                // conv H : replace the vec twin by the conversion of the btree twin and vice versa (checks From impls)
                "tovec" => {
                    let c: KmerMinHash = b[h].as_ref()?.into();
                    return Some(format!("{} | {}", show_vec(v[h].as_ref()?), show_vec(&c)));
                }
                "tobt" => {
                    let c: KmerMinHashBTree = v[h].as_ref()?.clone().into();
                    return Some(format!("{} | {}", show_bt(&c), show_bt(b[h].as_ref()?)));
                }
                "cc" => {
                    let g = n[1] as usize;
                    let ds = n[2] != 0;
                    let r1 = v[h].as_ref()?.count_common(v.get(g)?.as_ref()?, ds);
                    let r2 = b[h].as_ref()?.count_common(b.get(g)?.as_ref()?, ds);
                    return Some(format!("cc {:?} | cc {:?}", r1.ok(), r2.ok()));
                }
                "down" => {
                    // down R H scaled
                    let g = n[1] as usize;
                    let r1 = v.get(g)?.as_ref()?.clone().downsample_scaled(n[2]);
                    let r2 = b.get(g)?.as_ref()?.clone().downsample_scaled(n[2]);
                    match (r1, r2) {
                        (Ok(a), Ok(c)) => {
                            v[h] = Some(a);
                            b[h] = Some(c);
                        }
                        (a, c) => return Some(format!("err vec={} bt={}", a.is_err() as u8, c.is_err() as u8)),
                    }
                }
                _ => return None,
            }
            Some(format!("{} | {}", show_vec(v[h].as_ref()?), show_bt(b[h].as_ref()?)))
        })()
        .unwrap_or_else(|| "bad-op".to_string());
        writeln!(out, "{}", res).unwrap();
    }
}

fn main() {
    let args: Vec<String> = std::env::args().collect();
    match args.get(1).map(|s| s.as_str()) {
        Some("twin") => run_twin(),
        _ => {
            eprintln!("usage: smharness <twin>");
            std::process::exit(2);
        }
    }
}
