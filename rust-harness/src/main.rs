// Line-protocol adapter for the Rust-only surfaces of sourmash (KmerMinHashBTree, ani_utils, Nodegraph):
//   smharness <module>   reads ops on stdin, prints one observation per line.
use std::io::{self, BufRead, Write};

mod ani;
pub use sourmash::Error; // `use crate::Error` of the textually included ani_utils.rs (see ani.rs)

use sourmash::encodings::HashFunctions;
use sourmash::signature::SigsTrait;
use sourmash::sketch::minhash::{KmerMinHash, KmerMinHashBTree};

fn join(v: &[u64]) -> String {
    v.iter().map(|x| x.to_string()).collect::<Vec<_>>().join(",")
}

fn hf_code(h: HashFunctions) -> u8 {
    match h {
        HashFunctions::Murmur64Dna => 1,
        HashFunctions::Murmur64Protein => 2,
        HashFunctions::Murmur64Dayhoff => 3,
        HashFunctions::Murmur64Hp => 4,
        _ => 0,
    }
}

fn show_vec(m: &KmerMinHash) -> String {
    let ab = match m.abunds() {
        Some(a) => join(&a),
        None => "-".to_string(),
    };
    format!(
        "ok num={} mh={} hf={} tr={} mins={} ab={} md5={}",
        m.num(),
        m.max_hash(),
        hf_code(m.hash_function()),
        m.track_abundance() as u8,
        join(&m.mins()),
        ab,
        m.md5sum()
    )
}

fn show_bt(m: &KmerMinHashBTree) -> String {
    let ab = match m.abunds() {
        Some(a) => join(&a),
        None => "-".to_string(),
    };
    format!(
        "ok num={} mh={} hf={} tr={} mins={} ab={} md5={}",
        m.num(),
        m.max_hash(),
        hf_code(m.hash_function()),
        m.track_abundance() as u8,
        join(&m.mins()),
        ab,
        m.md5sum()
    )
}

// twin tables: the same op is applied to a KmerMinHash and a KmerMinHashBTree; both observations are printed
fn opt_u64(r: Result<u64, sourmash::Error>) -> String {
    match r {
        Ok(n) => n.to_string(),
        Err(_) => "err".to_string(),
    }
}

fn run_twin() {
    let stdin = io::stdin();
    let stdout = io::stdout();
    let mut out = stdout.lock();
    let mut v: Vec<Option<KmerMinHash>> = (0..16).map(|_| None).collect();
    let mut b: Vec<Option<KmerMinHashBTree>> = (0..16).map(|_| None).collect();
    for line in stdin.lock().lines() {
        let line = line.unwrap();
        let w: Vec<&str> = line.split_whitespace().collect();
        if w.is_empty() {
            writeln!(out, "bad-op").unwrap();
            continue;
        }
        if w[0] == "#" {
            for x in v.iter_mut() {
                *x = None;
            }
            for x in b.iter_mut() {
                *x = None;
            }
            writeln!(out, "#").unwrap();
            continue;
        }
        // "addmanyab H h:a h:a ..." carries pairs; every other op carries naturals only
        let mut pairs: Vec<(u64, u64)> = vec![];
        let n: Vec<u64> = if w[0] == "addmanyab" {
            let mut okp = w.len() >= 2;
            for t in w.iter().skip(2) {
                let p: Vec<&str> = t.split(':').collect();
                if p.len() != 2 {
                    okp = false;
                    break;
                }
                match (p[0].parse::<u64>(), p[1].parse::<u64>()) {
                    (Ok(x), Ok(y)) => pairs.push((x, y)),
                    _ => {
                        okp = false;
                        break;
                    }
                }
            }
            match (okp, w.get(1).and_then(|x| x.parse::<u64>().ok())) {
                (true, Some(h)) => vec![h],
                _ => {
                    writeln!(out, "bad-op").unwrap();
                    continue;
                }
            }
        } else {
            let n: Vec<u64> = w[1..].iter().filter_map(|x| x.parse::<u64>().ok()).collect();
            if n.len() != w.len() - 1 {
                writeln!(out, "bad-op").unwrap();
                continue;
            }
            n
        };
        let res: String = (|| -> Option<String> {
            let h = *n.first()? as usize;
            if h >= 16 {
                return None;
            }
            match w[0] {
                // new H num scaled track ksize seed
                "new" => {
                    if n.len() != 6 {
                        return None;
                    }
                    v[h] = Some(KmerMinHash::new(n[2], n[4] as u32, HashFunctions::Murmur64Dna, n[5], n[3] != 0, n[1] as u32));
                    b[h] = Some(KmerMinHashBTree::new(n[2], n[4] as u32, HashFunctions::Murmur64Dna, n[5], n[3] != 0, n[1] as u32));
                }
                "add" => {
                    if n.len() != 2 {
                        return None;
                    }
                    v[h].as_mut()?.add_hash(n[1]);
                    b[h].as_mut()?.add_hash(n[1]);
                }
                "addab" => {
                    if n.len() != 3 {
                        return None;
                    }
                    v[h].as_mut()?.add_hash_with_abundance(n[1], n[2]);
                    b[h].as_mut()?.add_hash_with_abundance(n[1], n[2]);
                }
                "addmany" => {
                    v[h].as_mut()?.add_many(&n[1..]).ok()?;
                    b[h].as_mut()?.add_many(&n[1..]).ok()?;
                }
                "addmanyab" => {
                    v[h].as_mut()?.add_many_with_abund(&pairs).ok()?;
                    b[h].as_mut()?.add_many_with_abund(&pairs).ok()?;
                }
                "rm" => {
                    v[h].as_mut()?.remove_many(n[1..].iter().copied()).ok()?;
                    b[h].as_mut()?.remove_many(n[1..].iter().copied()).ok()?;
                }
                "clear" => {
                    if n.len() != 1 {
                        return None;
                    }
                    v[h].as_mut()?.clear();
                    b[h].as_mut()?.clear();
                }
                "merge" => {
                    if n.len() != 2 {
                        return None;
                    }
                    let g = n[1] as usize;
                    v[h].as_ref()?;
                    let ov = v.get(g)?.as_ref()?.clone();
                    let ob = b.get(g)?.as_ref()?.clone();
                    let r1 = v[h].as_mut()?.merge(&ov);
                    let r2 = b[h].as_mut()?.merge(&ob);
                    if r1.is_err() || r2.is_err() {
                        return Some(format!("err vec={} bt={}", r1.is_err() as u8, r2.is_err() as u8));
                    }
                }
                "addfrom" => {
                    if n.len() != 2 {
                        return None;
                    }
                    let g = n[1] as usize;
                    v[h].as_ref()?;
                    let ov = v.get(g)?.as_ref()?.clone();
                    let ob = b.get(g)?.as_ref()?.clone();
                    v[h].as_mut()?.add_from(&ov).ok()?;
                    b[h].as_mut()?.add_from(&ob).ok()?;
                }
                "md5" => {
                    if n.len() != 1 {
                        return None;
                    }
                }
                "enab" => {
                    if n.len() != 1 {
                        return None;
                    }
                    b[h].as_ref()?;
                    let r1 = v[h].as_mut()?.enable_abundance();
                    let r2 = b[h].as_mut()?.enable_abundance();
                    if r1.is_err() || r2.is_err() {
                        return Some(format!("err vec={} bt={}", r1.is_err() as u8, r2.is_err() as u8));
                    }
                }
                "disab" => {
                    if n.len() != 1 {
                        return None;
                    }
                    b[h].as_ref()?;
                    v[h].as_mut()?.disable_abundance();
                    b[h].as_mut()?.disable_abundance();
                }
                "sethf" => {
                    if n.len() != 2 {
                        return None;
                    }
                    let hf = match n[1] {
                        1 => HashFunctions::Murmur64Dna,
                        2 => HashFunctions::Murmur64Protein,
                        3 => HashFunctions::Murmur64Dayhoff,
                        4 => HashFunctions::Murmur64Hp,
                        _ => return None,
                    };
                    b[h].as_ref()?;
                    let r1 = v[h].as_mut()?.set_hash_function(hf.clone());
                    let r2 = b[h].as_mut()?.set_hash_function(hf);
                    if r1.is_err() || r2.is_err() {
                        return Some(format!("err vec={} bt={}", r1.is_err() as u8, r2.is_err() as u8));
                    }
                }
                "downmh" => {
                    // downmh R G max_hash
                    if n.len() != 3 {
                        return None;
                    }
                    let g = n[1] as usize;
                    let r1 = v.get(g)?.as_ref()?.clone().downsample_max_hash(n[2]);
                    let r2 = b.get(g)?.as_ref()?.clone().downsample_max_hash(n[2]);
                    match (r1, r2) {
                        (Ok(a), Ok(c)) => {
                            v[h] = Some(a);
                            b[h] = Some(c);
                        }
                        (a, c) => return Some(format!("err vec={} bt={}", a.is_err() as u8, c.is_err() as u8)),
                    }
                }
                // tovec / tobt H : show the conversion next to the twin of the target type; nothing is replaced
                "tovec" => {
                    if n.len() != 1 {
                        return None;
                    }
                    let c: KmerMinHash = b[h].as_ref()?.into();
                    return Some(format!("{} | {}", show_vec(v[h].as_ref()?), show_vec(&c)));
                }
                "tobt" => {
                    if n.len() != 1 {
                        return None;
                    }
                    b[h].as_ref()?;
                    let c: KmerMinHashBTree = v[h].as_ref()?.clone().into();
                    return Some(format!("{} | {}", show_bt(&c), show_bt(b[h].as_ref()?)));
                }
                // convvec / convbt H : REPLACE one twin by the conversion of the other
                "convvec" => {
                    if n.len() != 1 {
                        return None;
                    }
                    let c: KmerMinHash = b[h].as_ref()?.into();
                    v[h] = Some(c);
                }
                "convbt" => {
                    if n.len() != 1 {
                        return None;
                    }
                    let c: KmerMinHashBTree = v[h].as_ref()?.clone().into();
                    b[h] = Some(c);
                }
                // json H : both twins through serde_json and back
                "json" => {
                    if n.len() != 1 {
                        return None;
                    }
                    let sv = serde_json::to_string(v[h].as_ref()?).ok()?;
                    let sb = serde_json::to_string(b[h].as_ref()?).ok()?;
                    let nv: KmerMinHash = serde_json::from_str(&sv).ok()?;
                    let nb: KmerMinHashBTree = serde_json::from_str(&sb).ok()?;
                    v[h] = Some(nv);
                    b[h] = Some(nb);
                }
                "cc" => {
                    if n.len() != 3 {
                        return None;
                    }
                    let g = n[1] as usize;
                    let ds = n[2] != 0;
                    let r1 = v[h].as_ref()?.count_common(v.get(g)?.as_ref()?, ds);
                    let r2 = b[h].as_ref()?.count_common(b.get(g)?.as_ref()?, ds);
                    return Some(format!("cc {} | cc {}", opt_u64(r1), opt_u64(r2)));
                }
                "isz" => {
                    if n.len() != 2 {
                        return None;
                    }
                    let g = n[1] as usize;
                    let r1 = v[h].as_ref()?.intersection_size(v.get(g)?.as_ref()?);
                    let r2 = b[h].as_ref()?.intersection_size(b.get(g)?.as_ref()?);
                    let s1 = match r1 {
                        Ok((c, u)) => format!("isz {} {}", c, u),
                        Err(_) => "isz err".to_string(),
                    };
                    let s2 = match r2 {
                        Ok((c, u)) => format!("isz {} {}", c, u),
                        Err(_) => "isz err".to_string(),
                    };
                    return Some(format!("{} | {}", s1, s2));
                }
                // C05: the float-valued comparisons of both sketch types; f64 printed as its bit pattern
                "rsim" | "rjac" | "rang" => {
                    let g = *n.get(1)? as usize;
                    let (x, y) = (v[h].as_ref()?, v.get(g)?.as_ref()?);
                    let (p, q) = (b[h].as_ref()?, b.get(g)?.as_ref()?);
                    let (r1, r2) = match w[0] {
                        "rsim" => {
                            if n.len() != 4 {
                                return None;
                            }
                            (x.similarity(y, n[2] != 0, n[3] != 0), p.similarity(q, n[2] != 0, n[3] != 0))
                        }
                        "rjac" => (x.jaccard(y), p.jaccard(q)),
                        _ => (x.angular_similarity(y), p.angular_similarity(q)),
                    };
                    let f = |r: Result<f64, sourmash::Error>| match r {
                        Ok(z) => format!("f {}", z.to_bits()),
                        Err(_) => "f err".to_string(),
                    };
                    return Some(format!("{} | {}", f(r1), f(r2)));
                }
                "down" => {
                    // down R G scaled
                    if n.len() != 3 {
                        return None;
                    }
                    let g = n[1] as usize;
                    let r1 = v.get(g)?.as_ref()?.clone().downsample_scaled(n[2]);
                    let r2 = b.get(g)?.as_ref()?.clone().downsample_scaled(n[2]);
                    match (r1, r2) {
                        (Ok(a), Ok(c)) => {
                            v[h] = Some(a);
                            b[h] = Some(c);
                        }
                        (a, c) => return Some(format!("err vec={} bt={}", a.is_err() as u8, c.is_err() as u8)),
                    }
                }
                _ => return None,
            }
            Some(format!("{} | {}", show_vec(v[h].as_ref()?), show_bt(b[h].as_ref()?)))
        })()
        .unwrap_or_else(|| "bad-op".to_string());
        writeln!(out, "{}", res).unwrap();
    }
}

// native sketching path used by the Python factory: ComputeParameters (builder) -> Signature::from_params
// (build_template: tree-backed sketches) -> Signature::add_sequence / add_protein -> each sketch as it is,
// and as `signature_first_mh` would hand it to Python (From<&KmerMinHashBTree> for KmerMinHash).
//   native <k,k,..> <seed> <protein> <dayhoff> <hp> <dna> <num> <track> <scaled> <d|p> <force> S <hexseq>..
fn unhex(t: &str) -> Option<Vec<u8>> {
    if t == "-" {
        return Some(vec![]);
    }
    if t.len() % 2 != 0 {
        return None;
    }
    (0..t.len()).step_by(2).map(|i| u8::from_str_radix(&t[i..i + 2], 16).ok()).collect()
}

fn run_sketch() {
    use sourmash::cmd::ComputeParameters;
    use sourmash::signature::Signature;
    use sourmash::sketch::Sketch;
    let stdin = io::stdin();
    let stdout = io::stdout();
    let mut out = stdout.lock();
    for line in stdin.lock().lines() {
        let line = line.unwrap();
        let w: Vec<&str> = line.split_whitespace().collect();
        let res: String = (|| -> Option<String> {
            if w.first()? == &"#" {
                return Some("#".to_string());
            }
            if w.first()? != &"native" || w.len() < 13 || w[12] != "S" {
                return None;
            }
            let ks: Vec<u32> = w[1].split(',').map(|x| x.parse::<u32>().ok()).collect::<Option<Vec<_>>>()?;
            let seed = w[2].parse::<u64>().ok()?;
            let flag = |i: usize| -> Option<bool> {
                match w[i] {
                    "0" => Some(false),
                    "1" => Some(true),
                    _ => None,
                }
            };
            let (pr, dy, hp, dna) = (flag(3)?, flag(4)?, flag(5)?, flag(6)?);
            let num = w[7].parse::<u32>().ok()?;
            let track = flag(8)?;
            let scaled = w[9].parse::<u64>().ok()?;
            let prot_input = match w[10] {
                "d" => false,
                "p" => true,
                _ => return None,
            };
            let force = flag(11)?;
            let seqs: Vec<Vec<u8>> = w[13..].iter().map(|t| unhex(t)).collect::<Option<Vec<_>>>()?;
            let params = ComputeParameters::builder()
                .ksizes(ks)
                .seed(seed)
                .protein(pr)
                .dayhoff(dy)
                .hp(hp)
                .dna(dna)
                .num_hashes(num)
                .track_abundance(track)
                .scaled(scaled)
                .build();
            let mut sig = Signature::from_params(&params);
            for s in &seqs {
                let r = if prot_input { sig.add_protein(s) } else { sig.add_sequence(s, force) };
                if r.is_err() {
                    return Some("err".to_string());
                }
            }
            let mut recs = vec![];
            for sk in sig.sketches() {
                match sk {
                    Sketch::LargeMinHash(mh) => {
                        let v: KmerMinHash = (&mh).into();
                        let ab = match mh.abunds() {
                            Some(a) => join(&a),
                            None => "-".to_string(),
                        };
                        let abv = match v.abunds() {
                            Some(a) => join(&a),
                            None => "-".to_string(),
                        };
                        recs.push(format!(
                            "{}:{}:{}:{}:{}:{}:{}:{}:{}/{}:{}:{}:{}:{}",
                            mh.ksize(),
                            hf_code(mh.hash_function()),
                            mh.num(),
                            mh.max_hash(),
                            mh.seed(),
                            mh.track_abundance() as u8,
                            mh.md5sum(),
                            join(&mh.mins()),
                            ab,
                            v.num(),
                            v.max_hash(),
                            v.md5sum(),
                            join(&v.mins()),
                            abv
                        ));
                    }
                    _ => recs.push("other".to_string()),
                }
            }
            Some(format!("ok {}", recs.join("|")))
        })()
        .unwrap_or_else(|| "bad-op".to_string());
        writeln!(out, "{}", res).unwrap();
        out.flush().unwrap();
    }
}

fn main() {
    let args: Vec<String> = std::env::args().collect();
    match args.get(1).map(|s| s.as_str()) {
        Some("twin") => run_twin(),
        Some("ani") => ani::run(),
        Some("sketch") => run_sketch(),
        _ => {
            eprintln!("usage: smharness <twin|ani|sketch>");
            std::process::exit(2);
        }
    }
}
