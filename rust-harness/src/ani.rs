// `smharness ani`: executes the native ANI estimator src/core/src/ani_utils.rs (C17).
//
// * the two `pub` functions (`ani_from_containment`, `ani_ci_from_containment`) are called through the
//   sourmash crate, i.e. the code that is compiled into the library;
// * everything else in that file is private (`fn`, not `pub` / `pub(crate)`): `exp_n_mutated`,
//   `var_n_mutated`, `exp_n_mutated_squared`, `probit`, `r1_to_q`, `get_exp_probability_nothing_common`.
//   They are reached by a TEXTUAL include of the same source file into the module `src` below (the file
//   only needs `crate::Error`, re-exported by main.rs, and the `roots` / `statrs` crates of the lock file),
//   compiled with the same compiler and profile.  `inc-*` ops call the included copy of the two pub
//   functions as well, so that "included copy == library" is itself observed.
//
// Floats travel as the decimal value of their IEEE-754 bit pattern; N = None.
use std::io::{self, BufRead, Write};

mod src {
    #![allow(dead_code, unused_imports)]
    include!("/repo/src/core/src/ani_utils.rs");

    pub fn h_exp_n_mutated(l: f64, k: f64, r1: f64) -> f64 {
        exp_n_mutated(l, k, r1)
    }
    pub fn h_var_n_mutated(l: f64, k: f64, r1: f64) -> Result<f64, crate::Error> {
        var_n_mutated(l, k, r1, None)
    }
    pub fn h_exp_n_mutated_squared(l: f64, k: f64, p: f64) -> Result<f64, crate::Error> {
        exp_n_mutated_squared(l, k, p)
    }
    pub fn h_probit(p: f64) -> f64 {
        probit(p)
    }
    pub fn h_r1_to_q(k: f64, r1: f64) -> f64 {
        r1_to_q(k, r1)
    }
    pub fn h_pnc(ani: f64, k: f64, f_scaled: f64, n: f64) -> Result<f64, crate::Error> {
        get_exp_probability_nothing_common(ani, k, f_scaled, n)
    }
}

fn fl(s: &str) -> Option<f64> {
    s.parse::<u64>().ok().map(f64::from_bits)
}

fn b(x: f64) -> String {
    x.to_bits().to_string()
}

fn nat(s: &str) -> Option<u64> {
    s.parse::<u64>().ok()
}

fn step(w: &[&str]) -> Option<String> {
    if w.len() < 2 || w[0] != "nat" {
        return None;
    }
    match (w[1], w.len()) {
        ("ani", 4) | ("inc-ani", 4) => {
            let (c, k) = (fl(w[2])?, nat(w[3])?);
            if k == 0 {
                return None;
            }
            let v = if w[1] == "ani" {
                sourmash::ani_utils::ani_from_containment(c, k as f64)
            } else {
                src::ani_from_containment(c, k as f64)
            };
            Some(format!("ok ani={}", b(v)))
        }
        ("ci", 7) | ("inc-ci", 7) => {
            let (c, k, scaled, n) = (fl(w[2])?, nat(w[3])?, nat(w[4])?, nat(w[5])?);
            let conf = if w[6] == "N" { None } else { Some(fl(w[6])?) };
            if k == 0 || scaled == 0 {
                return None;
            }
            let r = if w[1] == "ci" {
                sourmash::ani_utils::ani_ci_from_containment(c, k as f64, scaled, n, conf)
            } else {
                src::ani_ci_from_containment(c, k as f64, scaled, n, conf)
            };
            Some(match r {
                Ok((lo, hi)) => format!("ok alo={} ahi={}", b(lo), b(hi)),
                Err(_) => "err ANIEstimationError".to_string(),
            })
        }
        ("q", 4) => {
            let (k, r1) = (nat(w[2])?, fl(w[3])?);
            Some(format!("ok q={}", b(src::h_r1_to_q(k as f64, r1))))
        }
        ("exp", 5) => {
            let (l, k, r1) = (nat(w[2])?, nat(w[3])?, fl(w[4])?);
            Some(format!("ok e={}", b(src::h_exp_n_mutated(l as f64, k as f64, r1))))
        }
        ("var", 5) => {
            let (l, k, r1) = (nat(w[2])?, nat(w[3])?, fl(w[4])?);
            Some(match src::h_var_n_mutated(l as f64, k as f64, r1) {
                Ok(v) => format!("ok v={}", b(v)),
                Err(_) => "err ANIEstimationError".to_string(),
            })
        }
        ("exp2", 5) => {
            let (l, k, r1) = (nat(w[2])?, nat(w[3])?, fl(w[4])?);
            Some(match src::h_exp_n_mutated_squared(l as f64, k as f64, r1) {
                Ok(v) => format!("ok v={}", b(v)),
                Err(_) => "err ANIEstimationError".to_string(),
            })
        }
        ("pnc", 6) => {
            let (ani, k, scaled, n) = (fl(w[2])?, nat(w[3])?, nat(w[4])?, nat(w[5])?);
            if scaled == 0 {
                return None;
            }
            Some(match src::h_pnc(ani, k as f64, 1.0 / (scaled as f64), n as f64) {
                Ok(v) => format!("ok p={}", b(v)),
                Err(_) => "err ANIEstimationError".to_string(),
            })
        }
        ("probit", 3) => Some(format!("ok z={}", b(src::h_probit(fl(w[2])?)))),
        // nat gstats <lenQ> <lenM> <common> <scaled> <k> <removed> <ci> <conf|N>
        //   sourmash::index::calculate_gather_stats (src/core/src/index/mod.rs): the ANI fields of the native GatherResult.
        //   original query = hashes 1..lenQ; match = 1..common plus lenM-common foreign hashes; the remaining query has lost
        //   the first `removed` common hashes to earlier gather rounds.
        ("gstats", 10) => {
            use sourmash::encodings::HashFunctions;
            use sourmash::signature::Signature;
            use sourmash::sketch::minhash::KmerMinHash;
            use sourmash::sketch::Sketch;
            let (lq, lm, cm, scaled, k, rem) = (nat(w[2])?, nat(w[3])?, nat(w[4])?, nat(w[5])?, nat(w[6])?, nat(w[7])?);
            let ci = match w[8] {
                "0" => false,
                "1" => true,
                _ => return None,
            };
            let conf = if w[9] == "N" { None } else { Some(fl(w[9])?) };
            if scaled == 0 || k == 0 || cm > lq || cm > lm || rem > cm || lq == 0 || lm == 0 {
                return None;
            }
            let mk = || KmerMinHash::new(scaled, k as u32, HashFunctions::Murmur64Dna, 42, false, 0);
            let (mut orig, mut remaining, mut mmh) = (mk(), mk(), mk());
            for h in 1..=lq {
                orig.add_hash(h);
                if h > rem {
                    remaining.add_hash(h);
                }
            }
            for h in 1..=cm {
                mmh.add_hash(h);
            }
            for h in (lq + 1)..=(lq + lm - cm) {
                mmh.add_hash(h);
            }
            let mut sig = Signature::default();
            sig.push(Sketch::MinHash(mmh));
            let match_size = (cm - rem) as usize;
            let r = sourmash::index::calculate_gather_stats(
                &orig, remaining, sig.into(), match_size, 0, 0, lq as usize, false, ci, conf,
            );
            Some(match r {
                Err(_) => "err".to_string(),
                Ok((g, _)) => {
                    let o = |x: Option<f64>| x.map(b).unwrap_or_else(|| "N".to_string());
                    format!(
                        "ok q={} m={} avg={} max={} qlo={} qhi={} mlo={} mhi={} foq={} fmo={}",
                        b(g.query_containment_ani()),
                        b(g.match_containment_ani()),
                        b(g.average_containment_ani()),
                        b(g.max_containment_ani()),
                        o(g.query_containment_ani_ci_low()),
                        o(g.query_containment_ani_ci_high()),
                        o(g.match_containment_ani_ci_low()),
                        o(g.match_containment_ani_ci_high()),
                        b(g.f_orig_query()),
                        b(g.f_match_orig()),
                    )
                }
            })
        }
        _ => None,
    }
}

pub fn run() {
    let stdin = io::stdin();
    let stdout = io::stdout();
    let mut out = stdout.lock();
    for line in stdin.lock().lines() {
        let line = line.unwrap();
        let w: Vec<&str> = line.split_whitespace().collect();
        let res = if !w.is_empty() && w[0] == "#" {
            "#".to_string()
        } else {
            step(&w).unwrap_or_else(|| "bad-op".to_string())
        };
        writeln!(out, "{}", res).unwrap();
        out.flush().unwrap();
    }
}
