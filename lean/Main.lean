/- Line-protocol driver: `lake env lean --run Main.lean <module> < ops > observations` -/
import SmVerif.Drivers

open Sm

def main (args : List String) : IO UInt32 := do
  let stdin ← IO.getStdin
  let stdout ← IO.getStdout
  match args with
  | ["mh"] => Proto.loop stdin stdout DriverMh.step DriverMh.init; return 0
  | ["ng"] => Proto.loop stdin stdout DriverNg.step (); return 0
  | ["lca"] => Proto.loop stdin stdout DriverLca.step DriverLca.init; return 0
  | ["cmp"] => Proto.loop stdin stdout DriverCmp.step DriverCmp.init; return 0
  | ["store"] => Proto.loop stdin stdout DriverStore.step DriverStore.init; return 0
  | ["twin"] => Proto.loop stdin stdout DriverTwin.step DriverTwin.init; return 0
  | ["sketch"] => Proto.loop stdin stdout DriverSketch.step (); return 0
  | ["seq"] => Proto.loop stdin stdout DriverSeq.step DriverSeq.init; return 0
  | ["select"] => Proto.loop stdin stdout DriverSelect.step DriverSelect.init; return 0
  | ["tax"] => Proto.loop stdin stdout DriverTax.step DriverTax.init; return 0
  | ["json"] => Proto.loop stdin stdout DriverJson.step DriverJson.init; return 0
  | ["search"] => Proto.loop stdin stdout DriverSearch.step DriverSearch.init; return 0
  | ["setops"] => Proto.loop stdin stdout DriverSetops.step DriverSetops.init; return 0
  | ["sbt"] => Proto.loop stdin stdout DriverSbt.step DriverSbt.init; return 0
  | ["nodegraph"] => Proto.loop stdin stdout DriverNodegraph.step DriverNodegraph.init; return 0
  | ["compare"] => Proto.loop stdin stdout DriverCompare.step DriverCompare.init; return 0
  | ["ani"] => Proto.loop stdin stdout DriverAni.step (); return 0
  | ["gather"] => Proto.loop stdin stdout DriverGather.step DriverGather.init; return 0
  | ["c20r"] => Proto.loop stdin stdout DriverC20r.step (); return 0
  | ["own"] => Proto.loop stdin stdout DriverOwn.stepLine Obj.World.empty; return 0
  | _ => IO.eprintln "usage: Main <module>"; return 2
