/-
Helper lemmas for C01 (and reused by C03/C04/C05/C14): the representation
invariant of the `MH` model and the `count` abstraction.

This file is the entry point; the material is split over
* `ListLemmas`   : `lowerBound`, `Sorted`, positional edits vs `zip` / `map`, `lastOr`
* `PairLemmas`   : association lists with ascending keys (`cnt`), `mergeP`, `interL`,
                   `inflateJoin`, `sortPairs`
* `MinHashBase`  : `Inv`, `count`, `Excl`, `pairs` through `insAt` / `dropL` / `modAt`,
                   `inv_new`, `inv_clear`, `inv_removeHash`
* `MinHashAdd`   : normal form of `addHashAb`, `inv_addHashAb` and the add / remove folds
* `MinHashCount` : `count_*`, `mem_iff_count_pos'`, `ext_of_count'`, order / batching independence
* `MinHashMerge` : `merge_ok`, `inv_merge`, `count_merge_scaled'`, `num_merge_take'`
* `MinHashNum`   : `num_add_take'`
* `MinHashOps`   : FFI glue, Python layer, `Sm.C01.Op` / `step`, `inv_foldl_step`
-/
import SmVerif.Lemmas.MinHashOps
