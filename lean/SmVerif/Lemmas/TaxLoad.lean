/-
C19 helper lemmas, part 13: `load_gather_results` groups the CSV rows by query name with a dictionary lookup; every
query ends up with ALL its rows of the file, in file order, wherever they stood between the rows of other queries.
-/
import SmVerif.Model.Tax
import Mathlib.Tactic.Ring

namespace Sm.Tax

set_option linter.unusedSimpArgs false
variable {κ β : Type} [DecidableEq κ]

/-- the rows stored under query `k` -/
def rowsOf (k : κ) (g : List (κ × List β)) : List β := (g.lookup k).getD []

theorem rowsOf_groupAdd (key k : κ) (x : β) (g : List (κ × List β)) :
    rowsOf k (groupAdd key x g) = if k = key then rowsOf k g ++ [x] else rowsOf k g := by
  induction g with
  | nil =>
    unfold groupAdd rowsOf
    by_cases h : k = key
    · subst h; simp [List.lookup]
    · have : (k == key) = false := by simpa using h
      simp [List.lookup, this, h]
  | cons p t ih =>
    obtain ⟨k0, l⟩ := p
    unfold groupAdd
    by_cases h0 : k0 = key
    · subst h0
      simp only [if_true]
      by_cases h : k = k0
      · subst h; simp [rowsOf, List.lookup]
      · have : (k == k0) = false := by simpa using h
        simp [rowsOf, List.lookup, this, h]
    · simp only [h0, if_false]
      by_cases h : k = k0
      · subst h
        have hne : ¬ k = key := h0
        simp [rowsOf, List.lookup, hne]
      · have hb : (k == k0) = false := by simpa using h
        have e1 : rowsOf k ((k0, l) :: groupAdd key x t) = rowsOf k (groupAdd key x t) := by
          simp [rowsOf, List.lookup, hb]
        have e2 : rowsOf k ((k0, l) :: t) = rowsOf k t := by simp [rowsOf, List.lookup, hb]
        rw [e1, e2, ih]

/-- **what the loader's grouping stores**: under each query name, the rows already there followed by that query's
rows of the file, in file order -/
theorem rowsOf_groupRows (rows : List (κ × β)) (acc : List (κ × List β)) (k : κ) :
    rowsOf k (groupRows rows acc) = rowsOf k acc ++ (rows.filter (fun r => decide (r.1 = k))).map Prod.snd := by
  unfold groupRows
  induction rows generalizing acc with
  | nil => simp
  | cons r rows ih =>
    simp only [List.foldl_cons]
    rw [ih, rowsOf_groupAdd]
    obtain ⟨k0, x⟩ := r
    by_cases h : k0 = k
    · subst h; simp [List.filter_cons, List.append_assoc]
    · have h' : ¬ k = k0 := fun e => h e.symm
      simp [List.filter_cons, h, h']

/-- a file no row of which is refused loads as its grouping -/
theorem loadFile_ok (failMissing : Bool) (missing : β → Bool) (seen : List κ) (rows : List (κ × β))
    (acc : List (κ × List β)) (hseen : ∀ r ∈ rows, seen.contains r.1 = false)
    (hmiss : ∀ r ∈ rows, (failMissing && missing r.2) = false) (hne : rows ≠ [] ∨ acc ≠ []) :
    loadFile failMissing missing seen rows acc = .ok (groupRows rows acc) := by
  induction rows generalizing acc with
  | nil =>
    unfold loadFile groupRows
    rcases hne with h | h
    · exact absurd rfl h
    · have : acc.isEmpty = false := by cases acc <;> simp_all
      simp [this]
  | cons r rows ih =>
    obtain ⟨k, x⟩ := r
    unfold loadFile
    have h1 := hseen (k, x) (List.mem_cons_self ..)
    have h2 := hmiss (k, x) (List.mem_cons_self ..)
    simp only at h1 h2
    simp only [h1, h2, Bool.false_eq_true, if_false]
    rw [ih _ (fun r hr => hseen r (List.mem_cons_of_mem _ hr)) (fun r hr => hmiss r (List.mem_cons_of_mem _ hr))]
    · rfl
    · right
      cases acc with
      | nil => simp [groupAdd]
      | cons p t =>
        obtain ⟨k0, l⟩ := p
        unfold groupAdd
        split <;> simp

end Sm.Tax
