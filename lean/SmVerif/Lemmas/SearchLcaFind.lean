/-
C06, `LCA_Database.find` end to end (plain search) for flat scaled sketches: after the exact
candidate selection (`lca_candidates`), every candidate is rescored with `count_common` and
`len(query + subject)`; those are the overlap and the union size of the two hash sets at the common
scaled value, so the score is the specification score of the pair, and the result is brute force.
-/
import SmVerif.Lemmas.SearchLca
import SmVerif.Lemmas.SearchContainer
import SmVerif.Lemmas.SetOpsApi
import Mathlib.Data.Finset.Card

namespace Sm.Search

open Sm MH

/-! ### `count_common` and `+` on two flat sketches at the same scaled -/

theorem countCommon_flat {a b : MH} {S : Nat} (ha : Flat a S) (hb : Flat b S)
    (hk : a.ksize = b.ksize) (hh : a.hf = b.hf) (hse : a.seed = b.seed) :
    a.countCommon b false = .ok (a.mins.filter (fun z => decide (z ∈ b.mins))).length := by
  unfold MH.countCommon
  rw [if_neg (by simp)]
  rw [checkCompatible_ok_of hk hh (by rw [ha.mh, hb.mh]) hse]
  simp only [bind, Except.bind, pure, Except.pure, interL_eq_filter ha.inv.sorted hb.inv.sorted]

theorem Flat.toScaled {s : MH} {S : Nat} (h : Flat s S) : Scaled s := ⟨h.inv, h.num, h.mh_ne⟩

/-- a duplicate-free list whose members are those of `A` or `B` has `|A| + |B| - |A ∩ B|` elements -/
theorem length_union {A B U : List Nat} (hA : Sorted A) (hB : Sorted B) (hU : Sorted U)
    (hmem : ∀ x, x ∈ U ↔ x ∈ A ∨ x ∈ B) :
    U.length = A.length + B.length - (A.filter (fun z => decide (z ∈ B))).length := by
  have nA := sorted_nodup hA
  have nB := sorted_nodup hB
  have nU := sorted_nodup hU
  have h := Finset.card_union_add_card_inter A.toFinset B.toFinset
  have e1 : U.toFinset = A.toFinset ∪ B.toFinset := by
    ext x; simp [hmem]
  have e2 : (A.filter (fun z => decide (z ∈ B))).length = (A.toFinset ∩ B.toFinset).card := by
    rw [← List.toFinset_card_of_nodup (nA.filter _)]
    congr 1
    ext x
    simp
  rw [← e1, List.toFinset_card_of_nodup nU, List.toFinset_card_of_nodup nA,
    List.toFinset_card_of_nodup nB, ← e2] at h
  omega

/-- `len(a + b)` -/
theorem pyAdd_flat {a b : MH} {S : Nat} (ha : Flat a S) (hb : Flat b S)
    (hk : a.ksize = b.ksize) (hh : a.hf = b.hf) (hse : a.seed = b.seed) :
    ∃ u, Py.add a b = .ok u ∧
      u.mins.length = a.mins.length + b.mins.length - (a.mins.filter (fun z => decide (z ∈ b.mins))).length := by
  -- the sum exists
  have hex : ∃ u, Py.add a b = .ok u := by
    unfold Py.add
    rw [if_neg (by simp [ha.num])]
    have hmk : Py.mkMinHash a.num a.ksize a.hf a.seed a.trackAbundance a.maxHash 0 =
        .ok (MH.new S a.ksize a.hf a.seed false 0) := by
      unfold Py.mkMinHash
      rw [if_neg (by simp)]
      simp only []
      rw [if_pos ha.mh_ne, ha.mh, scP_mhR ha.lo ha.hi, ha.num, ha.track]
      have := ha.lo
      rw [if_neg (by simp), if_neg (by omega)]
    obtain ⟨c, hc⟩ := merge_eq_ok_of (s := MH.new S a.ksize a.hf a.seed false 0) (o := a) rfl rfl
      (by show mhR S = a.maxHash; rw [ha.mh]) rfl
    have hcopy : Py.copy a = .ok c := by
      unfold Py.copy
      rw [hmk]
      exact hc
    have fc := merge_frame hc
    obtain ⟨u, hu⟩ := merge_eq_ok_of (s := c) (o := b) (fc.2.2.1.trans hk) (fc.2.2.2.2.1.trans hh)
      (by rw [fc.2.1]; show mhR S = b.maxHash; rw [hb.mh]) (fc.2.2.2.1.trans hse)
    exact ⟨u, by rw [hcopy]; exact hu⟩
  obtain ⟨u, hu⟩ := hex
  refine ⟨u, hu, ?_⟩
  obtain ⟨su, htr, _, _, hcount⟩ := pyAdd_spec ha.toScaled hb.inv hu
  apply length_union ha.inv.sorted hb.inv.sorted su.inv.sorted
  intro x
  rw [mem_iff_count_pos' su.inv, hcount, ha.track, mem_iff_count_pos' ha.inv, mem_iff_count_pos' hb.inv]
  simp only [Bool.false_eq_true, if_false]
  omega

/-! ### the loop over the candidates -/

/-- if every candidate can be looked up and scored, the loop is the generic scan over the
candidates with those scores -/
theorem lcaLoop_eq_scan (queryMh : MH) (prep : MH → Except SErr MH) (db : LcaDb) (m : Mode)
    (sc : Nat → Ratio) :
    ∀ (cands : List (Nat × Nat)) (js : JS), js.mode = m →
      (∀ p ∈ cands, ∃ s subjMh shared u, db.entries.lookup p.1 = some s ∧ prep s = .ok subjMh ∧
        queryMh.countCommon subjMh false = .ok shared ∧ Py.add queryMh subjMh = .ok u ∧
        sc p.1 = scoreFn m queryMh.mins.length shared subjMh.mins.length u.mins.length) →
      lcaLoop queryMh prep db js cands = .ok (scan js (cands.map (fun p => ⟨p.1, sc p.1⟩))) := by
  intro cands
  induction cands with
  | nil => intro js _ _; rfl
  | cons p rest ih =>
    intro js hm hall
    obtain ⟨idx, n⟩ := p
    obtain ⟨s, subjMh, shared, u, h1, h2, h3, h4, h5⟩ := hall (idx, n) List.mem_cons_self
    have hrest : ∀ js' : JS, js'.mode = m →
        lcaLoop queryMh prep db js' rest = .ok (scan js' (rest.map (fun p => ⟨p.1, sc p.1⟩))) :=
      fun js' hm' => ih js' hm' (fun p hp => hall p (List.mem_cons_of_mem _ hp))
    simp only [lcaLoop, List.map_cons, scan]
    simp only [] at h1 h5
    rw [h1]
    simp only []
    rw [h2]
    simp only []
    rw [h3, h4]
    simp only [liftE, hm, ← h5]
    by_cases hp : js.passes (sc idx) = true
    · rw [if_pos hp, if_pos hp, hrest _ ((collect_mode js _).trans hm)]
    · rw [if_neg hp, if_neg hp, hrest js hm]

theorem lookup_of_mem {es : List (Nat × MH)} (hn : (es.map Prod.fst).Nodup) {i : Nat} {s : MH}
    (h : (i, s) ∈ es) : es.lookup i = some s := by
  induction es with
  | nil => cases h
  | cons e rest ih =>
    obtain ⟨j, t⟩ := e
    simp only [List.map_cons, List.nodup_cons] at hn
    rcases List.mem_cons.1 h with heq | hmem
    · cases heq; simp [List.lookup]
    · have hne : i ≠ j := by
        intro e
        apply hn.1
        rw [← e]
        exact List.mem_map.2 ⟨(i, s), hmem, rfl⟩
      have : (i == j) = false := by simpa using hne
      simp only [List.lookup, this]
      exact ih hn.2 hmem

/-- **`LCA_Database.find`** is the scan over exactly the stored sketches that share a hash with the
query (after downsampling both to the coarser scaled), each once, scored with the specification
score of the pair -/
theorem findLCA_scored (js : JS) (db : LcaDb) (Sq : Nat) (q : MH) (hq : Flat q Sq)
    (hn : (db.entries.map Prod.fst).Nodup) (hSd : db.scaled ≤ 2 ^ 31)
    (hents : ∀ p ∈ db.entries, Flat p.2 db.scaled ∧ q.ksize = p.2.ksize ∧ q.hf = p.2.hf ∧ q.seed = p.2.seed) :
    ∃ H, findLCA db js q = .ok (scan js H) ∧
      Scored db.entries (fun s => specScore js.mode Sq db.scaled q.mins s.mins)
        (fun s => (specSizes (mhR (max Sq db.scaled)) q.mins s.mins).2.1) H := by
  obtain ⟨m, thr, best⟩ := js
  simp only []
  generalize hSdef : db.scaled = Sd at *
  have hcompat : (JS.mk m thr best).checkIsCompatible q = .ok () := by
    unfold JS.checkIsCompatible
    rw [hq.scaledProp, hq.track]
    have := hq.lo
    rw [if_neg (by omega), if_neg (by simp)]
  -- the prepared query and the subject preparation
  have hprep : ∃ (q' : MH) (prep : MH → Except SErr MH),
      findLCA db ⟨m, thr, best⟩ q = lcaLoop q' prep db ⟨m, thr, best⟩ (mostCommon (lcaCounter db q'.mins)) ∧
      Flat q' (max Sq Sd) ∧ q'.mins = q.mins.filter (fun x => decide (x ≤ mhR (max Sq Sd))) ∧
      q'.ksize = q.ksize ∧ q'.hf = q.hf ∧ q'.seed = q.seed ∧
      ∀ s, Flat s Sd → ∃ s', prep s = .ok s' ∧ Flat s' (max Sq Sd) ∧
        s'.mins = s.mins.filter (fun x => decide (x ≤ mhR (max Sq Sd))) ∧
        s'.ksize = s.ksize ∧ s'.hf = s.hf ∧ s'.seed = s.seed := by
    by_cases hgt : Sd > Sq
    · obtain ⟨r, h1, h2, h3, h4⟩ := downsample_flat hq (Nat.le_of_lt hgt) hSd
      have hmax : max Sq Sd = Sd := Nat.max_eq_right (Nat.le_of_lt hgt)
      refine ⟨r, fun x => .ok x, ?_, by rw [hmax]; exact h2, by rw [hmax]; exact h3, h4.1, h4.2.1, h4.2.2, ?_⟩
      · unfold findLCA
        rw [hcompat]
        simp only []
        rw [hSdef, hq.scaledProp, if_pos hgt, h1]
        rfl
      · intro s hs
        rw [hmax]
        exact ⟨s, rfl, hs, hs.filter_self.symm, rfl, rfl, rfl⟩
    · have hmax : max Sq Sd = Sq := Nat.max_eq_left (by omega)
      refine ⟨q, fun s => liftE (Py.downsample s none (some Sq)), ?_, by rw [hmax]; exact hq,
        by rw [hmax]; exact hq.filter_self.symm, rfl, rfl, rfl, ?_⟩
      · unfold findLCA
        rw [hcompat]
        simp only []
        rw [hSdef, hq.scaledProp, if_neg hgt]
        rfl
      · intro s hs
        rw [hmax]
        obtain ⟨r, h1, h2, h3, h4⟩ := downsample_flat hs (by omega : Sd ≤ Sq) hq.hi
        exact ⟨r, by show liftE (Py.downsample s none (some Sq)) = _; rw [h1]; rfl, h2, h3, h4.1, h4.2.1, h4.2.2⟩
  obtain ⟨q', prep, hfind, fq', mq', k1, k2, k3, hprepS⟩ := hprep
  obtain ⟨hcn, hcm⟩ := lca_candidates db hn q'.mins
  -- the score of a stored sketch
  have hsc : ∀ i s, (i, s) ∈ db.entries → ∃ subjMh shared u, db.entries.lookup i = some s ∧
      prep s = .ok subjMh ∧ q'.countCommon subjMh false = .ok shared ∧ Py.add q' subjMh = .ok u ∧
      specScore m Sq Sd q.mins s.mins = scoreFn m q'.mins.length shared subjMh.mins.length u.mins.length ∧
      shared = (q'.mins.filter (fun h => decide (h ∈ s.mins))).length ∧
      (specSizes (mhR (max Sq Sd)) q.mins s.mins).2.1 = shared := by
    intro i s hs
    obtain ⟨fs, c1, c2, c3⟩ := hents (i, s) hs
    obtain ⟨s', e1, f1, m1, j1, j2, j3⟩ := hprepS s fs
    have hk : q'.ksize = s'.ksize := by rw [k1, j1, c1]
    have hh : q'.hf = s'.hf := by rw [k2, j2, c2]
    have hse : q'.seed = s'.seed := by rw [k3, j3, c3]
    obtain ⟨u, hu, hlen⟩ := pyAdd_flat fq' f1 hk hh hse
    refine ⟨s', _, u, lookup_of_mem hn hs, e1, countCommon_flat fq' f1 hk hh hse, hu, ?_, ?_, ?_⟩
    · unfold specScore specSizes
      simp only []
      rw [← mq', ← m1, hlen]
    rotate_left
    · unfold specSizes
      simp only []
      rw [← mq', ← m1]
    · rw [m1]
      congr 1
      apply List.filter_congr
      intro h hm
      have hb := fq'.inv.bounded fq'.mh_ne h hm
      rw [fq'.mh] at hb
      simp [hb]
  -- a score per idx
  let sc : Nat → Ratio := fun i =>
    match db.entries.lookup i with
    | some s => specScore m Sq Sd q.mins s.mins
    | none => Ratio.zero
  have hscv : ∀ i s, (i, s) ∈ db.entries → sc i = specScore m Sq Sd q.mins s.mins := by
    intro i s hs
    show (match db.entries.lookup i with | some s => _ | none => _) = _
    rw [lookup_of_mem hn hs]
  have hloop := lcaLoop_eq_scan q' prep db m sc (mostCommon (lcaCounter db q'.mins)) ⟨m, thr, best⟩ rfl
    (by
      intro p hp
      obtain ⟨i, n⟩ := p
      obtain ⟨s, hs, _, _⟩ := (hcm i n).1 hp
      obtain ⟨subjMh, shared, u, a1, a2, a3, a4, a5, _⟩ := hsc i s hs
      exact ⟨s, subjMh, shared, u, a1, a2, a3, a4, by rw [hscv i s hs, a5]⟩)
  rw [hfind, hloop]
  refine ⟨(mostCommon (lcaCounter db q'.mins)).map (fun p => ⟨p.1, sc p.1⟩), rfl, ?_, ?_, ?_⟩
  · rw [List.map_map]
    exact hcn
  · intro x
    rw [List.mem_map]
    constructor
    · intro ⟨p, hp, hx⟩
      obtain ⟨i, n⟩ := p
      obtain ⟨s, hs, hn', hpos⟩ := (hcm i n).1 hp
      obtain ⟨_, shared, _, _, _, _, _, _, a6, a7⟩ := hsc i s hs
      subst hx
      exact ⟨s, hs, hscv i s hs, by rw [a7, a6, ← hn']; exact hpos⟩
    · intro ⟨s, hs, hxs, hpos⟩
      obtain ⟨_, shared, _, _, _, _, _, _, a6, a7⟩ := hsc x.idx s hs
      refine ⟨(x.idx, (q'.mins.filter (fun h => decide (h ∈ s.mins))).length),
        (hcm _ _).2 ⟨s, hs, rfl, by rw [← a6, ← a7]; exact hpos⟩, ?_⟩
      obtain ⟨xi, xs⟩ := x
      simp only [] at hxs hs ⊢
      rw [hxs, hscv xi s hs]
  · intro p _ hne
    unfold specScore at hne
    exact scoreFn_n_pos hne

end Sm.Search
