/-
Helper lemmas for C14: well-formed parameter strings.  A well-formed `-p` string is the rendering
(`,`-joined, decimal numbers) of a list of structured items; the parser reads it as the items'
own semantics (`parse_render`), and every accepted item list has a canonical form (molecule word,
k sizes in order, the last num/scaled, the last abund/noabund, the last seed) that the parser
reads to the same result (`canon_roundtrip`).
-/
import SmVerif.Lemmas.SketchParams

namespace Sm.Sketch

/-! ### decimal rendering and `int()` -/

def digitChar : Nat → Char
  | 0 => '0' | 1 => '1' | 2 => '2' | 3 => '3' | 4 => '4'
  | 5 => '5' | 6 => '6' | 7 => '7' | 8 => '8' | _ => '9'

/-- `str(n)` -/
def decDigits (n : Nat) : List Char :=
  if n < 10 then [digitChar n] else decDigits (n / 10) ++ [digitChar (n % 10)]
termination_by n
decreasing_by omega

theorem digitChar_facts : ∀ d, d < 10 →
    isDigit (digitChar d) = true ∧ (digitChar d).toNat - '0'.toNat = d ∧ isSpace (digitChar d) = false ∧
    digitChar d ≠ '-' ∧ digitChar d ≠ '+' ∧ digitChar d ≠ '_' ∧ digitChar d ≠ ',' := by
  decide

/-- every character is a decimal digit -/
def AllDC (l : List Char) : Prop := ∀ c ∈ l, ∃ d, d < 10 ∧ c = digitChar d

theorem decDigits_allDC (n : Nat) : AllDC (decDigits n) := by
  induction n using Nat.strongRecOn with
  | _ n ih =>
    rw [decDigits]
    split
    · intro c hc
      simp only [List.mem_singleton] at hc
      exact ⟨n, by assumption, hc⟩
    · intro c hc
      rcases List.mem_append.1 hc with h | h
      · exact ih (n / 10) (by omega) c h
      · simp only [List.mem_singleton] at h
        exact ⟨n % 10, by omega, h⟩

theorem decDigits_ne_nil (n : Nat) : decDigits n ≠ [] := by
  rw [decDigits]
  split <;> simp

theorem digitsVal_cons_digit {c : Char} (h : isDigit c = true) (cs : List Char) (acc : Nat) (pd : Bool) :
    digitsVal (c :: cs) acc pd = digitsVal cs (acc * 10 + (c.toNat - '0'.toNat)) true := by
  simp [digitsVal, h]

theorem digitsVal_decDigits (n : Nat) : ∀ (rest : List Char) (acc : Nat) (pd : Bool),
    digitsVal (decDigits n ++ rest) acc pd =
      digitsVal rest (acc * 10 ^ (decDigits n).length + n) true := by
  induction n using Nat.strongRecOn with
  | _ n ih =>
    intro rest acc pd
    rw [decDigits]
    split
    · rename_i h
      have hf := digitChar_facts n h
      simp only [List.singleton_append, List.length_singleton, Nat.pow_one]
      rw [digitsVal_cons_digit hf.1, hf.2.1]
    · rename_i h
      have hf := digitChar_facts (n % 10) (by omega)
      rw [List.append_assoc, ih (n / 10) (by omega)]
      simp only [List.singleton_append, List.length_append, List.length_singleton]
      rw [digitsVal_cons_digit hf.1, hf.2.1, Nat.pow_succ, ← Nat.mul_assoc]
      congr 1
      have := Nat.div_add_mod n 10
      generalize acc * 10 ^ (decDigits (n / 10)).length = X
      omega

theorem dropWhile_space_allDC {l : List Char} (h : AllDC l) : l.dropWhile isSpace = l := by
  cases l with
  | nil => rfl
  | cons c cs =>
    obtain ⟨d, hd, rfl⟩ := h c (by simp)
    simp [List.dropWhile, (digitChar_facts d hd).2.2.1]

theorem AllDC.reverse {l : List Char} (h : AllDC l) : AllDC l.reverse :=
  fun c hc => h c (List.mem_reverse.1 hc)

theorem pyInt_decDigits (n : Nat) : pyInt? (decDigits n) = some (n : Int) := by
  have hall := decDigits_allDC n
  unfold pyInt?
  simp only []
  rw [dropWhile_space_allDC hall, dropWhile_space_allDC hall.reverse, List.reverse_reverse]
  have hne := decDigits_ne_nil n
  cases hl : decDigits n with
  | nil => exact absurd hl hne
  | cons c cs =>
    obtain ⟨d, hd, rfl⟩ := hall c (by rw [hl]; simp)
    have hf := digitChar_facts d hd
    simp only []
    rw [if_neg hf.2.2.2.1, if_neg hf.2.2.2.2.1, if_pos hf.1, ← hl]
    have := digitsVal_decDigits n [] 0 false
    simp only [List.append_nil, Nat.zero_mul, Nat.zero_add] at this
    rw [this]
    rfl

/-! ### structured items -/

inductive Item where
  | abund | noabund
  | k (n : Nat) | num (n : Nat) | scaled (n : Nat) | seed (n : Nat)
  | mol (m : Mol)
deriving DecidableEq, Repr

def Item.render : Item → List Char
  | .abund => "abund".toList
  | .noabund => "noabund".toList
  | .k n => 'k' :: '=' :: decDigits n
  | .num n => 'n' :: 'u' :: 'm' :: '=' :: decDigits n
  | .scaled n => 's' :: 'c' :: 'a' :: 'l' :: 'e' :: 'd' :: '=' :: decDigits n
  | .seed n => 's' :: 'e' :: 'e' :: 'd' :: '=' :: decDigits n
  | .mol m => m.name.toList

/-- what an item means, given what earlier items of the same string have set -/
def Item.apply (st : Option Mol × Params) : Item → Except Reason (Option Mol × Params)
  | .abund => .ok (st.1, { st.2 with track := some true })
  | .noabund => .ok (st.1, { st.2 with track := some false })
  | .k n => .ok (st.1, { st.2 with ksize := st.2.ksize ++ [(n : Int)] })
  | .num n =>
    if truthy st.2.scaled then .error .numAfterScaled
    else .ok (st.1, { st.2 with num := some n, scaled := some 0 })
  | .scaled n =>
    if truthy st.2.num then .error .scaledAfterNum
    else match floatOfNat n with
      | none => .error .scaledTooBig
      | some f => .ok (st.1, { st.2 with scaled := some f, num := some 0 })
  | .seed n => .ok (st.1, { st.2 with seed := some (n : Int) })
  | .mol m => .ok (some m, st.2)

theorem length_decDigits_pos (n : Nat) : 0 < (decDigits n).length :=
  List.length_pos_iff.2 (decDigits_ne_nil n)

/-- **the parser reads a rendered item as the item's meaning** -/
theorem stepItem_render (st : Option Mol × Params) (it : Item) :
    stepItem st it.render = it.apply st := by
  have hp := fun n => pyInt_decDigits n
  have hl := fun n => length_decDigits_pos n
  cases it with
  | abund => rfl
  | noabund => rfl
  | k n =>
    unfold stepItem Item.render Item.apply
    have : ¬ ((decDigits n).length + 1 + 1 < 3) := by have := hl n; omega
    simp [hp n, this]
  | num n =>
    unfold stepItem Item.render Item.apply
    have : ¬ ((decDigits n).length + 1 + 1 + 1 + 1 < 5) := by have := hl n; omega
    simp [hp n, this]
    split <;> first | rfl | simp
  | scaled n =>
    unfold stepItem Item.render Item.apply
    have : ¬ ((decDigits n).length + 1 + 1 + 1 + 1 + 1 + 1 + 1 < 8) := by have := hl n; omega
    simp [hp n, this]
    split
    · rfl
    · cases floatOfNat n <;> simp
  | seed n =>
    unfold stepItem Item.render Item.apply
    have : ¬ ((decDigits n).length + 1 + 1 + 1 + 1 + 1 < 6) := by have := hl n; omega
    simp [hp n, this]
  | mol m => cases m <;> rfl

/-! ### strings of items -/

/-- `",".join(rendered items)` -/
def renderItems : List Item → List Char
  | [] => []
  | [it] => it.render
  | it :: rest => it.render ++ ',' :: renderItems rest

theorem splitOn_no_sep {a : List Char} (h : ',' ∉ a) : splitOn ',' a = [a] := by
  induction a with
  | nil => rfl
  | cons c cs ih =>
    have hc : c ≠ ',' := fun e => h (by simp [e])
    have := ih (fun e => h (List.mem_cons_of_mem _ e))
    simp only [splitOn, this, if_neg hc]

theorem splitOn_append_sep {a : List Char} (h : ',' ∉ a) (rest : List Char) :
    splitOn ',' (a ++ ',' :: rest) = a :: splitOn ',' rest := by
  induction a with
  | nil =>
    simp only [List.nil_append, splitOn]
    cases hs : splitOn ',' rest with
    | nil => simp
    | cons w ws => simp
  | cons c cs ih =>
    have hc : c ≠ ',' := fun e => h (by simp [e])
    have := ih (fun e => h (List.mem_cons_of_mem _ e))
    simp only [List.cons_append, splitOn, this, if_neg hc]

theorem comma_not_mem_decDigits (n : Nat) : ',' ∉ decDigits n := by
  intro h
  obtain ⟨d, hd, e⟩ := decDigits_allDC n ',' h
  exact (digitChar_facts d hd).2.2.2.2.2.2 e.symm

theorem comma_not_mem_render (it : Item) : ',' ∉ it.render := by
  have h := comma_not_mem_decDigits
  cases it with
  | abund => decide
  | noabund => decide
  | k n => simp [Item.render, h n]
  | num n => simp [Item.render, h n]
  | scaled n => simp [Item.render, h n]
  | seed n => simp [Item.render, h n]
  | mol m => cases m <;> decide

theorem splitOn_renderItems (items : List Item) (hne : items ≠ []) :
    splitOn ',' (renderItems items) = items.map Item.render := by
  induction items with
  | nil => exact absurd rfl hne
  | cons it rest ih =>
    cases rest with
    | nil => simp [renderItems, splitOn_no_sep (comma_not_mem_render it)]
    | cons it2 rest2 =>
      have := ih (by simp)
      simp only [renderItems] at this ⊢
      rw [splitOn_append_sep (comma_not_mem_render it), this]
      rfl

/-- the items' own semantics, left to right -/
def applyAll : List Item → Option Mol × Params → Except Reason (Option Mol × Params)
  | [], st => .ok st
  | it :: rest, st =>
    match it.apply st with
    | .ok st' => applyAll rest st'
    | .error e => .error e

theorem foldItems_render (items : List Item) (st : Option Mol × Params) :
    foldItems (items.map Item.render) st = applyAll items st := by
  induction items generalizing st with
  | nil => rfl
  | cons it rest ih =>
    simp only [List.map_cons, foldItems, applyAll, stepItem_render]
    cases it.apply st with
    | ok st' => exact ih st'
    | error e => rfl

/-- **a well-formed parameter string is read as its items mean** -/
theorem parse_render (items : List Item) (hne : items ≠ []) :
    parseParamsStr (renderItems items) = applyAll items (none, {}) := by
  unfold parseParamsStr
  rw [splitOn_renderItems items hne, foldItems_render]

/-! ### canonical form -/

/-- what a list of items amounts to: the last molecule word, the k sizes in order, the last
abund/noabund, the last num (`true`) or scaled (`false`) with its number, the last seed -/
structure Summary where
  mol : Option Mol := none
  ks : List Nat := []
  track : Option Bool := none
  sz : Option (Bool × Nat) := none
  seed : Option Nat := none
deriving DecidableEq, Repr

def Summary.add (s : Summary) : Item → Summary
  | .abund => { s with track := some true }
  | .noabund => { s with track := some false }
  | .k n => { s with ks := s.ks ++ [n] }
  | .num n => { s with sz := some (true, n) }
  | .scaled n => { s with sz := some (false, n) }
  | .seed n => { s with seed := some n }
  | .mol m => { s with mol := some m }

def summarize (items : List Item) : Summary := items.foldl Summary.add {}

def szItems : Option (Bool × Nat) → List Item
  | some (true, n) => [Item.num n]
  | some (false, n) => [Item.scaled n]
  | none => []

def szNum : Option (Bool × Nat) → Option Nat
  | some (true, n) => some n
  | some (false, _) => some 0
  | none => none

def szScaled : Option (Bool × Nat) → Option Nat
  | some (true, _) => some 0
  | some (false, n) => some ((floatOfNat n).getD 0)
  | none => none

/-- the parser state a summary stands for -/
def Summary.state (s : Summary) : Option Mol × Params :=
  (s.mol,
   { ksize := s.ks.map (fun (n : Nat) => (n : Int)),
     track := s.track,
     num := szNum s.sz,
     scaled := szScaled s.sz,
     seed := s.seed.map (fun (n : Nat) => (n : Int)) })

/-- the canonical item list: molecule word, k sizes, num or scaled, abund/noabund, seed -/
def Summary.canon (s : Summary) : List Item :=
  (match s.mol with | some m => [Item.mol m] | none => []) ++
  s.ks.map Item.k ++
  szItems s.sz ++
  (match s.track with | some true => [Item.abund] | some false => [Item.noabund] | none => []) ++
  (match s.seed with | some n => [Item.seed n] | none => [])

theorem apply_state {s : Summary} {it : Item} {r : Option Mol × Params}
    (h : it.apply s.state = .ok r) : r = (s.add it).state := by
  cases it with
  | abund => simp only [Item.apply, Except.ok.injEq] at h; subst h; rfl
  | noabund => simp only [Item.apply, Except.ok.injEq] at h; subst h; rfl
  | k n =>
    simp only [Item.apply, Except.ok.injEq] at h; subst h
    simp [Summary.state, Summary.add]
  | num n =>
    simp only [Item.apply] at h
    split at h
    · cases h
    · simp only [Except.ok.injEq] at h; subst h; rfl
  | scaled n =>
    simp only [Item.apply] at h
    split at h
    · cases h
    · split at h
      · cases h
      · rename_i f hf
        simp only [Except.ok.injEq] at h; subst h
        simp [Summary.state, Summary.add, hf, szNum, szScaled]
  | seed n => simp only [Item.apply, Except.ok.injEq] at h; subst h; rfl
  | mol m => simp only [Item.apply, Except.ok.injEq] at h; subst h; rfl

theorem applyAll_state {items : List Item} {s : Summary} {r : Option Mol × Params}
    (h : applyAll items s.state = .ok r) : r = (items.foldl Summary.add s).state := by
  induction items generalizing s with
  | nil => simp only [applyAll, Except.ok.injEq] at h; exact h.symm
  | cons it rest ih =>
    simp only [applyAll] at h
    cases ha : it.apply s.state with
    | error e => rw [ha] at h; cases h
    | ok st' =>
      rw [ha] at h
      rw [apply_state ha] at h
      exact ih h

/-- a scaled value that was accepted converts to a float -/
def Summary.Floats (s : Summary) : Prop := ∀ n, s.sz = some (false, n) → (floatOfNat n).isSome

theorem apply_floats {s : Summary} {it : Item} {r : Option Mol × Params} (hs : s.Floats)
    (h : it.apply s.state = .ok r) : (s.add it).Floats := by
  cases it with
  | scaled n =>
    simp only [Item.apply] at h
    split at h
    · cases h
    · split at h
      · cases h
      · rename_i f hf
        intro m hm
        simp only [Summary.add, Option.some.injEq, Prod.mk.injEq, true_and] at hm
        subst hm
        simp [hf]
  | num n => intro m hm; simp [Summary.add] at hm
  | abund => exact hs
  | noabund => exact hs
  | k n => exact hs
  | seed n => exact hs
  | mol m => exact hs

theorem applyAll_floats {items : List Item} {s : Summary} {r : Option Mol × Params} (hs : s.Floats)
    (h : applyAll items s.state = .ok r) : (items.foldl Summary.add s).Floats := by
  induction items generalizing s with
  | nil => exact hs
  | cons it rest ih =>
    simp only [applyAll] at h
    cases ha : it.apply s.state with
    | error e => rw [ha] at h; cases h
    | ok st' =>
      rw [ha] at h
      rw [apply_state ha] at h
      exact ih (apply_floats hs ha) h

theorem applyAll_append (a b : List Item) (st : Option Mol × Params) :
    applyAll (a ++ b) st = match applyAll a st with
      | .ok st' => applyAll b st'
      | .error e => .error e := by
  induction a generalizing st with
  | nil => rfl
  | cons it rest ih =>
    simp only [List.cons_append, applyAll]
    cases it.apply st with
    | ok st' => exact ih st'
    | error e => rfl

theorem applyAll_ks (ks : List Nat) (st : Option Mol × Params) :
    applyAll (ks.map Item.k) st =
      .ok (st.1, { st.2 with ksize := st.2.ksize ++ ks.map (fun (n : Nat) => (n : Int)) }) := by
  induction ks generalizing st with
  | nil => simp [applyAll]
  | cons k ks ih =>
    simp only [List.map_cons, applyAll, Item.apply]
    rw [ih]
    simp

theorem applyAll_sz (mol : Option Mol) (sz : Option (Bool × Nat)) (p0 : Params)
    (hn : p0.num = none) (hsc : p0.scaled = none)
    (hfz : ∀ n, sz = some (false, n) → (floatOfNat n).isSome) :
    applyAll (szItems sz) (mol, p0) = .ok (mol, { p0 with num := szNum sz, scaled := szScaled sz }) := by
  cases sz with
  | none =>
    obtain ⟨a, b, c, d, e⟩ := p0
    simp only at hn hsc
    subst hn hsc
    rfl
  | some q =>
    obtain ⟨b, n⟩ := q
    cases b with
    | true => simp [applyAll, Item.apply, truthy, hsc, szItems, szNum, szScaled]
    | false =>
      have := hfz n rfl
      cases hfl : floatOfNat n with
      | none => rw [hfl] at this; cases this
      | some f => simp [applyAll, Item.apply, truthy, hn, hfl, szItems, szNum, szScaled]

/-- the canonical items of a summary are accepted and produce the summary's state -/
theorem applyAll_canon (s : Summary) (hf : s.Floats) : applyAll s.canon (none, {}) = .ok s.state := by
  obtain ⟨mol, ks, track, sz, seed⟩ := s
  have hfz : ∀ n, sz = some (false, n) → (floatOfNat n).isSome := hf
  clear hf
  unfold Summary.canon
  simp only [applyAll_append]
  have h1 : applyAll (match mol with | some m => [Item.mol m] | none => []) (none, {}) =
      .ok (mol, ({} : Params)) := by cases mol <;> rfl
  rw [h1]
  simp only [applyAll_ks]
  rw [applyAll_sz mol sz _ rfl rfl hfz]
  simp only []
  cases track with
  | none => cases seed <;> simp [applyAll, Item.apply, Summary.state]
  | some t => cases t <;> cases seed <;> simp [applyAll, Item.apply, Summary.state]

def Summary.NonTrivial (s : Summary) : Prop :=
  s.mol.isSome ∨ s.ks ≠ [] ∨ s.track.isSome ∨ s.sz.isSome ∨ s.seed.isSome

theorem nonTrivial_add (s : Summary) (it : Item) : (s.add it).NonTrivial := by
  cases it <;> simp [Summary.add, Summary.NonTrivial]

theorem nonTrivial_add_of (s : Summary) (h : s.NonTrivial) (it : Item) : (s.add it).NonTrivial :=
  nonTrivial_add s it

theorem nonTrivial_foldl (items : List Item) (s : Summary) (h : s.NonTrivial ∨ items ≠ []) :
    (items.foldl Summary.add s).NonTrivial := by
  induction items generalizing s with
  | nil => rcases h with h | h; exact h; exact absurd rfl h
  | cons it rest ih => exact ih _ (Or.inl (nonTrivial_add s it))

theorem canon_ne_nil (s : Summary) (h : s.NonTrivial) : s.canon ≠ [] := by
  obtain ⟨mol, ks, track, sz, seed⟩ := s
  unfold Summary.canon
  rcases h with h | h | h | h | h
  · cases mol with
    | none => simp at h
    | some m => simp
  · cases ks with
    | nil => exact absurd rfl h
    | cons k ks => simp
  · cases track with
    | none => simp at h
    | some t => cases t <;> simp
  · cases sz with
    | none => simp at h
    | some q => obtain ⟨b, n⟩ := q; cases b <;> simp [szItems]
  · cases seed with
    | none => simp at h
    | some n => simp

/-- **every accepted item list round-trips through its canonical form**: the canonical items are
accepted too and the parser state they produce is the same -/
theorem canon_roundtrip (items : List Item) (r : Option Mol × Params)
    (h : applyAll items (none, {}) = .ok r) :
    applyAll (summarize items).canon (none, {}) = .ok r := by
  have h0 : ((none, {}) : Option Mol × Params) = ({} : Summary).state := rfl
  rw [h0] at h
  have hs := applyAll_state h
  have hfl := applyAll_floats (s := {}) (fun n hn => by simp at hn) h
  unfold summarize
  rw [applyAll_canon _ hfl, hs]

end Sm.Sketch
