/-
Basic facts about the zip model of `Model/Storage.lean`: `read`/`upsert`/`unionZip` as finite maps,
termination (fuel sufficiency) of the `_n` suffix search, specification of `_generate_filename`.
-/
import SmVerif.Model.Storage

namespace Sm.Storage

/-! ### finite-map laws -/

theorem read_upsert (z : Zip) (n : Name) (c : Content) (m : Name) :
    read (upsert z n c) m = if m = n then some c else read z m := by
  induction z with
  | nil =>
    simp only [upsert, read]
    by_cases h : m = n
    · simp [h]
    · have : ¬ n = m := fun e => h e.symm
      simp [h, this]
  | cons e t ih =>
    obtain ⟨k, d⟩ := e
    by_cases hk : k = n
    · subst hk
      simp only [upsert, if_true, read]
      by_cases h : m = k
      · simp [h]
      · have : ¬ k = m := fun e => h e.symm
        simp [h, this]
    · simp only [upsert, hk, if_false, read]
      by_cases h : k = m
      · subst h; simp [hk]
      · simp only [h, if_false, ih]

theorem read_eq_none_iff (z : Zip) (n : Name) : read z n = none ↔ n ∉ names z := by
  induction z with
  | nil => simp [read, names]
  | cons e t ih =>
    obtain ⟨k, d⟩ := e
    by_cases h : k = n
    · subst h; simp [read, names]
    · have h' : ¬ n = k := fun e => h e.symm
      simp only [read, h, if_false, ih, names, List.map_cons, List.mem_cons, h', false_or]

theorem read_ne_none_mem (z : Zip) (n : Name) (h : read z n ≠ none) : n ∈ names z := by
  apply Classical.byContradiction
  intro hn
  exact h ((read_eq_none_iff z n).2 hn)

theorem names_upsert_nodup (z : Zip) (n : Name) (c : Content) (h : (names z).Nodup) :
    (names (upsert z n c)).Nodup := by
  induction z with
  | nil => simp [upsert, names]
  | cons e t ih =>
    obtain ⟨k, d⟩ := e
    simp only [names, List.map_cons, List.nodup_cons] at h
    by_cases hk : k = n
    · subst hk
      simp only [upsert, if_true, names, List.map_cons, List.nodup_cons]
      exact h
    · simp only [upsert, hk, if_false, names, List.map_cons, List.nodup_cons]
      refine ⟨?_, ih h.2⟩
      intro hmem
      have : read (upsert t n c) k ≠ none := by
        intro hr
        exact ((read_eq_none_iff _ _).1 hr) hmem
      rw [read_upsert] at this
      simp only [hk, if_false] at this
      exact h.1 (read_ne_none_mem t k this)

theorem length_upsert_le (z : Zip) (n : Name) (c : Content) : (upsert z n c).length ≤ z.length + 1 := by
  induction z with
  | nil => simp [upsert]
  | cons e t ih =>
    obtain ⟨k, d⟩ := e
    by_cases hk : k = n
    · simp [upsert, hk]
    · simp only [upsert, hk, if_false, List.length_cons]; omega

/-- `flush`: the buffer wins, name by name -/
theorem read_unionZip (zf b : Zip) (hb : (names b).Nodup) (n : Name) :
    read (unionZip zf b) n = match read b n with
      | some c => some c
      | none => read zf n := by
  induction b generalizing zf with
  | nil => simp [unionZip, read]
  | cons e t ih =>
    obtain ⟨k, d⟩ := e
    simp only [names, List.map_cons, List.nodup_cons] at hb
    have ih' := ih (upsert zf k d) hb.2
    simp only [unionZip, List.foldl_cons] at ih' ⊢
    rw [ih', read_upsert]
    by_cases h : k = n
    · subst h
      have : read t k = none := (read_eq_none_iff t k).2 hb.1
      simp [read, this]
    · have h' : ¬ n = k := fun e => h e.symm
      simp [read, h, h']

/-! ### the suffix search terminates within `len(zf) + 1` probes -/

theorem filter_succ_lt (S : List Nat) (n : Nat) (h : n ∈ S) :
    (S.filter (fun k => n + 1 ≤ k)).length < (S.filter (fun k => n ≤ k)).length := by
  induction S with
  | nil => simp at h
  | cons x t ih =>
    have mono : (t.filter (fun k => n + 1 ≤ k)).length ≤ (t.filter (fun k => n ≤ k)).length := by
      clear ih h
      induction t with
      | nil => simp
      | cons y u ihu =>
        simp only [List.filter_cons]
        by_cases h1 : n + 1 ≤ y
        · have h2 : n ≤ y := by omega
          simp [h1, h2]; exact ihu
        · by_cases h2 : n ≤ y
          · simp [h1, h2]; omega
          · simp [h1, h2]; exact ihu
    simp only [List.filter_cons]
    by_cases hx : x = n
    · subst hx
      have h1 : ¬ (x + 1 ≤ x) := by omega
      simp [h1]; omega
    · have hmem : n ∈ t := by
        simp only [List.mem_cons] at h
        rcases h with h | h
        · exact absurd h.symm hx
        · exact h
      have := ih hmem
      by_cases h1 : n + 1 ≤ x
      · have h2 : n ≤ x := by omega
        simp [h1, h2]; exact this
      · by_cases h2 : n ≤ x
        · simp [h1, h2]; omega
        · simp [h1, h2]; exact this

/-- pigeonhole: if every busy index is in `S` and the fuel exceeds the number of indices `≥ n` in `S`,
    the search stops on a non-busy index (the fuel-exhausted exit is never taken) -/
theorem searchFrom_not_busy (busy : Nat → Bool) (S : List Nat) (hS : ∀ k, busy k = true → k ∈ S) :
    ∀ fuel n, (S.filter (fun k => n ≤ k)).length < fuel → busy (searchFrom busy fuel n) = false := by
  intro fuel
  induction fuel with
  | zero => intro n h; omega
  | succ f ih =>
    intro n h
    simp only [searchFrom]
    by_cases hb : busy n = true
    · simp only [hb, if_true]
      apply ih
      have := filter_succ_lt S n (hS n hb)
      omega
    · simp only [hb]
      simpa using hb

/-- the suffixes `k` such that `<md5>_<k>` is one of the given names -/
def suffixesOf (md5 : Nat) (N : List Name) : List Nat :=
  N.filterMap fun nm => match nm with
    | .sig ⟨m, some k⟩ => if m = md5 then some k else none
    | _ => none

theorem mem_suffixesOf (md5 k : Nat) (N : List Name) (h : Name.sig ⟨md5, some k⟩ ∈ N) :
    k ∈ suffixesOf md5 N := by
  simp only [suffixesOf, List.mem_filterMap]
  exact ⟨_, h, by simp⟩

theorem length_suffixesOf_le (md5 : Nat) (N : List Name) : (suffixesOf md5 N).length ≤ N.length := by
  simp only [suffixesOf]
  exact List.length_filterMap_le _ _

/-! ### specification of `_generate_filename` -/

theorem probe_same {rd : Name → Option Content} {n : Name} {c : Content} (h : probe rd n c = .same) :
    rd n = some c := by
  unfold probe at h
  split at h
  · cases h
  · rename_i d hd
    by_cases e : d = c
    · subst e; exact hd
    · simp [e] at h

theorem probe_absent {rd : Name → Option Content} {n : Name} {c : Content} (h : probe rd n c = .absent) :
    rd n = none := by
  unfold probe at h
  split at h
  · assumption
  · rename_i d hd
    by_cases e : d = c <;> simp [e] at h

theorem probe_differs_ne_none {rd : Name → Option Content} {n : Name} {c : Content}
    (h : probe rd n c = .differs) : rd n ≠ none := by
  unfold probe at h
  split at h
  · cases h
  · rename_i d hd
    rw [hd]; simp

/-- what `_generate_filename` guarantees, for whatever `_content_matches` can see (`rd`): the name is
    `<md5>` or `<md5>_<n>`; "do not write" means the content is already there under that name; "write"
    means that name is free *as far as `rd` can see*.  `N` bounds the names `rd` knows. -/
theorem genNameR_spec (rd : Name → Option Content) (N : List Name) (hN : ∀ n, rd n ≠ none → n ∈ N)
    (fuel : Nat) (hfuel : N.length < fuel) (md5 : Nat) (c : Content) :
    (∃ sfx, (genNameR rd fuel md5 c).1 = .sig ⟨md5, sfx⟩) ∧
    ((genNameR rd fuel md5 c).2 = false → rd (genNameR rd fuel md5 c).1 = some c) ∧
    ((genNameR rd fuel md5 c).2 = true → rd (genNameR rd fuel md5 c).1 = none) := by
  unfold genNameR
  cases h0 : probe rd (.sig ⟨md5, none⟩) c with
  | same =>
    simp only [h0]
    exact ⟨⟨none, rfl⟩, fun _ => probe_same h0, fun h => by simp at h⟩
  | absent =>
    simp only [h0]
    exact ⟨⟨none, rfl⟩, fun h => by simp at h, fun _ => probe_absent h0⟩
  | differs =>
    simp only [h0]
    -- the search ends on an index that is not "occupied by different content"
    have hbusy : (decide (probe rd (.sig ⟨md5, some (searchFrom
        (fun n => decide (probe rd (.sig ⟨md5, some n⟩) c = .differs)) fuel 0)⟩) c = .differs)) = false := by
      apply searchFrom_not_busy (fun n => decide (probe rd (.sig ⟨md5, some n⟩) c = .differs)) (suffixesOf md5 N)
      · intro k hk
        have hk' : probe rd (.sig ⟨md5, some k⟩) c = .differs := by simpa using hk
        exact mem_suffixesOf md5 k N (hN _ (probe_differs_ne_none hk'))
      · have h1 : ((suffixesOf md5 N).filter (fun k => 0 ≤ k)).length ≤ (suffixesOf md5 N).length :=
          List.length_filter_le _ _
        have h2 := length_suffixesOf_le md5 N
        omega
    cases h1 : probe rd (.sig ⟨md5, some (searchFrom
        (fun n => decide (probe rd (.sig ⟨md5, some n⟩) c = .differs)) fuel 0)⟩) c with
    | same =>
      simp only
      exact ⟨⟨_, rfl⟩, fun _ => probe_same h1, fun h => by simp at h⟩
    | absent =>
      simp only
      exact ⟨⟨_, rfl⟩, fun h => by simp at h, fun _ => probe_absent h1⟩
    | differs => simp [h1] at hbusy

theorem genName_spec (zf : Zip) (md5 : Nat) (c : Content) :
    (∃ sfx, (genName zf md5 c).1 = .sig ⟨md5, sfx⟩) ∧
    ((genName zf md5 c).2 = false → read zf (genName zf md5 c).1 = some c) ∧
    ((genName zf md5 c).2 = true → read zf (genName zf md5 c).1 = none) := by
  unfold genName
  apply genNameR_spec (read zf) (names zf) (fun n h => read_ne_none_mem zf n h)
  simp [names]

theorem genNameBoth_spec (zf b : Zip) (md5 : Nat) (c : Content) :
    let r := genNameR (readBoth zf b) (zf.length + b.length + 1) md5 c
    (∃ sfx, r.1 = .sig ⟨md5, sfx⟩) ∧ (r.2 = false → readBoth zf b r.1 = some c) ∧
    (r.2 = true → readBoth zf b r.1 = none) := by
  apply genNameR_spec (readBoth zf b) (names zf ++ names b)
  · intro n h
    unfold readBoth at h
    cases hz : read zf n with
    | some d => exact List.mem_append_left _ (read_ne_none_mem zf n (by simp [hz]))
    | none =>
      simp only [hz] at h
      exact List.mem_append_right _ (read_ne_none_mem b n h)
  · simp [names]

/-! ### more about the suffix search: everything it walked past was occupied by OTHER content -/

theorem searchFrom_prefix_busy (busy : Nat → Bool) : ∀ fuel n j, n ≤ j → j < searchFrom busy fuel n →
    busy j = true := by
  intro fuel
  induction fuel with
  | zero => intro n j h1 h2; simp only [searchFrom] at h2; omega
  | succ f ih =>
    intro n j h1 h2
    simp only [searchFrom] at h2
    by_cases hb : busy n = true
    · simp only [hb, if_true] at h2
      by_cases e : j = n
      · rw [e]; exact hb
      · exact ih (n + 1) j (by omega) h2
    · simp only [hb] at h2
      simp at h2; omega

/-- the name handed out is `<md5>`, or `<md5>_k` where `<md5>` and every `<md5>_j`, `j < k`, exist (as far
    as `rd` can see) and hold content different from `c` -/
theorem genNameR_chain (rd : Name → Option Content) (fuel md5 : Nat) (c : Content) (k : Nat)
    (h : (genNameR rd fuel md5 c).1 = .sig ⟨md5, some k⟩) :
    (∃ d, rd (.sig ⟨md5, none⟩) = some d ∧ d ≠ c) ∧ ∀ j, j < k → ∃ d, rd (.sig ⟨md5, some j⟩) = some d ∧ d ≠ c := by
  have hdiff : ∀ n, probe rd n c = .differs → ∃ d, rd n = some d ∧ d ≠ c := by
    intro n hp
    unfold probe at hp
    split at hp
    · cases hp
    · rename_i d hd
      by_cases e : d = c
      · simp [e] at hp
      · exact ⟨d, hd, e⟩
  unfold genNameR at h
  cases h0 : probe rd (.sig ⟨md5, none⟩) c with
  | same => simp [h0] at h
  | absent => simp [h0] at h
  | differs =>
    simp only [h0] at h
    have hk : searchFrom (fun n => decide (probe rd (.sig ⟨md5, some n⟩) c = .differs)) fuel 0 = k := by
      cases h1 : probe rd (.sig ⟨md5, some (searchFrom
          (fun n => decide (probe rd (.sig ⟨md5, some n⟩) c = .differs)) fuel 0)⟩) c <;>
        simp only [h1] at h <;> injection h with h <;> injection h with _ h <;> injection h
    refine ⟨hdiff _ h0, ?_⟩
    intro j hj
    have := searchFrom_prefix_busy (fun n => decide (probe rd (.sig ⟨md5, some n⟩) c = .differs)) fuel 0 j
      (Nat.zero_le _) (by rw [hk]; exact hj)
    exact hdiff _ (by simpa using this)

theorem names_unionZip_nodup (b : Zip) : ∀ zf : Zip, (names zf).Nodup → (names (unionZip zf b)).Nodup := by
  induction b with
  | nil => intro zf h; exact h
  | cons e t ih =>
    intro zf h
    simp only [unionZip, List.foldl_cons]
    exact ih _ (names_upsert_nodup zf e.1 e.2 h)

theorem mem_of_read {z : Zip} {n : Name} {c : Content} (h : read z n = some c) : (n, c) ∈ z := by
  induction z with
  | nil => simp [read] at h
  | cons e t ih =>
    obtain ⟨k, d⟩ := e
    by_cases hk : k = n
    · subst hk; simp only [read, if_true, Option.some.injEq] at h; subst h; simp
    · simp only [read, hk, if_false] at h
      exact List.mem_cons_of_mem _ (ih h)

theorem read_of_mem {z : Zip} (hnd : (names z).Nodup) {n : Name} {c : Content} (h : (n, c) ∈ z) :
    read z n = some c := by
  induction z with
  | nil => cases h
  | cons e t ih =>
    obtain ⟨k, d⟩ := e
    simp only [names, List.map_cons, List.nodup_cons] at hnd
    simp only [List.mem_cons, Prod.mk.injEq] at h
    rcases h with ⟨e1, e2⟩ | h
    · subst e1; subst e2; simp [read]
    · have hk : k ≠ n := by
        intro e; subst e
        exact hnd.1 (List.mem_map.2 ⟨(k, c), h, rfl⟩)
      simp only [read, hk, if_false]
      exact ih hnd.2 h

end Sm.Storage
