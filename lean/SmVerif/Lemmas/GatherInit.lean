/-
Establishing the invariants: `GatherDatabases.__init__`, `Index.prefetch`,
`Index.counter_gather` on list sketches.
-/
import SmVerif.Lemmas.GatherRun

set_option autoImplicit false

namespace Sm.Gather

open Sm

theorem diffL_nil (l : List Nat) : diffL l [] = l := by
  unfold diffL
  apply filter_eq_self_of_forall
  intro x _; simp [inL]

theorem lsOps_copyAndClear (s : LS) :
    lsOps.copyAndClear s = .ok { s with hs := [], ab := s.ab.map (fun _ => []) } := rfl

theorem lsOps_track (s : LS) : lsOps.track s = s.ab.isSome := rfl
theorem lsOps_pairs (s : LS) : lsOps.pairs s = s.pairs := rfl

theorem wsum_nil (d : List (Nat × Nat)) : wsum d [] = 0 := rfl

/-- `GatherDatabases.__init__(query, counters, threshold_bp=, ignore_abundance=)` (no ident / noident
sketches) on a well-formed query -/
theorem init_plain {q : LS} (hq : q.WF) {counters : List (CObj LS)} {thr : Nat} {ign : Bool} {g : GD LS}
    (h : GD.init lsOps q counters thr ign none none = .ok g) :
    g.query.hs = q.hs ∧ g.query.scaled = q.scaled ∧ g.cmpScaled = q.scaled ∧ g.counters = counters ∧
    g.thresholdBp = thr ∧ g.origSigMh = q ∧ g.resultN = 0 ∧
    g.trackAbundance = (q.ab.isSome && !ign) ∧
    g.origQueryAbunds = (if (q.ab.isSome && !ign) then q.pairs else q.hs.map (fun h => (h, 1))) ∧
    g.origQueryMh.hs = dn q.scaled q.hs ∧ g.origQueryMh.scaled = q.scaled ∧
    g.noidentMh.hs = dn q.scaled [] ∧ g.noidentMh.scaled = q.scaled ∧
    g.noidentSum = wsum g.origQueryAbunds (dn q.scaled []) ∧
    g.totalWeighted = wsum g.origQueryAbunds (dn q.scaled q.hs) + g.noidentSum := by
  unfold GD.init at h
  simp only [lsOps_copyAndClear, lsOps_flat, lsOps_toMutable, lsOps_removeFrom, lsOps_scaled] at h
  cases hu : GD.updateScaled lsOps
      { origSigMh := q,
        query := (LS.removeFrom q { scaled := q.scaled, hs := [], ab := Option.map (fun _ => []) q.ab }).flat,
        counters := counters, thresholdBp := thr, trackAbundance := lsOps.track q && !ign,
        origQueryMh := (LS.removeFrom q { scaled := q.scaled, hs := [], ab := Option.map (fun _ => []) q.ab }).flat,
        origQueryAbunds := if (lsOps.track q && !ign) = true then lsOps.pairs q
          else List.map (fun h => (h, 1)) (lsOps.mins q),
        noidentMh := { scaled := q.scaled, hs := [], ab := Option.map (fun _ => []) q.ab },
        cmpScaled := 0, noidentSum := 0, totalWeighted := 0, resultN := 0 }
      (LS.removeFrom q { scaled := q.scaled, hs := [], ab := Option.map (fun _ => []) q.ab }).flat.scaled with
  | error e => rw [hu] at h; cases h
  | ok g1 =>
    rw [hu] at h
    simp only [Except.ok.injEq] at h
    subst h
    obtain ⟨u1, u2, u3, u4, u5, u6, u7, u8, _, u10⟩ := updateScaled_ls hu
    simp only [] at u1 u2 u3 u4 u5 u6 u7 u8 u10
    have hsc : (LS.removeFrom q { scaled := q.scaled, hs := [], ab := Option.map (fun _ => []) q.ab }).flat.scaled
        = q.scaled := rfl
    have hhs : (LS.removeFrom q { scaled := q.scaled, hs := [], ab := Option.map (fun _ => []) q.ab }).flat.hs
        = q.hs := by
      show diffL q.hs [] = q.hs
      exact diffL_nil _
    rw [hsc] at u1 u10
    have hne : (0 : Nat) ≠ max 0 q.scaled := by have := hq.lo; omega
    obtain ⟨_, _, v3, v4, v5, v6⟩ := u10 hne
    have hcs : g1.cmpScaled = q.scaled := by rw [u1]; omega
    refine ⟨by rw [u2]; exact hhs, by rw [u2]; exact hsc, hcs, u3, u5, u4, u6, u8, u7, ?_, ?_, ?_, ?_, ?_, ?_⟩
    · rw [v3, LS.dsv_hs, hhs]
    · rw [v3]; rfl
    · rw [v4]; rfl
    · rw [v4]; rfl
    · rw [v5, u7]
    · rw [v6, hhs, u7]

/-- the query the rounds start from is flat -/
theorem init_plain_flat {q : LS} {counters : List (CObj LS)} {thr : Nat} {ign : Bool} {g : GD LS}
    (h : GD.init lsOps q counters thr ign none none = .ok g) : g.query.ab = none := by
  unfold GD.init at h
  simp only [lsOps_copyAndClear, lsOps_flat, lsOps_toMutable, lsOps_removeFrom, lsOps_scaled] at h
  cases hu : GD.updateScaled lsOps
      { origSigMh := q,
        query := (LS.removeFrom q { scaled := q.scaled, hs := [], ab := Option.map (fun _ => []) q.ab }).flat,
        counters := counters, thresholdBp := thr, trackAbundance := lsOps.track q && !ign,
        origQueryMh := (LS.removeFrom q { scaled := q.scaled, hs := [], ab := Option.map (fun _ => []) q.ab }).flat,
        origQueryAbunds := if (lsOps.track q && !ign) = true then lsOps.pairs q
          else List.map (fun h => (h, 1)) (lsOps.mins q),
        noidentMh := { scaled := q.scaled, hs := [], ab := Option.map (fun _ => []) q.ab },
        cmpScaled := 0, noidentSum := 0, totalWeighted := 0, resultN := 0 }
      (LS.removeFrom q { scaled := q.scaled, hs := [], ab := Option.map (fun _ => []) q.ab }).flat.scaled with
  | error e => rw [hu] at h; cases h
  | ok g1 =>
    rw [hu] at h
    simp only [Except.ok.injEq] at h
    subst h
    rw [(updateScaled_ls hu).2.1]
    rfl

/-- the invariants hold after `__init__` (given exact counters) -/
theorem init_invariants {q : LS} (hq : q.WF) {sd : Nat} (hsd1 : 1 ≤ sd) (hsd2 : sd ≤ 2 ^ 31)
    {cls : List (List (Sig LS))} {counters : List (CObj LS)} {thr : Nat} {ign : Bool} {g : GD LS}
    (hcand : ∀ cl ∈ cls, ∀ d ∈ cl, d.mh.WF ∧ d.mh.scaled = sd)
    (hcnt : AllInv (max q.scaled sd) (dn (max q.scaled sd) q.hs) cls counters)
    (hsize : q.hs.length < 2 ^ 53)
    (h : GD.init lsOps q counters thr ign none none = .ok g) :
    GInv q.scaled sd cls g ∧ AInv q.scaled sd q.hs [] g ∧ g.unassigned q.scaled sd = dn (max q.scaled sd) q.hs ∧
    g.thresholdBp = thr ∧ g.origSigMh = q ∧ g.resultN = 0 := by
  obtain ⟨i1, i2, i3, i4, i5, i6, i7, i8, i9, i10, i11, i12, i13, i14, i15⟩ := init_plain hq h
  refine ⟨⟨?_, ?_, ?_, Or.inl i3, hcand, ?_, ?_⟩, ⟨⟨hq.lo, hq.hi, hsd1, hsd2⟩, ?_, ?_, ?_, ?_, ?_, ?_⟩, ?_, i5, i6, i7⟩
  · rw [i6]; exact hq.sorted
  · rw [i1]; exact hq.sorted
  · rw [i2, i3]
  · rw [i4, i1]; exact hcnt
  · rw [i1]; exact hsize
  · rw [i10, i3]
  · rw [i11, i3]
  · rw [i12, i3]
  · rw [i13, i3]
  · rw [i14, i3]
  · rw [i15, i3]
  · unfold GD.unassigned; rw [i1]

/-! ### `Index.prefetch` and `counter_gather` -/

theorem mem_upsert {α : Type} {e x : CEntry α} : ∀ {l : List (CEntry α)}, x ∈ upsert e l → x = e ∨ x ∈ l := by
  intro l
  induction l with
  | nil => intro h; simp only [upsert, List.mem_singleton] at h; exact Or.inl h
  | cons y ys ih =>
    intro h
    simp only [upsert] at h
    split at h
    · rcases List.mem_cons.1 h with h | h
      · exact Or.inl h
      · exact Or.inr (List.mem_cons_of_mem _ h)
    · rcases List.mem_cons.1 h with h | h
      · exact Or.inr (by rw [h]; exact List.mem_cons_self)
      · rcases ih h with h | h
        · exact Or.inl h
        · exact Or.inr (List.mem_cons_of_mem _ h)

theorem self_mem_upsert {α : Type} (e : CEntry α) : ∀ (l : List (CEntry α)), e ∈ upsert e l := by
  intro l
  induction l with
  | nil => simp [upsert]
  | cons y ys ih =>
    simp only [upsert]
    split
    · exact List.mem_cons_self
    · exact List.mem_cons_of_mem _ ih

theorem upsert_keeps_md5 {α : Type} (e : CEntry α) : ∀ {l : List (CEntry α)} {x : CEntry α}, x ∈ l →
    ∃ y ∈ upsert e l, y.md5 = x.md5 := by
  intro l
  induction l with
  | nil => intro x h; cases h
  | cons y ys ih =>
    intro x h
    simp only [upsert]
    split
    · rename_i heq
      rcases List.mem_cons.1 h with rfl | h
      · exact ⟨e, List.mem_cons_self, heq.symm⟩
      · exact ⟨x, List.mem_cons_of_mem _ h, rfl⟩
    · rcases List.mem_cons.1 h with rfl | h
      · exact ⟨x, List.mem_cons_self, rfl⟩
      · obtain ⟨z, hz, hm⟩ := ih h
        exact ⟨z, List.mem_cons_of_mem _ hz, hm⟩

theorem upsert_ne_nil {α : Type} (e : CEntry α) (l : List (CEntry α)) : upsert e l ≠ [] := by
  intro h
  have := self_mem_upsert e l
  rw [h] at this; cases this

/-- the overlap `CounterGather.add` records, at the comparison resolution -/
theorem cc_overlap {pq d : LS} (hp : pq.WF) (hd : d.WF) :
    LS.cc pq d = .ok (ovl (dn (max pq.scaled d.scaled) pq.hs) (dn (max pq.scaled d.scaled) d.hs)) := by
  by_cases hle : d.scaled ≤ pq.scaled
  · rw [LS.cc_ge hd hp.sorted hle]
    have : max pq.scaled d.scaled = pq.scaled := by omega
    rw [this, hp.dn_self]
  · have hle' : pq.scaled ≤ d.scaled := by omega
    rw [LS.cc_le hp hd.sorted hle']
    have : max pq.scaled d.scaled = d.scaled := by omega
    rw [this, hd.dn_self, ovl_comm hd.sorted (sorted_dn hp.sorted _)]

/-- loading prefetch results into a `CounterGather` -/
theorem addAll_spec {pq : LS} (hp : pq.WF) {sd : Nat} :
    ∀ (l : List (F64.F × Sig LS)) (c c' : Counter LS) (added : List (Sig LS)),
      (∀ p ∈ l, p.2.mh.WF ∧ p.2.mh.scaled = sd) →
      c.origQuery = pq →
      (∀ e ∈ c.entries, EInv (max pq.scaled sd) (dn (max pq.scaled sd) pq.hs) e ∧ e.sig ∈ added ∧ e.md5 = e.sig.md5) →
      (∀ d ∈ added, ∃ e ∈ c.entries, e.md5 = d.md5) →
      (c.entries ≠ [] → c.scaled = max pq.scaled sd) → (c.entries = [] → c.scaled = pq.scaled) →
      addAll lsOps c l = .ok c' →
      (∀ e ∈ c'.entries, EInv (max pq.scaled sd) (dn (max pq.scaled sd) pq.hs) e ∧
        e.sig ∈ added ++ l.map Prod.snd ∧ e.md5 = e.sig.md5) ∧
      (∀ d ∈ added ++ l.map Prod.snd, ∃ e ∈ c'.entries, e.md5 = d.md5) ∧
      (c'.entries ≠ [] → c'.scaled = max pq.scaled sd) ∧ (c'.entries = [] → c'.scaled = pq.scaled) ∧
      c'.origQuery = pq := by
  intro l
  induction l with
  | nil =>
    intro c c' added _ ho h1 h2 h3 h4 h
    simp only [addAll, Except.ok.injEq] at h
    subst h
    simpa using ⟨h1, h2, h3, h4, ho⟩
  | cons p rest ih =>
    intro c c' added hl ho h1 h2 h3 h4 h
    obtain ⟨sc, d⟩ := p
    obtain ⟨hdwf, hdsd⟩ := hl (sc, d) List.mem_cons_self
    simp only [addAll, Counter.add, lsOps_cc] at h
    rw [ho, cc_overlap hp hdwf, hdsd] at h
    simp only [] at h hdsd hdwf
    by_cases hne : ovl (dn (max pq.scaled sd) pq.hs) (dn (max pq.scaled sd) d.mh.hs) ≠ 0
    · rw [if_pos hne] at h
      simp only [lsOps_scaled, hdsd] at h
      have hstep := ih
        { origQuery := pq, scaled := max c.scaled sd,
          entries := upsert ⟨d.md5, ↑(ovl (dn (max pq.scaled sd) pq.hs) (dn (max pq.scaled sd) d.mh.hs)), d⟩ c.entries }
        c' (added ++ [d]) (fun q hq => hl q (List.mem_cons_of_mem _ hq)) rfl ?_ ?_ ?_ ?_ h
      · obtain ⟨s1, s2, s3, s4, s5⟩ := hstep
        refine ⟨?_, ?_, s3, s4, s5⟩
        · intro e he
          obtain ⟨a, b, c0⟩ := s1 e he
          exact ⟨a, by simpa [List.append_assoc] using b, c0⟩
        · intro x hx
          apply s2
          simpa [List.append_assoc] using hx
      · intro e he
        rcases mem_upsert he with rfl | he
        · refine ⟨⟨hdwf, by rw [hdsd]; omega, rfl⟩, by simp, rfl⟩
        · obtain ⟨a, b, c0⟩ := h1 e he
          exact ⟨a, List.mem_append_left _ b, c0⟩
      · intro x hx
        rcases List.mem_append.1 hx with hx | hx
        · obtain ⟨e, he, hm⟩ := h2 x hx
          obtain ⟨y, hy, hym⟩ := upsert_keeps_md5 ⟨d.md5, ↑(ovl (dn (max pq.scaled sd) pq.hs) (dn (max pq.scaled sd) d.mh.hs)), d⟩ he
          exact ⟨y, hy, by rw [hym, hm]⟩
        · simp only [List.mem_singleton] at hx
          subst hx
          exact ⟨_, self_mem_upsert _ _, rfl⟩
      · intro _
        show max c.scaled sd = max pq.scaled sd
        by_cases hce : c.entries = []
        · rw [h4 hce]
        · rw [h3 hce]; omega
      · intro hnil
        exact absurd hnil (upsert_ne_nil _ _)
    · rw [if_neg hne] at h
      cases h

/-- `flatten_and_downsample_scaled(x, sc)` on a well-formed list sketch: flat, at `max x.scaled sc` -/
theorem flattenAndDownsample_ls {x : LS} (hx : x.WF) {sc : Nat} (hsc : 1 ≤ sc) :
    ∃ r, flattenAndDownsample lsOps x sc = .ok r ∧ r.scaled = max x.scaled sc ∧
      r.hs = dn (max x.scaled sc) x.hs ∧ r.ab = none := by
  unfold flattenAndDownsample
  have h1 := hx.lo
  rw [if_neg (by simp only [lsOps_scaled]; omega)]
  simp only [lsOps_flat]
  by_cases hgt : sc > lsOps.scaled x.flat
  · rw [if_pos hgt, lsOps_dsM]
    have hgt' : sc > x.flat.scaled := hgt
    have hle : x.flat.scaled ≤ sc := by omega
    rw [LS.ds_eq hle]
    have hm : max x.scaled sc = sc := by
      have : x.flat.scaled = x.scaled := rfl
      omega
    refine ⟨_, rfl, by rw [hm]; rfl, by rw [hm]; rfl, ?_⟩
    simp [LS.dsv, LS.filterH, LS.flat]
  · rw [if_neg hgt]
    have hgt' : ¬ sc > x.flat.scaled := hgt
    have hm : max x.scaled sc = x.scaled := by
      have : x.flat.scaled = x.scaled := rfl
      omega
    refine ⟨_, rfl, by rw [hm]; rfl, ?_, rfl⟩
    rw [hm, hx.dn_self]; rfl

/-- the containment `Index.find` computes for the database sketch `d` against the flat query `pq` -/
def findScore (pq d : LS) : F64.F :=
  scoreContainment (dn (max pq.scaled d.scaled) pq.hs).length
    (ovl (dn (max pq.scaled d.scaled) pq.hs) (dn (max pq.scaled d.scaled) d.hs))

theorem lsOps_interSize (a b : LS) : lsOps.interSize a b = LS.interSize a b := rfl

theorem findOne_ls {pq : LS} (hp : pq.WF) {d : Sig LS} (hd : d.mh.WF) (thr : F64.F) :
    findOne lsOps pq d thr = .ok (findScore pq d.mh, passes (findScore pq d.mh) thr) := by
  obtain ⟨smh, e1, s1, s2, s3⟩ := flattenAndDownsample_ls hd hp.lo
  unfold findOne
  simp only [lsOps_scaled]
  rw [e1]
  simp only []
  have hs1 : 1 ≤ smh.scaled := by rw [s1]; have := hd.lo; omega
  obtain ⟨qmh, e2, q1, q2, q3⟩ := flattenAndDownsample_ls hp hs1
  rw [e2]
  simp only [lsOps_track, q3, s3, Option.isSome_none, Bool.false_eq_true, or_self, if_false]
  have hsc : qmh.scaled = smh.scaled := by rw [q1, s1]; omega
  have hmax : max pq.scaled smh.scaled = max pq.scaled d.mh.scaled := by rw [s1]; omega
  have hmax' : max d.mh.scaled pq.scaled = max pq.scaled d.mh.scaled := by omega
  rw [lsOps_compatible, hsc]
  simp only [decide_true, Bool.not_true, Bool.false_eq_true, if_false, lsOps_interSize, LS.interSize]
  have hqs : Sorted qmh.hs := by rw [q2]; exact sorted_dn hp.sorted _
  have hss : Sorted smh.hs := by rw [s2]; exact sorted_dn hd.sorted _
  rw [interL_eq_filter _ _ hqs hss]
  have hlen : len lsOps qmh = (dn (max pq.scaled d.mh.scaled) pq.hs).length := by
    unfold len; rw [lsOps_mins, q2, hmax]
  have hov : (qmh.hs.filter (inL smh.hs)).length
      = ovl (dn (max pq.scaled d.mh.scaled) pq.hs) (dn (max pq.scaled d.mh.scaled) d.mh.hs) := by
    rw [q2, s2, hmax, hmax']; rfl
  rw [hlen, hov]
  rfl

/-- `Index.find` with a plain containment search keeps exactly the sketches whose score passes -/
theorem findLoop_ls {pq : LS} (hp : pq.WF) (thr : F64.F) :
    ∀ (db : List (Sig LS)), (∀ d ∈ db, d.mh.WF) →
      findLoop lsOps pq false db thr =
        .ok ((db.filter (fun d => passes (findScore pq d.mh) thr)).map (fun d => (findScore pq d.mh, d))) := by
  intro db
  induction db with
  | nil => intro _; rfl
  | cons d rest ih =>
    intro hall
    unfold findLoop
    rw [findOne_ls hp (hall d List.mem_cons_self)]
    simp only [Bool.false_eq_true, if_false]
    rw [ih (fun x hx => hall x (List.mem_cons_of_mem _ hx))]
    by_cases hpass : passes (findScore pq d.mh) thr = true
    · simp [hpass]
    · simp [hpass]

theorem LS.WF.flat {x : LS} (h : x.WF) : x.flat.WF :=
  ⟨h.lo, h.hi, h.sorted, h.bounded, fun ab hab => by cases hab⟩

/-- **`counter_inv` (establishment)**: `Index.counter_gather` returns a counter that is exact against the
query's hashes at the comparison resolution, loaded with exactly the database sketches whose containment
passes the prefetch threshold `t` -/
theorem counterGather_spec {q : LS} (hq : q.WF) {sd thr : Nat} {db : List (Sig LS)} {c : Counter LS}
    (hdb : ∀ d ∈ db, d.mh.WF ∧ d.mh.scaled = sd) (hmd5 : MD5OK db)
    (h : counterGather lsOps db q thr = .ok c) :
    ∃ t nT, calcThreshold thr q.scaled q.hs.length = .ok (t, nT) ∧
      CInv (max q.scaled sd) (db.filter (fun d => passes (findScore q.flat d.mh) t))
        (dn (max q.scaled sd) q.hs) c ∧ c.origQuery = q.flat := by
  unfold counterGather at h
  simp only [lsOps_flat] at h
  unfold Counter.new at h
  have hq1 := hq.lo
  rw [if_neg (by simp only [lsOps_scaled]; show ¬ q.scaled = 0; omega)] at h
  simp only [lsOps_flat] at h
  unfold prefetch at h
  by_cases he : db.isEmpty = true
  · rw [if_pos he] at h; cases h
  rw [if_neg he] at h
  by_cases hl : len lsOps q.flat = 0
  · rw [if_pos hl] at h; cases h
  rw [if_neg hl] at h
  rw [if_neg (by simp only [lsOps_scaled]; show ¬ q.scaled = 0; omega)] at h
  have e1 : lsOps.scaled q.flat = q.scaled := rfl
  have e2 : len lsOps q.flat = q.hs.length := rfl
  rw [e1, e2] at h
  cases hthr : calcThreshold thr q.scaled q.hs.length with
  | error e => rw [hthr] at h; cases h
  | ok tn =>
    obtain ⟨t, nT⟩ := tn
    rw [hthr] at h
    simp only [] at h
    rw [if_neg (by simp [lsOps_track, LS.flat])] at h
    rw [findLoop_ls hq.flat t db (fun d hd => (hdb d hd).1)] at h
    simp only [] at h
    refine ⟨t, nT, rfl, ?_⟩
    have hspec := addAll_spec (pq := q.flat) hq.flat (sd := sd) _ _ c [] ?_ rfl ?_ ?_ ?_ ?_ h
    · obtain ⟨s1, s2, s3, s4, s5⟩ := hspec
      have hmap : (List.map Prod.snd (List.map (fun d => (findScore q.flat d.mh, d))
          (List.filter (fun d => passes (findScore q.flat d.mh) t) db)))
          = List.filter (fun d => passes (findScore q.flat d.mh) t) db := by
        rw [List.map_map]
        exact List.map_id' _
      simp only [List.nil_append, hmap] at s1 s2
      have e3 : q.flat.scaled = q.scaled := rfl
      have e4 : q.flat.hs = q.hs := rfl
      rw [e3, e4] at s1
      refine ⟨⟨fun e he => (s1 e he).1, fun e he => (s1 e he).2.1, ?_, s3⟩, s5⟩
      intro d hd _
      obtain ⟨e, he, hm⟩ := s2 d hd
      refine ⟨e, he, ?_⟩
      have hsig := (s1 e he).2.1
      have hmd := (s1 e he).2.2
      apply hmd5 _ (List.mem_filter.1 hsig).1 _ (List.mem_filter.1 hd).1
      rw [← hmd, hm]
    · intro p hp
      obtain ⟨d, hd, rfl⟩ := List.mem_map.1 hp
      exact hdb d (List.mem_filter.1 hd).1
    · intro e he; cases he
    · intro d hd; cases hd
    · intro hne; exact absurd rfl hne
    · intro _; rfl

end Sm.Gather
