/-
Helper lemmas for C14: the operations of the array-backed sketch do not read the md5
cache (`erase (op s) = erase (op (s with another cache))`), so that two sketches that
agree on everything but the cache keep agreeing; with C11's cache invariant this lets the
twin relation survive the `From` conversions, which hand back an empty cache.
-/
import SmVerif.Lemmas.BTreeOps
import SmVerif.Props.C11

namespace Sm

open MH

/-- a sketch with its md5 cache emptied -/
def MH.erase (s : MH) : MH := { s with md5 := none }

theorem eq_setMd5_of_erase {s t : MH} (e : s.erase = t.erase) : t = { s with md5 := t.md5 } := by
  obtain ⟨_, _, _, _, _, _, _, _⟩ := s
  obtain ⟨_, _, _, _, _, _, _, _⟩ := t
  simp only [MH.erase, MH.mk.injEq] at e
  obtain ⟨rfl, rfl, rfl, rfl, rfl, rfl, rfl, _⟩ := e
  rfl

theorem erase_fields {s t : MH} (e : s.erase = t.erase) :
    s.num = t.num ∧ s.maxHash = t.maxHash ∧ s.ksize = t.ksize ∧ s.seed = t.seed ∧ s.hf = t.hf ∧
    s.mins = t.mins ∧ s.abunds = t.abunds := by
  rw [eq_setMd5_of_erase e]
  exact ⟨rfl, rfl, rfl, rfl, rfl, rfl, rfl⟩

theorem Inv.of_erase {s t : MH} (hs : Inv s) (e : s.erase = t.erase) : Inv t := by
  obtain ⟨h1, h2, _, _, _, h6, h7⟩ := erase_fields e
  exact hs.congr h6.symm h7.symm h2.symm h1.symm

theorem Excl.of_erase {s t : MH} (hx : Excl s) (e : s.erase = t.erase) : Excl t := by
  obtain ⟨h1, h2, _⟩ := erase_fields e
  unfold Excl at *
  rw [← h1, ← h2]; exact hx

theorem ite_erase (c : Prop) [Decidable c] {x y x' y' : MH} (hx : x.erase = x'.erase)
    (hy : y.erase = y'.erase) : (if c then x else y).erase = (if c then x' else y').erase := by
  split <;> assumption

theorem erase_removeHash' (s : MH) (d : Option Digest) (h : Nat) :
    (({ s with md5 := d } : MH).removeHash h).erase = (s.removeHash h).erase := by
  obtain ⟨num, maxHash, ksize, seed, hf, mins, abunds, md5⟩ := s
  unfold MH.removeHash
  simp only []
  cases findPos mins h <;> rfl

theorem erase_addHashAb' {s : MH} (hs : Inv s) (hx : Excl s) (d : Option Digest) (h a : Nat) :
    (({ s with md5 := d } : MH).addHashAb h a).erase = (s.addHashAb h a).erase := by
  have ht : Inv ({ s with md5 := d } : MH) := hs.congr rfl rfl rfl rfl
  have hxt : Excl ({ s with md5 := d } : MH) := hx
  rw [addHashAb_eq' ht hxt h a (num := s.num) (maxHash := s.maxHash) (mins := s.mins) rfl rfl rfl,
    addHashAb_eq' hs hx h a rfl rfl rfl]
  refine ite_erase _ rfl (ite_erase _ rfl (ite_erase _ (erase_removeHash' s d h)
    (ite_erase _ (ite_erase _ rfl (ite_erase _ rfl rfl)) rfl)))

theorem erase_removeHash {s t : MH} (e : s.erase = t.erase) (h : Nat) :
    (s.removeHash h).erase = (t.removeHash h).erase := by
  rw [eq_setMd5_of_erase e]; exact (erase_removeHash' s _ h).symm

theorem erase_addHashAb {s t : MH} (hs : Inv s) (hx : Excl s) (e : s.erase = t.erase) (h a : Nat) :
    (s.addHashAb h a).erase = (t.addHashAb h a).erase := by
  rw [eq_setMd5_of_erase e]; exact (erase_addHashAb' hs hx _ h a).symm

theorem erase_addManyAb {s t : MH} (hs : Inv s) (hx : Excl s) (e : s.erase = t.erase)
    (ps : List (Nat × Nat)) : (s.addManyAb ps).erase = (t.addManyAb ps).erase := by
  induction ps generalizing s t with
  | nil => exact e
  | cons p ps ih =>
    unfold MH.addManyAb at ih ⊢
    simp only [List.foldl_cons]
    exact ih (inv_addHashAb hs hx p.1 p.2) (hx.addHashAb p.1 p.2) (erase_addHashAb hs hx e p.1 p.2)

theorem erase_addMany {s t : MH} (hs : Inv s) (hx : Excl s) (e : s.erase = t.erase)
    (xs : List Nat) : (s.addMany xs).erase = (t.addMany xs).erase := by
  induction xs generalizing s t with
  | nil => exact e
  | cons x xs ih =>
    unfold MH.addMany at ih ⊢
    simp only [List.foldl_cons]
    exact ih (inv_addHash hs hx x) (hx.addHash x) (erase_addHashAb hs hx e x 1)

theorem erase_removeMany {s t : MH} (e : s.erase = t.erase) (xs : List Nat) :
    (s.removeMany xs).erase = (t.removeMany xs).erase := by
  induction xs generalizing s t with
  | nil => exact e
  | cons x xs ih =>
    unfold MH.removeMany at ih ⊢
    simp only [List.foldl_cons]
    exact ih (erase_removeHash e x)

theorem erase_clear {s t : MH} (e : s.erase = t.erase) : s.clear.erase = t.clear.erase := by
  rw [eq_setMd5_of_erase e]; rfl

theorem erase_md5sum {s t : MH} (e : s.erase = t.erase) : s.md5sum.1.erase = t.md5sum.1.erase := by
  rw [eq_setMd5_of_erase e]
  obtain ⟨num, maxHash, ksize, seed, hf, mins, abunds, md5⟩ := s
  cases md5 <;> cases t.md5 <;> rfl

theorem erase_clone {s t : MH} (e : s.erase = t.erase) :
    s.clone.1.erase = t.clone.1.erase ∧ s.clone.2.erase = t.clone.2.erase := by
  rw [eq_setMd5_of_erase e]
  obtain ⟨num, maxHash, ksize, seed, hf, mins, abunds, md5⟩ := s
  cases md5 <;> cases t.md5 <;> exact ⟨rfl, rfl⟩

/-- `merge` reads neither operand's cache -/
theorem merge_setMd5 (s o : MH) (d d' : Option Digest) :
    ({ s with md5 := d } : MH).merge { o with md5 := d' } = s.merge o := rfl

theorem erase_merge {s t o p : MH} (e : s.erase = t.erase) (e' : o.erase = p.erase) :
    s.merge o = t.merge p := by
  rw [eq_setMd5_of_erase e, eq_setMd5_of_erase e']; exact (merge_setMd5 s o _ _).symm

theorem erase_downsampleScaled {s t : MH} (e : s.erase = t.erase) (sc : Nat) :
    (s.downsampleScaled sc).map MH.erase = (t.downsampleScaled sc).map MH.erase := by
  rw [eq_setMd5_of_erase e]
  generalize t.md5 = d
  unfold MH.downsampleScaled
  by_cases h1 : s.scaled = sc ∨ s.scaled = 0
  · have h1' : ({ s with md5 := d } : MH).scaled = sc ∨ ({ s with md5 := d } : MH).scaled = 0 := h1
    rw [if_pos h1, if_pos h1']; rfl
  · have h1' : ¬ (({ s with md5 := d } : MH).scaled = sc ∨ ({ s with md5 := d } : MH).scaled = 0) := h1
    rw [if_neg h1, if_neg h1']
    by_cases h2 : s.scaled > sc
    · have h2' : ({ s with md5 := d } : MH).scaled > sc := h2
      rw [if_pos h2, if_pos h2']
    · have h2' : ¬ ({ s with md5 := d } : MH).scaled > sc := h2
      rw [if_neg h2, if_neg h2']
      rfl

theorem erase_json {s t : MH} (e : s.erase = t.erase) :
    (MH.deserialize s.serialize.2).erase = (MH.deserialize t.serialize.2).erase := by
  rw [eq_setMd5_of_erase e]
  obtain ⟨num, maxHash, ksize, seed, hf, mins, abunds, md5⟩ := s
  cases md5 <;> cases t.md5 <;> cases abunds <;> rfl

theorem erase_intoVec (b : BT) : b.intoVec.erase = ({ b.abs with maxHash := mhR (scR b.maxHash) } : MH).erase := by
  rw [intoVec_eq]; rfl

/-! ### cache invariant through the serde round trip and the conversions -/

theorem serialize_setMd5 (b : BT) (d0 : Option Digest) :
    ({ b.abs with md5 := d0 } : MH).serialize.2 =
      b.jsonWith ({ b.abs with md5 := d0 } : MH).md5sum.2 := by
  obtain ⟨num, maxHash, ksize, seed, hf, mins, abunds, cm, md5⟩ := b
  cases d0 <;> rfl

/-- the serde round trip of a valid array-backed sketch gives the sketch back with an empty md5
cache (the md5 string of the file is not trusted) -/
theorem MH.json_roundtrip {v : MH} {b : BT} (hb : BInv b) (hx : Excl b.abs)
    (e : b.abs.erase = v.erase) :
    MH.deserialize v.serialize.2 = { v with md5 := none } := by
  have hv := eq_setMd5_of_erase e
  rw [hv, serialize_setMd5, MH.deserialize_jsonWith hb hx]

theorem cacheInv_json_v {v : MH} {b : BT} (hb : BInv b) (hx : Excl b.abs)
    (e : b.abs.erase = v.erase) (hc : C11.CacheInv v) :
    C11.CacheInv (MH.deserialize v.serialize.2) := by
  rw [MH.json_roundtrip hb hx e]
  exact Or.inl rfl

end Sm
