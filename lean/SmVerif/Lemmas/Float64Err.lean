/-
One-sided rounding-error bounds for the exact binary64 model (`Model/Float64.lean`), in ℚ:
with `u = 2^-53`,
  `roundNat_le` : value (roundNat n e) ≤ n·2^e·(1+u)         `roundNat_pos` : n > 0 → mantissa > 0
  `divNat_le`   : 0 < a ≤ b → value (divNat a b) ≤ (a/b)(1+u)  `divNat_pos`
  `fadd_le`     : value (fadd x y) ≤ (value x + value y)(1+u)   `fadd_pos`
  `ge_iff`      : `ge x y` decides `value x ≥ value y`
Used by C19 (the tolerance repair of D18).
-/
import SmVerif.Model.Float64
import Mathlib.Tactic.Linarith
import Mathlib.Tactic.Ring
import Mathlib.Tactic.NormNum
import Mathlib.Tactic.Positivity
import Mathlib.Algebra.Order.Field.Rat
import Mathlib.Algebra.Order.Field.Power

namespace Sm.F64

set_option linter.unusedSimpArgs false

/-- the real number a model double stands for -/
def F.toQ (x : F) : ℚ := (x.m : ℚ) * (2 : ℚ) ^ x.e

/-- unit roundoff -/
def u : ℚ := 1 / 2 ^ 53

theorem u_pos : 0 < u := by unfold u; positivity

theorem toQ_nonneg (x : F) : 0 ≤ x.toQ := by
  unfold F.toQ; positivity

theorem toQ_pos (x : F) (h : 0 < x.m) : 0 < x.toQ := by
  unfold F.toQ
  have : (0 : ℚ) < x.m := by exact_mod_cast h
  positivity

theorem toQ_zero_of_m (x : F) (h : x.m = 0) : x.toQ = 0 := by
  unfold F.toQ; simp [h]

/-! ### shiftRNE -/

/-- rounding `n / 2^d` up or down moves the value by at most half a unit: `m·2^d ≤ n + 2^(d-1)` -/
theorem shiftRNE_mul_le (n d : Nat) (st : Bool) (hd : 0 < d) :
    shiftRNE n d st * 2 ^ d ≤ n + 2 ^ (d - 1) := by
  unfold shiftRNE
  have hd0 : d ≠ 0 := by omega
  simp only [hd0, if_false]
  have hpow : 2 ^ d = 2 * 2 ^ (d - 1) := by
    have : d = (d - 1) + 1 := by omega
    conv_lhs => rw [this, pow_succ]
    ring
  have hdm := Nat.div_add_mod n (2 ^ d)
  have hmod : n % 2 ^ d < 2 ^ d := Nat.mod_lt _ (by positivity)
  have hq : n / 2 ^ d * 2 ^ d ≤ n := Nat.div_mul_le_self n (2 ^ d)
  have hup : n % 2 ^ d ≥ 2 ^ (d - 1) → (n / 2 ^ d + 1) * 2 ^ d ≤ n + 2 ^ (d - 1) := by
    intro h
    have : (n / 2 ^ d + 1) * 2 ^ d = 2 ^ d * (n / 2 ^ d) + 2 ^ d := by ring
    rw [this]
    omega
  by_cases h1 : n % 2 ^ d > 2 ^ (d - 1)
  · simp only [h1, if_true]; exact hup (le_of_lt h1)
  · simp only [h1, if_false]
    by_cases h2 : n % 2 ^ d = 2 ^ (d - 1)
    · simp only [h2, if_true]
      have h2' : n % 2 ^ d ≥ 2 ^ (d - 1) := by omega
      cases st with
      | true => simp only [if_true]; exact hup h2'
      | false =>
        simp only [Bool.false_eq_true, if_false]
        by_cases h3 : n / 2 ^ d % 2 = 1
        · simp only [h3, if_true]; exact hup h2'
        · simp only [h3, if_false]; omega
    · simp only [h2, if_false]; omega

theorem shiftRNE_ge_div (n d : Nat) (st : Bool) : n / 2 ^ d ≤ shiftRNE n d st := by
  unfold shiftRNE
  by_cases hd : d = 0
  · simp [hd]
  · simp only [hd, if_false]
    split
    · omega
    · split
      · split
        · omega
        · split <;> omega
      · omega

theorem bitlen_pos (n : Nat) (h : n ≠ 0) : bitlen n = Nat.log2 n + 1 := by
  unfold bitlen; simp [h]

theorem two_pow_le_of_bitlen (n : Nat) (h : n ≠ 0) : 2 ^ (bitlen n - 1) ≤ n := by
  rw [bitlen_pos n h]
  simpa using Nat.log2_self_le h

/-- the scaled-and-rounded mantissa: `m·2^d ≤ x·(1 + 2^-53)` whenever the true value `x ≥ n`, `d = bitlen n - 53` -/
theorem round_core (n : Nat) (st : Bool) (x : ℚ) (hn : n ≠ 0) (hx : (n : ℚ) ≤ x) :
    ((shiftRNE n (bitlen n - 53) st : Nat) : ℚ) * 2 ^ (bitlen n - 53) ≤ x * (1 + u) := by
  have hu := u_pos
  have hx0 : (0 : ℚ) ≤ x := le_trans (by positivity) hx
  by_cases hd : bitlen n - 53 = 0
  · rw [hd]
    simp only [shiftRNE, if_true, pow_zero, mul_one]
    nlinarith
  · have hd' : 0 < bitlen n - 53 := Nat.pos_of_ne_zero hd
    have h1 := shiftRNE_mul_le n (bitlen n - 53) st hd'
    have h2 := two_pow_le_of_bitlen n hn
    -- 2^(d-1) * 2^53 = 2^(bitlen n - 2) ≤ n
    have h3 : 2 ^ (bitlen n - 53 - 1) * 2 ^ 53 ≤ n := by
      have : bitlen n - 53 - 1 + 53 = bitlen n - 1 := by omega
      calc 2 ^ (bitlen n - 53 - 1) * 2 ^ 53 = 2 ^ (bitlen n - 53 - 1 + 53) := by rw [pow_add]
        _ = 2 ^ (bitlen n - 1) := by rw [this]
        _ ≤ n := h2
    have h1q : ((shiftRNE n (bitlen n - 53) st : Nat) : ℚ) * 2 ^ (bitlen n - 53) ≤ (n : ℚ) + 2 ^ (bitlen n - 53 - 1) := by
      exact_mod_cast h1
    have h3q : (2 : ℚ) ^ (bitlen n - 53 - 1) * 2 ^ 53 ≤ (n : ℚ) := by exact_mod_cast h3
    have h4 : (2 : ℚ) ^ (bitlen n - 53 - 1) ≤ (n : ℚ) * u := by
      unfold u
      rw [mul_one_div, le_div_iff₀ (by positivity)]
      exact h3q
    have h5 : (n : ℚ) * u ≤ x * u := mul_le_mul_of_nonneg_right hx (le_of_lt hu)
    nlinarith

theorem shiftRNE_pos (n : Nat) (st : Bool) (hn : n ≠ 0) : 0 < shiftRNE n (bitlen n - 53) st := by
  by_cases hd : bitlen n - 53 = 0
  · rw [hd]; simp only [shiftRNE, if_true]; omega
  · have h2 := two_pow_le_of_bitlen n hn
    have hge := shiftRNE_ge_div n (bitlen n - 53) st
    have : 0 < n / 2 ^ (bitlen n - 53) := by
      apply Nat.div_pos _ (by positivity)
      refine le_trans (Nat.pow_le_pow_right (by norm_num) ?_) h2
      omega
    omega

/-! ### roundNat -/

theorem two_zpow_pos (e : ℤ) : (0 : ℚ) < 2 ^ e := by positivity

theorem roundNat_toQ (n : Nat) (e : ℤ) (hn : n ≠ 0) :
    (roundNat n e).toQ = ((shiftRNE n (bitlen n - 53) false : Nat) : ℚ) * 2 ^ (bitlen n - 53) * 2 ^ e := by
  unfold roundNat F.toQ
  simp only [hn, if_false]
  have h2 : (2 : ℚ) ≠ 0 := by norm_num
  by_cases hm : shiftRNE n (bitlen n - 53) false = 2 ^ 53
  · simp only [hm, if_true]
    rw [zpow_add₀ h2, zpow_add₀ h2, zpow_natCast]
    push_cast
    ring
  · simp only [hm, if_false]
    rw [zpow_add₀ h2, zpow_natCast]
    ring

/-- **rounding an exact integer multiple of a power of two**: at most one unit roundoff above -/
theorem roundNat_le (n : Nat) (e : ℤ) : (roundNat n e).toQ ≤ (n : ℚ) * 2 ^ e * (1 + u) := by
  by_cases hn : n = 0
  · subst hn; simp [roundNat, F.toQ]
  · rw [roundNat_toQ n e hn]
    have h := round_core n false (n : ℚ) hn (le_refl _)
    have hp := two_zpow_pos e
    calc _ ≤ ((n : ℚ) * (1 + u)) * 2 ^ e := mul_le_mul_of_nonneg_right h (le_of_lt hp)
      _ = (n : ℚ) * 2 ^ e * (1 + u) := by ring

theorem roundNat_pos (n : Nat) (e : ℤ) (hn : n ≠ 0) : 0 < (roundNat n e).m := by
  unfold roundNat
  simp only [hn, if_false]
  split
  · positivity
  · exact shiftRNE_pos n false hn

/-! ### alignment, comparison, addition -/

theorem toQ_alignL (x y : F) : x.toQ = (alignL x y : ℚ) * 2 ^ (min x.e y.e) := by
  unfold F.toQ alignL
  have h2 : (2 : ℚ) ≠ 0 := by norm_num
  have hnn : 0 ≤ x.e - min x.e y.e := by have := min_le_left x.e y.e; omega
  push_cast
  rw [mul_assoc, ← zpow_natCast, Int.toNat_of_nonneg hnn, ← zpow_add₀ h2]
  congr 2
  ring

theorem toQ_alignR (x y : F) : y.toQ = (alignR x y : ℚ) * 2 ^ (min x.e y.e) := by
  unfold F.toQ alignR
  have h2 : (2 : ℚ) ≠ 0 := by norm_num
  have hnn : 0 ≤ y.e - min x.e y.e := by have := min_le_right x.e y.e; omega
  push_cast
  rw [mul_assoc, ← zpow_natCast, Int.toNat_of_nonneg hnn, ← zpow_add₀ h2]
  congr 2
  ring

/-- `ge` decides the order of the values -/
theorem ge_iff (x y : F) : ge x y = true ↔ y.toQ ≤ x.toQ := by
  have hL := toQ_alignL x y
  have hR := toQ_alignR x y
  have hp := two_zpow_pos (min x.e y.e)
  unfold ge
  simp only [decide_eq_true_eq]
  change alignL x y ≥ alignR x y ↔ _
  rw [hL, hR]
  constructor
  · intro h
    exact mul_le_mul_of_nonneg_right (by exact_mod_cast h) (le_of_lt hp)
  · intro h
    have := le_of_mul_le_mul_right h hp
    exact_mod_cast this

/-- **addition**: at most one unit roundoff above the exact sum -/
theorem fadd_le (x y : F) : (fadd x y).toQ ≤ (x.toQ + y.toQ) * (1 + u) := by
  have hu := u_pos
  unfold fadd
  by_cases hx : x.m = 0
  · simp only [hx, if_true]
    have := toQ_nonneg y
    rw [toQ_zero_of_m x hx]
    nlinarith
  · simp only [hx, if_false]
    by_cases hy : y.m = 0
    · simp only [hy, if_true]
      have := toQ_nonneg x
      rw [toQ_zero_of_m y hy]
      nlinarith
    · simp only [hy, if_false]
      have h := roundNat_le (alignL x y + alignR x y) (min x.e y.e)
      rw [toQ_alignL x y, toQ_alignR x y]
      push_cast at h
      calc _ ≤ ((alignL x y : ℚ) + (alignR x y : ℚ)) * 2 ^ (min x.e y.e) * (1 + u) := h
        _ = _ := by ring

theorem alignL_pos (x y : F) (h : x.m ≠ 0) : alignL x y ≠ 0 := by
  unfold alignL
  have : 0 < x.m := Nat.pos_of_ne_zero h
  positivity

theorem fadd_pos (x y : F) (h : 0 < x.m ∨ 0 < y.m) : 0 < (fadd x y).m := by
  unfold fadd
  by_cases hx : x.m = 0
  · simp only [hx, if_true]; omega
  · simp only [hx, if_false]
    by_cases hy : y.m = 0
    · simp only [hy, if_true]; omega
    · simp only [hy, if_false]
      apply roundNat_pos
      have := alignL_pos x y hx
      omega

/-! ### division of naturals `a ≤ b` -/

theorem divNat_spec (a b : Nat) (ha : 0 < a) (hab : a ≤ b) :
    0 < (divNat a b).m ∧ (divNat a b).toQ ≤ (a : ℚ) / b * (1 + u) := by
  have hb : 0 < b := lt_of_lt_of_le ha hab
  have ha0 : a ≠ 0 := by omega
  have hb0 : b ≠ 0 := by omega
  have hlog : Nat.log2 a ≤ Nat.log2 b := by
    by_contra hcon
    have hlt : Nat.log2 b < Nat.log2 a := by omega
    have h1 := (Nat.log2_lt hb0).mp hlt
    have h2 := Nat.log2_self_le ha0
    omega
  -- the scaling exponent is a natural number ≥ 55
  obtain ⟨s, hs⟩ : ∃ s : Nat, (55 + (Nat.log2 b : ℤ) - (Nat.log2 a : ℤ)) = (s : ℤ) ∧ s = 55 + Nat.log2 b - Nat.log2 a :=
    ⟨55 + Nat.log2 b - Nat.log2 a, by omega, rfl⟩
  obtain ⟨hsz, hsn⟩ := hs
  have hnum : (a * 2 ^ s) / b ≠ 0 := by
    apply Nat.ne_of_gt
    apply Nat.div_pos _ hb
    have hb2 : b < 2 ^ (Nat.log2 b + 1) := Nat.lt_log2_self
    have ha2 := Nat.log2_self_le ha0
    calc b ≤ 2 ^ (Nat.log2 b + 1) := le_of_lt hb2
      _ ≤ 2 ^ (Nat.log2 a + s) := Nat.pow_le_pow_right (by norm_num) (by omega)
      _ = 2 ^ Nat.log2 a * 2 ^ s := by rw [pow_add]
      _ ≤ a * 2 ^ s := Nat.mul_le_mul_right _ ha2
  -- unfold the definition with these facts
  have hdef : divNat a b =
      (let n := (a * 2 ^ s) / b
       let sticky := decide ((a * 2 ^ s) % b ≠ 0)
       let d := bitlen n - 53
       let m := shiftRNE n d sticky
       if m = 2 ^ 53 then ⟨2 ^ 52, (d : Int) + 1 - s⟩ else ⟨m, (d : Int) - s⟩) := by
    unfold divNat
    have h0 : ¬ (a = 0 ∨ b = 0) := by omega
    simp only [h0, if_false]
    have e1 : ((s : ℤ)).toNat = s := by simp
    have e2 : (-(s : ℤ)).toNat = 0 := by simp
    simp only [hsz, e1, e2, pow_zero, mul_one]
  set n := (a * 2 ^ s) / b with hn
  have hxn : (n : ℚ) ≤ (a : ℚ) * 2 ^ s / b := by
    rw [le_div_iff₀ (by exact_mod_cast hb)]
    have := Nat.div_mul_le_self (a * 2 ^ s) b
    exact_mod_cast this
  have hcore := round_core n (decide ((a * 2 ^ s) % b ≠ 0)) ((a : ℚ) * 2 ^ s / b) hnum hxn
  have hpos := shiftRNE_pos n (decide ((a * 2 ^ s) % b ≠ 0)) hnum
  have h2 : (2 : ℚ) ≠ 0 := by norm_num
  have hval : (divNat a b).toQ =
      ((shiftRNE n (bitlen n - 53) (decide ((a * 2 ^ s) % b ≠ 0)) : Nat) : ℚ) * 2 ^ (bitlen n - 53) / 2 ^ s := by
    rw [hdef]
    simp only
    by_cases hm : shiftRNE n (bitlen n - 53) (decide ((a * 2 ^ s) % b ≠ 0)) = 2 ^ 53
    · simp only [hm, if_true, F.toQ]
      rw [zpow_sub₀ h2, zpow_add₀ h2, zpow_natCast, zpow_natCast]
      push_cast
      ring
    · simp only [hm, if_false, F.toQ]
      rw [zpow_sub₀ h2, zpow_natCast, zpow_natCast]
      ring
  refine ⟨?_, ?_⟩
  · rw [hdef]
    simp only
    split
    · positivity
    · exact hpos
  · rw [hval, div_le_iff₀ (by positivity)]
    calc _ ≤ (a : ℚ) * 2 ^ s / b * (1 + u) := hcore
      _ = (a : ℚ) / b * (1 + u) * 2 ^ s := by ring

theorem divNat_le (a b : Nat) (ha : 0 < a) (hab : a ≤ b) : (divNat a b).toQ ≤ (a : ℚ) / b * (1 + u) :=
  (divNat_spec a b ha hab).2

theorem divNat_pos (a b : Nat) (ha : 0 < a) (hab : a ≤ b) : 0 < (divNat a b).m :=
  (divNat_spec a b ha hab).1

/-! ### powers of `1 + u` -/

/-- `(1+u)^n ≤ 1 + 2nu` as long as `2nu ≤ 1` -/
theorem one_add_u_pow_le (n : Nat) (h : 2 * (n : ℚ) * u ≤ 1) : (1 + u) ^ n ≤ 1 + 2 * n * u := by
  have hu := u_pos
  induction n with
  | zero => simp
  | succ k ih =>
    have hk : 2 * (k : ℚ) * u ≤ 1 := by
      push_cast at h
      nlinarith
    have := ih hk
    rw [pow_succ]
    push_cast
    have h1 : (1 + u) ^ k * (1 + u) ≤ (1 + 2 * k * u) * (1 + u) :=
      mul_le_mul_of_nonneg_right this (by linarith)
    nlinarith

theorem one_le_one_add_u_pow (n : Nat) : (1 : ℚ) ≤ (1 + u) ^ n :=
  one_le_pow₀ (by have := u_pos; linarith)

/-! ### lower bounds (the other side of round-to-nearest) -/

/-- rounding loses at most half a unit: `n ≤ m·2^d + 2^(d-1)`; when bits below `n` were set (`sticky`), even
`n + 1 ≤ m·2^d + 2^(d-1)` -/
theorem shiftRNE_mul_ge (n d : Nat) (st : Bool) (hd : 0 < d) :
    n + (if st then 1 else 0) ≤ shiftRNE n d st * 2 ^ d + 2 ^ (d - 1) := by
  unfold shiftRNE
  have hd0 : d ≠ 0 := by omega
  simp only [hd0, if_false]
  have hpow : 2 ^ d = 2 * 2 ^ (d - 1) := by
    have : d = (d - 1) + 1 := by omega
    conv_lhs => rw [this, pow_succ]
    ring
  have hdm := Nat.div_add_mod n (2 ^ d)
  have hmod : n % 2 ^ d < 2 ^ d := Nat.mod_lt _ (by positivity)
  have hup : n + 1 ≤ (n / 2 ^ d + 1) * 2 ^ d := by
    have : (n / 2 ^ d + 1) * 2 ^ d = 2 ^ d * (n / 2 ^ d) + 2 ^ d := by ring
    rw [this]; omega
  have hq : n / 2 ^ d * 2 ^ d = 2 ^ d * (n / 2 ^ d) := by ring
  have hst : (if st then 1 else 0) ≤ 1 := by cases st <;> simp
  by_cases h1 : n % 2 ^ d > 2 ^ (d - 1)
  · simp only [h1, if_true]; omega
  · simp only [h1, if_false]
    by_cases h2 : n % 2 ^ d = 2 ^ (d - 1)
    · simp only [h2, if_true]
      cases st with
      | true => simp only [if_true]; omega
      | false =>
        simp only [Bool.false_eq_true, if_false]
        by_cases h3 : n / 2 ^ d % 2 = 1
        · simp only [h3, if_true]; omega
        · simp only [h3, if_false]; omega
    · simp only [h2, if_false]
      have : n % 2 ^ d + 1 ≤ 2 ^ (d - 1) := by omega
      omega

/-- `m·2^d ≥ x·(1 - 2^-53)` for the true value `x ∈ [n, n+1)` (`x = n` when nothing was cut off),
`d = bitlen n - 53 > 0` -/
theorem round_core_ge (n : Nat) (st : Bool) (x : ℚ) (hn : n ≠ 0) (hd : 0 < bitlen n - 53)
    (hx : (n : ℚ) ≤ x) (hx1 : x ≤ (n : ℚ) + (if st then 1 else 0)) :
    x * (1 - u) ≤ ((shiftRNE n (bitlen n - 53) st : Nat) : ℚ) * 2 ^ (bitlen n - 53) := by
  have hu := u_pos
  have h1 := shiftRNE_mul_ge n (bitlen n - 53) st hd
  have h2 := two_pow_le_of_bitlen n hn
  have h3 : 2 ^ (bitlen n - 53 - 1) * 2 ^ 53 ≤ n := by
    have : bitlen n - 53 - 1 + 53 = bitlen n - 1 := by omega
    calc 2 ^ (bitlen n - 53 - 1) * 2 ^ 53 = 2 ^ (bitlen n - 53 - 1 + 53) := by rw [pow_add]
      _ = 2 ^ (bitlen n - 1) := by rw [this]
      _ ≤ n := h2
  have h1q : (n : ℚ) + (if st then 1 else 0) ≤
      ((shiftRNE n (bitlen n - 53) st : Nat) : ℚ) * 2 ^ (bitlen n - 53) + 2 ^ (bitlen n - 53 - 1) := by
    have : ((n + (if st then 1 else 0) : Nat) : ℚ) ≤
        ((shiftRNE n (bitlen n - 53) st * 2 ^ (bitlen n - 53) + 2 ^ (bitlen n - 53 - 1) : Nat) : ℚ) := by
      exact_mod_cast h1
    push_cast at this
    cases st <;> simpa using this
  have h3q : (2 : ℚ) ^ (bitlen n - 53 - 1) * 2 ^ 53 ≤ (n : ℚ) := by exact_mod_cast h3
  have h4 : (2 : ℚ) ^ (bitlen n - 53 - 1) ≤ (n : ℚ) * u := by
    unfold u
    rw [mul_one_div, le_div_iff₀ (by positivity)]
    exact h3q
  have h5 : (n : ℚ) * u ≤ x * u := mul_le_mul_of_nonneg_right hx (le_of_lt hu)
  nlinarith

theorem roundNat_ge (n : Nat) (e : ℤ) : (n : ℚ) * 2 ^ e * (1 - u) ≤ (roundNat n e).toQ := by
  have hu := u_pos
  by_cases hn : n = 0
  · subst hn; simp [roundNat, F.toQ]
  · rw [roundNat_toQ n e hn]
    have hp := two_zpow_pos e
    by_cases hd : bitlen n - 53 = 0
    · rw [hd]
      simp only [shiftRNE, if_true, pow_zero, mul_one]
      have : (0 : ℚ) ≤ (n : ℚ) * 2 ^ e := by positivity
      nlinarith
    · have h := round_core_ge n false (n : ℚ) hn (Nat.pos_of_ne_zero hd) (le_refl _) (by simp)
      calc (n : ℚ) * 2 ^ e * (1 - u) = ((n : ℚ) * (1 - u)) * 2 ^ e := by ring
        _ ≤ _ := mul_le_mul_of_nonneg_right h (le_of_lt hp)

theorem fadd_ge (x y : F) : (x.toQ + y.toQ) * (1 - u) ≤ (fadd x y).toQ := by
  have hu := u_pos
  unfold fadd
  by_cases hx : x.m = 0
  · simp only [hx, if_true]
    have := toQ_nonneg y
    rw [toQ_zero_of_m x hx]
    nlinarith
  · simp only [hx, if_false]
    by_cases hy : y.m = 0
    · simp only [hy, if_true]
      have := toQ_nonneg x
      rw [toQ_zero_of_m y hy]
      nlinarith
    · simp only [hy, if_false]
      have h := roundNat_ge (alignL x y + alignR x y) (min x.e y.e)
      rw [toQ_alignL x y, toQ_alignR x y]
      push_cast at h
      calc _ = ((alignL x y : ℚ) + (alignR x y : ℚ)) * 2 ^ (min x.e y.e) * (1 - u) := by ring
        _ ≤ _ := h

theorem divNat_ge (a b : Nat) (ha : 0 < a) (hab : a ≤ b) : (a : ℚ) / b * (1 - u) ≤ (divNat a b).toQ := by
  have hb : 0 < b := lt_of_lt_of_le ha hab
  have ha0 : a ≠ 0 := by omega
  have hb0 : b ≠ 0 := by omega
  have hlog : Nat.log2 a ≤ Nat.log2 b := by
    by_contra hcon
    have hlt : Nat.log2 b < Nat.log2 a := by omega
    have h1 := (Nat.log2_lt hb0).mp hlt
    have h2 := Nat.log2_self_le ha0
    omega
  obtain ⟨s, hsz, hsn⟩ : ∃ s : Nat, (55 + (Nat.log2 b : ℤ) - (Nat.log2 a : ℤ)) = (s : ℤ) ∧ s = 55 + Nat.log2 b - Nat.log2 a :=
    ⟨55 + Nat.log2 b - Nat.log2 a, by omega, rfl⟩
  -- the integer quotient has at least 55 bits
  have hbig : 2 ^ 54 ≤ (a * 2 ^ s) / b := by
    rw [Nat.le_div_iff_mul_le hb]
    have hb2 : b < 2 ^ (Nat.log2 b + 1) := Nat.lt_log2_self
    have ha2 := Nat.log2_self_le ha0
    calc 2 ^ 54 * b ≤ 2 ^ 54 * 2 ^ (Nat.log2 b + 1) := Nat.mul_le_mul_left _ (le_of_lt hb2)
      _ = 2 ^ (Nat.log2 a + s) := by rw [← pow_add]; congr 1; omega
      _ = 2 ^ Nat.log2 a * 2 ^ s := by rw [pow_add]
      _ ≤ a * 2 ^ s := Nat.mul_le_mul_right _ ha2
  have hnum : (a * 2 ^ s) / b ≠ 0 := by
    have : 0 < 2 ^ 54 := by positivity
    omega
  have hdef : divNat a b =
      (let n := (a * 2 ^ s) / b
       let sticky := decide ((a * 2 ^ s) % b ≠ 0)
       let d := bitlen n - 53
       let m := shiftRNE n d sticky
       if m = 2 ^ 53 then ⟨2 ^ 52, (d : Int) + 1 - s⟩ else ⟨m, (d : Int) - s⟩) := by
    unfold divNat
    have h0 : ¬ (a = 0 ∨ b = 0) := by omega
    simp only [h0, if_false]
    have e1 : ((s : ℤ)).toNat = s := by simp
    have e2 : (-(s : ℤ)).toNat = 0 := by simp
    simp only [hsz, e1, e2, pow_zero, mul_one]
  set n := (a * 2 ^ s) / b with hn
  have hbq : (0 : ℚ) < b := by exact_mod_cast hb
  have hxn : (n : ℚ) ≤ (a : ℚ) * 2 ^ s / b := by
    rw [le_div_iff₀ hbq]
    have := Nat.div_mul_le_self (a * 2 ^ s) b
    exact_mod_cast this
  have hdm := Nat.div_add_mod (a * 2 ^ s) b
  have hml : (a * 2 ^ s) % b < b := Nat.mod_lt _ hb
  have hx1 : (a : ℚ) * 2 ^ s / b ≤ (n : ℚ) + (if decide ((a * 2 ^ s) % b ≠ 0) then 1 else 0) := by
    rw [div_le_iff₀ hbq]
    by_cases hr : (a * 2 ^ s) % b = 0
    · have hex : a * 2 ^ s = b * n := by rw [hn]; omega
      simp only [hr, ne_eq, not_true_eq_false, decide_false, Bool.false_eq_true, if_false, add_zero]
      have : ((a * 2 ^ s : Nat) : ℚ) = ((b * n : Nat) : ℚ) := by rw [hex]
      push_cast at this
      rw [this]; ring_nf; exact le_refl _
    · simp only [hr, ne_eq, not_false_eq_true, decide_true, if_true]
      have hle : a * 2 ^ s ≤ b * n + b := by rw [hn]; omega
      have : ((a * 2 ^ s : Nat) : ℚ) ≤ ((b * n + b : Nat) : ℚ) := by exact_mod_cast hle
      push_cast at this
      nlinarith
  have hbit : 0 < bitlen n - 53 := by
    have h54 : ¬ (Nat.log2 n < 54) := by
      rw [Nat.log2_lt hnum]; omega
    rw [bitlen_pos n hnum]; omega
  have hcore := round_core_ge n (decide ((a * 2 ^ s) % b ≠ 0)) ((a : ℚ) * 2 ^ s / b) hnum hbit hxn hx1
  have h2 : (2 : ℚ) ≠ 0 := by norm_num
  have hval : (divNat a b).toQ =
      ((shiftRNE n (bitlen n - 53) (decide ((a * 2 ^ s) % b ≠ 0)) : Nat) : ℚ) * 2 ^ (bitlen n - 53) / 2 ^ s := by
    rw [hdef]
    simp only
    by_cases hm : shiftRNE n (bitlen n - 53) (decide ((a * 2 ^ s) % b ≠ 0)) = 2 ^ 53
    · simp only [hm, if_true, F.toQ]
      rw [zpow_sub₀ h2, zpow_add₀ h2, zpow_natCast, zpow_natCast]
      push_cast
      ring
    · simp only [hm, if_false, F.toQ]
      rw [zpow_sub₀ h2, zpow_natCast, zpow_natCast]
      ring
  rw [hval, le_div_iff₀ (by positivity)]
  calc (a : ℚ) / b * (1 - u) * 2 ^ s = (a : ℚ) * 2 ^ s / b * (1 - u) := by ring
    _ ≤ _ := hcore

/-- Bernoulli: `(1-u)^n ≥ 1 - n·u` -/
theorem one_sub_u_pow_ge (n : Nat) : 1 - (n : ℚ) * u ≤ (1 - u) ^ n := by
  have hu := u_pos
  have hu1 : u ≤ 1 := by unfold u; rw [div_le_one (by positivity)]; norm_num
  induction n with
  | zero => simp
  | succ k ih =>
    rw [pow_succ]
    push_cast
    have h1 : (1 - (k : ℚ) * u) * (1 - u) ≤ (1 - u) ^ k * (1 - u) :=
      mul_le_mul_of_nonneg_right ih (by linarith)
    have h2 : (0 : ℚ) ≤ (k : ℚ) * u * u := by positivity
    nlinarith

theorem one_sub_u_pow_le_one (n : Nat) : (1 - u) ^ n ≤ 1 := by
  have hu := u_pos
  have hu1 : u ≤ 1 := by unfold u; rw [div_le_one (by positivity)]; norm_num
  exact pow_le_one₀ (by linarith) (by linarith)

theorem one_sub_u_pow_nonneg (n : Nat) : 0 ≤ (1 - u) ^ n := by
  have hu1 : u ≤ 1 := by unfold u; rw [div_le_one (by positivity)]; norm_num
  exact pow_nonneg (by linarith) n

end Sm.F64
