/-
Relations between runs of the iterator on related inputs (reverse complement, letter case,
overlapping pieces, short sequences) and the shape of what `add_sequence` offers to a sketch.
-/
import SmVerif.Lemmas.SeqPy

namespace Sm.Seq

theorem new_congr_upper (s t : List Nat) (K : Nat) (force isProtein : Bool) (hf : HashFn)
    (h : upper t = upper s) : new t K force isProtein hf = new s K force isProtein hf := by
  have hl : t.length = s.length := by
    have := congrArg List.length h
    simpa [upper] using this
  simp [new, h, hl]

theorem iterate_congr_upper (hash : List Nat → Nat) (s t : List Nat) (K : Nat) (force isProtein : Bool)
    (hf : HashFn) (h : upper t = upper s) :
    iterate hash t K force isProtein hf = iterate hash s K force isProtein hf := by
  have hl : t.length = s.length := by
    have := congrArg List.length h
    simpa [upper] using this
  unfold iterate fuelFor
  rw [new_congr_upper s t K force isProtein hf h, hl]

theorem upper_append (a b : List Nat) : upper (a ++ b) = upper a ++ upper b := by simp [upper]

/-- the reverse complement of an all-valid sequence yields the same hashes, last window first -/
theorem iterate_revcomp (hash : List Nat → Nat) (s t : List Nat) (k : Nat) (force : Bool)
    (hs : (upper s).all valid = true) (ht : upper t = revcomp (upper s)) :
    iterate hash s k force false .dna = ((windows k (upper s)).map (fun w => hash (canon w)), .done) ∧
    iterate hash t k force false .dna = (((windows k (upper s)).map (fun w => hash (canon w))).reverse, .done) := by
  rw [iterate_dna_eq_spec, iterate_dna_eq_spec]
  unfold dnaSpec
  have hws := windows_all_valid (k := k) hs
  refine ⟨dnaGo_all_valid hash force _ hws, ?_⟩
  rw [ht, windows_revcomp]
  rw [dnaGo_all_valid]
  · congr 1
    rw [List.map_reverse, List.map_map]
    congr 1
    apply List.map_congr_left
    intro w hw
    simp [canon_revcomp (hws w hw)]
  · intro w hw
    simp only [List.mem_reverse, List.mem_map] at hw
    obtain ⟨v, hv, rfl⟩ := hw
    exact revcomp_all_valid (hws v hv)

theorem filter_map_force (hash : List Nat → Nat) (h0 : ∀ w, hash w ≠ 0) :
    ∀ (ws : List (List Nat)),
      (ws.map (fun w => if w.all valid then hash (canon w) else 0)).filter (· != 0) =
        (ws.filter (fun w => w.all valid)).map (fun w => hash (canon w))
  | [] => rfl
  | w :: ws => by
    have ih := filter_map_force hash h0 ws
    by_cases hw : w.all valid = true
    · have hne : (hash (canon w) != 0) = true := by simpa using h0 (canon w)
      simp only [List.map_cons, hw, if_true, List.filter_cons, hne]
      rw [ih]
    · have hw' : w.all valid = false := by simpa using hw
      simp only [List.map_cons, hw', List.filter_cons]
      simpa using ih

theorem iterate_pieces (hash : List Nat → Nat) (a b c : List Nat) (k : Nat) (force : Bool)
    (hk : 1 ≤ k) (hb : b.length = k - 1) :
    iterate hash (a ++ b ++ c) k force false .dna =
      seqThen (iterate hash (a ++ b) k force false .dna) (iterate hash (b ++ c) k force false .dna) := by
  simp only [iterate_dna_eq_spec, dnaSpec, upper_append]
  rw [windows_append_overlap hk _ _ _ (by rw [length_upper]; exact hb), dnaGo_append]

theorem iterate_translate_short (hash : List Nat → Nat) (seq : List Nat) (K : Nat) (force : Bool)
    (hf : HashFn) (hhf : hf ≠ .dna) (h : seq.length < 3 * (K / 3)) :
    iterate hash seq K force false hf = ([], .done) := by
  unfold iterate fuelFor
  simp [collect, next_new_translate_short hash seq K force hf hhf h]

theorem all_valid_ascii {s : List Nat} (h : s.all valid = true) : ∀ b ∈ s, b < 128 := by
  rw [List.all_eq_true] at h
  intro b hb
  rcases (valid_iff b).1 (h b hb) with rfl | rfl | rfl | rfl <;> omega

theorem sixFrames_revcomp_perm (hash : List Nat → Nat) (hf : HashFn) (k : Nat) (s t : List Nat)
    (hs : (upper s).all valid = true) (ht : upper t = revcomp (upper s)) :
    (sixFrames hash hf k t).Perm (sixFrames hash hf k s) := by
  unfold sixFrames
  simp only [ht, revcomp_revcomp hs, List.flatMap_cons, List.flatMap_nil, List.append_nil]
  exact (List.perm_append_comm).append ((List.perm_append_comm).append List.perm_append_comm)

end Sm.Seq
