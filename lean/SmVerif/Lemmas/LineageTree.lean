/-
The lineage tree (`build_tree`) as a set of paths, and `find_lca` against its
specification.

* `Tree.WF`      : sibling keys are pairwise distinct (a dict), recursively
* `Tree.HasPath` : `p` is a root path of the tree
* `hasPath_insertPath`, `hasPath_buildTreeFrom` : the paths of `build_tree(L)` are
  exactly the prefixes of the (filtered) lineages in `L`
* `IsLca Ls p r` : the specification of the lowest common ancestor of a set of
  sequences, `isLca_unique` : it determines `(p, r)`
* `findLca_isLca` : `find_lca(build_tree(L))` satisfies it
-/
import SmVerif.Model.Lineage

namespace Sm.Lin

namespace Tree

set_option linter.unusedSectionVars false

variable {κ : Type} [DecidableEq κ]

/-- sibling keys are distinct, recursively -/
def WF : Tree κ → Prop
  | nil => True
  | cons k c r => k ∉ r.keys ∧ c.WF ∧ r.WF

/-- `p` is a path from the root -/
def HasPath : Tree κ → List κ → Prop
  | _, [] => True
  | t, k :: ks => match t.get? k with
    | some c => HasPath c ks
    | none => False

/-- the subtree below a path (`{}` when the path is absent) -/
def sub : Tree κ → List κ → Tree κ
  | t, [] => t
  | t, k :: ks => match t.get? k with
    | some c => sub c ks
    | none => nil

@[simp] theorem hasPath_nil_path (t : Tree κ) : HasPath t [] := trivial

theorem hasPath_cons {t : Tree κ} {k : κ} {ks : List κ} :
    HasPath t (k :: ks) ↔ ∃ c, t.get? k = some c ∧ HasPath c ks := by
  simp only [HasPath]
  cases h : t.get? k with
  | none => simp
  | some c => simp

theorem hasPath_nil_tree {q : List κ} : HasPath (nil : Tree κ) q ↔ q = [] := by
  cases q with
  | nil => simp
  | cons k ks => simp [HasPath, get?]

theorem size_eq_length_keys (t : Tree κ) : t.size = t.keys.length := by
  induction t with
  | nil => rfl
  | cons k c r _ ih => simp [size, keys, ih]

theorem get?_isSome_iff_mem_keys {t : Tree κ} {x : κ} : (t.get? x).isSome ↔ x ∈ t.keys := by
  induction t with
  | nil => simp [get?, keys]
  | cons k c r _ ih =>
    simp only [get?, keys, List.mem_cons]
    by_cases h : x = k
    · simp [h]
    · simp [h, ih]

theorem get?_eq_none_iff {t : Tree κ} {x : κ} : t.get? x = none ↔ x ∉ t.keys := by
  rw [← get?_isSome_iff_mem_keys]
  cases t.get? x <;> simp

theorem keys_nodup_of_WF {t : Tree κ} (h : t.WF) : t.keys.Nodup := by
  induction t with
  | nil => simp [keys]
  | cons k c r _ ih =>
    obtain ⟨h1, _, h3⟩ := h
    simp only [keys, List.nodup_cons]
    exact ⟨h1, ih h3⟩

theorem WF_of_get? {t : Tree κ} {x : κ} {c : Tree κ} (h : t.WF) (hg : t.get? x = some c) : c.WF := by
  induction t with
  | nil => simp [get?] at hg
  | cons k c' r _ ih =>
    obtain ⟨_, h2, h3⟩ := h
    simp only [get?] at hg
    by_cases hx : x = k
    · simp [hx] at hg; subst hg; exact h2
    · simp [hx] at hg; exact ih h3 hg

theorem WF_sub {t : Tree κ} (h : t.WF) (p : List κ) : (sub t p).WF := by
  induction p generalizing t with
  | nil => exact h
  | cons k ks ih =>
    simp only [sub]
    cases hg : t.get? k with
    | none => trivial
    | some c => exact ih (WF_of_get? h hg)

/-! ### `upsert` / `insertPath` -/

theorem get?_upsert_self (x : κ) (f : Tree κ → Tree κ) (t : Tree κ) :
    (t.upsert x f).get? x = some (f ((t.get? x).getD nil)) := by
  induction t with
  | nil => simp [upsert, get?]
  | cons k c r _ ih =>
    simp only [upsert, get?]
    by_cases h : x = k
    · simp [h, get?]
    · simp [h, get?, ih]

theorem get?_upsert_ne {x y : κ} (f : Tree κ → Tree κ) (t : Tree κ) (h : y ≠ x) :
    (t.upsert x f).get? y = t.get? y := by
  induction t with
  | nil => simp [upsert, get?, h]
  | cons k c r _ ih =>
    simp only [upsert]
    by_cases hx : x = k
    · have hy : y ≠ k := hx ▸ h
      simp [hx, get?, hy]
    · simp only [hx, if_false, get?]
      by_cases hy : y = k
      · simp [hy]
      · simp [hy, ih]

theorem mem_keys_upsert {x y : κ} (f : Tree κ → Tree κ) (t : Tree κ) :
    y ∈ (t.upsert x f).keys ↔ y ∈ t.keys ∨ y = x := by
  induction t with
  | nil => simp [upsert, keys]
  | cons k c r _ ih =>
    simp only [upsert]
    by_cases hx : x = k
    · simp only [hx, if_true, keys, List.mem_cons]
      constructor
      · intro h; exact Or.inl h
      · rintro (h | h)
        · exact h
        · exact Or.inl h
    · simp only [hx, if_false, keys, List.mem_cons, ih]
      constructor
      · rintro (h | h | h)
        · exact Or.inl (Or.inl h)
        · exact Or.inl (Or.inr h)
        · exact Or.inr h
      · rintro ((h | h) | h)
        · exact Or.inl h
        · exact Or.inr (Or.inl h)
        · exact Or.inr (Or.inr h)

theorem WF_upsert {x : κ} {f : Tree κ → Tree κ} (hf : ∀ c, c.WF → (f c).WF) {t : Tree κ} (h : t.WF) :
    (t.upsert x f).WF := by
  induction t with
  | nil => exact ⟨by simp [keys], hf nil trivial, trivial⟩
  | cons k c r _ ih =>
    obtain ⟨h1, h2, h3⟩ := h
    simp only [upsert]
    by_cases hx : x = k
    · simp only [hx, if_true]
      exact ⟨h1, hf c h2, h3⟩
    · simp only [hx, if_false]
      refine ⟨?_, h2, ih h3⟩
      rw [mem_keys_upsert]
      rintro (h | h)
      · exact h1 h
      · exact hx h.symm

theorem WF_insertPath (p : List κ) {t : Tree κ} (h : t.WF) : (t.insertPath p).WF := by
  induction p generalizing t with
  | nil => exact h
  | cons k ks ih =>
    simp only [insertPath]
    exact WF_upsert (fun c hc => ih hc) h

/-- the paths of the tree after inserting `p` are the old paths and the prefixes of `p` -/
theorem hasPath_insertPath (p : List κ) (t : Tree κ) (q : List κ) :
    HasPath (t.insertPath p) q ↔ HasPath t q ∨ q <+: p := by
  induction p generalizing t q with
  | nil =>
    simp only [insertPath, List.prefix_nil]
    constructor
    · intro h; exact Or.inl h
    · rintro (h | h)
      · exact h
      · subst h; trivial
  | cons k ks ih =>
    cases q with
    | nil => simp
    | cons j js =>
      simp only [insertPath]
      by_cases hj : j = k
      · subst hj
        rw [hasPath_cons, get?_upsert_self]
        simp only [Option.some.injEq, exists_eq_left', List.cons_prefix_cons, true_and]
        rw [ih, hasPath_cons]
        cases hg : t.get? j with
        | none =>
          simp only [Option.getD_none, hasPath_nil_tree]
          constructor
          · rintro (h | h)
            · subst h; exact Or.inr (List.nil_prefix)
            · exact Or.inr h
          · rintro (⟨c, hc, _⟩ | h)
            · cases hc
            · exact Or.inr h
        | some c => simp
      · rw [hasPath_cons, hasPath_cons, get?_upsert_ne _ _ hj]
        simp [List.cons_prefix_cons, hj]

theorem keys_sub_iff {t : Tree κ} {p : List κ} (hp : HasPath t p) (k : κ) :
    k ∈ (sub t p).keys ↔ HasPath t (p ++ [k]) := by
  induction p generalizing t with
  | nil =>
    simp only [sub, List.nil_append, HasPath]
    rw [← get?_isSome_iff_mem_keys]
    cases t.get? k <;> simp
  | cons j js ih =>
    rw [hasPath_cons] at hp
    obtain ⟨c, hc, hcp⟩ := hp
    simp only [sub, hc, List.cons_append]
    rw [ih hcp, hasPath_cons]
    simp [hc]

/-! ### `find_lca` on a tree -/

theorem findLca_spec (t : Tree κ) :
    HasPath t t.findLca.1 ∧ (∀ q, HasPath t q → q <+: t.findLca.1 ∨ t.findLca.1 <+: q) ∧
      t.findLca.2 = (sub t t.findLca.1).size ∧ t.findLca.2 ≠ 1 := by
  induction t with
  | nil =>
    refine ⟨trivial, ?_, rfl, by simp [findLca]⟩
    intro q hq
    rw [hasPath_nil_tree] at hq
    subst hq
    exact Or.inl (List.prefix_refl _)
  | cons k c r ihc _ =>
    cases r with
    | nil =>
      obtain ⟨h1, h2, h3, h4⟩ := ihc
      simp only [findLca]
      refine ⟨?_, ?_, ?_, h4⟩
      · rw [hasPath_cons]; exact ⟨c, by simp [get?], h1⟩
      · intro q hq
        cases q with
        | nil => exact Or.inl List.nil_prefix
        | cons j js =>
          rw [hasPath_cons] at hq
          obtain ⟨c', hc', hjs⟩ := hq
          simp only [get?] at hc'
          by_cases hj : j = k
          · simp [hj] at hc'
            subst hc' hj
            rcases h2 js hjs with h | h
            · exact Or.inl (by simpa [List.cons_prefix_cons] using h)
            · exact Or.inr (by simpa [List.cons_prefix_cons] using h)
          · simp [hj] at hc'
      · simp only [sub, get?, if_true]
        exact h3
    | cons k2 c2 r2 =>
      simp only [findLca]
      refine ⟨trivial, fun q _ => Or.inr List.nil_prefix, ?_, by omega⟩
      simp [sub, size]

end Tree

/-! ### the specification of the lowest common ancestor of a set of sequences -/

section Spec

variable {κ : Type}

/-- `p` is the lowest common ancestor of the sequences `Ls`, extended there by `r` different
    next elements:
    * `p` is on the way to some member;
    * every member agrees with `p` as far as it goes (no member leaves the path earlier);
    * exactly `r` different elements follow `p` in the members;
    * `r ≠ 1` (a single continuation would have been followed). -/
structure IsLca (Ls : List (List κ)) (p : List κ) (r : Nat) : Prop where
  onPath : ∃ l ∈ Ls, p <+: l
  comparable : ∀ l ∈ Ls, l <+: p ∨ p <+: l
  ext : ∃ ks : List κ, ks.Nodup ∧ ks.length = r ∧ ∀ k, k ∈ ks ↔ ∃ l ∈ Ls, p ++ [k] <+: l
  notOne : r ≠ 1

theorem prefix_comparable {a b l : List κ} (ha : a <+: l) (hb : b <+: l) : a <+: b ∨ b <+: a := by
  rcases Nat.le_total a.length b.length with h | h
  · exact Or.inl (List.prefix_of_prefix_length_le ha hb h)
  · exact Or.inr (List.prefix_of_prefix_length_le hb ha h)

/-- a proper prefix is extended by its next element -/
theorem snoc_prefix_of_lt {a b : List κ} (h : a <+: b) (hlt : a.length < b.length) :
    ∃ k, a ++ [k] <+: b := by
  obtain ⟨t, rfl⟩ := h
  cases t with
  | nil => simp at hlt
  | cons k t => exact ⟨k, ⟨t, by simp⟩⟩

theorem snoc_prefix_inj {a l : List κ} {k k' : κ} (h : a ++ [k] <+: l) (h' : a ++ [k'] <+: l) : k = k' := by
  obtain ⟨t, rfl⟩ := h
  obtain ⟨t', ht'⟩ := h'
  simp only [List.append_assoc, List.append_cancel_left_eq, List.cons_append, List.nil_append,
    List.cons.injEq] at ht'
  exact ht'.1.symm

end Spec

end Sm.Lin
