/-
The queue discipline of `_fill_up` on an insertion-shaped position range, abstracted from the tree: `μ x` is the
`min_n_below` recorded at `x` (`some _` exactly when `x` has been processed).  Used for the sparse version-3 load.
-/
import SmVerif.Lemmas.SBTV3Full

namespace Sm.SBT

structure QInv (d m M : Nat) (μ : Nat → Option Nat) (visited queue : List Nat) : Prop where
  sorted : queue.Pairwise (· > ·)
  qle : ∀ x ∈ queue, x ≤ M
  qlt : ∀ x ∈ queue, ∀ v ∈ visited, x < v
  kids : ∀ x, (μ x).isSome = true → ∀ j, j < d → child d x j ∈ visited
  qproc : ∀ x ∈ queue, x < m → (μ x).isSome = true
  above : ∀ p, 1 ≤ p → p ≤ M → (∀ x ∈ queue, x < p) → p ∈ visited
  vis : ∀ v ∈ visited, 1 ≤ v → v ≤ M → (μ (parent d v)).isSome = true
  live : ∀ p, 1 ≤ p → p ≤ M → (m ≤ p ∨ (μ p).isSome = true) → p ∈ queue ∨ p ∈ visited

/-- an unprocessed internal position is at most the parent of the head of the queue -/
theorem QInv.unproc_le {d m M : Nat} {μ : Nat → Option Nat} {visited rest : List Nat} {c : Nat}
    (hd : 2 ≤ d) (hlow : d * (m - 1) + 1 ≤ M) (h : QInv d m M μ visited (c :: rest)) {p : Nat} (hpm : p < m)
    (hp : (μ p).isSome = false) : p ≤ parent d c := by
  have hd0 : 0 < d := by omega
  have hrest_lt := (List.pairwise_cons.mp h.sorted).1
  have hz1 : 1 ≤ child d p 0 := by unfold child; omega
  have hzM : child d p 0 ≤ M := by
    have : d * p ≤ d * (m - 1) := Nat.mul_le_mul_left _ (by omega)
    unfold child; omega
  have hznv : child d p 0 ∉ visited := by
    intro hz
    have := h.vis _ hz hz1 hzM
    rw [parent_child hd0, hp] at this
    cases this
  have hzc : child d p 0 ≤ c := by
    apply Classical.byContradiction
    intro hgt
    apply hznv
    apply h.above _ hz1 hzM
    intro x hx
    rcases List.mem_cons.mp hx with rfl | hx
    · omega
    · have := hrest_lt x hx; omega
  exact le_parent_of_child_zero_le hd0 hzc

/-- an internal child of the parent of the head has been processed -/
theorem QInv.child_proc {d m M : Nat} {μ : Nat → Option Nat} {visited rest : List Nat} {c : Nat}
    (hd : 2 ≤ d) (hlow : d * (m - 1) + 1 ≤ M) (hc1 : 0 < c) (h : QInv d m M μ visited (c :: rest)) {i : Nat}
    (hym : child d (parent d c) i < m) : (μ (child d (parent d c) i)).isSome = true := by
  have hd0 : 0 < d := by omega
  obtain ⟨_, hb2⟩ := child_block (d := d) hd0 hc1
  have hrest_lt := (List.pairwise_cons.mp h.sorted).1
  have hzgt : c < child d (child d (parent d c) i) 0 := grandchild_gt hd0 (by unfold child; omega) hb2
  have hzM : child d (child d (parent d c) i) 0 ≤ M := by
    have : d * child d (parent d c) i ≤ d * (m - 1) := Nat.mul_le_mul_left _ (by omega)
    unfold child at this ⊢; omega
  have hzv := h.above _ (by omega) hzM (by
    intro x hx
    rcases List.mem_cons.mp hx with rfl | hx
    · exact hzgt
    · have := hrest_lt x hx; omega)
  have := h.vis _ hzv (by omega) hzM
  rwa [parent_child hd0] at this

/-- one processed pop: the parent `pp` of the head gets a value and is re-queued -/
theorem q_step {d m M : Nat} {μ : Nat → Option Nat} {visited rest : List Nat} {c : Nat} (hd : 2 ≤ d)
    (hmM : m ≤ M) (hMdm : M ≤ d * m) (hlow : d * (m - 1) + 1 ≤ M) (hc0 : c ≠ 0)
    (hinv : QInv d m M μ visited (c :: rest)) :
    parent d c < m ∧ visited.contains c = false ∧ μ (parent d c) = none ∧
    ∀ (V : Nat) (μ' : Nat → Option Nat), (∀ x, μ' x = if x = parent d c then some V else μ x) →
      QInv d m M μ' (((List.range d).map (child d (parent d c))).reverse ++ c :: visited)
        (((List.range d).map (child d (parent d c))).foldl (fun q x => removeFirst x q) rest ++ [parent d c]) ∧
      ∀ x ∈ ((List.range d).map (child d (parent d c))).foldl (fun q x => removeFirst x q) rest ++ [parent d c], x < c := by
  have hd0 : 0 < d := by omega
  have hc1 : 0 < c := Nat.pos_of_ne_zero hc0
  have hcM : c ≤ M := hinv.qle c List.mem_cons_self
  have hpp : parent d c < m := parent_lt_of_le_mul hd0 hc1 (Nat.le_trans hcM hMdm)
  obtain ⟨hb1, hb2⟩ := child_block (d := d) hd0 hc1
  have hppc : parent d c < c := parent_lt hc1
  have hcv : c ∉ visited := fun h => Nat.lt_irrefl _ (hinv.qlt c List.mem_cons_self c h)
  obtain ⟨hrest_lt, hrest_sorted⟩ := List.pairwise_cons.mp hinv.sorted
  have hunproc : μ (parent d c) = none := by
    cases hm : μ (parent d c) with
    | none => rfl
    | some v =>
      exfalso
      have := hinv.kids (parent d c) (by rw [hm]; rfl) (c - (d * parent d c + 1)) (by omega)
      have e : child d (parent d c) (c - (d * parent d c + 1)) = c := by unfold child; omega
      rw [e] at this
      exact hcv this
  refine ⟨hpp, by simpa using hcv, hunproc, ?_⟩
  intro V μ' hmin'
  have hmono : ∀ x, (μ x).isSome = true → (μ' x).isSome = true := by
    intro x hx; rw [hmin']; split
    · rfl
    · exact hx
  have hnodup : rest.Nodup := List.Pairwise.imp (fun h => by omega) hrest_sorted
  rw [foldl_removeFirst_eq_filter _ hnodup]
  generalize hQ0 : rest.filter (fun y => !((List.range d).map (child d (parent d c))).contains y) = Q0
  have hQ0mem : ∀ x, x ∈ Q0 ↔ (x ∈ rest ∧ ¬ (d * parent d c + 1 ≤ x ∧ x ≤ d * parent d c + d)) := by
    intro x
    rw [← hQ0, List.mem_filter, ← mem_sibs_iff]
    simp
  have hQ0sorted : Q0.Pairwise (· > ·) := by
    rw [← hQ0]; exact List.Pairwise.sublist List.filter_sublist hrest_sorted
  have hQ0lt : ∀ x ∈ Q0, x < d * parent d c + 1 := by
    intro x hx
    obtain ⟨h1, h2⟩ := (hQ0mem x).mp hx
    have := hrest_lt x h1
    omega
  have hQ0gt : ∀ x ∈ Q0, parent d c < x := by
    intro x hx
    obtain ⟨h1, _⟩ := (hQ0mem x).mp hx
    apply Classical.byContradiction
    intro hle
    have hxle : x ≤ parent d c := by omega
    have h3 := hinv.qproc x (List.mem_cons_of_mem _ h1) (by omega)
    have h4 := hinv.kids x h3 0 hd0
    have h5 := hinv.qlt c List.mem_cons_self _ h4
    have h6 := child_zero_mono (d := d) hxle
    unfold child at h5 h6
    omega
  have hppd : parent d c ≤ d * parent d c := Nat.le_mul_of_pos_left _ hd0
  have hQ'mem : ∀ x, x ∈ Q0 ++ [parent d c] ↔ (x ∈ Q0 ∨ x = parent d c) := by
    intro x; simp
  have hvis' : ∀ v, v ∈ ((List.range d).map (child d (parent d c))).reverse ++ c :: visited ↔
      ((d * parent d c + 1 ≤ v ∧ v ≤ d * parent d c + d) ∨ v = c ∨ v ∈ visited) := by
    intro v
    rw [List.mem_append, List.mem_reverse, mem_sibs_iff, List.mem_cons]
  refine ⟨⟨?_, ?_, ?_, ?_, ?_, ?_, ?_, ?_⟩, ?_⟩
  · -- sorted
    rw [List.pairwise_append]
    refine ⟨hQ0sorted, List.pairwise_singleton _ _, ?_⟩
    intro a ha b hb
    have : b = parent d c := by simpa using hb
    rw [this]; exact hQ0gt a ha
  · -- qle
    intro x hx
    rcases (hQ'mem x).mp hx with h | h
    · exact hinv.qle x (List.mem_cons_of_mem _ ((hQ0mem x).mp h).1)
    · omega
  · -- qlt
    intro x hx v hv
    rw [hvis'] at hv
    rcases (hQ'mem x).mp hx with h | h
    · have h1 := hQ0lt x h
      have h2 := ((hQ0mem x).mp h).1
      rcases hv with hv | hv | hv
      · omega
      · have := hrest_lt x h2; omega
      · exact hinv.qlt x (List.mem_cons_of_mem _ h2) v hv
    · rcases hv with hv | hv | hv
      · omega
      · omega
      · have := hinv.qlt c List.mem_cons_self v hv; omega
  · -- kids
    intro x hx j hj
    rw [hvis']
    rw [hmin'] at hx
    split at hx
    · rename_i hxp; subst hxp
      left; unfold child; omega
    · right; right; exact hinv.kids x hx j hj
  · -- qproc
    intro x hx hxm
    rcases (hQ'mem x).mp hx with h | h
    · exact hmono x (hinv.qproc x (List.mem_cons_of_mem _ ((hQ0mem x).mp h).1) hxm)
    · rw [hmin', if_pos h]; rfl
  · -- above
    intro p hp1 hpM hall
    rw [hvis']
    have hpp_lt : parent d c < p := hall _ ((hQ'mem _).mpr (Or.inr rfl))
    by_cases h1 : c < p
    · right; right
      apply hinv.above p hp1 hpM
      intro x hx
      rcases List.mem_cons.mp hx with rfl | hx
      · exact h1
      · have := hrest_lt x hx; omega
    · by_cases h2 : p = c
      · right; left; exact h2
      · by_cases h3 : d * parent d c + 1 ≤ p
        · left; omega
        · right; right
          apply Classical.byContradiction
          intro hpv
          have hprest : p ∉ rest := by
            intro hpr
            have := hall p ((hQ'mem p).mpr (Or.inl ((hQ0mem p).mpr ⟨hpr, by omega⟩)))
            omega
          have hpq : ¬ (p ∈ c :: rest ∨ p ∈ visited) := by
            rintro (h | h)
            · rcases List.mem_cons.mp h with h | h
              · exact h2 h
              · exact hprest h
            · exact hpv h
          have hnl : ¬ (m ≤ p ∨ (μ p).isSome = true) := fun h => hpq (hinv.live p hp1 hpM h)
          have hpm : p < m := by omega
          have hpn : (μ p).isSome = false := by
            cases h : (μ p).isSome with
            | false => rfl
            | true => exact absurd (Or.inr h) hnl
          have := hinv.unproc_le hd hlow hpm hpn
          omega
  · -- vis
    intro v hv hv1 hvM
    rw [hvis'] at hv
    rcases hv with hv | hv | hv
    · have e : parent d v = parent d c := by
        have : v = child d (parent d c) (v - (d * parent d c + 1)) := by unfold child; omega
        rw [this, parent_child (by omega)]
      rw [e, hmin', if_pos rfl]; rfl
    · rw [hv, hmin', if_pos rfl]; rfl
    · exact hmono _ (hinv.vis v hv hv1 hvM)
  · -- live
    intro p hp1 hpM hor
    rw [hvis']
    by_cases hpp' : p = parent d c
    · left; exact (hQ'mem p).mpr (Or.inr hpp')
    · rw [hmin', if_neg hpp'] at hor
      rcases hinv.live p hp1 hpM hor with h | h
      · rcases List.mem_cons.mp h with h | h
        · right; right; left; exact h
        · by_cases hsib : d * parent d c + 1 ≤ p ∧ p ≤ d * parent d c + d
          · right; left; exact hsib
          · left; exact (hQ'mem p).mpr (Or.inl ((hQ0mem p).mpr ⟨h, hsib⟩))
      · right; right; right; exact h
  · intro x hx
    rcases (hQ'mem x).mp hx with h | h
    · exact hrest_lt x ((hQ0mem x).mp h).1
    · omega

/-- at the end every internal position has been processed -/
theorem QInv.done {d m M : Nat} {μ : Nat → Option Nat} {visited queue : List Nat} (hd : 2 ≤ d)
    (hlow : d * (m - 1) + 1 ≤ M) (h : QInv d m M μ visited queue) (hq : ∀ x ∈ queue, x = 0) {x : Nat} (hx : x < m) :
    (μ x).isSome = true := by
  have hd0 : 0 < d := by omega
  have hz1 : 1 ≤ child d x 0 := by unfold child; omega
  have hzM : child d x 0 ≤ M := by
    have : d * x ≤ d * (m - 1) := Nat.mul_le_mul_left _ (by omega)
    unfold child; omega
  have hv := h.above _ hz1 hzM (by intro y hy; rw [hq y hy]; omega)
  have := h.vis _ hv hz1 hzM
  rwa [parent_child hd0] at this

theorem QInv.init {d m M : Nat} {μ : Nat → Option Nat} {queue : List Nat} (hmM : m ≤ M) (hμ : ∀ x, μ x = none)
    (hs : queue.Pairwise (· > ·)) (hq : ∀ x, x ∈ queue ↔ (m ≤ x ∧ x ≤ M)) : QInv d m M μ [] queue := by
  refine ⟨hs, fun x hx => ((hq x).mp hx).2, fun _ _ v hv => (by cases hv), ?_, ?_, ?_, fun v hv => (by cases hv), ?_⟩
  · intro x hx; rw [hμ] at hx; cases hx
  · intro x hx hxm; have := ((hq x).mp hx).1; omega
  · intro p _ hpM hall
    have := hall M ((hq M).mpr ⟨hmM, Nat.le_refl _⟩)
    omega
  · intro p _ hpM hor
    rcases hor with h | h
    · exact Or.inl ((hq p).mpr ⟨h, hpM⟩)
    · rw [hμ] at h; cases h

end Sm.SBT
