/-
C09 (JSON text layer): reading the text that `save` renders gives the signatures back.

  readTextWith false sorts (renderDoc md5hex sigs) = .ok (sigs.map (Sig.afterLoad false), 0)

for every list of encodable signatures (any names / filenames / other strings, hashes and
abundances up to 2^64-1, empty sketches, several sketches per signature, several signatures per
file) whose `version` is a number token.  `md5hex` is arbitrary: the md5sum string of the file is
not looked at by the reader (since 517223f).
-/
import SmVerif.Lemmas.JsonTextParse
import SmVerif.Lemmas.SigJsonCodec

namespace Sm.JsonText

open Sm Sm.SigJson

/-! ### keys -/

@[simp] theorem skKey_num : skKey ['n', 'u', 'm'] = 0 := by decide
@[simp] theorem skKey_num' : skKey "num".toList = 0 := by decide
@[simp] theorem skKey_ksize : skKey ['k', 's', 'i', 'z', 'e'] = 1 := by decide
@[simp] theorem skKey_ksize' : skKey "ksize".toList = 1 := by decide
@[simp] theorem skKey_seed : skKey ['s', 'e', 'e', 'd'] = 2 := by decide
@[simp] theorem skKey_seed' : skKey "seed".toList = 2 := by decide
@[simp] theorem skKey_max_hash : skKey ['m', 'a', 'x', '_', 'h', 'a', 's', 'h'] = 3 := by decide
@[simp] theorem skKey_max_hash' : skKey "max_hash".toList = 3 := by decide
@[simp] theorem skKey_md5sum : skKey ['m', 'd', '5', 's', 'u', 'm'] = 4 := by decide
@[simp] theorem skKey_md5sum' : skKey "md5sum".toList = 4 := by decide
@[simp] theorem skKey_mins : skKey ['m', 'i', 'n', 's'] = 5 := by decide
@[simp] theorem skKey_mins' : skKey "mins".toList = 5 := by decide
@[simp] theorem skKey_abundances : skKey ['a', 'b', 'u', 'n', 'd', 'a', 'n', 'c', 'e', 's'] = 6 := by decide
@[simp] theorem skKey_abundances' : skKey "abundances".toList = 6 := by decide
@[simp] theorem skKey_molecule : skKey ['m', 'o', 'l', 'e', 'c', 'u', 'l', 'e'] = 7 := by decide
@[simp] theorem skKey_molecule' : skKey "molecule".toList = 7 := by decide

@[simp] theorem hllKey_num : hllKey ['n', 'u', 'm'] = 4 := by decide
@[simp] theorem hllKey_num' : hllKey "num".toList = 4 := by decide
@[simp] theorem hllKey_ksize : hllKey ['k', 's', 'i', 'z', 'e'] = 3 := by decide
@[simp] theorem hllKey_ksize' : hllKey "ksize".toList = 3 := by decide
@[simp] theorem hllKey_seed : hllKey ['s', 'e', 'e', 'd'] = 4 := by decide
@[simp] theorem hllKey_seed' : hllKey "seed".toList = 4 := by decide
@[simp] theorem hllKey_max_hash : hllKey ['m', 'a', 'x', '_', 'h', 'a', 's', 'h'] = 4 := by decide
@[simp] theorem hllKey_max_hash' : hllKey "max_hash".toList = 4 := by decide
@[simp] theorem hllKey_md5sum : hllKey ['m', 'd', '5', 's', 'u', 'm'] = 4 := by decide
@[simp] theorem hllKey_md5sum' : hllKey "md5sum".toList = 4 := by decide
@[simp] theorem hllKey_mins : hllKey ['m', 'i', 'n', 's'] = 4 := by decide
@[simp] theorem hllKey_mins' : hllKey "mins".toList = 4 := by decide
@[simp] theorem hllKey_abundances : hllKey ['a', 'b', 'u', 'n', 'd', 'a', 'n', 'c', 'e', 's'] = 4 := by decide
@[simp] theorem hllKey_abundances' : hllKey "abundances".toList = 4 := by decide
@[simp] theorem hllKey_molecule : hllKey ['m', 'o', 'l', 'e', 'c', 'u', 'l', 'e'] = 4 := by decide
@[simp] theorem hllKey_molecule' : hllKey "molecule".toList = 4 := by decide

@[simp] theorem sigKey_class : sigKey ['c', 'l', 'a', 's', 's'] = 0 := by decide
@[simp] theorem sigKey_class' : sigKey "class".toList = 0 := by decide
@[simp] theorem sigKey_email : sigKey ['e', 'm', 'a', 'i', 'l'] = 1 := by decide
@[simp] theorem sigKey_email' : sigKey "email".toList = 1 := by decide
@[simp] theorem sigKey_hash_function : sigKey ['h', 'a', 's', 'h', '_', 'f', 'u', 'n', 'c', 't', 'i', 'o', 'n'] = 2 := by decide
@[simp] theorem sigKey_hash_function' : sigKey "hash_function".toList = 2 := by decide
@[simp] theorem sigKey_filename : sigKey ['f', 'i', 'l', 'e', 'n', 'a', 'm', 'e'] = 3 := by decide
@[simp] theorem sigKey_filename' : sigKey "filename".toList = 3 := by decide
@[simp] theorem sigKey_name : sigKey ['n', 'a', 'm', 'e'] = 4 := by decide
@[simp] theorem sigKey_name' : sigKey "name".toList = 4 := by decide
@[simp] theorem sigKey_license : sigKey ['l', 'i', 'c', 'e', 'n', 's', 'e'] = 5 := by decide
@[simp] theorem sigKey_license' : sigKey "license".toList = 5 := by decide
@[simp] theorem sigKey_signatures : sigKey ['s', 'i', 'g', 'n', 'a', 't', 'u', 'r', 'e', 's'] = 6 := by decide
@[simp] theorem sigKey_signatures' : sigKey "signatures".toList = 6 := by decide
@[simp] theorem sigKey_version : sigKey ['v', 'e', 'r', 's', 'i', 'o', 'n'] = 7 := by decide
@[simp] theorem sigKey_version' : sigKey "version".toList = 7 := by decide

/-! ### numbers -/

theorem jnat_of_lt {n : Nat} (h : n < 2 ^ 64) : jnat n = .num (.nat n) := by unfold jnat; rw [if_pos h]

theorem fldNat_jnat {n : Nat} (h : n < 2 ^ 64) : fldNat (jnat n) = .val n := by rw [jnat_of_lt h]; rfl

theorem natsOf_map_jnat : ∀ (l : List Nat), (∀ x ∈ l, x < 2 ^ 64) → natsOf (l.map jnat) = some l
  | [], _ => rfl
  | x :: xs, h => by
    have hx := h x (by simp)
    have ih := natsOf_map_jnat xs (fun y hy => h y (by simp [hy]))
    simp [natsOf, jnat_of_lt hx, ih]

theorem fldNats_natsJV {l : List Nat} (h : ∀ x ∈ l, x < 2 ^ 64) : fldNats (natsJV l) = .val l := by
  simp [fldNats, natsJV, natsOf_map_jnat l h]

theorem anyErr_map_jnat (l : List Nat) : anyErr (l.map jnat) = false := by
  induction l with
  | nil => rfl
  | cons x xs ih =>
    simp only [List.map_cons, anyErr, ih, Bool.or_false]
    unfold jnat; split <;> rfl

theorem depthL_map_jnat (l : List Nat) : depthL (l.map jnat) = 0 := by
  induction l with
  | nil => rfl
  | cons x xs ih =>
    simp only [List.map_cons, depthL, ih]
    unfold jnat; split <;> rfl

theorem goodL_map_jnat (l : List Nat) (h : ∀ x ∈ l, x < 2 ^ 64) : GoodL (l.map jnat) := by
  induction l with
  | nil => trivial
  | cons x xs ih =>
    simp only [List.map_cons, GoodL]
    refine ⟨?_, ih (fun y hy => h y (by simp [hy]))⟩
    rw [jnat_of_lt (h x (by simp))]
    exact numOk_nat (h x (by simp))

theorem good_jnat {n : Nat} (h : n < 2 ^ 64) : (jnat n).Good := by
  rw [jnat_of_lt h]; exact numOk_nat h

/-! ### one sketch -/

/-- the reader does not look at the md5sum string when it is not trusted -/
theorem decodeSkWith_untrusted_md5 (sorts : Bool) (r : SkRec) (m m' : Md5) :
    decodeSkWith false sorts { r with md5sum := .val m } = decodeSkWith false sorts { r with md5sum := .val m' } := by
  unfold decodeSkWith
  simp only [req, cacheOf, Bool.false_eq_true, if_false, bind, Except.bind]

/-- the record the map visitor extracts from what `Serialize` wrote -/
theorem tempSigOfMap_encode (md5hex : Digest → List Char) {sk : Sk} (h : sk.Encodable) :
    (match skRecJV md5hex sk.encode with
     | .obj m => tempSigOfMap m
     | _ => none) =
      some { sk.encode with md5sum := .val (.raw (String.ofList (md5Text md5hex sk.md5sum.2))) } := by
  obtain ⟨mh, raw⟩ := sk
  obtain ⟨num, maxHash, ksize, seed, hf, mins, abunds, md5⟩ := mh
  have hn : num < 2 ^ 64 := Nat.lt_trans h.num32 (by decide)
  have hk : ksize < 2 ^ 64 := Nat.lt_trans h.ksize32 (by decide)
  have hs := h.seed64; have hm := h.max64; have hmins := h.mins64; have hab := h.ab64
  simp only at hs hm hmins hab
  cases abunds with
  | none =>
    simp [skRecJV, Sk.encode, fldJV, tempSigOfMap, skFold, skStep, fldNat_jnat hn, fldNat_jnat hk, fldNat_jnat hs,
      fldNat_jnat hm, fldNats_natsJV hmins, fldMd5, fldStr, jstr]
  | some ab =>
    simp [skRecJV, Sk.encode, fldJV, tempSigOfMap, skFold, skStep, fldNat_jnat hn, fldNat_jnat hk, fldNat_jnat hs,
      fldNat_jnat hm, fldNats_natsJV hmins, fldNats_natsJV (hab ab rfl), fldMd5, fldStr, jstr]

theorem skRecJV_encode_shape (md5hex : Digest → List Char) (sk : Sk) :
    ∃ m, skRecJV md5hex sk.encode = .obj m ∧ anyErrM m = false ∧ depthM m ≤ 1 := by
  obtain ⟨mh, raw⟩ := sk
  obtain ⟨num, maxHash, ksize, seed, hf, mins, abunds, md5⟩ := mh
  have e1 : ∀ n, (jnat n).hasErr = false := by intro n; unfold jnat; split <;> rfl
  have d1 : ∀ n, (jnat n).depth = 0 := by intro n; unfold jnat; split <;> rfl
  cases abunds with
  | none =>
    refine ⟨_, rfl, ?_, ?_⟩
    · simp [skRecJV, Sk.encode, fldJV, anyErrM, e1, JV.hasErr, natsJV, anyErr_map_jnat, jstr]
    · simp [skRecJV, Sk.encode, fldJV, depthM, d1, JV.depth, natsJV, depthL_map_jnat, jstr]
  | some ab =>
    refine ⟨_, rfl, ?_, ?_⟩
    · simp [skRecJV, Sk.encode, fldJV, anyErrM, e1, JV.hasErr, natsJV, anyErr_map_jnat, jstr]
    · simp [skRecJV, Sk.encode, fldJV, depthM, d1, JV.depth, natsJV, depthL_map_jnat, jstr]

/-- **one sketch**: the buffered value of a written sketch is read as a KmerMinHash, equal to the
written one with an empty md5 cache -/
theorem skOfJV_encode (md5hex : Digest → List Char) (sorts : Bool) {sk : Sk} (h : sk.Encodable) :
    skOfJV false sorts (skRecJV md5hex sk.encode) = .ok (.mh (sk.afterLoad false)) := by
  obtain ⟨m, hm, he, hd⟩ := skRecJV_encode_shape md5hex sk
  have hrec := tempSigOfMap_encode md5hex h
  have hdec : decodeSkWith false sorts
      { sk.encode with md5sum := .val (.raw (String.ofList (md5Text md5hex sk.md5sum.2))) } =
      .ok (sk.afterLoad false) := by
    have h1 := decodeSk_encode false sorts h
    have h2 : sk.encode = { sk.encode with md5sum := .val sk.md5sum.2 } := rfl
    rw [h2] at h1
    rw [← h1]
    exact decodeSkWith_untrusted_md5 sorts _ _ _
  rw [hm] at hrec ⊢
  simp only at hrec
  unfold skOfJV
  have hdepth : ¬ (JV.obj m).depth > sketchDepthLimit := by
    simp only [JV.depth, sketchDepthLimit]; omega
  simp only [JV.hasErr, he, Bool.false_eq_true, if_false, hdepth, hrec, hdec]

theorem good_skRecJV_encode (md5hex : Digest → List Char) {sk : Sk} (h : sk.Encodable) :
    (skRecJV md5hex sk.encode).Good := by
  obtain ⟨mh, raw⟩ := sk
  obtain ⟨num, maxHash, ksize, seed, hf, mins, abunds, md5⟩ := mh
  have hn : num < 2 ^ 64 := Nat.lt_trans h.num32 (by decide)
  have hk : ksize < 2 ^ 64 := Nat.lt_trans h.ksize32 (by decide)
  have hs := h.seed64; have hm := h.max64; have hmins := h.mins64; have hab := h.ab64
  simp only at hs hm hmins hab
  cases abunds with
  | none =>
    simp [skRecJV, Sk.encode, fldJV, JV.Good, GoodM, good_jnat hn, good_jnat hk, good_jnat hs, good_jnat hm, natsJV,
      goodL_map_jnat mins hmins, jstr]
  | some ab =>
    simp [skRecJV, Sk.encode, fldJV, JV.Good, GoodM, good_jnat hn, good_jnat hk, good_jnat hs, good_jnat hm, natsJV,
      goodL_map_jnat mins hmins, goodL_map_jnat ab (hab ab rfl), jstr]

/-! ### one signature -/

/-- the `version` of a signature is a number token that is not a plain integer (e.g. `0.4`) -/
def VerTok (s : String) : Prop := NumOk (.other s.toList)

theorem verTok_default : VerTok Gen.sigDefaultVersion :=
  ⟨by decide, by decide, ⟨'0', ['.', '4'], rfl, Or.inl rfl⟩⟩

theorem mapM_sk_encode (md5hex : Digest → List Char) (sorts : Bool) :
    ∀ (l : List Sk), (∀ sk ∈ l, sk.Encodable) →
      (l.map (fun sk => skRecJV md5hex sk.encode)).mapM (skOfJV false sorts) =
        .ok (l.map (fun sk => SkV.mh (sk.afterLoad false)))
  | [], _ => rfl
  | sk :: sks, h => by
    have h1 := skOfJV_encode md5hex sorts (h sk (by simp))
    have h2 := mapM_sk_encode md5hex sorts sks (fun x hx => h x (by simp [hx]))
    simp only [List.map_cons, List.mapM_cons, h1, h2, bind, Except.bind, pure, Except.pure]

theorem mhsOf_map_mh (l : List Sk) : mhsOf (l.map SkV.mh) = l := by
  induction l with
  | nil => rfl
  | cons x xs ih => simp [mhsOf, ih]

theorem hllCount_map_mh (l : List Sk) : hllCount (l.map SkV.mh) = 0 := by
  induction l with
  | nil => rfl
  | cons x xs ih => simp [hllCount, ih]

theorem mhsOf_map_comp (l : List Sk) (f : Sk → Sk) : mhsOf (l.map (SkV.mh ∘ f)) = l.map f := by
  induction l with
  | nil => rfl
  | cons x xs ih => simp [mhsOf, ih]

theorem hllCount_map_comp (l : List Sk) (f : Sk → Sk) : hllCount (l.map (SkV.mh ∘ f)) = 0 := by
  induction l with
  | nil => rfl
  | cons x xs ih => simp [hllCount, ih]

/-- **one signature**: the object `Serialize` wrote is read back, key by key -/
theorem sigOfJV_encode (md5hex : Digest → List Char) (sorts : Bool) {sg : Sig} (h : sg.Encodable) :
    sigOfJV false sorts (sigRecJV md5hex sg.encode) = .ok (sg.afterLoad false, 0) := by
  have hsks := mapM_sk_encode md5hex sorts sg.sketches h
  obtain ⟨cls, email, hashFunction, filename, name, license, sketches, version⟩ := sg
  simp only at hsks
  have hmap : (sketches.map Sk.encode).map (skRecJV md5hex) = sketches.map (fun sk => skRecJV md5hex sk.encode) := by
    simp [List.map_map, Function.comp_def]
  have hmh : sketches.map (fun sk => SkV.mh (sk.afterLoad false)) = (sketches.map (Sk.afterLoad false)).map SkV.mh := by
    simp [List.map_map, Function.comp_def]
  cases filename <;> cases name <;>
    simp [sigOfJV, sigRecJV, Sig.encode, fldJV, sigFold, sigStep, setOnce, rdStr, rdOptStr, rdF64, jstr, jver,
      normVersion, sksOfJV, hmap, hsks, hmh, mhsOf_map_mh, hllCount_map_mh, mhsOf_map_comp, hllCount_map_comp,
      sigFinish, Sig.afterLoad,
      bind, Except.bind, pure, Except.pure, Except.map]

theorem good_sigRecJV_encode (md5hex : Digest → List Char) {sg : Sig} (h : sg.Encodable) (hv : VerTok sg.version) :
    (sigRecJV md5hex sg.encode).Good := by
  have hsk : GoodL ((sg.sketches.map Sk.encode).map (skRecJV md5hex)) := by
    have : ∀ (l : List Sk), (∀ sk ∈ l, sk.Encodable) → GoodL ((l.map Sk.encode).map (skRecJV md5hex)) := by
      intro l
      induction l with
      | nil => intro _; trivial
      | cons x xs ih =>
        intro hx
        simp only [List.map_cons, GoodL]
        exact ⟨good_skRecJV_encode md5hex (hx x (by simp)), ih (fun y hy => hx y (by simp [hy]))⟩
    exact this sg.sketches h
  obtain ⟨cls, email, hashFunction, filename, name, license, sketches, version⟩ := sg
  simp only at hsk hv
  have hver : (jver version).Good := hv
  have hsk' : GoodL (sketches.map (skRecJV md5hex ∘ Sk.encode)) := by simpa [List.map_map] using hsk
  cases filename <;> cases name <;>
    simp [sigRecJV, Sig.encode, fldJV, JV.Good, GoodM, jstr, hsk', hver]

/-! ### a whole file -/

theorem mapM_sig_encode (md5hex : Digest → List Char) (sorts : Bool) :
    ∀ (l : List Sig), (∀ sg ∈ l, sg.Encodable) →
      ((l.map Sig.encode).map (sigRecJV md5hex)).mapM (sigOfJV false sorts) =
        .ok (l.map (fun sg => (sg.afterLoad false, 0)))
  | [], _ => rfl
  | sg :: sgs, h => by
    have h1 := sigOfJV_encode md5hex sorts (h sg (by simp))
    have h2 := mapM_sig_encode md5hex sorts sgs (fun x hx => h x (by simp [hx]))
    simp only [List.map_cons, List.mapM_cons, h1, h2, bind, Except.bind, pure, Except.pure]

theorem good_docJV (md5hex : Digest → List Char) {sigs : List Sig} (h : ∀ sg ∈ sigs, sg.Encodable)
    (hv : ∀ sg ∈ sigs, VerTok sg.version) : (docJV md5hex sigs).Good := by
  unfold docJV docRecJV encodeDoc
  simp only [JV.Good]
  induction sigs with
  | nil => trivial
  | cons x xs ih =>
    simp only [List.map_cons, GoodL]
    exact ⟨good_sigRecJV_encode md5hex (h x (by simp)) (hv x (by simp)),
      ih (fun y hy => h y (by simp [hy])) (fun y hy => hv y (by simp [hy]))⟩

theorem foldl_zeros (l : List Sig) (f : Sig → Sig) :
    ((l.map (fun sg => (f sg, 0))).map Prod.snd).foldl (· + ·) 0 = 0 := by
  induction l with
  | nil => rfl
  | cons x xs ih => simpa using ih

/-- **parse ∘ render = id** at file level -/
theorem readText_renderDoc (md5hex : Digest → List Char) (sorts : Bool) {sigs : List Sig}
    (h : ∀ sg ∈ sigs, sg.Encodable) (hv : ∀ sg ∈ sigs, VerTok sg.version) :
    readTextWith false sorts (renderDoc md5hex sigs) = .ok (sigs.map (Sig.afterLoad false), 0) := by
  have hp := parse_lex_print (docJV md5hex sigs) (good_docJV md5hex h hv)
  have hm := mapM_sig_encode md5hex sorts sigs h
  unfold readTextWith renderDoc
  rw [hp]
  simp only [docJV, docRecJV, encodeDoc]
  rw [hm]
  simp only [bind, Except.bind, pure, Except.pure, List.isEmpty_nil, Bool.not_true, Bool.and_false,
    Bool.false_eq_true, if_false]
  have h1 : (sigs.map (fun sg => (Sig.afterLoad false sg, 0))).map Prod.fst = sigs.map (Sig.afterLoad false) := by
    simp [List.map_map, Function.comp_def]
  rw [h1, foldl_zeros sigs (Sig.afterLoad false)]

end Sm.JsonText
