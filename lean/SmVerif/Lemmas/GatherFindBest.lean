/-
`_find_best` over several `CounterGather` objects (prefetch mode) on list sketches.
-/
import SmVerif.Lemmas.GatherCounter
import SmVerif.Lemmas.Float64Order

set_option autoImplicit false

namespace Sm.Gather

open Sm

/-- the order law the proofs need from `contained_by` scores: at a fixed query size and resolution the
score is strictly increasing in the overlap (`Props/C07.lean` explains why the code satisfies it) -/
structure ScoreLaws {σ : Type} (ops : ScoreOps σ) : Prop where
  gt_contained : ∀ c c' d s : Nat, c ≤ d → c' ≤ d → 0 < d → 1 ≤ s →
    ops.gt (ops.contained c d s) (ops.contained c' d s) = decide (c' < c)

section
variable {σ : Type} (ops : ScoreOps σ) (s thr : Nat) (Q : List Nat)

/-- a result of `peek` / `_find_best` that is correct w.r.t. the candidate signatures `cands` -/
def Good (cands : List (Sig LS)) (r : σ × Sig LS × LS) : Prop :=
  r.2.1 ∈ cands ∧ r.2.2 = ⟨s, Q.filter (inL (dn s r.2.1.mh.hs)), none⟩ ∧
  r.1 = ops.contained (ovl Q (dn s r.2.1.mh.hs)) Q.length s ∧
  reaches thr s Q.length (ovl Q (dn s r.2.1.mh.hs)) ∧ ops.isZero r.1 = false ∧ Q ≠ [] ∧
  ∀ d ∈ cands, ovl Q (dn s d.mh.hs) ≤ ovl Q (dn s r.2.1.mh.hs)

/-- a candidate list none of whose members can be reported -/
def Stuck (cl : List (Sig LS)) : Prop :=
  Q = [] ∨ (∀ d ∈ cl, ovl Q (dn s d.mh.hs) = 0) ∨
    ∃ b ∈ cl, (∀ d ∈ cl, ovl Q (dn s d.mh.hs) ≤ ovl Q (dn s b.mh.hs)) ∧
      ¬ reaches thr s Q.length (ovl Q (dn s b.mh.hs))

/-- the accumulator of the first loop of `_find_best` after the candidate lists `seen` -/
def AccOK (seen : List (List (Sig LS))) : Option (σ × Sig LS × LS) → Prop
  | none => ∀ cl ∈ seen, Stuck s thr Q cl
  | some r => Good ops s thr Q seen.flatten r

/-- the counters `objs` are `CounterGather` objects loaded with the candidate lists `cls`,
each exact against `Q` -/
def AllInv (cls : List (List (Sig LS))) (objs : List (CObj LS)) : Prop :=
  List.Forall₂ (fun cl o => ∃ c, o = CObj.cg c ∧ CInv s cl Q c) cls objs

end

variable {σ : Type} {ops : ScoreOps σ} {s thr : Nat} {Q : List Nat}

theorem Good.mono_better (laws : ScoreLaws ops) (hs1 : 1 ≤ s) {seen : List (Sig LS)} {cl : List (Sig LS)}
    {b x : σ × Sig LS × LS} (hb : Good ops s thr Q seen b) (hx : Good ops s thr Q cl x) :
    Good ops s thr Q (seen ++ cl) (if ops.gt x.1 b.1 then x else b) := by
  obtain ⟨b1, b2, b3, b4, b5, b6, b7⟩ := hb
  obtain ⟨x1, x2, x3, x4, x5, x6, x7⟩ := hx
  have hpos : 0 < Q.length := List.length_pos_of_ne_nil b6
  have hgt := laws.gt_contained (ovl Q (dn s x.2.1.mh.hs)) (ovl Q (dn s b.2.1.mh.hs)) Q.length s
    (ovl_le _ _) (ovl_le _ _) hpos hs1
  rw [← x3, ← b3] at hgt
  by_cases hlt : ovl Q (dn s b.2.1.mh.hs) < ovl Q (dn s x.2.1.mh.hs)
  · rw [hgt, decide_eq_true hlt, if_pos rfl]
    refine ⟨List.mem_append_right _ x1, x2, x3, x4, x5, x6, ?_⟩
    intro d hd
    rcases List.mem_append.1 hd with hd | hd
    · have := b7 d hd; omega
    · exact x7 d hd
  · rw [hgt, decide_eq_false hlt]
    simp only [Bool.false_eq_true, if_false]
    refine ⟨List.mem_append_left _ b1, b2, b3, b4, b5, b6, ?_⟩
    intro d hd
    rcases List.mem_append.1 hd with hd | hd
    · exact b7 d hd
    · have := x7 d hd; omega

theorem Good.weaken_left {seen cl : List (Sig LS)} {x : σ × Sig LS × LS}
    (hx : Good ops s thr Q cl x) (hseen : ∀ d ∈ seen, ovl Q (dn s d.mh.hs) ≤ ovl Q (dn s x.2.1.mh.hs)) :
    Good ops s thr Q (seen ++ cl) x := by
  obtain ⟨x1, x2, x3, x4, x5, x6, x7⟩ := hx
  refine ⟨List.mem_append_right _ x1, x2, x3, x4, x5, x6, ?_⟩
  intro d hd
  rcases List.mem_append.1 hd with hd | hd
  · exact hseen d hd
  · exact x7 d hd

theorem belowThreshold_nat (k : Nat) (n : F64.F) :
    belowThreshold (k : Int) n = !F64.ge (F64.ofNat k) n := by
  unfold belowThreshold
  rw [if_neg (by omega)]
  simp

/-- the threshold test is monotone in the overlap (sizes below 2^53) -/
theorem reaches_mono {thr s n k k' : Nat} (h : k ≤ k') (hk : k' < 2 ^ 53) (hr : reaches thr s n k) :
    reaches thr s n k' := by
  obtain ⟨t, nT, h1, h2⟩ := hr
  refine ⟨t, nT, h1, ?_⟩
  rw [belowThreshold_nat] at *
  have : F64.ge (F64.ofNat k) nT = true := by simpa using h2
  simp [F64.ge_ofNat_mono h hk this]

/-- a reportable result dominates every candidate list that is stuck -/
theorem Good.over_stuck {cl seen : List (Sig LS)} {x : σ × Sig LS × LS} (hsize : Q.length < 2 ^ 53)
    (hx : Good ops s thr Q cl x) (hst : Stuck s thr Q seen) :
    ∀ d ∈ seen, ovl Q (dn s d.mh.hs) ≤ ovl Q (dn s x.2.1.mh.hs) := by
  obtain ⟨x1, x2, x3, x4, x5, x6, x7⟩ := hx
  intro d hd
  rcases hst with h | h | ⟨b, hb, hmax, hnr⟩
  · exact absurd h x6
  · rw [h d hd]; omega
  · have := hmax d hd
    by_cases hle : ovl Q (dn s x.2.1.mh.hs) ≤ ovl Q (dn s b.mh.hs)
    · exfalso
      apply hnr
      exact reaches_mono hle (Nat.lt_of_le_of_lt (ovl_le _ _) hsize) x4
    · omega

theorem mem_flatten_iff {α : Type} {x : α} {L : List (List α)} : x ∈ L.flatten ↔ ∃ l ∈ L, x ∈ l :=
  List.mem_flatten

/-- the first loop of `_find_best` -/
theorem peekAll_spec (laws : ScoreLaws ops) (hs1 : 1 ≤ s) (hsize : Q.length < 2 ^ 53) {cur : LS}
    (hcur : dn s cur.hs = Q) (hcs : Sorted cur.hs) (hle : cur.scaled ≤ s) :
    ∀ (cls : List (List (Sig LS))) (objs : List (CObj LS)) (seen : List (List (Sig LS)))
      (acc : Option (σ × Sig LS × LS)) {objs' : List (CObj LS)} {best : Option (σ × Sig LS × LS)},
      AllInv s Q cls objs → AccOK ops s thr Q seen acc →
      peekAll lsOps ops cur thr objs acc = .ok (objs', best) →
      AllInv s Q cls objs' ∧ AccOK ops s thr Q (seen ++ cls) best := by
  intro cls
  induction cls with
  | nil =>
    intro objs seen acc objs' best hinv hacc h
    cases hinv
    simp only [peekAll, Except.ok.injEq, Prod.mk.injEq] at h
    obtain ⟨rfl, rfl⟩ := h
    exact ⟨List.Forall₂.nil, by simpa using hacc⟩
  | cons cl cls ih =>
    intro objs seen acc objs' best hinv hacc h
    cases hinv with
    | cons ho hrest =>
      rename_i o orest
      obtain ⟨c, rfl, hc⟩ := ho
      simp only [peekAll, CObj.peek] at h
      cases hp : c.peek lsOps ops cur thr with
      | error e => rw [hp] at h; cases h
      | ok pr =>
        obtain ⟨c', r⟩ := pr
        rw [hp] at h
        simp only [] at h
        cases hrec : peekAll lsOps ops cur thr orest (better ops r acc) with
        | error e => rw [hrec] at h; cases h
        | ok rr =>
          obtain ⟨rest', b⟩ := rr
          rw [hrec] at h
          simp only [Except.ok.injEq, Prod.mk.injEq] at h
          obtain ⟨rfl, rfl⟩ := h
          -- the invariant of this counter and the accumulator after it
          have key : CInv s cl Q c' ∧ AccOK ops s thr Q (seen ++ [cl]) (better ops r acc) := by
            cases r with
            | none =>
              obtain ⟨hc', _, hst⟩ := hc.peek_none hcur hcs hle hp
              refine ⟨hc', ?_⟩
              cases acc with
              | none =>
                simp only [better, AccOK]
                intro l hl
                rcases List.mem_append.1 hl with hl | hl
                · exact hacc l hl
                · simp only [List.mem_singleton] at hl; subst hl; exact hst
              | some a =>
                simp only [better, AccOK] at hacc ⊢
                rw [List.flatten_append]
                obtain ⟨a1, a2, a3, a4, a5, a6, a7⟩ := hacc
                refine ⟨List.mem_append_left _ a1, a2, a3, a4, a5, a6, ?_⟩
                intro d hd
                rcases List.mem_append.1 hd with hd | hd
                · exact a7 d hd
                · simp only [List.flatten_cons, List.flatten_nil, List.append_nil] at hd
                  have hg : Good ops s thr Q seen.flatten a := ⟨a1, a2, a3, a4, a5, a6, a7⟩
                  exact hg.over_stuck hsize hst d hd
            | some x =>
              obtain ⟨hc', _, x1, x2, x3, x4, x5, x6, x7⟩ := hc.peek_some hcur hcs hle hp
              refine ⟨hc', ?_⟩
              have hx : Good ops s thr Q cl x := ⟨x1, x2, x5, x4, x6, x7, x3⟩
              cases acc with
              | none =>
                simp only [better, AccOK] at hacc ⊢
                rw [List.flatten_append]
                simp only [List.flatten_cons, List.flatten_nil, List.append_nil]
                apply hx.weaken_left
                intro d hd
                obtain ⟨l, hl, hdl⟩ := mem_flatten_iff.1 hd
                exact hx.over_stuck hsize (hacc l hl) d hdl
              | some a =>
                simp only [better, AccOK] at hacc ⊢
                rw [List.flatten_append]
                simp only [List.flatten_cons, List.flatten_nil, List.append_nil]
                have := hacc.mono_better laws hs1 hx
                by_cases hg : ops.gt x.1 a.1 = true
                · rw [if_pos hg] at this ⊢; exact this
                · rw [if_neg hg] at this ⊢; exact this
          obtain ⟨hinv', hacc'⟩ := ih orest (seen ++ [cl]) (better ops r acc) hrest key.2 hrec
          refine ⟨List.Forall₂.cons ⟨c', rfl, key.1⟩ hinv', ?_⟩
          simpa [List.append_assoc] using hacc'

/-- the second loop of `_find_best`: every counter consumes the reported intersection -/
theorem consumeAll_spec {B : List Nat} {inter : LS} (hs : inter.scaled = s)
    (hI : inter.hs = Q.filter (inL B)) (hQ : Sorted Q) :
    ∀ (cls : List (List (Sig LS))) (objs : List (CObj LS)), AllInv s Q cls objs →
      ∃ objs', consumeAll lsOps inter objs = .ok objs' ∧ AllInv s (diffL Q B) cls objs' := by
  intro cls
  induction cls with
  | nil =>
    intro objs hinv
    cases hinv
    exact ⟨[], rfl, List.Forall₂.nil⟩
  | cons cl cls ih =>
    intro objs hinv
    cases hinv with
    | cons ho hrest =>
      rename_i o orest
      obtain ⟨c, rfl, hc⟩ := ho
      obtain ⟨c', hc1, hc2, _, _⟩ := hc.consume hs hI hQ
      obtain ⟨rest', hr1, hr2⟩ := ih orest hrest
      refine ⟨CObj.cg c' :: rest', ?_, List.Forall₂.cons ⟨c', rfl, hc2⟩ hr2⟩
      simp only [consumeAll, CObj.consume, hc1, hr1]

/-- **`_find_best` over `CounterGather` objects**: either nothing can be reported from any counter, or
the reported sketch has maximal overlap among all candidates of all counters, reaches the threshold, the
intersection is (unassigned) ∩ (match), and every counter is exact for the remaining hashes -/
theorem findBest_spec (laws : ScoreLaws ops) (hs1 : 1 ≤ s) (hsize : Q.length < 2 ^ 53) {cur : LS}
    (hcur : dn s cur.hs = Q) (hcs : Sorted cur.hs) (hle : cur.scaled ≤ s)
    {cls : List (List (Sig LS))} {objs objs' : List (CObj LS)} {r : Option (σ × Sig LS × LS)}
    (hinv : AllInv s Q cls objs) (h : findBest lsOps ops objs cur thr = .ok (objs', r)) :
    match r with
    | none => AllInv s Q cls objs' ∧ ∀ cl ∈ cls, Stuck s thr Q cl
    | some x => Good ops s thr Q cls.flatten x ∧ AllInv s (diffL Q (dn s x.2.1.mh.hs)) cls objs' := by
  unfold findBest at h
  cases hp : peekAll lsOps ops cur thr objs none with
  | error e => rw [hp] at h; cases h
  | ok pr =>
    obtain ⟨cs, b⟩ := pr
    rw [hp] at h
    have hacc0 : AccOK ops s thr Q [] (none : Option (σ × Sig LS × LS)) := by
      intro cl hcl; cases hcl
    obtain ⟨hinv1, hacc1⟩ := peekAll_spec laws hs1 hsize hcur hcs hle cls objs [] none hinv hacc0 hp
    simp only [List.nil_append] at hacc1
    cases b with
    | none =>
      simp only [Except.ok.injEq, Prod.mk.injEq] at h
      obtain ⟨rfl, rfl⟩ := h
      exact ⟨hinv1, hacc1⟩
    | some x =>
      obtain ⟨sc, sg, inter⟩ := x
      simp only [] at h
      have hg : Good ops s thr Q cls.flatten (sc, sg, inter) := hacc1
      obtain ⟨_, g2, _⟩ := hg
      have hQ : Sorted Q := by rw [← hcur]; exact sorted_dn hcs s
      simp only [] at g2
      obtain ⟨cs', hc1, hc2⟩ := consumeAll_spec (B := dn s sg.mh.hs) (inter := inter)
        (by rw [g2]) (by rw [g2]) hQ cls cs hinv1
      rw [hc1] at h
      simp only [Except.ok.injEq, Prod.mk.injEq] at h
      obtain ⟨rfl, rfl⟩ := h
      exact ⟨hacc1, hc2⟩

end Sm.Gather
