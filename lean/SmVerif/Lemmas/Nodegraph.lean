/-
Proved properties of the `Nodegraph` (Bloom filter) model `SmVerif/Model/Nodegraph.lean`.

* `NodegraphBloom`  : `count` / `get` / `addMany` / `update` / `new` (no false negatives, merge = union)
* `NodegraphSizes`  : `with_tables` sizes are odd, `≥ 3`, at most `n` of them
* `NodegraphBytes`  : little-endian helpers, `save` panic on sizes `≡ 0 mod 32`, `save`/`load` round trip
* `NodegraphOcc`    : `occupied` = population count of table 0
* `NodegraphPrime`  : `isPrime` decides `Nat.Prime` (imports one Mathlib file)
-/
import SmVerif.Lemmas.NodegraphBloom
import SmVerif.Lemmas.NodegraphSizes
import SmVerif.Lemmas.NodegraphBytes
import SmVerif.Lemmas.NodegraphOcc
import SmVerif.Lemmas.NodegraphPrime

namespace Sm
namespace NG

/-! ### a few combined corollaries -/

theorem addMany_occOK {g : NG} (wf : WF g) (ho : OccOK g) (mins : List Nat) :
    OccOK (g.addMany mins) := by
  induction mins generalizing g with
  | nil => exact ho
  | cons h ms ih => rw [addMany_cons]; exact ih (count_wf wf h) (count_occOK wf ho h)

/-- a graph made by `with_tables` and filled by `count` always survives `save`/`load`
(as long as the header fields fit their widths) -/
theorem withTables_addMany_roundtrip {ts n k : Nat} (h1 : 1 ≤ ts) (mins : List Nat)
    (hk : k < 2 ^ 32) (hn : n < 256) (hts : ts ≤ 2 ^ 64)
    (ho : ((withTables ts n k).addMany mins).occupied < 2 ^ 64) :
    ∃ bytes, ((withTables ts n k).addMany mins).save = .ok bytes ∧
      load bytes = .ok { (withTables ts n k).addMany mins with unique := 0 } := by
  have hsz : ((withTables ts n k).addMany mins).sizes = tableSizes ts n := by
    rw [addMany_sizes, withTables_sizes]
  have hmem : ∀ b ∈ ((withTables ts n k).addMany mins).bs, b.length ∈ tableSizes ts n := by
    intro b hb
    rw [← hsz]
    exact List.mem_map.mpr ⟨b, hb, rfl⟩
  have hlen : ((withTables ts n k).addMany mins).bs.length = (tableSizes ts n).length := by
    rw [← hsz, sizes, List.length_map]
  apply bytes_roundtrip (addMany_wf (withTables_wf h1) mins)
  · intro b hb
    have := (tableSizes_odd h1 _ (hmem b hb)).1
    omega
  · rwa [addMany_ksize]
  · rw [hlen]; exact Nat.lt_of_le_of_lt (tableSizes_length_le ts n) hn
  · exact ho
  · intro b hb
    exact Nat.lt_of_lt_of_le (tableSizes_lt h1 _ (hmem b hb)) hts

/-! ### non-vacuity checks on tiny concrete graphs -/

example : tableSizes 12 4 = [11, 7, 5, 3] := by decide
example : tableSizes 1 4 = [] := by decide
example : (withTables 12 4 21).sizes = [11, 7, 5, 3] := by decide
example : WF (new [5, 3] 21) := new_wf (by decide) 21

example : ((new [5, 3] 21).count 7).1.get 7 = 1 := by decide
example : (new [5, 3] 21).get 7 = 0 := by decide
example : ((new [5, 3] 21).count 7).2 = true := by decide
example : (((new [5, 3] 21).count 7).1.count 7).2 = false := by decide
/-- a false positive: 22 collides with 7 in both tables (22 % 5 = 2, 22 % 3 = 1) -/
example : ((new [5, 3] 21).count 7).1.get 22 = 1 := by decide
example : ((new [5, 3] 21).count 7).1.get 8 = 0 := by decide
example : ((new [5, 3] 21).count 7).1 = ⟨[⟨5, 4⟩, ⟨3, 2⟩], 21, 1, 1⟩ := by decide

example : (((new [5, 3] 21).addMany [7, 9]).update ((new [5, 3] 21).addMany [11])) =
    ⟨[⟨5, 22⟩, ⟨3, 7⟩], 21, 3, 2⟩ := by decide
example : OccOK (((new [5, 3] 21).addMany [7, 9]).update ((new [5, 3] 21).addMany [11])) := by
  unfold OccOK; decide

/-- a concrete byte image (sizes 5 and 3, `count 7`) and its round trip -/
example : ((new [5, 3] 21).count 7).1.save =
    .ok [0x4f, 0x58, 0x4c, 0x49, 4, 2, 21, 0, 0, 0, 2, 1, 0, 0, 0, 0, 0, 0, 0,
         5, 0, 0, 0, 0, 0, 0, 0, 4,
         3, 0, 0, 0, 0, 0, 0, 0, 2] := by decide
example : (match ((new [5, 3] 21).count 7).1.save with
    | .ok bytes => load bytes
    | .error e => .error e) = .ok ⟨[⟨5, 4⟩, ⟨3, 2⟩], 21, 1, 0⟩ := by decide

/-- a table of 64 bits cannot be saved -/
example : (new [64] 21).save = .error .panic := by decide
example : (new [64] 21).save = .error .panic :=
  save_panics_mult32 (b := ⟨64, 0⟩) (by decide) (by decide)
/-- ... while 63 and 65 can -/
example : (new [63, 65] 21).save ≠ .error .panic := by decide
/-- truncated input -/
example : load [0x4f, 0x58, 0x4c, 0x49, 4, 2, 21, 0, 0, 0, 1] = .error .io := by decide
example : load [0x4f, 0x58, 0x4c, 0x48, 4, 2, 21, 0, 0, 0, 1] = .error .panic := by decide

example : isPrime 97 = true := by decide
example : isPrime 91 = false := by decide

example : (BitSet.mk 70 (2 ^ 69 + 2 ^ 33 + 5)).countOnes = 4 := by decide

end NG
end Sm
