/-
From candidates to the whole database: which sketches the prefetch pass keeps, and why a
sketch it dropped can never become reportable later (`never_revives`).
-/
import SmVerif.Lemmas.GatherInit

set_option autoImplicit false

namespace Sm.Gather

open Sm

/-- the prefetch pass is at least as permissive as the per-round threshold test: a sketch whose overlap
`k` with the `n0` query hashes (at the comparison resolution) is not below `threshold_bp / scaled`
passes `Index.find`'s containment threshold `t`.

For `threshold_bp = 0` this is `prefetchPermissive_zero`; for `threshold_bp > 0` and a query at least as coarse
as the database (`n0 = len(query)`, `t = (threshold_bp / scaled) / n0`) it is the monotonicity of correctly
rounded division in its numerator (`k ≥ x → fl(k / n0) ≥ fl(x / n0)`), proved in
`Lemmas/GatherThreshold.lean` (`prefetchPermissive_calc`) from C06's `IsRN.mono_le`.  For a query finer than
the database it is FALSE (finding D6). -/
def PrefetchPermissive (t nT : F64.F) (n0 : Nat) : Prop :=
  ∀ k : Nat, k ≤ n0 → k ≠ 0 → belowThreshold (k : Int) nT = false → passes (scoreContainment n0 k) t = true

theorem ge_fzero (x : F64.F) : F64.ge x fzero = true := by
  rw [F64.ge_iff]
  have : fzero.val = 0 := by simp [fzero, F64.F.val]
  rw [this]
  exact F64.F.val_nonneg x

theorem prefetchPermissive_zero (n0 : Nat) : PrefetchPermissive fzero fzero n0 := by
  intro k hk hk0 _
  unfold passes scoreContainment
  have hn0 : n0 ≠ 0 := by omega
  rw [if_neg hn0]
  have hpos := F64.divNat_pos k n0 (by omega) (by omega)
  simp only [Bool.and_eq_true, decide_eq_true_eq]
  exact ⟨by omega, ge_fzero _⟩

theorem calcThreshold_zero (s n : Nat) : calcThreshold 0 s n = .ok (fzero, fzero) := by
  unfold calcThreshold; simp

theorem ovl_filter_le (Q D : List Nat) (p : Nat → Bool) : ovl (Q.filter p) D ≤ ovl Q D := by
  unfold ovl
  rw [List.filter_filter]
  have : (Q.filter (fun a => inL D a && p a)) = (Q.filter (inL D)).filter p := by
    rw [List.filter_filter]
    apply List.filter_congr
    intro x _; rw [Bool.and_comm]
  rw [this]
  exact List.length_filter_le _ _

/-- a database sketch the prefetch pass dropped: its overlap with the *initial* query hashes is empty or
below the threshold -/
def Dropped (nT : F64.F) (Q0s D : List Nat) : Prop :=
  ovl Q0s D = 0 ∨ belowThreshold (ovl Q0s D : Int) nT = true

/-- what was not kept by prefetch was not reportable (given permissiveness) -/
theorem dropped_of_not_cand {q : LS} (hq : q.WF) {d : Sig LS} (hd : d.mh.WF) {t nT : F64.F}
    (hperm : PrefetchPermissive t nT (dn (max q.scaled d.mh.scaled) q.hs).length)
    (hnot : passes (findScore q.flat d.mh) t = false) :
    Dropped nT (dn (max q.scaled d.mh.scaled) q.hs) (dn (max q.scaled d.mh.scaled) d.mh.hs) := by
  unfold Dropped
  by_cases h0 : ovl (dn (max q.scaled d.mh.scaled) q.hs) (dn (max q.scaled d.mh.scaled) d.mh.hs) = 0
  · exact Or.inl h0
  · right
    by_cases hb : belowThreshold (ovl (dn (max q.scaled d.mh.scaled) q.hs) (dn (max q.scaled d.mh.scaled) d.mh.hs) : Int) nT = true
    · exact hb
    · exfalso
      have := hperm _ (ovl_le _ _) h0 (by simpa using hb)
      have e : findScore q.flat d.mh = scoreContainment (dn (max q.scaled d.mh.scaled) q.hs).length
          (ovl (dn (max q.scaled d.mh.scaled) q.hs) (dn (max q.scaled d.mh.scaled) d.mh.hs)) := rfl
      rw [e, this] at hnot
      cases hnot

/-- **`never_revives` + maximality over the whole database**: if the reported sketch dominates every
candidate and reaches the threshold, it also dominates every sketch the prefetch pass dropped, because
overlaps with the unassigned hashes only shrink -/
theorem dominates_dropped {thr s n : Nat} {nT : F64.F} {Q Q0s D B : List Nat}
    (hsub : ∀ D', ovl Q D' ≤ ovl Q0s D') (hsize : Q0s.length < 2 ^ 53)
    (hthr : ∀ t' nT', calcThreshold thr s n = .ok (t', nT') → nT' = nT)
    (hreach : reaches thr s n (ovl Q B)) (hdrop : Dropped nT Q0s D) : ovl Q D ≤ ovl Q B := by
  rcases hdrop with h0 | hb
  · have := hsub D; omega
  · by_cases hle : ovl Q D ≤ ovl Q B
    · exact hle
    · exfalso
      obtain ⟨t', nT', hc, hnb⟩ := hreach
      have e := hthr t' nT' hc
      subst e
      have h1 : ovl Q B ≤ ovl Q0s D := by have := hsub D; omega
      have hlt : ovl Q0s D < 2 ^ 53 := Nat.lt_of_le_of_lt (ovl_le _ _) hsize
      rw [belowThreshold_nat] at hnb hb
      have hge : F64.ge (F64.ofNat (ovl Q B)) nT' = true := by simpa using hnb
      have := F64.ge_ofNat_mono h1 hlt hge
      rw [this] at hb
      cases hb

end Sm.Gather
