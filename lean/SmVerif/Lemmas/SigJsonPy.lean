/-
C09 helper lemmas: `load_signatures` flattening + filter, the Python envelope
(`SourmashSignature(...)`, `__copy__`, pickling), and the end-to-end
`save_signatures_to_json` -> `load_signatures_from_json` path.
-/
import SmVerif.Lemmas.SigJsonPickle

namespace Sm.SigJson

open Sm

/-! ### what Python can see of a signature -/

/-- parameters, hashes, abundances and the md5 a sketch reports -/
def Sk.obs (s : Sk) : (Nat × Nat × Nat × Nat × Nat × List Nat × Option (List Nat)) × Md5 :=
  ((s.mh.num, s.mh.maxHash, s.mh.ksize, s.mh.seed, s.mh.hf, s.mh.mins, s.mh.abunds), s.md5sum.2)

/-- name, filename, license and the sketches -/
def Sig.obs (s : Sig) :=
  (Py.nameOf s, Py.filenameOf s, s.license, s.sketches.map Sk.obs)

theorem Sk.obs_touch (s : Sk) : s.touch.obs = s.obs := by
  have hf := Sk.touch_mh_fields s
  unfold Sk.obs
  rw [Sk.md5sum_touch, hf.1, hf.2.1, hf.2.2.1, hf.2.2.2.1, hf.2.2.2.2.1, hf.2.2.2.2.2.1, hf.2.2.2.2.2.2.1]

theorem Sk.obs_afterLoad (trusted : Bool) (s : Sk) (hc : trusted = false → s.CacheOK) :
    (s.afterLoad trusted).obs = s.obs := by
  cases trusted with
  | true => exact Sk.obs_touch s
  | false =>
    obtain ⟨hr, hi⟩ := hc rfl
    have h1 := C11.md5sum_eq_digest hi
    obtain ⟨m, raw⟩ := s
    simp only at hr h1
    subst hr
    simp only [Sk.afterLoad, Sk.obs, Sk.md5sum, Bool.false_eq_true, if_false, h1]
    simp [MH.md5sum, MH.digest]

/-! ### flatten + filter -/

theorem flatten_single : ∀ {sigs : List Sig}, (∀ s ∈ sigs, ∃ sk, s.sketches = [sk]) → flatten sigs = sigs
  | [], _ => rfl
  | s :: ss, h => by
    obtain ⟨sk, hsk⟩ := h s (by simp)
    have ih := flatten_single (sigs := ss) (fun x hx => h x (by simp [hx]))
    unfold flatten at ih ⊢
    rw [List.flatMap_cons, ih, hsk]
    obtain ⟨cls, email, hashFunction, filename, name, license, sketches, version⟩ := s
    simp only at hsk
    subst hsk
    rfl

theorem mem_flatten_single {sigs : List Sig} {x : Sig} (h : x ∈ flatten sigs) : ∃ sk, x.sketches = [sk] := by
  unfold flatten at h
  obtain ⟨s, _, hx⟩ := List.mem_flatMap.mp h
  obtain ⟨sk, _, rfl⟩ := List.mem_map.mp hx
  exact ⟨sk, rfl⟩

/-- a signature (one sketch) passes the filter -/
def sigKeeps (ksize moltype : Option Nat) (sig : Sig) : Bool := sig.sketches.all (keeps ksize moltype)

theorem filterMap_keep_single (ksize moltype : Option Nat) :
    ∀ (l : List Sig), (∀ x ∈ l, ∃ sk, x.sketches = [sk]) →
    l.filterMap (fun sig =>
      let good := sig.sketches.filter (keeps ksize moltype)
      if good.isEmpty then none else some { sig with sketches := good }) = l.filter (sigKeeps ksize moltype)
  | [], _ => rfl
  | x :: xs, h => by
    obtain ⟨sk, hsk⟩ := h x (by simp)
    have ih := filterMap_keep_single ksize moltype xs (fun y hy => h y (by simp [hy]))
    rw [List.filterMap_cons, List.filter_cons, ih]
    obtain ⟨cls, email, hashFunction, filename, name, license, sketches, version⟩ := x
    simp only at hsk
    subst hsk
    cases hk : keeps ksize moltype sk <;> simp [sigKeeps, hk]

/-- **filter_exact**: loading with a filter = loading everything, then keeping the matching ones -/
theorem loadSignatures_eq_filter (ksize moltype : Option Nat) (sigs : List Sig) :
    loadSignatures ksize moltype sigs = (flatten sigs).filter (sigKeeps ksize moltype) := by
  unfold loadSignatures
  exact filterMap_keep_single ksize moltype (flatten sigs) (fun x hx => mem_flatten_single hx)

theorem keeps_none (sk : Sk) : keeps none none sk = true := by
  simp [keeps, keepsWith]

theorem loadSignatures_none (sigs : List Sig) : loadSignatures none none sigs = flatten sigs := by
  rw [loadSignatures_eq_filter]
  apply List.filter_eq_self.mpr
  intro x _
  simp [sigKeeps, keeps_none]

/-! ### C strings -/

def NoNul (s : String) : Prop := ∀ c ∈ s.toList, c ≠ Char.ofNat 0

instance (s : String) : Decidable (NoNul s) := by unfold NoNul; infer_instance

theorem takeWhile_all {α : Type} (p : α → Bool) : ∀ (l : List α), (∀ x ∈ l, p x = true) → l.takeWhile p = l
  | [], _ => rfl
  | x :: xs, h => by
    rw [List.takeWhile_cons, h x (by simp), if_pos rfl, takeWhile_all p xs (fun y hy => h y (by simp [hy]))]

theorem cstr_of_noNul {s : String} (h : NoNul s) : cstr s = s := by
  unfold cstr
  rw [takeWhile_all _ s.toList (fun c hc => by simpa using h c hc), String.ofList_toList]

/-! ### the Python envelope -/

/-- what `SourmashSignature(mh, name, filename)` can produce and `copy()` reproduces -/
structure PyNormal (s : Sig) : Prop where
  cls : s.cls = Gen.sigDefaultClass
  email : s.email = Gen.sigDefaultEmail
  hashFunction : s.hashFunction = Gen.sigDefaultHashFunction
  license : s.license = Gen.sigDefaultLicense
  version : s.version = Gen.sigDefaultVersion
  name : ∀ n, s.name = some n → n ≠ "" ∧ NoNul n
  filename : ∀ n, s.filename = some n → n ≠ "" ∧ NoNul n
  one : ∃ sk, s.sketches = [sk]

theorem mkSig_eq (sk : Sk) (name filename : String) :
    Py.mkSig sk name filename =
      { Sig.default with name := if name ≠ "" then some (cstr name) else none,
                         filename := if filename ≠ "" then some (cstr filename) else none,
                         sketches := [sk.touch] } := by
  unfold Py.mkSig
  by_cases h1 : name = "" <;> by_cases h2 : filename = "" <;> simp [h1, h2, Sig.default]

/-- names without NUL: the constructor produces a normal signature -/
theorem mkSig_normal (sk : Sk) {name filename : String} (h1 : NoNul name) (h2 : NoNul filename) :
    PyNormal (Py.mkSig sk name filename) := by
  rw [mkSig_eq]
  refine ⟨rfl, rfl, rfl, rfl, rfl, ?_, ?_, ⟨sk.touch, rfl⟩⟩
  · intro n hn
    simp only at hn
    split at hn
    · rename_i hne
      injection hn with hn
      rw [cstr_of_noNul h1] at hn
      subst hn
      exact ⟨hne, h1⟩
    · cases hn
  · intro n hn
    simp only at hn
    split at hn
    · rename_i hne
      injection hn with hn
      rw [cstr_of_noNul h2] at hn
      subst hn
      exact ⟨hne, h2⟩
    · cases hn

theorem optName_roundtrip {o : Option String} (h : ∀ n, o = some n → n ≠ "" ∧ NoNul n) :
    (if o.getD "" ≠ "" then some (cstr (o.getD "")) else none) = o := by
  cases o with
  | none => simp
  | some n =>
    obtain ⟨hne, hnn⟩ := h n rfl
    simp [hne, cstr_of_noNul hnn]

/-- **copy_eq** (signature): `__copy__` / `to_frozen` / `to_mutable` reproduce a normal signature -/
theorem copySig_normal {s : Sig} (h : PyNormal s) : Py.copySig s = .ok s.touch := by
  obtain ⟨sk, hsk⟩ := h.one
  have hn := optName_roundtrip h.name
  have hf := optName_roundtrip h.filename
  have hc := h.cls; have he := h.email; have hh := h.hashFunction; have hl := h.license; have hv := h.version
  obtain ⟨cls, email, hashFunction, filename, name, license, sketches, version⟩ := s
  simp only at hsk hn hf hc he hh hl hv
  subst hsk hc he hh hl hv
  unfold Py.copySig firstMh
  simp only [bind, Except.bind, pure, Except.pure, mkSig_eq, Py.nameOf, Py.filenameOf, hn, hf,
    Sk.touch_touch, Sig.touch, Sig.default, List.map_cons, List.map_nil]

theorem PyNormal.touch {s : Sig} (h : PyNormal s) : PyNormal s.touch := by
  obtain ⟨sk, hsk⟩ := h.one
  exact ⟨h.cls, h.email, h.hashFunction, h.license, h.version, h.name, h.filename,
    ⟨sk.touch, by simp [Sig.touch, hsk]⟩⟩

theorem PyNormal.afterLoad {s : Sig} (h : PyNormal s) (t : Bool) : PyNormal (s.afterLoad t) := by
  obtain ⟨sk, hsk⟩ := h.one
  exact ⟨h.cls, h.email, h.hashFunction, h.license, h.version, h.name, h.filename,
    ⟨sk.afterLoad t, by simp [Sig.afterLoad, hsk]⟩⟩

theorem mapM_copySig_normal : ∀ {sigs : List Sig}, (∀ s ∈ sigs, PyNormal s) →
    sigs.mapM Py.copySig = .ok (sigs.map Sig.touch)
  | [], _ => rfl
  | s :: ss, h => by
    have h1 := copySig_normal (h s (by simp))
    have h2 := mapM_copySig_normal (sigs := ss) (fun x hx => h x (by simp [hx]))
    simp only [List.mapM_cons, h1, h2, bind, Except.bind, pure, Except.pure, List.map_cons]

/-! ### `PyStable` only looks at the content, not at the md5 cache -/

theorem PyStable.congr {m m' : MH} (h : PyStable m) (h1 : m'.num = m.num) (h2 : m'.maxHash = m.maxHash)
    (h3 : m'.ksize = m.ksize) (h4 : m'.hf = m.hf) (h5 : m'.mins = m.mins) (h6 : m'.abunds = m.abunds) :
    PyStable m' := by
  refine ⟨h.inv.congr h5 h6 h2 h1, ?_, ?_, ?_, ?_, ?_⟩
  · have := h.excl; unfold Excl at this ⊢; rw [h1, h2]; exact this
  · rw [h1, h2]; exact h.nonzero
  · rw [h2]; exact h.stable
  · rw [h4]; exact h.hf
  · rw [h4, h3]; exact h.k3

/-- **pickle_roundtrip** (signature): `pickle.loads(pickle.dumps(sig))` rebuilds the sketch from its
    state and wraps it in a fresh envelope -/
theorem pickleSig_normal {s : Sig} {sk : Sk} (h : PyNormal s) (hsk : s.sketches = [sk]) (hst : PyStable sk.mh) :
    Py.pickleSig s = .ok { s with sketches := [(Sk.ofMH { sk.mh with md5 := none }).touch] } := by
  have hn := optName_roundtrip h.name
  have hf := optName_roundtrip h.filename
  have hc := h.cls; have he := h.email; have hh := h.hashFunction; have hl := h.license; have hv := h.version
  have hfl := Sk.touch_mh_fields sk
  have hst' : PyStable sk.touch.mh := hst.congr hfl.1 hfl.2.1 hfl.2.2.1 hfl.2.2.2.2.1 hfl.2.2.2.2.2.1 hfl.2.2.2.2.2.2.1
  have hp := pickleMH_eq hst'
  have hm : ({ sk.touch.mh with md5 := none } : MH) = { sk.mh with md5 := none } := by
    simp only [hfl.1, hfl.2.1, hfl.2.2.1, hfl.2.2.2.1, hfl.2.2.2.2.1, hfl.2.2.2.2.2.1, hfl.2.2.2.2.2.2.1]
  rw [hm] at hp
  obtain ⟨cls, email, hashFunction, filename, name, license, sketches, version⟩ := s
  simp only at hsk hn hf hc he hh hl hv
  subst hsk hc he hh hl hv
  unfold Py.pickleSig firstMh
  simp only [bind, Except.bind, pure, Except.pure, hp, mkSig_eq, Py.nameOf, Py.filenameOf, hn, hf, Sig.default]

/-! ### save -> load through the Python API -/

/-- which document `load_signatures_from_json` ends up parsing -/
def docFor (i : Py.LoadIn) : Option Doc :=
  match Py.detectInputType i.data with
  | .path => i.fileDoc
  | .unknown => none
  | _ => i.bufDoc

theorem loadFromJson_of_doc {i : Py.LoadIn} {d : Doc} (he : i.empty = false)
    (hu : Py.detectInputType i.data ≠ .unknown) (hd : docFor i = some d)
    (ksize : Option Nat) (m : Option String) (raise : Bool) {r : List Sig}
    (hr : (do let sigs ← ffiLoad (some d) (ksize.getD 0) m; Py.finishLoad sigs) = Except.ok r) :
    Py.loadFromJson i ksize m raise = .ok r := by
  unfold Py.loadFromJson
  simp only [he, Bool.false_eq_true, if_false]
  unfold docFor at hd
  cases ht : Py.detectInputType i.data with
  | unknown => exact absurd ht hu
  | path => simp only [ht] at hd ⊢; rw [hd, hr]
  | fileLike => simp only [ht] at hd ⊢; rw [hd, hr]
  | buffer => simp only [ht] at hd ⊢; rw [hd, hr]

/-- what the yield loop does to a normal signature -/
def fin (s : Sig) : Sig := if Gen.loaderCopies then s.touch else s

theorem finishLoad_normal {sigs : List Sig} (h : ∀ s ∈ sigs, PyNormal s) :
    Py.finishLoad sigs = .ok (sigs.map fin) := by
  unfold Py.finishLoad Py.finishLoadWith fin
  cases Gen.loaderCopies with
  | true => simpa using mapM_copySig_normal h
  | false => simp

/-- loading, with a filter, a document that `save` wrote for normal, encodable signatures -/
theorem load_saved {sigs : List Sig} (hn : ∀ s ∈ sigs, PyNormal s) (he : ∀ s ∈ sigs, s.Encodable)
    (ksize : Nat) (mstr : Option String) (mol : Option Nat)
    (hm : (match mstr with
           | none => Except.ok none
           | some s => (parseMoltype (cstr s)).map some) = Except.ok mol) :
    (do let l ← ffiLoad (some (encodeDoc sigs)) ksize mstr; Py.finishLoad l) =
      Except.ok (((sigs.map (Sig.afterLoad Gen.md5TrustedFromFile)).filter
        (sigKeeps (if ksize = 0 then none else some ksize) mol)).map fin) := by
  have hdec := decodeDoc_encode Gen.md5TrustedFromFile Gen.loadSortsMins he
  have hnorm : ∀ s ∈ sigs.map (Sig.afterLoad Gen.md5TrustedFromFile), PyNormal s := by
    intro s hs
    obtain ⟨s0, hs0, rfl⟩ := List.mem_map.mp hs
    exact (hn s0 hs0).afterLoad _
  have hflat := flatten_single (fun s hs => (hnorm s hs).one)
  have hfin : Py.finishLoad ((sigs.map (Sig.afterLoad Gen.md5TrustedFromFile)).filter
      (sigKeeps (if ksize = 0 then none else some ksize) mol)) =
      Except.ok (((sigs.map (Sig.afterLoad Gen.md5TrustedFromFile)).filter
        (sigKeeps (if ksize = 0 then none else some ksize) mol)).map fin) := by
    apply finishLoad_normal
    intro s hs
    exact hnorm s (List.mem_filter.mp hs).1
  unfold ffiLoad
  cases mstr with
  | none =>
    simp only at hm
    injection hm with hm
    subst hm
    simp only [bind, Except.bind, pure, Except.pure, decodeDoc, hdec, loadSignatures_eq_filter, hflat, hfin]
  | some str =>
    simp only at hm
    simp only [bind, Except.bind, pure, Except.pure, hm, decodeDoc, hdec, loadSignatures_eq_filter, hflat, hfin]

theorem Sig.obs_touch (s : Sig) : s.touch.obs = s.obs := by
  unfold Sig.obs
  have h1 : Py.nameOf s.touch = Py.nameOf s := rfl
  have h2 : Py.filenameOf s.touch = Py.filenameOf s := rfl
  have h3 : s.touch.license = s.license := rfl
  rw [h1, h2, h3]
  simp only [Sig.touch, List.map_map]
  congr 3
  apply List.map_congr_left
  intro sk _
  exact Sk.obs_touch sk

theorem fin_obs (s : Sig) : (fin s).obs = s.obs := by
  unfold fin
  split
  · exact Sig.obs_touch s
  · rfl

/-! ### what a successful Python load consists of -/

theorem mem_flatten {sigs : List Sig} {x : Sig} (h : x ∈ flatten sigs) :
    ∃ s ∈ sigs, ∃ sk ∈ s.sketches, x = { s with sketches := [sk] } := by
  unfold flatten at h
  obtain ⟨s, hs, hx⟩ := List.mem_flatMap.mp h
  obtain ⟨sk, hsk, rfl⟩ := List.mem_map.mp hx
  exact ⟨s, hs, sk, hsk, rfl⟩

theorem mem_loadSignatures {ksize moltype : Option Nat} {sigs : List Sig} {x : Sig}
    (h : x ∈ loadSignatures ksize moltype sigs) : x ∈ flatten sigs := by
  rw [loadSignatures_eq_filter] at h
  exact (List.mem_filter.mp h).1

theorem ffiLoad_ok {doc : Option Doc} {ksize : Nat} {m : Option String} {l : List Sig}
    (h : ffiLoad doc ksize m = .ok l) :
    ∃ d sigs k' m', doc = some d ∧ decodeDoc d = .ok sigs ∧ l = loadSignatures k' m' sigs := by
  unfold ffiLoad at h
  cases doc with
  | none =>
    cases m with
    | none => simp [bind, Except.bind, pure, Except.pure] at h
    | some str =>
      simp only [bind, Except.bind, pure, Except.pure] at h
      split at h <;> cases h
  | some d =>
    cases m with
    | none =>
      simp only [bind, Except.bind, pure, Except.pure] at h
      split at h; · cases h
      rename_i sigs hs
      injection h with h
      exact ⟨d, sigs, _, none, rfl, hs, h.symm⟩
    | some str =>
      simp only [bind, Except.bind, pure, Except.pure] at h
      split at h; · cases h
      rename_i mol _
      split at h; · cases h
      rename_i sigs hs
      injection h with h
      exact ⟨d, sigs, _, mol, rfl, hs, h.symm⟩

/-- a successful load returned nothing, or went through the FFI loader and the yield loop -/
theorem loadFromJson_ok_cases {i : Py.LoadIn} {k : Option Nat} {m : Option String} {raise : Bool} {r : List Sig}
    (h : Py.loadFromJson i k m raise = .ok r) :
    r = [] ∨ ∃ doc, (do let l ← ffiLoad doc (k.getD 0) m; Py.finishLoad l) = Except.ok r := by
  unfold Py.loadFromJson at h
  by_cases he : i.empty = true
  · simp only [he, if_true] at h
    injection h with h
    exact Or.inl h.symm
  · simp only [he, Bool.false_eq_true, if_false] at h
    have hrun : ∀ doc, (match (do let l ← ffiLoad doc (k.getD 0) m; Py.finishLoad l) with
        | Except.ok r => Except.ok r
        | Except.error e => if raise = true then Except.error e else Except.ok []) = Except.ok r →
        r = [] ∨ ∃ doc, (do let l ← ffiLoad doc (k.getD 0) m; Py.finishLoad l) = Except.ok r := by
      intro doc hd
      split at hd
      · rename_i r' hr'
        injection hd with hd
        subst hd
        exact Or.inr ⟨doc, hr'⟩
      · split at hd
        · cases hd
        · injection hd with hd
          exact Or.inl hd.symm
    cases ht : Py.detectInputType i.data with
    | unknown =>
      simp only [ht] at h
      split at h
      · cases h
      · injection h with h; exact Or.inl h.symm
    | path => simp only [ht] at h; exact hrun _ h
    | fileLike => simp only [ht] at h; exact hrun _ h
    | buffer => simp only [ht] at h; exact hrun _ h

end Sm.SigJson
