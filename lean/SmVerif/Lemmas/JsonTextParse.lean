/-
C09 (JSON text layer): parsing the tokens of a tree gives the tree back, and the token list of a
tree is one that the lexer reads back (`Sep`, `TokOk`).
-/
import SmVerif.Lemmas.JsonTextLex

namespace Sm.JsonText

/-! ### tokens of a tree never start with a closing bracket -/

theorem toks_ne_nil (v : JV) : v.toks ≠ [] := by
  cases v with
  | bool b => cases b <;> simp [JV.toks]
  | _ => simp [JV.toks]

theorem toks_head (v : JV) : ∃ t r, v.toks = t :: r ∧ t ≠ .rbrack ∧ t ≠ .rbrace ∧ t ≠ .comma ∧ t ≠ .colon := by
  cases v with
  | bool b => cases b <;> exact ⟨_, _, rfl, by decide, by decide, by decide, by decide⟩
  | null => exact ⟨_, _, rfl, by decide, by decide, by decide, by decide⟩
  | num n => exact ⟨_, _, rfl, by simp, by simp, by simp, by simp⟩
  | str s => exact ⟨_, _, rfl, by simp, by simp, by simp, by simp⟩
  | arr l => exact ⟨_, _, rfl, by decide, by decide, by decide, by decide⟩
  | obj m => exact ⟨_, _, rfl, by decide, by decide, by decide, by decide⟩
  | err => exact ⟨_, _, rfl, by decide, by decide, by decide, by decide⟩

theorem toksL_cons (v : JV) (vs : List JV) :
    toksL (v :: vs) = match vs with
      | [] => v.toks ++ [.rbrack]
      | _ :: _ => v.toks ++ .comma :: toksL vs := by
  cases vs <;> simp [toksL]

theorem toksM_cons (k : List Char) (v : JV) (ms : List (List Char × JV)) :
    toksM ((k, v) :: ms) = match ms with
      | [] => .str k :: .colon :: (v.toks ++ [.rbrace])
      | _ :: _ => .str k :: .colon :: (v.toks ++ .comma :: toksM ms) := by
  cases ms <;> simp [toksM]

/-! ### parse ∘ toks = id -/

/-- the three parsers at fuel `f`, on the tokens of error-free trees -/
def ParseOK (f : Nat) : Prop :=
  (∀ (v : JV) (rest : List Tok), v.hasErr = false → v.toks.length ≤ f →
      parseValue f (v.toks ++ rest) = ⟨v, rest, true⟩) ∧
  (∀ (v : JV) (vs : List JV) (rest : List Tok), anyErr (v :: vs) = false → (toksL (v :: vs)).length ≤ f →
      parseElems f (toksL (v :: vs) ++ rest) = ⟨v :: vs, rest, true⟩) ∧
  (∀ (k : List Char) (v : JV) (ms : List (List Char × JV)) (rest : List Tok), anyErrM ((k, v) :: ms) = false →
      (toksM ((k, v) :: ms)).length ≤ f →
      parseMembers f (toksM ((k, v) :: ms) ++ rest) = ⟨(k, v) :: ms, rest, true⟩)

theorem parseOK_all : ∀ f, ParseOK f
  | 0 => by
    refine ⟨?_, ?_, ?_⟩
    · intro v rest _ hl
      have := toks_ne_nil v
      cases hv : v.toks with
      | nil => exact absurd hv this
      | cons t r => rw [hv] at hl; simp at hl
    · intro v vs rest _ hl
      have := toks_ne_nil v
      rw [toksL_cons] at hl
      cases vs <;> cases hv : v.toks <;> simp_all
    · intro k v ms rest _ hl
      rw [toksM_cons] at hl
      cases ms <;> simp at hl
  | f + 1 => by
    obtain ⟨ihV, ihL, ihM⟩ := parseOK_all f
    refine ⟨?_, ?_, ?_⟩
    · -- values
      intro v rest he hl
      cases v with
      | null => rfl
      | bool b => cases b <;> rfl
      | num n => rfl
      | str s => rfl
      | err => simp [JV.hasErr] at he
      | arr l =>
        cases l with
        | nil => rfl
        | cons x xs =>
          simp only [JV.toks, List.cons_append, List.length_cons, Nat.add_le_add_iff_right] at hl ⊢
          have hx : anyErr (x :: xs) = false := by simpa [JV.hasErr] using he
          obtain ⟨t, r, ht, hnb, _, _, _⟩ := toks_head x
          have hstart : ∃ t' r', toksL (x :: xs) ++ rest = t' :: r' ∧ t' ≠ .rbrack := by
            rw [toksL_cons]
            cases xs <;> simp [ht] <;> exact hnb
          obtain ⟨t', r', hs, hne⟩ := hstart
          have := ihL x xs rest hx hl
          unfold parseValue
          rw [hs] at this ⊢
          cases t' <;> simp_all
      | obj m =>
        cases m with
        | nil => rfl
        | cons kv ms =>
          obtain ⟨k, x⟩ := kv
          simp only [JV.toks, List.cons_append, List.length_cons, Nat.add_le_add_iff_right] at hl ⊢
          have hx : anyErrM ((k, x) :: ms) = false := by simpa [JV.hasErr] using he
          have hstart : ∃ r', toksM ((k, x) :: ms) ++ rest = .str k :: r' := by
            rw [toksM_cons]
            cases ms <;> simp
          obtain ⟨r', hs⟩ := hstart
          have := ihM k x ms rest hx hl
          unfold parseValue
          rw [hs] at this ⊢
          simp_all
    · -- elements
      intro v vs rest he hl
      have hv : v.hasErr = false := by
        simp only [anyErr, Bool.or_eq_false_iff] at he; exact he.1
      have hvs : anyErr vs = false := by
        simp only [anyErr, Bool.or_eq_false_iff] at he; exact he.2
      rw [toksL_cons] at hl ⊢
      cases vs with
      | nil =>
        simp only [List.length_append, List.length_cons, List.length_nil] at hl
        simp only [List.append_assoc, List.singleton_append]
        unfold parseElems
        simp only [ihV v (.rbrack :: rest) hv (by omega), Bool.not_true, Bool.false_eq_true, if_false]
      | cons w ws =>
        simp only [List.length_append, List.length_cons] at hl
        simp only [List.append_assoc, List.cons_append]
        unfold parseElems
        simp only [ihV v (.comma :: (toksL (w :: ws) ++ rest)) hv (by omega), Bool.not_true, Bool.false_eq_true,
          if_false]
        rw [ihL w ws rest hvs (by omega)]
    · -- members
      intro k v ms rest he hl
      have hv : v.hasErr = false := by
        simp only [anyErrM, Bool.or_eq_false_iff] at he; exact he.1
      have hms : anyErrM ms = false := by
        simp only [anyErrM, Bool.or_eq_false_iff] at he; exact he.2
      rw [toksM_cons] at hl ⊢
      cases ms with
      | nil =>
        simp only [List.length_append, List.length_cons, List.length_nil] at hl
        simp only [List.cons_append, List.append_assoc, List.singleton_append, List.nil_append]
        unfold parseMembers
        simp only [ihV v (.rbrace :: rest) hv (by omega), Bool.not_true, Bool.false_eq_true, if_false]
      | cons kw ws =>
        obtain ⟨k', w⟩ := kw
        simp only [List.length_append, List.length_cons] at hl
        simp only [List.cons_append, List.append_assoc, List.nil_append]
        unfold parseMembers
        simp only [ihV v (.comma :: (toksM ((k', w) :: ws) ++ rest)) hv (by omega), Bool.not_true,
          Bool.false_eq_true, if_false]
        rw [ihM k' w ws rest hms (by omega)]

/-- **parse ∘ toks = id** on error-free trees -/
theorem parseTop_toks (v : JV) (h : v.hasErr = false) : parseTop v.toks = ⟨v, [], true⟩ := by
  have := (parseOK_all (v.toks.length + 1)).1 v [] h (by omega)
  simpa [parseTop] using this

end Sm.JsonText

namespace Sm.JsonText

/-! ### the tokens of a tree can be printed and lexed back -/

mutual
/-- no `err` node and every number well-formed -/
def JV.Good : JV → Prop
  | .err => False
  | .num n => NumOk n
  | .arr l => GoodL l
  | .obj m => GoodM m
  | _ => True
def GoodL : List JV → Prop
  | [] => True
  | v :: vs => v.Good ∧ GoodL vs
def GoodM : List (List Char × JV) → Prop
  | [] => True
  | (_, v) :: ms => v.Good ∧ GoodM ms
end

mutual
theorem JV.Good.noErr : ∀ (v : JV), v.Good → v.hasErr = false
  | .err, h => by simp [JV.Good] at h
  | .null, _ => rfl
  | .bool _, _ => rfl
  | .num _, _ => rfl
  | .str _, _ => rfl
  | .arr l, h => by simp only [JV.hasErr]; exact GoodL.noErr l (by simpa [JV.Good] using h)
  | .obj m, h => by simp only [JV.hasErr]; exact GoodM.noErr m (by simpa [JV.Good] using h)
theorem GoodL.noErr : ∀ (l : List JV), GoodL l → anyErr l = false
  | [], _ => rfl
  | v :: vs, h => by
    simp only [GoodL] at h
    simp only [anyErr, JV.Good.noErr v h.1, GoodL.noErr vs h.2, Bool.or_self]
theorem GoodM.noErr : ∀ (m : List (List Char × JV)), GoodM m → anyErrM m = false
  | [], _ => rfl
  | (_, v) :: ms, h => by
    simp only [GoodM] at h
    simp only [anyErrM, JV.Good.noErr v h.1, GoodM.noErr ms h.2, Bool.or_self]
end

mutual
theorem JV.Good.tokOk : ∀ (v : JV), v.Good → ∀ t ∈ v.toks, TokOk t
  | .err, h => by simp [JV.Good] at h
  | .null, _ => by simp [JV.toks, TokOk]
  | .bool true, _ => by simp [JV.toks, TokOk]
  | .bool false, _ => by simp [JV.toks, TokOk]
  | .num n, h => by
    intro t ht
    simp only [JV.toks, List.mem_singleton] at ht
    subst ht
    show NumOk n
    simpa [JV.Good] using h
  | .str _, _ => by simp [JV.toks, TokOk]
  | .arr l, h => by
    intro t ht
    simp only [JV.toks, List.mem_cons] at ht
    rcases ht with rfl | ht
    · simp [TokOk]
    · exact GoodL.tokOk l (by simpa [JV.Good] using h) t ht
  | .obj m, h => by
    intro t ht
    simp only [JV.toks, List.mem_cons] at ht
    rcases ht with rfl | ht
    · simp [TokOk]
    · exact GoodM.tokOk m (by simpa [JV.Good] using h) t ht
theorem GoodL.tokOk : ∀ (l : List JV), GoodL l → ∀ t ∈ toksL l, TokOk t
  | [], _ => by simp [toksL, TokOk]
  | v :: vs, h => by
    simp only [GoodL] at h
    intro t ht
    rw [toksL_cons] at ht
    cases vs with
    | nil =>
      simp only [List.mem_append, List.mem_singleton] at ht
      rcases ht with ht | rfl
      · exact JV.Good.tokOk v h.1 t ht
      · simp [TokOk]
    | cons w ws =>
      simp only [List.mem_append, List.mem_cons] at ht
      rcases ht with ht | rfl | ht
      · exact JV.Good.tokOk v h.1 t ht
      · simp [TokOk]
      · exact GoodL.tokOk (w :: ws) h.2 t ht
theorem GoodM.tokOk : ∀ (m : List (List Char × JV)), GoodM m → ∀ t ∈ toksM m, TokOk t
  | [], _ => by simp [toksM, TokOk]
  | (k, v) :: ms, h => by
    simp only [GoodM] at h
    intro t ht
    rw [toksM_cons] at ht
    cases ms with
    | nil =>
      simp only [List.mem_cons, List.mem_append, List.mem_singleton, List.not_mem_nil, or_false] at ht
      rcases ht with rfl | rfl | ht | rfl
      · simp [TokOk]
      · simp [TokOk]
      · exact JV.Good.tokOk v h.1 t ht
      · simp [TokOk]
    | cons kw ws =>
      simp only [List.mem_cons, List.mem_append] at ht
      rcases ht with rfl | rfl | ht | rfl | ht
      · simp [TokOk]
      · simp [TokOk]
      · exact JV.Good.tokOk v h.1 t ht
      · simp [TokOk]
      · exact GoodM.tokOk (kw :: ws) h.2 t ht
end

/-- what follows starts with punctuation (or is empty) -/
def PunctHead : List Tok → Prop
  | [] => True
  | p :: _ => isPunct p = true

theorem sep_cons_noDelim {t : Tok} {r : List Tok} (ht : needsDelim t = false) (h : Sep r) : Sep (t :: r) := by
  cases r with
  | nil => trivial
  | cons b r => exact ⟨fun hn => (by rw [ht] at hn; cases hn), h⟩

theorem sep_cons_punctHead {t : Tok} {r : List Tok} (hp : PunctHead r) (h : Sep r) : Sep (t :: r) := by
  cases r with
  | nil => trivial
  | cons b r => exact ⟨fun _ => hp, h⟩

mutual
theorem JV.sepToks : ∀ (v : JV) (rest : List Tok), PunctHead rest → Sep rest → Sep (v.toks ++ rest)
  | .err, rest, hp, hs => sep_cons_punctHead hp hs
  | .null, rest, hp, hs => sep_cons_punctHead hp hs
  | .bool true, rest, hp, hs => sep_cons_punctHead hp hs
  | .bool false, rest, hp, hs => sep_cons_punctHead hp hs
  | .num _, rest, hp, hs => sep_cons_punctHead hp hs
  | .str _, rest, hp, hs => sep_cons_punctHead hp hs
  | .arr l, rest, _, hs => by
    simp only [JV.toks, List.cons_append]
    exact sep_cons_noDelim rfl (sepToksL l rest hs)
  | .obj m, rest, _, hs => by
    simp only [JV.toks, List.cons_append]
    exact sep_cons_noDelim rfl (sepToksM m rest hs)
theorem sepToksL : ∀ (l : List JV) (rest : List Tok), Sep rest → Sep (toksL l ++ rest)
  | [], rest, hs => sep_cons_noDelim rfl hs
  | v :: vs, rest, hs => by
    rw [toksL_cons]
    cases vs with
    | nil =>
      simp only [List.append_assoc, List.singleton_append]
      exact JV.sepToks v (.rbrack :: rest) rfl (sep_cons_noDelim rfl hs)
    | cons w ws =>
      simp only [List.append_assoc, List.cons_append]
      exact JV.sepToks v (.comma :: (toksL (w :: ws) ++ rest)) rfl (sep_cons_noDelim rfl (sepToksL (w :: ws) rest hs))
theorem sepToksM : ∀ (m : List (List Char × JV)) (rest : List Tok), Sep rest → Sep (toksM m ++ rest)
  | [], rest, hs => sep_cons_noDelim rfl hs
  | (k, v) :: ms, rest, hs => by
    rw [toksM_cons]
    cases ms with
    | nil =>
      simp only [List.cons_append, List.append_assoc, List.singleton_append, List.nil_append]
      exact sep_cons_noDelim rfl (sep_cons_noDelim rfl
        (JV.sepToks v (.rbrace :: rest) rfl (sep_cons_noDelim rfl hs)))
    | cons kw ws =>
      simp only [List.cons_append, List.append_assoc, List.nil_append]
      exact sep_cons_noDelim rfl (sep_cons_noDelim rfl
        (JV.sepToks v (.comma :: (toksM (kw :: ws) ++ rest)) rfl (sep_cons_noDelim rfl (sepToksM (kw :: ws) rest hs))))
end

/-- **text round trip of a tree**: print, lex, parse -/
theorem parse_lex_print (v : JV) (h : v.Good) : parseTop (lex (printJV v)) = ⟨v, [], true⟩ := by
  have hsep : Sep v.toks := by
    have := JV.sepToks v [] trivial trivial
    simpa using this
  unfold printJV
  rw [lex_printToks v.toks (JV.Good.tokOk v h) hsep, parseTop_toks v (JV.Good.noErr v h)]

end Sm.JsonText
