/-
Helper lemmas for C04, part 2: the `count` abstraction through the bulk
entry points (`addMany`, `addManyAb`, `ffiSetAbundances`, `removeMany`) of a
scaled sketch and through the set operations of the API layer
(intersection, flatten, inflate, downsample, copy).
-/
import SmVerif.Lemmas.SetOpsBase

namespace Sm

open MH

/-- a valid scaled sketch -/
structure Scaled (s : MH) : Prop where
  inv : Inv s
  num : s.num = 0
  max : s.maxHash ≠ 0

/-- the threshold survives the round trip through the Python `scaled` value
(`MinHash(.., max_hash=self._max_hash)` in `copy_and_clear` / `flatten` / `__copy__`).
A theorem for every scaled value up to 2^31 (C03). -/
def Stable (M : Nat) : Prop := mhR (scP M) = M

/-- the threshold survives `downsample(scaled=self.scaled)` (Python `.scaled`, Python
`_get_max_hash_for_scaled`, then the constructor).  A theorem for every scaled value up to 2^31
(C03 `py_reports_S`, `py_downsample_exact`). -/
def StableDown (M : Nat) : Prop := mhR (scP (mhP (scP M))) = M

theorem Scaled.excl {s : MH} (h : Scaled s) : Excl s := Or.inl h.num

theorem count_le_of_flat {s : MH} (hs : Inv s) (ht : s.trackAbundance = false) (x : Nat) :
    count s x ≤ 1 := by
  rw [count_flat hs ht]; split <;> omega

theorem count_eq_zero_of_gt {s : MH} (hs : Scaled s) {x : Nat} (hx : x > s.maxHash) :
    count s x = 0 := by
  have h := mem_iff_count_pos' hs.inv x
  have : x ∉ s.mins := fun hm => by have := hs.inv.bounded hs.max x hm; omega
  have : ¬ 0 < count s x := fun hc => this (h.2 hc)
  omega

theorem count_eq_zero_of_empty {s : MH} (hs : Inv s) (he : s.mins = []) (x : Nat) :
    count s x = 0 := by
  have h := mem_iff_count_pos' hs x
  rw [he] at h
  have : ¬ 0 < count s x := fun hc => by simpa using h.2 hc
  omega

/-! ### bulk additions -/

theorem Scaled.addHashAb {s : MH} (hs : Scaled s) (h a : Nat) : Scaled (s.addHashAb h a) := by
  have f := addHashAb_frame s h a
  exact ⟨inv_addHashAb hs.inv hs.excl h a, f.1.trans hs.num, by rw [f.2.1]; exact hs.max⟩

theorem count_addManyAb_scaled {s : MH} (hs : Scaled s) (ps : List (Nat × Nat)) :
    Scaled (s.addManyAb ps) ∧
    count (s.addManyAb ps) = specFold s.maxHash s.trackAbundance (count s) ps := by
  unfold MH.addManyAb
  induction ps generalizing s with
  | nil => exact ⟨hs, rfl⟩
  | cons p ps ih =>
    have f := addHashAb_frame s p.1 p.2
    have h1 := ih (hs.addHashAb p.1 p.2)
    refine ⟨h1.1, ?_⟩
    simp only [List.foldl_cons]
    rw [h1.2, specFold_cons, f.2.1, f.2.2.2.2.2]
    congr 1
    exact funext (count_addHashAb_scaled' hs.inv hs.num hs.max p.1 p.2)

theorem addMany_eq_addManyAb (s : MH) (l : List Nat) : s.addMany l = s.addManyAb (ones l) := by
  unfold MH.addMany MH.addManyAb ones
  rw [List.foldl_map]
  rfl

theorem Scaled.addMany {s : MH} (hs : Scaled s) (l : List Nat) : Scaled (s.addMany l) := by
  rw [addMany_eq_addManyAb]; exact (count_addManyAb_scaled hs _).1

theorem count_addMany_scaled {s : MH} (hs : Scaled s) (l : List Nat) (x : Nat) :
    count (s.addMany l) x =
      if x > s.maxHash then count s x
      else if s.trackAbundance then count s x + l.count x
      else if x ∈ l then 1 else count s x := by
  rw [addMany_eq_addManyAb, (count_addManyAb_scaled hs _).2, specFold_ones]
  by_cases c : x > s.maxHash
  · rw [if_pos ⟨hs.max, c⟩, if_pos c]
  · rw [if_neg (fun h => c h.2), if_neg c]

/-- `set_abundances(values, clear=True)` with distinct keys: the sketch of `values` -/
theorem count_ffiSetAbundances_clear {s : MH} (hs : Scaled s) (ps : List (Nat × Nat))
    (hnd : (ps.map Prod.fst).Nodup) :
    Scaled (s.ffiSetAbundances ps true) ∧ ∀ x,
    count (s.ffiSetAbundances ps true) x =
      if x > s.maxHash then 0
      else if s.trackAbundance then cnt ps x else min 1 (cnt ps x) := by
  have hc : Scaled s.clear := ⟨inv_clear hs.inv, hs.num, hs.max⟩
  have hperm := sortPairs_perm ps
  have hnd' : ((MH.sortPairs ps).map Prod.fst).Nodup := (hperm.map Prod.fst).nodup_iff.2 hnd
  have h := count_addManyAb_scaled hc (MH.sortPairs ps)
  have e : s.ffiSetAbundances ps true = s.clear.addManyAb (MH.sortPairs ps) := by
    simp [MH.ffiSetAbundances]
  rw [e]
  refine ⟨h.1, ?_⟩
  intro x
  rw [h.2, specFold_nodup _ _ _ _ hnd' (fun k _ => count_clear' s k)]
  have hM : s.clear.maxHash = s.maxHash := rfl
  have hT : s.clear.trackAbundance = s.trackAbundance := by
    simp only [MH.clear, MH.trackAbundance]; cases s.abunds <;> rfl
  rw [hM, hT, ← cnt_perm_nodup hperm.symm hnd x, count_clear']
  by_cases hx : x ∈ (MH.sortPairs ps).map Prod.fst
  · rw [if_pos hx]
    by_cases c : x > s.maxHash
    · rw [if_pos ⟨hs.max, c⟩, if_pos c]
    · rw [if_neg (fun h : s.maxHash ≠ 0 ∧ x > s.maxHash => c h.2), if_neg c]
  · rw [if_neg hx]
    have hx' : x ∉ ps.map Prod.fst := fun h => hx ((hperm.map Prod.fst).mem_iff.2 h)
    rw [cnt_eq_zero_of_not_mem hx']
    repeat' split
    all_goals simp

/-! ### bulk removal -/

theorem count_removeMany {s : MH} (hs : Inv s) (l : List Nat) (x : Nat) :
    count (s.removeMany l) x = if x ∈ l then 0 else count s x := by
  unfold MH.removeMany
  induction l generalizing s with
  | nil => simp
  | cons y ys ih =>
    simp only [List.foldl_cons]
    rw [ih (inv_removeHash hs y), count_removeHash' hs y x]
    by_cases h1 : x ∈ ys
    · simp [h1]
    · by_cases h2 : x = y <;> simp [h1, h2]

theorem removeMany_frame (s : MH) (l : List Nat) :
    (s.removeMany l).num = s.num ∧ (s.removeMany l).maxHash = s.maxHash ∧
    (s.removeMany l).trackAbundance = s.trackAbundance := by
  unfold MH.removeMany
  induction l generalizing s with
  | nil => simp
  | cons y ys ih =>
    have h1 := ih (s.removeHash y)
    have h2 := removeHash_frame s y
    simp only [List.foldl_cons]
    exact ⟨h1.1.trans h2.1, h1.2.1.trans h2.2.1, h1.2.2.trans h2.2.2.2.2.2⟩

/-! ### fresh sketches built by the Python constructor -/

theorem mkMinHash_of_maxHash {n k hf seed : Nat} {tr : Bool} {mh : Nat} {r : MH}
    (hmh : mh ≠ 0) (h : Py.mkMinHash n k hf seed tr mh 0 = .ok r) :
    r = MH.new (scP mh) k hf seed tr n := by
  unfold Py.mkMinHash at h
  rw [if_neg (by simp)] at h
  simp only [if_pos hmh] at h
  by_cases c2 : scP mh ≠ 0 ∧ n ≠ 0
  · rw [if_pos c2] at h; cases h
  · rw [if_neg c2] at h
    by_cases c3 : n = 0 ∧ scP mh = 0
    · rw [if_pos c3] at h; cases h
    · rw [if_neg c3] at h
      cases h
      rfl

theorem new_fields (sc k hf seed : Nat) (tr : Bool) (n : Nat) :
    (MH.new sc k hf seed tr n).maxHash = mhR sc ∧ (MH.new sc k hf seed tr n).num = n ∧
    (MH.new sc k hf seed tr n).mins = [] ∧ (MH.new sc k hf seed tr n).trackAbundance = tr ∧
    (MH.new sc k hf seed tr n).ksize = k ∧ (MH.new sc k hf seed tr n).hf = hf ∧
    (MH.new sc k hf seed tr n).seed = seed := by
  refine ⟨rfl, rfl, rfl, ?_, rfl, rfl, rfl⟩
  cases tr <;> rfl

/-- what `MinHash(0, .., track_abundance=tr, max_hash=M)` is, for a stable threshold -/
theorem fresh_scaled {k hf seed : Nat} {tr : Bool} {M : Nat} {r : MH} (hM : M ≠ 0)
    (hst : Stable M) (h : Py.mkMinHash 0 k hf seed tr M 0 = .ok r) :
    Scaled r ∧ r.maxHash = M ∧ r.trackAbundance = tr ∧ r.mins = [] ∧
    r.ksize = k ∧ r.hf = hf ∧ r.seed = seed := by
  obtain rfl := mkMinHash_of_maxHash hM h
  have f := new_fields (scP M) k hf seed tr 0
  have hm : (MH.new (scP M) k hf seed tr 0).maxHash = M := f.1.trans hst
  exact ⟨⟨inv_new .., rfl, by rw [hm]; exact hM⟩, hm, f.2.2.2.1, rfl, rfl, rfl, rfl⟩

/-! ### `copy` -/

theorem mergeP_take_self {s : MH} (hs : Inv s) :
    (if s.pairs.length > s.num ∧ s.num ≠ 0 then s.pairs.take s.num else s.pairs) = s.pairs := by
  split
  · rename_i h
    have := hs.capped h.2
    rw [pairs_length hs.toW] at h
    omega
  · rfl

/-- merging `s` into an empty sketch with the same parameters gives `s`'s vectors -/
theorem merge_into_empty {a s r : MH} (ha : Inv a) (hs : Inv s) (he : a.mins = [])
    (hnum : a.num = s.num) (htr : a.trackAbundance = s.trackAbundance)
    (hr : a.merge s = .ok r) : r.mins = s.mins ∧ r.abunds = s.abunds := by
  obtain ⟨_, rfl⟩ := merge_ok hr
  have hap : a.pairs = [] := by
    have := pairs_length ha.toW
    rw [he] at this
    exact List.eq_nil_of_length_eq_zero this
  have hm : mergedOf a s = s.pairs := by
    unfold mergedOf
    rw [hap, mergeP_nil_left, hnum]
    exact mergeP_take_self hs
  refine ⟨?_, ?_⟩
  · show (mergedOf a s).map Prod.fst = s.mins
    rw [hm, pairs_keys hs.toW]
  · show (if a.abunds.isSome then some ((mergedOf a s).map Prod.snd) else none) = s.abunds
    rw [hm]
    cases hsa : s.abunds with
    | none =>
      have : a.abunds.isSome = false := by
        have := htr; simp only [MH.trackAbundance, hsa] at this; simpa using this
      simp [this]
    | some ab =>
      have : a.abunds.isSome = true := by
        have := htr; simp only [MH.trackAbundance, hsa] at this; simpa using this
      simp only [this, if_true]
      rw [pairs_some hsa, List.map_snd_zip (Nat.le_of_eq (hs.aligned ab hsa))]

theorem mkMinHash_frame' {n k hf seed : Nat} {tr : Bool} {mh sc : Nat} {r : MH}
    (h : Py.mkMinHash n k hf seed tr mh sc = .ok r) :
    r.num = n ∧ r.ksize = k ∧ r.hf = hf ∧ r.seed = seed ∧ r.trackAbundance = tr ∧ r.mins = [] :=
  mkMinHash_frame h

/-- `__copy__`: same vectors, same parameters -/
theorem pyCopy_content {s c : MH} (hs : Inv s) (hc : Py.copy s = .ok c) :
    c.mins = s.mins ∧ c.abunds = s.abunds ∧ c.num = s.num ∧ c.maxHash = s.maxHash ∧
    c.ksize = s.ksize ∧ c.hf = s.hf ∧ c.seed = s.seed ∧ c.trackAbundance = s.trackAbundance := by
  unfold Py.copy at hc
  cases ha : Py.mkMinHash s.num s.ksize s.hf s.seed s.trackAbundance s.maxHash 0 with
  | error e => simp [ha, bind, Except.bind] at hc
  | ok a =>
    simp only [ha, bind, Except.bind] at hc
    have fa := mkMinHash_frame ha
    have hia := (inv_mkMinHash ha).1
    have hm := merge_into_empty hia hs fa.2.2.2.2.2 fa.1 fa.2.2.2.2.1 hc
    have hf := merge_frame hc
    obtain ⟨⟨hk, hh, hM, hsd⟩, _⟩ := merge_ok hc
    exact ⟨hm.1, hm.2, hf.1.trans fa.1, hf.2.1.trans hM, hf.2.2.1.trans fa.2.1,
      hf.2.2.2.2.1.trans fa.2.2.1, hf.2.2.2.1.trans fa.2.2.2.1, hf.2.2.2.2.2.trans fa.2.2.2.2.1⟩

theorem count_congr {s t : MH} (h1 : s.mins = t.mins) (h2 : s.abunds = t.abunds) (x : Nat) :
    count s x = count t x := by
  unfold count MH.pairs
  rw [h1, h2]

theorem Inv.of_eq {s t : MH} (hs : Inv s) (h1 : t.mins = s.mins) (h2 : t.abunds = s.abunds)
    (h3 : t.maxHash = s.maxHash) (h4 : t.num = s.num) : Inv t := hs.congr h1 h2 h3 h4

end Sm
