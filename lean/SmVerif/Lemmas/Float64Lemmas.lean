/-
Specification of the exact binary64 model over ℚ: the value of a double, the
half-ulp / relative `2^-53` error bound of the correctly rounded division, exactness
of `ofNat` below `2^53`, and the float → integer conversions.
-/
import SmVerif.Lemmas.Float64Nat
import Mathlib.Tactic.Positivity
import Mathlib.Tactic.NormNum
import Mathlib.Tactic.FieldSimp
import Mathlib.Algebra.Order.Field.Basic
import Mathlib.Algebra.Order.AbsoluteValue.Basic
import Mathlib.Data.Rat.Defs

namespace Sm.F64

/-- the rational number a double stands for -/
def F.val (x : F) : ℚ := (x.m : ℚ) * (2 : ℚ) ^ x.e

theorem zpow_split (d k1 k2 : Nat) :
    (2 : ℚ) ^ ((d : Int) - ((k1 : Int) - (k2 : Int))) = 2 ^ d * 2 ^ k2 / 2 ^ k1 := by
  have : (d : Int) - ((k1 : Int) - (k2 : Int)) = ((d + k2 : Nat) : Int) - (k1 : Int) := by
    push_cast; ring
  rw [this, zpow_sub₀ (two_ne_zero), zpow_natCast, zpow_natCast, pow_add]

/-- **correctly rounded division**: a normalised 53-bit mantissa and a relative error of at
most `2^-53` (half a unit in the last place). -/
theorem divNat_spec (a b : Nat) (ha : 0 < a) (hb : 0 < b) :
    2 ^ 52 ≤ (divNat a b).m ∧ (divNat a b).m < 2 ^ 53 ∧
    |(divNat a b).val - (a : ℚ) / b| ≤ (divNat a b).val / 2 ^ 53 := by
  obtain ⟨k1, k2, d, m, hd, hm1, hm2, c1, c2, heq⟩ := divNat_nat a b ha hb
  have hval : (divNat a b).val = (m : ℚ) * 2 ^ d * 2 ^ k2 / 2 ^ k1 := by
    rw [heq]
    split
    · rename_i hm
      have e : (d : Int) + 1 - ((k1 : Int) - (k2 : Int)) = ((d + 1 : Nat) : Int) - ((k1 : Int) - (k2 : Int)) := by
        push_cast; ring
      simp only [F.val]
      rw [e, zpow_split, hm, pow_succ]
      push_cast
      ring
    · simp only [F.val]
      rw [zpow_split]; ring
  have hmant : 2 ^ 52 ≤ (divNat a b).m ∧ (divNat a b).m < 2 ^ 53 := by
    rw [heq]
    split
    · exact ⟨Nat.le_refl _, by show 2 ^ 52 < 2 ^ 53; decide⟩
    · rename_i hm; exact ⟨hm1, by show m < 2 ^ 53; omega⟩
  refine ⟨hmant.1, hmant.2, ?_⟩
  rw [hval]
  have c1' : (2 : ℚ) * (m * 2 ^ d * (b * 2 ^ k2)) ≤ 2 * (a * 2 ^ k1) + 2 ^ d * (b * 2 ^ k2) := by
    exact_mod_cast c1
  have c2' : (2 : ℚ) * (a * 2 ^ k1) ≤ 2 * (m * 2 ^ d * (b * 2 ^ k2)) + 2 ^ d * (b * 2 ^ k2) := by
    exact_mod_cast c2
  have hm1' : (2 : ℚ) ^ 52 ≤ m := by exact_mod_cast hm1
  have hb' : (0 : ℚ) < b := by exact_mod_cast hb
  generalize hP : (2 : ℚ) ^ d = P at *
  have hK : (0 : ℚ) < 2 ^ k1 := by positivity
  have hQ : (0 : ℚ) < 2 ^ k2 := by positivity
  generalize (2 : ℚ) ^ k1 = K at *
  generalize (2 : ℚ) ^ k2 = Q at *
  generalize (a : ℚ) = A at *
  generalize (b : ℚ) = B at *
  generalize (m : ℚ) = M at *
  have hPBQ : 0 ≤ P * (B * Q) := by
    have : (0 : ℚ) ≤ P := by rw [← hP]; positivity
    positivity
  have hx := mul_nonneg (sub_nonneg.2 hm1') hPBQ
  have hden : (0 : ℚ) < B * K * 2 ^ 53 := by positivity
  rw [abs_le]
  constructor
  · rw [← sub_nonneg]
    have e : M * P * Q / K - A / B - -(M * P * Q / K / 2 ^ 53)
        = (M * P * (B * Q) * 2 ^ 53 - A * K * 2 ^ 53 + M * P * (B * Q)) / (B * K * 2 ^ 53) := by
      field_simp
      ring
    rw [e]
    apply div_nonneg _ hden.le
    nlinarith
  · rw [← sub_nonneg]
    have e : M * P * Q / K / 2 ^ 53 - (M * P * Q / K - A / B)
        = (M * P * (B * Q) + A * K * 2 ^ 53 - M * P * (B * Q) * 2 ^ 53) / (B * K * 2 ^ 53) := by
      field_simp
      ring
    rw [e]
    apply div_nonneg _ hden.le
    nlinarith


theorem two_zpow_pos (e : Int) : (0 : ℚ) < 2 ^ e := zpow_pos (by norm_num) e

theorem F.val_pos {x : F} (h : 0 < x.m) : 0 < x.val := by
  unfold F.val
  have : (0 : ℚ) < x.m := by exact_mod_cast h
  exact mul_pos this (two_zpow_pos _)

theorem F.val_nonneg (x : F) : 0 ≤ x.val := by
  unfold F.val
  exact mul_nonneg (by positivity) (two_zpow_pos _).le

theorem divNat_pos (a b : Nat) (ha : 0 < a) (hb : 0 < b) : 0 < (divNat a b).m := by
  have := (divNat_spec a b ha hb).1
  have : 0 < 2 ^ 52 := by decide
  omega

/-- integers below `2^53` convert exactly -/
theorem ofNat_exact (n : Nat) (h0 : 0 < n) (h : n < 2 ^ 53) :
    (ofNat n).val = n ∧ 0 < (ofNat n).m := by
  have hla : Nat.log2 n ≤ 52 := by
    have : Nat.log2 n < 53 := (Nat.log2_lt (by omega)).2 h
    omega
  rw [ofNat_small n h0 h]
  constructor
  · simp only [F.val]
    have : ((Nat.log2 n : Int) - 52) = -((52 - Nat.log2 n : Nat) : Int) := by omega
    rw [this, zpow_neg, zpow_natCast]
    push_cast
    field_simp
  · exact Nat.mul_pos h0 (Nat.pow_pos (by decide))

/-- every positive integer converts with relative error at most `2^-53` -/
theorem ofNat_spec (n : Nat) (h0 : 0 < n) :
    0 < (ofNat n).m ∧ |(ofNat n).val - n| ≤ (ofNat n).val / 2 ^ 53 := by
  have h := divNat_spec n 1 h0 (by decide)
  refine ⟨divNat_pos n 1 h0 (by decide), ?_⟩
  have := h.2.2
  simpa [ofNat] using this

/-- correctly rounded quotient of two doubles -/
theorem div_spec (x y : F) (hx : 0 < x.m) (hy : 0 < y.m) :
    0 < (div x y).m ∧ |(div x y).val - x.val / y.val| ≤ (div x y).val / 2 ^ 53 := by
  have hq := divNat_spec x.m y.m hx hy
  have hqpos := divNat_pos x.m y.m hx hy
  unfold div
  simp only []
  rw [if_neg (by omega)]
  refine ⟨hqpos, ?_⟩
  have h2 := hq.2.2
  simp only [F.val] at h2 ⊢
  have hxm : (0 : ℚ) < x.m := by exact_mod_cast hx
  have hym : (0 : ℚ) < y.m := by exact_mod_cast hy
  rw [zpow_sub₀ two_ne_zero, zpow_add₀ two_ne_zero]
  have hX : (0 : ℚ) < 2 ^ x.e := two_zpow_pos _
  have hY : (0 : ℚ) < 2 ^ y.e := two_zpow_pos _
  generalize (2 : ℚ) ^ x.e = X at *
  generalize (2 : ℚ) ^ y.e = Y at *
  generalize hV : ((divNat x.m y.m).m : ℚ) * 2 ^ (divNat x.m y.m).e = V at *
  have e1 : V * X / Y - x.m * X / (y.m * Y) = (V - x.m / y.m) * (X / Y) := by
    field_simp
  have e2 : V * X / Y / 2 ^ 53 = V / 2 ^ 53 * (X / Y) := by ring
  have hc : (0 : ℚ) < X / Y := by positivity
  have : ((divNat x.m y.m).m : ℚ) * (2 ^ (divNat x.m y.m).e * X / Y) = V * X / Y := by
    rw [← hV]; ring
  rw [this, e1, e2, abs_mul, abs_of_pos hc]
  exact mul_le_mul_of_nonneg_right h2 hc.le


/-! ### float → integer -/

theorem val_of_nonneg_exp {x : F} (h : x.e ≥ 0) : x.val = ((x.m * 2 ^ x.e.toNat : Nat) : ℚ) := by
  unfold F.val
  have : x.e = (x.e.toNat : Int) := by omega
  have e : (2 : ℚ) ^ x.e = 2 ^ x.e.toNat := by
    rw [← zpow_natCast, ← this]
  rw [e]
  push_cast
  rfl

theorem val_of_neg_exp {x : F} (h : ¬ x.e ≥ 0) : x.val = (x.m : ℚ) / 2 ^ (-x.e).toNat := by
  unfold F.val
  have : x.e = -((-x.e).toNat : Int) := by omega
  have e : (2 : ℚ) ^ x.e = (2 ^ (-x.e).toNat)⁻¹ := by
    rw [← zpow_natCast, ← zpow_neg, ← this]
  rw [e, div_eq_mul_inv]

theorem floor_spec (x : F) : (floor x : ℚ) ≤ x.val ∧ x.val < floor x + 1 := by
  unfold floor
  split
  · rename_i h
    rw [val_of_nonneg_exp h]
    constructor
    · exact le_refl _
    · linarith
  · rename_i h
    rw [val_of_neg_exp h]
    generalize (-x.e).toNat = k
    have hk : (0 : ℚ) < 2 ^ k := by positivity
    have h1 := Nat.div_add_mod x.m (2 ^ k)
    have h2 := Nat.mod_lt x.m (Nat.pow_pos (n := k) (show 0 < 2 by decide))
    have h1' : ((2 : ℚ) ^ k) * ((x.m / 2 ^ k : Nat) : ℚ) + ((x.m % 2 ^ k : Nat) : ℚ) = x.m := by
      exact_mod_cast h1
    have h2' : ((x.m % 2 ^ k : Nat) : ℚ) < 2 ^ k := by exact_mod_cast h2
    have h3 : (0 : ℚ) ≤ ((x.m % 2 ^ k : Nat) : ℚ) := by positivity
    constructor
    · rw [le_div_iff₀ hk]; nlinarith
    · rw [div_lt_iff₀ hk]; nlinarith

theorem within_half (R m k : Nat) (h1 : 2 * (R * 2 ^ k) ≤ 2 * m + 2 ^ k)
    (h2 : 2 * m ≤ 2 * (R * 2 ^ k) + 2 ^ k) : |(R : ℚ) - (m : ℚ) / 2 ^ k| ≤ 1 / 2 := by
  have hk : (0 : ℚ) < 2 ^ k := by positivity
  have h1' : (2 : ℚ) * (R * 2 ^ k) ≤ 2 * m + 2 ^ k := by exact_mod_cast h1
  have h2' : (2 : ℚ) * m ≤ 2 * (R * 2 ^ k) + 2 ^ k := by exact_mod_cast h2
  have a : (m : ℚ) / 2 ^ k ≤ R + 1 / 2 := by rw [div_le_iff₀ hk]; nlinarith
  have b : (R : ℚ) - 1 / 2 ≤ (m : ℚ) / 2 ^ k := by rw [le_div_iff₀ hk]; nlinarith
  rw [abs_le]
  constructor <;> linarith

theorem roundHalfEven_spec (x : F) : |(roundHalfEven x : ℚ) - x.val| ≤ 1 / 2 := by
  unfold roundHalfEven
  split
  · rename_i h
    rw [val_of_nonneg_exp h, sub_self, abs_zero]; norm_num
  · rename_i h
    rw [val_of_neg_exp h]
    have hk : 0 < (-x.e).toNat := by omega
    generalize (-x.e).toNat = k at *
    have := shiftRNE_core x.m k 1 0 false hk (by decide) (by simp)
    simp only [Nat.mul_one, Nat.add_zero] at this
    exact within_half _ _ _ this.1 this.2.1

theorem roundHalfAway_spec (x : F) : |(roundHalfAway x : ℚ) - x.val| ≤ 1 / 2 := by
  unfold roundHalfAway
  split
  · rename_i h
    rw [val_of_nonneg_exp h, sub_self, abs_zero]; norm_num
  · rename_i h
    rw [val_of_neg_exp h]
    have hk : 0 < (-x.e).toNat := by omega
    simp only []
    generalize (-x.e).toNat = k at *
    have := roundAway_core x.m k hk
    exact within_half _ _ _ this.1 this.2

/-- a natural within `1/2` of a value that is within `< 1/2` of the natural `S` is `S` -/
theorem nat_eq_of_close {R S : Nat} {v : ℚ} (h1 : |(R : ℚ) - v| ≤ 1 / 2) (h2 : |v - S| < 1 / 2) :
    R = S := by
  rw [abs_le] at h1
  rw [abs_lt] at h2
  have a : (R : ℚ) < S + 1 := by linarith
  have b : (S : ℚ) < R + 1 := by linarith
  have a' : R < S + 1 := by exact_mod_cast a
  have b' : S < R + 1 := by exact_mod_cast b
  omega

end Sm.F64
