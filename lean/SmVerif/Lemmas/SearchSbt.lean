/-
C06, `SBT.find` on trees of flat scaled sketches: how the query and the leaves are prepared
(`sbtPrepare_flat`), that the score of a leaf is the specification score of the pair
(`leafScore_flat`), and that the sizes it feeds to the score function are bounded by what the
container invariant speaks about (`LeafOK`).
-/
import SmVerif.Lemmas.SearchTree
import Mathlib.Data.List.Perm.Subperm

namespace Sm.Search

open Sm F64

theorem sorted_nodup {l : List Nat} (h : Sorted l) : l.Nodup :=
  List.Pairwise.imp (fun hab => Nat.ne_of_lt hab) h

/-- the number of elements of a duplicate-free list that lie in another list is at most the
length of that list -/
theorem length_filter_mem_le {Q D : List Nat} (hQ : Sorted Q) :
    (Q.filter (fun z => decide (z ∈ D))).length ≤ D.length := by
  have hnd : (Q.filter (fun z => decide (z ∈ D))).Nodup := (sorted_nodup hQ).sublist List.filter_sublist
  have hsub : Q.filter (fun z => decide (z ∈ D)) ⊆ D := by
    intro z hz
    have := (List.mem_filter.1 hz).2
    simpa using this
  exact (List.subperm_of_subset hnd hsub).length_le

/-- how `SBT.find` prepares the query for a tree of scaled `St` sketches -/
theorem sbtPrepare_flat {first q : MH} {St Sq : Nat} (hf : Flat first St) (hq : Flat q Sq) :
    ∃ c, sbtPrepare first q = .ok c ∧ Flat c.query (max Sq St) ∧
      c.query.mins = q.mins.filter (fun x => decide (x ≤ mhR (max Sq St))) ∧
      c.querySize = c.query.mins.length ∧
      c.query.ksize = q.ksize ∧ c.query.hf = q.hf ∧ c.query.seed = q.seed ∧
      c.leafNum = none ∧ c.leafScaled = (if Sq ≤ St then none else some Sq) := by
  unfold sbtPrepare
  simp only []
  rw [hf.scaledProp, hq.scaledProp]
  rw [if_pos (by have := hf.lo; omega), if_neg (by have := hq.lo; omega)]
  by_cases hlt : Sq < St
  · obtain ⟨r, h1, h2, h3, h4⟩ := downsample_flat hq (Nat.le_of_lt hlt) hf.hi
    have hmax : max Sq St = St := Nat.max_eq_right (Nat.le_of_lt hlt)
    rw [if_pos hlt, h1]
    simp only [liftE]
    refine ⟨_, rfl, ?_, ?_, rfl, h4.1, h4.2.1, h4.2.2, rfl, ?_⟩
    · rw [hmax]; exact h2
    · rw [hmax]; exact h3
    · simp only [hmax, if_true]
      rw [if_pos (Nat.le_of_lt hlt)]
  · rw [if_neg hlt]
    simp only []
    have hmax : max Sq St = Sq := Nat.max_eq_left (by omega)
    refine ⟨_, rfl, ?_, ?_, rfl, rfl, rfl, rfl, rfl, ?_⟩
    · rw [hmax]; exact hq
    · rw [hmax]; exact hq.filter_self.symm
    · simp only [hmax]
      by_cases he : Sq = St
      · rw [if_pos he, if_pos (by omega)]
      · rw [if_neg he, if_neg (by omega)]

/-- the score `node_search` gives a flat leaf is the specification score of the pair, and its
ingredients satisfy `LeafOK` -/
theorem leafScore_flat {c : SbtCtx} {q s : MH} {St Sq : Nat} (m : Mode)
    (hc : Flat c.query (max Sq St))
    (hcm : c.query.mins = q.mins.filter (fun x => decide (x ≤ mhR (max Sq St))))
    (hcs : c.querySize = c.query.mins.length)
    (hck : c.query.ksize = q.ksize) (hch : c.query.hf = q.hf) (hcse : c.query.seed = q.seed)
    (hln : c.leafNum = none) (hls : c.leafScaled = (if Sq ≤ St then none else some Sq))
    (hs : Flat s St) (hSq : Sq ≤ 2 ^ 31)
    (hk : q.ksize = s.ksize) (hh : q.hf = s.hf) (hse : q.seed = s.seed) :
    c.leafScore m s = .ok (specScore m Sq St q.mins s.mins) ∧ LeafOK c m s := by
  -- the compared leaf
  have hleaf : ∃ s1, c.downsampleNode s = .ok s1 ∧ Flat s1 (max Sq St) ∧
      s1.mins = s.mins.filter (fun x => decide (x ≤ mhR (max Sq St))) ∧
      s1.ksize = s.ksize ∧ s1.hf = s.hf ∧ s1.seed = s.seed ∧ (Sq ≤ St → s1 = s) := by
    unfold SbtCtx.downsampleNode
    rw [hls, hln]
    by_cases hle : Sq ≤ St
    · have hmax : max Sq St = St := Nat.max_eq_right hle
      rw [if_pos hle, hmax]
      exact ⟨s, rfl, hs, hs.filter_self.symm, rfl, rfl, rfl, fun _ => rfl⟩
    · have hmax : max Sq St = Sq := Nat.max_eq_left (by omega)
      rw [if_neg hle, hmax]
      obtain ⟨r, h1, h2, h3, h4⟩ := downsample_flat hs (by omega : St ≤ Sq) hSq
      simp only []
      rw [h1]
      exact ⟨r, rfl, h2, h3, h4.1, h4.2.1, h4.2.2, fun h => absurd h hle⟩
  obtain ⟨s1, e1, f1, m1, k1, k2, k3, hsame⟩ := hleaf
  have hiu := iuSize_flat hc f1 (by rw [hck, k1, hk]) (by rw [hch, k2, hh]) (by rw [hcse, k3, hse])
  have hscore : c.leafScore m s = .ok (scoreFn m c.querySize
      (c.query.mins.filter (fun z => decide (z ∈ s1.mins))).length s1.mins.length
      (c.query.mins.length + s1.mins.length - (c.query.mins.filter (fun z => decide (z ∈ s1.mins))).length)) := by
    unfold SbtCtx.leafScore
    rw [e1]
    simp only []
    rw [flattenMH_flat f1]
    simp only []
    rw [hiu]
  refine ⟨?_, ?_⟩
  · rw [hscore, hcs]
    unfold specScore specSizes
    simp only []
    rw [hcm, m1]
  · refine ⟨_, _, _, hscore, ?_, length_filter_mem_le hc.inv.sorted, ?_, ?_⟩
    · apply length_filter_le_of_imp
      intro x hx
      have hx' : x ∈ s1.mins := by simpa using hx
      rw [m1] at hx'
      have := (List.mem_filter.1 hx').1
      simpa using this
    · have := (List.filter_sublist (l := c.query.mins) (p := fun z => decide (z ∈ s1.mins))).length_le
      omega
    · intro hnone
      by_cases hle : Sq ≤ St
      · rw [hsame hle]
      · rw [hls, if_neg hle] at hnone
        cases hnone

end Sm.Search
