/-
The name chains of a zip collection written by the (current) saver: `<md5>`, `<md5>_0`, `<md5>_1`, ... are
allocated contiguously and no two members hold the same content.  Consequences: equal signatures share
one member (so reloading yields the saved list with later exact duplicates removed, in order), and an
exact description of what a manifest rebuilt from the member names lists.
-/
import SmVerif.Lemmas.StorageZip

namespace Sm.Storage

structure ViewInv (V : Name → Option Content) : Prop where
  /-- `<md5>_k` exists only if `<md5>` and all `<md5>_j`, `j < k`, exist -/
  contiguous : ∀ md5 k, V (.sig ⟨md5, some k⟩) ≠ none →
    V (.sig ⟨md5, none⟩) ≠ none ∧ ∀ j, j < k → V (.sig ⟨md5, some j⟩) ≠ none
  /-- no two signature members with the same content -/
  unique : ∀ n1 n2 c, V (.sig n1) = some c → V (.sig n2) = some c → n1 = n2
  /-- a signature member holds one signature, under a name for that signature's md5 -/
  md5ok : ∀ n c, V (.sig n) = some c → ∃ s, c = .sigs [s] ∧ n.md5 = s.md5

theorem viewInv_congr_sig {V V' : Name → Option Content} (h : ∀ m, V' (.sig m) = V (.sig m))
    (inv : ViewInv V) : ViewInv V' := by
  refine ⟨?_, ?_, ?_⟩
  · intro md5 k hk
    rw [h] at hk
    obtain ⟨h1, h2⟩ := inv.contiguous md5 k hk
    exact ⟨by rw [h]; exact h1, fun j hj => by rw [h]; exact h2 j hj⟩
  · intro n1 n2 c h1 h2
    rw [h] at h1 h2
    exact inv.unique n1 n2 c h1 h2
  · intro n c hc
    rw [h] at hc
    exact inv.md5ok n c hc

theorem viewInv_empty : ViewInv (fun _ => none) :=
  ⟨fun _ _ h => absurd rfl h, fun _ _ _ h _ => (by cases h), fun _ _ h => (by cases h)⟩

/-- writing `ss` under the name `_generate_filename` hands out keeps the chains in shape -/
theorem viewInv_update (V : Name → Option Content) (inv : ViewInv V) (ss : Sig) (sfx : Option Nat)
    (hfree : V (.sig ⟨ss.md5, sfx⟩) = none)
    (hchain : ∀ k, sfx = some k →
      (∃ d, V (.sig ⟨ss.md5, none⟩) = some d ∧ d ≠ .sigs [ss]) ∧
      ∀ j, j < k → ∃ d, V (.sig ⟨ss.md5, some j⟩) = some d ∧ d ≠ .sigs [ss]) :
    ViewInv (fun n => if n = .sig ⟨ss.md5, sfx⟩ then some (.sigs [ss]) else V n) := by
  have hmono : ∀ n, V n ≠ none → (if n = Name.sig ⟨ss.md5, sfx⟩ then some (Content.sigs [ss]) else V n) ≠ none := by
    intro n hn
    by_cases e : n = .sig ⟨ss.md5, sfx⟩
    · simp [e]
    · simpa [e] using hn
  -- a member different from the new one that holds [ss] cannot exist
  have hnone : ∀ n2 : MName, n2 ≠ ⟨ss.md5, sfx⟩ → V (.sig n2) = some (.sigs [ss]) → False := by
    intro n2 hne h2
    obtain ⟨s, hs, hmd5⟩ := inv.md5ok n2 _ h2
    have hs' : s = ss := by injection hs with hs; simpa using hs.symm
    subst hs'
    obtain ⟨m2, s2⟩ := n2
    simp only at hmd5
    subst hmd5
    cases sfx with
    | none =>
      cases s2 with
      | none => exact hne rfl
      | some k2 =>
        have := (inv.contiguous s.md5 k2 (by rw [h2]; simp)).1
        exact this hfree
    | some k =>
      obtain ⟨⟨d0, hd0, hne0⟩, hlt⟩ := hchain k rfl
      cases s2 with
      | none => rw [hd0] at h2; injection h2 with h2; exact hne0 h2
      | some k2 =>
        by_cases c1 : k2 < k
        · obtain ⟨d, hd, hned⟩ := hlt k2 c1
          rw [hd] at h2; injection h2 with h2; exact hned h2
        · by_cases c2 : k2 = k
          · subst c2; exact hne rfl
          · have := (inv.contiguous s.md5 k2 (by rw [h2]; simp)).2 k (by omega)
            exact this hfree
  refine ⟨?_, ?_, ?_⟩
  · intro md5 k hk
    have hV : V (.sig ⟨md5, none⟩) ≠ none ∧ ∀ j, j < k → V (.sig ⟨md5, some j⟩) ≠ none := by
      by_cases e : (Name.sig ⟨md5, some k⟩) = .sig ⟨ss.md5, sfx⟩
      · injection e with e
        injection e with e1 e2
        subst e1
        obtain ⟨⟨d0, hd0, _⟩, hlt⟩ := hchain k e2.symm
        refine ⟨by rw [hd0]; simp, ?_⟩
        intro j hj
        obtain ⟨d, hd, _⟩ := hlt j hj
        rw [hd]; simp
      · simp only [e, if_false] at hk
        exact inv.contiguous md5 k hk
    exact ⟨hmono _ hV.1, fun j hj => hmono _ (hV.2 j hj)⟩
  · intro n1 n2 c h1 h2
    by_cases e1 : (Name.sig n1) = .sig ⟨ss.md5, sfx⟩
    · by_cases e2 : (Name.sig n2) = .sig ⟨ss.md5, sfx⟩
      · injection e1 with e1; injection e2 with e2; rw [e1, e2]
      · simp only [e1, if_true, Option.some.injEq] at h1
        simp only [e2, if_false] at h2
        subst h1
        exact absurd h2 (fun h => hnone n2 (fun e => e2 (by rw [e])) h)
    · by_cases e2 : (Name.sig n2) = .sig ⟨ss.md5, sfx⟩
      · simp only [e2, if_true, Option.some.injEq] at h2
        simp only [e1, if_false] at h1
        subst h2
        exact absurd h1 (fun h => hnone n1 (fun e => e1 (by rw [e])) h)
      · simp only [e1, if_false] at h1
        simp only [e2, if_false] at h2
        exact inv.unique n1 n2 c h1 h2
  · intro n c hc
    by_cases e : (Name.sig n) = .sig ⟨ss.md5, sfx⟩
    · simp only [e, if_true, Option.some.injEq] at hc
      injection e with e
      exact ⟨ss, hc.symm, by rw [e]⟩
    · simp only [e, if_false] at hc
      exact inv.md5ok n c hc

/-- what the saver state carries besides `SInv` -/
structure XInv (s : ZipSaver) : Prop where
  mode : ModeOK s.st
  vi : ViewInv (view s.st)
  nd : (names s.st.zf).Nodup

theorem xinv_add (s : ZipSaver) (ss : Sig) (inv : XInv s) : XInv (s.add ss) := by
  obtain ⟨m, hm, _, hmode, _, _, hcase, hnd, hchain⟩ := add_spec s ss inv.mode
  refine ⟨hmode, ?_, hnd inv.nd⟩
  rcases hcase with ⟨_, hv⟩ | ⟨hfree, hv⟩
  · have : view (s.add ss).st = view s.st := funext hv
    rw [this]; exact inv.vi
  · obtain ⟨md5, sfx⟩ := m
    simp only at hm
    subst hm
    have := viewInv_update (view s.st) inv.vi ss sfx hfree (fun k hk => hchain k hk)
    have e : view (s.add ss).st = fun n => if n = .sig ⟨ss.md5, sfx⟩ then some (.sigs [ss]) else view s.st n :=
      funext hv
    rw [e]; exact this

theorem xinv_fold (l : List Sig) : ∀ s : ZipSaver, XInv s → XInv (l.foldl ZipSaver.add s) := by
  induction l with
  | nil => intro s h; exact h
  | cons ss rest ih => intro s h; exact ih _ (xinv_add s ss h)

/-- a zip on disk written by the saver -/
structure GoodX (z : Zip) : Prop where
  vi : ViewInv (read z)
  nd : (names z).Nodup

theorem xinv_open_none : XInv { st := { zf := [], buf := none }, rows := [] } := by
  refine ⟨by simp [ModeOK], ?_, by simp [names]⟩
  have : view { zf := [], buf := none } = fun _ => none := by funext n; simp [view, read]
  rw [this]; exact viewInv_empty

theorem xinv_open_some (z : Zip) (rows : List Row) (hz : GoodX z) :
    XInv { st := { zf := z, buf := some [] }, rows := rows } := by
  refine ⟨by simp [ModeOK, names, read], ?_, hz.nd⟩
  have : view { zf := z, buf := some [] } = read z := by funext n; simp [view, read]
  rw [this]; exact hz.vi

theorem goodX_close (s : ZipSaver) (inv : XInv s) : GoodX s.close := by
  refine ⟨?_, ?_⟩
  · apply viewInv_congr_sig _ inv.vi
    intro m
    rw [read_close s inv.mode]
    simp
  · unfold ZipSaver.close RwZip.flush
    have h1 := save_zf_nodup s.st (.manifest, true) (.manifest s.rows) inv.nd
    cases hb : (s.st.save (.manifest, true) (.manifest s.rows)).1.buf with
    | none => simpa [hb] using h1
    | some b => simpa [hb] using names_unionZip_nodup b _ h1

theorem zipSession_goodX (disk : Option Zip) (hd : ∀ z, disk = some z → GoodX z) (l : List Sig) (z' : Zip)
    (h : zipSession disk l = .ok z') : GoodX z' := by
  unfold zipSession at h
  cases ho : ZipSaver.open disk with
  | err e => rw [ho] at h; cases h
  | ok s =>
    rw [ho] at h
    simp only at h
    injection h with h
    rw [← h]
    have hs : XInv s := by
      cases disk with
      | none =>
        simp only [ZipSaver.open] at ho
        injection ho with ho
        rw [← ho]; exact xinv_open_none
      | some z =>
        simp only [ZipSaver.open] at ho
        split at ho
        · injection ho with ho; rw [← ho]; exact xinv_open_some z _ (hd z rfl)
        · cases ho
    exact goodX_close _ (xinv_fold l _ hs)

theorem zipSessions_goodX (sessions : List (List Sig)) : ∀ (disk : Option Zip), (∀ z, disk = some z → GoodX z) →
    ∀ z', zipSessions disk sessions = .ok (some z') → GoodX z' := by
  induction sessions with
  | nil =>
    intro disk hd z' h
    simp only [zipSessions] at h
    injection h with h
    exact hd z' h
  | cons l rest ih =>
    intro disk hd z' h
    simp only [zipSessions] at h
    cases h1 : zipSession disk l with
    | ok z1 =>
      simp only [h1] at h
      exact ih (some z1) (fun z hz => by injection hz with hz; rw [← hz]; exact zipSession_goodX disk hd l z1 h1) z' h
    | err e => simp [h1] at h

/-! ### equal signatures share a member; reload = saved list without later duplicates -/

theorem placed_func (z : Zip) (placed : Placed) (hg : Good z placed) (hx : GoodX z) :
    ∀ p ∈ placed, ∀ q ∈ placed, p.2 = q.2 → p.1 = q.1 := by
  intro p hp q hq e
  have h1 := (hg.holds p hp).1
  have h2 := (hg.holds q hq).1
  rw [← e] at h2
  exact hx.vi.unique p.1 q.1 _ h1 h2

/-- `pick` for a member of a sub-collection `sub ⊆ placed` listed by `rows` -/
theorem pick_sub (z : Zip) (placed : Placed) (hg : Good z placed) (sub : Placed) (hsub : ∀ p ∈ sub, p ∈ placed)
    (rows : List Row) (hin : ∀ p ∈ sub, inManifest rows p.2 = true) (p : MName × Sig) (hp : p ∈ sub) :
    pick z rows (some (.sig p.1)) = [p.2] := by
  simp [pick, (hg.holds p (hsub p hp)).1, hin p hp]

theorem filter_flatMap_pick (z : Zip) (placed : Placed) (hg : Good z placed)
    (hf : ∀ p ∈ placed, ∀ q ∈ placed, p.2 = q.2 → p.1 = q.1)
    (sub : Placed) (hsub : ∀ p ∈ sub, p ∈ placed) (rows : List Row) (hin : ∀ p ∈ sub, inManifest rows p.2 = true)
    (p : MName × Sig) (hp : p ∈ sub) :
    ∀ L : List (Option Name), (∀ loc ∈ L, ∃ q ∈ sub, loc = some (.sig q.1)) →
      (L.filter (· ≠ some (Name.sig p.1))).flatMap (pick z rows) =
        (L.flatMap (pick z rows)).filter (· ≠ p.2) := by
  intro L
  induction L with
  | nil => intro _; rfl
  | cons loc rest ih =>
    intro hL
    obtain ⟨q, hq, e⟩ := hL loc (by simp)
    subst e
    have ih' := ih (fun l hl => hL l (by simp [hl]))
    have hpick := pick_sub z placed hg sub hsub rows hin q hq
    by_cases hqp : q.1 = p.1
    · have hsig : q.2 = p.2 := by
        have h1 := (hg.holds q (hsub q hq)).1
        have h2 := (hg.holds p (hsub p hp)).1
        rw [hqp, h2] at h1
        simpa using h1.symm
      simp only [List.filter_cons, hqp, ne_eq, not_true_eq_false, decide_false, Bool.false_eq_true,
        if_false, List.flatMap_cons, List.filter_append]
      rw [← hqp, hpick, ← ih']
      simp [hsig, hqp]
    · have hsig : q.2 ≠ p.2 := fun e => hqp (hf q (hsub q hq) p (hsub p hp) e)
      have hloc : (some (Name.sig q.1) ≠ some (Name.sig p.1)) := by
        intro e; injection e with e; injection e with e; exact hqp e
      simp only [List.filter_cons, hloc, ne_eq, not_false_eq_true, decide_true, if_true,
        List.flatMap_cons, List.filter_append, hpick]
      rw [ih']
      simp [hsig]

theorem flatMap_pick_dedup (z : Zip) (placed : Placed) (hg : Good z placed)
    (hf : ∀ p ∈ placed, ∀ q ∈ placed, p.2 = q.2 → p.1 = q.1)
    (sub : Placed) (hsub : ∀ p ∈ sub, p ∈ placed) (rows : List Row) (hin : ∀ p ∈ sub, inManifest rows p.2 = true) :
    ∀ l : Placed, (∀ p ∈ l, p ∈ sub) →
      (dedup (l.map fun p => some (Name.sig p.1))).flatMap (pick z rows) = dedup (l.map (·.2)) := by
  intro l
  induction l with
  | nil => intro _; rfl
  | cons p t ih =>
    intro hl
    have hp := hl p (by simp)
    have ih' := ih (fun q hq => hl q (by simp [hq]))
    simp only [List.map_cons, dedup, List.flatMap_cons]
    rw [pick_sub z placed hg sub hsub rows hin p hp]
    have := filter_flatMap_pick z placed hg hf sub hsub rows hin p hp (dedup (t.map fun p => some (Name.sig p.1)))
      (by
        intro loc hloc
        rw [mem_dedup] at hloc
        simp only [List.mem_map] at hloc
        obtain ⟨q, hq, e⟩ := hloc
        exact ⟨q, hl q (by simp [hq]), e.symm⟩)
    rw [this, ih']
    rfl

/-- loading the sub-collection `sub ⊆ placed` through its own rows -/
theorem loadSub_dedup (z : Zip) (placed : Placed) (hg : Good z placed) (hx : GoodX z)
    (sub : Placed) (hsub : ∀ p ∈ sub, p ∈ placed) :
    loadLocs z (sub.map rowOf) (locations (sub.map rowOf)) = .ok (dedup (sub.map (·.2))) := by
  have hf := placed_func z placed hg hx
  have hlocs : (sub.map rowOf).map (·.loc) = sub.map (fun p => some (Name.sig p.1)) := by
    simp [List.map_map, Function.comp, rowOf, mkRow]
  simp only [locations, hlocs]
  rw [loadLocs_ok]
  · rw [flatMap_pick_dedup z placed hg hf sub hsub (sub.map rowOf) (fun p hp => inManifest_placed sub p hp)
      sub (fun p hp => hp)]
  · intro loc hl
    rw [mem_dedup] at hl
    simp only [List.mem_map] at hl
    obtain ⟨p, hp, e⟩ := hl
    exact ⟨_, _, e.symm, (hg.holds p (hsub p hp)).1, by simp [inManifest_placed sub p hp]⟩

/-- reloading a zip written by the saver yields the saved signatures in save order, each once -/
theorem zipLoad_good_dedup (z : Zip) (placed : Placed) (hg : Good z placed) (hx : GoodX z) :
    zipLoad z = .ok (dedup (placed.map (·.2))) := by
  simp only [zipLoad, hg.manifest]
  exact loadSub_dedup z placed hg hx placed (fun p hp => hp)

/-! ### selecting by picklist; standalone manifests and path lists -/

def pickKey (full : Bool) (p : MName × Sig) : Nat × Nat := sigKey full p.2

theorem rowKey_rowOf (full : Bool) (p : MName × Sig) : rowKey full (rowOf p) = pickKey full p := by
  cases full <;> rfl

theorem rowKey_relocated (full : Bool) (q : MName × Sig) (k : Nat) :
    rowKey full { rowOf q with loc := some (.other k) } = pickKey full q := by
  cases full <;> rfl

theorem zipSelectLoad_good (full : Bool) (z : Zip) (placed : Placed) (hg : Good z placed) (hx : GoodX z)
    (picks : List (Nat × Nat)) :
    zipSelectLoad full z picks = .ok (dedup ((placed.filter fun p => picks.contains (pickKey full p)).map (·.2))) := by
  have hrows : (placed.map rowOf).filter (fun r => picks.contains (rowKey full r)) =
      (placed.filter fun p => picks.contains (pickKey full p)).map rowOf := by
    rw [List.filter_map]
    congr 1
  simp only [zipSelectLoad, hg.manifest, hrows]
  exact loadSub_dedup z placed hg hx _ (fun p hp => (List.mem_filter.1 hp).1)

/-- a standalone manifest listing the part `P` of ONE zip collection (rows relocated to the collection's
    path `k`), under the exclusion C12.3: no signature outside `P` shares (name, md5[:8]) with one inside.
    Reloading through the manifest yields exactly the listed signatures (in the zip's order, each once). -/
theorem standalone_zip_part (full : Bool) (z : Zip) (placed : Placed) (hg : Good z placed) (hx : GoodX z) (k : Nat)
    (P : MName × Sig → Bool)
    (hexcl : ∀ p ∈ placed, ∀ q ∈ placed, P q = true → pickKey full q = pickKey full p → P p = true)
    (hne : placed.filter P ≠ []) :
    standaloneLoadFs full [(k, z)] (relocate k ((placed.filter P).map rowOf)) =
      .ok (dedup ((placed.filter P).map (·.2))) := by
  have hlocs : locations (relocate k ((placed.filter P).map rowOf)) = [some (.other k)] := by
    cases hf : placed.filter P with
    | nil => exact absurd hf hne
    | cons a t =>
      simp only [locations, relocate, List.map_cons, List.map_map, dedup]
      congr 1
      have : ∀ l : List (MName × Sig), (dedup (l.map ((fun r : Row => r.loc) ∘ (fun r => { r with loc := some (.other k) }) ∘ rowOf))).filter
          (· ≠ some (Name.other k)) = [] := by
        intro l
        rw [List.filter_eq_nil_iff]
        intro x hx
        rw [mem_dedup] at hx
        simp only [List.mem_map, Function.comp] at hx
        obtain ⟨q, _, e⟩ := hx
        simp [← e]
      simpa [Function.comp] using this t
  have hpicks : ∀ p ∈ placed, (picklistOf full (relocate k ((placed.filter P).map rowOf))).contains (pickKey full p) = P p := by
    intro p hp
    have hmem : pickKey full p ∈ picklistOf full (relocate k ((placed.filter P).map rowOf)) ↔ P p = true := by
      simp only [picklistOf, relocate, List.map_map, List.mem_map, Function.comp, List.mem_filter,
        rowKey_relocated]
      constructor
      · rintro ⟨q, ⟨hq, hPq⟩, e⟩
        exact hexcl p hp q hq hPq e
      · intro hPp
        exact ⟨p, ⟨hp, hPp⟩, rfl⟩
    cases hP : P p with
    | true => simpa using hmem.2 hP
    | false =>
      have : ¬ pickKey full p ∈ picklistOf full (relocate k ((placed.filter P).map rowOf)) := by
        intro h; rw [hmem.1 h] at hP; cases hP
      simpa using this
  have hfilter : (placed.filter fun p => (picklistOf full (relocate k ((placed.filter P).map rowOf))).contains (pickKey full p))
      = placed.filter P := by
    apply List.filter_congr
    intro p hp
    exact hpicks p hp
  simp only [standaloneLoadFs, hlocs, List.map_cons, List.map_nil, fsLookup, if_true,
    zipSelectLoad_good full z placed hg hx, hfilter, concatRes, List.append_nil]

/-- a path list naming collections: the concatenation of their generic loads -/
theorem pathlist_single (z : Zip) (k : Nat) (out : List Sig) (h : zipLoad z = .ok out) :
    pathlistLoadFs [(k, z)] [k] = .ok out := by
  simp [pathlistLoadFs, fsLookup, h, concatRes]

theorem pathlist_pair (z1 z2 : Zip) (k1 k2 : Nat) (hk : k1 ≠ k2) (o1 o2 : List Sig)
    (h1 : zipLoad z1 = .ok o1) (h2 : zipLoad z2 = .ok o2) :
    pathlistLoadFs [(k1, z1), (k2, z2)] [k1, k2] = .ok (o1 ++ o2) := by
  simp [pathlistLoadFs, fsLookup, h1, h2, concatRes, hk]

/-! ### what a manifest rebuilt from the member names lists -/

theorem mem_zipRebuildManifest (z : Zip) (placed : Placed) (hg : Good z placed) (hx : GoodX z) (r : Row) :
    r ∈ zipRebuildManifest z ↔ ∃ p ∈ placed, p.1.suffix = none ∧ r = rowOf p := by
  unfold zipRebuildManifest
  simp only [List.mem_flatMap]
  constructor
  · rintro ⟨e, he, hr⟩
    obtain ⟨n, c⟩ := e
    have hread := read_of_mem hx.nd he
    cases n with
    | manifest => simp at hr
    | other k => simp at hr
    | sig m =>
      obtain ⟨md5, sfx⟩ := m
      cases sfx with
      | some k => simp at hr
      | none =>
        obtain ⟨p, hp, e1⟩ := hg.noOrphan _ _ hread
        have h2 := (hg.holds p hp).1
        rw [e1, hread] at h2
        injection h2 with h2
        subst h2
        simp only [List.mem_map, List.mem_singleton] at hr
        obtain ⟨s, hs, hr⟩ := hr
        subst hs
        refine ⟨p, hp, by rw [e1], ?_⟩
        rw [← hr, rowOf, e1]
  · rintro ⟨p, hp, hsfx, rfl⟩
    have hread := (hg.holds p hp).1
    refine ⟨(.sig p.1, .sigs [p.2]), mem_of_read hread, ?_⟩
    obtain ⟨⟨md5, sfx⟩, s⟩ := p
    simp only at hsfx
    subst hsfx
    simp [rowOf]

/-- a member with a `_k` suffix exists only next to a DIFFERENT signature with the same md5 -/
theorem suffix_needs_twin (z : Zip) (placed : Placed) (hg : Good z placed) (hx : GoodX z)
    (p : MName × Sig) (hp : p ∈ placed) (k : Nat) (hk : p.1.suffix = some k) :
    ∃ q ∈ placed, q.1 = ⟨p.2.md5, none⟩ ∧ q.2.md5 = p.2.md5 ∧ q.2 ≠ p.2 := by
  have hread := (hg.holds p hp).1
  have hmd5 := (hg.holds p hp).2
  obtain ⟨⟨md5, sfx⟩, s⟩ := p
  simp only at hk hmd5 hread
  subst hk; subst hmd5
  have h0 := (hx.vi.contiguous s.md5 k (by rw [hread]; simp)).1
  cases h : read z (.sig ⟨s.md5, none⟩) with
  | none => exact absurd h h0
  | some c =>
    obtain ⟨q, hq, e1⟩ := hg.noOrphan _ _ h
    refine ⟨q, hq, e1, ?_, ?_⟩
    · rw [← (hg.holds q hq).2, e1]
    · intro e
      have h2 := (hg.holds q hq).1
      rw [e] at h2
      have := hx.vi.unique q.1 ⟨s.md5, some k⟩ _ h2 hread
      rw [e1] at this
      injection this with _ this
      cases this

end Sm.Storage
