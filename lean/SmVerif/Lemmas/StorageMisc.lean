/-
Directory output, the SQLite hash mapping, the SQLite tables, the LCA table: helper lemmas for C10.
-/
import SmVerif.Lemmas.StorageZip

namespace Sm.Storage

/-! ### directory output -/

theorem upsert_fresh (z : Zip) (n : Name) (c : Content) (h : read z n = none) :
    upsert z n c = z ++ [(n, c)] := by
  induction z with
  | nil => rfl
  | cons e t ih =>
    obtain ⟨k, d⟩ := e
    by_cases hk : k = n
    · subst hk; simp [read] at h
    · simp only [read, hk, if_false] at h
      simp [upsert, hk, ih h]

def dirEntry (p : MName × Sig) : Name × Content := (.sig p.1, .sigs [p.2])

/-- the name `SaveSignatures_Directory.add` picks does not exist yet (so nothing is ever overwritten),
    and it is `<md5>` or `<md5>_<i>` for the signature's md5 -/
theorem dirAdd_fresh (d : Dir) (ss : Sig) :
    ∃ m : MName, m.md5 = ss.md5 ∧ read d (.sig m) = none ∧ dirAdd d ss = d ++ [dirEntry (m, ss)] := by
  unfold dirAdd
  simp only
  by_cases h0 : d.has ⟨ss.md5, none⟩ = true
  · simp only [h0, if_true]
    have hbusy := searchFrom_not_busy (fun i => d.has ⟨ss.md5, some i⟩) (suffixesOf ss.md5 (names d))
      (by
        intro k hk
        apply mem_suffixesOf
        apply read_ne_none_mem
        simp only [Dir.has, Option.isSome_iff_ne_none] at hk
        exact hk)
      (d.length + 1) 0
      (by
        have h1 : ((suffixesOf ss.md5 (names d)).filter (fun k => 0 ≤ k)).length ≤ (suffixesOf ss.md5 (names d)).length :=
          List.length_filter_le _ _
        have h2 := length_suffixesOf_le ss.md5 (names d)
        have h3 : (names d).length = d.length := by simp [names]
        omega)
    have hfree : read d (.sig ⟨ss.md5, some (searchFrom (fun i => d.has ⟨ss.md5, some i⟩) (d.length + 1) 0)⟩) = none := by
      simp only [Dir.has] at hbusy
      cases hr : read d (.sig ⟨ss.md5, some (searchFrom (fun i => (read d (.sig ⟨ss.md5, some i⟩)).isSome) (d.length + 1) 0)⟩) with
      | none => simp only [Dir.has]; exact hr
      | some c => simp [hr] at hbusy
    exact ⟨_, rfl, hfree, upsert_fresh _ _ _ hfree⟩
  · simp only [h0]
    have hfree : read d (.sig ⟨ss.md5, none⟩) = none := by
      simp only [Dir.has] at h0
      cases hr : read d (.sig ⟨ss.md5, none⟩) with
      | none => rfl
      | some c => simp [hr] at h0
    exact ⟨_, rfl, hfree, upsert_fresh _ _ _ hfree⟩

theorem dir_fold (sigs : List Sig) : ∀ (placed : Placed), (placed.map (·.1)).Nodup →
    ∃ new : Placed, sigs.foldl dirAdd (placed.map dirEntry) = (placed ++ new).map dirEntry ∧
      new.map (·.2) = sigs ∧ ((placed ++ new).map (·.1)).Nodup ∧ ∀ p ∈ new, p.1.md5 = p.2.md5 := by
  induction sigs with
  | nil => intro placed h; exact ⟨[], by simp, rfl, by simpa using h, by simp⟩
  | cons ss rest ih =>
    intro placed hnd
    obtain ⟨m, hm, hfree, hadd⟩ := dirAdd_fresh (placed.map dirEntry) ss
    have hm_new : m ∉ placed.map (·.1) := by
      intro hin
      have : Name.sig m ∈ names (placed.map dirEntry) := by
        simp only [names, List.map_map, List.mem_map, Function.comp] at hin ⊢
        obtain ⟨p, hp, e⟩ := hin
        exact ⟨p, hp, by simp [dirEntry, e]⟩
      exact ((read_eq_none_iff _ _).1 hfree) this
    have hnd' : ((placed ++ [(m, ss)]).map (·.1)).Nodup := by
      simp only [List.map_append, List.map_cons, List.map_nil]
      rw [List.nodup_append]
      refine ⟨hnd, by simp, ?_⟩
      intro a ha b hb
      simp only [List.mem_singleton] at hb
      subst hb
      intro e; subst e; exact hm_new ha
    obtain ⟨new, h1, h2, h3, h4⟩ := ih (placed ++ [(m, ss)]) hnd'
    refine ⟨(m, ss) :: new, ?_, by simp [h2], by simpa [List.append_assoc] using h3, ?_⟩
    · simp only [List.foldl_cons, hadd]
      have : placed.map dirEntry ++ [dirEntry (m, ss)] = (placed ++ [(m, ss)]).map dirEntry := by simp
      rw [this, h1]; simp [List.append_assoc]
    · intro p hp
      simp only [List.mem_cons] at hp
      rcases hp with hp | hp
      · subst hp; exact hm
      · exact h4 p hp

theorem dirLoad_placed (placed : Placed) : dirLoad (placed.map dirEntry) = placed.map (·.2) := by
  induction placed with
  | nil => rfl
  | cons p t ih =>
    simp only [dirLoad, List.map_cons, List.flatMap_cons] at ih ⊢
    rw [ih]; rfl

theorem dirManifest_placed (placed : Placed) : dirManifest (placed.map dirEntry) = placed.map rowOf := by
  induction placed with
  | nil => rfl
  | cons p t ih =>
    simp only [dirManifest, List.map_cons, List.flatMap_cons] at ih ⊢
    rw [ih]; rfl

theorem insertByName_perm (e : Name × Content) (z : Zip) : (insertByName e z).Perm (e :: z) := by
  induction z with
  | nil => exact List.Perm.refl _
  | cons f t ih =>
    simp only [insertByName]
    by_cases h : nameLe e.1 f.1 = true
    · simp only [h, if_true]; exact List.Perm.refl _
    · simp only [h]
      exact (List.Perm.cons f ih).trans (List.Perm.swap e f t)

/-- reading a directory in file-name order is reading the same files -/
theorem dirSorted_perm (d : Dir) : (dirSorted d).Perm d := by
  induction d with
  | nil => exact List.Perm.refl _
  | cons e t ih =>
    simp only [dirSorted, List.foldr_cons]
    exact (insertByName_perm e _).trans (List.Perm.cons e ih)

theorem dirLoadSorted_perm (d : Dir) : (dirLoadSorted d).Perm (dirLoad d) := by
  unfold dirLoadSorted dirLoad
  exact List.Perm.flatMap_right _ (dirSorted_perm d)

/-- `sig cat --unique`: one signature per md5, the first one; nothing invented, every md5 kept -/
theorem mem_catUnique (l : List Sig) (s : Sig) : s ∈ catUnique l → s ∈ l := by
  induction l with
  | nil => intro h; cases h
  | cons a t ih =>
    intro h
    simp only [catUnique, List.mem_cons, List.mem_filter] at h
    rcases h with h | h
    · simp [h]
    · exact List.mem_cons_of_mem _ (ih h.1)

theorem catUnique_md5_nodup (l : List Sig) : ((catUnique l).map (·.md5)).Nodup := by
  induction l with
  | nil => simp [catUnique]
  | cons a t ih =>
    simp only [catUnique, List.map_cons, List.nodup_cons, List.mem_map, List.mem_filter]
    refine ⟨?_, ?_⟩
    · rintro ⟨s, ⟨_, hne⟩, e⟩
      simp only [ne_eq, decide_not, Bool.not_eq_eq_eq_not, Bool.not_true, decide_eq_false_iff_not] at hne
      exact hne e
    · rw [List.Nodup, List.pairwise_map] at ih ⊢
      exact List.Pairwise.filter _ ih

theorem catUnique_covers (l : List Sig) (s : Sig) (h : s ∈ l) : ∃ t ∈ catUnique l, t.md5 = s.md5 := by
  induction l with
  | nil => cases h
  | cons a t ih =>
    simp only [List.mem_cons] at h
    by_cases e : s.md5 = a.md5
    · exact ⟨a, by simp [catUnique], e.symm⟩
    · rcases h with h | h
      · subst h; exact absurd rfl e
      · obtain ⟨u, hu, hm⟩ := ih h
        refine ⟨u, ?_, hm⟩
        simp only [catUnique, List.mem_cons, List.mem_filter]
        right
        exact ⟨hu, by simp [hm, e]⟩

/-! ### the SQLite hash mapping -/

theorem convert_roundtrip (x : Nat) (h : x < 2 ^ 64) : convertHashFrom (convertHashTo x) = x := by
  unfold convertHashFrom convertHashTo maxSqliteInt
  by_cases hx : x > 2 ^ 63 - 1
  · simp only [hx, if_true]
    have : ((x : Int) - 2 ^ 64 < 0) := by omega
    simp only [this, if_true]
    omega
  · simp only [hx, if_false]
    have : ¬ ((x : Int) < 0) := by omega
    simp only [this, if_false]
    omega

theorem convert_range (x : Nat) (h : x < 2 ^ 64) :
    -(2 : Int) ^ 63 ≤ convertHashTo x ∧ convertHashTo x < (2 : Int) ^ 63 := by
  unfold convertHashTo maxSqliteInt
  by_cases hx : x > 2 ^ 63 - 1
  · simp only [hx, if_true]; omega
  · simp only [hx, if_false]; omega

theorem convert_nonneg_iff (x : Nat) (h : x < 2 ^ 64) : 0 ≤ convertHashTo x ↔ x ≤ maxSqliteInt := by
  unfold convertHashTo maxSqliteInt
  by_cases hx : x > 2 ^ 63 - 1
  · simp only [hx, if_true]; omega
  · simp only [hx, if_false]; omega

theorem convert_mono_low (x y : Nat) (hx : x ≤ maxSqliteInt) (hy : y ≤ maxSqliteInt) :
    convertHashTo x ≤ convertHashTo y ↔ x ≤ y := by
  unfold convertHashTo
  have h1 : ¬ x > maxSqliteInt := by omega
  have h2 : ¬ y > maxSqliteInt := by omega
  simp only [h1, h2, if_false]; omega

theorem convert_mono_high (x y : Nat) (hx : maxSqliteInt < x) (hy : maxSqliteInt < y) :
    convertHashTo x ≤ convertHashTo y ↔ x ≤ y := by
  unfold convertHashTo
  simp only [hx, hy, if_true]; omega

/-- across the sign boundary the order is reversed: a hash above 2^63-1 is stored below every hash
    up to 2^63-1 (this is why `hashval >= 0 AND hashval <= max_hash` is only used when
    `max_hash <= MAX_SQLITE_INT`) -/
theorem convert_cross (x y : Nat) (hx : x ≤ maxSqliteInt) (hy : maxSqliteInt < y) (hy2 : y < 2 ^ 64) :
    convertHashTo y < 0 ∧ 0 ≤ convertHashTo x := by
  unfold convertHashTo maxSqliteInt at *
  have h1 : ¬ x > 2 ^ 63 - 1 := by omega
  simp only [h1, hy, if_true, if_false]; omega

theorem convert_injective (x y : Nat) (hx : x < 2 ^ 64) (hy : y < 2 ^ 64)
    (h : convertHashTo x = convertHashTo y) : x = y := by
  rw [← convert_roundtrip x hx, ← convert_roundtrip y hy, h]

/-! ### rebuilding a flat sketch from its hashes -/

/-- strictly ascending flat hash list (abundance 1) -/
def FlatSorted : List (Nat × Nat) → Prop
  | [] => True
  | [(_, a)] => a = 1
  | (x, a) :: (y, b) :: t => a = 1 ∧ x < y ∧ FlatSorted ((y, b) :: t)

theorem flatSorted_tail {x : Nat × Nat} {t : List (Nat × Nat)} (h : FlatSorted (x :: t)) : FlatSorted t := by
  cases t with
  | nil => trivial
  | cons y u => obtain ⟨x1, x2⟩ := x; obtain ⟨y1, y2⟩ := y; exact h.2.2

theorem flatSorted_head {x : Nat × Nat} {t : List (Nat × Nat)} (h : FlatSorted (x :: t)) : x.2 = 1 := by
  cases t with
  | nil => obtain ⟨x1, x2⟩ := x; exact h
  | cons y u => obtain ⟨x1, x2⟩ := x; obtain ⟨y1, y2⟩ := y; exact h.1

/-- all hashes of a `FlatSorted` list are above `b` when the first one is -/
theorem flatSorted_lt {x : Nat × Nat} {t : List (Nat × Nat)} (h : FlatSorted (x :: t)) :
    ∀ y ∈ t, x.1 < y.1 := by
  induction t generalizing x with
  | nil => intro y hy; cases hy
  | cons z u ih =>
    obtain ⟨x1, x2⟩ := x; obtain ⟨z1, z2⟩ := z
    intro y hy
    simp only [List.mem_cons] at hy
    rcases hy with hy | hy
    · subst hy; exact h.2.1
    · have := ih h.2.2 y hy
      have h' := h.2.1
      simp only at this h' ⊢
      omega

/-- appending a larger hash at the end -/
theorem insertHash_append (l : List (Nat × Nat)) (h : Nat) (hl : ∀ y ∈ l, y.1 < h) :
    insertHash l h = l ++ [(h, 1)] := by
  induction l with
  | nil => rfl
  | cons x t ih =>
    obtain ⟨x1, x2⟩ := x
    have hx : x1 < h := hl (x1, x2) (by simp)
    have h1 : ¬ h < x1 := by omega
    have h2 : ¬ h = x1 := by omega
    simp only [insertHash, h1, h2, if_false, List.cons_append]
    rw [ih (fun y hy => hl y (by simp [hy]))]

/-- `add_hash` of an ascending list of hashes rebuilds exactly that list -/
theorem foldl_insertHash_sorted (l : List (Nat × Nat)) (hs : FlatSorted l) :
    ∀ acc : List (Nat × Nat), (∀ y ∈ acc, ∀ z ∈ l, y.1 < z.1) →
      (l.map (·.1)).foldl insertHash acc = acc ++ l := by
  induction l with
  | nil => intro acc _; simp
  | cons x t ih =>
    intro acc hacc
    simp only [List.map_cons, List.foldl_cons]
    rw [insertHash_append acc x.1 (fun y hy => hacc y hy x (by simp))]
    rw [ih (flatSorted_tail hs)]
    · have : x = (x.1, 1) := by
        have := flatSorted_head hs
        obtain ⟨x1, x2⟩ := x
        simp only at this; subst this; rfl
      rw [List.append_assoc]; congr 1
      simp only [List.cons_append, List.nil_append]
      rw [← this]
    · intro y hy z hz
      simp only [List.mem_append, List.mem_singleton] at hy
      rcases hy with hy | hy
      · exact hacc y hy z (by simp [hz])
      · subst hy; exact flatSorted_lt hs z hz

end Sm.Storage
