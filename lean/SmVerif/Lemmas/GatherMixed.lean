/-
Facts about a gather run that need no assumption on the scaled values of the database
sketches (the property keeps them for databases mixing scaled values): which signature a
round can report, and that the unique overlaps of successive rounds are pairwise disjoint.
-/
import SmVerif.Lemmas.GatherRun

set_option autoImplicit false

namespace Sm.Gather

open Sm

/-- the signatures a counter object can report -/
def CObj.sigs {α : Type} : CObj α → List (Sig α)
  | .cg c => c.entries.map (·.sig)
  | .idx db => db

section generic
variable {α σ : Type} {K : SkOps α} {ops : ScoreOps σ}

theorem mem_setCount {md5 : Nat} {v : Int} : ∀ {es : List (CEntry α)} {e : CEntry α},
    e ∈ setCount md5 v es → e.sig ∈ es.map (·.sig) := by
  intro es
  induction es with
  | nil => intro e h; cases h
  | cons x xs ih =>
    intro e h
    simp only [setCount] at h
    split at h
    · rcases List.mem_cons.1 h with rfl | h
      · exact List.mem_cons_self
      · exact List.mem_cons_of_mem _ (List.mem_map.2 ⟨e, h, rfl⟩)
    · rcases List.mem_cons.1 h with rfl | h
      · exact List.mem_cons_self
      · exact List.mem_cons_of_mem _ (ih h)

theorem mem_delEntry {md5 : Nat} : ∀ {es : List (CEntry α)} {e : CEntry α},
    e ∈ delEntry md5 es → e ∈ es := by
  intro es
  induction es with
  | nil => intro e h; cases h
  | cons x xs ih =>
    intro e h
    simp only [delEntry] at h
    split at h
    · exact List.mem_cons_of_mem _ h
    · rcases List.mem_cons.1 h with rfl | h
      · exact List.mem_cons_self
      · exact List.mem_cons_of_mem _ (ih h)

/-- the refresh loop only ever holds (and returns) signatures it was given -/
theorem peekLoop_sigs {cur : α} {scaled : Nat} {nT : F64.F} :
    ∀ (fuel : Nat) {es es' : List (CEntry α)} {r : Option (CEntry α × α)},
      peekLoop K cur scaled nT fuel es = .ok (es', r) →
      (∀ e' ∈ es', e'.sig ∈ es.map (·.sig)) ∧ (∀ x, r = some x → x.1.sig ∈ es.map (·.sig)) := by
  intro fuel
  induction fuel with
  | zero => intro es es' r h; simp [peekLoop] at h
  | succ n ih =>
    intro es es' r h
    unfold peekLoop at h
    cases hm : mostCommon es with
    | none =>
      rw [hm] at h
      simp only [Except.ok.injEq, Prod.mk.injEq] at h
      obtain ⟨rfl, rfl⟩ := h
      exact ⟨fun e he => List.mem_map.2 ⟨e, he, rfl⟩, fun x hx => nomatch hx⟩
    | some best =>
      rw [hm] at h
      simp only [] at h
      have hbm := (mostCommon_some hm).1
      split at h
      · simp only [Except.ok.injEq, Prod.mk.injEq] at h
        obtain ⟨rfl, rfl⟩ := h
        exact ⟨fun e he => List.mem_map.2 ⟨e, he, rfl⟩, fun x hx => nomatch hx⟩
      · split at h
        · cases h
        · split at h
          · cases h
          · split at h
            · cases h
            · split at h
              · simp only [Except.ok.injEq, Prod.mk.injEq] at h
                obtain ⟨rfl, rfl⟩ := h
                refine ⟨fun e he => List.mem_map.2 ⟨e, he, rfl⟩, ?_⟩
                intro x hx
                cases hx
                exact List.mem_map.2 ⟨best, hbm, rfl⟩
              · split at h
                · obtain ⟨i1, i2⟩ := ih h
                  have hsub : ∀ (v : Int), ∀ s ∈ (setCount best.md5 v es).map (·.sig),
                      s ∈ es.map (·.sig) := by
                    intro v s hs
                    obtain ⟨e, he, rfl⟩ := List.mem_map.1 hs
                    exact mem_setCount he
                  exact ⟨fun e he => hsub _ _ (i1 e he), fun x hx => hsub _ _ (i2 x hx)⟩
                · obtain ⟨i1, i2⟩ := ih h
                  have hsub : ∀ s ∈ (delEntry best.md5 es).map (·.sig), s ∈ es.map (·.sig) := by
                    intro s hs
                    obtain ⟨e, he, rfl⟩ := List.mem_map.1 hs
                    exact List.mem_map.2 ⟨e, mem_delEntry he, rfl⟩
                  exact ⟨fun e he => hsub _ (i1 e he), fun x hx => hsub _ (i2 x hx)⟩

theorem Counter.peek_sig {c c' : Counter α} {cur : α} {thr : Nat} {r : Option (σ × Sig α × α)}
    (h : c.peek K ops cur thr = .ok (c', r)) :
    (∀ e' ∈ c'.entries, e'.sig ∈ c.entries.map (·.sig)) ∧
    ∀ x, r = some x → x.2.1 ∈ c.entries.map (·.sig) := by
  have hid : ∀ e' ∈ c.entries, e'.sig ∈ c.entries.map (·.sig) := fun e he => List.mem_map.2 ⟨e, he, rfl⟩
  unfold Counter.peek at h
  split at h
  · cases h; exact ⟨hid, fun x hx => nomatch hx⟩
  · simp only [] at h
    split at h
    · cases h
    · split at h
      · cases h; exact ⟨hid, fun x hx => nomatch hx⟩
      · split at h
        · cases h
        · split at h
          · cases h
          · split at h
            · cases h; exact ⟨hid, fun x hx => nomatch hx⟩
            · cases h
            · split at h
              · cases h
              · rename_i hl
                obtain ⟨l1, _⟩ := peekLoop_sigs _ hl
                cases h
                exact ⟨l1, fun x hx => nomatch hx⟩
              · rename_i hl
                obtain ⟨l1, l2⟩ := peekLoop_sigs _ hl
                split at h
                · cases h
                · split at h
                  · cases h
                  · split at h
                    · cases h
                    · cases h
                      refine ⟨l1, ?_⟩
                      intro x hx
                      cases hx
                      exact l2 _ rfl

/-- `consume` keeps a subset of the entries' signatures -/
theorem consumeEntries_sigs {inter : α} : ∀ {es es' : List (CEntry α)},
    consumeEntries K inter es = .ok es' → ∀ e' ∈ es', e'.sig ∈ es.map (·.sig) := by
  intro es
  induction es with
  | nil => intro es' h e' he'; simp only [consumeEntries, Except.ok.injEq] at h; subst h; cases he'
  | cons e rest ih =>
    intro es' h e' he'
    simp only [consumeEntries] at h
    repeat' split at h
    all_goals cases h
    all_goals
      first
      | (have := ih (by assumption) e' he'
         exact List.mem_cons_of_mem _ this)
      | (rcases List.mem_cons.1 he' with rfl | he'
         · exact List.mem_cons_self
         · have := ih (by assumption) e' he'
           exact List.mem_cons_of_mem _ this)

theorem CObj.peek_sigs {o o' : CObj α} {cur : α} {thr : Nat} {r : Option (σ × Sig α × α)}
    (hidx : ∀ db cur thr (x : σ × Sig α × α), idxPeek K ops db cur thr = .ok (some x) → x.2.1 ∈ db)
    (h : o.peek K ops cur thr = .ok (o', r)) :
    (∀ s ∈ o'.sigs, s ∈ o.sigs) ∧ ∀ x, r = some x → x.2.1 ∈ o.sigs := by
  cases o with
  | cg c =>
    simp only [CObj.peek] at h
    cases hp : c.peek K ops cur thr with
    | error e => rw [hp] at h; cases h
    | ok pr =>
      obtain ⟨c', r'⟩ := pr
      rw [hp] at h
      simp only [Except.ok.injEq, Prod.mk.injEq] at h
      obtain ⟨rfl, rfl⟩ := h
      obtain ⟨h1, h2⟩ := Counter.peek_sig hp
      refine ⟨?_, h2⟩
      intro s hs
      simp only [CObj.sigs, List.mem_map] at hs
      obtain ⟨e, he, rfl⟩ := hs
      exact h1 e he
  | idx db =>
    simp only [CObj.peek] at h
    cases hp : idxPeek K ops db cur thr with
    | error e => rw [hp] at h; cases h
    | ok r' =>
      rw [hp] at h
      simp only [Except.ok.injEq, Prod.mk.injEq] at h
      obtain ⟨rfl, rfl⟩ := h
      refine ⟨fun s hs => hs, ?_⟩
      intro x hx
      subst hx
      exact hidx db cur thr x hp

theorem bestOf_mem : ∀ {l : List (F64.F × Sig α)} {x : F64.F × Sig α}, bestOf l = some x → x ∈ l := by
  intro l
  induction l with
  | nil => intro x h; simp [bestOf] at h
  | cons y ys ih =>
    intro x h
    simp only [bestOf] at h
    cases hb : bestOf ys with
    | none => rw [hb] at h; simp only [Option.some.injEq] at h; subst h; exact List.mem_cons_self
    | some z =>
      rw [hb] at h
      simp only [] at h
      split at h
      · simp only [Option.some.injEq] at h; subst h; exact List.mem_cons_of_mem _ (ih hb)
      · simp only [Option.some.injEq] at h; subst h; exact List.mem_cons_self

theorem findLoop_sub {query : α} {bo : Bool} : ∀ {db : List (Sig α)} {thr : F64.F} {l : List (F64.F × Sig α)},
    findLoop K query bo db thr = .ok l → ∀ p ∈ l, p.2 ∈ db := by
  intro db
  induction db with
  | nil => intro thr l h p hp; simp only [findLoop, Except.ok.injEq] at h; subst h; cases hp
  | cons d rest ih =>
    intro thr l h p hp
    simp only [findLoop] at h
    cases h1 : findOne K query d thr with
    | error e => rw [h1] at h; cases h
    | ok r =>
      obtain ⟨score, ok⟩ := r
      rw [h1] at h
      simp only [] at h
      cases ok with
      | false =>
        simp only [Bool.false_eq_true, if_false] at h
        exact List.mem_cons_of_mem _ (ih h p hp)
      | true =>
        simp only [if_true] at h
        split at h
        · cases h
        · rename_i l' hl'
          simp only [Except.ok.injEq] at h
          subst h
          rcases List.mem_cons.1 hp with rfl | hp
          · exact List.mem_cons_self
          · exact List.mem_cons_of_mem _ (ih hl' p hp)

theorem idxPeek_sig {db : List (Sig α)} {cur : α} {thr : Nat} {x : σ × Sig α × α}
    (h : idxPeek K ops db cur thr = .ok (some x)) : x.2.1 ∈ db := by
  unfold idxPeek at h
  cases hb : bestContainment K db cur thr with
  | error e =>
    rw [hb] at h
    cases e <;> simp at h
  | ok r =>
    rw [hb] at h
    cases r with
    | none => simp at h
    | some p =>
      obtain ⟨score, s⟩ := p
      simp only [] at h
      split at h
      · cases h
      · simp only [Except.ok.injEq, Option.some.injEq] at h
        subst h
        simp only []
        unfold bestContainment at hb
        cases hp : prefetch K db cur thr true with
        | error e => rw [hp] at hb; cases hb
        | ok l =>
          rw [hp] at hb
          simp only [Except.ok.injEq] at hb
          have hm := bestOf_mem hb
          unfold prefetch at hp
          repeat' split at hp
          all_goals first | cases hp | exact findLoop_sub hp _ hm

/-- `_find_best`: the reported signature is one of the counters' signatures, and the counters afterwards
hold subsets of the signatures they held before -/
theorem peekAll_sigs : ∀ {cs cs' : List (CObj α)} {cur : α} {thr : Nat} {acc best : Option (σ × Sig α × α)}
    {pool : List (Sig α)},
    peekAll K ops cur thr cs acc = .ok (cs', best) →
    (∀ x, acc = some x → x.2.1 ∈ pool) → (∀ o ∈ cs, ∀ s ∈ o.sigs, s ∈ pool) →
    (∀ x, best = some x → x.2.1 ∈ pool) ∧ (∀ o ∈ cs', ∀ s ∈ o.sigs, s ∈ pool) := by
  intro cs
  induction cs with
  | nil =>
    intro cs' cur thr acc best pool h hacc _
    simp only [peekAll, Except.ok.injEq, Prod.mk.injEq] at h
    obtain ⟨rfl, rfl⟩ := h
    exact ⟨hacc, by simp⟩
  | cons o rest ih =>
    intro cs' cur thr acc best pool h hacc hcs
    simp only [peekAll] at h
    cases hp : o.peek K ops cur thr with
    | error e => rw [hp] at h; cases h
    | ok pr =>
      obtain ⟨o', r⟩ := pr
      rw [hp] at h
      simp only [] at h
      cases hr : peekAll K ops cur thr rest (better ops r acc) with
      | error e => rw [hr] at h; cases h
      | ok rr =>
        obtain ⟨rest', b⟩ := rr
        rw [hr] at h
        simp only [Except.ok.injEq, Prod.mk.injEq] at h
        obtain ⟨rfl, rfl⟩ := h
        obtain ⟨s1, s2⟩ := CObj.peek_sigs (fun db cur thr x hx => idxPeek_sig hx) hp
        have hacc' : ∀ x, better ops r acc = some x → x.2.1 ∈ pool := by
          intro x hx
          cases r with
          | none => simp only [better] at hx; exact hacc x hx
          | some y =>
            have hy : y.2.1 ∈ pool := hcs o List.mem_cons_self _ (s2 y rfl)
            cases acc with
            | none => simp only [better, Option.some.injEq] at hx; subst hx; exact hy
            | some a =>
              simp only [better] at hx
              split at hx
              · simp only [Option.some.injEq] at hx; subst hx; exact hy
              · simp only [Option.some.injEq] at hx; subst hx; exact hacc _ rfl
        obtain ⟨i1, i2⟩ := ih hr hacc' (fun o2 ho2 => hcs o2 (List.mem_cons_of_mem _ ho2))
        refine ⟨i1, ?_⟩
        intro o2 ho2 s hs
        rcases List.mem_cons.1 ho2 with rfl | ho2
        · exact hcs o List.mem_cons_self s (s1 s hs)
        · exact i2 o2 ho2 s hs

theorem consumeAll_sigs {inter : α} : ∀ {cs cs' : List (CObj α)} {pool : List (Sig α)},
    consumeAll K inter cs = .ok cs' → (∀ o ∈ cs, ∀ s ∈ o.sigs, s ∈ pool) → ∀ o ∈ cs', ∀ s ∈ o.sigs, s ∈ pool := by
  intro cs
  induction cs with
  | nil => intro cs' pool h _; simp only [consumeAll, Except.ok.injEq] at h; subst h; simp
  | cons o rest ih =>
    intro cs' pool h hcs
    simp only [consumeAll] at h
    cases ho : o.consume K inter with
    | error e => rw [ho] at h; cases h
    | ok o' =>
      rw [ho] at h
      simp only [] at h
      cases hr : consumeAll K inter rest with
      | error e => rw [hr] at h; cases h
      | ok rest' =>
        rw [hr] at h
        simp only [Except.ok.injEq] at h
        subst h
        intro o2 ho2 s hs
        rcases List.mem_cons.1 ho2 with rfl | ho2
        · -- the consumed counter
          cases o with
          | idx db =>
            simp only [CObj.consume, Except.ok.injEq] at ho
            subst ho
            exact hcs _ List.mem_cons_self s hs
          | cg c =>
            simp only [CObj.consume] at ho
            cases hc : c.consume K inter with
            | error e => rw [hc] at ho; cases ho
            | ok c' =>
              rw [hc] at ho
              simp only [Except.ok.injEq] at ho
              subst ho
              apply hcs _ List.mem_cons_self s
              unfold Counter.consume at hc
              split at hc
              · simp only [Except.ok.injEq] at hc; subst hc; exact hs
              · split at hc
                · cases hc
                · rename_i es hes
                  simp only [Except.ok.injEq] at hc
                  subst hc
                  simp only [CObj.sigs, List.mem_map] at hs ⊢
                  obtain ⟨e', he', rfl⟩ := hs
                  have := consumeEntries_sigs hes e' he'
                  simpa using this
        · exact ih hr (fun o3 ho3 => hcs o3 (List.mem_cons_of_mem _ ho3)) o2 ho2 s hs

theorem findBest_sigs {cs cs' : List (CObj α)} {cur : α} {thr : Nat} {r : Option (σ × Sig α × α)}
    {pool : List (Sig α)} (h : findBest K ops cs cur thr = .ok (cs', r))
    (hcs : ∀ o ∈ cs, ∀ s ∈ o.sigs, s ∈ pool) :
    (∀ x, r = some x → x.2.1 ∈ pool) ∧ (∀ o ∈ cs', ∀ s ∈ o.sigs, s ∈ pool) := by
  unfold findBest at h
  cases hp : peekAll K ops cur thr cs none with
  | error e => rw [hp] at h; cases h
  | ok pr =>
    obtain ⟨cs1, b⟩ := pr
    rw [hp] at h
    obtain ⟨p1, p2⟩ := peekAll_sigs hp (fun x hx => nomatch hx) hcs
    cases b with
    | none =>
      simp only [Except.ok.injEq, Prod.mk.injEq] at h
      obtain ⟨rfl, rfl⟩ := h
      exact ⟨fun x hx => (nomatch hx), p2⟩
    | some x =>
      obtain ⟨sc, sg, inter⟩ := x
      simp only [] at h
      cases hc : consumeAll K inter cs1 with
      | error e => rw [hc] at h; cases h
      | ok cs2 =>
        rw [hc] at h
        simp only [Except.ok.injEq, Prod.mk.injEq] at h
        obtain ⟨rfl, rfl⟩ := h
        exact ⟨fun y hy => (by cases hy; exact p1 _ rfl), consumeAll_sigs hc p2⟩

end generic

/-! ### list sketches, arbitrary counters, arbitrary scaled values -/

variable {σ : Type} {ops : ScoreOps σ}

/-- invariant of a gather run that makes no assumption on scaled values or on the kind of counters;
`pool` = every signature any counter can report -/
structure MInv (pool : List (Sig LS)) (g : GD LS) : Prop where
  orig_sorted : Sorted g.origSigMh.hs
  q_sorted : Sorted g.query.hs
  q_scaled : g.query.scaled = g.cmpScaled
  pool_sorted : ∀ s ∈ pool, Sorted s.mh.hs
  counters : ∀ o ∈ g.counters, ∀ s ∈ o.sigs, s ∈ pool

/-- one call of `__next__`, any database: the reported unique intersection is (unassigned) ∩ (match) at the
round's resolution `s`, and the new unassigned set is (unassigned at `s`) ∖ (match at `s`) -/
theorem next_mixed {pool : List (Sig LS)} {g g' : GD LS} {r : Option (GRes σ)} (hinv : MInv pool g)
    (h : g.next lsOps ops = .ok (g', r)) :
    MInv pool g' ∧
    match r with
    | none => g'.query = g.query
    | some res => ∃ best ∈ pool, ∃ s, res.name = best.name ∧ res.md5 = best.md5 ∧ res.cmpScaled = s ∧
        res.isectCur = (dn s g.query.hs).filter (inL (dn s best.mh.hs)) ∧ res.isectCur ≠ [] ∧
        g'.query.hs = diffL (dn s g.query.hs) (dn s best.mh.hs) := by
  unfold GD.next at h
  by_cases h0 : len lsOps g.query = 0
  · rw [if_pos h0] at h
    simp only [Except.ok.injEq, Prod.mk.injEq] at h
    obtain ⟨rfl, rfl⟩ := h
    exact ⟨hinv, rfl⟩
  rw [if_neg h0] at h
  cases hf : findBest lsOps ops g.counters g.query g.thresholdBp with
  | error e => rw [hf] at h; cases h
  | ok fr =>
    obtain ⟨cs, b⟩ := fr
    rw [hf] at h
    obtain ⟨f1, f2⟩ := findBest_sigs hf hinv.counters
    cases b with
    | none =>
      simp only [Except.ok.injEq, Prod.mk.injEq] at h
      obtain ⟨rfl, rfl⟩ := h
      exact ⟨⟨hinv.orig_sorted, hinv.q_sorted, hinv.q_scaled, hinv.pool_sorted, f2⟩, rfl⟩
    | some x =>
      obtain ⟨sc, best, inter⟩ := x
      simp only [] at h
      have hbp : best ∈ pool := f1 _ rfl
      have hbs := hinv.pool_sorted best hbp
      obtain ⟨_, g1, res, hu, hq1, hb1, hg', hr, hbuild⟩ := report_ls h
      subst hr
      obtain ⟨u1, u2, u3, u4, _, _, _, _, _, _⟩ := updateScaled_ls hu
      simp only [] at u1 u2 u3 u4
      have hq1s : Sorted g1.query.hs := by rw [u2]; exact hinv.q_sorted
      have hs2 : max g1.query.scaled best.mh.scaled = g1.cmpScaled := by
        rw [u2, u1]
        show max g.query.scaled best.mh.scaled = _
        rw [hinv.q_scaled]
      have hbr := buildResult_ls (by rw [u4]; exact hinv.orig_sorted) hbs hq1s hbuild
      rw [hs2] at hbr
      unfold ColsOK at hbr
      simp only [] at hbr
      obtain ⟨r1, r2, _, r4, _, r6, _, _, _, _, _, _, _, _, _, _, _, _, _, _, _, _, _, r24, _, _⟩ := hbr
      have hq1hs : g1.query.hs = g.query.hs := by rw [u2]
      rw [hq1hs] at r6 r24
      rw [← r6] at r24
      have hg'q : g'.query.hs = diffL (dn g1.cmpScaled g.query.hs) (dn g1.cmpScaled best.mh.hs) := by
        rw [hg']
        show (LS.removeFrom (g1.query.dsv g1.cmpScaled) (best.mh.dsv g1.cmpScaled).flat).hs = _
        rw [LS.removeFrom_hs]
        show diffL (dn g1.cmpScaled g1.query.hs) (dn g1.cmpScaled best.mh.hs) = _
        rw [hq1hs]
      refine ⟨⟨?_, ?_, ?_, hinv.pool_sorted, ?_⟩, best, hbp, g1.cmpScaled, r1, r2, r4, r6, r24, hg'q⟩
      · rw [hg']; show Sorted g1.origSigMh.hs; rw [u4]; exact hinv.orig_sorted
      · rw [hg'q]; exact sorted_diffL (sorted_dn hinv.q_sorted _) _
      · rw [hg']; rfl
      · rw [hg']; show ∀ o ∈ g1.counters, _; rw [u3]; exact f2

theorem mem_dn_self {s : Nat} {l : List Nat} {x : Nat} (h : x ∈ dn s l) : x ∈ l := (mem_dn.1 h).1

/-- **`uniq_disjoint` for every database** (scaled values mixed freely, any kind of counter): the unique
overlaps of a run are pairwise disjoint subsets of the hashes the run started from, and their sizes sum to
at most that many hashes.  (The *fractions* reported for them need not sum to ≤ 1: finding C07.1.) -/
theorem run_mixed {pool : List (Sig LS)} :
    ∀ (n : Nat) (g gf : GD LS) (rs : List (GRes σ)), MInv pool g → g.run lsOps ops n = .ok (gf, rs) →
      (rs.map (·.isectCur)).Pairwise List.Disjoint ∧
      (∀ r ∈ rs, ∀ x ∈ r.isectCur, x ∈ g.query.hs) ∧
      (∀ x ∈ gf.query.hs, x ∈ g.query.hs) ∧
      sumNats (rs.map (fun r => r.isectCur.length)) + gf.query.hs.length ≤ g.query.hs.length := by
  intro n
  induction n with
  | zero =>
    intro g gf rs _ h
    simp only [GD.run, Except.ok.injEq, Prod.mk.injEq] at h
    obtain ⟨rfl, rfl⟩ := h
    exact ⟨List.Pairwise.nil, by simp, fun x hx => hx, by simp [sumNats]⟩
  | succ n ih =>
    intro g gf rs hinv h
    simp only [GD.run] at h
    cases hn : g.next lsOps ops with
    | error e => rw [hn] at h; cases h
    | ok pr =>
      obtain ⟨g', r⟩ := pr
      rw [hn] at h
      obtain ⟨hinv', hsp⟩ := next_mixed hinv hn
      cases r with
      | none =>
        simp only [Except.ok.injEq, Prod.mk.injEq] at h
        obtain ⟨rfl, rfl⟩ := h
        simp only [] at hsp
        rw [hsp]
        exact ⟨List.Pairwise.nil, by simp, fun x hx => hx, by simp [sumNats]⟩
      | some res =>
        simp only [] at h hsp
        obtain ⟨best, _, s, _, _, _, h6, _, h8⟩ := hsp
        cases hr : g'.run lsOps ops n with
        | error e => rw [hr] at h; cases h
        | ok rr =>
          obtain ⟨g'', rs'⟩ := rr
          rw [hr] at h
          simp only [Except.ok.injEq, Prod.mk.injEq] at h
          obtain ⟨rfl, rfl⟩ := h
          obtain ⟨i1, i2, i3, i4⟩ := ih g' g'' rs' hinv' hr
          have hsub' : ∀ x ∈ g'.query.hs, x ∈ g.query.hs ∧ x ∉ dn s best.mh.hs := by
            intro x hx
            rw [h8] at hx
            obtain ⟨a, b⟩ := mem_diffL.1 hx
            exact ⟨mem_dn_self a, b⟩
          refine ⟨?_, ?_, ?_, ?_⟩
          · simp only [List.map_cons, List.pairwise_cons]
            refine ⟨?_, i1⟩
            intro U hU
            obtain ⟨r', hr', rfl⟩ := List.mem_map.1 hU
            intro x hx1 hx2
            rw [h6, List.mem_filter, inL_iff] at hx1
            exact (hsub' x (i2 r' hr' x hx2)).2 hx1.2
          · intro r' hr' x hx
            rcases List.mem_cons.1 hr' with rfl | hr'
            · rw [h6] at hx; exact mem_dn_self (List.mem_filter.1 hx).1
            · exact (hsub' x (i2 r' hr' x hx)).1
          · intro x hx; exact (hsub' x (i3 x hx)).1
          · have hsplit := length_split (dn s g.query.hs) (dn s best.mh.hs)
            have hU : res.isectCur.length = ovl (dn s g.query.hs) (dn s best.mh.hs) := by rw [h6]; rfl
            have hle : (dn s g.query.hs).length ≤ g.query.hs.length := List.length_filter_le _ _
            rw [h8] at i4
            simp only [List.map_cons, sumNats, List.foldr_cons] at i4 ⊢
            omega

end Sm.Gather
