/-
The invariant of create-then-append sessions on a zip collection, and what a good zip loads back to.
-/
import SmVerif.Lemmas.StorageBase

namespace Sm.Storage

/-- what the final file will hold under name `n` if the session were flushed now -/
def view (st : RwZip) (n : Name) : Option Content :=
  match st.buf with
  | none => read st.zf n
  | some b =>
    match read b n with
    | some c => some c
    | none => read st.zf n

/-- the buffer has unique names, and (while signatures are being added) only names that are free on disk -/
def ModeOK (st : RwZip) : Prop :=
  match st.buf with
  | none => True
  | some b => (names b).Nodup ∧ ∀ n, read b n ≠ none → read st.zf n = none

/-- a signature together with the member name it was given -/
abbrev Placed := List (MName × Sig)

def rowOf (p : MName × Sig) : Row := mkRow p.2 (some (.sig p.1))

/-- a truthful zip collection: the manifest has one row per placed signature (in order, columns from the
    signature, location = its member), every row's member holds exactly that signature, and there is no
    signature member the manifest does not list -/
structure Good (z : Zip) (placed : Placed) : Prop where
  manifest : read z .manifest = some (.manifest (placed.map rowOf))
  holds : ∀ p ∈ placed, read z (.sig p.1) = some (.sigs [p.2]) ∧ p.1.md5 = p.2.md5
  noOrphan : ∀ m c, read z (.sig m) = some c → ∃ p ∈ placed, p.1 = m

/-! ### one `storage.save` -/

theorem view_of_zf {st : RwZip} (hok : ModeOK st) {n : Name} {c : Content} (h : read st.zf n = some c) :
    view st n = some c := by
  unfold view
  cases hb : st.buf with
  | none => simpa using h
  | some b =>
    simp only
    unfold ModeOK at hok
    rw [hb] at hok
    cases hr : read b n with
    | none => simpa using h
    | some d =>
      have := hok.2 n (by simp [hr])
      rw [this] at h; cases h

theorem save_spec (st : RwZip) (nm : Name) (w : Bool) (c : Content) (hok : ModeOK st)
    (hfree : w = true → read st.zf nm = none) :
    (st.save (nm, w) c).2 = nm ∧
    ((st.save (nm, w) c).1.buf = none ↔ st.buf = none) ∧
    (∀ n, read st.zf n ≠ none → read (st.save (nm, w) c).1.zf n ≠ none) ∧
    ModeOK (st.save (nm, w) c).1 ∧
    ∀ n, view (st.save (nm, w) c).1 n = if w = true ∧ n = nm then some c else view st n := by
  cases w with
  | false => simp [RwZip.save, hok]
  | true =>
    cases hb : st.buf with
    | none =>
      have e : st.save (nm, true) c = ({ st with zf := upsert st.zf nm c }, nm) := by
        simp [RwZip.save, hb]
      rw [e]
      refine ⟨rfl, by simp [hb], ?_, by simp [ModeOK, hb], ?_⟩
      · intro n hn
        show read (upsert st.zf nm c) n ≠ none
        rw [read_upsert]
        by_cases h : n = nm <;> simp [h, hn]
      · intro n
        simp only [view, hb, read_upsert, true_and]
    | some b =>
      have e : st.save (nm, true) c = ({ st with buf := some (upsert b nm c) }, nm) := by
        simp [RwZip.save, hb]
      rw [e]
      unfold ModeOK at hok
      rw [hb] at hok
      refine ⟨rfl, by simp [hb], fun n hn => hn, ?_, ?_⟩
      · simp only [ModeOK]
        refine ⟨names_upsert_nodup b nm c hok.1, ?_⟩
        intro n hn
        rw [read_upsert] at hn
        by_cases h : n = nm
        · subst h; exact hfree rfl
        · simp only [h, if_false] at hn
          exact hok.2 n hn
      · intro n
        simp only [view, hb, read_upsert, true_and]
        by_cases h : n = nm <;> simp [h]

theorem save_zf_nodup (st : RwZip) (t : Name × Bool) (c : Content) (h : (names st.zf).Nodup) :
    (names (st.save t c).1.zf).Nodup := by
  obtain ⟨nm, w⟩ := t
  unfold RwZip.save
  cases w with
  | false => simpa using h
  | true =>
    cases hb : st.buf with
    | none => simpa [hb] using names_upsert_nodup st.zf nm c h
    | some b => simpa [hb] using h

/-! ### one `add` -/

theorem addOld_eq (s : ZipSaver) (ss : Sig) (nm : Name) (w : Bool)
    (h : genName s.st.zf ss.md5 (.sigs [ss]) = (nm, w)) :
    s.addOld ss = { st := (s.st.save (nm, w) (.sigs [ss])).1,
                    rows := s.rows ++ [mkRow ss (some (s.st.save (nm, w) (.sigs [ss])).2)] } := by
  simp only [ZipSaver.addOld, RwZip.saveSigOld, h]

theorem addOld_spec (s : ZipSaver) (ss : Sig) (hok : ModeOK s.st) :
    ∃ m : MName, m.md5 = ss.md5 ∧ (s.addOld ss).rows = s.rows ++ [mkRow ss (some (.sig m))] ∧
      ModeOK (s.addOld ss).st ∧ ((s.addOld ss).st.buf = none ↔ s.st.buf = none) ∧
      (∀ n, read s.st.zf n ≠ none → read (s.addOld ss).st.zf n ≠ none) ∧
      ((read s.st.zf (.sig m) = some (.sigs [ss]) ∧ ∀ n, view (s.addOld ss).st n = view s.st n) ∨
       (read s.st.zf (.sig m) = none ∧
        ∀ n, view (s.addOld ss).st n = if n = .sig m then some (.sigs [ss]) else view s.st n)) ∧
      ((names s.st.zf).Nodup → (names (s.addOld ss).st.zf).Nodup) ∧
      (∀ k, m.suffix = some k →
        (∃ d, read s.st.zf (.sig ⟨ss.md5, none⟩) = some d ∧ d ≠ .sigs [ss]) ∧
        ∀ j, j < k → ∃ d, read s.st.zf (.sig ⟨ss.md5, some j⟩) = some d ∧ d ≠ .sigs [ss]) := by
  have hspec := genName_spec s.st.zf ss.md5 (.sigs [ss])
  cases hgen : genName s.st.zf ss.md5 (.sigs [ss]) with
  | mk nm w =>
  rw [hgen] at hspec
  obtain ⟨⟨sfx, hname⟩, hfalse, htrue⟩ := hspec
  simp only at hname hfalse htrue
  subst hname
  obtain ⟨h1, h2, h3, h4, h5⟩ := save_spec s.st _ w (.sigs [ss]) hok htrue
  rw [addOld_eq s ss _ w hgen]
  refine ⟨⟨ss.md5, sfx⟩, rfl, by simp only [h1], h4, h2, h3, ?_, fun hnd => save_zf_nodup s.st _ _ hnd, ?_⟩
  · cases w with
    | false =>
      left
      exact ⟨hfalse rfl, fun n => by simpa using h5 n⟩
    | true =>
      right
      exact ⟨htrue rfl, fun n => by simpa using h5 n⟩
  · intro k hk
    simp only at hk
    subst hk
    exact genNameR_chain (read s.st.zf) (s.st.zf.length + 1) ss.md5 (.sigs [ss]) k
      (by have := congrArg Prod.fst hgen; simpa [genName] using this)

theorem add_eq (s : ZipSaver) (ss : Sig) (b : Zip) (nm : Name) (w : Bool) (hb : s.st.buf = some b)
    (h : genNameR (readBoth s.st.zf b) (s.st.zf.length + b.length + 1) ss.md5 (.sigs [ss]) = (nm, w)) :
    s.add ss = { st := (s.st.save (nm, w) (.sigs [ss])).1,
                        rows := s.rows ++ [mkRow ss (some (s.st.save (nm, w) (.sigs [ss])).2)] } := by
  simp only [ZipSaver.add, RwZip.saveSig, hb, h]

/-- the same for the PATCHED name search (consults the buffer too): a write never hits a name the final
    file would already hold -/
theorem add_spec (s : ZipSaver) (ss : Sig) (hok : ModeOK s.st) :
    ∃ m : MName, m.md5 = ss.md5 ∧ (s.add ss).rows = s.rows ++ [mkRow ss (some (.sig m))] ∧
      ModeOK (s.add ss).st ∧ ((s.add ss).st.buf = none ↔ s.st.buf = none) ∧
      (∀ n, read s.st.zf n ≠ none → read (s.add ss).st.zf n ≠ none) ∧
      ((view s.st (.sig m) = some (.sigs [ss]) ∧ ∀ n, view (s.add ss).st n = view s.st n) ∨
       (view s.st (.sig m) = none ∧
        ∀ n, view (s.add ss).st n = if n = .sig m then some (.sigs [ss]) else view s.st n)) ∧
      ((names s.st.zf).Nodup → (names (s.add ss).st.zf).Nodup) ∧
      (∀ k, m.suffix = some k →
        (∃ d, view s.st (.sig ⟨ss.md5, none⟩) = some d ∧ d ≠ .sigs [ss]) ∧
        ∀ j, j < k → ∃ d, view s.st (.sig ⟨ss.md5, some j⟩) = some d ∧ d ≠ .sigs [ss]) := by
  cases hb : s.st.buf with
  | none =>
    -- writable zip: identical to the unpatched code
    obtain ⟨m, h1, h2, h3, h4, h5, h6, h7, h8⟩ := addOld_spec s ss hok
    have e : s.add ss = s.addOld ss := by
      simp [ZipSaver.add, ZipSaver.addOld, RwZip.saveSig, RwZip.saveSigOld, hb]
    have hv : ∀ n, view s.st n = read s.st.zf n := by intro n; simp [view, hb]
    rw [e]
    refine ⟨m, h1, h2, h3, by simpa [hb] using h4, h5, ?_, h7, ?_⟩
    · rw [hv]; exact h6
    · intro k hk; rw [hv, ]; simp only [hv]; exact h8 k hk
  | some b =>
    have hok' := hok
    unfold ModeOK at hok'
    rw [hb] at hok'
    have hrb : ∀ n, readBoth s.st.zf b n = view s.st n := by
      intro n
      simp only [readBoth, view, hb]
      cases hz : read s.st.zf n with
      | none => cases read b n <;> rfl
      | some d =>
        cases hr : read b n with
        | none => rfl
        | some d' =>
          have := hok'.2 n (by simp [hr])
          rw [this] at hz; cases hz
    have hspec := genNameBoth_spec s.st.zf b ss.md5 (.sigs [ss])
    cases hgen : genNameR (readBoth s.st.zf b) (s.st.zf.length + b.length + 1) ss.md5 (.sigs [ss]) with
    | mk nm w =>
    simp only [hgen] at hspec
    obtain ⟨⟨sfx, hname⟩, hfalse, htrue⟩ := hspec
    subst hname
    have hfree : w = true → read s.st.zf (.sig ⟨ss.md5, sfx⟩) = none := by
      intro hw
      have := htrue hw
      unfold readBoth at this
      cases hz : read s.st.zf (.sig ⟨ss.md5, sfx⟩) with
      | none => rfl
      | some d => simp [hz] at this
    obtain ⟨h1, h2, h3, h4, h5⟩ := save_spec s.st _ w (.sigs [ss]) hok hfree
    have e := add_eq s ss b _ w hb hgen
    rw [e]
    refine ⟨⟨ss.md5, sfx⟩, rfl, by simp only [h1], h4, by simpa [hb] using h2, h3, ?_,
      fun hnd => save_zf_nodup s.st _ _ hnd, ?_⟩
    · cases w with
      | false =>
        left
        exact ⟨by rw [← hrb]; exact hfalse rfl, fun n => by simpa using h5 n⟩
      | true =>
        right
        exact ⟨by rw [← hrb]; exact htrue rfl, fun n => by simpa using h5 n⟩
    · intro k hk
      simp only at hk
      subst hk
      have := genNameR_chain (readBoth s.st.zf b) (s.st.zf.length + b.length + 1) ss.md5 (.sigs [ss]) k
        (by rw [hgen])
      simpa only [hrb] using this

/-! ### the invariant inside a session -/

structure SInv (s : ZipSaver) (old new : Placed) : Prop where
  rows : s.rows = (old ++ new).map rowOf
  holds : ∀ p ∈ old ++ new, view s.st (.sig p.1) = some (.sigs [p.2]) ∧ p.1.md5 = p.2.md5
  oldDisk : ∀ p ∈ old, read s.st.zf (.sig p.1) ≠ none
  noOrphan : ∀ m c, view s.st (.sig m) = some c → ∃ p ∈ old ++ new, p.1 = m
  mode : ModeOK s.st

/-- the abstract step both variants share: the new member either was already there with this very
    content, or is written under a name that is free on the consulted zip; in the second case an existing
    holder of that name (necessarily from this session) must be the same signature -/
theorem sinv_step_core (s s' : ZipSaver) (old new : Placed) (ss : Sig) (m : MName) (inv : SInv s old new)
    (hm : m.md5 = ss.md5) (hrows : s'.rows = s.rows ++ [mkRow ss (some (.sig m))]) (hmode : ModeOK s'.st)
    (hzf : ∀ n, read s.st.zf n ≠ none → read s'.st.zf n ≠ none)
    (hcase : (view s.st (.sig m) = some (.sigs [ss]) ∧ ∀ n, view s'.st n = view s.st n) ∨
      ((∀ p ∈ old ++ new, p.1 = m → p.2 = ss) ∧
        ∀ n, view s'.st n = if n = .sig m then some (.sigs [ss]) else view s.st n)) :
    SInv s' old (new ++ [(m, ss)]) := by
  have hmem : ∀ p, p ∈ old ++ (new ++ [(m, ss)]) ↔ p ∈ old ++ new ∨ p = (m, ss) := by
    intro p; simp [List.mem_append, or_assoc]
  refine ⟨?_, ?_, ?_, ?_, hmode⟩
  · rw [hrows, inv.rows]; simp [rowOf, List.map_append]
  · intro p hp
    rcases (hmem p).1 hp with hp | hp
    · rcases hcase with ⟨_, hv⟩ | ⟨hsame, hv⟩
      · rw [hv]; exact inv.holds p hp
      · rw [hv]
        by_cases e : p.1 = m
        · have := hsame p hp e
          simp [e, this, hm]
        · have : ¬ (Name.sig p.1 = Name.sig m) := by
            intro h; injection h with h; exact e h
          simp only [this, if_false]; exact inv.holds p hp
    · subst hp
      refine ⟨?_, hm⟩
      rcases hcase with ⟨h0, hv⟩ | ⟨_, hv⟩
      · rw [hv]; exact h0
      · rw [hv]; simp
  · intro p hp
    exact hzf _ (inv.oldDisk p hp)
  · intro m' c hc
    rcases hcase with ⟨_, hv⟩ | ⟨_, hv⟩
    · rw [hv] at hc
      obtain ⟨p, hp, e⟩ := inv.noOrphan m' c hc
      exact ⟨p, (hmem p).2 (Or.inl hp), e⟩
    · rw [hv] at hc
      by_cases e : m' = m
      · exact ⟨(m, ss), (hmem _).2 (Or.inr rfl), e.symm⟩
      · have : ¬ (Name.sig m' = Name.sig m) := by
          intro h; injection h with h; exact e h
        simp only [this, if_false] at hc
        obtain ⟨p, hp, e'⟩ := inv.noOrphan m' c hc
        exact ⟨p, (hmem p).2 (Or.inl hp), e'⟩

/-- unpatched code: in a create session (`buf = none`) always; in an append session provided no earlier
    signature of this session has the same md5 and different content -/
theorem sinv_addOld (s : ZipSaver) (old new : Placed) (ss : Sig) (inv : SInv s old new)
    (hc : s.st.buf = none ∨ ∀ p ∈ new, p.2.md5 = ss.md5 → p.2 = ss) :
    ∃ m, SInv (s.addOld ss) old (new ++ [(m, ss)]) ∧ ((s.addOld ss).st.buf = none ↔ s.st.buf = none) := by
  obtain ⟨m, hm, hrows, hmode, hbuf, hzf, hcase, _, _⟩ := addOld_spec s ss inv.mode
  refine ⟨m, sinv_step_core s (s.addOld ss) old new ss m inv hm hrows hmode hzf ?_, hbuf⟩
  rcases hcase with ⟨hr, hv⟩ | ⟨hr, hv⟩
  · exact Or.inl ⟨view_of_zf inv.mode hr, hv⟩
  · refine Or.inr ⟨?_, hv⟩
    intro p hp e
    rcases List.mem_append.1 hp with ho | hn
    · exact absurd (by rw [e]; exact hr) (inv.oldDisk p ho)
    · rcases hc with hnone | hclash
      · -- writable zip: view = read zf, so the name cannot be held
        have := (inv.holds p hp).1
        rw [e] at this
        simp [view, hnone, hr] at this
      · exact hclash p hn (by rw [← (inv.holds p hp).2, e, hm])

theorem sinv_add (s : ZipSaver) (old new : Placed) (ss : Sig) (inv : SInv s old new) :
    ∃ m, SInv (s.add ss) old (new ++ [(m, ss)]) ∧ ((s.add ss).st.buf = none ↔ s.st.buf = none) := by
  obtain ⟨m, hm, hrows, hmode, hbuf, hzf, hcase, _, _⟩ := add_spec s ss inv.mode
  refine ⟨m, sinv_step_core s (s.add ss) old new ss m inv hm hrows hmode hzf ?_, hbuf⟩
  rcases hcase with ⟨hr, hv⟩ | ⟨hr, hv⟩
  · exact Or.inl ⟨hr, hv⟩
  · refine Or.inr ⟨?_, hv⟩
    intro p hp e
    have := (inv.holds p hp).1
    rw [e, hr] at this
    cases this

theorem sinv_foldOld (l : List Sig) : ∀ (s : ZipSaver) (old new : Placed), SInv s old new →
    (s.st.buf = none ∨ ∀ a ∈ new.map (·.2) ++ l, ∀ b ∈ new.map (·.2) ++ l, a.md5 = b.md5 → a = b) →
    ∃ new', SInv (l.foldl ZipSaver.addOld s) old new' ∧ new'.map (·.2) = new.map (·.2) ++ l := by
  induction l with
  | nil => intro s old new inv _; exact ⟨new, inv, by simp⟩
  | cons ss rest ih =>
    intro s old new inv hc
    have hstep : s.st.buf = none ∨ ∀ p ∈ new, p.2.md5 = ss.md5 → p.2 = ss := by
      rcases hc with h | h
      · exact Or.inl h
      · refine Or.inr ?_
        intro p hp e
        apply h p.2 (by simp; exact Or.inl ⟨p.1, hp⟩) ss (by simp) e
    obtain ⟨m, inv', hbuf⟩ := sinv_addOld s old new ss inv hstep
    have hc' : (s.addOld ss).st.buf = none ∨ ∀ a ∈ (new ++ [(m, ss)]).map (·.2) ++ rest,
        ∀ b ∈ (new ++ [(m, ss)]).map (·.2) ++ rest, a.md5 = b.md5 → a = b := by
      rcases hc with h | h
      · exact Or.inl (hbuf.2 h)
      · refine Or.inr ?_
        intro a ha b hb
        apply h a (by simpa [List.map_append, List.append_assoc] using ha)
          b (by simpa [List.map_append, List.append_assoc] using hb)
    obtain ⟨new', inv'', hmap⟩ := ih (s.addOld ss) old (new ++ [(m, ss)]) inv' hc'
    refine ⟨new', by simpa [List.foldl_cons] using inv'', ?_⟩
    rw [hmap]; simp [List.map_append, List.append_assoc]

theorem sinv_fold (l : List Sig) : ∀ (s : ZipSaver) (old new : Placed), SInv s old new →
    ∃ new', SInv (l.foldl ZipSaver.add s) old new' ∧ new'.map (·.2) = new.map (·.2) ++ l := by
  induction l with
  | nil => intro s old new inv; exact ⟨new, inv, by simp⟩
  | cons ss rest ih =>
    intro s old new inv
    obtain ⟨m, inv', _⟩ := sinv_add s old new ss inv
    obtain ⟨new', inv'', hmap⟩ := ih (s.add ss) old (new ++ [(m, ss)]) inv'
    refine ⟨new', by simpa [List.foldl_cons] using inv'', ?_⟩
    rw [hmap]; simp [List.map_append, List.append_assoc]

/-! ### open and close -/

theorem sinv_open_none : ZipSaver.open none = .ok { st := { zf := [], buf := none }, rows := [] } ∧
    SInv { st := { zf := [], buf := none }, rows := [] } [] [] := by
  refine ⟨rfl, ⟨rfl, ?_, ?_, ?_, ?_⟩⟩
  · intro p hp; simp at hp
  · intro p hp; simp at hp
  · intro m c h; simp [view, read] at h
  · simp [ModeOK]

theorem sinv_open_some (z : Zip) (old : Placed) (hg : Good z old) :
    ZipSaver.open (some z) = .ok { st := { zf := z, buf := some [] }, rows := old.map rowOf } ∧
    SInv { st := { zf := z, buf := some [] }, rows := old.map rowOf } old [] := by
  refine ⟨by simp [ZipSaver.open, hg.manifest], ⟨by simp, ?_, ?_, ?_, ?_⟩⟩
  · intro p hp
    simp only [List.append_nil] at hp
    simpa [view, read] using hg.holds p hp
  · intro p hp
    rw [(hg.holds p hp).1]; simp
  · intro m c h
    simp only [view, read] at h
    simpa using hg.noOrphan m c h
  · simp [ModeOK, names, read]

theorem read_close (s : ZipSaver) (hok : ModeOK s.st) (n : Name) :
    read s.close n = if n = .manifest then some (.manifest s.rows) else view s.st n := by
  unfold ZipSaver.close RwZip.save RwZip.flush
  simp only [if_true]
  cases hb : s.st.buf with
  | none => simp only [view, hb, read_upsert]
  | some b =>
    unfold ModeOK at hok
    rw [hb] at hok
    simp only
    rw [read_unionZip _ _ (names_upsert_nodup b .manifest _ hok.1), read_upsert]
    by_cases h : n = .manifest
    · simp [h]
    · simp only [h, if_false, view, hb]
      cases read b n <;> rfl

theorem good_close (s : ZipSaver) (old new : Placed) (inv : SInv s old new) : Good s.close (old ++ new) := by
  refine ⟨?_, ?_, ?_⟩
  · rw [read_close s inv.mode, inv.rows]; simp
  · intro p hp
    rw [read_close s inv.mode]
    simpa using inv.holds p hp
  · intro m c h
    rw [read_close s inv.mode] at h
    simp only [reduceCtorEq, if_false] at h
    exact inv.noOrphan m c h

/-! ### whole sessions -/

theorem zipSessionOld_create (l : List Sig) :
    ∃ z placed, zipSessionOld none l = .ok z ∧ Good z placed ∧ placed.map (·.2) = l := by
  obtain ⟨ho, inv⟩ := sinv_open_none
  obtain ⟨new, inv', hmap⟩ := sinv_foldOld l _ [] [] inv (Or.inl rfl)
  refine ⟨_, [] ++ new, by simp [zipSessionOld, ho], good_close _ _ _ inv', by simpa using hmap⟩

theorem zipSessionOld_append (z : Zip) (old : Placed) (l : List Sig) (hg : Good z old)
    (hl : ∀ a ∈ l, ∀ b ∈ l, a.md5 = b.md5 → a = b) :
    ∃ z' new, zipSessionOld (some z) l = .ok z' ∧ Good z' (old ++ new) ∧ new.map (·.2) = l := by
  obtain ⟨ho, inv⟩ := sinv_open_some z old hg
  obtain ⟨new, inv', hmap⟩ := sinv_foldOld l _ old [] inv (Or.inr (by simpa using hl))
  exact ⟨_, new, by simp [zipSessionOld, ho], good_close _ _ _ inv', by simpa using hmap⟩

theorem zipSession_create (l : List Sig) :
    ∃ z placed, zipSession none l = .ok z ∧ Good z placed ∧ placed.map (·.2) = l := by
  obtain ⟨ho, inv⟩ := sinv_open_none
  obtain ⟨new, inv', hmap⟩ := sinv_fold l _ [] [] inv
  refine ⟨_, [] ++ new, by simp [zipSession, ho], good_close _ _ _ inv', by simpa using hmap⟩

theorem zipSession_append (z : Zip) (old : Placed) (l : List Sig) (hg : Good z old) :
    ∃ z' new, zipSession (some z) l = .ok z' ∧ Good z' (old ++ new) ∧ new.map (·.2) = l := by
  obtain ⟨ho, inv⟩ := sinv_open_some z old hg
  obtain ⟨new, inv', hmap⟩ := sinv_fold l _ old [] inv
  exact ⟨_, new, by simp [zipSession, ho], good_close _ _ _ inv', by simpa using hmap⟩

theorem zipSessionsOld_from_good (rest : List (List Sig)) : ∀ (z : Zip) (old : Placed), Good z old →
    (∀ l ∈ rest, ∀ a ∈ l, ∀ b ∈ l, a.md5 = b.md5 → a = b) →
    ∃ z' placed, zipSessionsOld (some z) rest = .ok (some z') ∧ Good z' placed ∧
      placed.map (·.2) = old.map (·.2) ++ rest.flatten := by
  induction rest with
  | nil => intro z old hg _; exact ⟨z, old, rfl, hg, by simp⟩
  | cons l more ih =>
    intro z old hg hc
    obtain ⟨z1, new, h1, hg1, hm1⟩ := zipSessionOld_append z old l hg (hc l (by simp))
    obtain ⟨z2, placed, h2, hg2, hm2⟩ := ih z1 (old ++ new) hg1 (fun l' hl' => hc l' (by simp [hl']))
    refine ⟨z2, placed, by simp [zipSessionsOld, h1, h2], hg2, ?_⟩
    rw [hm2]; simp [List.map_append, hm1, List.append_assoc]

theorem zipSessions_from_good (rest : List (List Sig)) : ∀ (z : Zip) (old : Placed), Good z old →
    ∃ z' placed, zipSessions (some z) rest = .ok (some z') ∧ Good z' placed ∧
      placed.map (·.2) = old.map (·.2) ++ rest.flatten := by
  induction rest with
  | nil => intro z old hg; exact ⟨z, old, rfl, hg, by simp⟩
  | cons l more ih =>
    intro z old hg
    obtain ⟨z1, new, h1, hg1, hm1⟩ := zipSession_append z old l hg
    obtain ⟨z2, placed, h2, hg2, hm2⟩ := ih z1 (old ++ new) hg1
    refine ⟨z2, placed, by simp [zipSessions, h1, h2], hg2, ?_⟩
    rw [hm2]; simp [List.map_append, hm1, List.append_assoc]

/-! ### loading a good zip -/

theorem mem_dedup {α : Type} [DecidableEq α] (l : List α) (x : α) : x ∈ dedup l ↔ x ∈ l := by
  induction l with
  | nil => simp [dedup]
  | cons y t ih =>
    simp only [dedup, List.mem_cons, List.mem_filter, ih]
    by_cases h : x = y
    · simp [h]
    · simp [h]

theorem dedup_of_nodup {α : Type} [DecidableEq α] (l : List α) (h : l.Nodup) : dedup l = l := by
  induction l with
  | nil => rfl
  | cons y t ih =>
    simp only [List.nodup_cons] at h
    simp only [dedup, ih h.2]
    congr 1
    rw [List.filter_eq_self]
    intro a ha
    simp only [ne_eq, decide_not, Bool.not_eq_eq_eq_not, Bool.not_true, decide_eq_false_iff_not]
    intro e; subst e; exact h.1 ha

/-- what `storage.load(loc)` + `load_signatures` + the `ss in manifest` filter yield for one location -/
def pick (z : Zip) (rows : List Row) (loc : Option Name) : List Sig :=
  match loc with
  | some n =>
    match read z n with
    | some (.sigs l) => l.filter (inManifest rows)
    | _ => []
  | none => []

theorem loadLocs_ok (z : Zip) (rows : List Row) (L : List (Option Name))
    (h : ∀ loc ∈ L, ∃ n l, loc = some n ∧ read z n = some (.sigs l) ∧ l.filter (inManifest rows) ≠ []) :
    loadLocs z rows L = .ok (L.flatMap (pick z rows)) := by
  induction L with
  | nil => rfl
  | cons loc rest ih =>
    obtain ⟨n, l, hloc, hr, hne⟩ := h loc (by simp)
    have ih' := ih (fun loc' hl => h loc' (by simp [hl]))
    subst hloc
    have hemp : (l.filter (inManifest rows)).isEmpty = false := by
      cases hf : l.filter (inManifest rows) with
      | nil => exact absurd hf hne
      | cons a t => rfl
    simp [loadLocs, hr, ih', pick, hemp]

theorem inManifest_placed (placed : Placed) (p : MName × Sig) (hp : p ∈ placed) :
    inManifest (placed.map rowOf) p.2 = true := by
  simp only [inManifest, List.map_map, List.contains_eq_mem, List.mem_map, Function.comp,
    decide_eq_true_eq]
  exact ⟨p, hp, by simp [rowOf, mkRow]⟩

theorem pick_placed (z : Zip) (placed : Placed) (hg : Good z placed) (p : MName × Sig) (hp : p ∈ placed) :
    pick z (placed.map rowOf) (some (.sig p.1)) = [p.2] := by
  simp [pick, (hg.holds p hp).1, inManifest_placed placed p hp]

/-- every way the model can reload a good zip yields exactly the placed signatures, as a set ... -/
theorem zipLoad_good_mem (z : Zip) (placed : Placed) (hg : Good z placed) :
    ∃ out, zipLoad z = .ok out ∧ ∀ s, s ∈ out ↔ s ∈ placed.map (·.2) := by
  have hloc : ∀ loc ∈ locations (placed.map rowOf), ∃ p ∈ placed, loc = some (.sig p.1) := by
    intro loc hl
    simp only [locations, mem_dedup, List.map_map, List.mem_map, Function.comp] at hl
    obtain ⟨p, hp, e⟩ := hl
    exact ⟨p, hp, by rw [← e]; simp [rowOf, mkRow]⟩
  refine ⟨(locations (placed.map rowOf)).flatMap (pick z (placed.map rowOf)), ?_, ?_⟩
  · simp only [zipLoad, hg.manifest]
    apply loadLocs_ok
    intro loc hl
    obtain ⟨p, hp, e⟩ := hloc loc hl
    exact ⟨_, _, e, (hg.holds p hp).1, by simp [inManifest_placed placed p hp]⟩
  · intro s
    simp only [List.mem_flatMap, List.mem_map]
    constructor
    · rintro ⟨loc, hl, hs⟩
      obtain ⟨p, hp, e⟩ := hloc loc hl
      subst e
      rw [pick_placed z placed hg p hp] at hs
      simp only [List.mem_singleton] at hs
      exact ⟨p, hp, hs.symm⟩
    · rintro ⟨p, hp, e⟩
      refine ⟨some (.sig p.1), ?_, ?_⟩
      · simp only [locations, mem_dedup, List.map_map, List.mem_map, Function.comp]
        exact ⟨p, hp, by simp [rowOf, mkRow]⟩
      · rw [pick_placed z placed hg p hp]; simp [e]

theorem placed_locs_nodup (z : Zip) (placed : Placed) (hg : Good z placed)
    (hnd : (placed.map (·.2)).Nodup) : (placed.map (·.1)).Nodup := by
  rw [List.Nodup, List.pairwise_map] at hnd ⊢
  apply List.Pairwise.imp_of_mem _ hnd
  intro p q hp hq hne e
  apply hne
  have h1 := (hg.holds p hp).1
  have h2 := (hg.holds q hq).1
  rw [e, h2] at h1
  simpa using h1.symm

/-- ... and, when no signature was saved twice, as the very list that was saved, in order -/
theorem zipLoad_good_nodup (z : Zip) (placed : Placed) (hg : Good z placed)
    (hnd : (placed.map (·.2)).Nodup) : zipLoad z = .ok (placed.map (·.2)) := by
  have hlocs : locations (placed.map rowOf) = placed.map (fun p => some (Name.sig p.1)) := by
    have e : (placed.map rowOf).map (·.loc) = placed.map (fun p => some (Name.sig p.1)) := by
      simp [List.map_map, Function.comp, rowOf, mkRow]
    rw [locations, e]
    apply dedup_of_nodup
    have := placed_locs_nodup z placed hg hnd
    rw [List.Nodup, List.pairwise_map] at this ⊢
    apply List.Pairwise.imp _ this
    intro p q hne e
    apply hne
    simpa using e
  simp only [zipLoad, hg.manifest, hlocs]
  rw [loadLocs_ok]
  · congr 1
    have : ∀ (l : Placed), (∀ p ∈ l, p ∈ placed) →
        (l.map (fun p => some (Name.sig p.1))).flatMap (pick z (placed.map rowOf)) = l.map (·.2) := by
      intro l
      induction l with
      | nil => intro _; rfl
      | cons p t ih =>
        intro hsub
        simp only [List.map_cons, List.flatMap_cons]
        rw [pick_placed z placed hg p (hsub p (by simp)), ih (fun q hq => hsub q (by simp [hq]))]
        rfl
    exact this placed (fun p hp => hp)
  · intro loc hl
    simp only [List.mem_map] at hl
    obtain ⟨p, hp, e⟩ := hl
    exact ⟨_, _, e.symm, (hg.holds p hp).1, by simp [inManifest_placed placed p hp]⟩

end Sm.Storage
