/-
Helper lemmas for C04, part 4: the cores of the `sourmash sig` sub-commands
(`Model/SigOps.lean`) in terms of the `count` abstraction.
-/
import SmVerif.Lemmas.SetOpsApi

namespace Sm

open MH Sig

/-! ### `track_abundance = False` -/

theorem setTrackFalse_spec {s : MH} (hs : Inv s) :
    Inv (Py.setTrackFalse s) ∧ (Py.setTrackFalse s).trackAbundance = false ∧
    (Py.setTrackFalse s).mins = s.mins ∧ (Py.setTrackFalse s).maxHash = s.maxHash ∧
    (Py.setTrackFalse s).num = s.num ∧ (Py.setTrackFalse s).ksize = s.ksize ∧
    (Py.setTrackFalse s).hf = s.hf ∧ (Py.setTrackFalse s).seed = s.seed ∧
    (∀ x, count (Py.setTrackFalse s) x = min 1 (count s x)) := by
  unfold Py.setTrackFalse
  split
  · rename_i ht
    refine ⟨hs, ht, rfl, rfl, rfl, rfl, rfl, rfl, ?_⟩
    intro x
    have := count_le_of_flat hs ht x
    omega
  · have hi : Inv s.disableAbundance :=
      ⟨hs.sorted, (by intro ab h; cases h), (by intro ab h; cases h), hs.bounded, hs.capped⟩
    refine ⟨hi, rfl, rfl, rfl, rfl, rfl, rfl, rfl, ?_⟩
    intro x
    rw [count_flat hi rfl]
    have hm := mem_iff_count_pos' hs x
    show (if x ∈ s.mins then 1 else 0) = _
    by_cases hx : x ∈ s.mins
    · have := hm.1 hx; simp [hx]; omega
    · have : ¬ 0 < count s x := fun h => hx (hm.2 h)
      simp [hx]; omega

/-! ### `sig merge` -/

def sumCounts (l : List MH) (x : Nat) : Nat := (l.map (fun s => count s x)).sum

@[simp] theorem sumCounts_nil (x : Nat) : sumCounts [] x = 0 := rfl

theorem sumCounts_cons (s : MH) (l : List MH) (x : Nat) :
    sumCounts (s :: l) x = count s x + sumCounts l x := by
  simp [sumCounts]

theorem mergeLoop_spec (first : MH) (fl : Bool) : ∀ (l : List MH) (acc r : MH),
    Scaled acc → (∀ s ∈ l, Inv s) → (fl = true → ∀ s ∈ l, Scaled s ∧ Stable s.maxHash) →
    (fl = true → acc.trackAbundance = false) →
    mergeLoop first fl acc l = .ok r →
    Scaled r ∧ r.trackAbundance = acc.trackAbundance ∧ r.maxHash = acc.maxHash ∧
    (r.ksize = acc.ksize ∧ r.hf = acc.hf ∧ r.seed = acc.seed) ∧
    (∀ x, count r x = if acc.trackAbundance then count acc x + sumCounts l x
                      else min 1 (count acc x + sumCounts l x)) := by
  intro l
  induction l with
  | nil =>
    intro acc r ha _ _ _ hr
    simp only [mergeLoop, Except.ok.injEq] at hr
    subst hr
    refine ⟨ha, rfl, rfl, ⟨rfl, rfl, rfl⟩, ?_⟩
    intro x
    simp only [sumCounts_nil, Nat.add_zero]
    split
    · rfl
    · rename_i ht
      have := count_le_of_flat ha.inv (by simpa using ht) x
      omega
  | cons s rest ih =>
    intro acc r ha hl hlf hfl hr
    unfold mergeLoop at hr
    split at hr
    · cases hr
    · have hsI : Inv s := hl s (by simp)
      split at hr
      · cases hr
      · rename_i s' hs'
        -- the operand actually merged: `s` itself, or its flattened copy
        have hop : Inv s' ∧ ∀ x, count s' x = if fl = true then min 1 (count s x) else count s x := by
          by_cases hfl' : fl = true
          · rw [if_pos hfl'] at hs'
            obtain ⟨hss, hst⟩ := hlf hfl' s (by simp)
            obtain ⟨h1, _, _, _, h5⟩ := pyFlattenD_spec hss hst hs'
            exact ⟨h1.inv, fun x => by rw [if_pos hfl']; exact h5 x⟩
          · rw [if_neg hfl'] at hs'
            cases hs'
            exact ⟨hsI, fun x => by rw [if_neg hfl']⟩
        split at hr
        · rename_i r1 hm
          have hf := merge_frame hm
          have hr1 : Scaled r1 :=
            ⟨inv_merge ha.inv hop.1 hm, hf.1.trans ha.num, by rw [hf.2.1]; exact ha.max⟩
          have hc := fun x => (count_merge_scaled' ha.inv hop.1 ha.num hm x).2
          have h := ih r1 r hr1 (fun t ht => hl t (List.mem_cons_of_mem _ ht))
            (fun hh t ht => hlf hh t (List.mem_cons_of_mem _ ht))
            (fun h => hf.2.2.2.2.2.trans (hfl h)) hr
          refine ⟨h.1, h.2.1.trans hf.2.2.2.2.2, h.2.2.1.trans hf.2.1,
            ⟨h.2.2.2.1.1.trans hf.2.2.1, h.2.2.2.1.2.1.trans hf.2.2.2.2.1,
              h.2.2.2.1.2.2.trans hf.2.2.2.1⟩, ?_⟩
          intro x
          rw [h.2.2.2.2 x, hf.2.2.2.2.2, hc x, sumCounts_cons, hop.2 x]
          by_cases ht : acc.trackAbundance = true
          · have hfl' : ¬ fl = true := fun h => by rw [hfl h] at ht; cases ht
            simp only [ht, if_true, if_neg hfl']
            omega
          · have ht' : acc.trackAbundance = false := by simpa using ht
            simp only [ht', Bool.false_eq_true, if_false]
            by_cases hfl' : fl = true
            · simp only [hfl', if_true]
              omega
            · have hfl'' : fl = false := by simpa using hfl'
              simp only [hfl'', Bool.false_eq_true, if_false]
              omega
        · cases hr

theorem sigMerge_spec {fl : Bool} {first : MH} {rest : List MH} {r : MH}
    (hf : Scaled first) (hst : Stable first.maxHash) (hl : ∀ s ∈ first :: rest, Inv s)
    (hlf : fl = true → ∀ s ∈ first :: rest, Scaled s ∧ Stable s.maxHash)
    (hr : sigMerge fl (first :: rest) = .ok r) :
    Scaled r ∧ r.trackAbundance = (if fl then false else first.trackAbundance) ∧
    r.maxHash = first.maxHash ∧
    (r.ksize = first.ksize ∧ r.hf = first.hf ∧ r.seed = first.seed) ∧
    (∀ x, count r x = if r.trackAbundance then sumCounts (first :: rest) x
                      else min 1 (sumCounts (first :: rest) x)) := by
  unfold sigMerge at hr
  simp only at hr
  split at hr
  · cases hr
  · rename_i mh0 h0
    unfold Py.copyAndClear at h0
    rw [hf.num] at h0
    obtain ⟨hs0, hM0, hT0, he0, hk0, hh0, hsd0⟩ := fresh_scaled hf.max hst h0
    have hstf := setTrackFalse_spec hs0.inv
    have hacc : Scaled (if fl = true then Py.setTrackFalse mh0 else mh0) := by
      split
      · exact ⟨hstf.1, hstf.2.2.2.2.1.trans hs0.num, by rw [hstf.2.2.2.1]; exact hs0.max⟩
      · exact hs0
    have haccT : (if fl = true then Py.setTrackFalse mh0 else mh0).trackAbundance =
        (if fl then false else first.trackAbundance) := by
      split
      · exact hstf.2.1
      · exact hT0
    have haccM : (if fl = true then Py.setTrackFalse mh0 else mh0).maxHash = first.maxHash := by
      split
      · exact hstf.2.2.2.1.trans hM0
      · exact hM0
    have haccF : (if fl = true then Py.setTrackFalse mh0 else mh0).ksize = first.ksize ∧
        (if fl = true then Py.setTrackFalse mh0 else mh0).hf = first.hf ∧
        (if fl = true then Py.setTrackFalse mh0 else mh0).seed = first.seed := by
      split
      · exact ⟨hstf.2.2.2.2.2.1.trans hk0, hstf.2.2.2.2.2.2.1.trans hh0,
          hstf.2.2.2.2.2.2.2.1.trans hsd0⟩
      · exact ⟨hk0, hh0, hsd0⟩
    have hacc0 : ∀ x, count (if fl = true then Py.setTrackFalse mh0 else mh0) x = 0 := by
      intro x
      apply count_eq_zero_of_empty hacc.inv
      split
      · exact hstf.2.2.1.trans he0
      · exact he0
    have h := mergeLoop_spec first fl (first :: rest) _ r hacc hl hlf
      (fun h => by rw [haccT, h]; rfl) hr
    refine ⟨h.1, h.2.1.trans haccT, h.2.2.1.trans haccM,
      ⟨h.2.2.2.1.1.trans haccF.1, h.2.2.2.1.2.1.trans haccF.2.1,
        h.2.2.2.1.2.2.trans haccF.2.2⟩, ?_⟩
    intro x
    rw [h.2.2.2.2 x, h.2.1, hacc0 x, Nat.zero_add]

/-! ### the loops of `sig intersect` / `sig subtract` -/

theorem mem_interUpdate (m : List Nat) (o : MH) (x : Nat) :
    x ∈ interUpdate m o ↔ x ∈ m ∧ x ∈ o.mins := by
  simp [interUpdate, List.mem_filter]

theorem mem_diffUpdate (m : List Nat) (o : MH) (x : Nat) :
    x ∈ diffUpdate m o ↔ x ∈ m ∧ x ∉ o.mins := by
  simp [diffUpdate, List.mem_filter]

theorem interUpdate_sublist (m : List Nat) (o : MH) : (interUpdate m o).Sublist m :=
  List.filter_sublist

theorem diffUpdate_sublist (m : List Nat) (o : MH) : (diffUpdate m o).Sublist m :=
  List.filter_sublist

theorem interLoop_spec (first : MH) : ∀ (rest : List MH) (m mins : List Nat),
    interLoop first m rest = .ok mins →
    mins.Sublist m ∧ (∀ x, x ∈ mins ↔ x ∈ m ∧ ∀ o ∈ rest, x ∈ o.mins) ∧
    (∀ o ∈ rest, isCompatible o first = true) := by
  intro rest
  induction rest with
  | nil =>
    intro m mins h
    simp only [interLoop, Except.ok.injEq] at h
    subst h
    exact ⟨List.Sublist.refl _, by simp, by simp⟩
  | cons o rest ih =>
    intro m mins h
    unfold interLoop at h
    split at h
    · cases h
    · rename_i hc
      have := ih _ _ h
      refine ⟨this.1.trans (interUpdate_sublist m o), ?_, ?_⟩
      · intro x
        rw [this.2.1 x, mem_interUpdate]
        simp only [List.mem_cons, forall_eq_or_imp]
        constructor
        · rintro ⟨⟨h1, h2⟩, h3⟩; exact ⟨h1, h2, h3⟩
        · rintro ⟨h1, h2, h3⟩; exact ⟨⟨h1, h2⟩, h3⟩
      · intro o' ho'
        rcases List.mem_cons.1 ho' with rfl | ho'
        · simpa using hc
        · exact this.2.2 o' ho'

theorem subLoop_spec (frm : MH) (fl : Bool) : ∀ (rest : List MH) (m mins : List Nat),
    subLoop frm fl m rest = .ok mins →
    mins.Sublist m ∧ (∀ x, x ∈ mins ↔ x ∈ m ∧ ∀ o ∈ rest, x ∉ o.mins) ∧
    (∀ o ∈ rest, isCompatible o frm = true ∧ (o.trackAbundance = true → fl = true)) := by
  intro rest
  induction rest with
  | nil =>
    intro m mins h
    simp only [subLoop, Except.ok.injEq] at h
    subst h
    exact ⟨List.Sublist.refl _, by simp, by simp⟩
  | cons o rest ih =>
    intro m mins h
    unfold subLoop at h
    split at h
    · cases h
    · rename_i hc
      split at h
      · cases h
      · rename_i hc2
        have := ih _ _ h
        refine ⟨this.1.trans (diffUpdate_sublist m o), ?_, ?_⟩
        · intro x
          rw [this.2.1 x, mem_diffUpdate]
          simp only [List.mem_cons, forall_eq_or_imp]
          constructor
          · rintro ⟨⟨h1, h2⟩, h3⟩; exact ⟨h1, h2, h3⟩
          · rintro ⟨h1, h2, h3⟩; exact ⟨⟨h1, h2⟩, h3⟩
        · intro o' ho'
          rcases List.mem_cons.1 ho' with rfl | ho'
          · refine ⟨by simpa using hc, ?_⟩
            intro ht
            cases hfl : fl
            · exact absurd ⟨ht, by simp [hfl]⟩ hc2
            · rfl
          · exact this.2.2 o' ho'

/-! ### `copy_and_clear().flatten()`, `add_many(mins)`, optional `inflate` -/

theorem rebuild_none_spec {first : MH} {mins : List Nat} {r : MH} (hf : Scaled first)
    (hst : Stable first.maxHash) (hr : rebuild first mins none = .ok r) :
    Scaled r ∧ r.trackAbundance = false ∧ r.maxHash = first.maxHash ∧
    (r.ksize = first.ksize ∧ r.hf = first.hf ∧ r.seed = first.seed) ∧
    (∀ x, count r x = if x ∈ mins ∧ x ≤ first.maxHash then 1 else 0) := by
  unfold rebuild at hr
  split at hr
  · cases hr
  · rename_i c hc
    unfold Py.copyAndClear at hc
    rw [hf.num] at hc
    obtain ⟨hsc, hcM, _, hce, hck, hch, hcs⟩ := fresh_scaled hf.max hst hc
    split at hr
    · cases hr
    · rename_i f hfl
      simp only [Except.ok.injEq] at hr
      subst hr
      obtain ⟨hsf, hfT, hfM, hfF, hfc⟩ := pyFlattenD_spec hsc (by rw [hcM]; exact hst) hfl
      have fr := addMany_frame f mins
      refine ⟨hsf.addMany mins, fr.2.2.2.2.2.trans hfT, (fr.2.1.trans hfM).trans hcM,
        ⟨(fr.2.2.1.trans hfF.1).trans hck, (fr.2.2.2.2.1.trans hfF.2.1).trans hch,
          (fr.2.2.2.1.trans hfF.2.2).trans hcs⟩, ?_⟩
      intro x
      have hf0 : count f x = 0 := by
        rw [hfc x, count_eq_zero_of_empty hsc.inv hce]; rfl
      rw [count_addMany_scaled hsf, hfT, hf0, hfM, hcM]
      by_cases c : x > first.maxHash
      · have : ¬ x ≤ first.maxHash := by omega
        simp [c, this]
      · have : x ≤ first.maxHash := by omega
        simp [c, this]

theorem rebuild_some_eq (first : MH) (mins : List Nat) (ab : MH) :
    rebuild first mins (some ab) =
      match rebuild first mins none with
      | .error e => .error e
      | .ok r0 => if !ab.trackAbundance then .error .exit else lift (Py.inflate r0 ab) := by
  unfold rebuild
  cases Py.copyAndClear first with
  | error e => rfl
  | ok c =>
    simp only
    cases Py.flattenD c with
    | error e => rfl
    | ok f => rfl

theorem lift_ok {α : Type} {e : Except MH.Err α} {a : α} (h : lift e = .ok a) : e = .ok a := by
  cases e with
  | error _ => cases h
  | ok b => simp only [lift, Except.ok.injEq] at h; rw [h]

theorem rebuild_some_spec {first ab : MH} {mins : List Nat} {r : MH} (hf : Scaled first)
    (hst : Stable first.maxHash) (hsd : StableDown first.maxHash) (hab : Scaled ab)
    (hsta : Stable ab.maxHash) (hr : rebuild first mins (some ab) = .ok r) :
    Scaled r ∧ r.trackAbundance = true ∧ r.maxHash = first.maxHash ∧
    (∀ x, count r x = if x ∈ mins ∧ x ≤ first.maxHash then count ab x else 0) := by
  rw [rebuild_some_eq] at hr
  split at hr
  · cases hr
  · rename_i r0 h0
    split at hr
    · cases hr
    · have hi := lift_ok hr
      obtain ⟨hs0, _, hm0, _, hc0⟩ := rebuild_none_spec hf hst h0
      obtain ⟨hsr, hrT, hrM, _, _, _, hrc⟩ :=
        pyInflate_spec hs0 hab hsta (by rw [hm0]; exact hsd) hi
      refine ⟨hsr, hrT, hrM.trans hm0, ?_⟩
      intro x
      rw [hrc x]
      have hm := mem_iff_count_pos' hs0.inv x
      rw [hc0 x] at hm
      by_cases c : x ∈ mins ∧ x ≤ first.maxHash
      · rw [if_pos c] at hm
        rw [if_pos (hm.2 (by omega)), if_pos c]
      · rw [if_neg c] at hm
        have : x ∉ r0.mins := fun h => by have := hm.1 h; omega
        rw [if_neg this, if_neg c]

/-! ### `sig intersect`, `sig subtract` -/

theorem mem_interUpdate_self (s : MH) (x : Nat) : x ∈ interUpdate s.mins s ↔ x ∈ s.mins := by
  rw [mem_interUpdate]; exact and_self_iff

/-- the hash list `sig intersect` hands to `add_many` -/
theorem sigIntersect_mins {first : MH} {rest : List MH} {mins : List Nat}
    (h : interLoop first (interUpdate first.mins first) rest = .ok mins) :
    mins.Sublist first.mins ∧ ∀ x, x ∈ mins ↔ ∀ s ∈ first :: rest, x ∈ s.mins := by
  have := interLoop_spec first rest _ _ h
  refine ⟨this.1.trans (interUpdate_sublist _ _), ?_⟩
  intro x
  rw [this.2.1 x, mem_interUpdate_self]
  simp only [List.mem_cons, forall_eq_or_imp]

theorem sigIntersect_eq (first : MH) (rest : List MH) (ab : Option MH) :
    sigIntersect (first :: rest) ab =
      match interLoop first (interUpdate first.mins first) rest with
      | .error e => .error e
      | .ok mins => rebuild first mins ab := rfl

theorem sigSubtract_eq (frm : MH) (others : List MH) (fl : Bool) (ab : Option MH) :
    sigSubtract frm others fl ab =
      if frm.trackAbundance ∧ !(fl || ab.isSome) then .error .exit
      else match subLoop frm (fl || ab.isSome) frm.mins others with
        | .error e => .error e
        | .ok mins => if others.isEmpty then .error .exit else rebuild frm mins ab := rfl

/-! ### `sig filter` -/

theorem sigFilter_spec {s r : MH} {mn : Nat} {mx : Option Nat} (hs : Scaled s)
    (hst : Stable s.maxHash) (hr : sigFilter s mn mx = .ok (some r)) :
    Scaled r ∧ r.trackAbundance = true ∧ s.trackAbundance = true ∧ r.maxHash = s.maxHash ∧
    (∀ x, count r x = if keepAbund mn mx (count s x) then count s x else 0) := by
  unfold sigFilter at hr
  split at hr
  · cases hr
  · rename_i ht
    have hts : s.trackAbundance = true := by simpa using ht
    simp only at hr
    split at hr
    · cases hr
    · rename_i c hc
      unfold Py.copyAndClear at hc
      rw [hs.num, hts] at hc
      obtain ⟨hsc, hcM, hcT, _, _, _, _⟩ := fresh_scaled hs.max hst hc
      split at hr
      · cases hr
      · rename_i r' hsa
        simp only [Except.ok.injEq, Option.some.injEq] at hr
        subst hr
        unfold Py.setAbundances at hsa
        rw [if_pos hcT] at hsa
        cases hsa
        have hnd0 : (s.pairs.map Prod.fst).Nodup := by
          rw [pairs_keys hs.inv.toW]; exact hs.inv.sorted.nodup
        have hnd : ((s.pairs.filter (fun p => keepAbund mn mx p.2)).map Prod.fst).Nodup :=
          (keys_filter_sublist _ _).nodup hnd0
        have h := count_ffiSetAbundances_clear hsc _ hnd
        have e : c.ffiSetAbundances (s.pairs.filter (fun p => keepAbund mn mx p.2)) true =
            c.clear.addManyAb (MH.sortPairs (s.pairs.filter (fun p => keepAbund mn mx p.2))) := by
          simp [MH.ffiSetAbundances]
        have f := addManyAb_frame c.clear
          (MH.sortPairs (s.pairs.filter (fun p => keepAbund mn mx p.2)))
        have hT : c.clear.trackAbundance = c.trackAbundance := by
          simp only [MH.clear, MH.trackAbundance]; cases c.abunds <;> rfl
        refine ⟨h.1, ?_, hts, ?_, ?_⟩
        · rw [e]; exact (f.2.2.2.2.2.trans hT).trans hcT
        · rw [e]; exact f.2.1.trans hcM
        · intro x
          rw [h.2 x, hcM, hcT, if_pos rfl, cnt_filter_snd hnd0 (keepAbund mn mx) x, ← count_eq_cnt]
          by_cases cgt : x > s.maxHash
          · rw [if_pos cgt, count_eq_zero_of_gt hs cgt]; simp
          · rw [if_neg cgt]

/-! ### `sig downsample`, scaled to scaled -/

theorem sigDownsample_scaled_eq (s : MH) (sc : Nat) (hsc : sc ≠ 0) (h0 : Py.scaledProp s ≠ 0) :
    sigDownsample s 0 sc =
      if Py.scaledProp s = sc then .ok s else lift (Py.downsample s none (some sc)) := by
  unfold sigDownsample
  rw [if_neg (by simp [hsc]), if_neg (by simp), if_pos hsc, if_pos h0]
  unfold Py.frozenDownsample
  simp only
  by_cases h : Py.scaledProp s = sc
  · have : (sc != 0 && Py.scaledProp s == sc) = true := by simp [hsc, h]
    rw [if_pos this, if_pos h]; rfl
  · have : ¬ (sc != 0 && Py.scaledProp s == sc) = true := by simp [h]
    rw [if_neg this, if_neg h]
    simp

end Sm
