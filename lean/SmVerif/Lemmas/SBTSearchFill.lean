/-
A full `save` + `load` of an insertion-built tree, and `_fill_up`, against the Cover invariant.
-/
import SmVerif.Lemmas.SBTSearchCore

namespace Sm.SBT

open Sm.NG

/-! ### a full `save` + `load` of an insertion-built tree -/

theorem save_nodes_get? (t : Tree) (omitted : Nat → Bool) (p : Nat) :
    PMap.get? (save t omitted).nodes p =
      if omitted p = true then none else (t.nodes.get? p).map (fun n => (⟨n.data t.sizes, n.minN⟩ : SavedNode)) := by
  have e2 : PMap.get? (save t omitted).nodes p = _ :=
    PMap.get?_map_val (t.nodes.filter (fun kv => !omitted kv.1))
      (fun n : INode => (⟨n.data t.sizes, n.minN⟩ : SavedNode)) p
  have e3 := PMap.get?_filter_key t.nodes (fun k => !omitted k) p
  rw [e2, e3]
  cases omitted p <;> simp

theorem listMax_zero_cons_le {l : List Nat} {M : Nat} (h : ∀ x ∈ l, x ≤ M) : listMax (0 :: l) ≤ M := by
  show l.foldl max 0 ≤ M
  rcases foldl_max_mem l 0 with h0 | h0
  · omega
  · exact h _ h0

/-- after a full save the recomputed `_missing_nodes` list of an insertion-shaped tree is empty -/
theorem loadMissing_save_shape {t : Tree} {m M : Nat} (hs : Shape t m M) :
    loadMissing (save t (fun _ => false)) = [] := by
  unfold loadMissing
  rw [List.filter_eq_nil_iff]
  intro i hi
  have hmax : listMax (0 :: (PMap.keys (save t (fun _ => false)).nodes ++ PMap.keys (save t (fun _ => false)).leaves)) ≤ M := by
    apply listMax_zero_cons_le
    intro x hx
    rcases List.mem_append.mp hx with hx | hx
    · have h1 := PMap.mem_keys_iff.mp hx
      rw [save_nodes_get?] at h1
      simp only [Bool.false_eq_true, ↓reduceIte, Option.isSome_map] at h1
      have := (hs.nodes x).mp h1
      have := hs.mM
      omega
    · have h1 : (t.leaves.get? x).isSome = true := PMap.mem_keys_iff.mp hx
      exact ((hs.leaves x).mp h1).2
  have hi' : i < M := by have := List.mem_range.mp hi; omega
  have hn := loadNodes_save_get? t (fun _ => false) i
  simp only [Bool.false_eq_true, ↓reduceIte] at hn
  have hl : (save t (fun _ => false)).leaves = t.leaves := rfl
  simp only [PMap.has, hn, hl, Option.isSome_map, Bool.and_eq_true, Bool.not_eq_true', not_and, Bool.not_eq_false]
  intro h1
  have h2 : ¬ i < m := by
    intro hlt
    rw [(hs.nodes i).mpr hlt] at h1; cases h1
  exact (hs.leaves i).mpr ⟨by omega, by omega⟩

/-- **T3**: an insertion-built tree survives a full save + load (index versions 4-6) with its invariant,
comes back clean, has nothing missing and an empty node cache -/
theorem insInv_after_full_load {fixed : Bool} {t t' : Tree} {ver : Nat} (cm : Option Nat) (hv : ver ≠ 3)
    (h : InsInv t) (hl : load fixed (save t (fun _ => false)) ver cm = .ok t') :
    InsInv t' ∧ Clean t' ∧ t'.leaves = t.leaves ∧ t'.missing = [] ∧ t'.cache = [] ∧ t'.d = t.d ∧ t'.sizes = t.sizes := by
  obtain ⟨hb, hc, hsh⟩ := h
  obtain ⟨hb', hc', hcl', hle, hd, hsz, _, _⟩ := load_save_cover (fun _ => false) cm hv hb hc hl
  have hcache : t'.cache = [] := by rw [load_ok hv hl]
  suffices hsuff : (IsEmpty t' ∨ ∃ m M, Shape t' m M) ∧ t'.missing = [] from
    ⟨⟨hb', hc', hsuff.1⟩, hcl', hle, hsuff.2, hcache, hd, hsz⟩
  rcases hsh with he | ⟨m, M, hs⟩
  · exfalso
    unfold load at hl
    have : (save t (fun _ => false)).leaves = [] := he.2.1
    rw [this] at hl
    simp at hl
  · have ht' := load_ok hv hl
    have hnodes : t'.nodes = loadNodes (save t (fun _ => false)) := by rw [ht']
    have hmiss : t'.missing = [] := by
      have : t'.missing = loadMissing (save t (fun _ => false)) := by rw [ht']
      rw [this]; exact loadMissing_save_shape hs
    refine ⟨Or.inr ⟨m, M, hs.m1, hs.mM, by rw [hd]; exact hs.Mdm, ?_, ?_, ?_⟩, hmiss⟩
    · intro p
      rw [hnodes, loadNodes_save_get?]
      simp only [Bool.false_eq_true, ↓reduceIte, Option.isSome_map]
      exact hs.nodes p
    · intro p; rw [hle]; exact hs.leaves p
    · intro a ha; rw [hmiss] at ha; cases ha

/-- inserting into a fully saved and reloaded insertion-built tree succeeds and keeps the invariant -/
theorem insert_after_full_load {fixed fixed' pre : Bool} {t t' : Tree} {ver : Nat} (cm : Option Nat) (hv : ver ≠ 3)
    (h : InsInv t) (hl : load fixed (save t (fun _ => false)) ver cm = .ok t') (l : Leaf) :
    ∃ t'', addNode fixed' pre t' l = .ok t'' ∧ InsInv t'' ∧ t''.d = t.d ∧ t''.sizes = t.sizes ∧
      (∃ p, t''.leaves.get? p = some l) ∧
      (∀ p0 l0, t.leaves.get? p0 = some l0 → ∃ p', t''.leaves.get? p' = some l0) := by
  obtain ⟨hinv, _, hle, _, _, hd, hsz⟩ := insInv_after_full_load cm hv h hl
  obtain ⟨t'', h1, h2, h3, h4, h5, h6⟩ := addNode_inv (fixed := fixed') (pre := pre) hinv l
  refine ⟨t'', h1, h2, h3.trans hd, h4.trans hsz, h5, ?_⟩
  intro p0 l0 h0
  exact h6 p0 l0 (by rw [hle]; exact h0)

/-! ### `_fill_up` -/

/-- the "is the parent there?" part of one `_fill_up` iteration -/
def fillStep (fixed : Bool) (t : Tree) (pp : Nat) : Except Err (Option (Tree × Bool)) :=
  match t.at pp with
  | .none =>
    if t.missing.contains pp then do
      let t ← rebuild fixed t.rebuildFuel t pp
      pure (some (t, true))
    else pure none
  | _ => pure (some (t, false))

theorem fillUpLoop_zero (fixed : Bool) (fn : Tree → Nat → INode → INode × Bool) (t : Tree) (visited queue : List Nat) :
    fillUpLoop fixed fn 0 t visited queue = .error .fuel := by
  rw [fillUpLoop]

theorem fillUpLoop_nil (fixed : Bool) (fn : Tree → Nat → INode → INode × Bool) (fuel : Nat) (t : Tree) (visited : List Nat) :
    fillUpLoop fixed fn (fuel + 1) t visited [] = .ok t := by
  rw [fillUpLoop]

theorem fillUpLoop_cons (fixed : Bool) (fn : Tree → Nat → INode → INode × Bool) (fuel : Nat) (t : Tree)
    (visited : List Nat) (nodeP : Nat) (queue : List Nat) :
    fillUpLoop fixed fn (fuel + 1) t visited (nodeP :: queue) =
      if nodeP = 0 then (if queue.isEmpty then .ok t else .error .assertion)
      else
        match fillStep fixed t (parent t.d nodeP) with
        | .error e => .error e
        | .ok none => fillUpLoop fixed fn fuel t visited queue
        | .ok (some (t1, wasMissing)) =>
          if visited.contains nodeP then fillUpLoop fixed fn fuel t1 visited queue
          else
            match t1.at (parent t.d nodeP) with
            | .node n =>
              fillUpLoop fixed fn fuel { t1 with nodes := t1.nodes.set (parent t.d nodeP) (fn t1 (parent t.d nodeP) n).1 }
                (((List.range t1.d).map (child t1.d (parent t.d nodeP))).reverse ++ nodeP :: visited)
                (if (fn t1 (parent t.d nodeP) n).2 || wasMissing
                  then ((List.range t1.d).map (child t1.d (parent t.d nodeP))).foldl (fun q s => removeFirst s q) queue ++ [parent t.d nodeP]
                  else ((List.range t1.d).map (child t1.d (parent t.d nodeP))).foldl (fun q s => removeFirst s q) queue)
            | .leaf _ => .error .attribute
            | .none => .error .key := by
  rw [fillUpLoop]
  rfl

theorem fillStep_ok {fixed : Bool} {t t1 : Tree} {pp : Nat} {w : Bool} (hfm : fixed = true ∨ t.missing = [])
    (hb : Base t) (hc : Cover t) (h : fillStep fixed t pp = .ok (some (t1, w))) : Base t1 ∧ Cover t1 ∧ Frame t t1 := by
  unfold fillStep at h
  split at h
  · split at h
    · rename_i hm
      rcases hfm with rfl | hmiss
      · cases hr : rebuild true t.rebuildFuel t pp with
        | error e => rw [hr] at h; cases h
        | ok t2 =>
          rw [hr] at h
          simp only [bind, Except.bind, pure, Except.pure, Except.ok.injEq, Option.some.injEq, Prod.mk.injEq] at h
          obtain ⟨rfl, _⟩ := h
          obtain ⟨hb2, hc2⟩ := rebuild_fixed_cover hb hc hr
          exact ⟨hb2, hc2, (step_rebuild_fixed (keep := true) hr).frame⟩
      · rw [hmiss] at hm; cases hm
    · simp [pure, Except.pure] at h
  · simp only [pure, Except.pure, Except.ok.injEq, Option.some.injEq, Prod.mk.injEq] at h
    obtain ⟨rfl, _⟩ := h
    exact ⟨hb, hc, Frame.refl _⟩

theorem at_node_inv {t : Tree} {p : Nat} {n : INode} (h : t.at p = .node n) :
    t.leaves.get? p = none ∧ t.nodes.get? p = some n := by
  unfold Tree.at at h
  split at h
  · cases h
  · rename_i hl
    split at h
    · rename_i m hm; cases h; exact ⟨hl, hm⟩
    · cases h

/-- replacing an internal node by one that covers at least as much -/
theorem setNode_cover {t : Tree} {pp : Nat} {n n' : INode} (hb : Base t) (hc : Cover t)
    (hn : t.nodes.get? pp = some n) (hd : DataOK t.sizes n') (hh : ∀ l, Holds t.sizes n l → Holds t.sizes n' l) :
    Base { t with nodes := t.nodes.set pp n' } ∧ Cover { t with nodes := t.nodes.set pp n' } := by
  refine ⟨⟨hb.d2, hb.sizes, ?_⟩, ?_⟩
  · intro q m hm
    have hm' : PMap.get? (PMap.set t.nodes pp n') q = some m := hm
    rw [PMap.get?_set] at hm'
    split at hm'
    · cases hm'; exact hd
    · exact hb.nodesOK q m hm'
  · intro p l hl a ha
    obtain ⟨h1, h2⟩ := hc p l hl a ha
    refine ⟨h1, ?_⟩
    show match PMap.get? (PMap.set t.nodes pp n') a with
      | some n => Holds t.sizes n l
      | none => a ∈ t.missing
    rw [PMap.get?_set]
    by_cases hap : a = pp
    · subst hap
      rw [if_pos rfl]
      rw [hn] at h2
      exact hh l h2
    · rw [if_neg hap]; exact h2

/-- what `_fill_up` needs from its callback: the new node is well-shaped and covers what the old one did -/
def FnOK (fn : Tree → Nat → INode → INode × Bool) : Prop :=
  ∀ t pp n, Base t → t.nodes.get? pp = some n →
    DataOK t.sizes (fn t pp n).1 ∧ ∀ l, Holds t.sizes n l → Holds t.sizes (fn t pp n).1 l

/-- the loop invariant of `_fill_up` -/
theorem fillUpLoop_preserves {fixed : Bool} {fn : Tree → Nat → INode → INode × Bool} (hfn : FnOK fn) :
    ∀ (fuel : Nat) (t : Tree) (visited queue : List Nat) (t' : Tree), (fixed = true ∨ t.missing = []) →
    Base t → Cover t → fillUpLoop fixed fn fuel t visited queue = .ok t' → Base t' ∧ Cover t' ∧ Frame t t' := by
  intro fuel
  induction fuel with
  | zero => intro t visited queue t' _ _ _ h; rw [fillUpLoop_zero] at h; cases h
  | succ fuel ih =>
    intro t visited queue t' hfm hb hc h
    cases queue with
    | nil => rw [fillUpLoop_nil] at h; cases h; exact ⟨hb, hc, Frame.refl _⟩
    | cons nodeP queue =>
      rw [fillUpLoop_cons] at h
      split at h
      · split at h
        · cases h; exact ⟨hb, hc, Frame.refl _⟩
        · cases h
      · split at h
        · cases h
        · exact ih _ _ _ _ hfm hb hc h
        · rename_i t1 w hfs
          obtain ⟨hb1, hc1, hf1⟩ := fillStep_ok hfm hb hc hfs
          have hfm1 : fixed = true ∨ t1.missing = [] := by rw [hf1.missing]; exact hfm
          split at h
          · obtain ⟨hb', hc', hf'⟩ := ih _ _ _ _ hfm1 hb1 hc1 h
            exact ⟨hb', hc', hf1.trans hf'⟩
          · split at h
            · rename_i n hat
              obtain ⟨_, hn⟩ := at_node_inv hat
              obtain ⟨hdn, hhn⟩ := hfn t1 _ n hb1 hn
              obtain ⟨hb2, hc2⟩ := setNode_cover hb1 hc1 hn hdn hhn
              obtain ⟨hb', hc', hf'⟩ := ih { t1 with nodes := t1.nodes.set (parent t.d nodeP) (fn t1 (parent t.d nodeP) n).1 }
                _ _ _ hfm1 hb2 hc2 h
              have hf2 : Frame t1 { t1 with nodes := t1.nodes.set (parent t.d nodeP) (fn t1 (parent t.d nodeP) n).1 } :=
                ⟨rfl, rfl, rfl, rfl, rfl⟩
              exact ⟨hb', hc', hf1.trans (hf2.trans hf')⟩
            · cases h
            · cases h

theorem fillGraph_fold_ext {t : Tree} (hb : Base t) (pp : Nat) : ∀ (is : List Nat) (n : INode),
    Ext t.sizes n (is.foldl (fun n i =>
      match t.at (child t.d pp i) with
      | .leaf l => leafUpdate t.sizes l n
      | .node c => nodeUpdate t.sizes c n
      | .none => n) n) := by
  intro is
  induction is with
  | nil => intro n; exact Ext.refl _ _
  | cons i is ih =>
    intro n
    rw [List.foldl_cons]
    refine Ext.trans ?_ (ih _)
    cases hat : t.at (child t.d pp i) with
    | leaf l => exact leafUpdate_ext hb.sizes l n
    | node c => exact nodeUpdate_ext hb.sizes (hb.nodesOK _ c (at_node_inv hat).2) n
    | none => exact Ext.refl _ _

theorem fillGraphFn_ok : FnOK fillGraphFn := by
  intro t pp n hb hn
  exact fillGraph_fold_ext hb pp (List.range t.d) n (hb.nodesOK pp n hn)

theorem foldl_le_init {α : Type} (f : Nat → α → Nat) (hf : ∀ m a, f m a ≤ m) : ∀ (l : List α) (x : Nat), l.foldl f x ≤ x := by
  intro l
  induction l with
  | nil => intro x; exact Nat.le_refl _
  | cons a l ih => intro x; rw [List.foldl_cons]; exact Nat.le_trans (ih _) (hf x a)

theorem fillMinFn_ok : FnOK fillMinFn := by
  intro t pp n hb hn
  have hdn := hb.nodesOK pp n hn
  refine ⟨⟨hdn.1, hdn.2⟩, ?_⟩
  intro l ⟨hh, m0, hm0, hle⟩
  have key : ∀ r, r ≤ m0 → clamp r ≤ max 1 l.hashes.length := by
    intro r hr; unfold clamp; split <;> omega
  refine ⟨hh, _, rfl, key _ ?_⟩
  refine Nat.le_trans (foldl_le_init _ ?_ _ _) (by rw [hm0]; exact Nat.le_refl _)
  intro m a
  split
  · exact Nat.min_le_right _ _
  · exact Nat.min_le_right _ _
  · exact Nat.le_refl _

/-- `_fill_up` with a well-behaved callback keeps a covered tree covered -/
theorem fillUp_preserves {fixed : Bool} {fn : Tree → Nat → INode → INode × Bool} (hfn : FnOK fn) {t t' : Tree}
    (hfm : fixed = true ∨ t.missing = []) (hb : Base t) (hc : Cover t) (h : fillUp fixed fn t = .ok t') :
    Base t' ∧ Cover t' ∧ Frame t t' :=
  fillUpLoop_preserves hfn _ _ _ _ _ hfm hb hc h

/-- **T4**: `_fill_internal` never damages a covered tree (repaired `_rebuild_node`); no side condition -/
theorem fillUp_graph_preserves {t t' : Tree} (hb : Base t) (hc : Cover t) (h : fillInternal true t = .ok t') :
    Base t' ∧ Cover t' := by
  obtain ⟨h1, h2, _⟩ := fillUp_preserves fillGraphFn_ok (Or.inl rfl) hb hc h
  exact ⟨h1, h2⟩

/-- **T4**: `_fill_min_n_below` never damages a covered tree (repaired `_rebuild_node`); no side condition -/
theorem fillUp_min_preserves {t t' : Tree} (hb : Base t) (hc : Cover t) (h : fillMinNBelow true t = .ok t') :
    Base t' ∧ Cover t' := by
  obtain ⟨h1, h2, _⟩ := fillUp_preserves fillMinFn_ok (Or.inl rfl) hb hc h
  exact ⟨h1, h2⟩

/-- the same for the shipped `_rebuild_node` when nothing is missing (it is then never called), with the frame -/
theorem fillUp_graph_preserves_nomissing {fixed : Bool} {t t' : Tree} (hb : Base t) (hc : Cover t) (hm : t.missing = [])
    (h : fillInternal fixed t = .ok t') : Base t' ∧ Cover t' ∧ t'.leaves = t.leaves ∧ t'.missing = t.missing := by
  obtain ⟨h1, h2, h3⟩ := fillUp_preserves fillGraphFn_ok (Or.inr hm) hb hc h
  exact ⟨h1, h2, h3.leaves, h3.missing⟩

theorem fillUp_min_preserves_nomissing {fixed : Bool} {t t' : Tree} (hb : Base t) (hc : Cover t) (hm : t.missing = [])
    (h : fillMinNBelow fixed t = .ok t') : Base t' ∧ Cover t' ∧ t'.leaves = t.leaves ∧ t'.missing = t.missing := by
  obtain ⟨h1, h2, h3⟩ := fillUp_preserves fillMinFn_ok (Or.inr hm) hb hc h
  exact ⟨h1, h2, h3.leaves, h3.missing⟩

end Sm.SBT
