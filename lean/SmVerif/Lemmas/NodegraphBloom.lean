/-
Bloom-filter laws of the `Nodegraph` model: `count` / `get` / `addMany` / `update` / `new`.
-/
import SmVerif.Model.Nodegraph

namespace Sm

/-! ### `BitSet` helpers -/
namespace BitSet

theorem div32_lt_nblocks {bit len : Nat} (h : bit < len) : bit / 32 < nblocks len := by
  unfold nblocks; split <;> omega

/-- inside the length, `contains` is `testBit` -/
theorem contains_of_lt {b : BitSet} {bit : Nat} (h : bit < b.length) :
    b.contains bit = b.bits.testBit bit := by
  simp [contains, div32_lt_nblocks h]

theorem contains_imp_testBit {b : BitSet} {bit : Nat} (h : b.contains bit = true) :
    b.bits.testBit bit = true := by
  simp [contains] at h; exact h.2

@[simp] theorem put_length (b : BitSet) (bit : Nat) : (b.put bit).1.length = b.length := rfl

@[simp] theorem put_bits (b : BitSet) (bit : Nat) :
    (b.put bit).1.bits = b.bits ||| (1 <<< bit) := rfl

@[simp] theorem put_snd (b : BitSet) (bit : Nat) : (b.put bit).2 = b.bits.testBit bit := rfl

theorem put_bits_lt {b : BitSet} {bit : Nat} (hb : b.bits < 2 ^ b.length) (h : bit < b.length) :
    (b.put bit).1.bits < 2 ^ (b.put bit).1.length := by
  rw [put_bits, put_length, Nat.one_shiftLeft]
  exact Nat.or_lt_two_pow hb (Nat.pow_lt_pow_right (by omega) h)

theorem testBit_or_one_shiftLeft (a i j : Nat) :
    (a ||| (1 <<< i)).testBit j = (a.testBit j || decide (i = j)) := by
  rw [Nat.testBit_or, Nat.one_shiftLeft, Nat.testBit_two_pow]

/-- the bit just put is there -/
theorem contains_put_self {b : BitSet} {bit : Nat} (h : bit < b.length) :
    (b.put bit).1.contains bit = true := by
  rw [contains_of_lt (by simpa using h), put_bits, testBit_or_one_shiftLeft]; simp

/-- `put` never clears a bit -/
theorem contains_put_of_contains {b : BitSet} {bit x : Nat} (h : b.contains x = true) :
    (b.put bit).1.contains x = true := by
  simp only [contains, put_length, put_bits, Bool.and_eq_true, decide_eq_true_eq] at h ⊢
  refine ⟨decide_eq_true h.1, ?_⟩
  rw [testBit_or_one_shiftLeft, h.2]; rfl

/-- with equal lengths `unionWith` is a plain OR -/
theorem unionWith_of_length_eq {b o : BitSet} (h : b.length = o.length) :
    b.unionWith o = { length := b.length, bits := b.bits ||| o.bits } := by
  simp [unionWith, grow, h]

end BitSet

namespace NG
open BitSet

/-! ### `count` -/

theorem countLoop_fst (h : Nat) : ∀ (bs : List BitSet) (i : Nat),
    (countLoop h bs i).1 = bs.map (fun b => (b.put (h % b.length)).1)
  | [], _ => rfl
  | b :: rest, i => by
    have ih := countLoop_fst h rest (i + 1)
    simp only [countLoop, List.map_cons, ← ih]

theorem count_bs (g : NG) (h : Nat) :
    (g.count h).1.bs = g.bs.map (fun b => (b.put (h % b.length)).1) := by
  rw [← countLoop_fst h g.bs 0]; rfl

@[simp] theorem count_ksize (g : NG) (h : Nat) : (g.count h).1.ksize = g.ksize := rfl

theorem count_sizes (g : NG) (h : Nat) : (g.count h).1.sizes = g.sizes := by
  simp [sizes, count_bs, List.map_map, Function.comp_def]

theorem count_wf {g : NG} (wf : WF g) (h : Nat) : WF (g.count h).1 := by
  intro b hb
  rw [count_bs, List.mem_map] at hb
  obtain ⟨a, ha, rfl⟩ := hb
  obtain ⟨hpos, hlt⟩ := wf a ha
  exact ⟨by simpa using hpos, put_bits_lt hlt (Nat.mod_lt _ hpos)⟩

theorem get_eq_one_iff (g : NG) (x : Nat) :
    g.get x = 1 ↔ ∀ b ∈ g.bs, b.contains (x % b.length) = true := by
  unfold get
  split
  · rename_i h; simpa [List.all_eq_true] using h
  · rename_i h; simpa [List.all_eq_true] using h

theorem has_iff (g : NG) (x : Nat) :
    g.has x = true ↔ ∀ b ∈ g.bs, b.contains (x % b.length) = true := by
  rw [← get_eq_one_iff]; simp [has]

theorem has_eq_true_iff_get (g : NG) (x : Nat) : g.has x = true ↔ g.get x = 1 := by
  simp [has]

/-- `has` only looks at the tables -/
theorem has_congr {g g' : NG} (h : g.bs = g'.bs) (x : Nat) : g.has x = g'.has x := by
  simp [has, get, h]

theorem get_after_count {g : NG} (wf : WF g) (h : Nat) : (g.count h).1.get h = 1 := by
  rw [get_eq_one_iff]
  intro b hb
  rw [count_bs, List.mem_map] at hb
  obtain ⟨a, ha, rfl⟩ := hb
  rw [put_length]
  exact contains_put_self (Nat.mod_lt _ (wf a ha).1)

/-- no false negatives: `count` never removes an element. (`WF` is not needed.) -/
theorem count_monotone' (g : NG) (h x : Nat) : g.get x = 1 → (g.count h).1.get x = 1 := by
  rw [get_eq_one_iff, get_eq_one_iff]
  intro hx b hb
  rw [count_bs, List.mem_map] at hb
  obtain ⟨a, ha, rfl⟩ := hb
  rw [put_length]
  exact contains_put_of_contains (hx a ha)

theorem count_monotone {g : NG} (_wf : WF g) (h x : Nat) :
    g.get x = 1 → (g.count h).1.get x = 1 := count_monotone' g h x

/-! ### the `is_new_kmer` result of `count` -/

theorem countLoop_isNew (h : Nat) : ∀ (bs : List BitSet) (i : Nat),
    (countLoop h bs i).2.2 = bs.any (fun b => !(b.bits.testBit (h % b.length)))
  | [], _ => rfl
  | b :: rest, i => by
    have ih := countLoop_isNew h rest (i + 1)
    simp only [countLoop, List.any_cons, ← ih, put_snd]

theorem has_eq_all (g : NG) (x : Nat) :
    g.has x = g.bs.all (fun b => b.contains (x % b.length)) := by
  unfold has get
  split <;> simp_all

/-- `count` reports a new k-mer exactly when `get` was 0 before -/
theorem count_isNew {g : NG} (wf : WF g) (h : Nat) : (g.count h).2 = !(g.has h) := by
  have e : (g.count h).2 = (countLoop h g.bs 0).2.2 := rfl
  rw [e, countLoop_isNew, has_eq_all, List.not_all_eq_any_not]
  apply Bool.eq_iff_iff.mpr
  simp only [List.any_eq_true]
  constructor <;> rintro ⟨b, hb, hx⟩ <;> refine ⟨b, hb, ?_⟩
  · rwa [contains_of_lt (Nat.mod_lt _ (wf b hb).1)]
  · rwa [contains_of_lt (Nat.mod_lt _ (wf b hb).1)] at hx

/-! ### `addMany` -/

@[simp] theorem addMany_nil (g : NG) : g.addMany [] = g := rfl

@[simp] theorem addMany_cons (g : NG) (h : Nat) (ms : List Nat) :
    g.addMany (h :: ms) = (g.count h).1.addMany ms := rfl

theorem addMany_append (g : NG) (A B : List Nat) :
    g.addMany (A ++ B) = (g.addMany A).addMany B := by
  simp [addMany, List.foldl_append]

theorem addMany_sizes (g : NG) (mins : List Nat) : (g.addMany mins).sizes = g.sizes := by
  induction mins generalizing g with
  | nil => rfl
  | cons h ms ih => rw [addMany_cons, ih, count_sizes]

theorem addMany_ksize (g : NG) (mins : List Nat) : (g.addMany mins).ksize = g.ksize := by
  induction mins generalizing g with
  | nil => rfl
  | cons h ms ih => rw [addMany_cons, ih, count_ksize]

theorem addMany_wf {g : NG} (wf : WF g) (mins : List Nat) : WF (g.addMany mins) := by
  induction mins generalizing g with
  | nil => exact wf
  | cons h ms ih => rw [addMany_cons]; exact ih (count_wf wf h)

theorem addMany_mono {g : NG} (wf : WF g) (mins : List Nat) {x : Nat} (hx : g.has x = true) :
    (g.addMany mins).has x = true := by
  induction mins generalizing g with
  | nil => exact hx
  | cons h ms ih =>
    rw [addMany_cons]
    refine ih (count_wf wf h) ?_
    rw [has_eq_true_iff_get] at hx ⊢
    exact count_monotone wf h x hx

theorem addMany_has {g : NG} (wf : WF g) {mins : List Nat} {h : Nat} (hm : h ∈ mins) :
    (g.addMany mins).has h = true := by
  induction mins generalizing g with
  | nil => cases hm
  | cons a ms ih =>
    rw [addMany_cons]
    rcases List.mem_cons.mp hm with rfl | hm'
    · exact addMany_mono (count_wf wf h) ms
        ((has_eq_true_iff_get _ _).mpr (get_after_count wf h))
    · exact ih (count_wf wf a) hm'

/-- the OR of the single-bit masks of `mins` in a table of size `len` -/
def orMask (len : Nat) : List Nat → Nat
  | [] => 0
  | h :: ms => (1 <<< (h % len)) ||| orMask len ms

theorem orMask_append (len : Nat) (A B : List Nat) :
    orMask len (A ++ B) = orMask len A ||| orMask len B := by
  induction A with
  | nil => simp [orMask]
  | cons a A ih => simp [orMask, ih, Nat.or_assoc]

/-- closed form of the tables after `addMany` -/
theorem addMany_bs (g : NG) (mins : List Nat) :
    (g.addMany mins).bs =
      g.bs.map (fun b => ({ length := b.length, bits := b.bits ||| orMask b.length mins } : BitSet)) := by
  induction mins generalizing g with
  | nil => simp [orMask]
  | cons h ms ih =>
    rw [addMany_cons, ih, count_bs, List.map_map]
    apply List.map_congr_left
    intro b _
    simp [orMask, Nat.or_assoc]

/-! ### `update` -/

theorem unionTables_eq_zipWith : ∀ {bs os : List BitSet},
    bs.map (·.length) = os.map (·.length) →
    unionTables bs os =
      List.zipWith (fun b o => ({ length := b.length, bits := b.bits ||| o.bits } : BitSet)) bs os
  | [], [], _ => rfl
  | [], _ :: _, h => by simp at h
  | _ :: _, [], h => by simp at h
  | b :: bs, o :: os, h => by
    simp only [List.map_cons, List.cons.injEq] at h
    simp only [unionTables, List.zipWith_cons_cons, unionWith_of_length_eq h.1,
      unionTables_eq_zipWith h.2]

@[simp] theorem update_bs (p c : NG) : (p.update c).bs = unionTables p.bs c.bs := rfl

theorem update_is_union {p c : NG} (hs : p.sizes = c.sizes) :
    (p.update c).bs =
      List.zipWith (fun b o => ({ length := b.length, bits := b.bits ||| o.bits } : BitSet))
        p.bs c.bs := by
  rw [update_bs, unionTables_eq_zipWith hs]

theorem zipWith_or_length : ∀ (bs os : List BitSet), bs.length = os.length →
    (List.zipWith (fun b o => ({ length := b.length, bits := b.bits ||| o.bits } : BitSet))
      bs os).map (·.length) = bs.map (·.length)
  | [], [], _ => rfl
  | [], _ :: _, h => by simp at h
  | _ :: _, [], h => by simp at h
  | b :: bs, o :: os, h => by
    simp only [List.length_cons, Nat.add_right_cancel_iff] at h
    simp [zipWith_or_length bs os h]

theorem update_sizes {p c : NG} (hs : p.sizes = c.sizes) : (p.update c).sizes = p.sizes := by
  have hl : p.bs.length = c.bs.length := by
    have := congrArg List.length hs
    simpa [sizes] using this
  unfold sizes
  rw [update_is_union hs, zipWith_or_length _ _ hl]

/-- membership in the zipped-OR list -/
theorem mem_zipWith_or : ∀ {bs os : List BitSet} {x : BitSet},
    bs.map (·.length) = os.map (·.length) →
    x ∈ List.zipWith (fun b o => ({ length := b.length, bits := b.bits ||| o.bits } : BitSet)) bs os →
    ∃ b ∈ bs, ∃ o ∈ os, b.length = o.length ∧ x = ⟨b.length, b.bits ||| o.bits⟩
  | [], [], _, _, hx => by simp at hx
  | [], _ :: _, _, h, _ => by simp at h
  | _ :: _, [], _, h, _ => by simp at h
  | b :: bs, o :: os, x, h, hx => by
    simp only [List.map_cons, List.cons.injEq] at h
    simp only [List.zipWith_cons_cons, List.mem_cons] at hx
    rcases hx with rfl | hx
    · exact ⟨b, by simp, o, by simp, h.1, rfl⟩
    · obtain ⟨b', hb', o', ho', hl, rfl⟩ := mem_zipWith_or h.2 hx
      exact ⟨b', by simp [hb'], o', by simp [ho'], hl, rfl⟩

/-- every table of the left / right operand has its image in the zipped-OR list -/
theorem zipWith_or_of_mem_left : ∀ {bs os : List BitSet} {b : BitSet},
    bs.map (·.length) = os.map (·.length) → b ∈ bs →
    ∃ o ∈ os, b.length = o.length ∧ (⟨b.length, b.bits ||| o.bits⟩ : BitSet) ∈
      List.zipWith (fun b o => ({ length := b.length, bits := b.bits ||| o.bits } : BitSet)) bs os
  | [], _, _, _, hb => by simp at hb
  | _ :: _, [], _, h, _ => by simp at h
  | b :: bs, o :: os, x, h, hx => by
    simp only [List.map_cons, List.cons.injEq] at h
    rcases List.mem_cons.mp hx with rfl | hx
    · exact ⟨o, by simp, h.1, by simp⟩
    · obtain ⟨o', ho', hl, hm⟩ := zipWith_or_of_mem_left h.2 hx
      exact ⟨o', by simp [ho'], hl, by simp [hm]⟩

theorem update_wf {p c : NG} (wp : WF p) (wc : WF c) (hs : p.sizes = c.sizes) :
    WF (p.update c) := by
  intro x hx
  rw [update_is_union hs] at hx
  obtain ⟨b, hb, o, ho, hl, rfl⟩ := mem_zipWith_or hs hx
  refine ⟨(wp b hb).1, ?_⟩
  have h2 := (wc o ho).2
  rw [← hl] at h2
  exact Nat.or_lt_two_pow (wp b hb).2 h2

/-- `has` of the merged filter: both operands have the bit, table by table.
(No `WF` needed.) -/
theorem update_has_iff {p c : NG} (hs : p.sizes = c.sizes) (x : Nat) :
    (p.update c).has x = true ↔
      ∀ y ∈ List.zipWith (fun b o => ({ length := b.length, bits := b.bits ||| o.bits } : BitSet))
        p.bs c.bs, y.contains (x % y.length) = true := by
  rw [has_iff, update_is_union hs]

theorem update_has_left {p c : NG} (_wp : WF p) (_wc : WF c) (hs : p.sizes = c.sizes) {x : Nat}
    (hx : p.has x = true) : (p.update c).has x = true := by
  rw [update_has_iff hs]
  rw [has_iff] at hx
  intro y hy
  obtain ⟨b, hb, o, ho, hl, rfl⟩ := mem_zipWith_or hs hy
  have := hx b hb
  simp only [contains, Bool.and_eq_true, decide_eq_true_eq, Nat.testBit_or, Bool.or_eq_true] at this ⊢
  exact ⟨this.1, Or.inl this.2⟩

theorem update_has_right {p c : NG} (_wp : WF p) (_wc : WF c) (hs : p.sizes = c.sizes) {x : Nat}
    (hx : c.has x = true) : (p.update c).has x = true := by
  rw [update_has_iff hs]
  rw [has_iff] at hx
  intro y hy
  obtain ⟨b, hb, o, ho, hl, rfl⟩ := mem_zipWith_or hs hy
  have := hx o ho
  simp only [contains, Bool.and_eq_true, decide_eq_true_eq, Nat.testBit_or, Bool.or_eq_true] at this ⊢
  rw [hl]
  exact ⟨this.1, Or.inr this.2⟩

/-! ### `new` -/

theorem new_bs (sz : List Nat) (k : Nat) : (new sz k).bs = sz.map BitSet.withCapacity := rfl

theorem new_sizes (sz : List Nat) (k : Nat) : (new sz k).sizes = sz := by
  simp [sizes, new_bs, List.map_map, Function.comp_def, withCapacity]

theorem new_wf {sz : List Nat} (h : ∀ s ∈ sz, 0 < s) (k : Nat) : WF (new sz k) := by
  intro b hb
  rw [new_bs, List.mem_map] at hb
  obtain ⟨s, hs, rfl⟩ := hb
  exact ⟨h s hs, Nat.two_pow_pos _⟩

/-- an empty filter with at least one table contains nothing; with no table `get` is
vacuously 1.  (Positivity of the sizes is not needed: a table without bits contains nothing.) -/
theorem new_has_iff (sz : List Nat) (k x : Nat) : (new sz k).has x = true ↔ sz = [] := by
  rw [has_iff, new_bs]
  cases sz with
  | nil => simp
  | cons s sz => simp [contains, withCapacity]

/-! ### merging filters = filter of the union -/

theorem zipWith_map_same {α β} (f g : α → β) (h : β → β → β) (l : List α) :
    List.zipWith h (l.map f) (l.map g) = l.map (fun a => h (f a) (g a)) := by
  induction l with
  | nil => rfl
  | cons a l ih => simp [ih]

/-- closed form of the tables of `(new sz k).addMany A` -/
theorem new_addMany_bs (sz : List Nat) (k : Nat) (A : List Nat) :
    ((new sz k).addMany A).bs = sz.map (fun s => (⟨s, orMask s A⟩ : BitSet)) := by
  rw [addMany_bs, new_bs, List.map_map]
  apply List.map_congr_left
  intro s _
  simp [withCapacity]

/-- merging the filters of `A` and `B` gives the tables of the filter of `A ++ B`.
(Positivity of the sizes is not needed.) -/
theorem update_addMany_bs (sz : List Nat) (k : Nat) (A B : List Nat) :
    (((new sz k).addMany A).update ((new sz k).addMany B)).bs =
      ((new sz k).addMany (A ++ B)).bs := by
  have hs : ((new sz k).addMany A).sizes = ((new sz k).addMany B).sizes := by
    rw [addMany_sizes, addMany_sizes]
  rw [update_is_union hs, new_addMany_bs, new_addMany_bs, new_addMany_bs, zipWith_map_same]
  apply List.map_congr_left
  intro s _
  simp [orMask_append]

/-- set-level corollary -/
theorem update_addMany_has (sz : List Nat) (k : Nat) (A B : List Nat) (x : Nat) :
    (((new sz k).addMany A).update ((new sz k).addMany B)).has x =
      ((new sz k).addMany (A ++ B)).has x :=
  has_congr (update_addMany_bs sz k A B) x

end NG
end Sm
