/-
Facts about `windows` (all contiguous length-`k` blocks of a list), used by the
C02 proofs: unfolding at a position, length, `map`, `reverse`, and the
"two pieces overlapping by k-1" decomposition.
-/
import SmVerif.Model.SeqToHashes

namespace Sm.Seq

variable {α β : Type}

theorem windows_nil_pos {k : Nat} (hk : 0 < k) : windows k ([] : List α) = [] := by
  simp [windows]; omega

theorem windows_of_length_lt {k : Nat} : ∀ {s : List α}, s.length < k → windows k s = []
  | [], h => by simp [windows]; simp at h; omega
  | a :: s, h => by simp [windows]; simp at h; omega

theorem windows_cons_of_le {k : Nat} {a : α} {s : List α} (h : k ≤ s.length + 1) :
    windows k (a :: s) = (a :: s).take k :: windows k s := by
  simp [windows, h]

/-- unfolding at position `i`: the window starting at `i`, then the windows from `i + 1` on -/
theorem windows_drop {k i : Nat} {s : List α} (h : i + k ≤ s.length) (hi : i < s.length) :
    windows k (s.drop i) = (s.drop i).take k :: windows k (s.drop (i + 1)) := by
  rw [List.drop_eq_getElem_cons hi]
  rw [windows_cons_of_le]
  simp only [List.length_drop]; omega

theorem windows_zero_length : ∀ (s : List α), (windows 0 s).length = s.length + 1
  | [] => by simp [windows]
  | a :: s => by simp [windows, windows_zero_length s]

theorem length_windows {k : Nat} : ∀ (s : List α), (windows k s).length = s.length + 1 - k
  | [] => by
    by_cases hk : k = 0
    · simp [windows, hk]
    · simp [windows, hk]; omega
  | a :: s => by
    by_cases h : k ≤ s.length + 1
    · rw [windows_cons_of_le h]; simp [length_windows s]; omega
    · rw [windows_of_length_lt (by simp; omega)]; simp; omega

theorem windows_map {k : Nat} (f : α → β) : ∀ (s : List α), windows k (s.map f) = (windows k s).map (List.map f)
  | [] => by by_cases hk : k = 0 <;> simp [windows, hk]
  | a :: s => by
    by_cases h : k ≤ s.length + 1
    · have h' : k ≤ (s.map f).length + 1 := by simpa using h
      rw [List.map_cons, windows_cons_of_le h', windows_cons_of_le h, windows_map f s]
      simp [List.map_take]
    · rw [windows_of_length_lt (by simp; omega), windows_of_length_lt (by simp; omega)]; rfl

/-- every window has length `k` -/
theorem length_of_mem_windows {k : Nat} : ∀ {s : List α} {w : List α}, w ∈ windows k s → w.length = k
  | [], w, h => by
    by_cases hk : k = 0
    · simp [windows, hk] at h; simp [h, hk]
    · simp [windows, hk] at h
  | a :: s, w, h => by
    by_cases hk : k ≤ s.length + 1
    · rw [windows_cons_of_le hk] at h
      rcases List.mem_cons.1 h with h | h
      · subst h; simp [List.length_take]; omega
      · exact length_of_mem_windows h
    · rw [windows_of_length_lt (by simp; omega)] at h; simp at h

/-- the `i`-th window is the block starting at `i` -/
theorem getElem?_windows {k : Nat} : ∀ (s : List α) (i : Nat), i + k ≤ s.length →
    (windows k s)[i]? = some ((s.drop i).take k)
  | [], i, h => by
    simp at h
    obtain ⟨rfl, rfl⟩ : i = 0 ∧ k = 0 := by omega
    simp [windows]
  | a :: s, i, h => by
    have hk : k ≤ s.length + 1 := by simp at h; omega
    rw [windows_cons_of_le hk]
    cases i with
    | zero => simp
    | succ i =>
      simp only [List.getElem?_cons_succ, List.drop_succ_cons]
      exact getElem?_windows s i (by simp at h; omega)

/-- a window of the whole that lies inside a prefix is a window of the prefix -/
theorem windows_append_overlap {k : Nat} (hk : 1 ≤ k) :
    ∀ (a b c : List α), b.length = k - 1 →
      windows k (a ++ b ++ c) = windows k (a ++ b) ++ windows k (b ++ c)
  | [], b, c, hb => by
    have : windows k b = [] := windows_of_length_lt (by omega)
    simp [this]
  | x :: a, b, c, hb => by
    have h1 : k ≤ (a ++ b ++ c).length + 1 := by simp; omega
    have h2 : k ≤ (a ++ b).length + 1 := by simp; omega
    have ih := windows_append_overlap hk a b c hb
    simp only [List.cons_append]
    rw [windows_cons_of_le h1, windows_cons_of_le h2, ih]
    have : (x :: (a ++ b ++ c)).take k = (x :: (a ++ b)).take k := by
      have : x :: (a ++ b ++ c) = (x :: (a ++ b)) ++ c := by simp
      rw [this, List.take_append_of_le_length (by simp; omega)]
    rw [this]; simp

/-- windows of the reversed list: the reversed windows, in reverse order -/
theorem windows_reverse {k : Nat} (s : List α) :
    windows k s.reverse = ((windows k s).map List.reverse).reverse := by
  apply List.ext_getElem?
  intro i
  by_cases hi : i + k ≤ s.length
  · rw [getElem?_windows _ _ (by simpa using hi)]
    have hlen : (windows k s).length = s.length + 1 - k := length_windows s
    rw [List.getElem?_reverse (by simp [hlen]; omega)]
    simp only [List.length_map, hlen, List.getElem?_map]
    rw [getElem?_windows _ _ (by omega)]
    simp only [Option.map_some, Option.some.injEq]
    rw [List.drop_reverse, List.take_reverse, List.reverse_inj]
    simp only [List.length_take]
    rw [List.drop_take]
    congr 1
    · omega
    · congr 1; omega
  · have h1 : (windows k s.reverse).length ≤ i := by rw [length_windows]; simp; omega
    have h2 : ((windows k s).map List.reverse).reverse.length ≤ i := by
      simp [length_windows]; omega
    rw [List.getElem?_eq_none h1, List.getElem?_eq_none h2]

end Sm.Seq
