/-
C07 / C08: the float threshold tests of gather, discharged.

`calc_threshold_from_bp(bp, scaled, n)` returns `threshold = fl(fl(bp / scaled) / n)` and
`n_threshold_hashes = fl(bp / scaled)`.  Two tests use them:
* `CounterGather.peek`:  `match_size < n_threshold_hashes`  (`belowThreshold`),
* `Index.find`:          `shared / n >= threshold`          (`passes (scoreContainment n shared)`).

With C06's analysis of the correctly rounded quotient (`Lemmas/SearchFloat.lean`, `Lemmas/SearchRound.lean`:
`IsRN` is monotone, exact on integers, single-valued on quotients of integers below `2^53`) both tests are
the integer test `bp ≤ k * scaled` (for `bp ≤ 2^50`), and -- without that bound -- the second accepts
whatever the first accepts (`prefetchPermissive_calc`), which was the explicit float hypothesis of the
database-level theorems of C07.
-/
import SmVerif.Lemmas.GatherReach
import SmVerif.Lemmas.SearchRound

set_option autoImplicit false

namespace Sm.Gather

open Sm Sm.F64

theorem fzero_val : fzero.val = 0 := by simp [fzero, F64.F.val]

/-- `calc_threshold_from_bp` for a positive `threshold_bp` -/
theorem calcThreshold_pos {thr s n : Nat} {t nT : F64.F} (h0 : thr ≠ 0)
    (h : calcThreshold thr s n = .ok (t, nT)) :
    s ≠ 0 ∧ n ≠ 0 ∧ nT = F64.div (F64.ofNat thr) (F64.ofNat s) ∧ t = F64.div nT (F64.ofNat n) ∧
      F64.ge fone t = true := by
  unfold calcThreshold at h
  rw [if_neg h0] at h
  split at h
  · cases h
  · rename_i hsn
    simp only [] at h
    split at h
    · cases h
    · rename_i hge
      simp only [Except.ok.injEq, Prod.mk.injEq] at h
      obtain ⟨rfl, rfl⟩ := h
      exact ⟨fun h => hsn (Or.inl h), fun h => hsn (Or.inr h), rfl, rfl, by simpa using hge⟩

/-- `match_size >= n_threshold_hashes` read on values -/
theorem not_below_iff {k : Nat} (hk : k < 2 ^ 53) (nT : F64.F) :
    belowThreshold (k : Int) nT = false ↔ nT.val ≤ k := by
  unfold belowThreshold
  rw [if_neg (by omega)]
  simp only [Int.toNat_natCast, Bool.not_eq_false', ge_iff, ofNat_val hk]

/-- **the prefetch pass accepts whatever the per-round test accepts** (query at least as coarse as the
database, i.e. threshold and containment are taken at the same resolution and size): no hypothesis left but
sizes below `2^53` -/
theorem prefetchPermissive_calc {thr s n0 : Nat} {t nT : F64.F} (hthr : thr < 2 ^ 53) (hs : s < 2 ^ 53)
    (hn : n0 < 2 ^ 53) (h : calcThreshold thr s n0 = .ok (t, nT)) : PrefetchPermissive t nT n0 := by
  by_cases h0 : thr = 0
  · subst h0
    rw [calcThreshold_zero] at h
    cases h
    exact prefetchPermissive_zero n0
  obtain ⟨hs0, hn0, rfl, rfl, _⟩ := calcThreshold_pos h0 h
  intro k hk hk0 hnb
  have hk53 : k < 2 ^ 53 := lt_of_le_of_lt hk hn
  have hle := (not_below_iff hk53 _).1 hnb
  obtain ⟨_, mthr⟩ := ofNat_exact thr (Nat.pos_of_ne_zero h0) hthr
  obtain ⟨_, ms⟩ := ofNat_exact s (Nat.pos_of_ne_zero hs0) hs
  obtain ⟨en, mn⟩ := ofNat_exact n0 (Nat.pos_of_ne_zero hn0) hn
  have nTpos : 0 < (F64.div (F64.ofNat thr) (F64.ofNat s)).m := (div_spec _ _ mthr ms).1
  have r2 := isRN_div nTpos mn
  rw [en] at r2
  have hkp : 0 < k := Nat.pos_of_ne_zero hk0
  have hn0p : 0 < n0 := Nat.pos_of_ne_zero hn0
  have r3 := isRN_divNat hkp hn0p
  have hnq : (0 : ℚ) < n0 := by exact_mod_cast hn0p
  have hq : (F64.div (F64.ofNat thr) (F64.ofNat s)).val / n0 ≤ (k : ℚ) / n0 :=
    div_le_div_of_nonneg_right hle hnq.le
  have hfin := IsRN.mono_le hk53 hn0p hq r2 r3
  unfold passes scoreContainment
  rw [if_neg hn0]
  simp only [Bool.and_eq_true, decide_eq_true_eq]
  exact ⟨Nat.ne_of_gt (F64.divNat_pos k n0 hkp hn0p), (ge_iff _ _).2 hfin⟩

/-- `NoD6` from the inputs alone: no threshold, or a query at least as coarse as the database -/
theorem noD6_of_inputs {q : LS} {sd thr : Nat} {t nT : F64.F} (hq : q.WF) (hthr : thr < 2 ^ 53)
    (hn : q.hs.length < 2 ^ 53) (h : calcThreshold thr q.scaled q.hs.length = .ok (t, nT))
    (hin : thr = 0 ∨ sd ≤ q.scaled) : NoD6 q sd thr t nT := by
  rcases hin with h0 | hle
  · exact Or.inl h0
  · refine Or.inr ⟨hle, prefetchPermissive_calc hthr ?_ hn h⟩
    exact lt_of_le_of_lt hq.hi (by decide)

/-! ### both tests are the integer test `bp ≤ k * scaled` (for `bp ≤ 2^50`) -/

/-- `CounterGather.peek`'s test: `¬ (k < fl(bp / scaled))  ↔  bp ≤ k * scaled` -/
theorem not_below_iff_bp {bp S n k : Nat} {t nT : F64.F} (hS : S < 2 ^ 53) (hbp : bp ≤ 2 ^ 50)
    (hk : k < 2 ^ 53) (h : calcThreshold bp S n = .ok (t, nT)) :
    belowThreshold (k : Int) nT = false ↔ bp ≤ k * S := by
  rw [not_below_iff hk]
  by_cases h0 : bp = 0
  · subst h0
    rw [calcThreshold_zero] at h
    cases h
    rw [fzero_val]
    simp
  obtain ⟨hs0, _, rfl, _, _⟩ := calcThreshold_pos h0 h
  have hbpp : 0 < bp := Nat.pos_of_ne_zero h0
  have hSp : 0 < S := Nat.pos_of_ne_zero hs0
  obtain ⟨ebp, mbp⟩ := ofNat_exact bp hbpp (lt_of_le_of_lt hbp (by decide))
  obtain ⟨eS, mS⟩ := ofNat_exact S hSp hS
  have r1 := isRN_div mbp mS
  rw [ebp, eS] at r1
  generalize (F64.div (F64.ofNat bp) (F64.ofNat S)).val = v at r1 ⊢
  have hSq : (0 : ℚ) < S := by exact_mod_cast hSp
  constructor
  · intro hle
    by_contra hlt
    have hlt' : k * S + 1 ≤ bp := by omega
    obtain ⟨b1, p1⟩ := r1.rel
    rw [abs_le] at b1
    have hq : ((k : ℚ) * S + 1) ≤ bp := by exact_mod_cast hlt'
    have hbq : (bp : ℚ) ≤ 2 ^ 50 := by exact_mod_cast hbp
    -- bp / S ≤ v (1 + ε) ≤ k (1 + ε)
    have c1 : (bp : ℚ) / S ≤ v * (1 + 1 / 2 ^ 53) := by linarith [b1.1]
    have d1 : (bp : ℚ) ≤ v * (1 + 1 / 2 ^ 53) * S := by
      have := mul_le_mul_of_nonneg_right c1 hSq.le
      rwa [div_mul_cancel₀ _ hSq.ne'] at this
    have d2 : v * (1 + 1 / 2 ^ 53) * S ≤ (k : ℚ) * (1 + 1 / 2 ^ 53) * S := by
      apply mul_le_mul_of_nonneg_right _ hSq.le
      exact mul_le_mul_of_nonneg_right hle (by norm_num)
    -- k S + 1 ≤ k S (1 + ε), k S < 2^50
    have hkS : (k : ℚ) * S ≤ 2 ^ 50 := by linarith
    norm_num at d1 d2 hkS hq hbq ⊢
    linarith
  · intro hge
    rcases Nat.eq_zero_or_pos k with rfl | hkp
    · simp at hge; omega
    have hk1 : IsRN ((k : ℚ) / (1 : Nat)) (divNat k 1).val := isRN_divNat hkp (by decide)
    have hexact : (divNat k 1).val = k := by
      apply IsRN.exact_nat _ hk
      simpa using hk1
    have hq : (bp : ℚ) / S ≤ (k : ℚ) / (1 : Nat) := by
      rw [Nat.cast_one, div_one, div_le_iff₀ hSq]
      exact_mod_cast hge
    have := IsRN.mono_le hk (by decide) hq r1 hk1
    rwa [hexact] at this

/-- `Index.find`'s test: `shared / n >= threshold  ↔  shared ≠ 0 ∧ bp ≤ shared * scaled`
(C06's `bp_threshold_exact` on this model's definitions) -/
theorem passes_iff_bp {bp S n sh : Nat} {t nT : F64.F} (hS : S < 2 ^ 53) (hn : n < 2 ^ 53) (hsh : sh ≤ n)
    (hbp : bp ≤ 2 ^ 50) (hS0 : 0 < S) (hn0 : 0 < n) (h : calcThreshold bp S n = .ok (t, nT)) :
    passes (scoreContainment n sh) t = true ↔ (sh ≠ 0 ∧ bp ≤ sh * S) := by
  have hc : Search.calcThresholdFromBp bp S n = .ok t := by
    unfold Search.calcThresholdFromBp
    by_cases h0 : bp = 0
    · subst h0
      rw [calcThreshold_zero] at h
      cases h
      rfl
    · obtain ⟨_, _, rfl, rfl, hge⟩ := calcThreshold_pos h0 h
      rw [if_neg h0]
      simp only []
      have hone : F64.ge (⟨1, 0⟩ : F64.F) (F64.div (F64.div (F64.ofNat bp) (F64.ofNat S)) (F64.ofNat n)) = true := by
        rw [ge_iff] at hge ⊢
        have e1 : fone.val = 1 := by
          have := ofNat_val (n := 1) (by decide)
          simpa [fone] using this
        have e2 : (⟨1, 0⟩ : F64.F).val = 1 := by simp [F64.F.val]
        rw [e1] at hge
        rw [e2]
        exact hge
      unfold Search.gt
      rw [hone]
      rfl
  have := Search.bp_threshold_exact hS0 hS hn0 hn hsh hbp hc false
  rw [← this]
  unfold passes scoreContainment Search.JS.passes Search.Ratio.toF
  rw [if_neg (Nat.pos_iff_ne_zero.1 hn0)]

end Sm.Gather
