/-
C06: the score `Index.find` computes for one (query, subject) pair equals the score computed
directly from the two hash sets after restricting both to the threshold of the coarser scaled value
(`pairScore_spec`).  For flat scaled sketches with scaled values in 1..2^31 (the range in which
scaled <-> max_hash conversions are proved exact, C03).
-/
import SmVerif.Lemmas.SearchSpec
import SmVerif.Lemmas.MinHashInv
import SmVerif.Lemmas.Downsample

namespace Sm.Search

open Sm MH

/-! ### `interL` is the intersection -/

theorem interL_mem : ∀ (xs ys : List Nat), Sorted xs → Sorted ys →
    ∀ z, z ∈ xs → z ∈ ys → z ∈ interL xs ys := by
  apply two_cursor_induct
  · intro ys _ _ z hz; cases hz
  · intro x xs _ _ z _ hz; cases hz
  · intro x xs y ys ih1 ih2 ih3 hx hy z hzx hzy
    rw [interL_cons_cons]
    have hxt := hx.head_lt
    have hyt := hy.head_lt
    split
    · rename_i hlt
      -- x < y: x is in no ys
      rcases List.mem_cons.1 hzx with rfl | hzx'
      · rcases List.mem_cons.1 hzy with e | hzy'
        · omega
        · have := hyt z hzy'; omega
      · exact ih3 hx.tail hy z hzx' hzy
    · split
      · rename_i h1 hlt
        rcases List.mem_cons.1 hzy with rfl | hzy'
        · rcases List.mem_cons.1 hzx with e | hzx'
          · omega
          · have := hxt z hzx'; omega
        · exact ih1 hx hy.tail z hzx hzy'
      · rename_i h1 h2
        have hxy : x = y := by omega
        subst hxy
        rcases List.mem_cons.1 hzx with rfl | hzx'
        · exact List.mem_cons_self
        · rcases List.mem_cons.1 hzy with rfl | hzy'
          · have := hxt z hzx'; omega
          · exact List.mem_cons_of_mem _ (ih2 hx.tail hy.tail z hzx' hzy')

theorem sorted_filter {l : List Nat} (h : Sorted l) (p : Nat → Bool) : Sorted (l.filter p) :=
  h.sublist List.filter_sublist

theorem interL_eq_filter {xs ys : List Nat} (hx : Sorted xs) (hy : Sorted ys) :
    interL xs ys = xs.filter (fun z => decide (z ∈ ys)) := by
  apply Sorted.ext (hx.sublist (interL_sublist xs ys)) (sorted_filter hx _)
  intro z
  rw [List.mem_filter, decide_eq_true_eq]
  constructor
  · intro hz
    exact ⟨(interL_sublist xs ys).subset hz, interL_subset_right xs ys z hz⟩
  · intro ⟨h1, h2⟩
    exact interL_mem xs ys hx hy z h1 h2

/-! ### flat scaled sketches -/

/-- a well-formed flat (no abundances) scaled sketch at scaled value `S` -/
structure Flat (s : MH) (S : Nat) : Prop where
  inv : Inv s
  num : s.num = 0
  flat : s.abunds = none
  mh : s.maxHash = mhR S
  lo : 1 ≤ S
  hi : S ≤ 2 ^ 31

theorem le32 {S : Nat} (h : S ≤ 2 ^ 31) : S ≤ 2 ^ 32 := by
  have : (2 : Nat) ^ 31 ≤ 2 ^ 32 := by decide
  omega

theorem Flat.track {s : MH} {S : Nat} (h : Flat s S) : s.trackAbundance = false := by
  simp [MH.trackAbundance, h.flat]

theorem Flat.mh_ne {s : MH} {S : Nat} (h : Flat s S) : s.maxHash ≠ 0 := by
  rw [h.mh]; exact mhR_pos h.lo (le32 h.hi)

theorem Flat.scaledProp {s : MH} {S : Nat} (h : Flat s S) : Py.scaledProp s = S := by
  unfold Py.scaledProp
  rw [if_pos h.mh_ne, h.mh]
  exact scP_mhR h.lo h.hi

theorem Flat.filter_self {s : MH} {S : Nat} (h : Flat s S) :
    s.mins.filter (fun x => decide (x ≤ mhR S)) = s.mins := by
  apply List.filter_eq_self.2
  intro x hx
  have := h.inv.bounded h.mh_ne x hx
  rw [h.mh] at this
  simpa using this

theorem mhP_ne_zero {T : Nat} (h1 : 1 ≤ T) (h2 : T ≤ 2 ^ 31) : mhP T ≠ 0 := by
  intro h
  have := scP_mhP h1 h2
  rw [h, scP_zero] at this
  omega

/-- `downsample(scaled=T)` of a flat sketch at a finer scaled value: a flat sketch at `T` holding
exactly the hashes at or below `T`'s threshold -/
theorem downsample_flat {s : MH} {S T : Nat} (hs : Flat s S) (hST : S ≤ T) (hT : T ≤ 2 ^ 31) :
    ∃ r, Py.downsample s none (some T) = .ok r ∧ Flat r T ∧
      r.mins = s.mins.filter (fun x => decide (x ≤ mhR T)) ∧
      r.ksize = s.ksize ∧ r.hf = s.hf ∧ r.seed = s.seed := by
  have hT1 : 1 ≤ T := le_trans hs.lo hST
  have hparams : Py.downsampleParams s none (some T) = .ok (0, mhP T) := by
    unfold Py.downsampleParams
    simp only []
    rw [if_neg (by simp [hs.num]), if_neg (by rw [hs.scaledProp]; omega)]
  have hmk : Py.mkMinHash 0 s.ksize s.hf s.seed false (mhP T) 0 =
      .ok (MH.new T s.ksize s.hf s.seed false 0) := by
    unfold Py.mkMinHash
    rw [if_neg (by simp)]
    simp only []
    rw [if_pos (mhP_ne_zero hT1 hT), scP_mhP hT1 hT]
    rw [if_neg (by simp), if_neg (by omega)]
  refine ⟨(MH.new T s.ksize s.hf s.seed false 0).addMany s.mins, ?_, ?_, ?_, ?_⟩
  · unfold Py.downsample
    rw [hparams]
    simp only []
    unfold Py.downsampleWith
    rw [hs.track, hmk]
    simp only []
    rfl
  all_goals
    have hnew : Inv (MH.new T s.ksize s.hf s.seed false 0) := inv_new ..
    have hxnew : Excl (MH.new T s.ksize s.hf s.seed false 0) := Or.inl rfl
    have hinv : Inv ((MH.new T s.ksize s.hf s.seed false 0).addMany s.mins) := inv_addMany hnew hxnew _
    have fr := addMany_frame (MH.new T s.ksize s.hf s.seed false 0) s.mins
    have hM : (MH.new T s.ksize s.hf s.seed false 0).maxHash = mhR T := rfl
    have hMne : mhR T ≠ 0 := mhR_pos hT1 (le32 hT)
    have hcount : ∀ x, count ((MH.new T s.ksize s.hf s.seed false 0).addMany s.mins) x =
        if x ∈ s.mins ∧ x ≤ mhR T then 1 else 0 := by
      intro x
      rw [addMany_eq_addManyAb]
      have hk : (ones s.mins).map Prod.fst = s.mins := by
        unfold ones; rw [List.map_map]; exact List.map_id' _
      have := count_addManyAb_fresh (ones s.mins) hnew rfl (by rw [hM]; exact hMne)
        (by rw [hk]; exact hs.inv.sorted)
        (by intro p hp; unfold ones at hp; obtain ⟨a, _, rfl⟩ := List.mem_map.1 hp; exact Nat.one_pos)
        (fun k _ => count_new ..) x
      rw [this, hM, count_new, cnt_ones]
      have htr : (MH.new T s.ksize s.hf s.seed false 0).trackAbundance = false := rfl
      rw [htr]
      by_cases hx : x ∈ s.mins <;> by_cases hle : x ≤ mhR T <;> simp [hx, hle]
    have hmem : ∀ x, x ∈ ((MH.new T s.ksize s.hf s.seed false 0).addMany s.mins).mins ↔
        x ∈ s.mins ∧ x ≤ mhR T := by
      intro x
      rw [mem_iff_count_pos' hinv, hcount]
      by_cases h : x ∈ s.mins ∧ x ≤ mhR T <;> simp [h]
  · refine ⟨hinv, fr.1, ?_, fr.2.1.trans hM, hT1, hT⟩
    have := fr.2.2.2.2.2
    have htr : (MH.new T s.ksize s.hf s.seed false 0).trackAbundance = false := rfl
    rw [htr] at this
    simpa [MH.trackAbundance] using this
  · apply Sorted.ext hinv.sorted (sorted_filter hs.inv.sorted _)
    intro x
    rw [hmem, List.mem_filter, decide_eq_true_eq]
  · exact ⟨fr.2.2.1, fr.2.2.2.2.1, fr.2.2.2.1⟩

theorem flattenMH_flat {s : MH} {S : Nat} (hs : Flat s S) : flattenMH s = .ok s := by
  unfold flattenMH Py.flatten
  rw [hs.track]
  rfl

/-- `flatten_and_downsample_scaled(s, T)` on a flat sketch: the sketch at `max S T` -/
theorem flattenAndDownsampleScaled_flat {s : MH} {S T : Nat} (hs : Flat s S) (hT1 : 1 ≤ T)
    (hT : T ≤ 2 ^ 31) :
    ∃ r, flattenAndDownsampleScaled s T = .ok r ∧ Flat r (max S T) ∧
      r.mins = s.mins.filter (fun x => decide (x ≤ mhR (max S T))) ∧
      r.ksize = s.ksize ∧ r.hf = s.hf ∧ r.seed = s.seed := by
  unfold flattenAndDownsampleScaled
  rw [if_neg (by rw [hs.scaledProp]; have := hs.lo; omega), if_neg (by omega), flattenMH_flat hs]
  simp only []
  rw [hs.scaledProp]
  by_cases h : T > S
  · rw [if_pos h]
    obtain ⟨r, h1, h2, h3, h4⟩ := downsample_flat hs (Nat.le_of_lt h) hT
    have hmax : max S T = T := Nat.max_eq_right (Nat.le_of_lt h)
    rw [hmax]
    exact ⟨r, by rw [h1]; rfl, h2, h3, h4⟩
  · rw [if_neg h]
    have hmax : max S T = S := Nat.max_eq_left (by omega)
    rw [hmax]
    exact ⟨s, rfl, hs, hs.filter_self.symm, rfl, rfl, rfl⟩

/-- `prepare_subject` + `prepare_query`: both sketches restricted to the threshold of the
coarser scaled value -/
theorem prepare_flat {q s : MH} {Sq Ss : Nat} (hq : Flat q Sq) (hs : Flat s Ss) :
    ∃ q' s', prepare q s = .ok (q', s') ∧ Flat q' (max Sq Ss) ∧ Flat s' (max Sq Ss) ∧
      q'.mins = q.mins.filter (fun x => decide (x ≤ mhR (max Sq Ss))) ∧
      s'.mins = s.mins.filter (fun x => decide (x ≤ mhR (max Sq Ss))) ∧
      q'.ksize = q.ksize ∧ q'.hf = q.hf ∧ q'.seed = q.seed ∧
      s'.ksize = s.ksize ∧ s'.hf = s.hf ∧ s'.seed = s.seed := by
  obtain ⟨s', e1, f1, m1, k1⟩ := flattenAndDownsampleScaled_flat hs hq.lo hq.hi
  have hmaxle : max Ss Sq ≤ 2 ^ 31 := Nat.max_le.2 ⟨hs.hi, hq.hi⟩
  obtain ⟨q', e2, f2, m2, k2⟩ := flattenAndDownsampleScaled_flat hq f1.lo hmaxle
  have hmm : max Sq (max Ss Sq) = max Sq Ss := by omega
  have hmm' : max Ss Sq = max Sq Ss := Nat.max_comm _ _
  refine ⟨q', s', ?_, ?_, ?_, ?_, ?_, k2.1, k2.2.1, k2.2.2, k1.1, k1.2.1, k1.2.2⟩
  · unfold prepare
    rw [if_pos (by rw [hq.scaledProp]; have := hq.lo; omega), hq.scaledProp, e1]
    simp only []
    rw [f1.scaledProp, e2]
  · rw [← hmm]; exact f2
  · rw [← hmm']; exact f1
  · rw [m2, hmm]
  · rw [m1, hmm']

/-- `intersection_and_union_size` of two compatible flat sketches at the same scaled value -/
theorem iuSize_flat {a b : MH} {S : Nat} (ha : Flat a S) (hb : Flat b S)
    (hk : a.ksize = b.ksize) (hh : a.hf = b.hf) (hse : a.seed = b.seed) :
    iuSize a b = .ok ((a.mins.filter (fun z => decide (z ∈ b.mins))).length,
      a.mins.length + b.mins.length - (a.mins.filter (fun z => decide (z ∈ b.mins))).length) := by
  unfold iuSize
  rw [checkCompatible_ok_of hk hh (by rw [ha.mh, hb.mh]) hse]
  simp only []
  unfold MH.intersectionSize MH.intersection
  rw [checkCompatible_ok_of hk hh (by rw [ha.mh, hb.mh]) hse]
  simp only [bind, Except.bind, ha.num, ne_eq, not_true_eq_false, if_false, pure, Except.pure,
    MH.interUnion, interL_eq_filter ha.inv.sorted hb.inv.sorted]

/-- the four sizes computed directly from the two hash lists restricted to a threshold `M` -/
def specSizes (M : Nat) (Q D : List Nat) : Nat × Nat × Nat × Nat :=
  let Q' := Q.filter (fun x => decide (x ≤ M))
  let D' := D.filter (fun x => decide (x ≤ M))
  let shared := (Q'.filter (fun z => decide (z ∈ D'))).length
  (Q'.length, shared, D'.length, Q'.length + D'.length - shared)

/-- **the score of a pair, directly from the two sketches after downsampling both to the coarser
scaled value** -/
def specScore (m : Mode) (Sq Ss : Nat) (Q D : List Nat) : Ratio :=
  let z := specSizes (mhR (max Sq Ss)) Q D
  scoreFn m z.1 z.2.1 z.2.2.1 z.2.2.2

theorem pairScore_spec (m : Mode) {q s : MH} {Sq Ss : Nat} (hq : Flat q Sq) (hs : Flat s Ss)
    (hk : q.ksize = s.ksize) (hh : q.hf = s.hf) (hse : q.seed = s.seed) :
    pairScore m q s = .ok (specScore m Sq Ss q.mins s.mins) := by
  obtain ⟨q', s', e, fq, fs, mq, ms, k1, k2, k3, k4, k5, k6⟩ := prepare_flat hq hs
  unfold pairScore
  rw [e]
  simp only []
  rw [iuSize_flat fq fs (by rw [k1, k4, hk]) (by rw [k2, k5, hh]) (by rw [k3, k6, hse])]
  simp only []
  unfold specScore specSizes
  simp only []
  rw [mq, ms]

end Sm.Search
