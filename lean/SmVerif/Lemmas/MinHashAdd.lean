/-
`addHashAb` in normal form (three positional edits), preservation of the
invariant by every add / remove entry point, and the frame facts
(`num`, `maxHash`, `trackAbundance`, ... never change).
-/
import SmVerif.Lemmas.MinHashBase

namespace Sm

open MH

/-! ### frame facts -/

theorem removeHash_frame (s : MH) (h : Nat) :
    (s.removeHash h).num = s.num ∧ (s.removeHash h).maxHash = s.maxHash ∧
    (s.removeHash h).ksize = s.ksize ∧ (s.removeHash h).seed = s.seed ∧
    (s.removeHash h).hf = s.hf ∧ (s.removeHash h).trackAbundance = s.trackAbundance := by
  unfold MH.removeHash
  split <;> simp [MH.trackAbundance]

theorem addHashAb_frame (s : MH) (h a : Nat) :
    (s.addHashAb h a).num = s.num ∧ (s.addHashAb h a).maxHash = s.maxHash ∧
    (s.addHashAb h a).ksize = s.ksize ∧ (s.addHashAb h a).seed = s.seed ∧
    (s.addHashAb h a).hf = s.hf ∧ (s.addHashAb h a).trackAbundance = s.trackAbundance := by
  unfold MH.addHashAb
  simp only []
  repeat' split
  all_goals first
    | exact removeHash_frame s h
    | simp [MH.trackAbundance]

theorem Excl.removeHash {s : MH} (hx : Excl s) (h : Nat) : Excl (s.removeHash h) := by
  have := removeHash_frame s h
  unfold Excl at *
  rw [this.1, this.2.1]; exact hx

theorem Excl.addHashAb {s : MH} (hx : Excl s) (h a : Nat) : Excl (s.addHashAb h a) := by
  have := addHashAb_frame s h a
  unfold Excl at *
  rw [this.1, this.2.1]; exact hx

/-! ### normal form of `addHashAb` -/

theorem addHashAb_eq {s : MH} (hs : Inv s) (hx : Excl s) (h a : Nat) :
    s.addHashAb h a =
      if h > s.maxHash ∧ s.maxHash ≠ 0 then s
      else if s.num = 0 ∧ s.maxHash = 0 then s
      else if a = 0 then s.removeHash h
      else if s.mins = [] ∨ h ≤ s.maxHash ∨ h ≤ lastOr s.mins U64MAX ∨ s.mins.length < s.num then
        if s.mins[lowerBound s.mins h]? = some h then s.modAt (lowerBound s.mins h) a
        else if s.num ≠ 0 ∧ s.mins.length + 1 > s.num then
          (s.insAt (lowerBound s.mins h) h a).dropL
        else s.insAt (lowerBound s.mins h) h a
      else s := by
  unfold MH.addHashAb
  simp only []
  by_cases h1 : h > s.maxHash ∧ s.maxHash ≠ 0
  · rw [if_pos h1, if_pos h1]
  rw [if_neg h1, if_neg h1]
  by_cases h2 : s.num = 0 ∧ s.maxHash = 0
  · rw [if_pos h2, if_pos h2]
  rw [if_neg h2, if_neg h2]
  by_cases h3 : a = 0
  · rw [if_pos h3, if_pos h3]
  rw [if_neg h3, if_neg h3]
  by_cases h4 : s.mins = []
  · -- empty sketch
    have hcap : ¬ (s.num ≠ 0 ∧ s.mins.length + 1 > s.num) := by
      rw [h4]; simp only [List.length_nil]; omega
    rw [if_pos (by simp [h4]), if_pos (Or.inl h4), if_neg (by simp [h4]), if_neg hcap]
    obtain ⟨num, maxHash, ksize, seed, hf, mins, abunds, md5⟩ := s
    simp only at h4
    subst h4
    cases abunds with
    | none => simp [MH.insAt]
    | some ab =>
      have := hs.aligned ab rfl
      simp only [List.length_nil, List.length_eq_zero_iff] at this
      subst this
      simp [MH.insAt]
  rw [if_neg (by simp [h4])]
  by_cases h5 : h ≤ s.maxHash ∨ h ≤ lastOr s.mins U64MAX ∨ s.mins.length < s.num
  · rw [if_pos h5, if_pos (Or.inr h5)]
    by_cases h6 : lowerBound s.mins h = s.mins.length
    · -- push at the end
      have hall := lowerBound_eq_length_iff.1 h6
      have hnf : ¬ s.mins[lowerBound s.mins h]? = some h := by simp [h6]
      have hcap : ¬ (s.num ≠ 0 ∧ s.mins.length + 1 > s.num) := by
        rintro ⟨hn, hgt⟩
        have hM : s.maxHash = 0 := by
          rcases hx with hx | hx
          · exact absurd hx hn
          · exact hx
        have hpos : 0 < h := by
          obtain ⟨y, ys, hy⟩ := List.exists_cons_of_ne_nil h4
          have := hall y (by rw [hy]; simp)
          omega
        rcases h5 with h5 | h5 | h5
        · omega
        · exact not_le_lastOr_of_all_lt h4 hall _ h5
        · omega
      rw [if_pos h6, if_neg hnf, if_neg hcap, h6]
      obtain ⟨num, maxHash, ksize, seed, hf, mins, abunds, md5⟩ := s
      cases abunds with
      | none => simp [MH.insAt, List.insertIdx_length_self]
      | some ab =>
        have := hs.aligned ab rfl
        simp only at this
        simp [MH.insAt, ← List.insertIdx_length_self, this]
    · rw [if_neg h6]
      by_cases h7 : s.mins[lowerBound s.mins h]? = some h
      · rw [if_neg (by simp [h7]), if_pos h7]; rfl
      · have hlen : (s.mins.insertIdx (lowerBound s.mins h) h).length = s.mins.length + 1 := by
          simp [List.length_insertIdx, lowerBound_le_length]
        rw [if_pos (by simpa using h7), if_neg h7, hlen]
        rfl
  · rw [if_neg h5, if_neg (by simp [h4, h5])]

/-! ### the invariant through `addHashAb` and its folds -/

theorem inv_addHashAb {s : MH} (hs : Inv s) (hx : Excl s) (h a : Nat) : Inv (s.addHashAb h a) := by
  rw [addHashAb_eq hs hx]
  split; exact hs
  rename_i h1
  split; exact hs
  split; exact inv_removeHash hs h
  rename_i h3
  split
  · have hb : s.maxHash ≠ 0 → h ≤ s.maxHash := by intro hM; omega
    split
    · exact (invW_modAt hs.toW _ _).toInv hs.capped
    · rename_i hnf
      have hW := invW_insAt hs.toW hnf (Nat.pos_of_ne_zero h3) hb
      have hlen : (s.mins.insertIdx (lowerBound s.mins h) h).length = s.mins.length + 1 := by
        simp [List.length_insertIdx, lowerBound_le_length]
      split
      · refine (invW_dropL hW).toInv ?_
        intro hn
        have := hs.capped hn
        simp only [MH.dropL, MH.insAt, List.length_dropLast, hlen] at *
        omega
      · rename_i hcap
        refine hW.toInv ?_
        intro hn
        simp only [MH.insAt, hlen] at *
        omega
  · exact hs

theorem inv_addHash {s : MH} (hs : Inv s) (hx : Excl s) (h : Nat) : Inv (s.addHash h) :=
  inv_addHashAb hs hx h 1

theorem Excl.addHash {s : MH} (hx : Excl s) (h : Nat) : Excl (s.addHash h) := hx.addHashAb h 1

theorem invx_addMany {s : MH} (hs : Inv s) (hx : Excl s) (l : List Nat) :
    Inv (s.addMany l) ∧ Excl (s.addMany l) := by
  unfold MH.addMany
  induction l generalizing s with
  | nil => exact ⟨hs, hx⟩
  | cons y ys ih => exact ih (inv_addHash hs hx y) (hx.addHash y)

theorem inv_addMany {s : MH} (hs : Inv s) (hx : Excl s) (l : List Nat) : Inv (s.addMany l) :=
  (invx_addMany hs hx l).1

theorem Excl.addMany {s : MH} (hx : Excl s) (l : List Nat) : Excl (s.addMany l) := by
  unfold MH.addMany
  induction l generalizing s with
  | nil => exact hx
  | cons y ys ih => exact ih (hx.addHash y)

theorem Excl.addManyAb {s : MH} (hx : Excl s) (l : List (Nat × Nat)) : Excl (s.addManyAb l) := by
  unfold MH.addManyAb
  induction l generalizing s with
  | nil => exact hx
  | cons y ys ih => exact ih (hx.addHashAb y.1 y.2)

theorem inv_addManyAb {s : MH} (hs : Inv s) (hx : Excl s) (l : List (Nat × Nat)) :
    Inv (s.addManyAb l) := by
  unfold MH.addManyAb
  induction l generalizing s with
  | nil => exact hs
  | cons y ys ih => exact ih (inv_addHashAb hs hx y.1 y.2) (hx.addHashAb y.1 y.2)

theorem Excl.removeMany {s : MH} (hx : Excl s) (l : List Nat) : Excl (s.removeMany l) := by
  unfold MH.removeMany
  induction l generalizing s with
  | nil => exact hx
  | cons y ys ih => exact ih (hx.removeHash y)

theorem inv_removeMany {s : MH} (hs : Inv s) (l : List Nat) : Inv (s.removeMany l) := by
  unfold MH.removeMany
  induction l generalizing s with
  | nil => exact hs
  | cons y ys ih => exact ih (inv_removeHash hs y)

theorem inv_addFrom {s : MH} (hs : Inv s) (hx : Excl s) (o : MH) : Inv (s.addFrom o) :=
  inv_addMany hs hx o.mins

theorem Excl.addFrom {s : MH} (hx : Excl s) (o : MH) : Excl (s.addFrom o) := hx.addMany o.mins

theorem inv_removeFrom {s : MH} (hs : Inv s) (o : MH) : Inv (s.removeFrom o) :=
  inv_removeMany hs o.mins

theorem Excl.removeFrom {s : MH} (hx : Excl s) (o : MH) : Excl (s.removeFrom o) :=
  hx.removeMany o.mins

theorem Excl.clear {s : MH} (hx : Excl s) : Excl s.clear := hx

/-- frame facts for the folds -/
theorem addManyAb_frame (s : MH) (l : List (Nat × Nat)) :
    (s.addManyAb l).num = s.num ∧ (s.addManyAb l).maxHash = s.maxHash ∧
    (s.addManyAb l).ksize = s.ksize ∧ (s.addManyAb l).seed = s.seed ∧
    (s.addManyAb l).hf = s.hf ∧ (s.addManyAb l).trackAbundance = s.trackAbundance := by
  unfold MH.addManyAb
  induction l generalizing s with
  | nil => simp
  | cons y ys ih =>
    have h1 := ih (s.addHashAb y.1 y.2)
    have h2 := addHashAb_frame s y.1 y.2
    simp only [List.foldl_cons]
    refine ⟨h1.1.trans h2.1, h1.2.1.trans h2.2.1, h1.2.2.1.trans h2.2.2.1,
      h1.2.2.2.1.trans h2.2.2.2.1, h1.2.2.2.2.1.trans h2.2.2.2.2.1,
      h1.2.2.2.2.2.trans h2.2.2.2.2.2⟩

theorem addMany_frame (s : MH) (l : List Nat) :
    (s.addMany l).num = s.num ∧ (s.addMany l).maxHash = s.maxHash ∧
    (s.addMany l).ksize = s.ksize ∧ (s.addMany l).seed = s.seed ∧
    (s.addMany l).hf = s.hf ∧ (s.addMany l).trackAbundance = s.trackAbundance := by
  unfold MH.addMany
  induction l generalizing s with
  | nil => simp
  | cons y ys ih =>
    have h1 := ih (s.addHash y)
    have h2 := addHashAb_frame s y 1
    simp only [List.foldl_cons]
    refine ⟨h1.1.trans h2.1, h1.2.1.trans h2.2.1, h1.2.2.1.trans h2.2.2.1,
      h1.2.2.2.1.trans h2.2.2.2.1, h1.2.2.2.2.1.trans h2.2.2.2.2.1,
      h1.2.2.2.2.2.trans h2.2.2.2.2.2⟩

end Sm
