/-
Transfer of the union laws from scaled sketches to num sketches: every valid num sketch is the bottom-`num` of an
unbounded reference sketch (itself with the capacity lifted, `liftRef`), `merge` commutes with that representation
(`NumRep.merge`, C01), and two num sketches represented by references with the same content are equal.
-/
import SmVerif.Lemmas.MinHashNumHist
import SmVerif.Lemmas.SetOps

namespace Sm

open MH

/-- the sketch with its capacity lifted: no `num`, threshold 2^64-1 -/
def liftRef (s : MH) : MH := { s with num := 0, maxHash := U64MAX, md5 := none }

/-- a valid num sketch of u64 hashes -/
structure NumSk (s : MH) : Prop where
  inv : Inv s
  num : s.num ≠ 0
  max : s.maxHash = 0
  u64 : ∀ h ∈ s.mins, h ≤ U64MAX

theorem NumSk.rep {s : MH} (h : NumSk s) : NumRep s (liftRef s) where
  invS := h.inv
  invU := ⟨h.inv.sorted, h.inv.aligned, h.inv.positive, fun _ x hx => h.u64 x hx, fun hc => absurd rfl hc⟩
  num := h.num
  sM := h.max
  uN := rfl
  uM := rfl
  track := rfl
  ksize := rfl
  hf := rfl
  seed := rfl
  rep := by
    have : (liftRef s).pairs = s.pairs := rfl
    rw [this, List.take_of_length_le]
    rw [pairs_length h.inv.toW]
    exact h.inv.capped h.num

theorem IsRef.scaled {u : MH} (h : IsRef u) : Scaled u :=
  ⟨h.inv, h.num, by rw [h.max]; exact U64MAX_ne_zero⟩

/-- two num sketches with the same capacity, represented by references with the same content, are equal -/
theorem NumRep.ext {s t u v : MH} (hs : NumRep s u) (ht : NumRep t v) (hn : s.num = t.num)
    (hm : u.mins = v.mins) (ha : u.abunds = v.abunds) : s.mins = t.mins ∧ s.abunds = t.abunds := by
  have hp : u.pairs = v.pairs := by unfold MH.pairs; rw [hm, ha]
  have htr : s.trackAbundance = t.trackAbundance := by
    rw [hs.track, ht.track]; unfold MH.trackAbundance; rw [ha]
  apply ext_of_count' hs.invS ht.invS htr
  intro x
  rw [count_eq_cnt, count_eq_cnt, hs.rep, ht.rep, hn, hp]

/-- a num sketch produced from `NumSk` operands by `merge` is again a `NumSk` -/
theorem NumSk.merge {s o r : MH} (hs : NumSk s) (ho : NumSk o) (hr : s.merge o = .ok r) : NumSk r := by
  have f := merge_frame hr
  refine ⟨inv_merge hs.inv ho.inv hr, by rw [f.1]; exact hs.num, by rw [f.2.1]; exact hs.max, ?_⟩
  intro h hh
  obtain ⟨_, rfl⟩ := merge_ok hr
  have hsub := (mergedOf_sublist s o).map Prod.fst
  have := hsub.subset hh
  rcases (mem_keys_mergeP h _ _).1 this with hx | hx
  · rw [pairs_keys hs.inv.toW] at hx; exact hs.u64 h hx
  · rw [pairs_keys ho.inv.toW] at hx; exact ho.u64 h hx

end Sm
