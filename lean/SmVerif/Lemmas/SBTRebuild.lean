/-
`_rebuild_node` (`rebuild`), `save`/`load` and `Node.unload` against the Cover invariant.
-/
import SmVerif.Lemmas.SBTCover

namespace Sm.SBT

open Sm.NG

/-! ### generic helpers -/

/-- induction principle for a `foldlM` over `List.range n` in `Except` -/
theorem foldlM_range_inv {σ ε : Type} (f : σ → Nat → Except ε σ) (P : Nat → σ → Prop) (n : Nat)
    (hstep : ∀ i s s', i < n → P i s → f s i = .ok s' → P (i + 1) s')
    {s s' : σ} (h0 : P 0 s) (h : (List.range n).foldlM f s = .ok s') : P n s' := by
  suffices H : ∀ m, m ≤ n → ∀ s', (List.range m).foldlM f s = .ok s' → P m s' from H n (Nat.le_refl _) s' h
  intro m
  induction m with
  | zero =>
    intro _ s' h
    simp only [List.range_zero, List.foldlM_nil, pure, Except.pure, Except.ok.injEq] at h
    subst h; exact h0
  | succ m ih =>
    intro hm s' h
    rw [List.range_succ, List.foldlM_append] at h
    simp only [bind, Except.bind] at h
    split at h
    · cases h
    · rename_i s1 h1
      simp only [List.foldlM_cons, List.foldlM_nil, bind, Except.bind] at h
      split at h
      · cases h
      · rename_i s2 h2
        simp only [pure, Except.pure, Except.ok.injEq] at h
        subst h
        exact hstep m s1 s2 (by omega) (ih (by omega) s1 h1) h2

/-- the body of the `_rebuild_node` loop in normal form (both code versions) -/
def rbStep (fixed : Bool) (fuel pos : Nat) (t : Tree) (i : Nat) : Except Err Tree :=
  match t.leaves.get? (child t.d pos i) with
  | some l => .ok (t.modNode pos (leafUpdate t.sizes l))
  | none =>
    match t.nodes.get? (child t.d pos i) with
    | some cn =>
      if fixed || t.missing.contains (child t.d pos i) then .ok (t.modNode pos (nodeUpdate t.sizes cn))
      else .ok t
    | none =>
      if t.missing.contains (child t.d pos i) then
        match rebuild fixed fuel t (child t.d pos i) with
        | .error e => .error e
        | .ok t1 =>
          match t1.nodes.get? (child t.d pos i) with
          | some cn => .ok (t1.modNode pos (nodeUpdate t1.sizes cn))
          | none => .error .key
      else .ok t

theorem rebuild_zero (fixed : Bool) (t : Tree) (pos : Nat) : rebuild fixed 0 t pos = .error .fuel := by
  rw [rebuild]

theorem rebuild_succ (fixed : Bool) (fuel : Nat) (t : Tree) (pos : Nat) :
    rebuild fixed (fuel + 1) t pos =
      match t.nodes.get? pos with
      | some _ => .ok t
      | none => (List.range t.d).foldlM (rbStep fixed fuel pos) { t with nodes := t.nodes.set pos INode.fresh } := by
  rw [rebuild]
  cases hp : t.nodes.get? pos with
  | some n => rfl
  | none =>
    show List.foldlM _ _ _ = List.foldlM _ _ _
    congr 1
    funext s i
    unfold rbStep
    cases hl : s.leaves.get? (child s.d pos i) with
    | some l => simp only [hl]
    | none =>
      simp only [hl]
      cases fixed with
      | true =>
        simp only [↓reduceIte, Bool.true_or]
        cases hn : s.nodes.get? (child s.d pos i) with
        | some cn => rfl
        | none =>
          simp only
          split
          · simp only [bind, Except.bind]
            cases hr : rebuild true fuel s (child s.d pos i) with
            | error e => rfl
            | ok t1 =>
              simp only
              cases hc : t1.nodes.get? (child s.d pos i) <;> rfl
          · rfl
      | false =>
        simp only [Bool.false_eq_true, ↓reduceIte, Bool.false_or]
        cases hn : s.nodes.get? (child s.d pos i) with
        | some cn => rfl
        | none =>
          simp only
          split
          · simp only [bind, Except.bind]
            cases hr : rebuild false fuel s (child s.d pos i) with
            | error e => rfl
            | ok t1 =>
              simp only
              cases hc : t1.nodes.get? (child s.d pos i) <;> rfl
          · rfl

/-! ### `modNode` -/

theorem modNode_get? (t : Tree) (p : Nat) (f : INode → INode) (q : Nat) :
    (t.modNode p f).nodes.get? q = if q = p then (t.nodes.get? p).map f else t.nodes.get? q := by
  unfold Tree.modNode
  cases h : t.nodes.get? p with
  | none =>
    by_cases hq : q = p
    · subst hq; simp [h]
    · simp [hq]
  | some n =>
    simp only [PMap.get?_set, Option.map_some]

theorem modNode_fields (t : Tree) (p : Nat) (f : INode → INode) :
    (t.modNode p f).leaves = t.leaves ∧ (t.modNode p f).missing = t.missing ∧ (t.modNode p f).d = t.d ∧
    (t.modNode p f).sizes = t.sizes ∧ (t.modNode p f).nextNode = t.nextNode ∧
    (t.modNode p f).cacheMax = t.cacheMax ∧ (t.modNode p f).cache = t.cache := by
  unfold Tree.modNode
  split <;> simp

/-! ### frame facts -/

/-- the fields `rebuild` never touches -/
def SameF (t t' : Tree) : Prop :=
  t'.leaves = t.leaves ∧ t'.missing = t.missing ∧ t'.d = t.d ∧ t'.sizes = t.sizes ∧ t'.nextNode = t.nextNode ∧
  t'.cacheMax = t.cacheMax ∧ t'.cache = t.cache

theorem SameF.refl (t : Tree) : SameF t t := ⟨rfl, rfl, rfl, rfl, rfl, rfl, rfl⟩

theorem SameF.trans {a b c : Tree} (h1 : SameF a b) (h2 : SameF b c) : SameF a c := by
  obtain ⟨a1, a2, a3, a4, a5, a6, a7⟩ := h1
  obtain ⟨b1, b2, b3, b4, b5, b6, b7⟩ := h2
  exact ⟨b1.trans a1, b2.trans a2, b3.trans a3, b4.trans a4, b5.trans a5, b6.trans a6, b7.trans a7⟩

theorem SameF.modNode (t : Tree) (p : Nat) (f : INode → INode) : SameF t (t.modNode p f) :=
  modNode_fields t p f

/-- frame invariant of the loop at `pos` relative to the state `t` before the fresh node was put in -/
def FrameInv (t : Tree) (pos : Nat) (s : Tree) : Prop :=
  SameF t s ∧ (∀ q n, q ≠ pos → t.nodes.get? q = some n → s.nodes.get? q = some n) ∧
  (s.nodes.get? pos).isSome = true ∧ (∀ q, q < pos → s.nodes.get? q = t.nodes.get? q)

theorem FrameInv.modNode {t s : Tree} {pos : Nat} (h : FrameInv t pos s) (f : INode → INode) :
    FrameInv t pos (s.modNode pos f) := by
  obtain ⟨h1, h2, h3, h4⟩ := h
  refine ⟨h1.trans (SameF.modNode _ _ _), ?_, ?_, ?_⟩
  · intro q n hq hn
    rw [modNode_get?, if_neg hq]; exact h2 q n hq hn
  · rw [modNode_get?, if_pos rfl]
    obtain ⟨n, hn⟩ := Option.isSome_iff_exists.mp h3
    simp [hn]
  · intro q hq
    rw [modNode_get?, if_neg (by omega)]; exact h4 q hq

theorem rebuild_frame_aux (fixed : Bool) : ∀ (fuel : Nat) (t t' : Tree) (pos : Nat),
    rebuild fixed fuel t pos = .ok t' →
    SameF t t' ∧ (∀ q n, t.nodes.get? q = some n → t'.nodes.get? q = some n) ∧
    (t'.nodes.get? pos).isSome = true ∧ (∀ q, q < pos → t'.nodes.get? q = t.nodes.get? q) := by
  intro fuel
  induction fuel with
  | zero => intro t t' pos h; rw [rebuild_zero] at h; cases h
  | succ fuel ih =>
    intro t t' pos h
    rw [rebuild_succ] at h
    cases hp : t.nodes.get? pos with
    | some n =>
      simp only [hp, Except.ok.injEq] at h
      subst h
      exact ⟨SameF.refl _, fun _ _ h => h, by simp [hp], fun _ _ => rfl⟩
    | none =>
      simp only [hp] at h
      have key : FrameInv t pos t' := by
        refine foldlM_range_inv (rbStep fixed fuel pos) (fun _ s => FrameInv t pos s) t.d ?_ ?_ h
        · intro i s s' hi hs hstep
          have hsd : s.d = t.d := hs.1.2.2.1
          have hc : pos < child s.d pos i := child_gt _ _ _ (by omega)
          unfold rbStep at hstep
          split at hstep
          · cases hstep; exact hs.modNode _
          · split at hstep
            · split at hstep <;> cases hstep
              · exact hs.modNode _
              · exact hs
            · split at hstep
              · split at hstep
                · cases hstep
                · rename_i s1 hr
                  have hs1 := ih _ _ _ hr
                  have : FrameInv t pos s1 := by
                    obtain ⟨h1, h2, h3, h4⟩ := hs
                    refine ⟨h1.trans hs1.1, ?_, ?_, ?_⟩
                    · intro q n hq hn; exact hs1.2.1 q n (h2 q n hq hn)
                    · rw [hs1.2.2.2 pos hc]; exact h3
                    · intro q hq; rw [hs1.2.2.2 q (by omega)]; exact h4 q hq
                  split at hstep <;> cases hstep
                  exact this.modNode _
              · cases hstep; exact hs
        · refine ⟨SameF.refl _, ?_, ?_, ?_⟩
          · intro q n hq hn
            show PMap.get? (PMap.set _ _ _) _ = _
            rw [PMap.get?_set_ne _ _ hq]; exact hn
          · show (PMap.get? (PMap.set _ _ _) _).isSome = true
            rw [PMap.get?_set_self]; rfl
          · intro q hq
            show PMap.get? (PMap.set _ _ _) _ = _
            rw [PMap.get?_set_ne _ _ (by omega)]
      obtain ⟨h1, h2, h3, h4⟩ := key
      refine ⟨h1, ?_, h3, h4⟩
      intro q n hn
      exact h2 q n (by intro e; subst e; rw [hp] at hn; cases hn) hn

theorem rebuild_frame {fixed : Bool} {fuel : Nat} {t t' : Tree} {pos : Nat} (h : rebuild fixed fuel t pos = .ok t') :
    t'.leaves = t.leaves ∧ t'.missing = t.missing ∧ t'.d = t.d ∧ t'.sizes = t.sizes ∧ t'.nextNode = t.nextNode ∧
    t'.cacheMax = t.cacheMax ∧ t'.cache = t.cache ∧
    (∀ q n, t.nodes.get? q = some n → t'.nodes.get? q = some n) ∧ (t'.nodes.get? pos).isSome = true ∧
    (∀ q, q < pos → t'.nodes.get? q = t.nodes.get? q) := by
  obtain ⟨⟨a1, a2, a3, a4, a5, a6, a7⟩, h2, h3, h4⟩ := rebuild_frame_aux fixed fuel t t' pos h
  exact ⟨a1, a2, a3, a4, a5, a6, a7, h2, h3, h4⟩

/-! ### the five ways a loop step can succeed -/

theorem rbStep_cases {fixed : Bool} {fuel pos i : Nat} {s s' : Tree} (h : rbStep fixed fuel pos s i = .ok s') :
    (∃ l, s.leaves.get? (child s.d pos i) = some l ∧ s' = s.modNode pos (leafUpdate s.sizes l)) ∨
    (s.leaves.get? (child s.d pos i) = none ∧ ∃ cn, s.nodes.get? (child s.d pos i) = some cn ∧
      s' = s.modNode pos (nodeUpdate s.sizes cn)) ∨
    (s.leaves.get? (child s.d pos i) = none ∧ (∃ cn, s.nodes.get? (child s.d pos i) = some cn) ∧
      fixed = false ∧ s.missing.contains (child s.d pos i) = false ∧ s' = s) ∨
    (s.leaves.get? (child s.d pos i) = none ∧ s.nodes.get? (child s.d pos i) = none ∧
      s.missing.contains (child s.d pos i) = true ∧
      ∃ s1 cn, rebuild fixed fuel s (child s.d pos i) = .ok s1 ∧ s1.nodes.get? (child s.d pos i) = some cn ∧
        s' = s1.modNode pos (nodeUpdate s1.sizes cn)) ∨
    (s.leaves.get? (child s.d pos i) = none ∧ s.nodes.get? (child s.d pos i) = none ∧
      s.missing.contains (child s.d pos i) = false ∧ s' = s) := by
  unfold rbStep at h
  split at h
  · rename_i l hl
    cases h; exact Or.inl ⟨l, hl, rfl⟩
  · rename_i hl
    split at h
    · rename_i cn hn
      split at h
      · cases h; exact Or.inr (Or.inl ⟨hl, cn, hn, rfl⟩)
      · rename_i hf
        cases h
        simp only [Bool.or_eq_true, not_or, Bool.not_eq_true] at hf
        exact Or.inr (Or.inr (Or.inl ⟨hl, ⟨cn, hn⟩, hf.1, hf.2, rfl⟩))
    · rename_i hn
      split at h
      · rename_i hm
        split at h
        · cases h
        · rename_i s1 hr
          split at h
          · rename_i cn hcn
            cases h
            exact Or.inr (Or.inr (Or.inr (Or.inl ⟨hl, hn, hm, s1, cn, hr, hcn, rfl⟩)))
          · cases h
      · rename_i hm
        cases h
        exact Or.inr (Or.inr (Or.inr (Or.inr ⟨hl, hn, by simpa using hm, rfl⟩)))

/-! ### cleanliness -/

/-- no node with a backing store holds unsaved changes -/
def Clean (t : Tree) : Prop := ∀ p n, t.nodes.get? p = some n → n.hasStorage = true → n.mem = none

/-- a node with a backing store after `rebuild` is an untouched node from before -/
theorem rebuild_storage (fixed : Bool) : ∀ (fuel : Nat) (t t' : Tree) (pos : Nat),
    rebuild fixed fuel t pos = .ok t' →
    ∀ q n, t'.nodes.get? q = some n → n.hasStorage = true → t.nodes.get? q = some n := by
  intro fuel
  induction fuel with
  | zero => intro t t' pos h; rw [rebuild_zero] at h; cases h
  | succ fuel ih =>
    intro t t' pos h
    rw [rebuild_succ] at h
    cases hp : t.nodes.get? pos with
    | some n =>
      simp only [hp, Except.ok.injEq] at h
      subst h
      exact fun _ _ h _ => h
    | none =>
      simp only [hp] at h
      have hmod : ∀ (s : Tree) (f : INode → INode), (∀ n, (f n).hasStorage = n.hasStorage) →
          (∀ q n, s.nodes.get? q = some n → n.hasStorage = true → t.nodes.get? q = some n) →
          (∀ q n, (s.modNode pos f).nodes.get? q = some n → n.hasStorage = true → t.nodes.get? q = some n) := by
        intro s f hf hs q n hn hst
        rw [modNode_get?] at hn
        by_cases hq : q = pos
        · subst hq
          rw [if_pos rfl] at hn
          cases hm : s.nodes.get? q with
          | none => rw [hm] at hn; cases hn
          | some m =>
            rw [hm] at hn
            simp only [Option.map_some, Option.some.injEq] at hn
            subst hn
            rw [hf] at hst
            have := hs q m hm hst
            rw [hp] at this; cases this
        · rw [if_neg hq] at hn; exact hs q n hn hst
      refine foldlM_range_inv (rbStep fixed fuel pos)
        (fun _ s => ∀ q n, s.nodes.get? q = some n → n.hasStorage = true → t.nodes.get? q = some n) t.d ?_ ?_ h
      · intro i s s' hi hs hstep
        rcases rbStep_cases hstep with ⟨l, _, rfl⟩ | ⟨_, cn, _, rfl⟩ | ⟨_, _, _, _, rfl⟩ |
          ⟨_, _, _, s1, cn, hr, _, rfl⟩ | ⟨_, _, _, rfl⟩
        · exact hmod s _ (fun _ => rfl) hs
        · exact hmod s _ (fun _ => rfl) hs
        · exact hs
        · refine hmod s1 _ (fun _ => rfl) ?_
          intro q n hn hst
          exact hs q n (ih _ _ _ hr q n hn hst) hst
        · exact hs
      · intro q n hn hst
        by_cases hq : q = pos
        · subst hq
          have : PMap.get? (PMap.set t.nodes q INode.fresh) q = some n := hn
          rw [PMap.get?_set_self] at this
          cases this
          cases hst
        · have : PMap.get? (PMap.set t.nodes pos INode.fresh) q = some n := hn
          rw [PMap.get?_set_ne _ _ hq] at this
          exact this

theorem rebuild_clean {fixed : Bool} {fuel : Nat} {t t' : Tree} {pos : Nat} (hcl : Clean t)
    (h : rebuild fixed fuel t pos = .ok t') : Clean t' := by
  intro p n hn hst
  exact hcl p n (rebuild_storage fixed fuel t t' pos h p n hn hst) hst

theorem unload_data (sizes : List Nat) {n : INode} (hcl : n.hasStorage = true → n.mem = none) :
    n.unload.data sizes = n.data sizes ∧ n.unload.minN = n.minN := by
  unfold INode.unload
  split
  · rename_i hst
    have := hcl hst
    simp [INode.data, this]
  · exact ⟨rfl, rfl⟩

theorem unload_holds {sizes : List Nat} {n : INode} {l : Leaf} (hcl : n.hasStorage = true → n.mem = none) :
    Holds sizes n.unload l ↔ Holds sizes n l := by
  unfold Holds
  rw [(unload_data sizes hcl).1, (unload_data sizes hcl).2]

theorem unload_dataOK {sizes : List Nat} {n : INode} (h : DataOK sizes n) : DataOK sizes n.unload := by
  unfold INode.unload
  split
  · exact ⟨fun g hg => (by cases hg), h.2⟩
  · exact h

/-! ### Cover with an in-progress set -/

/-- what `Cover` asks of position `a` for a leaf `l` below it -/
def CovAt (t : Tree) (a : Nat) (l : Leaf) : Prop :=
  match t.nodes.get? a with
  | some n => Holds t.sizes n l
  | none => a ∈ t.missing

/-- `Cover`, except that the positions in `X` (fresh nodes whose loop is still running) are exempt -/
def CoverX (X : Nat → Prop) (t : Tree) : Prop :=
  ∀ p l, t.leaves.get? p = some l → ∀ a ∈ ancestors t.d p, t.leaves.get? a = none ∧ (¬ X a → CovAt t a l)

theorem cover_iff_coverX (t : Tree) : Cover t ↔ CoverX (fun _ => False) t := by
  constructor
  · intro h p l hl a ha
    exact ⟨(h p l hl a ha).1, fun _ => (h p l hl a ha).2⟩
  · intro h p l hl a ha
    exact ⟨(h p l hl a ha).1, (h p l hl a ha).2 (fun x => x)⟩

/-- `NoOrphan` with an in-progress set: a present node whose parent is absent or in progress is listed -/
def NoOrphanX (X : Nat → Prop) (t : Tree) : Prop :=
  ∀ c, (t.nodes.get? c).isSome = true → c ≠ 0 →
    ((t.nodes.get? (parent t.d c)).isSome = false ∨ X (parent t.d c)) → c ∈ t.missing

theorem SameF.eq {t s : Tree} (h : SameF t s) : s = { t with nodes := s.nodes } := by
  obtain ⟨h1, h2, h3, h4, h5, h6, h7⟩ := h
  cases s; cases t
  simp only at h1 h2 h3 h4 h5 h6 h7
  subst h1 h2 h3 h4 h5 h6 h7
  rfl

theorem modNode_some {t : Tree} {p : Nat} {n : INode} (h : t.nodes.get? p = some n) (f : INode → INode) :
    t.modNode p f = { t with nodes := t.nodes.set p (f n) } := by
  unfold Tree.modNode; rw [h]

theorem CoverX.of_nodes {X Y : Nat → Prop} {t : Tree} (ns : PMap INode) (h : CoverX X t)
    (hn : ∀ a, ¬ Y a → ¬ X a ∧ PMap.get? ns a = t.nodes.get? a) : CoverX Y { t with nodes := ns } := by
  intro p l hl a ha
  obtain ⟨h1, h2⟩ := h p l hl a ha
  refine ⟨h1, fun hy => ?_⟩
  have h3 := h2 (hn a hy).1
  unfold CovAt at h3 ⊢
  show match PMap.get? ns a with | some n => Holds t.sizes n l | none => a ∈ t.missing
  rw [(hn a hy).2]; exact h3

theorem NoOrphanX.of_nodes {X : Nat → Prop} {t : Tree} (ns : PMap INode) (h : NoOrphanX X t)
    (hn : ∀ q, (PMap.get? ns q).isSome = (t.nodes.get? q).isSome) : NoOrphanX X { t with nodes := ns } := by
  intro c hc hc0 hpar
  show c ∈ t.missing
  refine h c ?_ hc0 ?_
  · rw [← hn]; exact hc
  · rcases hpar with hpar | hpar
    · left; rw [← hn]; exact hpar
    · right; exact hpar

theorem Base.of_nodes {t : Tree} (ns : PMap INode) (h : Base t)
    (hn : ∀ q n, PMap.get? ns q = some n → DataOK t.sizes n) : Base { t with nodes := ns } :=
  ⟨h.d2, h.sizes, hn⟩

/-- the loop invariant of `_rebuild_node(pos)` after `i` children, relative to the tree `t` at entry -/
structure LoopInv (fixed : Bool) (X : Nat → Prop) (t : Tree) (pos i : Nat) (s : Tree) : Prop where
  same : SameF t s
  base : Base s
  cover : CoverX (fun a => X a ∨ a = pos) s
  orphan : fixed = false → NoOrphanX (fun a => X a ∨ a = pos) s
  node : ∃ n, s.nodes.get? pos = some n ∧ ∀ p l, t.leaves.get? p = some l → ∀ j, j < i →
      (p = child t.d pos j ∨ child t.d pos j ∈ ancestors t.d p) → Holds t.sizes n l

/-- merge something into the node at `pos` that covers the leaves at and below child `i` -/
theorem LoopInv.merge {fixed : Bool} {X : Nat → Prop} {t s : Tree} {pos i : Nat}
    (h : LoopInv fixed X t pos i s) (f : INode → INode)
    (hf : ∀ n, s.nodes.get? pos = some n → Ext t.sizes n (f n))
    (hnew : ∀ n, s.nodes.get? pos = some n → DataOK t.sizes n → ∀ p l, t.leaves.get? p = some l →
      (p = child t.d pos i ∨ child t.d pos i ∈ ancestors t.d p) → Holds t.sizes (f n) l) :
    LoopInv fixed X t pos (i + 1) (s.modNode pos f) := by
  obtain ⟨hsame, hbase, hcover, horph, n, hn, hnode⟩ := h
  obtain ⟨ns, rfl⟩ : ∃ ns, s = { t with nodes := ns } := ⟨s.nodes, hsame.eq⟩
  have hn' : PMap.get? ns pos = some n := hn
  have hdn : DataOK t.sizes n := hbase.nodesOK pos n hn
  obtain ⟨hdfn, hext⟩ := hf n hn hdn
  rw [modNode_some hn]
  refine ⟨⟨rfl, rfl, rfl, rfl, rfl, rfl, rfl⟩, ?_, ?_, ?_, f n, PMap.get?_set_self _ _ _, ?_⟩
  · refine Base.of_nodes (t := { t with nodes := ns }) _ hbase ?_
    intro q m hm
    rw [PMap.get?_set] at hm
    split at hm
    · cases hm; exact hdfn
    · exact hbase.nodesOK q m hm
  · refine CoverX.of_nodes (t := { t with nodes := ns }) _ hcover ?_
    intro a ha
    refine ⟨ha, ?_⟩
    rw [PMap.get?_set_ne _ _ (fun e => ha (Or.inr e))]
  · intro hfx
    refine NoOrphanX.of_nodes (t := { t with nodes := ns }) _ (horph hfx) ?_
    intro q
    rw [PMap.get?_set]
    split
    · rename_i hq; subst hq; show _ = (PMap.get? ns q).isSome; rw [hn']; rfl
    · rfl
  · intro p l hl j hj hpos
    by_cases hji : j = i
    · subst hji; exact hnew n hn hdn p l hl hpos
    · exact hext l (hnode p l hl j (by omega) hpos)

/-- nothing to do for child `i`: no leaf at or below it -/
theorem LoopInv.skip {fixed : Bool} {X : Nat → Prop} {t s : Tree} {pos i : Nat}
    (h : LoopInv fixed X t pos i s)
    (hnone : ∀ p l, t.leaves.get? p = some l →
      (p = child t.d pos i ∨ child t.d pos i ∈ ancestors t.d p) → False) :
    LoopInv fixed X t pos (i + 1) s := by
  obtain ⟨hsame, hbase, hcover, horph, n, hn, hnode⟩ := h
  refine ⟨hsame, hbase, hcover, horph, n, hn, ?_⟩
  intro p l hl j hj hpos
  by_cases hji : j = i
  · subst hji; exact (hnone p l hl hpos).elim
  · exact hnode p l hl j (by omega) hpos

/-- where the shipped code may be asked to rebuild -/
def PosOK (X : Nat → Prop) (t : Tree) (pos : Nat) : Prop :=
  pos ∈ t.missing ∨ pos = 0 ∨ ((t.nodes.get? (parent t.d pos)).isSome = true ∧ ¬ X (parent t.d pos))

/-- both code versions at once; the shipped one additionally needs (and keeps) `NoOrphanX` -/
theorem rebuild_cover_aux (fixed : Bool) : ∀ (fuel : Nat) (X : Nat → Prop) (t t' : Tree) (pos : Nat),
    (∀ a, X a → a < pos) → Base t → CoverX X t → (fixed = false → NoOrphanX X t ∧ PosOK X t pos) →
    rebuild fixed fuel t pos = .ok t' →
    Base t' ∧ CoverX X t' ∧ (fixed = false → NoOrphanX X t') := by
  intro fuel
  induction fuel with
  | zero => intro X t t' pos _ _ _ _ h; rw [rebuild_zero] at h; cases h
  | succ fuel ih =>
    intro X t t' pos hX hb hc ho h
    rw [rebuild_succ] at h
    cases hp : t.nodes.get? pos with
    | some n =>
      simp only [hp, Except.ok.injEq] at h
      subst h
      exact ⟨hb, hc, fun hf => (ho hf).1⟩
    | none =>
      simp only [hp] at h
      have hd0 : 0 < t.d := by have := hb.d2; omega
      -- the loop
      have key : LoopInv fixed X t pos t.d t' := by
        refine foldlM_range_inv (rbStep fixed fuel pos) (fun i s => LoopInv fixed X t pos i s) t.d ?_ ?_ h
        · intro i s s' hi hs hstep
          obtain ⟨ns, rfl⟩ : ∃ ns, s = { t with nodes := ns } := ⟨s.nodes, hs.same.eq⟩
          have hcpos : pos < child t.d pos i := child_gt _ _ _ (by omega)
          have hX' : ∀ a, (X a ∨ a = pos) → a < child t.d pos i := by
            intro a ha
            rcases ha with ha | ha
            · have := hX a ha; omega
            · omega
          have hnXc : ¬ (X (child t.d pos i) ∨ child t.d pos i = pos) := by
            intro ha; have := hX' _ ha; omega
          rcases rbStep_cases hstep with ⟨l0, hl0, rfl⟩ | ⟨hl0, cn, hcn, rfl⟩ | ⟨hl0, ⟨cn, hcn⟩, hfx, hnm, rfl⟩ |
            ⟨hl0, hcn, hm, s1, cn, hr, hcn1, rfl⟩ | ⟨hl0, hcn, hnm, rfl⟩
          · -- a leaf child
            refine hs.merge _ (fun n _ => leafUpdate_ext hb.sizes l0 n) ?_
            intro n _ hdn p l hl hpos
            rcases hpos with hpos | hpos
            · subst hpos
              have : some l = some l0 := hl.symm.trans hl0
              cases this
              exact leafUpdate_holds hb.sizes _ hdn
            · have := (hs.cover p l hl _ hpos).1
              rw [hl0] at this; cases this
          · -- a present internal child, merged
            have hdc : DataOK t.sizes cn := hs.base.nodesOK _ cn hcn
            refine hs.merge _ (fun n _ => nodeUpdate_ext hb.sizes hdc n) ?_
            intro n _ hdn p l hl hpos
            rcases hpos with hpos | hpos
            · subst hpos
              rw [hl0] at hl; cases hl
            · have := (hs.cover p l hl _ hpos).2 hnXc
              unfold CovAt at this
              rw [hcn] at this
              exact nodeUpdate_holds hb.sizes hdc hdn this
          · -- shipped code skips a present unlisted child: excluded by NoOrphanX
            exfalso
            have := hs.orphan hfx (child t.d pos i) (by rw [hcn]; rfl) (by omega)
              (Or.inr (Or.inr (parent_child hi)))
            have hc' : t.missing.contains (child t.d pos i) = true := by simpa using this
            rw [hc'] at hnm; cases hnm
          · -- an absent listed child: rebuilt first
            have hmem : child t.d pos i ∈ t.missing := by simpa using hm
            have hfr := rebuild_frame_aux fixed fuel _ s1 _ hr
            obtain ⟨hb1, hc1, ho1⟩ := ih (fun a => X a ∨ a = pos) _ s1 _ hX' hs.base hs.cover
              (fun hfx => ⟨hs.orphan hfx, Or.inl hmem⟩) hr
            obtain ⟨ns1, rfl⟩ : ∃ ns1, s1 = { t with nodes := ns1 } :=
              ⟨s1.nodes, (hs.same.trans hfr.1).eq⟩
            have hs1 : LoopInv fixed X t pos i { t with nodes := ns1 } := by
              obtain ⟨n, hn, hnode⟩ := hs.node
              refine ⟨⟨rfl, rfl, rfl, rfl, rfl, rfl, rfl⟩, hb1, hc1, ho1, n, ?_, hnode⟩
              rw [hfr.2.2.2 pos hcpos]; exact hn
            have hdc : DataOK t.sizes cn := hb1.nodesOK _ cn hcn1
            refine hs1.merge _ (fun n _ => nodeUpdate_ext hb.sizes hdc n) ?_
            intro n _ hdn p l hl hpos
            rcases hpos with hpos | hpos
            · subst hpos
              rw [hl0] at hl; cases hl
            · have := (hc1 p l hl _ hpos).2 hnXc
              unfold CovAt at this
              rw [hcn1] at this
              exact nodeUpdate_holds hb.sizes hdc hdn this
          · -- an absent unlisted child: nothing below it
            refine hs.skip ?_
            intro p l hl hpos
            rcases hpos with hpos | hpos
            · subst hpos
              rw [hl0] at hl; cases hl
            · have := (hs.cover p l hl _ hpos).2 hnXc
              unfold CovAt at this
              rw [hcn] at this
              have hc' : t.missing.contains (child t.d pos i) = true := by simpa using this
              rw [hc'] at hnm; cases hnm
        · -- the state after the fresh node is put in
          refine ⟨⟨rfl, rfl, rfl, rfl, rfl, rfl, rfl⟩, ?_, ?_, ?_, INode.fresh, PMap.get?_set_self _ _ _, ?_⟩
          · refine Base.of_nodes _ hb ?_
            intro q m hm
            rw [PMap.get?_set] at hm
            split at hm
            · cases hm; exact fresh_dataOK _
            · exact hb.nodesOK q m hm
          · refine CoverX.of_nodes _ hc ?_
            intro a ha
            refine ⟨fun hx => ha (Or.inl hx), ?_⟩
            rw [PMap.get?_set_ne _ _ (fun e => ha (Or.inr e))]
          · intro hfx
            obtain ⟨hno, hpok⟩ := ho hfx
            intro c hc1 hc0 hpar
            show c ∈ t.missing
            have hget : ∀ q, q ≠ pos → PMap.get? (PMap.set t.nodes pos INode.fresh) q = t.nodes.get? q :=
              fun q hq => PMap.get?_set_ne _ _ hq
            have hc1' : (PMap.get? (PMap.set t.nodes pos INode.fresh) c).isSome = true := hc1
            have hpar' : (PMap.get? (PMap.set t.nodes pos INode.fresh) (parent t.d c)).isSome = false ∨
                (X (parent t.d c) ∨ parent t.d c = pos) := hpar
            have hplt : parent t.d c < c := parent_lt (by omega)
            by_cases hcp : c = pos
            · subst hcp
              rcases hpok with hpok | hpok | ⟨hpok, hpx⟩
              · exact hpok
              · exact absurd hpok hc0
              · exfalso
                rcases hpar' with hpar' | hpar' | hpar'
                · rw [hget _ (by omega), hpok] at hpar'; cases hpar'
                · exact hpx hpar'
                · omega
            · rw [hget c hcp] at hc1'
              refine hno c hc1' hc0 ?_
              rcases hpar' with hpar' | hpar' | hpar'
              · by_cases hpp : parent t.d c = pos
                · left; rw [hpp, hp]; rfl
                · left; rw [hget _ hpp] at hpar'; exact hpar'
              · right; exact hpar'
              · left; rw [hpar', hp]; rfl
          · intro p l _ j hj; omega
      -- after the loop
      obtain ⟨hsame, hbase, hcover, horph, n, hn, hnode⟩ := key
      obtain ⟨ns, rfl⟩ : ∃ ns, t' = { t with nodes := ns } := ⟨t'.nodes, hsame.eq⟩
      refine ⟨hbase, ?_, ?_⟩
      · intro p l hl a ha
        refine ⟨(hcover p l hl a ha).1, fun hx => ?_⟩
        by_cases hap : a = pos
        · subst hap
          obtain ⟨j, hj, hpos⟩ := below_cases hd0 ha
          unfold CovAt
          rw [hn]
          exact hnode p l hl j hj hpos
        · exact (hcover p l hl a ha).2 (fun h => h.elim hx hap)
      · intro hfx c hc1 hc0 hpar
        exact horph hfx c hc1 hc0 (hpar.imp_right Or.inl)

/-! ### the repaired code -/

theorem rebuild_fixed_cover {fuel : Nat} {t t' : Tree} {pos : Nat} (hb : Base t) (hc : Cover t)
    (h : rebuild true fuel t pos = .ok t') : Base t' ∧ Cover t' := by
  obtain ⟨h1, h2, _⟩ := rebuild_cover_aux true fuel (fun _ => False) t t' pos (fun _ hx => hx.elim) hb
    ((cover_iff_coverX t).mp hc) (fun hf => by cases hf) h
  exact ⟨h1, (cover_iff_coverX t').mpr h2⟩

/-! ### the shipped code, when no present node hangs unlisted under an absent one -/

def NoOrphan (t : Tree) : Prop :=
  ∀ c n, t.nodes.get? c = some n → c ≠ 0 → t.nodes.get? (parent t.d c) = none → c ∈ t.missing

theorem noOrphan_iff (t : Tree) : NoOrphan t ↔ NoOrphanX (fun _ => False) t := by
  constructor
  · intro h c hc hc0 hpar
    obtain ⟨n, hn⟩ := Option.isSome_iff_exists.mp hc
    rcases hpar with hpar | hpar
    · exact h c n hn hc0 (by simpa using hpar)
    · exact hpar.elim
  · intro h c n hn hc0 hpar
    exact h c (by rw [hn]; rfl) hc0 (Or.inl (by rw [hpar]; rfl))

theorem rebuild_shipped_cover_partial {fuel : Nat} {t t' : Tree} {pos : Nat} (hb : Base t) (hc : Cover t)
    (ho : NoOrphan t)
    (hpos : pos ∈ t.missing ∨ pos = 0 ∨ (t.nodes.get? (parent t.d pos)).isSome = true)
    (h : rebuild false fuel t pos = .ok t') : Base t' ∧ Cover t' ∧ NoOrphan t' := by
  obtain ⟨h1, h2, h3⟩ := rebuild_cover_aux false fuel (fun _ => False) t t' pos (fun _ hx => hx.elim) hb
    ((cover_iff_coverX t).mp hc)
    (fun _ => ⟨(noOrphan_iff t).mp ho, hpos.imp_right (Or.imp_right (fun hp => ⟨hp, fun hx => hx⟩))⟩) h
  exact ⟨h1, (cover_iff_coverX t').mpr h2, (noOrphan_iff t').mpr (h3 rfl)⟩

/-! ### save and load -/

namespace PMap
variable {α β : Type}

theorem get?_filter_key (m : PMap α) (f : Nat → Bool) (p : Nat) :
    get? (m.filter (fun kv => f kv.1)) p = if f p = true then get? m p else none := by
  induction m with
  | nil => simp [get?_nil]
  | cons kv r ih =>
    obtain ⟨k, v⟩ := kv
    rw [List.filter_cons]
    by_cases hk : k = p
    · subst hk
      cases hf : f k <;> simp [hf, get?_cons, ih]
    · cases hf : f k <;> simp [get?_cons, ih, hk]

theorem get?_map_val (m : PMap α) (g : α → β) (p : Nat) :
    get? (m.map (fun kv => (kv.1, g kv.2))) p = (get? m p).map g := by
  induction m with
  | nil => simp [get?_nil]
  | cons kv r ih =>
    obtain ⟨k, v⟩ := kv
    rw [List.map_cons, get?_cons, get?_cons, ih]
    split <;> simp

end PMap

theorem le_listMax {l : List Nat} {x : Nat} (h : x ∈ l) : x ≤ listMax l := by
  cases l with
  | nil => simp at h
  | cons y ys =>
    show x ≤ ys.foldl max y
    have := foldl_max_ge ys y
    rcases List.mem_cons.mp h with h | h
    · rw [h]; exact this.1
    · exact this.2 _ h

/-- the internal nodes `load` builds from an image -/
def loadNodes (im : Image) : PMap INode :=
  im.nodes.map (fun kv => (kv.1, (fun (sn : SavedNode) => (⟨none, some sn.data, true, sn.minN⟩ : INode)) kv.2))

/-- the `_missing_nodes` list `load` computes -/
def loadMissing (im : Image) : List Nat :=
  (List.range (listMax (0 :: (im.nodes.keys ++ im.leaves.keys)))).filter
    (fun i => !(PMap.has (loadNodes im) i) && !(PMap.has im.leaves i))

theorem load_ok {fixed : Bool} {im : Image} {ver : Nat} {cm : Option Nat} {t' : Tree} (hv : ver ≠ 3)
    (h : load fixed im ver cm = .ok t') :
    t' = { d := im.d, sizes := im.sizes, nodes := loadNodes im, leaves := im.leaves, missing := loadMissing im,
           nextNode := if ver = 4 then listMax (0 :: (im.nodes.keys ++ im.leaves.keys)) else 0,
           cacheMax := cm, cache := [] } := by
  unfold load at h
  split at h
  · cases h
  · simp only [Except.ok.injEq] at h
    rw [← h]
    rfl

/-- what `save` followed by `load` makes of an internal node -/
def reloaded (sizes : List Nat) (n : INode) : INode := ⟨none, some (n.data sizes), true, n.minN⟩

theorem loadNodes_save_get? (t : Tree) (omitted : Nat → Bool) (p : Nat) :
    PMap.get? (loadNodes (save t omitted)) p =
      if omitted p = true then none else (t.nodes.get? p).map (reloaded t.sizes) := by
  have e1 := PMap.get?_map_val (save t omitted).nodes
    (fun (sn : SavedNode) => (⟨none, some sn.data, true, sn.minN⟩ : INode)) p
  have e2 : PMap.get? (save t omitted).nodes p = _ :=
    PMap.get?_map_val (t.nodes.filter (fun kv => !omitted kv.1))
      (fun n : INode => (⟨n.data t.sizes, n.minN⟩ : SavedNode)) p
  have e3 := PMap.get?_filter_key t.nodes (fun k => !omitted k) p
  refine e1.trans ?_
  rw [e2, e3]
  cases omitted p
  · simp only [Bool.not_false, ↓reduceIte, Bool.false_eq_true, Option.map_map]
    rfl
  · simp

theorem mem_loadMissing_save {t : Tree} {omitted : Nat → Bool} {a p : Nat} {l : Leaf}
    (hl : t.leaves.get? p = some l) (hap : a < p) (hla : t.leaves.get? a = none)
    (hna : PMap.get? (loadNodes (save t omitted)) a = none) : a ∈ loadMissing (save t omitted) := by
  unfold loadMissing
  rw [List.mem_filter, List.mem_range]
  refine ⟨?_, ?_⟩
  · have hk : p ∈ PMap.keys t.leaves := PMap.mem_keys_iff.mpr (by rw [hl]; rfl)
    have : p ≤ listMax (0 :: (PMap.keys (save t omitted).nodes ++ PMap.keys (save t omitted).leaves)) :=
      le_listMax (List.mem_cons_of_mem _ (List.mem_append_right _ hk))
    omega
  · have h2 : PMap.get? (save t omitted).leaves a = none := hla
    simp [PMap.has, hna, h2]

theorem load_save_cover {fixed : Bool} {t t' : Tree} (omitted : Nat → Bool) {ver : Nat} (cm : Option Nat)
    (hv : ver ≠ 3) (hb : Base t) (hc : Cover t) (h : load fixed (save t omitted) ver cm = .ok t') :
    Base t' ∧ Cover t' ∧ Clean t' ∧ t'.leaves = t.leaves ∧ t'.d = t.d ∧ t'.sizes = t.sizes ∧
    (∀ p, omitted p = true → t'.nodes.get? p = none) ∧
    (∀ p n, omitted p = false → t.nodes.get? p = some n →
      ∃ n', t'.nodes.get? p = some n' ∧ n'.data t'.sizes = n.data t.sizes ∧ n'.minN = n.minN) := by
  have ht' := load_ok hv h
  subst ht'
  have hget := loadNodes_save_get? t omitted
  refine ⟨⟨hb.d2, hb.sizes, ?_⟩, ?_, ?_, rfl, rfl, rfl, ?_, ?_⟩
  · intro p n' hn'
    have hn2 : PMap.get? (loadNodes (save t omitted)) p = some n' := hn'
    rw [hget] at hn2
    split at hn2
    · cases hn2
    · cases hn : t.nodes.get? p with
      | none => rw [hn] at hn2; cases hn2
      | some n =>
        rw [hn] at hn2
        simp only [Option.map_some, Option.some.injEq] at hn2
        subst hn2
        have := data_ok hb.sizes (hb.nodesOK p n hn)
        exact ⟨fun g hg => (by cases hg), fun g hg => (by cases hg; exact this)⟩
  · intro p l hl a ha
    obtain ⟨h1, h2⟩ := hc p l hl a ha
    refine ⟨h1, ?_⟩
    show match PMap.get? (loadNodes (save t omitted)) a with
      | some n => Holds t.sizes n l
      | none => a ∈ loadMissing (save t omitted)
    have hmiss : PMap.get? (loadNodes (save t omitted)) a = none → a ∈ loadMissing (save t omitted) :=
      mem_loadMissing_save hl (mem_ancestors_lt ha) h1
    cases hr : PMap.get? (loadNodes (save t omitted)) a with
    | none => exact hmiss hr
    | some n' =>
      simp only
      rw [hget] at hr
      split at hr
      · cases hr
      · cases hn : t.nodes.get? a with
        | none => rw [hn] at hr; cases hr
        | some n =>
          rw [hn] at hr h2
          simp only [Option.map_some, Option.some.injEq] at hr
          subst hr
          exact h2
  · intro p n' hn' _
    have hn2 : PMap.get? (loadNodes (save t omitted)) p = some n' := hn'
    rw [hget] at hn2
    split at hn2
    · cases hn2
    · cases hn : t.nodes.get? p with
      | none => rw [hn] at hn2; cases hn2
      | some n =>
        rw [hn] at hn2
        simp only [Option.map_some, Option.some.injEq] at hn2
        subst hn2
        rfl
  · intro p hp
    show PMap.get? (loadNodes (save t omitted)) p = none
    rw [hget, if_pos hp]
  · intro p n hp hn
    refine ⟨reloaded t.sizes n, ?_, rfl, rfl⟩
    show PMap.get? (loadNodes (save t omitted)) p = _
    rw [hget, hn]
    simp [hp]

theorem cover_after_load_fixed {t t1 t2 : Tree} (omitted : Nat → Bool) {ver : Nat} (cm : Option Nat) (hv : ver ≠ 3)
    (hb : Base t) (hc : Cover t) (h1 : load true (save t omitted) ver cm = .ok t1) {fuel pos : Nat}
    (h2 : rebuild true fuel t1 pos = .ok t2) : Base t2 ∧ Cover t2 ∧ Clean t2 := by
  obtain ⟨hb1, hc1, hcl1, _⟩ := load_save_cover omitted cm hv hb hc h1
  obtain ⟨hb2, hc2⟩ := rebuild_fixed_cover hb1 hc1 h2
  exact ⟨hb2, hc2, rebuild_clean hcl1 h2⟩

theorem cover_after_load_shipped_all {t t1 t2 : Tree} {ver : Nat} (cm : Option Nat) (hv : ver ≠ 3)
    (hb : Base t) (hc : Cover t) (h1 : load false (save t (fun _ => true)) ver cm = .ok t1) {fuel pos : Nat}
    (h2 : rebuild false fuel t1 pos = .ok t2) (hpos : pos ∈ t1.missing ∨ pos = 0) : Base t2 ∧ Cover t2 := by
  obtain ⟨hb1, hc1, _, _, _, _, hnone, _⟩ := load_save_cover (fun _ => true) cm hv hb hc h1
  have ho : NoOrphan t1 := by
    intro c n hn
    rw [hnone c rfl] at hn; cases hn
  obtain ⟨hb2, hc2, _⟩ := rebuild_shipped_cover_partial hb1 hc1 ho
    (hpos.imp_right Or.inl) h2
  exact ⟨hb2, hc2⟩

/-! ### the fuel suffices -/

/-- a `foldlM` over `List.range n` in `Except` succeeds when every step does (under an invariant) -/
theorem foldlM_range_ok {σ ε : Type} (f : σ → Nat → Except ε σ) (P : σ → Prop) (n : Nat)
    (hstep : ∀ i s, i < n → P s → ∃ s', f s i = .ok s' ∧ P s') {s : σ} (h0 : P s) :
    ∃ s', (List.range n).foldlM f s = .ok s' ∧ P s' := by
  suffices H : ∀ m, m ≤ n → ∃ s', (List.range m).foldlM f s = .ok s' ∧ P s' from H n (Nat.le_refl _)
  intro m
  induction m with
  | zero => intro _; exact ⟨s, rfl, h0⟩
  | succ m ih =>
    intro hm
    obtain ⟨s1, h1, hp1⟩ := ih (by omega)
    obtain ⟨s2, h2, hp2⟩ := hstep m s1 (by omega) hp1
    refine ⟨s2, ?_, hp2⟩
    rw [List.range_succ, List.foldlM_append]
    simp only [bind, Except.bind, h1, List.foldlM_cons, List.foldlM_nil, h2]
    rfl

/-- recursive calls only go to strictly larger positions listed in `missing` (which never changes),
so `listMax missing - pos + 1` levels are enough; the only other error (`KeyError` after the recursive
call) cannot happen because the call leaves a node at its position -/
theorem rebuild_fuel_aux (fixed : Bool) : ∀ (fuel : Nat) (t : Tree) (pos : Nat),
    listMax t.missing - pos + 1 ≤ fuel → ∃ t', rebuild fixed fuel t pos = .ok t' := by
  intro fuel
  induction fuel with
  | zero => intro t pos h; omega
  | succ fuel ih =>
    intro t pos hfuel
    rw [rebuild_succ]
    cases hp : t.nodes.get? pos with
    | some n => exact ⟨t, rfl⟩
    | none =>
      simp only
      obtain ⟨t', ht', _⟩ := foldlM_range_ok (rbStep fixed fuel pos)
        (fun s => s.missing = t.missing ∧ s.d = t.d) t.d (s := { t with nodes := t.nodes.set pos INode.fresh })
        (by
          intro i s hi ⟨hsm, hsd⟩
          have hmod : ∀ (u : Tree) (f : INode → INode), u.missing = t.missing ∧ u.d = t.d →
              (u.modNode pos f).missing = t.missing ∧ (u.modNode pos f).d = t.d := by
            intro u f hu
            have := modNode_fields u pos f
            exact ⟨this.2.1.trans hu.1, this.2.2.1.trans hu.2⟩
          unfold rbStep
          cases hl : s.leaves.get? (child s.d pos i) with
          | some l => exact ⟨_, rfl, hmod s _ ⟨hsm, hsd⟩⟩
          | none =>
            simp only
            cases hn : s.nodes.get? (child s.d pos i) with
            | some cn =>
              simp only
              split
              · exact ⟨_, rfl, hmod s _ ⟨hsm, hsd⟩⟩
              · exact ⟨_, rfl, hsm, hsd⟩
            | none =>
              simp only
              split
              · rename_i hm
                have hmem : child s.d pos i ∈ t.missing := by rw [← hsm]; simpa using hm
                have hle := le_listMax hmem
                have hgt : pos < child s.d pos i := child_gt _ _ _ (by omega)
                obtain ⟨s1, hr⟩ := ih s (child s.d pos i) (by rw [hsm]; omega)
                have hfr := rebuild_frame_aux fixed fuel s s1 _ hr
                obtain ⟨cn, hcn⟩ := Option.isSome_iff_exists.mp hfr.2.2.1
                simp only [hr, hcn]
                exact ⟨_, rfl, hmod s1 _ ⟨hfr.1.2.1.trans hsm, hfr.1.2.2.1.trans hsd⟩⟩
              · exact ⟨_, rfl, hsm, hsd⟩)
        ⟨rfl, rfl⟩
      exact ⟨t', ht'⟩

theorem rebuild_fuel_enough {fixed : Bool} {t : Tree} {pos : Nat} :
    ∃ t', rebuild fixed t.rebuildFuel t pos = .ok t' :=
  rebuild_fuel_aux fixed _ t pos (by unfold Tree.rebuildFuel; omega)

end Sm.SBT
