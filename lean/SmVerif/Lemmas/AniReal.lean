/-
C17 helper lemmas: the closed-form ANI estimators over ℝ (Mathlib `Real.rpow`) and the decision
logic of `Model/AniResult.lean` instantiated with ℝ.
-/
import Mathlib.Analysis.SpecialFunctions.Pow.Real
import SmVerif.Model.AniResult

namespace Sm.Ani

open Real

/-! ### closed forms -/

/-- ANI from containment: `c^(1/k)` -/
noncomputable def aniC (c : ℝ) (k : ℕ) : ℝ := c ^ ((1 : ℝ) / k)

/-- `2j / (1 + j)`: Jaccard → containment of the (assumed equal-sized) sets -/
noncomputable def gJ (j : ℝ) : ℝ := 2 * j / (1 + j)

/-- ANI from Jaccard: `(2j/(1+j))^(1/k)` -/
noncomputable def aniJ (j : ℝ) (k : ℕ) : ℝ := gJ j ^ ((1 : ℝ) / k)

/-- the distance the CODE computes from a containment (`containment_to_distance`, real arithmetic) -/
noncomputable def distCodeC (c : ℝ) (k : ℕ) : ℝ :=
  if c = 0 then 1 else if c = 1 then 0 else 1 - c ^ ((1 : ℝ) / k)

/-- the distance the CODE computes from a Jaccard index (`jaccard_to_distance`, real arithmetic) -/
noncomputable def distCodeJ (j : ℝ) (k : ℕ) : ℝ :=
  if j = 0 then 1 else if j = 1 then 0 else 1 - (2 * j / (1 + j)) ^ ((1 : ℝ) / k)

/-- `ani_from_containment` of `ani_utils.rs`, real arithmetic -/
noncomputable def rustAniR (c : ℝ) (k : ℕ) : ℝ :=
  if c = 0 then 0 else if c = 1 then 1 else 1 - (1 - c ^ ((1 : ℝ) / k))

theorem inv_k_pos {k : ℕ} (hk : 1 ≤ k) : (0 : ℝ) < (1 : ℝ) / k := by
  have : (0 : ℝ) < k := by exact_mod_cast hk
  positivity

theorem aniC_nonneg {c : ℝ} (hc : 0 ≤ c) (k : ℕ) : 0 ≤ aniC c k := rpow_nonneg hc _

theorem aniC_le_one {c : ℝ} (h0 : 0 ≤ c) (h1 : c ≤ 1) (k : ℕ) : aniC c k ≤ 1 :=
  rpow_le_one h0 h1 (by positivity)

theorem aniC_one (k : ℕ) : aniC 1 k = 1 := one_rpow _

theorem aniC_zero {k : ℕ} (hk : 1 ≤ k) : aniC 0 k = 0 :=
  zero_rpow (ne_of_gt (inv_k_pos hk))

theorem aniC_strictMonoOn {k : ℕ} (hk : 1 ≤ k) : StrictMonoOn (fun c => aniC c k) (Set.Ici 0) := by
  intro x hx y _ hxy
  exact rpow_lt_rpow hx hxy (inv_k_pos hk)

theorem gJ_nonneg {j : ℝ} (hj : 0 ≤ j) : 0 ≤ gJ j := by
  unfold gJ; positivity

theorem gJ_le_one {j : ℝ} (h0 : 0 ≤ j) (h1 : j ≤ 1) : gJ j ≤ 1 := by
  unfold gJ
  rw [div_le_one (by linarith)]
  linarith

theorem gJ_zero : gJ 0 = 0 := by simp [gJ]

theorem gJ_one : gJ 1 = 1 := by norm_num [gJ]

theorem gJ_strictMonoOn : StrictMonoOn gJ (Set.Ici 0) := by
  intro x hx y hy hxy
  have hx' : (0 : ℝ) ≤ x := hx
  have hy' : (0 : ℝ) ≤ y := hy
  unfold gJ
  rw [div_lt_div_iff₀ (by linarith) (by linarith)]
  nlinarith

theorem aniJ_nonneg {j : ℝ} (hj : 0 ≤ j) (k : ℕ) : 0 ≤ aniJ j k := rpow_nonneg (gJ_nonneg hj) _

theorem aniJ_le_one {j : ℝ} (h0 : 0 ≤ j) (h1 : j ≤ 1) (k : ℕ) : aniJ j k ≤ 1 :=
  rpow_le_one (gJ_nonneg h0) (gJ_le_one h0 h1) (by positivity)

theorem aniJ_one (k : ℕ) : aniJ 1 k = 1 := by rw [aniJ, gJ_one]; exact one_rpow _

theorem aniJ_zero {k : ℕ} (hk : 1 ≤ k) : aniJ 0 k = 0 := by
  rw [aniJ, gJ_zero]; exact zero_rpow (ne_of_gt (inv_k_pos hk))

theorem aniJ_strictMonoOn {k : ℕ} (hk : 1 ≤ k) : StrictMonoOn (fun j => aniJ j k) (Set.Ici 0) := by
  intro x hx y hy hxy
  exact rpow_lt_rpow (gJ_nonneg hx) (gJ_strictMonoOn hx hy hxy) (inv_k_pos hk)

theorem distCodeC_eq {k : ℕ} (hk : 1 ≤ k) (c : ℝ) : distCodeC c k = 1 - aniC c k := by
  unfold distCodeC
  split
  · next h => rw [h, aniC_zero hk]; ring
  · split
    · next h => rw [h, aniC_one]; ring
    · rfl

theorem distCodeJ_eq {k : ℕ} (hk : 1 ≤ k) (j : ℝ) : distCodeJ j k = 1 - aniJ j k := by
  unfold distCodeJ
  split
  · next h => rw [h, aniJ_zero hk]; ring
  · split
    · next h => rw [h, aniJ_one]; ring
    · rfl

theorem rustAniR_eq {k : ℕ} (hk : 1 ≤ k) (c : ℝ) : rustAniR c k = aniC c k := by
  unfold rustAniR
  split
  · next h => rw [h, aniC_zero hk]
  · split
    · next h => rw [h, aniC_one]
    · unfold aniC; ring

/-! ### decision logic over ℝ -/

theorem checkDistance_ok_iff (d : ℝ) (r : ℝ) : checkDistance d = .ok r ↔ (0 ≤ d ∧ d ≤ 1) ∧ r = d := by
  unfold checkDistance
  split
  · next h => simp only [Except.ok.injEq]; constructor
              · intro e; exact ⟨h, e.symm⟩
              · intro e; exact e.2.symm
  · next h => constructor
              · intro e; cases e
              · intro e; exact absurd e.1 h

theorem checkDistance_error_iff (d : ℝ) : (∃ e, checkDistance d = .error e) ↔ ¬ (0 ≤ d ∧ d ≤ 1) := by
  unfold checkDistance
  split
  · next h => constructor
              · rintro ⟨e, he⟩; cases he
              · intro n; exact absurd h n
  · next h => constructor
              · intro _; exact h
              · intro _; exact ⟨_, rfl⟩

theorem ANIResult.new_ok {d p : ℝ} {t : Option ℝ} {s : Bool} {r : ANIResult ℝ}
    (h : ANIResult.new d p t s = .ok r) :
    0 ≤ d ∧ d ≤ 1 ∧ r.dist = d ∧ r.sizeIsInaccurate = s ∧ r.pNothing = p ∧ r.pExceeds = exceeds p t := by
  unfold ANIResult.new at h
  cases hc : checkDistance d with
  | error e => rw [hc] at h; cases h
  | ok d' =>
    rw [hc] at h
    have := (checkDistance_ok_iff d d').mp hc
    cases h
    exact ⟨this.1.1, this.1.2, this.2, rfl, rfl, rfl⟩

theorem ANIResult.new_error_iff (d p : ℝ) (t : Option ℝ) (s : Bool) :
    (∃ e, ANIResult.new d p t s = .error e) ↔ ¬ (0 ≤ d ∧ d ≤ 1) := by
  rw [← checkDistance_error_iff]
  unfold ANIResult.new
  cases hc : checkDistance d with
  | error e => exact ⟨fun _ => ⟨e, rfl⟩, fun _ => ⟨e, rfl⟩⟩
  | ok d' => constructor
             · rintro ⟨e, he⟩; cases he
             · rintro ⟨e, he⟩; cases he

/-! ### the point estimate is the root of the noise-free equation; ordering of the interval roots -/

/-- `(1 - p*)^k = c` for `p* = 1 - c^(1/k)`: the point estimate solves `f1 = f2 = 0` without the `z·sqrt(var)` term -/
theorem point_estimate_is_root {k : ℕ} (hk : 1 ≤ k) {c : ℝ} (hc : 0 ≤ c) :
    (1 - (1 - aniC c k)) ^ k = c := by
  have hk' : (k : ℝ) ≠ 0 := by
    have : (0 : ℝ) < k := by exact_mod_cast hk
    exact ne_of_gt this
  have : (1 - (1 - aniC c k)) = c ^ ((1 : ℝ) / k) := by unfold aniC; ring
  rw [this, ← Real.rpow_natCast, ← Real.rpow_mul hc, one_div, inv_mul_cancel₀ hk', Real.rpow_one]

/-- Root ordering, float-free.  `h` = the noise-free function (`(1 - p)^k - c`), `s ≥ 0` = `sqrt(var_direct)`,
    `z ≥ 0` = `probit(1 - alpha/2)`; `f1 = h + z·s`, `f2 = h - z·s` strictly decreasing on `S`.  Then a root of `f2`
    is ≤ the root of `h` ≤ a root of `f1`: exactly the hypothesis `hord` of `ci_brackets_if_present`
    (`dist_low = sol2`, `dist_high = sol1`). -/
theorem roots_bracket_point {S : Set ℝ} {h s : ℝ → ℝ} {z p sol1 sol2 : ℝ}
    (hz : 0 ≤ z) (hs : ∀ x ∈ S, 0 ≤ s x)
    (h1 : StrictAntiOn (fun x => h x + z * s x) S) (h2 : StrictAntiOn (fun x => h x - z * s x) S)
    (hp : p ∈ S) (hs1 : sol1 ∈ S) (hs2 : sol2 ∈ S)
    (rp : h p = 0) (r1 : h sol1 + z * s sol1 = 0) (r2 : h sol2 - z * s sol2 = 0) :
    sol2 ≤ p ∧ p ≤ sol1 := by
  have hzs : 0 ≤ z * s p := mul_nonneg hz (hs p hp)
  constructor
  · by_contra hlt
    push_neg at hlt
    have := h2 hp hs2 hlt
    simp only at this
    rw [r2, rp] at this
    linarith
  · by_contra hlt
    push_neg at hlt
    have := h1 hs1 hp hlt
    simp only at this
    rw [r1, rp] at this
    linarith

/-- a higher confidence level (larger `z`) can only widen the interval, under the same monotonicity hypotheses -/
theorem wider_confidence_wider_interval {S : Set ℝ} {h s : ℝ → ℝ} {z z' a a' : ℝ}
    (hzz : z ≤ z') (hs : ∀ x ∈ S, 0 ≤ s x)
    (h1 : StrictAntiOn (fun x => h x + z' * s x) S)
    (ha : a ∈ S) (ha' : a' ∈ S)
    (r : h a + z * s a = 0) (r' : h a' + z' * s a' = 0) : a ≤ a' := by
  by_contra hlt
  have hlt := not_le.mp hlt
  have := h1 ha' ha hlt
  simp only at this
  rw [r'] at this
  have : (z' - z) * s a < 0 := by nlinarith
  have h0 : 0 ≤ (z' - z) * s a := mul_nonneg (by linarith) (hs a ha)
  linarith

/-- `z_alpha = probit(1 - alpha/2)` with `alpha = 1 - confidence`: the argument is `(1 + confidence)/2`, increasing
    in the confidence and in (1/2, 1) for confidence in (0, 1); with a monotone `probit` vanishing at 1/2 this makes
    `z_alpha ≥ 0` and monotone in the confidence level -/
theorem probit_argument (conf : ℝ) : 1 - (1 - conf) / 2 = (1 + conf) / 2 := by ring

theorem z_alpha_nonneg_mono {probit : ℝ → ℝ} (hm : MonotoneOn probit (Set.Icc (1 / 2) 1)) (h0 : probit (1 / 2) = 0)
    {c c' : ℝ} (hc0 : 0 ≤ c) (hcc : c ≤ c') (hc1 : c' ≤ 1) :
    0 ≤ probit (1 - (1 - c) / 2) ∧ probit (1 - (1 - c) / 2) ≤ probit (1 - (1 - c') / 2) := by
  have m1 : (1 - (1 - c) / 2) ∈ Set.Icc (1 / 2 : ℝ) 1 := ⟨by linarith, by linarith⟩
  have m2 : (1 - (1 - c') / 2) ∈ Set.Icc (1 / 2 : ℝ) 1 := ⟨by linarith, by linarith⟩
  have m0 : (1 / 2 : ℝ) ∈ Set.Icc (1 / 2 : ℝ) 1 := ⟨le_refl _, by norm_num⟩
  constructor
  · rw [← h0]; exact hm m0 m1 (by linarith)
  · exact hm m1 m2 (by linarith)

end Sm.Ani
