/-
C17 helper lemmas: the closed-form ANI estimators over ℝ (Mathlib `Real.rpow`) and the decision
logic of `Model/AniResult.lean` instantiated with ℝ.
-/
import Mathlib.Analysis.SpecialFunctions.Pow.Real
import SmVerif.Model.AniResult

namespace Sm.Ani

open Real

/-! ### closed forms -/

/-- ANI from containment: `c^(1/k)` -/
noncomputable def aniC (c : ℝ) (k : ℕ) : ℝ := c ^ ((1 : ℝ) / k)

/-- `2j / (1 + j)`: Jaccard → containment of the (assumed equal-sized) sets -/
noncomputable def gJ (j : ℝ) : ℝ := 2 * j / (1 + j)

/-- ANI from Jaccard: `(2j/(1+j))^(1/k)` -/
noncomputable def aniJ (j : ℝ) (k : ℕ) : ℝ := gJ j ^ ((1 : ℝ) / k)

/-- the distance the CODE computes from a containment (`containment_to_distance`, real arithmetic) -/
noncomputable def distCodeC (c : ℝ) (k : ℕ) : ℝ :=
  if c = 0 then 1 else if c = 1 then 0 else 1 - c ^ ((1 : ℝ) / k)

/-- the distance the CODE computes from a Jaccard index (`jaccard_to_distance`, real arithmetic) -/
noncomputable def distCodeJ (j : ℝ) (k : ℕ) : ℝ :=
  if j = 0 then 1 else if j = 1 then 0 else 1 - (2 * j / (1 + j)) ^ ((1 : ℝ) / k)

/-- `ani_from_containment` of `ani_utils.rs`, real arithmetic -/
noncomputable def rustAniR (c : ℝ) (k : ℕ) : ℝ :=
  if c = 0 then 0 else if c = 1 then 1 else 1 - (1 - c ^ ((1 : ℝ) / k))

theorem inv_k_pos {k : ℕ} (hk : 1 ≤ k) : (0 : ℝ) < (1 : ℝ) / k := by
  have : (0 : ℝ) < k := by exact_mod_cast hk
  positivity

theorem aniC_nonneg {c : ℝ} (hc : 0 ≤ c) (k : ℕ) : 0 ≤ aniC c k := rpow_nonneg hc _

theorem aniC_le_one {c : ℝ} (h0 : 0 ≤ c) (h1 : c ≤ 1) (k : ℕ) : aniC c k ≤ 1 :=
  rpow_le_one h0 h1 (by positivity)

theorem aniC_one (k : ℕ) : aniC 1 k = 1 := one_rpow _

theorem aniC_zero {k : ℕ} (hk : 1 ≤ k) : aniC 0 k = 0 :=
  zero_rpow (ne_of_gt (inv_k_pos hk))

theorem aniC_strictMonoOn {k : ℕ} (hk : 1 ≤ k) : StrictMonoOn (fun c => aniC c k) (Set.Ici 0) := by
  intro x hx y _ hxy
  exact rpow_lt_rpow hx hxy (inv_k_pos hk)

theorem gJ_nonneg {j : ℝ} (hj : 0 ≤ j) : 0 ≤ gJ j := by
  unfold gJ; positivity

theorem gJ_le_one {j : ℝ} (h0 : 0 ≤ j) (h1 : j ≤ 1) : gJ j ≤ 1 := by
  unfold gJ
  rw [div_le_one (by linarith)]
  linarith

theorem gJ_zero : gJ 0 = 0 := by simp [gJ]

theorem gJ_one : gJ 1 = 1 := by norm_num [gJ]

theorem gJ_strictMonoOn : StrictMonoOn gJ (Set.Ici 0) := by
  intro x hx y hy hxy
  have hx' : (0 : ℝ) ≤ x := hx
  have hy' : (0 : ℝ) ≤ y := hy
  unfold gJ
  rw [div_lt_div_iff₀ (by linarith) (by linarith)]
  nlinarith

theorem aniJ_nonneg {j : ℝ} (hj : 0 ≤ j) (k : ℕ) : 0 ≤ aniJ j k := rpow_nonneg (gJ_nonneg hj) _

theorem aniJ_le_one {j : ℝ} (h0 : 0 ≤ j) (h1 : j ≤ 1) (k : ℕ) : aniJ j k ≤ 1 :=
  rpow_le_one (gJ_nonneg h0) (gJ_le_one h0 h1) (by positivity)

theorem aniJ_one (k : ℕ) : aniJ 1 k = 1 := by rw [aniJ, gJ_one]; exact one_rpow _

theorem aniJ_zero {k : ℕ} (hk : 1 ≤ k) : aniJ 0 k = 0 := by
  rw [aniJ, gJ_zero]; exact zero_rpow (ne_of_gt (inv_k_pos hk))

theorem aniJ_strictMonoOn {k : ℕ} (hk : 1 ≤ k) : StrictMonoOn (fun j => aniJ j k) (Set.Ici 0) := by
  intro x hx y hy hxy
  exact rpow_lt_rpow (gJ_nonneg hx) (gJ_strictMonoOn hx hy hxy) (inv_k_pos hk)

theorem distCodeC_eq {k : ℕ} (hk : 1 ≤ k) (c : ℝ) : distCodeC c k = 1 - aniC c k := by
  unfold distCodeC
  split
  · next h => rw [h, aniC_zero hk]; ring
  · split
    · next h => rw [h, aniC_one]; ring
    · rfl

theorem distCodeJ_eq {k : ℕ} (hk : 1 ≤ k) (j : ℝ) : distCodeJ j k = 1 - aniJ j k := by
  unfold distCodeJ
  split
  · next h => rw [h, aniJ_zero hk]; ring
  · split
    · next h => rw [h, aniJ_one]; ring
    · rfl

theorem rustAniR_eq {k : ℕ} (hk : 1 ≤ k) (c : ℝ) : rustAniR c k = aniC c k := by
  unfold rustAniR
  split
  · next h => rw [h, aniC_zero hk]
  · split
    · next h => rw [h, aniC_one]
    · unfold aniC; ring

/-! ### decision logic over ℝ -/

theorem checkDistance_ok_iff (d : ℝ) (r : ℝ) : checkDistance d = .ok r ↔ (0 ≤ d ∧ d ≤ 1) ∧ r = d := by
  unfold checkDistance
  split
  · next h => simp only [Except.ok.injEq]; constructor
              · intro e; exact ⟨h, e.symm⟩
              · intro e; exact e.2.symm
  · next h => constructor
              · intro e; cases e
              · intro e; exact absurd e.1 h

theorem checkDistance_error_iff (d : ℝ) : (∃ e, checkDistance d = .error e) ↔ ¬ (0 ≤ d ∧ d ≤ 1) := by
  unfold checkDistance
  split
  · next h => constructor
              · rintro ⟨e, he⟩; cases he
              · intro n; exact absurd h n
  · next h => constructor
              · intro _; exact h
              · intro _; exact ⟨_, rfl⟩

theorem ANIResult.new_ok {d p : ℝ} {t : Option ℝ} {s : Bool} {r : ANIResult ℝ}
    (h : ANIResult.new d p t s = .ok r) :
    0 ≤ d ∧ d ≤ 1 ∧ r.dist = d ∧ r.sizeIsInaccurate = s ∧ r.pNothing = p ∧ r.pExceeds = exceeds p t := by
  unfold ANIResult.new at h
  cases hc : checkDistance d with
  | error e => rw [hc] at h; cases h
  | ok d' =>
    rw [hc] at h
    have := (checkDistance_ok_iff d d').mp hc
    cases h
    exact ⟨this.1.1, this.1.2, this.2, rfl, rfl, rfl⟩

theorem ANIResult.new_error_iff (d p : ℝ) (t : Option ℝ) (s : Bool) :
    (∃ e, ANIResult.new d p t s = .error e) ↔ ¬ (0 ≤ d ∧ d ≤ 1) := by
  rw [← checkDistance_error_iff]
  unfold ANIResult.new
  cases hc : checkDistance d with
  | error e => exact ⟨fun _ => ⟨e, rfl⟩, fun _ => ⟨e, rfl⟩⟩
  | ok d' => constructor
             · rintro ⟨e, he⟩; cases he
             · rintro ⟨e, he⟩; cases he

end Sm.Ani
