/-
One round of `GatherDatabases.__next__` on list sketches: `_update_scaled`, the query
update and the `GatherResult` columns in closed form.
-/
import SmVerif.Lemmas.GatherFindBest

set_option autoImplicit false

namespace Sm.Gather

open Sm

theorem LS.and_flat {a b : LS} (ha : Sorted a.hs) (hb : Sorted b.hs) (h : a.scaled = b.scaled) :
    LS.and a.flat b.flat = .ok ⟨a.scaled, a.hs.filter (inL b.hs), none⟩ := by
  unfold LS.and
  rw [if_neg (by simp [LS.flat]), if_neg (by simpa [LS.flat] using h)]
  show Except.ok (⟨a.scaled, interL a.hs b.hs, none⟩ : LS) = _
  rw [interL_eq_filter _ _ ha hb]

theorem lsOps_compatible (a b : LS) : lsOps.compatible a b = decide (a.scaled = b.scaled) := rfl
theorem lsOps_num (a : LS) : lsOps.num a = 0 := rfl

theorem fracCmpCore_ls {a b a0 b0 : LS} {cs : Nat} {r : LS × LS × LS}
    (ha : Sorted a.hs) (hb : Sorted b.hs)
    (e1 : a0.hs = a.hs) (e2 : a0.scaled = a.scaled) (e3 : b0.hs = b.hs) (e4 : b0.scaled = b.scaled)
    (h : fracCmpCore lsOps a0 b0 cs = .ok r) :
    a.scaled ≤ cs ∧ b.scaled ≤ cs ∧
    r.1.hs = dn cs a.hs ∧ r.1.scaled = cs ∧ r.2.1.hs = dn cs b.hs ∧ r.2.1.scaled = cs ∧
    r.2.2 = ⟨cs, (dn cs a.hs).filter (inL (dn cs b.hs)), none⟩ := by
  unfold fracCmpCore at h
  rw [lsOps_dsF, lsOps_dsF] at h
  by_cases hale : a0.scaled ≤ cs
  · by_cases hble : b0.scaled ≤ cs
    · rw [LS.ds_eq hale, LS.ds_eq hble] at h
      simp only [lsOps_compatible, LS.dsv_scaled, decide_true, Bool.not_true, Bool.false_eq_true,
        if_false, lsOps_flat, lsOps_and] at h
      have hsa : Sorted (a0.dsv cs).hs := by rw [LS.dsv_hs, e1]; exact sorted_dn ha cs
      have hsb : Sorted (b0.dsv cs).hs := by rw [LS.dsv_hs, e3]; exact sorted_dn hb cs
      rw [LS.and_flat hsa hsb rfl] at h
      simp only [Except.ok.injEq] at h
      subst h
      exact ⟨by omega, by omega, by rw [LS.dsv_hs, e1], rfl, by rw [LS.dsv_hs, e3], rfl,
        by rw [LS.dsv_hs, LS.dsv_hs, e1, e3]; rfl⟩
    · have : LS.ds b0 cs = .error .value := by unfold LS.ds; rw [if_pos (by omega)]
      rw [LS.ds_eq hale, this] at h
      cases h
  · have : LS.ds a0 cs = .error .value := by unfold LS.ds; rw [if_pos (by omega)]
    rw [this] at h
    cases h

/-- `FracMinHashComparison` on list sketches: both sides at `cs`, and their intersection -/
theorem fracCmp_ls {a b : LS} {cs : Nat} {ign : Bool} {r : LS × LS × LS}
    (ha : Sorted a.hs) (hb : Sorted b.hs) (h : fracCmp lsOps a b cs ign = .ok r) :
    a.scaled ≤ cs ∧ b.scaled ≤ cs ∧
    r.1.hs = dn cs a.hs ∧ r.1.scaled = cs ∧ r.2.1.hs = dn cs b.hs ∧ r.2.1.scaled = cs ∧
    r.2.2 = ⟨cs, (dn cs a.hs).filter (inL (dn cs b.hs)), none⟩ := by
  unfold fracCmp at h
  split at h
  · cases h
  · cases ign with
    | false =>
      simp only [Bool.false_eq_true, if_false] at h
      exact fracCmpCore_ls ha hb rfl rfl rfl rfl h
    | true =>
      simp only [if_true, lsOps_flat] at h
      exact fracCmpCore_ls ha hb (a0 := a.flat) (b0 := b.flat) rfl rfl rfl rfl h

/-- weighted size of a hash list under the abundance dictionary `d` -/
def wsum (d : List (Nat × Nat)) (ks : List Nat) : Nat := sumNats (ks.map (fun k => (d.lookup k).getD 0))

theorem abSum_ok {d : List (Nat × Nat)} : ∀ {ks : List Nat} {v : Nat}, abSum d ks = .ok v → v = wsum d ks := by
  intro ks
  induction ks with
  | nil => intro v h; simp only [abSum, Except.ok.injEq] at h; subst h; rfl
  | cons k ks ih =>
    intro v h
    simp only [abSum, abLookup] at h
    cases hl : d.lookup k with
    | none => rw [hl] at h; cases h
    | some a =>
      rw [hl] at h
      simp only [] at h
      cases hr : abSum d ks with
      | error e => rw [hr] at h; cases h
      | ok r =>
        rw [hr] at h
        simp only [Except.ok.injEq] at h
        subst h
        rw [ih hr]
        simp [wsum, sumNats, hl]

theorem wsum_split (d : List (Nat × Nat)) (l : List Nat) (q : Nat → Bool) :
    wsum d l = wsum d (l.filter (fun x => !q x)) + wsum d (l.filter q) := by
  induction l with
  | nil => rfl
  | cons a l ih =>
    simp only [List.filter_cons]
    cases hq : q a
    · simp only [Bool.not_false, if_true, Bool.false_eq_true, if_false]
      simp only [wsum, sumNats, List.map_cons, List.foldr_cons] at ih ⊢
      omega
    · simp only [Bool.not_true, Bool.false_eq_true, if_false, if_true]
      simp only [wsum, sumNats, List.map_cons, List.foldr_cons] at ih ⊢
      omega

theorem lsOps_removeFrom (a b : LS) : lsOps.removeFrom a b = LS.removeFrom a b := rfl
theorem lsOps_toMutable (a : LS) : lsOps.toMutable a = a := rfl

theorem LS.removeFrom_hs (a b : LS) : (LS.removeFrom a b).hs = diffL a.hs b.hs := rfl
theorem LS.removeFrom_scaled (a b : LS) : (LS.removeFrom a b).scaled = a.scaled := rfl

/-- `_update_scaled` on list sketches -/
theorem updateScaled_ls {g g1 : GD LS} {sc : Nat} (h : g.updateScaled lsOps sc = .ok g1) :
    g1.cmpScaled = max g.cmpScaled sc ∧ g1.query = g.query ∧ g1.counters = g.counters ∧
    g1.origSigMh = g.origSigMh ∧ g1.thresholdBp = g.thresholdBp ∧ g1.resultN = g.resultN ∧
    g1.origQueryAbunds = g.origQueryAbunds ∧ g1.trackAbundance = g.trackAbundance ∧
    (g.cmpScaled = max g.cmpScaled sc → g1 = g) ∧
    (g.cmpScaled ≠ max g.cmpScaled sc →
      g.origQueryMh.scaled ≤ sc ∧ g.noidentMh.scaled ≤ sc ∧
      g1.origQueryMh = g.origQueryMh.dsv sc ∧ g1.noidentMh = g.noidentMh.dsv sc ∧
      g1.noidentSum = wsum g.origQueryAbunds (dn sc g.noidentMh.hs) ∧
      g1.totalWeighted = wsum g.origQueryAbunds (dn sc g.origQueryMh.hs) + g1.noidentSum) := by
  unfold GD.updateScaled at h
  simp only [] at h
  by_cases hc : g.cmpScaled = max g.cmpScaled sc
  · rw [if_neg (by simpa using hc)] at h
    cases h
    exact ⟨hc, rfl, rfl, rfl, rfl, rfl, rfl, rfl, fun _ => rfl, fun hn => absurd hc hn⟩
  · rw [if_pos hc] at h
    rw [lsOps_dsM, lsOps_dsF] at h
    by_cases h1 : g.origQueryMh.scaled ≤ sc
    · by_cases h2 : g.noidentMh.scaled ≤ sc
      · rw [LS.ds_eq h1, LS.ds_eq h2] at h
        simp only [lsOps_mins, LS.dsv_hs] at h
        cases hn : abSum g.origQueryAbunds (dn sc g.noidentMh.hs) with
        | error e => rw [hn] at h; cases h
        | ok nsum =>
          rw [hn] at h
          simp only [] at h
          cases ht : abSum g.origQueryAbunds (dn sc g.origQueryMh.hs) with
          | error e => rw [ht] at h; cases h
          | ok tot =>
            rw [ht] at h
            simp only [Except.ok.injEq] at h
            subst h
            refine ⟨rfl, rfl, rfl, rfl, rfl, rfl, rfl, rfl, fun hh => absurd hh hc, fun _ => ?_⟩
            exact ⟨h1, h2, rfl, rfl, abSum_ok hn, by rw [abSum_ok ht, abSum_ok hn]⟩
      · have : LS.ds g.noidentMh sc = .error .value := by unfold LS.ds; rw [if_pos (by omega)]
        rw [LS.ds_eq h1, this] at h
        cases h
    · have : LS.ds g.origQueryMh sc = .error .value := by unfold LS.ds; rw [if_pos (by omega)]
      rw [this] at h
      cases h

/-- **the columns of a `GatherResult` in closed form.**  `origHs` = hashes of the original query
signature, `gqHs` = the unassigned hashes handed to this round, `best` = the reported match, `scaled` = the
comparison resolution, `s2` = the resolution of the remaining-query comparison; `I0` = (original query) ∩
(match), `I1` = (unassigned) ∩ (match) -/
def ColsOK {σ : Type} (ops : ScoreOps σ) (res : GRes σ) (best : Sig LS) (scaled s2 : Nat)
    (origHs gqHs : List Nat) (abunds : List (Nat × Nat)) (track : Bool)
    (rank swf N noidLen total origScaled : Nat) : Prop :=
    let I0 := (dn scaled origHs).filter (inL (dn scaled best.mh.hs))
    let I1 := (dn s2 gqHs).filter (inL (dn s2 best.mh.hs))
    let vals := abGetD1 abunds I1
    let ign := !track
    res.name = best.name ∧ res.md5 = best.md5 ∧ res.rank = rank ∧ res.cmpScaled = scaled ∧
    res.isectOrig = I0 ∧ res.isectCur = I1 ∧ res.matchLen = (dn s2 best.mh.hs).length ∧
    res.curLen = (dn s2 gqHs).length ∧
    res.intersectBp = I0.length * scaled ∧ res.uniqueIntersectBp = I1.length * s2 ∧
    res.fOrigQuery = F64.divNat I0.length N ∧ res.fUniqueToQuery = F64.divNat I1.length N ∧
    res.fMatch = (if (dn s2 best.mh.hs).length = 0 then ops.ofF fzero
                  else ops.contained I1.length (dn s2 best.mh.hs).length s2) ∧
    res.fUniqueWeighted = (if ign then F64.divNat I1.length N else F64.divNat (sumNats vals) total) ∧
    res.avgAbund = (if ign then none else some (sumNats vals, vals.length)) ∧
    res.medAbund = (if ign then none else some (medianQ vals)) ∧
    res.nUniqueWeightedFound = (if ign then none else some (sumNats vals)) ∧
    res.remainingBp = noidLen + (dn s2 gqHs).length * s2 - I1.length * s2 ∧
    res.sumWeightedFound = swf ∧ res.totalWeightedHashes = total ∧
    res.queryBp = N * origScaled ∧ res.queryNHashes = N ∧ res.queryAbundance = track ∧
    I1 ≠ [] ∧ N ≠ 0 ∧ total ≠ 0

theorem buildResult_ls {σ : Type} {ops : ScoreOps σ} {g : GD LS} {best : Sig LS} {scaled : Nat} {gq : LS}
    {swf N noidLen : Nat} {res : GRes σ}
    (h0 : Sorted g.origSigMh.hs) (hb : Sorted best.mh.hs) (hq : Sorted gq.hs)
    (h : buildResult lsOps ops g best scaled gq swf N noidLen = .ok res) :
    ColsOK ops res best scaled (max gq.scaled best.mh.scaled) g.origSigMh.hs gq.hs g.origQueryAbunds
      g.trackAbundance g.resultN swf N noidLen g.totalWeighted g.origSigMh.scaled := by
  unfold ColsOK
  intro I0 I1 vals ign
  unfold buildResult at h
  simp only [] at h
  by_cases c1 : g.totalWeighted = 0
  · rw [if_pos c1] at h; cases h
  rw [if_neg c1] at h
  split at h
  · cases h
  split at h
  · cases h
  cases hf1 : fracCmp lsOps g.origSigMh best.mh scaled (!g.trackAbundance) with
  | error e => rw [hf1] at h; cases h
  | ok r1 =>
    obtain ⟨m1, m2, i0⟩ := r1
    rw [hf1] at h
    simp only [lsOps_flat] at h
    obtain ⟨_, _, _, _, a5, a6, a7⟩ := fracCmp_ls h0 hb hf1
    simp only [] at a5 a6 a7
    cases hf2 : fracCmp lsOps gq best.mh.flat (max (lsOps.scaled gq) (lsOps.scaled best.mh.flat)) false with
    | error e => rw [hf2] at h; cases h
    | ok r2 =>
      obtain ⟨g1, g2, i1⟩ := r2
      rw [hf2] at h
      simp only [] at h
      obtain ⟨_, _, b3, b4, b5, b6, b7⟩ := fracCmp_ls (b := best.mh.flat) hq hb hf2
      simp only [] at b3 b4 b5 b6 b7
      have es2 : max (lsOps.scaled gq) (lsOps.scaled best.mh.flat) = max gq.scaled best.mh.scaled := rfl
      rw [es2] at b3 b4 b5 b6 b7
      have ef : best.mh.flat.hs = best.mh.hs := rfl
      rw [ef] at b5 b7
      by_cases c2 : N = 0
      · rw [if_pos c2] at h; cases h
      rw [if_neg c2] at h
      by_cases c3 : len lsOps i1 = 0
      · rw [if_pos c3] at h; cases h
      rw [if_neg c3] at h
      simp only [Except.ok.injEq] at h
      subst h
      have hi1 : lsOps.mins i1 = I1 := by rw [b7]; rfl
      have hi0 : lsOps.mins i0 = I0 := by rw [a7]; rfl
      have hl1 : len lsOps i1 = I1.length := by unfold len; rw [hi1]
      have hl0 : len lsOps i0 = I0.length := by unfold len; rw [hi0]
      have hg2 : len lsOps g2 = (dn (max gq.scaled best.mh.scaled) best.mh.hs).length := by
        unfold len; rw [lsOps_mins, b5]
      have hg1 : len lsOps g1 = (dn (max gq.scaled best.mh.scaled) gq.hs).length := by
        unfold len; rw [lsOps_mins, b3]
      have hm2 : len lsOps m2 = (dn scaled best.mh.hs).length := by unfold len; rw [lsOps_mins, a5]
      refine ⟨rfl, rfl, rfl, rfl, hi0, hi1, hg2, hg1, ?_, ?_, ?_, ?_, ?_, ?_, ?_, ?_, ?_, ?_, rfl, rfl, rfl, rfl, ?_, ?_, c2, c1⟩
      · simp only [hl0]
      · simp only [hl1, es2]
      · simp only [hl0]
      · simp only [hl1]
      · simp only [hg2, hl1, lsOps_scaled, b6]
      · simp only [hl1, hi1]; rfl
      · simp only [hi1]; rfl
      · simp only [hi1]; rfl
      · simp only [hi1]; rfl
      · simp only [hg1, hl1, lsOps_scaled, b4]; rfl
      · simp
      · intro hnil; apply c3; rw [hl1, hnil]; rfl

/-- the part of `__next__` after a match was found, on list sketches -/
theorem report_ls {σ : Type} {ops : ScoreOps σ} {g g' : GD LS} {best : Sig LS} {r : Option (GRes σ)}
    (h : GD.report lsOps ops g best = .ok (g', r)) :
    best.mh.scaled ≠ 0 ∧ ∃ g1 res, g.updateScaled lsOps best.mh.scaled = .ok g1 ∧
      g.query.scaled ≤ g1.cmpScaled ∧ best.mh.scaled ≤ g1.cmpScaled ∧
      g' = { g1 with resultN := g1.resultN + 1,
                     query := LS.removeFrom (g1.query.dsv g1.cmpScaled) (best.mh.dsv g1.cmpScaled).flat } ∧
      r = some res ∧
      buildResult lsOps ops g1 best g1.cmpScaled g1.query
        (g1.totalWeighted - (wsum g1.origQueryAbunds (diffL (dn g1.cmpScaled g1.query.hs) (dn g1.cmpScaled best.mh.hs))
          + g1.noidentSum))
        (g1.origQueryMh.hs.length + g1.noidentMh.hs.length)
        (g1.noidentMh.hs.length * g1.noidentMh.scaled) = .ok res := by
  unfold GD.report at h
  simp only [] at h
  by_cases h0 : lsOps.scaled best.mh = 0
  · rw [if_pos h0] at h; cases h
  rw [if_neg h0] at h
  refine ⟨h0, ?_⟩
  cases hu : g.updateScaled lsOps (lsOps.scaled best.mh) with
  | error e => rw [hu] at h; cases h
  | ok g1 =>
    rw [hu] at h
    simp only [lsOps_dsF, lsOps_flat, lsOps_toMutable, lsOps_removeFrom, lsOps_mins] at h
    have hq1 : g1.query = g.query := (updateScaled_ls hu).2.1
    by_cases h1 : g1.query.scaled ≤ g1.cmpScaled
    · by_cases h2 : best.mh.scaled ≤ g1.cmpScaled
      · rw [LS.ds_eq h1, LS.ds_eq h2] at h
        simp only [] at h
        cases hm : abSum g1.origQueryAbunds (LS.removeFrom (g1.query.dsv g1.cmpScaled) (best.mh.dsv g1.cmpScaled).flat).hs with
        | error e => rw [hm] at h; cases h
        | ok missed =>
          rw [hm] at h
          simp only [] at h
          have hmv := abSum_ok hm
          rw [LS.removeFrom_hs] at hmv
          have e1 : (g1.query.dsv g1.cmpScaled).hs = dn g1.cmpScaled g1.query.hs := rfl
          have e2 : (best.mh.dsv g1.cmpScaled).flat.hs = dn g1.cmpScaled best.mh.hs := rfl
          rw [e1, e2] at hmv
          rw [hmv] at h
          cases hb : buildResult lsOps ops g1 best g1.cmpScaled g1.query
              (g1.totalWeighted - (wsum g1.origQueryAbunds (diffL (dn g1.cmpScaled g1.query.hs) (dn g1.cmpScaled best.mh.hs))
                + g1.noidentSum))
              (len lsOps g1.origQueryMh + len lsOps g1.noidentMh)
              (len lsOps g1.noidentMh * lsOps.scaled g1.noidentMh) with
          | error e => rw [hb] at h; cases h
          | ok res =>
            rw [hb] at h
            simp only [Except.ok.injEq, Prod.mk.injEq] at h
            obtain ⟨rfl, rfl⟩ := h
            exact ⟨g1, res, hu, by rw [← hq1]; exact h1, h2, rfl, rfl, hb⟩
      · have : LS.ds best.mh g1.cmpScaled = .error .value := by unfold LS.ds; rw [if_pos (by omega)]
        rw [LS.ds_eq h1, this] at h
        cases h
    · have : LS.ds g1.query g1.cmpScaled = .error .value := by unfold LS.ds; rw [if_pos (by omega)]
      rw [this] at h
      cases h

end Sm.Gather
