/-
Two gather runs over the same sketches organised differently (C08): they stop together,
they pick from the same arg-max set, and given the same pick every number coincides.
-/
import SmVerif.Lemmas.GatherReach

set_option autoImplicit false

namespace Sm.Gather

open Sm

variable {σ : Type} {ops : ScoreOps σ}

/-- the numbers of two gather results coincide (everything but which of several identical sketches is named) -/
def SameNumbers (r r' : GRes σ) : Prop :=
  r.rank = r'.rank ∧ r.cmpScaled = r'.cmpScaled ∧ r.isectOrig = r'.isectOrig ∧ r.isectCur = r'.isectCur ∧
  r.matchLen = r'.matchLen ∧ r.curLen = r'.curLen ∧ r.intersectBp = r'.intersectBp ∧
  r.uniqueIntersectBp = r'.uniqueIntersectBp ∧ r.fOrigQuery = r'.fOrigQuery ∧
  r.fUniqueToQuery = r'.fUniqueToQuery ∧ r.fMatch = r'.fMatch ∧ r.fUniqueWeighted = r'.fUniqueWeighted ∧
  r.avgAbund = r'.avgAbund ∧ r.medAbund = r'.medAbund ∧ r.nUniqueWeightedFound = r'.nUniqueWeightedFound ∧
  r.remainingBp = r'.remainingBp ∧ r.sumWeightedFound = r'.sumWeightedFound ∧
  r.totalWeightedHashes = r'.totalWeightedHashes ∧ r.queryBp = r'.queryBp ∧ r.queryNHashes = r'.queryNHashes ∧
  r.queryAbundance = r'.queryAbundance

/-- the columns are functions of the sets they are defined on -/
theorem ColsOK.same_numbers {res res' : GRes σ} {best best' : Sig LS} {s : Nat} {origHs gqHs gqHs' : List Nat}
    {abunds : List (Nat × Nat)} {track : Bool} {rank swf N noidLen total origScaled : Nat}
    (h : ColsOK ops res best s s origHs gqHs abunds track rank swf N noidLen total origScaled)
    (h' : ColsOK ops res' best' s s origHs gqHs' abunds track rank swf N noidLen total origScaled)
    (hb : dn s best.mh.hs = dn s best'.mh.hs) (hq : dn s gqHs = dn s gqHs') : SameNumbers res res' := by
  unfold ColsOK at h h'
  simp only [] at h h'
  rw [← hb, ← hq] at h'
  obtain ⟨_, _, a3, a4, a5, a6, a7, a8, a9, a10, a11, a12, a13, a14, a15, a16, a17, a18, a19, a20, a21, a22, a23, _⟩ := h
  obtain ⟨_, _, b3, b4, b5, b6, b7, b8, b9, b10, b11, b12, b13, b14, b15, b16, b17, b18, b19, b20, b21, b22, b23, _⟩ := h'
  exact ⟨by rw [a3, b3], by rw [a4, b4], by rw [a5, b5], by rw [a6, b6], by rw [a7, b7], by rw [a8, b8],
    by rw [a9, b9], by rw [a10, b10], by rw [a11, b11], by rw [a12, b12], by rw [a13, b13], by rw [a14, b14],
    by rw [a15, b15], by rw [a16, b16], by rw [a17, b17], by rw [a18, b18], by rw [a19, b19], by rw [a20, b20],
    by rw [a21, b21], by rw [a22, b22], by rw [a23, b23]⟩

/-- two states of two runs that have assigned the same hashes so far -/
structure Rel (sq sd : Nat) (g h : GD LS) : Prop where
  un : g.unassigned sq sd = h.unassigned sq sd
  rank : g.resultN = h.resultN
  orig : g.origSigMh = h.origSigMh
  abunds : g.origQueryAbunds = h.origQueryAbunds
  track : g.trackAbundance = h.trackAbundance
  thr : g.thresholdBp = h.thresholdBp

/-- the hypotheses of one prefetch-mode run (query `q`, databases `dbs` at scaled `sd`, initial state `g0`) -/
structure RunSetup (q : LS) (sd thr : Nat) (t nT : F64.F) (dbs : List (List (Sig LS))) (Q0 NI0 : List Nat)
    (g0 : GD LS) : Prop where
  hq : q.WF
  hdb : ∀ db ∈ dbs, ∀ d ∈ db, d.mh.WF ∧ d.mh.scaled = sd
  hthr : calcThreshold thr q.scaled q.hs.length = .ok (t, nT)
  hcase : NoD6 q sd thr t nT
  hsize : q.hs.length < 2 ^ 53
  h0 : GInv q.scaled sd (candLists q t dbs) g0
  a0 : AInv q.scaled sd Q0 NI0 g0
  hun0 : g0.unassigned q.scaled sd = dn (max q.scaled sd) q.hs
  hthr0 : g0.thresholdBp = thr

/-- **`gather_partition`**: two runs over the same sketches organised in different collections (different
partition, different insertion orders), in states that have assigned the same hashes: they stop together;
if they report, the two reported sketches have the same (maximal) overlap with the unassigned hashes, i.e.
both are picked from the same arg-max set; and if they picked sketches with the same hashes, every number of
the two results coincides and the successor states are related again. -/
theorem gather_partition (laws : ScoreLaws ops) {q : LS} {sd thr : Nat} {t nT : F64.F}
    {dbs dbs' : List (List (Sig LS))} {Q0 NI0 : List Nat} {g0 h0 g h g' h' : GD LS}
    {rA rB : Option (GRes σ)}
    (A : RunSetup q sd thr t nT dbs Q0 NI0 g0) (B : RunSetup q sd thr t nT dbs' Q0 NI0 h0)
    (hperm : dbs.flatten.Perm dbs'.flatten)
    (hrA : Reach ops g0 g) (hrB : Reach ops h0 h) (rel : Rel q.scaled sd g h)
    (hnA : g.next lsOps ops = .ok (g', rA)) (hnB : h.next lsOps ops = .ok (h', rB)) :
    match rA, rB with
    | none, none => Rel q.scaled sd g' h'
    | some a, some b =>
      ∃ bestA ∈ dbs.flatten, ∃ bestB ∈ dbs'.flatten,
        a.name = bestA.name ∧ a.md5 = bestA.md5 ∧ b.name = bestB.name ∧ b.md5 = bestB.md5 ∧
        ovl (g.unassigned q.scaled sd) (dn (max q.scaled sd) bestA.mh.hs)
          = ovl (g.unassigned q.scaled sd) (dn (max q.scaled sd) bestB.mh.hs) ∧
        (dn (max q.scaled sd) bestA.mh.hs = dn (max q.scaled sd) bestB.mh.hs →
          SameNumbers a b ∧ Rel q.scaled sd g' h')
    | none, some _ => False
    | some _, none => False := by
  obtain ⟨iA, aA, hA⟩ := reach_inv laws A.h0 A.a0 hrA
  obtain ⟨iB, aB, hB⟩ := reach_inv laws B.h0 B.a0 hrB
  have spA := next_spec laws iA aA hnA rfl rfl
  have spB := next_spec laws iB aB hnB rfl rfl
  have hthrA : g.thresholdBp = thr := by rw [hA.thr, A.hthr0]
  have hthrB : h.thresholdBp = thr := by rw [hB.thr, B.hthr0]
  cases rA with
  | none =>
    cases rB with
    | none =>
      simp only [] at spA spB ⊢
      obtain ⟨qa, _, _, _⟩ := spA
      obtain ⟨qb, _, _, _⟩ := spB
      -- a stop changes only the counters
      have ea : g'.unassigned q.scaled sd = g.unassigned q.scaled sd := by unfold GD.unassigned; rw [qa]
      have eb : h'.unassigned q.scaled sd = h.unassigned q.scaled sd := by unfold GD.unassigned; rw [qb]
      have hA' := (reach_inv laws A.h0 A.a0 (Reach.step hrA hnA)).2.2
      have hB' := (reach_inv laws B.h0 B.a0 (Reach.step hrB hnB)).2.2
      refine ⟨by rw [ea, eb]; exact rel.un, ?_, ?_, ?_, ?_, ?_⟩
      · -- resultN unchanged by a stop
        have r1 : g'.resultN = g.resultN := by
          unfold GD.next at hnA
          split at hnA
          · simp only [Except.ok.injEq, Prod.mk.injEq] at hnA; rw [← hnA.1]
          · split at hnA
            · cases hnA
            · simp only [Except.ok.injEq, Prod.mk.injEq] at hnA; rw [← hnA.1]
            · obtain ⟨_, _, _, _, _, _, _, hc, _⟩ := report_ls hnA; cases hc
        have r2 : h'.resultN = h.resultN := by
          unfold GD.next at hnB
          split at hnB
          · simp only [Except.ok.injEq, Prod.mk.injEq] at hnB; rw [← hnB.1]
          · split at hnB
            · cases hnB
            · simp only [Except.ok.injEq, Prod.mk.injEq] at hnB; rw [← hnB.1]
            · obtain ⟨_, _, _, _, _, _, _, hc, _⟩ := report_ls hnB; cases hc
        rw [r1, r2]; exact rel.rank
      · rw [hA'.orig, hB'.orig, ← hA.orig, ← hB.orig]; exact rel.orig
      · rw [hA'.abunds, hB'.abunds, ← hA.abunds, ← hB.abunds]; exact rel.abunds
      · rw [hA'.track, hB'.track, ← hA.track, ← hB.track]; exact rel.track
      · rw [hA'.thr, hB'.thr, ← hA.thr, ← hB.thr]; exact rel.thr
    | some b =>
      -- A stopped, B reports: B's sketch would have been reportable for A
      simp only []
      have stA := stops_only_below_db laws A.hq A.hdb A.hthr A.hcase A.hsize A.h0 A.a0 A.hun0 A.hthr0 hrA hnA
      simp only [] at spB
      obtain ⟨best, bm, _, _, _, b5, b6, b7, b8, _⟩ := spB
      rw [hthrB, ← rel.un] at b5
      rw [← rel.un] at b6 b7
      have hbm : best ∈ dbs.flatten := hperm.mem_iff.2 (mem_candLists_flatten bm)
      rcases stA with hnil | hall
      · exact b6 hnil
      · rcases hall best hbm with hz | hnr
        · apply b8
          rw [b7]
          unfold ovl at hz
          exact List.eq_nil_of_length_eq_zero hz
        · exact hnr b5
  | some a =>
    cases rB with
    | none =>
      simp only []
      have stB := stops_only_below_db laws B.hq B.hdb B.hthr B.hcase B.hsize B.h0 B.a0 B.hun0 B.hthr0 hrB hnB
      simp only [] at spA
      obtain ⟨best, bm, _, _, _, b5, b6, b7, b8, _⟩ := spA
      rw [hthrA, rel.un] at b5
      rw [rel.un] at b6 b7
      have hbm : best ∈ dbs'.flatten := hperm.mem_iff.1 (mem_candLists_flatten bm)
      rcases stB with hnil | hall
      · exact b6 hnil
      · rcases hall best hbm with hz | hnr
        · apply b8
          rw [b7]
          unfold ovl at hz
          exact List.eq_nil_of_length_eq_zero hz
        · exact hnr b5
    | some b =>
      simp only [] at spA spB ⊢
      obtain ⟨bA, mA, a1, a2, a3, a4, _, a6, _, a8, _, _, _, _, a13, a14, _, _, a17, a18, a19, colsA⟩ := spA
      obtain ⟨bB, mB, b1, b2, b3, b4, _, b6, _, b8, _, _, _, _, b13, b14, _, _, b17, b18, b19, colsB⟩ := spB
      rw [hthrA] at a4
      rw [hthrB] at b4
      have maxA := max_over_db A.hq A.hdb A.hthr A.hcase A.hsize A.hun0 hA a3 a4
      have maxB := max_over_db B.hq B.hdb B.hthr B.hcase B.hsize B.hun0 hB b3 b4
      have hmA : bA ∈ dbs.flatten := mem_candLists_flatten mA
      have hmB : bB ∈ dbs'.flatten := mem_candLists_flatten mB
      rw [← rel.un] at maxB
      have h1 := maxA bB (hperm.mem_iff.2 hmB)
      have h2 := maxB bA (hperm.mem_iff.1 hmA)
      refine ⟨bA, hmA, bB, hmB, a1, a2, b1, b2, by omega, ?_⟩
      intro hsame
      -- the columns: same parameters on both sides
      have eq1 : dn (max q.scaled sd) g.query.hs = dn (max q.scaled sd) h.query.hs := rel.un
      rw [← rel.un, ← rel.orig, ← rel.abunds, ← rel.track, ← rel.rank, ← hsame] at colsB
      refine ⟨ColsOK.same_numbers colsA colsB hsame eq1, ?_⟩
      refine ⟨?_, ?_, ?_, ?_, ?_, ?_⟩
      · rw [a8, b8, ← rel.un, hsame]
      · rw [a13, b13, rel.rank]
      · rw [a17, b17, rel.orig]
      · rw [a18, b18, rel.abunds]
      · rw [a19, b19, rel.track]
      · rw [a14, b14, rel.thr]

end Sm.Gather
