/-
Occupancy: `occupied` is the population count of table 0.
-/
import SmVerif.Lemmas.NodegraphBloom

namespace Sm
namespace BitSet

/-- number of set bits of `x` at positions `< n` -/
def popBelow (x : Nat) : Nat → Nat
  | 0 => 0
  | n + 1 => popBelow x n + (x.testBit n).toNat

theorem popBelow_congr {x y : Nat} : ∀ {n : Nat}, (∀ j < n, x.testBit j = y.testBit j) →
    popBelow x n = popBelow y n
  | 0, _ => rfl
  | n + 1, h => by
    rw [popBelow, popBelow, popBelow_congr (fun j hj => h j (by omega)), h n (by omega)]

theorem popBelow_succ_low (x : Nat) : ∀ n, popBelow x (n + 1) = x % 2 + popBelow (x / 2) n
  | 0 => by
    simp only [popBelow, Nat.testBit_zero, Nat.zero_add, Nat.add_zero]
    rcases Nat.mod_two_eq_zero_or_one x with h | h <;> simp [h]
  | n + 1 => by
    rw [popBelow, popBelow_succ_low x n, popBelow, Nat.testBit_succ, Nat.add_assoc]

theorem popWord_eq_popBelow : ∀ (n w : Nat), popWord n w = popBelow w n
  | 0, _ => rfl
  | n + 1, w => by rw [popWord, popBelow_succ_low, popWord_eq_popBelow n]

theorem popBelow_add (x m : Nat) : ∀ n, popBelow x (m + n) = popBelow x m + popBelow (x >>> m) n
  | 0 => rfl
  | n + 1 => by
    rw [← Nat.add_assoc, popBelow, popBelow_add x m n, popBelow, Nat.testBit_shiftRight,
      Nat.add_assoc]

/-- bits at or above `r` are cleared by `% 2 ^ r` -/
theorem popBelow_mod_two_pow (y r : Nat) : ∀ d, popBelow (y % 2 ^ r) (r + d) = popBelow y r
  | 0 => popBelow_congr (fun j hj => by
      have hj' : j < r := hj
      simp [Nat.testBit_mod_two_pow, hj'])
  | d + 1 => by
    rw [← Nat.add_assoc, popBelow, popBelow_mod_two_pow y r d, Nat.testBit_mod_two_pow]
    have : ¬ r + d < r := by omega
    simp [this]

theorem popBelow_mod_two_pow' (y : Nat) {r n : Nat} (h : r ≤ n) :
    popBelow (y % 2 ^ r) n = popBelow y r := by
  obtain ⟨d, rfl⟩ := Nat.exists_eq_add_of_le h
  exact popBelow_mod_two_pow y r d

theorem popBelow_zero : ∀ n, popBelow 0 n = 0
  | 0 => rfl
  | n + 1 => by simp [popBelow, popBelow_zero n]

/-- setting bit `i` adds one to the count iff the bit is in range and was clear -/
theorem popBelow_or_bit (x i : Nat) : ∀ n,
    popBelow (x ||| (1 <<< i)) n = popBelow x n + (if i < n ∧ x.testBit i = false then 1 else 0)
  | 0 => by simp [popBelow]
  | n + 1 => by
    rw [popBelow, popBelow_or_bit x i n, popBelow, testBit_or_one_shiftLeft]
    by_cases hin : i = n
    · subst hin
      cases hx : x.testBit i <;> simp
    · have h1 : (i < n + 1) = (i < n) := by
        apply propext; omega
      simp only [hin, decide_false, Bool.or_false, h1]
      omega

/-- word `k` of the table, counted -/
theorem popWord_block (b : BitSet) (k : Nat) :
    popWord 32 (b.block k) = popBelow (b.bits >>> (32 * k)) 32 := by
  rw [popWord_eq_popBelow, block]
  exact popBelow_mod_two_pow _ 32 0

theorem foldl_blocks (b : BitSet) : ∀ q,
    (List.range q).foldl (fun acc k => acc + popWord 32 (b.block k)) 0 = popBelow b.bits (32 * q)
  | 0 => rfl
  | q + 1 => by
    rw [List.range_succ, List.foldl_append, foldl_blocks b q]
    simp only [List.foldl_cons, List.foldl_nil]
    rw [popWord_block, Nat.mul_succ, popBelow_add]

/-- `count_ones` counts exactly the bits below `length` -/
theorem countOnes_eq_popBelow (b : BitSet) : b.countOnes = popBelow b.bits b.length := by
  unfold countOnes
  simp only
  rw [foldl_blocks, popWord_eq_popBelow, block]
  have hr : b.length % 32 < 32 := Nat.mod_lt _ (by decide)
  have e1 : (b.bits >>> (32 * (b.length / 32)) % 2 ^ 32 % 2 ^ (b.length % 32)) =
      b.bits >>> (32 * (b.length / 32)) % 2 ^ (b.length % 32) := by
    apply Nat.mod_mod_of_dvd
    exact Nat.pow_dvd_pow 2 (by omega)
  rw [e1]
  rw [popBelow_mod_two_pow' _ (Nat.le_of_lt hr), ← popBelow_add]
  congr 1
  omega

theorem countOnes_withCapacity (s : Nat) : (withCapacity s).countOnes = 0 := by
  rw [countOnes_eq_popBelow]; exact popBelow_zero _

/-- `put` of a bit inside the table: one more bit iff it was clear -/
theorem countOnes_put {b : BitSet} {bit : Nat} (h : bit < b.length) :
    (b.put bit).1.countOnes = b.countOnes + (if (b.put bit).2 then 0 else 1) := by
  rw [countOnes_eq_popBelow, countOnes_eq_popBelow, put_bits, put_length, popBelow_or_bit, put_snd]
  cases b.bits.testBit bit <;> simp [h]

end BitSet

namespace NG
open BitSet

/-- `occupied_bins` is the population count of table 0 -/
def OccOK (g : NG) : Prop :=
  g.occupied = match g.bs with
    | [] => 0
    | b :: _ => b.countOnes

theorem new_occOK (sz : List Nat) (k : Nat) : OccOK (new sz k) := by
  cases sz with
  | nil => rfl
  | cons s sz =>
    show 0 = (withCapacity s).countOnes
    rw [countOnes_withCapacity]

/-- only table 0 contributes to the occupancy increment -/
theorem countLoop_occ_of_pos (h : Nat) : ∀ (bs : List BitSet) (i : Nat), i ≠ 0 →
    (countLoop h bs i).2.1 = 0
  | [], _, _ => rfl
  | b :: rest, i, hi => by
    have ih := countLoop_occ_of_pos h rest (i + 1) (by omega)
    have hi' : (i == 0) = false := by simp [hi]
    simp only [countLoop, ih, hi', Bool.and_false, Nat.add_zero]
    rfl

theorem count_occupied (g : NG) (h : Nat) :
    (g.count h).1.occupied = g.occupied + (countLoop h g.bs 0).2.1 := rfl

theorem count_occOK {g : NG} (wf : WF g) (ho : OccOK g) (h : Nat) : OccOK (g.count h).1 := by
  unfold OccOK at ho ⊢
  rw [count_occupied, count_bs]
  cases hbs : g.bs with
  | nil => rw [hbs] at ho; simpa [countLoop] using ho
  | cons b rest =>
    rw [hbs] at ho
    simp only at ho
    have hpos := (wf b (by simp [hbs])).1
    have hocc : (countLoop h (b :: rest) 0).2.1 =
        (if (b.put (h % b.length)).2 then 0 else 1) := by
      have := countLoop_occ_of_pos h rest 1 (by decide)
      simp only [countLoop, this, Nat.add_zero, put_snd]
      by_cases hx : b.bits.testBit (h % b.length) = true <;> simp [hx]
    simp only [List.map_cons]
    rw [hocc, ho, countOnes_put (Nat.mod_lt _ hpos)]

theorem update_occOK {p c : NG} (hs : p.sizes = c.sizes) : OccOK (p.update c) := by
  unfold OccOK
  unfold sizes at hs
  cases hp : p.bs with
  | nil =>
    simp only [update, hp, unionTables]
  | cons b bs =>
    cases hc : c.bs with
    | nil => rw [hp, hc] at hs; simp at hs
    | cons o os => simp only [update, hp, hc, unionTables, List.headD_cons]

end NG
end Sm
