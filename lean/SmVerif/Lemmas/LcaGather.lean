/-
`gather_assignments`: per hash, the set of lineages reported by the databases.
-/
import SmVerif.Lemmas.Dict
import SmVerif.Model.LcaDb

namespace Sm.Lca

open Sm.Lin Sm.Dict

theorem mem_updateSet {α : Type} [DecidableEq α] (xs s : List α) (x : α) :
    x ∈ updateSet s xs ↔ x ∈ s ∨ x ∈ xs := by
  unfold updateSet
  induction xs generalizing s with
  | nil => simp
  | cons y ys ih =>
    simp only [List.foldl_cons]
    rw [ih, mem_addSet]
    simp only [List.mem_cons]
    constructor
    · rintro ((h | h) | h)
      · exact Or.inl h
      · exact Or.inr (Or.inl h)
      · exact Or.inr (Or.inr h)
    · rintro (h | h | h)
      · exact Or.inl (Or.inl h)
      · exact Or.inl (Or.inr h)
      · exact Or.inr h

theorem updateSet_ne_nil {α : Type} [DecidableEq α] {xs : List α} (s : List α) (h : xs ≠ []) :
    updateSet s xs ≠ [] := by
  obtain ⟨x, hx⟩ := List.exists_mem_of_ne_nil _ h
  exact List.ne_nil_of_mem ((mem_updateSet xs s x).mpr (Or.inr hx))

/-- the lineages gathered for `h` so far -/
def G (asg : List (Nat × List Lineage)) (h : Nat) : List Lineage := (get? asg h).getD []

/-- one hash: the inner loop over the databases -/
def gatherOne (h : Nat) (asg : List (Nat × List Lineage)) (L : List (List Lineage)) : List (Nat × List Lineage) :=
  L.foldl (fun asg lins => if lins.isEmpty then asg else set asg h (updateSet ((get? asg h).getD []) lins)) asg

structure GInv (asg : List (Nat × List Lineage)) : Prop where
  nodup : (keys asg).Nodup
  nonempty : ∀ h s, get? asg h = some s → s ≠ []

theorem gatherOne_spec (h : Nat) (L : List (List Lineage)) {asg : List (Nat × List Lineage)} (hi : GInv asg) :
    GInv (gatherOne h asg L) ∧
      ∀ h' l, l ∈ G (gatherOne h asg L) h' ↔ l ∈ G asg h' ∨ (h' = h ∧ ∃ lins ∈ L, l ∈ lins) := by
  unfold gatherOne
  induction L generalizing asg with
  | nil => simp [hi]
  | cons lins rest ih =>
    simp only [List.foldl_cons]
    by_cases he : lins.isEmpty = true
    · simp only [he, if_true]
      obtain ⟨a, b⟩ := ih hi
      refine ⟨a, ?_⟩
      intro h' l
      rw [b]
      have : lins = [] := List.isEmpty_iff.mp he
      subst this
      simp
    · simp only [he, Bool.false_eq_true, if_false]
      have hne : lins ≠ [] := fun e => he (List.isEmpty_iff.mpr e)
      have hi' : GInv (set asg h (updateSet ((get? asg h).getD []) lins)) := by
        constructor
        · exact nodup_keys_set hi.nodup _ _
        · intro x s hs
          rw [get?_set] at hs
          by_cases hx : x = h
          · simp only [hx, if_true, Option.some.injEq] at hs
            rw [← hs]; exact updateSet_ne_nil _ hne
          · simp only [hx, if_false] at hs
            exact hi.nonempty x s hs
      obtain ⟨a, b⟩ := ih hi'
      refine ⟨a, ?_⟩
      intro h' l
      rw [b]
      unfold G
      rw [get?_set]
      by_cases hx : h' = h
      · subst hx
        simp only [if_true, Option.getD_some, mem_updateSet, true_and, List.mem_cons, exists_eq_or_imp]
        constructor
        · rintro ((h1 | h1) | h1)
          · exact Or.inl h1
          · exact Or.inr (Or.inl h1)
          · exact Or.inr (Or.inr h1)
        · rintro (h1 | h1 | h1)
          · exact Or.inl (Or.inl h1)
          · exact Or.inl (Or.inr h1)
          · exact Or.inr h1
      · simp [hx]

theorem gatherWith_eq (look : Nat → List (List Lineage)) (hashvals : List Nat) :
    gatherWith look hashvals = hashvals.foldl (fun asg h => gatherOne h asg (look h)) [] := rfl

/-- `gather_assignments`: a lineage is recorded for `h` iff `h` was asked about and some database
    reported it for `h`; hashes nobody knows get no entry; every entry is a non-empty duplicate-free list -/
theorem gather_spec (look : Nat → List (List Lineage)) (hashvals : List Nat) :
    GInv (gatherWith look hashvals) ∧
      ∀ h l, l ∈ G (gatherWith look hashvals) h ↔ h ∈ hashvals ∧ ∃ lins ∈ look h, l ∈ lins := by
  rw [gatherWith_eq]
  have : ∀ (hs : List Nat) (asg : List (Nat × List Lineage)), GInv asg →
      GInv (hs.foldl (fun asg h => gatherOne h asg (look h)) asg) ∧
      ∀ h l, l ∈ G (hs.foldl (fun asg h => gatherOne h asg (look h)) asg) h ↔
        l ∈ G asg h ∨ (h ∈ hs ∧ ∃ lins ∈ look h, l ∈ lins) := by
    intro hs
    induction hs with
    | nil => intro asg hi; simp [hi]
    | cons x xs ih =>
      intro asg hi
      simp only [List.foldl_cons]
      obtain ⟨a, b⟩ := gatherOne_spec x (look x) hi
      obtain ⟨c, d⟩ := ih _ a
      refine ⟨c, ?_⟩
      intro h l
      rw [d, b]
      simp only [List.mem_cons]
      constructor
      · rintro ((h1 | ⟨h1, h2⟩) | ⟨h1, h2⟩)
        · exact Or.inl h1
        · subst h1; exact Or.inr ⟨Or.inl rfl, h2⟩
        · exact Or.inr ⟨Or.inr h1, h2⟩
      · rintro (h1 | ⟨h1 | h1, h2⟩)
        · exact Or.inl (Or.inl h1)
        · subst h1; exact Or.inl (Or.inr ⟨rfl, h2⟩)
        · exact Or.inr ⟨h1, h2⟩
  obtain ⟨a, b⟩ := this hashvals [] ⟨by simp [keys], by simp⟩
  refine ⟨a, ?_⟩
  intro h l
  rw [b]
  simp [G]

end Sm.Lca
