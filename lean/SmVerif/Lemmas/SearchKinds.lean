/-
C06, the remaining entry points and container kinds:

* `best_containment`: the candidates it chooses among (the hits of a best-only prefetch with the
  maximal score) are exactly the maximal elements of the brute-force prefetch answer;
* `prefetch` is `find` with the containment search object of `make_containment_query`, and for a
  query at least as coarse as the subject its threshold test on the specification score is the
  base-pair test (the D6-free regime);
* `search_abund`: the abundance-weighted search is the filter `score >= threshold`, sorted.
-/
import SmVerif.Lemmas.SearchRound
import SmVerif.Lemmas.SearchContainer

namespace Sm.Search

open Sm F64

/-! ### maximal elements -/

theorem exists_max_hit : ∀ (l : List Hit), l ≠ [] →
    ∃ z ∈ l, ∀ y ∈ l, ge z.score.toF y.score.toF = true
  | [], h => absurd rfl h
  | [x], _ => ⟨x, List.mem_cons_self, fun y hy => by
      rcases List.mem_cons.1 hy with rfl | hy'
      · exact ge_refl _
      · cases hy'⟩
  | x :: x' :: rest, _ => by
    obtain ⟨z, hz, hmax⟩ := exists_max_hit (x' :: rest) (by simp)
    rcases ge_total x.score.toF z.score.toF with h | h
    · refine ⟨x, List.mem_cons_self, ?_⟩
      intro y hy
      rcases List.mem_cons.1 hy with rfl | hy'
      · exact ge_refl _
      · exact ge_trans h (hmax y hy')
    · refine ⟨z, List.mem_cons_of_mem _ hz, ?_⟩
      intro y hy
      rcases List.mem_cons.1 hy with rfl | hy'
      · exact h
      · exact hmax y hy'

/-- the selection `best_containment` makes among the hits of a best-only prefetch -/
def topHits (hits : List Hit) : List Hit :=
  match sortDesc hits with
  | [] => []
  | h :: _ => hits.filter (fun x => ge x.score.toF h.score.toF)

theorem mem_topHits (hits : List Hit) (x : Hit) :
    x ∈ topHits hits ↔ x ∈ hits ∧ ∀ y ∈ hits, ge x.score.toF y.score.toF = true := by
  unfold topHits
  have hperm := sortDesc_perm hits
  have hdesc := sortDesc_desc hits
  cases hs : sortDesc hits with
  | nil =>
    have : hits = [] := by
      have := hperm.length_eq
      rw [hs] at this
      exact List.eq_nil_of_length_eq_zero this.symm
    simp [this]
  | cons h rest =>
    rw [hs] at hperm hdesc
    have hh : h ∈ hits := hperm.subset List.mem_cons_self
    have hhmax : ∀ y ∈ hits, ge h.score.toF y.score.toF = true := by
      intro y hy
      have hy' := hperm.symm.subset hy
      rcases List.mem_cons.1 hy' with rfl | hy''
      · exact ge_refl _
      · exact (List.pairwise_cons.1 hdesc).1 y hy''
    simp only []
    rw [List.mem_filter]
    constructor
    · intro ⟨h1, h2⟩
      exact ⟨h1, fun y hy => ge_trans h2 (hhmax y hy)⟩
    · intro ⟨h1, h2⟩
      exact ⟨h1, h2 h hh⟩

/-- if `hits` is sound for `B` and contains every maximal element of `B`, its top elements are
exactly the maximal elements of `B` -/
theorem topHits_eq_max {hits B : List Hit} (hsound : ∀ x ∈ hits, x ∈ B)
    (hmax : ∀ x ∈ B, (∀ y ∈ B, ge x.score.toF y.score.toF = true) → x ∈ hits) (x : Hit) :
    x ∈ topHits hits ↔ x ∈ B ∧ ∀ y ∈ B, ge x.score.toF y.score.toF = true := by
  rw [mem_topHits]
  constructor
  · intro ⟨h1, h2⟩
    refine ⟨hsound x h1, ?_⟩
    intro y hy
    obtain ⟨z, hz, hzmax⟩ := exists_max_hit B (List.ne_nil_of_mem hy)
    exact ge_trans (h2 z (hmax z hz hzmax)) (hzmax y hy)
  · intro ⟨h1, h2⟩
    exact ⟨hmax x h1 h2, fun y hy => h2 y (hsound y hy)⟩

theorem bestContainment_eq_topHits (find : Finder) (empty : Bool) (q : MH) (bp : Nat) (hits : List Hit)
    (h : prefetch find empty q bp true = .ok hits) : bestContainment find empty q bp = .ok (topHits hits) := by
  unfold bestContainment
  rw [h]
  simp only [topHits]
  cases sortDesc hits <;> rfl

/-! ### `prefetch` is `find` with the containment search object -/

theorem prefetch_is_find (find : Finder) (q : MH) (bp : Nat) (best : Bool) (js : JS)
    (hjs : makeContainmentQuery q bp best = .ok js) :
    prefetch find false q bp best = (find js q).map (fun r => r.2) := by
  unfold prefetch
  rw [if_neg (by simp), hjs]
  simp only []
  cases find js q with
  | error e => rfl
  | ok r => obtain ⟨a, b⟩ := r; rfl

/-- the search object `prefetch` builds for a flat non-empty query -/
theorem makeContainmentQuery_flat {q : MH} {Sq : Nat} (hq : Flat q Sq) (hne : q.mins ≠ []) (bp : Nat) (best : Bool)
    {t : F} (ht : calcThresholdFromBp bp Sq q.mins.length = .ok t) :
    makeContainmentQuery q bp best = .ok ⟨.containment, t, best⟩ := by
  unfold makeContainmentQuery
  have hl : q.mins.length ≠ 0 := by
    intro h; exact hne (List.eq_nil_of_length_eq_zero h)
  have := hq.lo
  rw [if_neg hl, if_neg (by rw [hq.scaledProp]; omega), hq.scaledProp, ht]

/-- **the threshold test of `prefetch` on the specification score is the base-pair test**, for a
query at least as coarse as the subject (so that the comparison scaled is the query's: the regime
outside finding D6), `threshold_bp ≤ 2^50` -/
theorem passes_spec_containment_bp {q s : MH} {Sq Ss bp : Nat} (hq : Flat q Sq) (hs : Ss ≤ Sq)
    (hne : q.mins ≠ []) (hsz : q.mins.length < 2 ^ 53) (hbp : bp ≤ 2 ^ 50) {t : F}
    (ht : calcThresholdFromBp bp Sq q.mins.length = .ok t) (b : Bool) :
    JS.passes ⟨.containment, t, b⟩ (specScore .containment Sq Ss q.mins s.mins) = true ↔
      ((specSizes (mhR Sq) q.mins s.mins).2.1 ≠ 0 ∧ bp ≤ (specSizes (mhR Sq) q.mins s.mins).2.1 * Sq) := by
  have hmax : max Sq Ss = Sq := Nat.max_eq_left hs
  have hl : q.mins.length ≠ 0 := by
    intro h; exact hne (List.eq_nil_of_length_eq_zero h)
  have hQ : (specSizes (mhR Sq) q.mins s.mins).1 = q.mins.length := by
    unfold specSizes; simp only []; rw [hq.filter_self]
  have hle : (specSizes (mhR Sq) q.mins s.mins).2.1 ≤ q.mins.length := by
    unfold specSizes
    simp only []
    rw [hq.filter_self]
    exact (List.filter_sublist).length_le
  unfold specScore
  rw [hmax, scoreFn_containment, hQ, if_neg hl]
  have hS53 : Sq < 2 ^ 53 := lt_of_le_of_lt hq.hi (by decide)
  exact bp_threshold_exact (Nat.lt_of_lt_of_le Nat.zero_lt_one hq.lo) hS53 (Nat.pos_of_ne_zero hl) hsz hle hbp ht b

/-! ### `search_abund` -/

theorem insertDescF_perm (x : Nat × F) (l : List (Nat × F)) : (insertDescF x l).Perm (x :: l) := by
  induction l with
  | nil => exact List.Perm.refl _
  | cons y ys ih =>
    unfold insertDescF
    split
    · exact List.Perm.refl _
    · exact (List.Perm.cons y ih).trans (List.Perm.swap x y ys)

theorem sortDescF_perm (l : List (Nat × F)) : (l.foldr insertDescF []).Perm l := by
  induction l with
  | nil => exact List.Perm.refl _
  | cons x xs ih => exact (insertDescF_perm x _).trans (List.Perm.cons x ih)

theorem insertDescF_desc (x : Nat × F) (l : List (Nat × F))
    (h : l.Pairwise (fun a b => ge a.2 b.2 = true)) :
    (insertDescF x l).Pairwise (fun a b => ge a.2 b.2 = true) := by
  induction l with
  | nil => exact List.pairwise_singleton _ _
  | cons y ys ih =>
    unfold insertDescF
    have hy := List.pairwise_cons.1 h
    by_cases hge : ge x.2 y.2 = true
    · rw [if_pos hge]
      refine List.pairwise_cons.2 ⟨?_, h⟩
      intro z hz
      rcases List.mem_cons.1 hz with rfl | hz'
      · exact hge
      · exact ge_trans hge (hy.1 z hz')
    · rw [if_neg hge]
      refine List.pairwise_cons.2 ⟨?_, ih hy.2⟩
      intro z hz
      have := (insertDescF_perm x ys).subset hz
      rcases List.mem_cons.1 this with rfl | hz'
      · rcases ge_total y.2 z.2 with h1 | h1
        · exact h1
        · exact absurd h1 hge
      · exact hy.1 z hz'

theorem sortDescF_desc (l : List (Nat × F)) : (l.foldr insertDescF []).Pairwise (fun a b => ge a.2 b.2 = true) := by
  induction l with
  | nil => exact List.Pairwise.nil
  | cons x xs ih => exact insertDescF_desc x _ ih

/-- when every subject tracks abundances and can be scored, the loop is the filter `score >= thr` -/
theorem searchAbundLoop_eq (sim : MH → MH → Except SErr F) (score : MH → F) (thr : F) (q : MH) :
    ∀ db : List (Nat × MH), (∀ p ∈ db, p.2.trackAbundance = true ∧ sim q p.2 = .ok (score p.2)) →
      searchAbundLoop sim thr q db =
        .ok ((db.filter (fun p => ge (score p.2) thr)).map (fun p => (p.1, score p.2)))
  | [], _ => rfl
  | (i, s) :: rest, h => by
    obtain ⟨h1, h2⟩ := h (i, s) List.mem_cons_self
    have ih := searchAbundLoop_eq sim score thr q rest (fun p hp => h p (List.mem_cons_of_mem _ hp))
    simp only [searchAbundLoop] at h1 h2 ⊢
    rw [h1, h2, ih]
    simp only [Bool.not_true, Bool.false_eq_true, if_false]
    by_cases hg : ge (score s) thr = true
    · rw [if_pos hg, List.filter_cons_of_pos (by simpa using hg)]; rfl
    · rw [if_neg hg, List.filter_cons_of_neg (by simpa using hg)]

end Sm.Search
