/-
Helper lemmas for C14: `sketch fromfile` builds exactly the requested signatures that are neither
already done nor impossible, each once.
-/
import SmVerif.Model.SketchFromfile

namespace Sm.Sketch

/-- the parameter sets filed under a (name, filename) key -/
def groupOf (tb : List (FFKey × List CP)) (k : FFKey) : List CP :=
  (tb.filter (fun g => g.1 = k)).flatMap (fun g => g.2)

def totalSize (tb : List (FFKey × List CP)) : Nat := (tb.map (fun g => g.2.length)).sum

theorem mem_groupOf_cons (kg : FFKey) (ps : List CP) (rest : List (FFKey × List CP)) (k' : FFKey) (p' : CP) :
    p' ∈ groupOf ((kg, ps) :: rest) k' ↔ (kg = k' ∧ p' ∈ ps) ∨ p' ∈ groupOf rest k' := by
  unfold groupOf
  by_cases h : kg = k'
  · simp [List.filter_cons, h]
  · simp [List.filter_cons, h]

theorem mem_groupOf_nil (k' : FFKey) (p' : CP) : ¬ p' ∈ groupOf [] k' := by
  simp [groupOf]

theorem mem_groupOf_insertGroup (acc : List (FFKey × List CP)) (k k' : FFKey) (p p' : CP) :
    p' ∈ groupOf (insertGroup acc k p) k' ↔ p' ∈ groupOf acc k' ∨ (k' = k ∧ p' = p) := by
  induction acc with
  | nil =>
    simp only [insertGroup, mem_groupOf_cons, List.mem_singleton]
    have := mem_groupOf_nil k' p'
    constructor
    · rintro (⟨h1, h2⟩ | h)
      · exact Or.inr ⟨h1.symm, h2⟩
      · exact absurd h this
    · rintro (h | ⟨h1, h2⟩)
      · exact absurd h this
      · exact Or.inl ⟨h1.symm, h2⟩
  | cons g rest ih =>
    obtain ⟨kg, ps⟩ := g
    unfold insertGroup
    by_cases h : kg = k
    · rw [if_pos h]
      simp only [mem_groupOf_cons, List.mem_append, List.mem_singleton]
      constructor
      · rintro (⟨h1, h2 | h2⟩ | h3)
        · exact Or.inl (Or.inl ⟨h1, h2⟩)
        · exact Or.inr ⟨by rw [← h1, h], h2⟩
        · exact Or.inl (Or.inr h3)
      · rintro ((⟨h1, h2⟩ | h3) | ⟨h1, h2⟩)
        · exact Or.inl ⟨h1, Or.inl h2⟩
        · exact Or.inr h3
        · exact Or.inl ⟨by rw [h1, h], Or.inr h2⟩
    · rw [if_neg h]
      simp only [mem_groupOf_cons, ih]
      constructor
      · rintro (h1 | h2 | h3)
        · exact Or.inl (Or.inl h1)
        · exact Or.inl (Or.inr h2)
        · exact Or.inr h3
      · rintro ((h1 | h2) | h3)
        · exact Or.inl h1
        · exact Or.inr (Or.inl h2)
        · exact Or.inr (Or.inr h3)

theorem keys_insertGroup (acc : List (FFKey × List CP)) (k : FFKey) (p : CP) :
    (insertGroup acc k p).map Prod.fst =
      if k ∈ acc.map Prod.fst then acc.map Prod.fst else acc.map Prod.fst ++ [k] := by
  induction acc with
  | nil => simp [insertGroup]
  | cons g rest ih =>
    obtain ⟨kg, ps⟩ := g
    unfold insertGroup
    by_cases h : kg = k
    · subst h; simp
    · rw [if_neg h]
      simp only [List.map_cons, ih, List.mem_cons]
      have h' : ¬ k = kg := fun e => h e.symm
      by_cases h2 : k ∈ rest.map Prod.fst
      · simp [h2]
      · simp [h2, h']

theorem nodup_keys_insertGroup {acc : List (FFKey × List CP)} (h : (acc.map Prod.fst).Nodup)
    (k : FFKey) (p : CP) : ((insertGroup acc k p).map Prod.fst).Nodup := by
  rw [keys_insertGroup]
  split
  · exact h
  · rename_i hk
    refine List.nodup_append.2 ⟨h, by simp, ?_⟩
    intro a ha b hb
    simp only [List.mem_singleton] at hb
    subst hb
    intro e
    exact hk (e ▸ ha)

theorem totalSize_insertGroup (acc : List (FFKey × List CP)) (k : FFKey) (p : CP) :
    totalSize (insertGroup acc k p) = totalSize acc + 1 := by
  induction acc with
  | nil => simp [insertGroup, totalSize]
  | cons g rest ih =>
    obtain ⟨kg, ps⟩ := g
    unfold insertGroup
    split
    · simp [totalSize]; omega
    · simp only [totalSize, List.map_cons, List.sum_cons] at ih ⊢
      omega

/-- folding a list of (key, parameter set) into groups -/
theorem foldl_insertGroup_spec (l : List (FFRow × CP)) (key : FFRow × CP → FFKey)
    (acc : List (FFKey × List CP)) (hacc : (acc.map Prod.fst).Nodup) :
    let tb := l.foldl (fun acc rp => insertGroup acc (key rp) rp.2) acc
    (tb.map Prod.fst).Nodup ∧ totalSize tb = totalSize acc + l.length ∧
    ∀ k p, p ∈ groupOf tb k ↔ p ∈ groupOf acc k ∨ ∃ rp ∈ l, key rp = k ∧ rp.2 = p := by
  induction l generalizing acc with
  | nil => simp [hacc]
  | cons rp rest ih =>
    have := ih (insertGroup acc (key rp) rp.2) (nodup_keys_insertGroup hacc _ _)
    simp only [List.foldl_cons]
    refine ⟨this.1, ?_, ?_⟩
    · rw [this.2.1, totalSize_insertGroup]; simp; omega
    · intro k p
      rw [this.2.2 k p, mem_groupOf_insertGroup]
      constructor
      · rintro ((h | ⟨rfl, rfl⟩) | ⟨rp', hm, h1, h2⟩)
        · exact Or.inl h
        · exact Or.inr ⟨rp, by simp, rfl, rfl⟩
        · exact Or.inr ⟨rp', List.mem_cons_of_mem _ hm, h1, h2⟩
      · rintro (h | ⟨rp', hm, h1, h2⟩)
        · exact Or.inl (Or.inl h)
        · rcases List.mem_cons.1 hm with rfl | hm
          · exact Or.inl (Or.inr ⟨h1.symm, h2.symm⟩)
          · exact Or.inr ⟨rp', hm, h1, h2⟩

/-- **what `fromfile` files for building**: the keys are distinct, nothing is filed twice or
lost (sizes add up), and a parameter set sits under (name, file) exactly when it was requested
for that name, is not already done, and that file is the one its molecule type needs -/
theorem toBuild_spec (done : List DoneRow) (reqs : List (FFRow × CP)) :
    ((toBuild done reqs).map Prod.fst).Nodup ∧
    totalSize (toBuild done reqs) = (reqs.filter (fun rp => fate done rp.1 rp.2 = .build)).length ∧
    ∀ k p, p ∈ groupOf (toBuild done reqs) k ↔
      ∃ r, (r, p) ∈ reqs ∧ fate done r p = .build ∧ k = (r.name, fileFor r p) := by
  have := foldl_insertGroup_spec (reqs.filter (fun rp => fate done rp.1 rp.2 = .build))
    (fun rp => (rp.1.name, fileFor rp.1 rp.2)) [] (by simp)
  unfold toBuild
  refine ⟨this.1, by simpa [totalSize] using this.2.1, ?_⟩
  intro k p
  rw [this.2.2 k p]
  simp only [groupOf, List.filter_nil, List.flatMap_nil, List.not_mem_nil, false_or, List.mem_filter,
    decide_eq_true_eq]
  constructor
  · rintro ⟨⟨r, p'⟩, ⟨hm, hf⟩, hk, rfl⟩
    exact ⟨r, hm, hf, hk.symm⟩
  · rintro ⟨r, hm, hf, hk⟩
    exact ⟨(r, p), ⟨hm, hf⟩, hk.symm, rfl⟩

theorem mem_requested (names : List FFRow) (build : List CP) (r : FFRow) (p : CP) :
    (r, p) ∈ requested names build ↔ r ∈ names ∧ p ∈ build := by
  unfold requested
  simp only [List.mem_flatMap, List.mem_map, Prod.mk.injEq]
  constructor
  · rintro ⟨r', hr, p', hp, rfl, rfl⟩; exact ⟨hr, hp⟩
  · rintro ⟨hr, hp⟩; exact ⟨r, hr, p, hp, rfl, rfl⟩

theorem requested_length (names : List FFRow) (build : List CP) :
    (requested names build).length = names.length * build.length := by
  unfold requested
  induction names with
  | nil => simp
  | cons r rest ih =>
    simp only [List.flatMap_cons, List.length_append, List.length_map, ih, List.length_cons]
    rw [Nat.add_mul, Nat.one_mul, Nat.add_comm]

/-- the three fates partition the requests -/
theorem fates_partition (done : List DoneRow) (reqs : List (FFRow × CP)) :
    (reqs.filter (fun rp => fate done rp.1 rp.2 = .build)).length +
    (reqs.filter (fun rp => fate done rp.1 rp.2 = .skipped)).length +
    (reqs.filter (fun rp => fate done rp.1 rp.2 = .missing)).length = reqs.length := by
  induction reqs with
  | nil => rfl
  | cons rp rest ih =>
    simp only [List.filter_cons, List.length_cons]
    cases h : fate done rp.1 rp.2 <;> simp [h] <;> omega

end Sm.Sketch
