/-
LCA_Database as an inverted index: what `signatures()` can and cannot give back.
-/
import SmVerif.Lemmas.StorageMisc

namespace Sm.Storage

/-- idx `i` is recorded under hash `h` -/
def Owns (m : List (Nat × List Nat)) (h i : Nat) : Prop := ∃ l, (h, l) ∈ m ∧ i ∈ l

theorem owns_nil (h i : Nat) : ¬ Owns [] h i := by simp [Owns]

theorem owns_cons (x : Nat) (l : List Nat) (t : List (Nat × List Nat)) (h' i' : Nat) :
    Owns ((x, l) :: t) h' i' ↔ (h' = x ∧ i' ∈ l) ∨ Owns t h' i' := by
  simp only [Owns, List.mem_cons, Prod.mk.injEq]
  constructor
  · rintro ⟨l', (⟨e1, e2⟩ | hm), hi⟩
    · subst e2; exact Or.inl ⟨e1, hi⟩
    · exact Or.inr ⟨l', hm, hi⟩
  · rintro (⟨e1, hi⟩ | ⟨l', hm, hi⟩)
    · exact ⟨l, Or.inl ⟨e1, rfl⟩, hi⟩
    · exact ⟨l', Or.inr hm, hi⟩

theorem mem_addOne (l : List Nat) (i j : Nat) : j ∈ (if l.contains i then l else l ++ [i]) ↔ j ∈ l ∨ j = i := by
  by_cases hc : l.contains i = true
  · simp only [hc, if_true]
    constructor
    · intro h; exact Or.inl h
    · rintro (h | h)
      · exact h
      · subst h; simpa using hc
  · simp only [hc]
    simp

theorem owns_addIdx (m : List (Nat × List Nat)) (h i h' i' : Nat) :
    Owns (addIdx m h i) h' i' ↔ Owns m h' i' ∨ (h' = h ∧ i' = i) := by
  induction m with
  | nil =>
    simp only [addIdx, owns_cons, List.mem_singleton]
    constructor
    · rintro (h1 | h1)
      · exact Or.inr h1
      · exact absurd h1 (owns_nil _ _)
    · rintro (h1 | h1)
      · exact absurd h1 (owns_nil _ _)
      · exact Or.inl h1
  | cons e t ih =>
    obtain ⟨x, l⟩ := e
    by_cases hx : x = h
    · subst hx
      simp only [addIdx, if_true, owns_cons, mem_addOne]
      grind
    · simp only [addIdx, hx, if_false, owns_cons, ih]
      grind

theorem owns_fold (kept : List Nat) (idx : Nat) : ∀ (m : List (Nat × List Nat)) (h' i' : Nat),
    Owns (kept.foldl (fun m h => addIdx m h idx) m) h' i' ↔ Owns m h' i' ∨ (h' ∈ kept ∧ i' = idx) := by
  induction kept with
  | nil => intro m h' i'; simp
  | cons h t ih =>
    intro m h' i'
    simp only [List.foldl_cons, ih, owns_addIdx, List.mem_cons]
    grind

/-- the hashes of `ss` an LCA database of this `maxHash` keeps (the downsampled, flattened sketch) -/
def lcaKept (maxHash : Nat) (ss : Sig) : List Nat := (ss.hashes.map (·.1)).filter (· ≤ maxHash)

/-- does `insert` accept `ss`, given the names already present? (the documented restrictions: same k and
    molecule, a scaled sketch no coarser than the database, a name not yet present) -/
def lcaOk (db : LcaDb) (ss : Sig) : Bool :=
  decide (ss.ksize = db.ksize) && decide (ss.mol = db.mol) && decide (ss.num = 0) && decide (ss.scaled ≠ 0) &&
    decide (ss.scaled ≤ db.scaled) && !(db.identToName.map (·.1)).contains ss.name

/-- the tables after an accepted insert -/
def lcaPush (db : LcaDb) (ss : Sig) : LcaDb :=
  { db with
    nextIndex := db.nextIndex + 1,
    identToName := db.identToName ++ [(ss.name, ss.name)],
    identToIdx := db.identToIdx ++ [(ss.name, db.nextIndex)],
    hashvalToIdx := (lcaKept db.maxHash ss).foldl (fun m h => addIdx m h db.nextIndex) db.hashvalToIdx }

theorem lca_insert_ok (db : LcaDb) (ss : Sig) (hok : lcaOk db ss = true) : db.insert ss = .ok (lcaPush db ss) := by
  simp only [lcaOk, Bool.and_eq_true, decide_eq_true_eq, Bool.not_eq_eq_eq_not, Bool.not_true] at hok
  obtain ⟨⟨⟨⟨⟨h1, h2⟩, h3⟩, h4⟩, h5⟩, h6⟩ := hok
  unfold LcaDb.insert
  rw [if_neg (by simp [h1]), if_neg (by simp [h2]), if_neg (by omega), if_neg (by rw [h6]; exact Bool.false_ne_true)]
  rfl

theorem lca_insert_err (db : LcaDb) (ss : Sig) (hok : lcaOk db ss = false) : db.insert ss = .err .valueError := by
  unfold LcaDb.insert
  by_cases c1 : ss.ksize ≠ db.ksize
  · rw [if_pos c1]
  · rw [if_neg c1]
    by_cases c2 : ss.mol ≠ db.mol
    · rw [if_pos c2]
    · rw [if_neg c2]
      by_cases c3 : ss.num ≠ 0 ∨ ss.scaled = 0 ∨ ss.scaled > db.scaled
      · rw [if_pos c3]
      · rw [if_neg c3]
        by_cases c4 : (db.identToName.map (·.1)).contains ss.name = true
        · rw [if_pos c4]
        · exfalso
          have : lcaOk db ss = true := by
            simp only [lcaOk, Bool.and_eq_true, decide_eq_true_eq, Bool.not_eq_eq_eq_not, Bool.not_true]
            refine ⟨⟨⟨⟨⟨by simpa using c1, by simpa using c2⟩, by omega⟩, by omega⟩, by omega⟩, by simpa using c4⟩
          rw [this] at hok; cases hok

/-- (idx, signature) of every accepted insert, in order -/
abbrev Ents := List (Nat × Sig)

structure LcaInv (db : LcaDb) (ents : Ents) : Prop where
  idx : db.identToIdx = ents.map fun e => (e.2.name, e.1)
  nm : db.identToName = ents.map fun e => (e.2.name, e.2.name)
  idxNodup : (ents.map (·.1)).Nodup
  idxLt : ∀ e ∈ ents, e.1 < db.nextIndex
  nameNodup : (ents.map (·.2.name)).Nodup
  owns : ∀ h i, Owns db.hashvalToIdx h i ↔ ∃ e ∈ ents, e.1 = i ∧ h ∈ lcaKept db.maxHash e.2
  len : db.nextIndex = ents.length
  idxRange : ents.map (·.1) = List.range ents.length

theorem lcaInv_new (k sc M mol : Nat) : LcaInv (LcaDb.new k sc M mol) [] := by
  refine ⟨rfl, rfl, by simp, by simp, by simp, ?_, rfl, rfl⟩
  intro h i
  simp [Owns, LcaDb.new]

theorem lcaInv_push (db : LcaDb) (ents : Ents) (ss : Sig) (inv : LcaInv db ents) (hok : lcaOk db ss = true) :
    LcaInv (lcaPush db ss) (ents ++ [(db.nextIndex, ss)]) := by
  have hname : ss.name ∉ ents.map (·.2.name) := by
    simp only [lcaOk, Bool.and_eq_true, Bool.not_eq_eq_eq_not, Bool.not_true] at hok
    have h6' : ss.name ∉ (db.identToName.map (·.1)) := by simpa using hok.2
    rw [inv.nm, List.map_map] at h6'
    simpa [Function.comp] using h6'
  constructor
  · show db.identToIdx ++ [(ss.name, db.nextIndex)] = _
    simp [inv.idx]
  · show db.identToName ++ [(ss.name, ss.name)] = _
    simp [inv.nm]
  · simp only [List.map_append, List.map_cons, List.map_nil]
    rw [List.nodup_append]
    refine ⟨inv.idxNodup, by simp, ?_⟩
    intro a ha b hb
    simp only [List.mem_singleton] at hb
    subst hb
    simp only [List.mem_map] at ha
    obtain ⟨e, he, rfl⟩ := ha
    have := inv.idxLt e he
    omega
  · intro e he
    show e.1 < db.nextIndex + 1
    simp only [List.mem_append, List.mem_singleton] at he
    rcases he with he | he
    · have := inv.idxLt e he; omega
    · subst he; simp
  · simp only [List.map_append, List.map_cons, List.map_nil]
    rw [List.nodup_append]
    refine ⟨inv.nameNodup, by simp, ?_⟩
    intro a ha b hb
    simp only [List.mem_singleton] at hb
    subst hb
    intro e; subst e; exact hname ha
  · intro h i
    show Owns ((lcaKept db.maxHash ss).foldl (fun m h => addIdx m h db.nextIndex) db.hashvalToIdx) h i ↔
      ∃ e ∈ ents ++ [(db.nextIndex, ss)], e.1 = i ∧ h ∈ lcaKept db.maxHash e.2
    rw [owns_fold, inv.owns]
    constructor
    · rintro (⟨e, he, e1, e2⟩ | ⟨h1, h2⟩)
      · exact ⟨e, by simp [he], e1, e2⟩
      · exact ⟨(db.nextIndex, ss), by simp, h2.symm, h1⟩
    · rintro ⟨e, he, e1, e2⟩
      simp only [List.mem_append, List.mem_singleton] at he
      rcases he with he | he
      · exact Or.inl ⟨e, he, e1, e2⟩
      · subst he; exact Or.inr ⟨e2, e1.symm⟩
  · show db.nextIndex + 1 = _
    simp [inv.len]
  · simp only [List.map_append, List.map_cons, List.map_nil, List.length_append, List.length_cons,
      List.length_nil, List.range_succ, inv.idxRange, inv.len]

/-- specification of the insert loop: the entries that get in -/
def lcaSpec (db : LcaDb) : List Sig → Ents × List Bool
  | [] => ([], [])
  | ss :: rest =>
    match db.insert ss with
    | .ok db' => ((db.nextIndex, ss) :: (lcaSpec db' rest).1, true :: (lcaSpec db' rest).2)
    | .err _ => ((lcaSpec db rest).1, false :: (lcaSpec db rest).2)

theorem lcaInserts_inv (l : List Sig) : ∀ (db : LcaDb) (ents : Ents), LcaInv db ents →
    LcaInv (lcaInserts db l).1 (ents ++ (lcaSpec db l).1) ∧ (lcaInserts db l).2 = (lcaSpec db l).2 ∧
      (lcaInserts db l).1.maxHash = db.maxHash ∧ (lcaInserts db l).1.ksize = db.ksize ∧
      (lcaInserts db l).1.mol = db.mol ∧ (lcaInserts db l).1.scaled = db.scaled := by
  induction l with
  | nil => intro db ents inv; simpa [lcaInserts, lcaSpec] using inv
  | cons ss rest ih =>
    intro db ents inv
    by_cases hok : lcaOk db ss = true
    · have hins := lca_insert_ok db ss hok
      have inv' := lcaInv_push db ents ss inv hok
      obtain ⟨i1, i2, i3, i4, i5, i6⟩ := ih (lcaPush db ss) _ inv'
      simp only [lcaInserts, lcaSpec, hins]
      exact ⟨by simpa [List.append_assoc] using i1, by simp [i2], i3, i4, i5, i6⟩
    · have hins : db.insert ss = .err .valueError := lca_insert_err db ss (by simpa using hok)
      obtain ⟨i1, i2, i3, i4, i5, i6⟩ := ih db ents inv
      simp only [lcaInserts, lcaSpec, hins]
      exact ⟨i1, by simp [i2], i3, i4, i5, i6⟩

/-! ### reading the inverted index back -/

theorem find?_unique {α : Type} (l : List α) (key : α → Nat) (hnd : (l.map key).Nodup) (e : α) (he : e ∈ l) :
    l.find? (fun x => decide (key x = key e)) = some e := by
  induction l with
  | nil => cases he
  | cons x t ih =>
    simp only [List.map_cons, List.nodup_cons] at hnd
    simp only [List.mem_cons] at he
    rcases he with he | he
    · subst he; simp [List.find?]
    · have hne : key x ≠ key e := by
        intro h
        apply hnd.1
        rw [h]
        exact List.mem_map_of_mem he
      simp only [List.find?, hne, decide_false]
      exact ih hnd.2 he

/-- the hash values of the sketch `add_hash` rebuilds: exactly the ones added -/
theorem mem_insertHash_fst (l : List (Nat × Nat)) (h x : Nat) :
    x ∈ (insertHash l h).map (·.1) ↔ x ∈ l.map (·.1) ∨ x = h := by
  induction l with
  | nil => simp [insertHash]
  | cons y t ih =>
    obtain ⟨y1, y2⟩ := y
    simp only [insertHash]
    by_cases h1 : h < y1
    · simp only [h1, if_true, List.map_cons, List.mem_cons]
      constructor
      · rintro (e | e | e)
        · exact Or.inr e
        · exact Or.inl (Or.inl e)
        · exact Or.inl (Or.inr e)
      · rintro ((e | e) | e)
        · exact Or.inr (Or.inl e)
        · exact Or.inr (Or.inr e)
        · exact Or.inl e
    · by_cases h2 : h = y1
      · subst h2
        simp only [h1, if_false, if_true, List.map_cons, List.mem_cons]
        constructor
        · intro e; exact Or.inl e
        · rintro (e | e)
          · exact e
          · exact Or.inl e
      · simp only [h1, h2, if_false, List.map_cons, List.mem_cons, ih]
        constructor
        · rintro (e | e | e)
          · exact Or.inl (Or.inl e)
          · exact Or.inl (Or.inr e)
          · exact Or.inr e
        · rintro ((e | e) | e)
          · exact Or.inl e
          · exact Or.inr (Or.inl e)
          · exact Or.inr (Or.inr e)

theorem abund_insertHash (l : List (Nat × Nat)) (h : Nat) (hl : ∀ p ∈ l, p.2 = 1) :
    ∀ p ∈ insertHash l h, p.2 = 1 := by
  induction l with
  | nil => intro p hp; simp [insertHash] at hp; subst hp; rfl
  | cons y t ih =>
    obtain ⟨y1, y2⟩ := y
    intro p hp
    simp only [insertHash] at hp
    by_cases h1 : h < y1
    · simp only [h1, if_true, List.mem_cons] at hp
      rcases hp with e | e | e
      · subst e; rfl
      · exact hl p (by simp [e])
      · exact hl p (by simp [e])
    · by_cases h2 : h = y1
      · subst h2
        have hirr : ¬ (h < h) := Nat.lt_irrefl h
        simp only [hirr, if_false, if_true] at hp
        exact hl p hp
      · simp only [h1, h2, if_false, List.mem_cons] at hp
        rcases hp with e | e
        · exact hl p (by simp [e])
        · exact ih (fun q hq => hl q (by simp [hq])) p e

theorem foldl_insertHash_fst (hs : List Nat) : ∀ (acc : List (Nat × Nat)) (x : Nat),
    x ∈ (hs.foldl insertHash acc).map (·.1) ↔ x ∈ acc.map (·.1) ∨ x ∈ hs := by
  induction hs with
  | nil => intro acc x; simp
  | cons h t ih =>
    intro acc x
    simp only [List.foldl_cons, ih, mem_insertHash_fst, List.mem_cons]
    constructor
    · rintro ((e | e) | e)
      · exact Or.inl e
      · exact Or.inr (Or.inl e)
      · exact Or.inr (Or.inr e)
    · rintro (e | e | e)
      · exact Or.inl (Or.inl e)
      · exact Or.inl (Or.inr e)
      · exact Or.inr e

theorem foldl_insertHash_abund (hs : List Nat) : ∀ (acc : List (Nat × Nat)), (∀ p ∈ acc, p.2 = 1) →
    ∀ p ∈ hs.foldl insertHash acc, p.2 = 1 := by
  induction hs with
  | nil => intro acc h; simpa using h
  | cons h t ih =>
    intro acc hacc
    simp only [List.foldl_cons]
    exact ih _ (abund_insertHash acc h hacc)

theorem inj_of_nodup_map {α : Type} (l : List α) (f : α → Nat) (hnd : (l.map f).Nodup) (a b : α)
    (ha : a ∈ l) (hb : b ∈ l) (e : f a = f b) : a = b := by
  induction l with
  | nil => cases ha
  | cons x t ih =>
    simp only [List.map_cons, List.nodup_cons] at hnd
    simp only [List.mem_cons] at ha hb
    rcases ha with ha | ha <;> rcases hb with hb | hb
    · rw [ha, hb]
    · subst ha; exact absurd (by rw [e]; exact List.mem_map_of_mem hb) hnd.1
    · subst hb; exact absurd (by rw [← e]; exact List.mem_map_of_mem ha) hnd.1
    · exact ih hnd.2 ha hb

/-- the signature `_signatures` builds for one idx -/
def lcaSigOf (db : LcaDb) (idx name : Nat) : Sig :=
  { name := name, filename := 0, md5 := 0, ksize := db.ksize, mol := db.mol, num := 0, scaled := db.scaled,
    seed := 42, track := false,
    hashes := ((db.hashvalToIdx.filter (·.2.contains idx)).map (·.1)).foldl insertHash [] }

theorem lcaSigOf_hashes (db : LcaDb) (idx name x : Nat) :
    x ∈ (lcaSigOf db idx name).hashes.map (·.1) ↔ Owns db.hashvalToIdx x idx := by
  show x ∈ (((db.hashvalToIdx.filter (·.2.contains idx)).map (·.1)).foldl insertHash []).map (·.1) ↔ _
  rw [foldl_insertHash_fst]
  simp only [List.map_nil, List.not_mem_nil, false_or, List.mem_map, List.mem_filter, Owns]
  constructor
  · rintro ⟨e, ⟨he, hc⟩, rfl⟩
    exact ⟨e.2, he, by simpa using hc⟩
  · rintro ⟨l, hm, hi⟩
    exact ⟨(x, l), ⟨hm, by simpa using hi⟩, rfl⟩

theorem lca_find (db : LcaDb) (ents : Ents) (inv : LcaInv db ents) : ∀ e ∈ ents,
    db.identToIdx.find? (fun x => decide (x.2 = e.1)) = some (e.2.name, e.1) ∧
    db.identToName.find? (fun x => decide (x.1 = e.2.name)) = some (e.2.name, e.2.name) := by
  intro e he
  constructor
  · rw [inv.idx]
    have := find?_unique (ents.map fun e => (e.2.name, e.1)) (·.2)
      (by simpa [List.map_map, Function.comp_def] using inv.idxNodup) (e.2.name, e.1)
      (List.mem_map.2 ⟨e, he, rfl⟩)
    simpa using this
  · rw [inv.nm]
    have := find?_unique (ents.map fun e => (e.2.name, e.2.name)) (·.1)
      (by simpa [List.map_map, Function.comp_def] using inv.nameNodup) (e.2.name, e.2.name)
      (List.mem_map.2 ⟨e, he, rfl⟩)
    simpa using this

theorem lca_idxs_mem (ye : Bool) (db : LcaDb) (ents : Ents) (inv : LcaInv db ents) (idx : Nat) :
    idx ∈ db.hashvalToIdx.flatMap (·.2) ++ (if ye then db.identToIdx.map (·.2) else []) ↔
      ∃ e ∈ ents, e.1 = idx ∧ ((∃ h, Owns db.hashvalToIdx h e.1) ∨ ye = true) := by
  simp only [List.mem_append, List.mem_flatMap]
  constructor
  · rintro (⟨p, hp, hi⟩ | hy)
    · have hown : Owns db.hashvalToIdx p.1 idx := ⟨p.2, hp, hi⟩
      obtain ⟨e, he, e1, _⟩ := (inv.owns p.1 idx).1 hown
      subst e1
      exact ⟨e, he, rfl, Or.inl ⟨p.1, hown⟩⟩
    · cases ye with
      | false => simp at hy
      | true =>
        simp only [if_true, inv.idx, List.map_map, List.mem_map, Function.comp] at hy
        obtain ⟨e, he, e1⟩ := hy
        exact ⟨e, he, e1, Or.inr rfl⟩
  · rintro ⟨e, he, rfl, (⟨h, l, hm, hi⟩ | hy)⟩
    · exact Or.inl ⟨(h, l), hm, hi⟩
    · right
      subst hy
      simp only [if_true, inv.idx, List.map_map, List.mem_map, Function.comp]
      exact ⟨e, he, rfl⟩

theorem mem_signatures (ye : Bool) (db : LcaDb) (ents : Ents) (inv : LcaInv db ents) (s' : Sig) :
    s' ∈ db.signatures ye ↔
      ∃ e ∈ ents, ((∃ h, Owns db.hashvalToIdx h e.1) ∨ ye = true) ∧ s' = lcaSigOf db e.1 e.2.name := by
  unfold LcaDb.signatures
  simp only [List.mem_filterMap, mem_dedup]
  constructor
  · rintro ⟨idx, hin, hm⟩
    obtain ⟨e, he, rfl, hcond⟩ := (lca_idxs_mem ye db ents inv idx).1 hin
    obtain ⟨h1, h2⟩ := lca_find db ents inv e he
    simp only [h1, h2] at hm
    injection hm with hm
    exact ⟨e, he, hcond, by rw [← hm]; rfl⟩
  · rintro ⟨e, he, hcond, rfl⟩
    refine ⟨e.1, (lca_idxs_mem ye db ents inv e.1).2 ⟨e, he, rfl, hcond⟩, ?_⟩
    obtain ⟨h1, h2⟩ := lca_find db ents inv e he
    simp only [h1, h2]
    rfl

theorem nodup_dedup {α : Type} [DecidableEq α] (l : List α) : (dedup l).Nodup := by
  induction l with
  | nil => simp [dedup]
  | cons x t ih =>
    simp only [dedup, List.nodup_cons, List.mem_filter]
    refine ⟨by simp, ?_⟩
    exact List.Pairwise.filter _ ih

theorem filterMap_eq_map_of {α β : Type} (l : List α) (F : α → Option β) (H : α → β)
    (h : ∀ a ∈ l, F a = some (H a)) : l.filterMap F = l.map H := by
  induction l with
  | nil => rfl
  | cons a t ih =>
    simp only [List.filterMap_cons, h a (by simp), List.map_cons]
    rw [ih (fun b hb => h b (by simp [hb]))]

/-- with the repaired `_signatures` every accepted insert is returned exactly once -/
theorem signatures_perm (db : LcaDb) (ents : Ents) (inv : LcaInv db ents) :
    (db.signatures true).Perm (ents.map fun e => lcaSigOf db e.1 e.2.name) := by
  have hperm : (dedup (db.hashvalToIdx.flatMap (·.2) ++ (if true then db.identToIdx.map (·.2) else []))).Perm
      (ents.map (·.1)) := by
    rw [List.perm_ext_iff_of_nodup (nodup_dedup _) inv.idxNodup]
    intro idx
    rw [mem_dedup, lca_idxs_mem true db ents inv idx]
    simp only [or_true, and_true, List.mem_map]
  unfold LcaDb.signatures
  refine (List.Perm.filterMap _ hperm).trans ?_
  rw [List.filterMap_map]
  apply List.Perm.of_eq
  apply filterMap_eq_map_of
  intro e he
  obtain ⟨h1, h2⟩ := lca_find db ents inv e he
  simp only [Function.comp, h1, h2]
  rfl

/-! ### ascending order of what `add_hash` rebuilds; the list is determined by its set -/

theorem flatSorted_cons_insert : ∀ (t : List (Nat × Nat)) (x a h : Nat), FlatSorted ((x, a) :: t) → x < h →
    FlatSorted ((x, a) :: insertHash t h) := by
  intro t
  induction t with
  | nil => intro x a h hs hx; exact ⟨hs, hx, rfl⟩
  | cons y u ih =>
    obtain ⟨y1, y2⟩ := y
    intro x a h hs hx
    obtain ⟨ha, hxy, htail⟩ := hs
    simp only [insertHash]
    by_cases h1 : h < y1
    · simp only [h1, if_true]
      exact ⟨ha, hx, rfl, h1, htail⟩
    · by_cases h2 : h = y1
      · subst h2
        have hirr : ¬ (h < h) := Nat.lt_irrefl h
        simp only [hirr, if_false, if_true]
        exact ⟨ha, hxy, htail⟩
      · simp only [h1, h2, if_false]
        exact ⟨ha, hxy, ih y1 y2 h htail (by omega)⟩

theorem insertHash_flatSorted (l : List (Nat × Nat)) (h : Nat) (hs : FlatSorted l) : FlatSorted (insertHash l h) := by
  cases l with
  | nil => exact rfl
  | cons y u =>
    obtain ⟨y1, y2⟩ := y
    simp only [insertHash]
    by_cases h1 : h < y1
    · simp only [h1, if_true]; exact ⟨rfl, h1, hs⟩
    · by_cases h2 : h = y1
      · subst h2
        have hirr : ¬ (h < h) := Nat.lt_irrefl h
        simp only [hirr, if_false, if_true]; exact hs
      · simp only [h1, h2, if_false]
        exact flatSorted_cons_insert u y1 y2 h hs (by omega)

theorem foldl_insertHash_flatSorted (hs : List Nat) : ∀ acc, FlatSorted acc → FlatSorted (hs.foldl insertHash acc) := by
  induction hs with
  | nil => intro acc h; exact h
  | cons x t ih => intro acc h; exact ih _ (insertHash_flatSorted acc x h)

/-- a strictly ascending flat list is determined by its set of hash values -/
theorem flatSorted_ext : ∀ (l1 l2 : List (Nat × Nat)), FlatSorted l1 → FlatSorted l2 →
    (∀ x, x ∈ l1.map (·.1) ↔ x ∈ l2.map (·.1)) → l1 = l2 := by
  intro l1
  induction l1 with
  | nil =>
    intro l2 _ _ h
    cases l2 with
    | nil => rfl
    | cons y u => have := (h y.1).2 (by simp); simp at this
  | cons x t ih =>
    intro l2 h1 h2 h
    cases l2 with
    | nil => have := (h x.1).1 (by simp); simp at this
    | cons y u =>
      have hx := flatSorted_lt h1
      have hy := flatSorted_lt h2
      have e1 : x.1 = y.1 := by
        have a := (h x.1).1 (by simp)
        have b := (h y.1).2 (by simp)
        simp only [List.map_cons, List.mem_cons, List.mem_map] at a b
        rcases a with a | ⟨q, hq, a⟩
        · exact a
        · rcases b with b | ⟨r, hr, b⟩
          · exact b.symm
          · have := hy q hq; have := hx r hr; omega
      have e2 : x = y := by
        have a1 := flatSorted_head h1
        have a2 := flatSorted_head h2
        obtain ⟨x1, x2⟩ := x; obtain ⟨y1, y2⟩ := y
        simp only at e1 a1 a2; subst e1; subst a1; subst a2; rfl
      subst e2
      congr 1
      apply ih u (flatSorted_tail h1) (flatSorted_tail h2)
      intro z
      have hz := h z
      simp only [List.map_cons, List.mem_cons] at hz
      constructor
      · intro hm
        rcases hz.1 (Or.inr hm) with e | e
        · simp only [List.mem_map] at hm
          obtain ⟨q, hq, rfl⟩ := hm
          have := hx q hq; omega
        · exact e
      · intro hm
        rcases hz.2 (Or.inr hm) with e | e
        · simp only [List.mem_map] at hm
          obtain ⟨q, hq, rfl⟩ := hm
          have := hy q hq; omega
        · exact e

theorem flatSorted_of_pairwise : ∀ l : List Nat, l.Pairwise (· < ·) → FlatSorted (l.map fun h => (h, 1)) := by
  intro l
  induction l with
  | nil => intro _; trivial
  | cons x t ih =>
    intro h
    rw [List.pairwise_cons] at h
    cases t with
    | nil => exact rfl
    | cons y u => exact ⟨rfl, h.1 y (by simp), ih h.2⟩

theorem lcaSigOf_flatSorted (db : LcaDb) (idx name : Nat) : FlatSorted (lcaSigOf db idx name).hashes :=
  foldl_insertHash_flatSorted _ [] trivial

/-- for an input sketch with ascending hashes the hash list handed back is exactly the kept hashes, flat -/
theorem lcaSigOf_exact (db : LcaDb) (idx name : Nat) (kept : List Nat) (hk : kept.Pairwise (· < ·))
    (hset : ∀ x, x ∈ (lcaSigOf db idx name).hashes.map (·.1) ↔ x ∈ kept) :
    (lcaSigOf db idx name).hashes = kept.map fun h => (h, 1) := by
  apply flatSorted_ext _ _ (lcaSigOf_flatSorted db idx name) (flatSorted_of_pairwise kept hk)
  intro x
  rw [hset]
  simp [List.map_map, Function.comp]

theorem lcaKept_pairwise (M : Nat) (s : Sig) (h : (s.hashes.map (·.1)).Pairwise (· < ·)) :
    (lcaKept M s).Pairwise (· < ·) := List.Pairwise.filter _ h

/-! ### the index recomputation on JSON load -/

theorem foldl_max_range (n : Nat) : (List.range n).foldl max 0 = n - 1 := by
  induction n with
  | zero => rfl
  | succ k ih =>
    rw [List.range_succ, List.foldl_append, ih]
    simp only [List.foldl_cons, List.foldl_nil]
    omega

/-- saving to JSON and loading back changes nothing (the recomputed `_next_index` is the old one) -/
theorem saveLoad_eq (db : LcaDb) (ents : Ents) (inv : LcaInv db ents) : db.saveLoad = db := by
  unfold LcaDb.saveLoad
  have h1 : db.identToIdx.map (·.2) = List.range ents.length := by
    rw [inv.idx, List.map_map]
    have : ((fun x : Nat × Nat => x.2) ∘ fun e : Nat × Sig => (e.2.name, e.1)) = fun e => e.1 := rfl
    rw [this, inv.idxRange]
  have h2 : db.identToIdx.isEmpty = ents.isEmpty := by
    rw [inv.idx]; cases ents <;> rfl
  rw [h1, h2, foldl_max_range]
  cases hents : ents with
  | nil =>
    have := inv.len; rw [hents] at this
    cases db; simp only at this ⊢; simp [this]
  | cons e t =>
    have := inv.len; rw [hents] at this
    cases db; simp only [List.length_cons] at this ⊢; simp [this]

end Sm.Storage
