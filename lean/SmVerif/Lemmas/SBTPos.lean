/-
Position arithmetic of the SBT (`parent`, `child`, `ancestors`) and the position-keyed maps.
-/
import SmVerif.Model.SBT

namespace Sm.SBT

/-! ### parent / child -/

theorem parent_child {d p i : Nat} (hi : i < d) : parent d (child d p i) = p := by
  unfold parent child
  have : d * p + i + 1 - 1 = i + p * d := by rw [Nat.add_sub_cancel, Nat.mul_comm]; omega
  rw [this, Nat.add_mul_div_right _ _ (by omega : 0 < d), Nat.div_eq_of_lt hi]; omega

theorem child_gt (d p i : Nat) (hd : 1 ≤ d) : p < child d p i := by
  unfold child
  have : p ≤ d * p := Nat.le_mul_of_pos_left p hd
  omega

theorem parent_lt {d p : Nat} (hp : 0 < p) : parent d p < p := by
  unfold parent
  exact Nat.lt_of_le_of_lt (Nat.div_le_self _ _) (by omega)

/-- every non-root position is the `(p-1) % d`-th child of its parent -/
theorem child_parent {d p : Nat} (hd : 0 < d) (hp : 0 < p) :
    child d (parent d p) ((p - 1) % d) = p ∧ (p - 1) % d < d := by
  refine ⟨?_, Nat.mod_lt _ hd⟩
  unfold child parent
  have := Nat.div_add_mod (p - 1) d
  omega

theorem child_inj {d p q i j : Nat} (hi : i < d) (hj : j < d) (h : child d p i = child d q j) :
    p = q ∧ i = j := by
  have hp : parent d (child d p i) = p := parent_child hi
  have hq : parent d (child d q j) = q := parent_child hj
  have hpq : p = q := by rw [← hp, ← hq, h]
  subst hpq
  refine ⟨rfl, ?_⟩
  unfold child at h; omega

theorem parent_le_of_le {d p q : Nat} (h : p ≤ q) : parent d p ≤ parent d q := by
  unfold parent
  exact Nat.div_le_div_right (by omega)

/-! ### ancestors -/

theorem ancestorsF_fuel (d : Nat) : ∀ (f g p : Nat), p ≤ f → p ≤ g → ancestorsF f d p = ancestorsF g d p := by
  intro f
  induction f with
  | zero =>
    intro g p hp _
    have : p = 0 := by omega
    subst this
    cases g <;> simp [ancestorsF]
  | succ f ih =>
    intro g p hp hg
    cases g with
    | zero =>
      have : p = 0 := by omega
      subst this; simp [ancestorsF]
    | succ g =>
      simp only [ancestorsF]
      split
      · rfl
      · rename_i hp0
        have hlt : parent d p < p := parent_lt (Nat.pos_of_ne_zero hp0)
        rw [ih g (parent d p) (by omega) (by omega)]

theorem ancestors_zero (d : Nat) : ancestors d 0 = [] := rfl

theorem ancestors_pos {d p : Nat} (hp : 0 < p) :
    ancestors d p = parent d p :: ancestors d (parent d p) := by
  unfold ancestors
  cases p with
  | zero => omega
  | succ p =>
    simp only [ancestorsF, Nat.succ_ne_zero, ↓reduceIte]
    have hlt : parent d (p + 1) < p + 1 := parent_lt (by omega)
    rw [ancestorsF_fuel d p (parent d (p + 1)) _ (by omega) (Nat.le_refl _)]

theorem ancestors_child {d p i : Nat} (hi : i < d) :
    ancestors d (child d p i) = p :: ancestors d p := by
  rw [ancestors_pos (by unfold child; omega), parent_child hi]

theorem mem_ancestors_lt {d : Nat} : ∀ {p a : Nat}, a ∈ ancestors d p → a < p := by
  intro p
  induction p using Nat.strongRecOn with
  | _ p ih =>
    intro a ha
    by_cases hp : p = 0
    · subst hp; simp [ancestors_zero] at ha
    · have hp' : 0 < p := Nat.pos_of_ne_zero hp
      rw [ancestors_pos hp'] at ha
      have hlt := parent_lt (d := d) hp'
      rcases List.mem_cons.mp ha with h | h
      · omega
      · have := ih _ hlt h; omega

/-- going down one level: an ancestor of `p` is the parent or an ancestor of the parent -/
theorem mem_ancestors_iff {d p a : Nat} (hp : 0 < p) :
    a ∈ ancestors d p ↔ a = parent d p ∨ a ∈ ancestors d (parent d p) := by
  rw [ancestors_pos hp]; simp

/-- ancestors are monotone along the chain -/
theorem ancestors_trans {d : Nat} : ∀ {p a b : Nat}, a ∈ ancestors d p → b ∈ ancestors d a →
    b ∈ ancestors d p := by
  intro p
  induction p using Nat.strongRecOn with
  | _ p ih =>
    intro a b ha hb
    by_cases hp : p = 0
    · subst hp; simp [ancestors_zero] at ha
    · have hp' : 0 < p := Nat.pos_of_ne_zero hp
      rw [mem_ancestors_iff hp'] at ha ⊢
      rcases ha with h | h
      · subst h; exact Or.inr hb
      · exact Or.inr (ih _ (parent_lt hp') h hb)

/-- seen from the top: below `a` means at a child of `a` or below a child of `a` -/
theorem below_cases {d : Nat} (hd : 0 < d) : ∀ {p a : Nat}, a ∈ ancestors d p →
    ∃ i, i < d ∧ (p = child d a i ∨ child d a i ∈ ancestors d p) := by
  intro p
  induction p using Nat.strongRecOn with
  | _ p ih =>
    intro a ha
    by_cases hp : p = 0
    · subst hp; simp [ancestors_zero] at ha
    · have hp' : 0 < p := Nat.pos_of_ne_zero hp
      rcases (mem_ancestors_iff hp').mp ha with h | h
      · refine ⟨(p - 1) % d, (child_parent hd hp').2, Or.inl ?_⟩
        rw [h]; exact (child_parent hd hp').1.symm
      · obtain ⟨i, hi, hc⟩ := ih _ (parent_lt hp') h
        refine ⟨i, hi, Or.inr ?_⟩
        rw [mem_ancestors_iff hp']
        rcases hc with hc | hc
        · exact Or.inl hc.symm
        · exact Or.inr hc

/-! ### PMap -/

namespace PMap
variable {α : Type}

theorem get?_nil (p : Nat) : get? ([] : PMap α) p = none := rfl

theorem get?_cons (k : Nat) (v : α) (r : PMap α) (p : Nat) :
    get? ((k, v) :: r) p = if k = p then some v else get? r p := rfl

theorem get?_erase (m : PMap α) (p q : Nat) :
    get? (erase m p) q = if q = p then none else get? m q := by
  induction m with
  | nil => simp [erase, get?_nil]
  | cons kv r ih =>
    obtain ⟨k, v⟩ := kv
    unfold erase at ih ⊢
    simp only [List.filter_cons]
    by_cases hk : k = p
    · subst hk
      simp only [ne_eq, not_true_eq_false, decide_false, Bool.false_eq_true, ↓reduceIte, ih, get?_cons]
      by_cases hq : q = k
      · simp [hq]
      · simp [hq]; intro h; exact absurd h.symm hq
    · simp only [ne_eq, hk, not_false_eq_true, decide_true, ↓reduceIte, get?_cons, ih]
      by_cases hq : q = p
      · subst hq; simp [hk]
      · simp [hq]

theorem get?_set (m : PMap α) (p : Nat) (v : α) (q : Nat) :
    get? (set m p v) q = if q = p then some v else get? m q := by
  unfold set
  rw [get?_cons, get?_erase]
  by_cases h : q = p
  · subst h; simp
  · have : ¬ p = q := fun e => h e.symm
    simp [h, this]

theorem get?_set_self (m : PMap α) (p : Nat) (v : α) : get? (set m p v) p = some v := by
  rw [get?_set]; simp

theorem get?_set_ne (m : PMap α) {p q : Nat} (v : α) (h : q ≠ p) : get? (set m p v) q = get? m q := by
  rw [get?_set]; simp [h]

theorem mem_get?_isSome {m : PMap α} {p : Nat} {v : α} (h : (p, v) ∈ m) : (get? m p).isSome = true := by
  induction m with
  | nil => simp at h
  | cons kv r ih =>
    obtain ⟨k, w⟩ := kv
    rw [get?_cons]
    by_cases hk : k = p
    · simp [hk]
    · simp only [hk, ↓reduceIte]
      rcases List.mem_cons.mp h with h | h
      · simp only [Prod.mk.injEq] at h; exact absurd h.1.symm hk
      · exact ih h

theorem get?_mem {m : PMap α} {p : Nat} {v : α} (h : get? m p = some v) : (p, v) ∈ m := by
  induction m with
  | nil => simp [get?_nil] at h
  | cons kv r ih =>
    obtain ⟨k, w⟩ := kv
    rw [get?_cons] at h
    by_cases hk : k = p
    · simp only [hk, ↓reduceIte, Option.some.injEq] at h; subst hk; subst h; simp
    · simp only [hk, ↓reduceIte] at h; exact List.mem_cons_of_mem _ (ih h)

theorem mem_keys_iff {m : PMap α} {p : Nat} : p ∈ keys m ↔ (get? m p).isSome = true := by
  constructor
  · intro h
    obtain ⟨kv, hkv, rfl⟩ := List.mem_map.mp h
    exact mem_get?_isSome (v := kv.2) hkv
  · intro h
    obtain ⟨v, hv⟩ := Option.isSome_iff_exists.mp h
    exact List.mem_map.mpr ⟨(p, v), get?_mem hv, rfl⟩

theorem mem_erase {m : PMap α} {p : Nat} {kv : Nat × α} :
    kv ∈ erase m p ↔ kv ∈ m ∧ kv.1 ≠ p := by
  unfold erase; simp

theorem mem_set {m : PMap α} {p : Nat} {v : α} {kv : Nat × α} :
    kv ∈ set m p v ↔ kv = (p, v) ∨ (kv ∈ m ∧ kv.1 ≠ p) := by
  unfold set; rw [List.mem_cons, mem_erase]

theorem has_iff {m : PMap α} {p : Nat} : has m p = true ↔ (get? m p).isSome = true := Iff.rfl

theorem isEmpty_iff {m : PMap α} : List.isEmpty m = true ↔ ∀ p, get? m p = none := by
  cases m with
  | nil => simp [get?_nil]
  | cons kv r =>
    obtain ⟨k, v⟩ := kv
    simp only [List.isEmpty_cons, Bool.false_eq_true, false_iff]
    intro h
    have := h k
    simp [get?_cons] at this

end PMap

/-! ### listMin / listMax -/

theorem foldl_max_ge (l : List Nat) (x : Nat) : x ≤ l.foldl max x ∧ ∀ y ∈ l, y ≤ l.foldl max x := by
  induction l generalizing x with
  | nil => simp
  | cons z zs ih =>
    simp only [List.foldl_cons, List.mem_cons, forall_eq_or_imp]
    have h := ih (max x z)
    refine ⟨by omega, by omega, h.2⟩

theorem foldl_max_mem (l : List Nat) (x : Nat) : l.foldl max x = x ∨ l.foldl max x ∈ l := by
  induction l generalizing x with
  | nil => simp
  | cons z zs ih =>
    simp only [List.foldl_cons, List.mem_cons]
    rcases ih (max x z) with h | h
    · rw [h]; rcases Nat.le_total x z with hxz | hxz
      · right; left; exact Nat.max_eq_right hxz
      · left; exact Nat.max_eq_left hxz
    · right; right; exact h

theorem foldl_min_le (l : List Nat) (x : Nat) : l.foldl min x ≤ x ∧ ∀ y ∈ l, l.foldl min x ≤ y := by
  induction l generalizing x with
  | nil => simp
  | cons z zs ih =>
    simp only [List.foldl_cons, List.mem_cons, forall_eq_or_imp]
    have h := ih (min x z)
    refine ⟨by omega, by omega, h.2⟩

theorem foldl_min_mem (l : List Nat) (x : Nat) : l.foldl min x = x ∨ l.foldl min x ∈ l := by
  induction l generalizing x with
  | nil => simp
  | cons z zs ih =>
    simp only [List.foldl_cons, List.mem_cons]
    rcases ih (min x z) with h | h
    · rw [h]; rcases Nat.le_total x z with hxz | hxz
      · left; exact Nat.min_eq_left hxz
      · right; left; exact Nat.min_eq_right hxz
    · right; right; exact h

/-- `listMax` of a list whose members are exactly described -/
theorem listMax_eq {l : List Nat} {M : Nat} (hm : M ∈ l) (hle : ∀ y ∈ l, y ≤ M) : listMax l = M := by
  cases l with
  | nil => simp at hm
  | cons x xs =>
    show xs.foldl max x = M
    have h1 := foldl_max_ge xs x
    have h2 := foldl_max_mem xs x
    have hM : M ≤ xs.foldl max x := by
      rcases List.mem_cons.mp hm with h | h
      · rw [h]; exact h1.1
      · exact h1.2 _ h
    have : xs.foldl max x ≤ M := by
      rcases h2 with h | h
      · rw [h]; exact hle _ (List.mem_cons_self)
      · exact hle _ (List.mem_cons_of_mem _ h)
    omega

theorem listMin_eq {l : List Nat} {m : Nat} (hm : m ∈ l) (hle : ∀ y ∈ l, m ≤ y) : listMin l = m := by
  cases l with
  | nil => simp at hm
  | cons x xs =>
    show xs.foldl min x = m
    have h1 := foldl_min_le xs x
    have h2 := foldl_min_mem xs x
    have hM : xs.foldl min x ≤ m := by
      rcases List.mem_cons.mp hm with h | h
      · rw [h]; exact h1.1
      · exact h1.2 _ h
    have : m ≤ xs.foldl min x := by
      rcases h2 with h | h
      · rw [h]; exact hle _ (List.mem_cons_self)
      · exact hle _ (List.mem_cons_of_mem _ h)
    omega

end Sm.SBT
