/-
`find_lca(build_tree(L))` meets the specification `IsLca`, and `IsLca` determines
its answer (so the answer depends on the *set* of lineages only).
-/
import SmVerif.Lemmas.LineageTree

namespace Sm.Lin

open Tree

theorem WF_buildTreeFrom (ls : List Lineage) {t : Tree Key} (h : t.WF) : (buildTreeFrom t ls).WF := by
  induction ls generalizing t with
  | nil => exact h
  | cons l ls ih =>
    simp only [buildTreeFrom, List.foldl_cons]
    exact ih (WF_insertPath _ h)

/-- the paths of `build_tree(ls, initial = t)` -/
theorem hasPath_buildTreeFrom (ls : List Lineage) (t : Tree Key) (q : List Key) :
    HasPath (buildTreeFrom t ls) q ↔ HasPath t q ∨ ∃ l ∈ ls, q <+: canon l := by
  induction ls generalizing t with
  | nil => simp [buildTreeFrom]
  | cons l ls ih =>
    simp only [buildTreeFrom, List.foldl_cons]
    have := ih (t.insertPath (canon l))
    simp only [buildTreeFrom] at this
    rw [this, hasPath_insertPath]
    simp only [List.mem_cons, exists_eq_or_imp]
    constructor
    · rintro ((h | h) | h)
      · exact Or.inl h
      · exact Or.inr (Or.inl h)
      · exact Or.inr (Or.inr h)
    · rintro (h | h | h)
      · exact Or.inl (Or.inl h)
      · exact Or.inl (Or.inr h)
      · exact Or.inr h

/-- paths of `build_tree(ls)` for a non-empty `ls`: the prefixes of the named parts -/
theorem hasPath_lcaTree {ls : List Lineage} (hne : ls ≠ []) (q : List Key) :
    HasPath (buildTreeFrom .nil ls) q ↔ ∃ l ∈ ls, q <+: canon l := by
  rw [hasPath_buildTreeFrom, hasPath_nil_tree]
  constructor
  · rintro (h | h)
    · subst h
      cases ls with
      | nil => exact absurd rfl hne
      | cons l ls => exact ⟨l, by simp, List.nil_prefix⟩
    · exact h
  · intro h; exact Or.inr h

/-- `find_lca(build_tree(ls))` is the lowest common ancestor of the named parts of `ls` -/
theorem findLca_isLca {ls : List Lineage} (hne : ls ≠ []) :
    IsLca (ls.map canon) (lcaOf ls).1 (lcaOf ls).2 := by
  unfold lcaOf
  have hwf : (buildTreeFrom .nil ls).WF := WF_buildTreeFrom ls trivial
  obtain ⟨h1, h2, h3, h4⟩ := findLca_spec (buildTreeFrom .nil ls)
  refine ⟨?_, ?_, ?_, h4⟩
  · rw [hasPath_lcaTree hne] at h1
    obtain ⟨l, hl, hp⟩ := h1
    exact ⟨canon l, List.mem_map.mpr ⟨l, hl, rfl⟩, hp⟩
  · intro l hl
    obtain ⟨l0, hl0, rfl⟩ := List.mem_map.mp hl
    exact h2 _ ((hasPath_lcaTree hne _).mpr ⟨l0, hl0, List.prefix_refl _⟩)
  · refine ⟨(sub (buildTreeFrom .nil ls) (buildTreeFrom .nil ls).findLca.1).keys,
      keys_nodup_of_WF (WF_sub hwf _), ?_, ?_⟩
    · rw [h3, size_eq_length_keys]
    · intro k
      rw [keys_sub_iff h1, hasPath_lcaTree hne]
      constructor
      · rintro ⟨l, hl, hp⟩
        exact ⟨canon l, List.mem_map.mpr ⟨l, hl, rfl⟩, hp⟩
      · rintro ⟨l, hl, hp⟩
        obtain ⟨l0, hl0, rfl⟩ := List.mem_map.mp hl
        exact ⟨l0, hl0, hp⟩

section Unique

variable {κ : Type}

theorem isLca_path_unique {Ls : List (List κ)} {p p' : List κ} {r r' : Nat}
    (h : IsLca Ls p r) (h' : IsLca Ls p' r') : p = p' := by
  -- p and p' are comparable
  obtain ⟨l', hl', hp'⟩ := h'.onPath
  obtain ⟨l, hl, hp⟩ := h.onPath
  have hcmp : p <+: p' ∨ p' <+: p := by
    rcases h.comparable l' hl' with hc | hc
    · exact Or.inr (List.IsPrefix.trans hp' hc)
    · exact prefix_comparable hc hp'
  -- a proper prefix would have exactly one continuation
  have key : ∀ {a b : List κ} {ra rb : Nat}, IsLca Ls a ra → IsLca Ls b rb → a <+: b → a = b := by
    intro a b ra rb ha hb hab
    by_cases hlen : a.length < b.length
    · exfalso
      obtain ⟨k, hk⟩ := snoc_prefix_of_lt hab hlen
      obtain ⟨lb, hlb, hblb⟩ := hb.onPath
      obtain ⟨ks, hnd, hlenks, hmem⟩ := ha.ext
      have hk_in : k ∈ ks := (hmem k).mpr ⟨lb, hlb, List.IsPrefix.trans hk hblb⟩
      -- every continuation equals k
      have hall : ∀ k' ∈ ks, k' = k := by
        intro k' hk'
        obtain ⟨l2, hl2, hp2⟩ := (hmem k').mp hk'
        rcases hb.comparable l2 hl2 with hc | hc
        · exact snoc_prefix_inj (List.IsPrefix.trans hp2 hc) hk
        · exact snoc_prefix_inj hp2 (List.IsPrefix.trans hk hc)
      -- so ks = [k]
      have : ks.length = 1 := by
        cases ks with
        | nil => simp at hk_in
        | cons x xs =>
          cases xs with
          | nil => rfl
          | cons y ys =>
            exfalso
            have hx := hall x (by simp)
            have hy := hall y (by simp)
            simp only [List.nodup_cons, List.mem_cons, not_or] at hnd
            exact hnd.1.1 (hx.trans hy.symm)
      exact ha.notOne (hlenks ▸ this)
    · exact List.IsPrefix.eq_of_length_le hab (by omega)
  rcases hcmp with hc | hc
  · exact key h h' hc
  · exact (key h' h hc).symm

end Unique

section Unique2

variable {κ : Type}

theorem isLca_unique {Ls : List (List κ)} {p p' : List κ} {r r' : Nat}
    (h : IsLca Ls p r) (h' : IsLca Ls p' r') : p = p' ∧ r = r' := by
  have hp := isLca_path_unique h h'
  subst hp
  refine ⟨rfl, ?_⟩
  obtain ⟨ks, hnd, hlen, hmem⟩ := h.ext
  obtain ⟨ks', hnd', hlen', hmem'⟩ := h'.ext
  rw [← hlen, ← hlen']
  apply List.Perm.length_eq
  rw [List.perm_ext_iff_of_nodup hnd hnd']
  intro a
  rw [hmem, hmem']

theorem IsLca.congr {Ls Ls' : List (List κ)} (hm : ∀ l, l ∈ Ls ↔ l ∈ Ls') {p : List κ} {r : Nat}
    (h : IsLca Ls p r) : IsLca Ls' p r := by
  obtain ⟨l, hl, hp⟩ := h.onPath
  obtain ⟨ks, h1, h2, h3⟩ := h.ext
  refine ⟨⟨l, (hm l).mp hl, hp⟩, fun l hl => h.comparable l ((hm l).mpr hl), ⟨ks, h1, h2, ?_⟩, h.notOne⟩
  intro k
  rw [h3]
  constructor
  · rintro ⟨l, hl, hp⟩; exact ⟨l, (hm l).mp hl, hp⟩
  · rintro ⟨l, hl, hp⟩; exact ⟨l, (hm l).mpr hl, hp⟩

end Unique2

/-- `find_lca(build_tree(·))` depends only on the set of named taxa sequences -/
theorem lcaOf_congr {ls ls' : List Lineage} (hne : ls ≠ []) (hne' : ls' ≠ [])
    (hm : ∀ l, l ∈ ls.map canon ↔ l ∈ ls'.map canon) : lcaOf ls = lcaOf ls' := by
  have h := IsLca.congr hm (findLca_isLca hne)
  have h' := findLca_isLca hne'
  obtain ⟨e1, e2⟩ := isLca_unique h h'
  exact Prod.ext e1 e2

/-- ... in particular of the set of lineages -/
theorem lcaOf_congr_mem {ls ls' : List Lineage} (hne : ls ≠ []) (hne' : ls' ≠ [])
    (hm : ∀ l, l ∈ ls ↔ l ∈ ls') : lcaOf ls = lcaOf ls' := by
  apply lcaOf_congr hne hne'
  intro l
  simp only [List.mem_map]
  constructor
  · rintro ⟨a, ha, rfl⟩; exact ⟨a, (hm a).mp ha, rfl⟩
  · rintro ⟨a, ha, rfl⟩; exact ⟨a, (hm a).mpr ha, rfl⟩

end Sm.Lin
