/-
The handle-table machine of the `mh` stream (`Model/DriverMh.lean`: `exec`, `run`, `step`) and the generic
"a predicate that every model function preserves holds in every cell after every history" argument.

* `All P st`        : `P` holds of every sketch stored in the table (plain handles and signature cells alike)
* `Closed P`        : `P` is preserved by every function of `Model/MinHash.lean` the driver calls
* `all_exec`        : `Closed P → All P st → All P (exec st op).1` for EVERY typed operation
* `all_run`         : … for every history (list of operations), from any table, in particular from `init`
* `lines_run`       : folding the string-level `step` over text lines is `run` over the parsed lines

Instances: `Props/C11.lean` (`CacheInv`), `Lemmas/MhMachineInv.lean` (`Inv ∧ Excl`, C01).
-/
import SmVerif.Model.DriverMh

namespace Sm.DriverMh

open Sm MH

/-! ### the table -/

theorem get_init (i : Nat) : get init i = none := by
  unfold get init
  by_cases h : i < 64
  · simp [h]
  · simp [h]

theorem get_put (st : St) (i j : Nat) (s : MH) :
    get (put st i s) j = if i = j ∧ i < st.size then some s else get st j := by
  unfold get put
  by_cases hij : i = j
  · subst hij
    by_cases hs : i < st.size
    · simp [hs]
    · simp [hs]
  · simp [hij, Array.getElem?_setIfInBounds_ne]

theorem get_put_cases (st : St) (i j : Nat) (s : MH) :
    get (put st i s) j = some s ∨ get (put st i s) j = get st j := by
  rw [get_put]
  split
  · exact Or.inl rfl
  · exact Or.inr rfl

/-- `P` holds of every sketch in the table -/
def All (P : MH → Prop) (st : St) : Prop := ∀ i s, get st i = some s → P s

theorem all_init (P : MH → Prop) : All P init := by
  intro i s h
  rw [get_init] at h
  cases h

theorem All.put {P : MH → Prop} {st : St} (h : All P st) (i : Nat) {s : MH} (hs : P s) :
    All P (put st i s) := by
  intro j t ht
  rcases get_put_cases st i j s with h1 | h1
  · rw [h1] at ht
    cases ht
    exact hs
  · rw [h1] at ht
    exact h j t ht

/-! ### predicates preserved by every model function the driver calls -/

structure Closed (P : MH → Prop) : Prop where
  mkNew : ∀ {n k hf seed mx sc : Nat} {tr : Bool} {r : MH}, Py.mkMinHash n k hf seed tr mx sc = .ok r → P r
  addHash : ∀ {s : MH} (v : Nat), P s → P (s.addHash v)
  pyAddAb : ∀ {s r : MH} {v a : Nat}, P s → Py.addHashWithAbundance s v a = .ok r → P r
  addMany : ∀ {s : MH} (vs : List Nat), P s → P (s.addMany vs)
  addFrom : ∀ {s : MH} (o : MH), P s → P o → P (s.addFrom o)
  removeMany : ∀ {s : MH} (vs : List Nat), P s → P (s.removeMany vs)
  removeFrom : ∀ {s : MH} (o : MH), P s → P o → P (s.removeFrom o)
  setAb : ∀ {s r : MH} {ps : List (Nat × Nat)} {c : Bool}, P s → Py.setAbundances s ps c = .ok r → P r
  clear : ∀ {s : MH}, P s → P s.clear
  merge : ∀ {s o r : MH}, P s → P o → s.merge o = .ok r → P r
  add : ∀ {s o r : MH}, P s → P o → Py.add s o = .ok r → P r
  copy : ∀ {s r : MH}, P s → Py.copy s = .ok r → P r
  pickle : ∀ {s : MH}, P s → P (Py.pickleRoundTrip s)
  downsample : ∀ {s r : MH} {n sc : Option Nat}, P s → Py.downsample s n sc = .ok r → P r
  flatten : ∀ {s r : MH}, P s → Py.flatten s = .ok (some r) → P r
  inter : ∀ {s o s' r : MH}, P s → P o → Py.intersection s o = .ok (s', r) → P s' ∧ P r
  inflate : ∀ {s o r : MH}, P s → P o → Py.inflate s o = .ok r → P r
  md5sum : ∀ {s : MH}, P s → P s.md5sum.1
  clone : ∀ {s : MH}, P s → P s.clone.1 ∧ P s.clone.2

theorem all_finA {P : MH → Prop} {st : St} (h : All P st) (r : Nat) {x : Except MH.Err MH}
    (hx : ∀ s, x = .ok s → P s) : All P (finA st r x).1 := by
  unfold finA
  cases x with
  | error e => exact h
  | ok s => exact h.put r (hx s rfl)

theorem all_showSig {P : MH → Prop} (hc : Closed P) {st : St} (h : All P st) (s : Nat) :
    All P (showSig st s).1 := by
  unfold showSig
  split
  · exact h
  · rename_i cell hcell
    exact h.put _ (hc.clone (hc.clone (h _ _ hcell)).1).1

/-- **one operation**: a closed predicate that holds in every cell still holds in every cell -/
theorem all_exec {P : MH → Prop} (hc : Closed P) {st : St} (h : All P st) (op : Op) :
    All P (exec st op).1 := by
  cases op with
  | unparsed => exact h
  | reset => exact all_init P
  | skip => exact h
  | new r num scaled tr ksize seed => exact all_finA h r (fun s hs => hc.mkNew hs)
  | newmh r num mx tr ksize seed => exact all_finA h r (fun s hs => hc.mkNew hs)
  | add hd v =>
    simp only [exec]
    split
    · rename_i s hs
      exact all_finA h hd (fun t ht => by cases ht; exact hc.addHash v (h _ _ hs))
    · exact h
  | addab hd v a =>
    simp only [exec]
    split
    · rename_i s hs
      exact all_finA h hd (fun t ht => hc.pyAddAb (h _ _ hs) ht)
    · exact h
  | addmany hd vs =>
    simp only [exec]
    split
    · rename_i s hs
      exact all_finA h hd (fun t ht => by cases ht; exact hc.addMany vs (h _ _ hs))
    · exact h
  | addfrom hd g =>
    simp only [exec]
    split
    · rename_i s o hs ho
      exact all_finA h hd (fun t ht => by cases ht; exact hc.addFrom o (h _ _ hs) (h _ _ ho))
    · exact h
  | rm hd vs =>
    simp only [exec]
    split
    · rename_i s hs
      exact all_finA h hd (fun t ht => by cases ht; exact hc.removeMany vs (h _ _ hs))
    · exact h
  | rmfrom hd g =>
    simp only [exec]
    split
    · rename_i s o hs ho
      exact all_finA h hd (fun t ht => by cases ht; exact hc.removeFrom o (h _ _ hs) (h _ _ ho))
    · exact h
  | setab hd c ps =>
    simp only [exec]
    split
    · rename_i s hs
      exact all_finA h hd (fun t ht => hc.setAb (h _ _ hs) ht)
    · exact h
  | clear hd =>
    simp only [exec]
    split
    · rename_i s hs
      exact all_finA h hd (fun t ht => by cases ht; exact hc.clear (h _ _ hs))
    · exact h
  | merge hd g =>
    simp only [exec]
    split
    · rename_i s o hs ho
      exact all_finA h hd (fun t ht => hc.merge (h _ _ hs) (h _ _ ho) ht)
    · exact h
  | plus r hd g =>
    simp only [exec]
    split
    · rename_i s o hs ho
      exact all_finA h r (fun t ht => hc.add (h _ _ hs) (h _ _ ho) ht)
    · exact h
  | copy r hd =>
    simp only [exec]
    split
    · rename_i s hs
      exact all_finA h r (fun t ht => hc.copy (h _ _ hs) ht)
    · exact h
  | pickle r hd =>
    simp only [exec]
    split
    · rename_i s hs
      exact all_finA h r (fun t ht => by cases ht; exact hc.pickle (h _ _ hs))
    · exact h
  | down r hd sc =>
    simp only [exec]
    split
    · rename_i s hs
      exact all_finA h r (fun t ht => hc.downsample (h _ _ hs) ht)
    · exact h
  | downnum r hd n =>
    simp only [exec]
    split
    · rename_i s hs
      exact all_finA h r (fun t ht => hc.downsample (h _ _ hs) ht)
    · exact h
  | flat r hd =>
    simp only [exec]
    split
    · rename_i s hs
      split
      · rename_i f hf
        exact all_finA h r (fun t ht => by cases ht; exact hc.flatten (h _ _ hs) hf)
      · exact all_finA h r (fun t ht => by cases ht; exact h _ _ hs)
      · exact all_finA h r (fun t ht => by cases ht)
    · exact h
  | inter r hd g =>
    simp only [exec]
    split
    · rename_i s o hs ho
      split
      · rename_i s' n hi
        have := hc.inter (h _ _ hs) (h _ _ ho) hi
        exact all_finA (h.put hd this.1) r (fun t ht => by cases ht; exact this.2)
      · exact all_finA h r (fun t ht => by cases ht)
    · exact h
  | inflate r hd g =>
    simp only [exec]
    split
    · rename_i s o hs ho
      exact all_finA h r (fun t ht => hc.inflate (h _ _ hs) (h _ _ ho) ht)
    · exact h
  | md5raw hd =>
    simp only [exec]
    split
    · rename_i s hs
      exact h.put hd (hc.md5sum (h _ _ hs))
    · exact h
  | md5 hd =>
    simp only [exec]
    split
    · rename_i s hs
      exact h.put hd (hc.clone (h _ _ hs)).1
    · exact h
  | cc hd g ds =>
    simp only [exec]
    split
    · split <;> exact h
    · exact h
  | iu hd g =>
    simp only [exec]
    split
    · split
      · exact h
      · split <;> exact h
    · exact h
  | «show» hd =>
    simp only [exec]
    split <;> exact h
  | sig s hd =>
    simp only [exec]
    split
    · rename_i src hsrc
      have := hc.clone (h _ _ hsrc)
      exact all_showSig hc ((h.put hd this.1).put _ this.2) s
    · exact h
  | sigsetmh s hd =>
    simp only [exec]
    split
    · rename_i c src hcell hsrc
      have := hc.clone (h _ _ hsrc)
      exact all_showSig hc ((h.put hd this.1).put _ this.2) s
    · exact h
  | sigmd5 s =>
    simp only [exec]
    split
    · exact all_showSig hc h s
    · exact h
  | sigadd s bytes force =>
    simp only [exec]
    split
    · rename_i cell hcell
      have h' := h.put (sigSlot s) (hc.addMany (sigHashes cell bytes force).1 (h _ _ hcell))
      split
      · exact h'
      · exact all_showSig hc h' s
    · exact h
  | sigcopy r s =>
    simp only [exec]
    split
    · rename_i cell hcell
      have := hc.clone (h _ _ hcell)
      exact all_showSig hc ((h.put _ this.1).put _ this.2) r
    · exact h
  | addseq hd bytes force =>
    simp only [exec]
    split
    · rename_i s hs
      have h' := h.put hd (hc.addMany (sigHashes s bytes force).1 (h _ _ hs))
      split <;> exact h'
    · exact h

/-! ### histories -/

theorem run_nil (st : St) : run st [] = (st, []) := rfl

theorem run_cons (st : St) (op : Op) (ops : List Op) :
    run st (op :: ops) = ((run (exec st op).1 ops).1, (exec st op).2 :: (run (exec st op).1 ops).2) := rfl

/-- **every history**: a closed predicate holds in every cell after any list of operations -/
theorem all_run {P : MH → Prop} (hc : Closed P) (ops : List Op) {st : St} (h : All P st) :
    All P (run st ops).1 := by
  induction ops generalizing st with
  | nil => exact h
  | cons op ops ih =>
    rw [run_cons]
    exact ih (all_exec hc h op)

theorem run_append (st : St) (xs ys : List Op) :
    run st (xs ++ ys) = ((run (run st xs).1 ys).1, (run st xs).2 ++ (run (run st xs).1 ys).2) := by
  induction xs generalizing st with
  | nil => rfl
  | cons x xs ih => simp only [List.cons_append, run_cons, ih]

/-- the string-level driver, folded over the lines of a case -/
def stepLines (st : St) : List String → St × List String
  | [] => (st, [])
  | l :: ls =>
    let r := step st l
    let rest := stepLines r.1 ls
    (rest.1, r.2 :: rest.2)

/-- what the driver prints for a list of lines is the rendering of `run` on the parsed lines -/
theorem lines_run (st : St) (lines : List String) :
    stepLines st lines = ((run st (lines.map parseD)).1, (run st (lines.map parseD)).2.map render) := by
  induction lines generalizing st with
  | nil => rfl
  | cons l ls ih =>
    simp only [stepLines, List.map_cons, run_cons, step, ih]

/-! ### the trace of a history: post-state, operation and answer of every step -/

def trace (st : St) : List Op → List (St × Op × Ans)
  | [] => []
  | op :: ops => ((exec st op).1, op, (exec st op).2) :: trace (exec st op).1 ops

theorem trace_answers (st : St) (ops : List Op) : (trace st ops).map (fun t => t.2.2) = (run st ops).2 := by
  induction ops generalizing st with
  | nil => rfl
  | cons op ops ih => simp only [trace, List.map_cons, run_cons, ih]

theorem trace_length (st : St) (ops : List Op) : (trace st ops).length = ops.length := by
  induction ops generalizing st with
  | nil => rfl
  | cons op ops ih => simp only [trace, List.length_cons, ih]

/-- a property of single steps that holds from every table satisfying a closed predicate holds at every step of
every history -/
theorem trace_forall {P : MH → Prop} (hc : Closed P) {Q : St → Op → Ans → Prop}
    (hq : ∀ st op, All P st → Q (exec st op).1 op (exec st op).2)
    (ops : List Op) {st : St} (h : All P st) : ∀ t ∈ trace st ops, All P t.1 ∧ Q t.1 t.2.1 t.2.2 := by
  induction ops generalizing st with
  | nil => intro t ht; cases ht
  | cons op ops ih =>
    intro t ht
    simp only [trace, List.mem_cons] at ht
    rcases ht with rfl | ht
    · exact ⟨all_exec hc h op, hq st op h⟩
    · exact ih (all_exec hc h op) t ht

/-- what the driver prints, line by line, is the rendering of the trace's answers -/
theorem lines_trace (st : St) (lines : List String) :
    (stepLines st lines).2 = (trace st (lines.map parseD)).map (fun t => render t.2.2) := by
  rw [lines_run]
  simp only [← trace_answers, List.map_map]
  rfl

theorem put_size (st : St) (i : Nat) (s : MH) : (put st i s).size = st.size := by
  unfold put; simp

theorem lt_size_of_get {st : St} {i : Nat} {s : MH} (h : get st i = some s) : i < st.size := by
  unfold get at h
  by_cases hi : i < st.size
  · exact hi
  · simp [hi] at h

theorem get_put_self {st : St} {i : Nat} (s : MH) (h : i < st.size) : get (put st i s) i = some s := by
  rw [get_put]; simp [h]

end Sm.DriverMh
