/-
C12 helper lemmas: the declarative meaning `Sat` of a criteria record, the reference predicate
against it, the manifest-row and SQL paths against the reference predicate, `filterE`.
-/
import SmVerif.Lemmas.SelectEval

namespace Sm.Select

open Sm.Gen (SelParam SelAttr SelExpr SelStmt StrOp PreFn Coltype PickSrc)

/-- a sketch is a num sketch or a scaled sketch, never both, never neither (`MinHash.__init__`) -/
def WF (s : Sig) : Prop := (s.num = 0 ∧ s.scaled ≠ 0) ∨ (s.num ≠ 0 ∧ s.scaled = 0)

/-- what the statement calls "satisfies the criteria": k-mer size, molecule type, scaled-or-num kind
    (a num request names the num), abundance when required, containment capability (= scaled), picklist -/
def Sat (c : Crit) (s : Sig) : Bool :=
  !c.ksizeBad s.ksize && !c.molBad s.mol
    && (!(c.scaledV != 0 || c.cont) || (s.scaled != 0 && s.num == 0))
    && (c.numV == 0 || (c.numV == s.num && s.scaled == 0))
    && (!c.abundReq || s.abund)
    && (match c.picklist with
        | some pl => pl.hasSig s
        | none => true)

/-- `select_signature` raises for `containment` without `scaled` -/
def Crit.incoherent (c : Crit) : Bool := c.cont && c.scaledV == 0

theorem selectSignature_spec {s : Sig} (c : Crit) (hwf : WF s) :
    selectSignature s c =
      if c.ksizeBad s.ksize || c.molBad s.mol then .ok false
      else if c.incoherent then .error .value
      else .ok (Sat c s) := by
  rw [selectSignature_eq_ref]
  unfold refSel Sat Crit.incoherent WF at *
  cases h1 : c.ksizeBad s.ksize <;> simp
  cases h2 : c.molBad s.mol <;> simp
  cases h3 : c.cont <;> cases hs : (c.scaledV == 0) <;> cases hs2 : (s.scaled == 0) <;> cases hn : (s.num == 0) <;>
    cases hnv : (c.numV == 0) <;> simp_all
  all_goals
    cases c.abundReq <;> cases s.abund <;> cases hp : c.picklist <;> simp_all
  all_goals first | omega | (by_cases hq : c.numV = s.num <;> simp [hq]) | skip

theorem selectSignature_ok {s : Sig} {c : Crit} {b : Bool} (hwf : WF s) (h : selectSignature s c = .ok b) :
    b = Sat c s := by
  rw [selectSignature_spec c hwf] at h
  by_cases h1 : (c.ksizeBad s.ksize || c.molBad s.mol) = true
  · rw [if_pos h1] at h
    injection h with h
    subst h
    unfold Sat
    rcases Bool.or_eq_true _ _ |>.mp h1 with h2 | h2 <;> simp [h2]
  · rw [if_neg h1] at h
    split at h
    · cases h
    · injection h with h; exact h.symm

theorem selectSignature_error {s : Sig} {c : Crit} {e : Err} (hwf : WF s) (h : selectSignature s c = .error e) :
    e = .value ∧ c.incoherent = true := by
  rw [selectSignature_spec c hwf] at h
  split at h
  · cases h
  · split at h
    · injection h with h; exact ⟨h.symm, by assumption⟩
    · cases h

/-! ### picklists: the row path against the signature path -/

theorem take_take_same (n : Nat) (l : Str) : (l.take n).take n = l.take n := by
  rw [List.take_take]; simp

/-- whenever the row path produces a value at all, it is the value of the signature path -/
theorem rowRaw_pre_eq (ct : Coltype) (s : Sig) (loc : Nat) :
    applyPre (preOf ct) (rowRaw ct (mkRow s loc)) = applyPre (preOf ct) (sigAttr ct s) := by
  cases ct <;> simp [rowRaw, Gen.rowKeyOf, Gen.sigAttrOf, sigAttr, mkRow, preOf, Gen.preprocessOf, applyPre,
    applyOps, applyOp, take_take_same]

/-- the same under whatever preprocessing the picklist carries (an identity override only exists for tuple column types,
    where row and signature hand over the same (name, md5) pair) -/
theorem rowRaw_pre_eq' (pl : Picklist) (s : Sig) (loc : Nat) :
    applyPre pl.pre (rowRaw pl.coltype (mkRow s loc)) = applyPre pl.pre (sigAttr pl.coltype s) := by
  unfold Picklist.pre
  by_cases h : (pl.exactRows && pl.coltype.isMeta) = true
  · rw [if_pos h]
    have hm : pl.coltype.isMeta = true := (Bool.and_eq_true _ _ ▸ h).2
    cases hc : pl.coltype <;> simp [hc, Gen.Coltype.isMeta] at hm <;>
      simp [rowRaw, Gen.rowKeyOf, Gen.sigAttrOf, sigAttr, mkRow]
  · rw [if_neg h]
    exact rowRaw_pre_eq pl.coltype s loc

/-- either variant: whenever the row path produces a value at all, it is the value of the signature path -/
theorem rowValueWith_eq_sig {a : Bool} {ct : Coltype} {s : Sig} {loc : Nat} {v : PVal}
    (h : rowValueWith a ct (mkRow s loc) = .ok v) : v = applyPre (preOf ct) (sigAttr ct s) := by
  unfold rowValueWith rowValueP at h
  by_cases hc : (a && !(rowRaw ct (mkRow s loc)).truthy) = true
  · rw [if_pos hc] at h; cases h
  · rw [if_neg hc] at h
    injection h with h
    rw [← h, rowRaw_pre_eq]

/-- the asserting variant raises exactly when the looked-up column is empty -/
theorem rowValueWith_error_iff (a : Bool) (ct : Coltype) (s : Sig) (loc : Nat) :
    (∃ e, rowValueWith a ct (mkRow s loc) = .error e) ↔
      a = true ∧
        (match Gen.rowKeyOf ct with
         | .pair => False
         | .md5 => s.md5 = []
         | .md5short => s.md5.take 8 = []
         | .name => s.name = []) := by
  unfold rowValueWith rowValueP
  by_cases hc : (a && !(rowRaw ct (mkRow s loc)).truthy) = true
  · rw [if_pos hc]
    simp only [Bool.and_eq_true] at hc
    constructor
    · intro _
      refine ⟨hc.1, ?_⟩
      have h2 := hc.2
      cases ct <;> simp [rowRaw, Gen.rowKeyOf, mkRow, PVal.truthy] at h2 ⊢ <;> exact h2
    · intro _; exact ⟨_, rfl⟩
  · rw [if_neg hc]
    constructor
    · rintro ⟨e, he⟩; cases he
    · rintro ⟨ha, hm⟩
      exfalso
      apply hc
      simp only [Bool.and_eq_true]
      refine ⟨ha, ?_⟩
      cases ct <;> simp [rowRaw, Gen.rowKeyOf, mkRow, PVal.truthy] at hm ⊢ <;> exact hm

/-- the current source (no `assert q`): the row path never raises … -/
theorem rowValueP_total (pre : PreFn) (ct : Coltype) (r : Row) :
    rowValueP Gen.rowValueAsserts pre ct r = .ok (applyPre pre (rowRaw ct r)) := by
  simp [rowValueP, Gen.rowValueAsserts]

theorem rowValue_total (ct : Coltype) (r : Row) : rowValue ct r = .ok (applyPre (preOf ct) (rowRaw ct r)) :=
  rowValueP_total _ ct r

/-- … and answers what the signature path answers, for every signature, named or not -/
theorem matchesRow_total (pl : Picklist) (s : Sig) (loc : Nat) :
    pl.matchesRow (mkRow s loc) = .ok (pl.hasSig s) := by
  unfold Picklist.matchesRow Picklist.hasSig
  rw [rowValueP_total, rowRaw_pre_eq']

theorem matchesRow_ok (pl : Picklist) (r : Row) : ∃ b, pl.matchesRow r = .ok b := by
  unfold Picklist.matchesRow
  rw [rowValueP_total]
  exact ⟨_, rfl⟩

/-! ### the manifest row filter against `Sat` -/

/-- the picklist-free part of `Sat` -/
def satCore (c : Crit) (s : Sig) : Bool :=
  !c.ksizeBad s.ksize && !c.molBad s.mol
    && (!(c.scaledV != 0 || c.cont) || (s.scaled != 0 && s.num == 0))
    && (c.numV == 0 || (c.numV == s.num && s.scaled == 0))
    && (!c.abundReq || s.abund)

def plOk (c : Crit) (s : Sig) : Bool :=
  match c.picklist with
  | some pl => pl.hasSig s
  | none => true

theorem Sat_eq (c : Crit) (s : Sig) : Sat c s = (satCore c s && plOk c s) := rfl

/-- the picklist-free part of the row filter -/
def rowCore (r : Row) (c : Crit) : Bool :=
  !c.ksizeBad r.ksize && !c.molBad r.mol
    && !((c.scaledV != 0 || c.cont) && !(r.scaled != 0 && r.num == 0))
    && !(c.numV != 0 && !(c.numV == r.num && r.scaled == 0))
    && !(c.abundReq && !r.withAbund)

theorem refRow_eq (r : Row) (c : Crit) :
    refRow r c = if rowCore r c then (match c.picklist with
      | some pl => pl.matchesRow r
      | none => .ok true) else .ok false := by
  unfold refRow rowCore
  cases c.ksizeBad r.ksize <;> cases c.molBad r.mol <;>
    cases ((c.scaledV != 0 || c.cont) && !(r.scaled != 0 && r.num == 0)) <;>
    cases (c.numV != 0 && !(c.numV == r.num && r.scaled == 0)) <;> cases (c.abundReq && !r.withAbund) <;> rfl

/-- with the num compared by value the row filter is the reference filter, clause for clause -/
theorem rowCore_eq_satCore (s : Sig) (c : Crit) (loc : Nat) : rowCore (mkRow s loc) c = satCore c s := by
  unfold rowCore satCore mkRow
  simp only [bne]
  cases c.ksizeBad s.ksize <;> cases c.molBad s.mol <;> cases c.cont <;> cases c.abundReq <;> cases s.abund <;>
    cases (c.scaledV == 0) <;> cases (s.scaled == 0) <;> cases (s.num == 0) <;>
    cases (c.numV == 0) <;> cases (c.numV == s.num) <;> rfl

/-- a manifest row made from `s` passes `CollectionManifest._select` iff `s` satisfies the request; never raises -/
theorem rowPasses_total (s : Sig) (c : Crit) (loc : Nat) : rowPasses (mkRow s loc) c = .ok (Sat c s) := by
  rw [rowPasses_eq_ref, refRow_eq, rowCore_eq_satCore, Sat_eq]
  cases hc : satCore c s <;> simp
  unfold plOk
  cases hp : c.picklist <;> simp [matchesRow_total]

end Sm.Select
