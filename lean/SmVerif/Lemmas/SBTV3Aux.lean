/-
Helpers for `SBTV3` (index version 3): position arithmetic around one `_fill_up` step, `removeFirst` on a
duplicate-free queue, `sortDesc`, duplicate-free leaf keys of insertion-built trees, the fold of
`fill_min_n_below`.
-/
import SmVerif.Lemmas.SBTFinal

namespace Sm.SBT

open Sm.NG

/-! ### position arithmetic -/

theorem parent_lt_of_le_mul {d m c : Nat} (hd : 0 < d) (hc : 0 < c) (h : c ≤ d * m) : parent d c < m := by
  unfold parent
  rw [Nat.div_lt_iff_lt_mul hd, Nat.mul_comm]
  omega

/-- `c` lies in the block of children of its parent -/
theorem child_block {d c : Nat} (hd : 0 < d) (hc : 0 < c) :
    d * parent d c + 1 ≤ c ∧ c ≤ d * parent d c + d := by
  obtain ⟨h1, h2⟩ := child_parent (d := d) hd hc
  unfold child at h1
  omega

theorem mem_sibs_iff {d pp x : Nat} :
    x ∈ (List.range d).map (child d pp) ↔ (d * pp + 1 ≤ x ∧ x ≤ d * pp + d) := by
  rw [List.mem_map]
  constructor
  · rintro ⟨i, hi, rfl⟩
    have := List.mem_range.mp hi
    unfold child; omega
  · rintro ⟨h1, h2⟩
    refine ⟨x - (d * pp + 1), List.mem_range.mpr (by omega), ?_⟩
    unfold child; omega

/-- the children of a child of `pp` all lie above every child of `pp` -/
theorem grandchild_gt {d pp y c : Nat} (hd : 0 < d) (hy : d * pp + 1 ≤ y) (hc : c ≤ d * pp + d) :
    c < child d y 0 := by
  unfold child
  have h1 : d * (d * pp + 1) ≤ d * y := Nat.mul_le_mul_left _ hy
  have h2 : d * pp ≤ d * (d * pp) := Nat.le_mul_of_pos_left _ hd
  rw [Nat.mul_add] at h1
  omega

theorem child_zero_mono {d x y : Nat} (h : x ≤ y) : child d x 0 ≤ child d y 0 := by
  unfold child
  have := Nat.mul_le_mul_left d h
  omega

theorem le_parent_of_child_zero_le {d p c : Nat} (hd : 0 < d) (h : child d p 0 ≤ c) : p ≤ parent d c := by
  have := parent_le_of_le (d := d) h
  rwa [parent_child hd] at this

/-! ### `removeFirst` on a duplicate-free list -/

theorem removeFirst_eq_filter (x : Nat) : ∀ {q : List Nat}, q.Nodup → removeFirst x q = q.filter (fun y => y != x) := by
  intro q
  induction q with
  | nil => intro _; rfl
  | cons y ys ih =>
    intro hq
    obtain ⟨hy, hys⟩ := List.nodup_cons.mp hq
    unfold removeFirst
    by_cases hyx : y = x
    · subst hyx
      simp only [↓reduceIte, List.filter_cons, bne_self_eq_false, Bool.false_eq_true]
      symm
      rw [List.filter_eq_self]
      intro a ha
      simp only [bne_iff_ne, ne_eq]
      intro e; subst e; exact hy ha
    · simp only [hyx, ↓reduceIte, List.filter_cons, bne_iff_ne, ne_eq, not_false_eq_true]
      rw [ih hys]

theorem foldl_removeFirst_eq_filter : ∀ (sibs : List Nat) {q : List Nat}, q.Nodup →
    sibs.foldl (fun q s => removeFirst s q) q = q.filter (fun y => !sibs.contains y) := by
  intro sibs
  induction sibs with
  | nil =>
    intro q _
    simp only [List.foldl_nil, List.contains_nil, Bool.not_false]
    exact (List.filter_eq_self.mpr (fun _ _ => rfl)).symm
  | cons s ss ih =>
    intro q hq
    rw [List.foldl_cons, removeFirst_eq_filter s hq, ih (List.Nodup.sublist List.filter_sublist hq), List.filter_filter]
    congr 1
    funext y
    simp only [List.contains_cons, Bool.not_or]
    cases h : y == s <;> simp [bne, h]

/-! ### `sortDesc` -/

theorem mem_sortDesc_ins {x y : Nat} : ∀ {l : List Nat}, y ∈ sortDesc.ins x l ↔ (y = x ∨ y ∈ l) := by
  intro l
  induction l with
  | nil => simp [sortDesc.ins]
  | cons z zs ih =>
    simp only [sortDesc.ins]
    split
    · simp
    · simp only [List.mem_cons, ih]
      constructor
      · rintro (h | h | h)
        · exact Or.inr (Or.inl h)
        · exact Or.inl h
        · exact Or.inr (Or.inr h)
      · rintro (h | h | h)
        · exact Or.inr (Or.inl h)
        · exact Or.inl h
        · exact Or.inr (Or.inr h)

theorem sortDesc_ins_sorted {x : Nat} : ∀ {l : List Nat}, l.Pairwise (· > ·) → x ∉ l →
    (sortDesc.ins x l).Pairwise (· > ·) := by
  intro l
  induction l with
  | nil => intro _ _; simp [sortDesc.ins]
  | cons z zs ih =>
    intro hl hx
    obtain ⟨hz, hzs⟩ := List.pairwise_cons.mp hl
    simp only [sortDesc.ins]
    have hxz : x ≠ z := fun e => hx (by simp [e])
    have hxzs : x ∉ zs := fun e => hx (List.mem_cons_of_mem _ e)
    split
    · rename_i hge
      refine List.pairwise_cons.mpr ⟨?_, hl⟩
      intro a ha
      rcases List.mem_cons.mp ha with rfl | ha
      · show x > a; omega
      · have := hz a ha; show x > a; omega
    · rename_i hge
      refine List.pairwise_cons.mpr ⟨?_, ih hzs hxzs⟩
      intro a ha
      rcases mem_sortDesc_ins.mp ha with rfl | ha
      · show z > a; omega
      · exact hz a ha

theorem sortDesc_foldl_spec : ∀ (l acc : List Nat), l.Nodup → acc.Pairwise (· > ·) → (∀ y ∈ l, y ∉ acc) →
    (l.foldl (fun acc x => sortDesc.ins x acc) acc).Pairwise (· > ·) ∧
    ∀ y, y ∈ l.foldl (fun acc x => sortDesc.ins x acc) acc ↔ (y ∈ acc ∨ y ∈ l) := by
  intro l
  induction l with
  | nil => intro acc _ h _; exact ⟨h, fun y => by simp⟩
  | cons x xs ih =>
    intro acc hl hacc hdis
    obtain ⟨hx, hxs⟩ := List.nodup_cons.mp hl
    rw [List.foldl_cons]
    have h1 := sortDesc_ins_sorted hacc (hdis x List.mem_cons_self)
    have h2 : ∀ y ∈ xs, y ∉ sortDesc.ins x acc := by
      intro y hy hmem
      rcases mem_sortDesc_ins.mp hmem with rfl | h
      · exact hx hy
      · exact hdis y (List.mem_cons_of_mem _ hy) h
    obtain ⟨h3, h4⟩ := ih _ hxs h1 h2
    refine ⟨h3, ?_⟩
    intro y
    rw [h4, mem_sortDesc_ins, List.mem_cons]
    constructor
    · rintro ((h | h) | h)
      · exact Or.inr (Or.inl h)
      · exact Or.inl h
      · exact Or.inr (Or.inr h)
    · rintro (h | h | h)
      · exact Or.inl (Or.inr h)
      · exact Or.inl (Or.inl h)
      · exact Or.inr h

theorem sortDesc_sorted {l : List Nat} (h : l.Nodup) : (sortDesc l).Pairwise (· > ·) :=
  (sortDesc_foldl_spec l [] h List.Pairwise.nil (fun _ _ hm => by cases hm)).1

theorem mem_sortDesc {l : List Nat} (h : l.Nodup) {y : Nat} : y ∈ sortDesc l ↔ y ∈ l := by
  have := (sortDesc_foldl_spec l [] h List.Pairwise.nil (fun _ _ hm => by cases hm)).2 y
  unfold sortDesc
  rw [this]; simp

/-! ### the leaf keys of an insertion-built tree are duplicate-free -/

theorem keys_erase_nodup {α : Type} {m : PMap α} (p : Nat) (h : (PMap.keys m).Nodup) :
    (PMap.keys (PMap.erase m p)).Nodup := by
  unfold PMap.keys PMap.erase
  exact List.Nodup.sublist (List.Sublist.map _ List.filter_sublist) h

theorem not_mem_keys_erase {α : Type} (m : PMap α) (p : Nat) : p ∉ PMap.keys (PMap.erase m p) := by
  intro h
  have := PMap.mem_keys_iff.mp h
  rw [PMap.get?_erase] at this
  simp at this

theorem keys_set_nodup {α : Type} {m : PMap α} (p : Nat) (v : α) (h : (PMap.keys m).Nodup) :
    (PMap.keys (PMap.set m p v)).Nodup := by
  show ((p, v) :: PMap.erase m p).map (·.1) |>.Nodup
  rw [List.map_cons]
  exact List.nodup_cons.mpr ⟨not_mem_keys_erase m p, keys_erase_nodup p h⟩

theorem reach_leaves_nodup {d : Nat} {sizes : List Nat} (hd : 2 ≤ d) (hsz : SizesOK sizes) {t : Tree}
    (h : Reach d sizes t) : (PMap.keys t.leaves).Nodup := by
  induction h with
  | new => exact List.Pairwise.nil
  | @ins t t' fixed pre l hr hadd ih =>
    obtain ⟨⟨hb, hc, hsh⟩, _⟩ := reach_inv hd hsz hr
    rw [addNode_eq_core hsh] at hadd
    rcases hsh with he | ⟨m, M, hs⟩
    · obtain ⟨t2, h1, _, _, _, _, _, _, hl2⟩ := insert_first (fixed := fixed) hb.d2 hb.sizes he l
      rw [h1] at hadd; cases hadd
      rw [hl2]; exact keys_set_nodup _ _ List.Pairwise.nil
    · have hle : parent t.d (M + 1) ≤ m := by
        rw [parent_succ]
        apply Nat.div_le_of_le_mul
        exact hs.Mdm
      rcases Nat.lt_or_eq_of_le hle with hP | hP
      · obtain ⟨t2, h1, _, _, _, _, _, _, hl2⟩ := insert_under_node (fixed := fixed) hb hc hs l hP
        rw [h1] at hadd; cases hadd
        rw [hl2]; exact keys_set_nodup _ _ ih
      · obtain ⟨t2, lm, _, h1, _, _, _, _, _, _, hl2⟩ := insert_under_leaf (fixed := fixed) hb hc hs l hP
        rw [h1] at hadd; cases hadd
        rw [hl2]; exact keys_erase_nodup _ (keys_set_nodup _ _ (keys_set_nodup _ _ ih))

/-! ### folds that only take minima -/

theorem foldl_le_of_mem {α : Type} (f : Nat → α → Nat) (hf : ∀ m a, f m a ≤ m) {a : α} {B : Nat}
    (ha : ∀ m, f m a ≤ B) : ∀ (l : List α) (x : Nat), a ∈ l → l.foldl f x ≤ B := by
  intro l
  induction l with
  | nil => intro x h; cases h
  | cons c l ih =>
    intro x h
    rw [List.foldl_cons]
    rcases List.mem_cons.mp h with rfl | h
    · exact Nat.le_trans (foldl_le_init f hf l _) (ha _)
    · exact ih _ h

theorem one_lt_maxsize : 1 < maxsize := by decide

theorem clamp_lt_maxsize {x : Nat} (h : x < maxsize) : clamp x < maxsize := by
  unfold clamp; split
  · exact one_lt_maxsize
  · exact h

theorem clamp_le_max {x k : Nat} (h : x ≤ max 1 k) : clamp x ≤ max 1 k := by
  unfold clamp; split <;> omega

/-- every proper ancestor of a position of an insertion-shaped tree is an internal position -/
theorem ancestor_lt {d m : Nat} (hd : 0 < d) : ∀ {p a : Nat}, p ≤ d * m → a ∈ ancestors d p → a < m := by
  intro p
  induction p using Nat.strongRecOn with
  | _ p ih =>
    intro a hp ha
    by_cases hp0 : p = 0
    · subst hp0; simp [ancestors_zero] at ha
    · have hp' : 0 < p := Nat.pos_of_ne_zero hp0
      rcases (mem_ancestors_iff hp').mp ha with h | h
      · rw [h]; exact parent_lt_of_le_mul hd hp' hp
      · have hlt := parent_lt (d := d) hp'
        exact ih _ hlt (by omega) h

end Sm.SBT
