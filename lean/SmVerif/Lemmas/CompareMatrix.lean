/-
Helper lemmas for C16 (`Model/CompareMatrix.lean`): matrices as lists of rows,
write lists, `Except` folds, `imap` chunking.
-/
import SmVerif.Model.CompareMatrix

namespace Sm.Compare

/-- `Except` has no `DecidableEq` in core; needed for the `decide`d examples only -/
instance decEqExcept {ε β : Type} [DecidableEq ε] [DecidableEq β] : DecidableEq (Except ε β)
  | .ok a, .ok b => if h : a = b then isTrue (by rw [h]) else isFalse (fun e => h (Except.ok.inj e))
  | .error a, .error b => if h : a = b then isTrue (by rw [h]) else isFalse (fun e => h (Except.error.inj e))
  | .ok _, .error _ => isFalse (fun e => by cases e)
  | .error _, .ok _ => isFalse (fun e => by cases e)

variable {α : Type}

/-! ### matrices -/

/-- an n×n matrix -/
def Mat.Wf (n : Nat) (m : Mat α) : Prop := m.length = n ∧ ∀ r ∈ m, r.length = n

theorem Mat.wf_set2 {n : Nat} {m : Mat α} (h : Mat.Wf n m) (i j : Nat) (v : α) : Mat.Wf n (m.set2 i j v) := by
  refine ⟨by simp [Mat.set2, h.1], ?_⟩
  intro r hr
  obtain ⟨k, hk⟩ := List.mem_iff_getElem?.mp hr
  simp only [Mat.set2, List.getElem?_modify] at hk
  cases hm : m[k]? with
  | none => simp [hm] at hk
  | some r0 =>
    have hr0 : r0.length = n := h.2 r0 (List.mem_iff_getElem?.mpr ⟨k, hm⟩)
    simp only [hm, Option.map_eq_map, Option.map_some, Option.some.injEq] at hk
    split at hk <;> (subst hk; simp [hr0])

theorem Mat.get?_set2 {n : Nat} {m : Mat α} (h : Mat.Wf n m) {i j : Nat} (hi : i < n) (hj : j < n) (v : α)
    (a b : Nat) : (m.set2 i j v).get? a b = if a = i ∧ b = j then some v else m.get? a b := by
  simp only [Mat.get?, Mat.set2, List.getElem?_modify]
  cases hm : m[a]? with
  | none =>
    have : ¬ a = i := by
      intro e; subst e
      have : a < m.length := by rw [h.1]; exact hi
      simp at hm; omega
    simp [this]
  | some r =>
    have hr : r.length = n := h.2 r (List.mem_iff_getElem?.mpr ⟨a, hm⟩)
    by_cases hai : i = a
    · subst hai
      simp only [Option.map_eq_map, Option.map_some, if_true, Option.bind_some, List.getElem?_set, true_and]
      by_cases hjb : j = b
      · subst hjb; simp [hr, hj]
      · have : ¬ b = j := fun e => hjb e.symm
        simp [hjb, this]
    · have : ¬ a = i := fun e => hai e.symm
      simp [hai, this]

theorem Mat.wf_ones (n : Nat) (one : α) : Mat.Wf n (Mat.ones n one) := by
  refine ⟨by simp [Mat.ones], ?_⟩
  intro r hr
  simp only [Mat.ones, List.mem_replicate] at hr
  simp [hr.2]

theorem Mat.get?_ones {n : Nat} (one : α) {a b : Nat} (ha : a < n) (hb : b < n) :
    (Mat.ones n one).get? a b = some one := by
  simp [Mat.get?, Mat.ones, ha, hb]

theorem Mat.wf_ofFn (n : Nat) (g : Nat → Nat → α) : Mat.Wf n (Mat.ofFn n g) := by
  refine ⟨by simp [Mat.ofFn], ?_⟩
  intro r hr
  simp only [Mat.ofFn, List.mem_map] at hr
  obtain ⟨i, _, rfl⟩ := hr
  simp

theorem Mat.get?_ofFn {n : Nat} (g : Nat → Nat → α) {a b : Nat} (ha : a < n) (hb : b < n) :
    (Mat.ofFn n g).get? a b = some (g a b) := by
  simp [Mat.get?, Mat.ofFn, ha, hb]

theorem Mat.eye_eq_ofFn (n : Nat) (one zero : α) :
    Mat.eye n one zero = Mat.ofFn n (fun i j => if i = j then one else zero) := rfl

theorem Mat.ext_get? {n : Nat} {m m' : Mat α} (h : Mat.Wf n m) (h' : Mat.Wf n m')
    (e : ∀ a b, a < n → b < n → m.get? a b = m'.get? a b) : m = m' := by
  apply List.ext_getElem?
  intro a
  by_cases ha : a < n
  · have h1 : a < m.length := by rw [h.1]; exact ha
    have h2 : a < m'.length := by rw [h'.1]; exact ha
    rw [List.getElem?_eq_getElem h1, List.getElem?_eq_getElem h2]
    congr 1
    have hr : (m[a]).length = n := h.2 _ (List.getElem_mem h1)
    have hr' : (m'[a]).length = n := h'.2 _ (List.getElem_mem h2)
    apply List.ext_getElem?
    intro b
    by_cases hb : b < n
    · have := e a b ha hb
      simpa [Mat.get?, List.getElem?_eq_getElem h1, List.getElem?_eq_getElem h2] using this
    · rw [List.getElem?_eq_none (by omega), List.getElem?_eq_none (by omega)]
  · rw [List.getElem?_eq_none (by rw [h.1]; omega), List.getElem?_eq_none (by rw [h'.1]; omega)]

/-! ### write lists -/

/-- a sequence of assignments `m[w.1][w.2.1] = w.2.2` -/
def applyWrites (m : Mat α) (ws : List (Nat × Nat × α)) : Mat α :=
  ws.foldl (fun m w => m.set2 w.1 w.2.1 w.2.2) m

/-- if every write is in bounds and stores `G row col`, then afterwards a written cell holds `G`,
    an unwritten one its initial value (no cell is ever left with a stale or foreign value) -/
theorem applyWrites_spec {n : Nat} (G : Nat → Nat → α) (ws : List (Nat × Nat × α))
    (hws : ∀ w ∈ ws, w.1 < n ∧ w.2.1 < n ∧ w.2.2 = G w.1 w.2.1) (m0 : Mat α) (h0 : Mat.Wf n m0) :
    Mat.Wf n (applyWrites m0 ws) ∧ ∀ a b, (applyWrites m0 ws).get? a b =
      if (∃ w ∈ ws, w.1 = a ∧ w.2.1 = b) then some (G a b) else m0.get? a b := by
  induction ws generalizing m0 with
  | nil => simp [applyWrites, h0]
  | cons w ws ih =>
    have hw := hws w (by simp)
    have ih' := ih (fun w' hw' => hws w' (by simp [hw'])) (m0.set2 w.1 w.2.1 w.2.2) (Mat.wf_set2 h0 _ _ _)
    refine ⟨by simpa [applyWrites] using ih'.1, ?_⟩
    intro a b
    have := ih'.2 a b
    simp only [applyWrites, List.foldl_cons] at this ⊢
    rw [this, Mat.get?_set2 h0 hw.1 hw.2.1]
    by_cases hex : ∃ w' ∈ ws, w'.1 = a ∧ w'.2.1 = b
    · have hex' : ∃ w' ∈ w :: ws, w'.1 = a ∧ w'.2.1 = b := by
        obtain ⟨w', h1, h2⟩ := hex; exact ⟨w', by simp [h1], h2⟩
      rw [if_pos hex, if_pos hex']
    · by_cases hab : a = w.1 ∧ b = w.2.1
      · have hex' : ∃ w' ∈ w :: ws, w'.1 = a ∧ w'.2.1 = b := ⟨w, by simp, hab.1.symm, hab.2.symm⟩
        rw [if_neg hex, if_pos hab, if_pos hex', hw.2.2, ← hab.1, ← hab.2]
      · have hex' : ¬ ∃ w' ∈ w :: ws, w'.1 = a ∧ w'.2.1 = b := by
          rintro ⟨w', h1, h2⟩
          rcases List.mem_cons.mp h1 with e | e
          · subst e; exact hab ⟨h2.1.symm, h2.2.symm⟩
          · exact hex ⟨w', e, h2⟩
        rw [if_neg hex, if_neg hab, if_neg hex']

/-- the result of a complete, consistent write list is the specification matrix -/
theorem applyWrites_eq_ofFn {n : Nat} (G : Nat → Nat → α) (ws : List (Nat × Nat × α)) (m0 : Mat α)
    (h0 : Mat.Wf n m0)
    (hws : ∀ w ∈ ws, w.1 < n ∧ w.2.1 < n ∧ w.2.2 = G w.1 w.2.1)
    (hcov : ∀ a b, a < n → b < n → (∃ w ∈ ws, w.1 = a ∧ w.2.1 = b) ∨ m0.get? a b = some (G a b)) :
    applyWrites m0 ws = Mat.ofFn n G := by
  have hs := applyWrites_spec G ws hws m0 h0
  apply Mat.ext_get? hs.1 (Mat.wf_ofFn n G)
  intro a b ha hb
  rw [hs.2 a b, Mat.get?_ofFn G ha hb]
  rcases hcov a b ha hb with h | h
  · simp [h]
  · split <;> simp [h]

/-! ### `Except` folds -/

theorem foldlM_ok {β γ : Type} (step : β → γ → Except String β) (pstep : β → γ → β) (l : List γ)
    (h : ∀ m, ∀ p ∈ l, step m p = .ok (pstep m p)) (m0 : β) :
    l.foldlM step m0 = .ok (l.foldl pstep m0) := by
  induction l generalizing m0 with
  | nil => rfl
  | cons a l ih =>
    rw [List.foldlM_cons, h m0 a (by simp)]
    exact ih (fun m p hp => h m p (by simp [hp])) _

theorem mapM_ok {β γ : Type} (c : β → Except String γ) (g : β → γ) (l : List β)
    (h : ∀ x ∈ l, c x = .ok (g x)) : l.mapM c = .ok (l.map g) := by
  induction l with
  | nil => rfl
  | cons a l ih =>
    rw [List.mapM_cons, h a (by simp), ih (fun x hx => h x (by simp [hx]))]
    rfl

theorem mapM_ok_imp {β γ : Type} (c : β → Except String γ) (l : List β) (vs : List γ)
    (h : l.mapM c = .ok vs) : ∀ x ∈ l, ∃ v, c x = .ok v := by
  induction l generalizing vs with
  | nil => simp
  | cons a l ih =>
    rw [List.mapM_cons] at h
    cases ha : c a with
    | error e => rw [ha] at h; cases h
    | ok v =>
      rw [ha] at h
      cases hl : l.mapM c with
      | error e => rw [hl] at h; cases h
      | ok vs' =>
        intro x hx
        rcases List.mem_cons.mp hx with e | e
        · subst e; exact ⟨v, ha⟩
        · exact ih vs' hl x e

/-- a loop whose body first evaluates `c p` and then updates the state purely fails exactly like `mapM c` -/
theorem foldlM_error_of_mapM_error {β γ δ : Type} (c : γ → Except String δ) (g : β → γ → δ → β) (l : List γ)
    (e : String) (h : l.mapM c = .error e) (m0 : β) :
    l.foldlM (fun m p => do let v ← c p; pure (g m p v)) m0 = .error e := by
  induction l generalizing m0 with
  | nil => cases h
  | cons a l ih =>
    rw [List.mapM_cons] at h
    rw [List.foldlM_cons]
    cases ha : c a with
    | error e' => rw [ha] at h; cases h; rfl
    | ok v =>
      rw [ha] at h
      cases hl : l.mapM c with
      | error e' =>
        rw [hl] at h; cases h
        exact ih hl _
      | ok vs => rw [hl] at h; cases h

theorem mapM_flatten {β γ : Type} (f : β → Except String γ) (ls : List (List β)) :
    ls.flatten.mapM f = (ls.mapM (fun c => c.mapM f)) >>= fun rs => pure rs.flatten := by
  induction ls with
  | nil => rfl
  | cons c ls ih =>
    rw [List.flatten_cons, List.mapM_append, List.mapM_cons, ih]
    cases c.mapM f with
    | error e => rfl
    | ok a =>
      cases ls.mapM (fun c => c.mapM f) with
      | error e => rfl
      | ok rs => rfl

/-! ### `imap` chunking -/

theorem flatten_chunksF {β : Type} (fuel cs : Nat) (hcs : 0 < cs) (l : List β) (hl : l.length ≤ fuel) :
    (chunksF fuel cs l).flatten = l := by
  induction fuel generalizing l with
  | zero =>
    have : l = [] := List.length_eq_zero_iff.mp (by omega)
    subst this; rfl
  | succ fuel ih =>
    cases l with
    | nil => rfl
    | cons x xs =>
      simp only [chunksF, List.flatten_cons]
      rw [ih _ (by simp only [List.length_drop, List.length_cons] at hl ⊢; omega)]
      exact List.take_append_drop cs (x :: xs)

theorem flatten_chunks {β : Type} (cs : Nat) (hcs : 0 < cs) (l : List β) : (chunks cs l).flatten = l := by
  have : cs ≠ 0 := by omega
  simp only [chunks, this, if_false]
  exact flatten_chunksF _ cs hcs l (Nat.le_refl _)

/-- the value (or the first exception) delivered by `imap` does not depend on the chunk size -/
theorem imap_eq_mapM {β γ : Type} (f : β → Except String γ) (l : List β) (cs : Nat) (hcs : 0 < cs) :
    imap f l cs = l.mapM f := by
  have := mapM_flatten f (chunks cs l)
  rw [flatten_chunks cs hcs l] at this
  rw [this]
  rfl

theorem chunkSize_pos {n jobs : Nat} (hn : 0 < n) (hj : 0 < jobs) : 0 < chunkSize n jobs := by
  unfold chunkSize
  split
  · exact Nat.succ_pos _
  · rename_i h
    have hm : n % jobs = 0 := by omega
    have : jobs ≤ n := Nat.le_of_dvd hn (Nat.dvd_of_mod_eq_zero hm)
    exact Nat.div_pos this hj

/-! ### index sets -/

theorem mem_pairsUpper {n : Nat} {p : Nat × Nat} : p ∈ pairsUpper n ↔ p.1 < p.2 ∧ p.2 < n := by
  obtain ⟨i, j⟩ := p
  simp only [pairsUpper, List.mem_flatMap, List.mem_range, List.mem_map, List.mem_range'_1, Prod.mk.injEq]
  constructor
  · rintro ⟨i', hi', j', hj', rfl, rfl⟩; omega
  · rintro ⟨h1, h2⟩; exact ⟨i, by omega, j, by omega, rfl, rfl⟩

theorem mem_pairsAll {n : Nat} {p : Nat × Nat} : p ∈ pairsAll n ↔ p.1 < n ∧ p.2 < n := by
  obtain ⟨i, j⟩ := p
  simp only [pairsAll, List.mem_flatMap, List.mem_range, List.mem_map, Prod.mk.injEq]
  constructor
  · rintro ⟨i', hi', j', hj', rfl, rfl⟩; exact ⟨hi', hj'⟩
  · rintro ⟨h1, h2⟩; exact ⟨i, h1, j, h2, rfl, rfl⟩

end Sm.Compare
