/-
Byte format of the `Nodegraph` model: little-endian helpers, the `save` panic on tables whose
size is a multiple of 32, and the `save` / `load` round trip.
-/
import SmVerif.Lemmas.NodegraphBloom

namespace Sm
namespace NG
open BitSet

/-! ### little-endian bytes -/

theorem leBytes_length (n v : Nat) : (leBytes n v).length = n := by
  induction n generalizing v with
  | zero => rfl
  | succ n ih => simp [leBytes, ih]

theorem ofLeBytes_leBytes (n v : Nat) : ofLeBytes (leBytes n v) = v % 256 ^ n := by
  induction n generalizing v with
  | zero => simp [leBytes, ofLeBytes, Nat.mod_one]
  | succ n ih => rw [leBytes, ofLeBytes, ih, Nat.pow_succ', Nat.mod_mul]

theorem ofLeBytes_leBytes_of_lt {n v : Nat} (h : v < 256 ^ n) : ofLeBytes (leBytes n v) = v := by
  rw [ofLeBytes_leBytes, Nat.mod_eq_of_lt h]

/-! ### `save` panics on a table whose size is a multiple of 32 -/

theorem saveTable_mult32 {b : BitSet} (h32 : b.length % 32 = 0) : saveTable b = .error .panic := by
  unfold saveTable
  simp only
  rw [if_pos]
  unfold nblocks
  constructor
  · omega
  · split <;> omega

theorem saveTable_not_mult32 {b : BitSet} (h32 : b.length % 32 ≠ 0) :
    saveTable b = .ok (leBytes 8 b.length ++ leBytes (b.length / 8 + 1) b.bits) := by
  unfold saveTable
  simp only
  rw [if_neg]
  unfold nblocks
  intro ⟨h1, h2⟩
  apply h2
  split <;> omega

theorem saveTable_error {b : BitSet} {e : Err} (h : saveTable b = .error e) : e = .panic := by
  unfold saveTable at h
  simp only at h
  split at h
  · cases h; rfl
  · cases h

theorem saveTables_cons (b : BitSet) (bs : List BitSet) :
    saveTables (b :: bs) =
      match saveTable b with
      | .error e => .error e
      | .ok x =>
        match saveTables bs with
        | .error e => .error e
        | .ok xs => .ok (x ++ xs) := by
  simp only [saveTables, bind, Except.bind, pure, Except.pure]
  cases saveTable b with
  | error e => rfl
  | ok x => cases saveTables bs <;> rfl

theorem saveTables_error {bs : List BitSet} {e : Err} (h : saveTables bs = .error e) :
    e = .panic := by
  induction bs with
  | nil => cases h
  | cons b bs ih =>
    rw [saveTables_cons] at h
    cases hb : saveTable b with
    | error e' =>
      rw [hb] at h
      cases h
      exact saveTable_error hb
    | ok x =>
      rw [hb] at h
      cases hbs : saveTables bs with
      | error e' =>
        rw [hbs] at h
        cases h
        exact ih hbs
      | ok xs => rw [hbs] at h; cases h

theorem saveTables_mult32 {bs : List BitSet} {b : BitSet} (hb : b ∈ bs) (h32 : b.length % 32 = 0) :
    saveTables bs = .error .panic := by
  induction bs with
  | nil => cases hb
  | cons a bs ih =>
    rw [saveTables_cons]
    rcases List.mem_cons.mp hb with rfl | hb'
    · rw [saveTable_mult32 h32]
    · cases ha : saveTable a with
      | error e => rw [saveTable_error ha]
      | ok x => simp only [ih hb']

/-- a table whose size is a multiple of 32 makes `save` index one block too far -/
theorem save_panics_mult32 {g : NG} {b : BitSet} (hb : b ∈ g.bs) (h32 : b.length % 32 = 0) :
    g.save = .error .panic := by
  simp only [save, bind, Except.bind, saveTables_mult32 hb h32]

/-! ### round trip -/

theorem takeN_leBytes (n v : Nat) (l : List Nat) :
    takeN n (leBytes n v ++ l) = .ok (leBytes n v, l) := by
  have hl := leBytes_length n v
  unfold takeN
  rw [if_neg (by simp [hl])]
  simp [hl]

theorem takeN_one (x : Nat) (l : List Nat) : takeN 1 (x :: l) = .ok ([x], l) := by
  simp [takeN]

theorem takeN_four (a b c d : Nat) (l : List Nat) :
    takeN 4 (a :: b :: c :: d :: l) = .ok ([a, b, c, d], l) := by
  simp [takeN]

/-- `loadTables` reads back one saved table (followed by anything) -/
theorem loadTables_succ_saved (n : Nat) (b : BitSet) (hl : b.length < 2 ^ 64)
    (hb : b.bits < 2 ^ b.length) (hpos : b.length ≠ 0) (l : List Nat) :
    loadTables (n + 1) (leBytes 8 b.length ++ (leBytes (b.length / 8 + 1) b.bits ++ l)) =
      match loadTables n l with
      | .error e => .error e
      | .ok rest => .ok (b :: rest) := by
  have h1 : ofLeBytes (leBytes 8 b.length) = b.length :=
    ofLeBytes_leBytes_of_lt (by
      have : (256 : Nat) ^ 8 = 2 ^ 64 := by decide
      omega)
  have h2 : ofLeBytes (leBytes (b.length / 8 + 1) b.bits) % 2 ^ b.length = b.bits := by
    rw [ofLeBytes_leBytes]
    have hle : 2 ^ b.length ≤ 256 ^ (b.length / 8 + 1) := by
      have : (256 : Nat) = 2 ^ 8 := by decide
      rw [this, ← Nat.pow_mul]
      exact Nat.pow_le_pow_right (by decide) (by omega)
    rw [Nat.mod_eq_of_lt (Nat.lt_of_lt_of_le hb hle), Nat.mod_eq_of_lt hb]
  conv => lhs; rw [loadTables]
  have hz : (Sm.Gen.ngLoadRefusesZero && b.length == 0) = false := by
    have : (b.length == 0) = false := by simpa using hpos
    rw [this, Bool.and_false]
  simp only [bind, Except.bind, takeN_leBytes, h1, h2, pure, Except.pure, hz, Bool.false_eq_true, ↓reduceIte]
  cases loadTables n l <;> rfl

theorem saveTables_loadTables : ∀ (bs : List BitSet),
    (∀ b ∈ bs, b.length % 32 ≠ 0 ∧ b.length < 2 ^ 64 ∧ b.bits < 2 ^ b.length) →
    ∃ ts, saveTables bs = .ok ts ∧ ∀ extra, loadTables bs.length (ts ++ extra) = .ok bs
  | [], _ => ⟨[], rfl, fun _ => rfl⟩
  | b :: bs, h => by
    obtain ⟨h32, hl, hb⟩ := h b (by simp)
    obtain ⟨ts, hts, hload⟩ := saveTables_loadTables bs (fun x hx => h x (by simp [hx]))
    refine ⟨(leBytes 8 b.length ++ leBytes (b.length / 8 + 1) b.bits) ++ ts, ?_, ?_⟩
    · rw [saveTables_cons, saveTable_not_mult32 h32, hts]
    · intro extra
      rw [List.length_cons, List.append_assoc, List.append_assoc,
        loadTables_succ_saved _ b hl hb (by intro h0; rw [h0] at h32; exact h32 rfl), hload extra]

/-- `save` then `load` (with arbitrary trailing bytes) gives back the graph, except for
`unique_kmers`, which is not part of the format -/
theorem bytes_roundtrip_extra {g : NG} (wf : WF g) (h32 : ∀ b ∈ g.bs, b.length % 32 ≠ 0)
    (hk : g.ksize < 2 ^ 32) (hn : g.bs.length < 256) (ho : g.occupied < 2 ^ 64)
    (hl : ∀ b ∈ g.bs, b.length < 2 ^ 64) :
    ∃ bytes, g.save = .ok bytes ∧
      ∀ extra, load (bytes ++ extra) = .ok { g with unique := 0 } := by
  obtain ⟨ts, hts, hload⟩ := saveTables_loadTables g.bs
    (fun b hb => ⟨h32 b hb, hl b hb, (wf b hb).2⟩)
  refine ⟨[0x4f, 0x58, 0x4c, 0x49, 4, 2] ++ leBytes 4 g.ksize ++ [g.bs.length % 256] ++
    leBytes 8 g.occupied ++ ts, by simp only [save, bind, Except.bind, hts, pure, Except.pure], ?_⟩
  intro extra
  have hks : ofLeBytes (leBytes 4 g.ksize) = g.ksize :=
    ofLeBytes_leBytes_of_lt (by
      have : (256 : Nat) ^ 4 = 2 ^ 32 := by decide
      omega)
  have hocc : ofLeBytes (leBytes 8 g.occupied) = g.occupied :=
    ofLeBytes_leBytes_of_lt (by
      have : (256 : Nat) ^ 8 = 2 ^ 64 := by decide
      omega)
  have hnt : ofLeBytes [g.bs.length % 256] = g.bs.length := by
    simp only [ofLeBytes]; omega
  have hshape : ([0x4f, 0x58, 0x4c, 0x49, 4, 2] ++ leBytes 4 g.ksize ++ [g.bs.length % 256] ++
        leBytes 8 g.occupied ++ ts) ++ extra =
      0x4f :: 0x58 :: 0x4c :: 0x49 :: 4 :: 2 :: (leBytes 4 g.ksize ++
        (g.bs.length % 256 :: (leBytes 8 g.occupied ++ (ts ++ extra)))) := by
    simp [List.append_assoc]
  rw [hshape]
  unfold load
  simp only [bind, Except.bind, takeN_four, takeN_one, takeN_leBytes, hks, hocc, hnt, hload,
    pure, Except.pure, ne_eq, not_true_eq_false, if_false]

theorem bytes_roundtrip {g : NG} (wf : WF g) (h32 : ∀ b ∈ g.bs, b.length % 32 ≠ 0)
    (hk : g.ksize < 2 ^ 32) (hn : g.bs.length < 256) (ho : g.occupied < 2 ^ 64)
    (hl : ∀ b ∈ g.bs, b.length < 2 ^ 64) :
    ∃ bytes, g.save = .ok bytes ∧ load bytes = .ok { g with unique := 0 } := by
  obtain ⟨bytes, hs, hload⟩ := bytes_roundtrip_extra wf h32 hk hn ho hl
  exact ⟨bytes, hs, by simpa using hload []⟩

end NG
end Sm
