/-
C07 / C08, the instance tie, part 1: every sketch operation gather uses commutes with the abstraction
`ofMH : MH → LS` (shared MinHash model → list sketch) on valid scaled sketches of one collection
(`SInv`: representation invariant, `num = 0`, threshold `mhR S` for some `1 ≤ S ≤ 2^31`, common
ksize / hash function / seed).

The specifications of the shared model's operations are the `count`-level theorems of C01 / C03 / C04
(`Lemmas/SetOps*.lean`, `Lemmas/Downsample.lean`); a sketch with sorted keys and positive counts is determined
by its count function (`pairs_ext`), which turns them into equalities of hash / abundance vectors.
-/
import SmVerif.Lemmas.SetOpsApi
import SmVerif.Lemmas.Scaled
import SmVerif.Lemmas.ScaledNum
import SmVerif.Model.GatherMH
import SmVerif.Lemmas.GatherL

set_option autoImplicit false

namespace Sm.Gather

open Sm MH

/-! ### counts determine vectors -/

theorem cnt_filter_key {ps : List (Nat × Nat)} (hnd : (ps.map Prod.fst).Nodup) (p : Nat → Bool) (x : Nat) :
    cnt (ps.filter (fun q => p q.1)) x = if p x then cnt ps x else 0 := by
  induction ps with
  | nil => simp
  | cons q ps ih =>
    simp only [List.map_cons, List.nodup_cons] at hnd
    have ih' := ih hnd.2
    by_cases hq : p q.1 = true
    · rw [List.filter_cons_of_pos (by simpa using hq), cnt_cons', cnt_cons', ih']
      by_cases hx : x = q.1
      · subst hx; simp [hq]
      · simp [hx]
    · rw [List.filter_cons_of_neg (by simpa using hq), ih', cnt_cons']
      by_cases hx : x = q.1
      · subst hx
        have : cnt ps q.1 = 0 := cnt_eq_zero_of_not_mem hnd.1
        simp [hq, this]
      · simp [hx]

/-- a valid sketch whose counts are those of `s` restricted to `p` has the vectors of `s` filtered by `p` -/
theorem vectors_of_count_filter {s r : MH} (hs : Inv s) (hr : Inv r)
    (htr : r.trackAbundance = s.trackAbundance) (p : Nat → Bool)
    (h : ∀ x, count r x = if p x then count s x else 0) :
    r.mins = s.mins.filter p ∧
    r.abunds = s.abunds.map (fun ab => ((s.mins.zip ab).filter (fun q => p q.1)).map Prod.snd) := by
  have hks : s.pairs.map Prod.fst = s.mins := pairs_keys hs.toW
  have hkr : r.pairs.map Prod.fst = r.mins := pairs_keys hr.toW
  have hnd : (s.pairs.map Prod.fst).Nodup := by rw [hks]; exact hs.sorted.nodup
  have hp : r.pairs = s.pairs.filter (fun q => p q.1) := by
    apply pairs_ext
    · rw [hkr]; exact hr.sorted
    · have : ((s.pairs.filter (fun q => p q.1)).map Prod.fst).Sublist (s.pairs.map Prod.fst) :=
        (List.filter_sublist).map _
      rw [hks] at this
      exact hs.sorted.sublist this
    · exact pairs_pos hr.toW
    · intro q hq; exact pairs_pos hs.toW q (List.mem_filter.1 hq).1
    · intro x
      rw [cnt_filter_key hnd]
      exact h x
  have hm : r.mins = s.mins.filter p := by
    rw [← hkr, hp, ← hks, List.filter_map]
    rfl
  refine ⟨hm, ?_⟩
  cases hsa : s.abunds with
  | none =>
    cases hra : r.abunds with
    | none => rfl
    | some ab' => simp [MH.trackAbundance, hsa, hra] at htr
  | some ab =>
    cases hra : r.abunds with
    | none => simp [MH.trackAbundance, hsa, hra] at htr
    | some ab' =>
      rw [pairs_some hsa, pairs_some hra] at hp
      have h2 := hr.aligned ab' hra
      have := congrArg (List.map Prod.snd) hp
      rw [List.map_snd_zip (Nat.le_of_eq h2)] at this
      simp only [Option.map_some, Option.some.injEq]
      exact this

/-! ### the abstraction and the invariant -/

/-- the list sketch a (scaled) MinHash is: its Python `scaled`, its hashes, its abundances -/
def ofMH (s : MH) : LS := ⟨Py.scaledProp s, s.mins, s.abunds⟩

/-- a valid scaled sketch of a collection with parameters `(ksize, hash function, seed)` -/
structure SInv (k hf seed : Nat) (s : MH) : Prop where
  inv : Inv s
  num : s.num = 0
  ksize : s.ksize = k
  hfun : s.hf = hf
  seedv : s.seed = seed
  sc : ∃ S, 1 ≤ S ∧ S ≤ 2 ^ 31 ∧ s.maxHash = mhR S

variable {k hf seed : Nat}

theorem SInv.max_ne {s : MH} (h : SInv k hf seed s) : s.maxHash ≠ 0 := by
  obtain ⟨S, h1, h2, h3⟩ := h.sc
  rw [h3]
  exact mhR_pos h1 (le_trans h2 (by decide))

theorem SInv.scaled {s : MH} (h : SInv k hf seed s) : Sm.Scaled s := ⟨h.inv, h.num, h.max_ne⟩

theorem scaledProp_mhR {S : Nat} (h1 : 1 ≤ S) (h2 : S ≤ 2 ^ 31) {s : MH} (h : s.maxHash = mhR S) :
    Py.scaledProp s = S := by
  unfold Py.scaledProp
  rw [if_pos (by rw [h]; exact mhR_pos h1 (le_trans h2 (by decide))), h]
  exact scP_mhR h1 h2

theorem SInv.stable {s : MH} (h : SInv k hf seed s) : Stable s.maxHash := by
  obtain ⟨S, h1, h2, h3⟩ := h.sc
  unfold Stable
  rw [h3, scP_mhR h1 h2]

/-- the scaled value of the abstraction is in range and determines the threshold -/
theorem SInv.scaled_spec {s : MH} (h : SInv k hf seed s) :
    1 ≤ (ofMH s).scaled ∧ (ofMH s).scaled ≤ 2 ^ 31 ∧ s.maxHash = mhR (ofMH s).scaled := by
  obtain ⟨S, h1, h2, h3⟩ := h.sc
  have : (ofMH s).scaled = S := scaledProp_mhR h1 h2 h3
  rw [this]
  exact ⟨h1, h2, h3⟩

/-- the abstraction of a valid sketch is a well-formed list sketch -/
theorem SInv.wf {s : MH} (h : SInv k hf seed s) : (ofMH s).WF := by
  obtain ⟨h1, h2, h3⟩ := h.scaled_spec
  refine ⟨h1, h2, h.inv.sorted, ?_, ?_⟩
  · intro x hx
    rw [← h3]
    exact h.inv.bounded h.max_ne x hx
  · intro ab hab
    exact h.inv.aligned ab hab

theorem ofMH_pairs (s : MH) : (ofMH s).pairs = s.pairs := by
  unfold LS.pairs MH.pairs ofMH ones
  cases s.abunds <;> rfl

theorem ofMH_ext {r : MH} {sc : Nat} {hs : List Nat} {ab : Option (List Nat)}
    (h1 : Py.scaledProp r = sc) (h2 : r.mins = hs) (h3 : r.abunds = ab) : ofMH r = ⟨sc, hs, ab⟩ := by
  unfold ofMH
  rw [h1, h2, h3]

/-! ### `downsample` -/

theorem pyDownsample_le {s r : MH} {sc : Nat} (h : Py.downsample s none (some sc) = .ok r) :
    Py.scaledProp s ≤ sc := by
  unfold Py.downsample Py.downsampleParams at h
  simp only at h
  by_contra hgt
  split at h
  · cases h
  · rename_i n mh hp
    split at hp
    · cases hp
    · rw [if_pos (by omega)] at hp
      cases hp

/-- `MinHash.downsample(scaled=sc)` -/
theorem sim_dsM {s r : MH} (hs : SInv k hf seed s) {sc : Nat} (h1 : 1 ≤ sc) (h2 : sc ≤ 2 ^ 31)
    (h : MHOps.dsM s sc = .ok r) : SInv k hf seed r ∧ LS.ds (ofMH s) sc = .ok (ofMH r) := by
  unfold MHOps.dsM at h
  cases hd : Py.downsample s none (some sc) with
  | error e => rw [hd] at h; cases h
  | ok r' =>
    rw [hd] at h
    cases h
    have hmh : mhR (scP (mhP sc)) = mhR sc := by rw [scP_mhP h1 h2]
    have h0 : mhR (scP (mhP sc)) ≠ 0 := by rw [hmh]; exact mhR_pos h1 (le_trans h2 (by decide))
    obtain ⟨r1, r2, r3, ⟨r4, r5, r6⟩, r7⟩ := pyDownsample_spec hs.scaled hd h0
    rw [hmh] at r3
    have hle := pyDownsample_le hd
    have hinv : SInv k hf seed r := ⟨r1.inv, r1.num, r4.trans hs.ksize, r5.trans hs.hfun, r6.trans hs.seedv,
      ⟨sc, h1, h2, r3⟩⟩
    refine ⟨hinv, ?_⟩
    have hv := vectors_of_count_filter hs.inv r1.inv r2 (fun x => decide (x ≤ mhR sc)) (by
      intro x
      rw [r7 x, r3]
      by_cases hx : x ≤ mhR sc <;> simp [hx])
    rw [LS.ds_ok (x := ofMH s) hle]
    congr 1
    exact (ofMH_ext (scaledProp_mhR h1 h2 r3) hv.1 hv.2).symm

/-- downsampling a valid sketch to its own scaled value changes nothing -/
theorem LS.ds_self_of_wf {x : LS} (hx : x.WF) : LS.ds x x.scaled = .ok x := by
  rw [LS.ds_ok (Nat.le_refl _)]
  congr 1
  have hf : x.hs.filter (fun h => decide (h ≤ mhR x.scaled)) = x.hs :=
    List.filter_eq_self.2 (fun h hh => by simpa using hx.bounded h hh)
  cases x with
  | mk sc hs ab =>
    simp only [LS.filterH] at hf ⊢
    congr 1
    cases ab with
    | none => rfl
    | some ab =>
      simp only [Option.map_some, Option.some.injEq]
      have hal : ab.length = hs.length := hx.aligned ab rfl
      have : (hs.zip ab).filter (fun q => decide (q.1 ≤ mhR sc)) = hs.zip ab := by
        apply List.filter_eq_self.2
        intro q hq
        have := hx.bounded q.1 (List.of_mem_zip hq).1
        simpa using this
      rw [this, List.map_snd_zip (Nat.le_of_eq hal)]

/-- `FrozenMinHash.downsample(scaled=sc)` -/
theorem sim_dsF {s r : MH} (hs : SInv k hf seed s) {sc : Nat} (h1 : 1 ≤ sc) (h2 : sc ≤ 2 ^ 31)
    (h : MHOps.dsF s sc = .ok r) : SInv k hf seed r ∧ LS.ds (ofMH s) sc = .ok (ofMH r) := by
  unfold MHOps.dsF at h
  split at h
  · rename_i hc
    cases h
    refine ⟨hs, ?_⟩
    have : (ofMH s).scaled = sc := hc.2
    rw [← this]
    exact LS.ds_self_of_wf hs.wf
  · exact sim_dsM hs h1 h2 h

/-! ### `flatten` -/

theorem sim_flat {s r : MH} (hs : SInv k hf seed s) (h : MHOps.flat s = .ok r) :
    SInv k hf seed r ∧ ofMH r = (ofMH s).flat := by
  unfold MHOps.flat at h
  cases hfl : Py.flatten s with
  | error e => rw [hfl] at h; cases h
  | ok o =>
    rw [hfl] at h
    cases o with
    | none =>
      cases h
      refine ⟨hs, ?_⟩
      have ht : s.abunds = none := by
        unfold Py.flatten at hfl
        split at hfl
        · cases hm : Py.mkMinHash s.num s.ksize s.hf s.seed false s.maxHash 0 <;>
            simp [hm, bind, Except.bind, pure, Except.pure] at hfl
        · rename_i ht
          cases ha : s.abunds with
          | none => rfl
          | some ab => simp [MH.trackAbundance, ha] at ht
      unfold ofMH LS.flat
      rw [ht]
    | some f =>
      cases h
      obtain ⟨f1, f2, f3, ⟨f4, f5, f6⟩, f7⟩ := pyFlatten_spec hs.scaled hs.stable hfl
      obtain ⟨S, s1, s2, s3⟩ := hs.sc
      have hinv : SInv k hf seed r := ⟨f1.inv, f1.num, f4.trans hs.ksize, f5.trans hs.hfun, f6.trans hs.seedv,
        ⟨S, s1, s2, f3.trans s3⟩⟩
      refine ⟨hinv, ?_⟩
      have hab : r.abunds = none := by
        cases ha : r.abunds with
        | none => rfl
        | some ab => simp [MH.trackAbundance, ha] at f2
      have hm : r.mins = s.mins := by
        apply Sorted.eq_of_mem_iff f1.inv.sorted hs.inv.sorted
        intro x
        rw [mem_iff_count_pos' f1.inv, mem_iff_count_pos' hs.inv, f7 x]
        omega
      unfold ofMH LS.flat
      simp only [LS.mk.injEq]
      refine ⟨?_, hm, hab⟩
      rw [scaledProp_mhR s1 s2 (f3.trans s3), scaledProp_mhR s1 s2 s3]

/-! ### intersection, compatibility, intersection sizes -/

theorem clone_params (s : MH) :
    s.clone.2.ksize = s.ksize ∧ s.clone.2.hf = s.hf ∧ s.clone.2.seed = s.seed := by
  cases h : s.md5 <;> simp [MH.clone, MH.md5sum, h]

theorem flat_of_track_false {s : MH} (h : s.trackAbundance = false) : s.abunds = none := by
  cases ha : s.abunds with
  | none => rfl
  | some ab => simp [MH.trackAbundance, ha] at h

theorem mhR_inj {S T : Nat} (s1 : 1 ≤ S) (s2 : S ≤ 2 ^ 31) (t1 : 1 ≤ T) (t2 : T ≤ 2 ^ 31)
    (h : mhR S = mhR T) : S = T := by
  rw [← scP_mhR s1 s2, ← scP_mhR t1 t2, h]

/-- equal thresholds ⇔ equal scaled values -/
theorem SInv.maxHash_eq_iff {a b : MH} (ha : SInv k hf seed a) (hb : SInv k hf seed b) :
    a.maxHash = b.maxHash ↔ (ofMH a).scaled = (ofMH b).scaled := by
  obtain ⟨a1, a2, a3⟩ := ha.scaled_spec
  obtain ⟨b1, b2, b3⟩ := hb.scaled_spec
  constructor
  · intro h
    rw [a3, b3] at h
    exact mhR_inj a1 a2 b1 b2 h
  · intro h
    rw [a3, b3, h]

/-- `a & b` -/
theorem sim_and {a b r : MH} (ha : SInv k hf seed a) (hb : SInv k hf seed b)
    (h : MHOps.andMH a b = .ok r) : SInv k hf seed r ∧ LS.and (ofMH a) (ofMH b) = .ok (ofMH r) := by
  unfold MHOps.andMH at h
  cases hi : Py.intersection a b with
  | error e => rw [hi] at h; cases h
  | ok pr =>
    obtain ⟨a', n⟩ := pr
    rw [hi] at h
    cases h
    obtain ⟨r1, r2, r3, r4, r5, r6, r7⟩ := pyIntersection_spec ha.scaled hb.inv hi
    -- parameters of the result: a clone of `a`, cleared and refilled
    have hpar : r.ksize = a.ksize ∧ r.hf = a.hf ∧ r.seed = a.seed := by
      unfold Py.intersection at hi
      rw [if_neg (by simp [r4, r5])] at hi
      unfold MH.ffiIntersection at hi
      cases hx : a.intersection b with
      | error e => simp [hx, bind, Except.bind] at hi
      | ok v =>
        simp only [hx, bind, Except.bind, pure, Except.pure, Except.ok.injEq, Prod.mk.injEq] at hi
        obtain ⟨_, rfl⟩ := hi
        have f := addMany_frame (a.clone.2.clear) v.1
        have c := clone_params a
        exact ⟨f.2.2.1.trans c.1, f.2.2.2.2.1.trans c.2.1, f.2.2.2.1.trans c.2.2⟩
    obtain ⟨S, s1, s2, s3⟩ := ha.sc
    have hinv : SInv k hf seed r := ⟨r1.inv, r1.num, hpar.1.trans ha.ksize, hpar.2.1.trans ha.hfun,
      hpar.2.2.trans ha.seedv, ⟨S, s1, s2, r3.trans s3⟩⟩
    refine ⟨hinv, ?_⟩
    have haab := flat_of_track_false r4
    have hbab := flat_of_track_false r5
    have hrab := flat_of_track_false r2
    have hsc : (ofMH a).scaled = (ofMH b).scaled := (ha.maxHash_eq_iff hb).1 r6
    unfold LS.and
    rw [if_neg (by simp [ofMH, haab, hbab]), if_neg (by simpa using hsc)]
    congr 1
    have hm : r.mins = interL a.mins b.mins := by
      rw [interL_eq_filter _ _ ha.inv.sorted hb.inv.sorted]
      apply Sorted.eq_of_mem_iff r1.inv.sorted (ha.inv.sorted.filter _)
      intro x
      rw [mem_iff_count_pos' r1.inv, r7 x, List.mem_filter, inL_iff]
      by_cases hx : x ∈ a.mins ∧ x ∈ b.mins <;> simp [hx]
    rw [ofMH_ext (scaledProp_mhR s1 s2 (r3.trans s3)) hm hrab,
      show (ofMH a).scaled = S from scaledProp_mhR s1 s2 s3]
    rfl

/-- `a.is_compatible(b)` -/
theorem sim_compatible {a b : MH} (ha : SInv k hf seed a) (hb : SInv k hf seed b) :
    MHOps.compatible a b = decide ((ofMH a).scaled = (ofMH b).scaled) := by
  unfold MHOps.compatible MH.checkCompatible
  rw [if_neg (by rw [ha.ksize, hb.ksize]; simp), if_neg (by rw [ha.hfun, hb.hfun]; simp)]
  by_cases hm : a.maxHash = b.maxHash
  · rw [if_neg (by simpa using hm), if_neg (by rw [ha.seedv, hb.seedv]; simp)]
    simp [(ha.maxHash_eq_iff hb).1 hm]
  · rw [if_pos hm]
    have : ¬ (ofMH a).scaled = (ofMH b).scaled := fun h => hm ((ha.maxHash_eq_iff hb).2 h)
    simp [this]

/-- `a.intersection_and_union_size(b)` -/
theorem sim_interSize {a b : MH} {v : Nat × Nat} (ha : SInv k hf seed a)
    (h : MHOps.interSize a b = .ok v) : LS.interSize (ofMH a) (ofMH b) = .ok v := by
  unfold MHOps.interSize MH.intersectionSize at h
  cases hx : a.intersection b with
  | error e => simp [hx, bind, Except.bind, lift] at h
  | ok w =>
    simp only [hx, bind, Except.bind, pure, Except.pure, lift, Except.ok.injEq] at h
    subst h
    unfold MH.intersection at hx
    rcases checkCompatible_cases a b with ⟨e, he⟩ | ⟨hok, _⟩
    · rw [he] at hx; simp [bind, Except.bind] at hx
    · rw [hok] at hx
      simp only [bind, Except.bind, ha.num, ne_eq, not_true_eq_false, if_false, pure, Except.pure,
        Except.ok.injEq] at hx
      subst hx
      rfl

/-! ### `copy_and_clear`, `to_mutable`, `remove_many` -/

theorem sim_copyAndClear {s r : MH} (hs : SInv k hf seed s)
    (h : lift (Py.copyAndClear s) = .ok r) :
    SInv k hf seed r ∧ ofMH r = { ofMH s with hs := [], ab := (ofMH s).ab.map (fun _ => []) } := by
  cases hc : Py.copyAndClear s with
  | error e => rw [hc] at h; cases h
  | ok r' =>
    rw [hc] at h
    cases h
    unfold Py.copyAndClear at hc
    rw [hs.num] at hc
    obtain ⟨f1, f2, f3, f4, f5, f6, f7⟩ := fresh_scaled hs.max_ne hs.stable hc
    obtain ⟨S, s1, s2, s3⟩ := hs.sc
    refine ⟨⟨f1.inv, f1.num, f5.trans hs.ksize, f6.trans hs.hfun, f7.trans hs.seedv, ⟨S, s1, s2, f2.trans s3⟩⟩, ?_⟩
    have hab : r.abunds = s.abunds.map (fun _ => []) := by
      cases hsa : s.abunds with
      | none =>
        have : r.trackAbundance = false := by rw [f3]; simp [MH.trackAbundance, hsa]
        rw [flat_of_track_false this]; rfl
      | some ab =>
        have htr : r.trackAbundance = true := by rw [f3]; simp [MH.trackAbundance, hsa]
        cases hra : r.abunds with
        | none => simp [MH.trackAbundance, hra] at htr
        | some ab' =>
          have := f1.inv.aligned ab' hra
          rw [f4] at this
          simp only [Option.map_some, Option.some.injEq]
          exact List.eq_nil_of_length_eq_zero this
    rw [ofMH_ext (scaledProp_mhR s1 s2 (f2.trans s3)) f4 hab]
    show _ = (⟨(ofMH s).scaled, [], s.abunds.map (fun _ => [])⟩ : LS)
    rw [show (ofMH s).scaled = S from scaledProp_mhR s1 s2 s3]

/-- `FrozenMinHash.to_mutable()` (through the pickle state): the same sketch -/
theorem sim_toMutable {s : MH} (hs : SInv k hf seed s) :
    SInv k hf seed (Py.pickleRoundTrip s) ∧ ofMH (Py.pickleRoundTrip s) = ofMH s := by
  obtain ⟨S, s1, s2, s3⟩ := hs.sc
  have hsp : scP s.maxHash = S := by rw [s3]; exact scP_mhR s1 s2
  have hn : Sm.Scaled (MH.new (scP s.maxHash) s.ksize s.hf s.seed s.trackAbundance s.num) := by
    refine ⟨inv_new .., ?_, ?_⟩
    · exact hs.num
    · show mhR (scP s.maxHash) ≠ 0
      rw [hsp]; exact mhR_pos s1 (le_trans s2 (by decide))
  have hnM : (MH.new (scP s.maxHash) s.ksize s.hf s.seed s.trackAbundance s.num).maxHash = s.maxHash := by
    show mhR (scP s.maxHash) = s.maxHash
    rw [hsp, s3]
  have hnT : (MH.new (scP s.maxHash) s.ksize s.hf s.seed s.trackAbundance s.num).trackAbundance
      = s.trackAbundance := new_trackAbundance ..
  have hkeys : s.pairs.map Prod.fst = s.mins := pairs_keys hs.inv.toW
  -- the rebuilt sketch: valid, same parameters, same counts
  have key : Sm.Scaled (Py.pickleRoundTrip s) ∧ (Py.pickleRoundTrip s).maxHash = s.maxHash ∧
      (Py.pickleRoundTrip s).trackAbundance = s.trackAbundance ∧
      ((Py.pickleRoundTrip s).ksize = s.ksize ∧ (Py.pickleRoundTrip s).hf = s.hf ∧
        (Py.pickleRoundTrip s).seed = s.seed) ∧ ∀ x, count (Py.pickleRoundTrip s) x = count s x := by
    unfold Py.pickleRoundTrip Py.setState
    simp only []
    by_cases htr : s.trackAbundance = true
    · rw [if_pos htr]
      obtain ⟨c1, c2⟩ := count_ffiSetAbundances_clear hn s.pairs (by rw [hkeys]; exact hs.inv.sorted.nodup)
      have f := ffiSetAbundances_frame (MH.new (scP s.maxHash) s.ksize s.hf s.seed s.trackAbundance s.num) s.pairs
      refine ⟨c1, f.1.trans hnM, f.2.1.trans hnT, ⟨f.2.2.1, f.2.2.2.1, f.2.2.2.2⟩, ?_⟩
      intro x
      rw [c2 x, hnM, hnT, if_pos htr]
      by_cases hx : x > s.maxHash
      · rw [if_pos hx, count_eq_zero_of_gt hs.scaled hx]
      · rw [if_neg hx]; rfl
    · rw [if_neg htr]
      have htf : s.trackAbundance = false := by simpa using htr
      rw [hkeys]
      have f := addMany_frame (MH.new (scP s.maxHash) s.ksize s.hf s.seed s.trackAbundance s.num) s.mins
      refine ⟨hn.addMany _, f.2.1.trans hnM, f.2.2.2.2.2.trans hnT, ⟨f.2.2.1, f.2.2.2.2.1, f.2.2.2.1⟩, ?_⟩
      intro x
      rw [count_addMany_scaled hn, hnM, hnT, htf, count_new]
      by_cases hx : x > s.maxHash
      · rw [if_pos hx, count_eq_zero_of_gt hs.scaled hx]
      · rw [if_neg hx, count_flat hs.inv htf]
        simp
  obtain ⟨k1, k2, k3, ⟨k4, k5, k6⟩, k7⟩ := key
  refine ⟨⟨k1.inv, k1.num, k4.trans hs.ksize, k5.trans hs.hfun, k6.trans hs.seedv, ⟨S, s1, s2, k2.trans s3⟩⟩, ?_⟩
  obtain ⟨e1, e2⟩ := ext_of_count' k1.inv hs.inv k3 k7
  unfold ofMH
  rw [e1, e2, scaledProp_mhR s1 s2 (k2.trans s3), scaledProp_mhR s1 s2 s3]

theorem removeMany_params (s : MH) (l : List Nat) :
    (s.removeMany l).ksize = s.ksize ∧ (s.removeMany l).hf = s.hf ∧ (s.removeMany l).seed = s.seed := by
  unfold MH.removeMany
  induction l generalizing s with
  | nil => exact ⟨rfl, rfl, rfl⟩
  | cons y ys ih =>
    have h1 := ih (s.removeHash y)
    have h2 := removeHash_frame s y
    simp only [List.foldl_cons]
    exact ⟨h1.1.trans h2.2.2.1, h1.2.1.trans h2.2.2.2.2.1, h1.2.2.trans h2.2.2.2.1⟩

/-- `a.remove_many(b)` -/
theorem sim_removeFrom {a : MH} (ha : SInv k hf seed a) (b : MH) :
    SInv k hf seed (a.removeFrom b) ∧ ofMH (a.removeFrom b) = LS.removeFrom (ofMH a) (ofMH b) := by
  unfold MH.removeFrom
  have hinv := inv_removeMany ha.inv b.mins
  have f := removeMany_frame a b.mins
  have hpar := removeMany_params a b.mins
  obtain ⟨S, s1, s2, s3⟩ := ha.sc
  refine ⟨⟨hinv, f.1.trans ha.num, hpar.1.trans ha.ksize, hpar.2.1.trans ha.hfun, hpar.2.2.trans ha.seedv,
    ⟨S, s1, s2, f.2.1.trans s3⟩⟩, ?_⟩
  have hv := vectors_of_count_filter ha.inv hinv f.2.2 (fun h => !b.mins.contains h) (by
    intro x
    rw [count_removeMany ha.inv]
    by_cases hx : x ∈ b.mins <;> simp [hx])
  rw [ofMH_ext (scaledProp_mhR s1 s2 (f.2.1.trans s3)) hv.1 hv.2]
  show _ = LS.filterH (fun h => !(ofMH b).hs.contains h) (ofMH a)
  unfold LS.filterH ofMH
  rw [scaledProp_mhR s1 s2 s3]

/-! ### `count_common(downsample=True)` -/

theorem SInv.rust_scaled {s : MH} (h : SInv k hf seed s) : s.scaled = (ofMH s).scaled := by
  obtain ⟨S, s1, s2, s3⟩ := h.sc
  rw [show (ofMH s).scaled = S from scaledProp_mhR s1 s2 s3]
  unfold MH.scaled
  rw [s3]
  exact scR_mhR s1 s2

/-- the implicit downsampling of `count_common`: the finer sketch `s` is cloned and brought to the scaled value
of the coarser sketch `f` -/
theorem cc_core {f s : MH} {n : Nat} (hf' : SInv k hf seed f) (hs : SInv k hf seed s)
    (hgt : (ofMH s).scaled < (ofMH f).scaled)
    (h : (do
        let d ← (s.clone.2).downsampleScaled f.scaled
        f.checkCompatible d
        pure (interL f.mins d.mins).length : Except MH.Err Nat) = .ok n) :
    n = (interL f.mins (s.mins.filter (fun h => decide (h ≤ mhR (ofMH f).scaled)))).length := by
  obtain ⟨f1, f2, f3⟩ := hf'.scaled_spec
  have hc := clone_fields s
  have hcinv := (inv_clone hs.inv).2
  have hcs : s.clone.2.scaled = (ofMH s).scaled := by
    unfold MH.scaled
    rw [hc.2.2.2.1]
    exact hs.rust_scaled
  rw [hf'.rust_scaled] at h
  cases hd : (s.clone.2).downsampleScaled (ofMH f).scaled with
  | error e => simp [hd, bind, Except.bind] at h
  | ok d =>
    simp only [hd, bind, Except.bind] at h
    have hne : mhR (ofMH f).scaled ≠ 0 := mhR_pos f1 (le_trans f2 (by decide))
    have h0 : s.clone.2.scaled ≠ 0 := by rw [hcs]; have := hs.scaled_spec.1; omega
    obtain ⟨d1, _, _, d4, d5⟩ := downsample_ok hcinv (hc.2.2.2.2.trans hs.num) h0 _ (by rw [hcs]; exact hgt) hne hd
    have hv := vectors_of_count_filter hcinv d1 d4 (fun x => decide (x ≤ mhR (ofMH f).scaled)) (by
      intro x
      rw [d5 x]
      by_cases hx : x ≤ mhR (ofMH f).scaled <;> simp [hx])
    rcases checkCompatible_cases f d with ⟨e, he⟩ | ⟨hok, _⟩
    · rw [he] at h; cases h
    · rw [hok] at h
      simp only [pure, Except.pure, Except.ok.injEq] at h
      rw [← h, hv.1, hc.2.1]

/-- `a.count_common(b, downsample=True)` -/
theorem sim_cc {a b : MH} {n : Nat} (ha : SInv k hf seed a) (hb : SInv k hf seed b)
    (h : MHOps.cc a b = .ok n) : LS.cc (ofMH a) (ofMH b) = .ok n := by
  unfold MHOps.cc at h
  cases hcc : a.countCommon b true with
  | error e => rw [hcc] at h; cases h
  | ok n' =>
    rw [hcc] at h
    cases h
    unfold MH.countCommon at hcc
    rw [ha.rust_scaled, hb.rust_scaled] at hcc
    unfold LS.cc
    by_cases he : (ofMH a).scaled = (ofMH b).scaled
    · rw [if_pos he]
      rw [if_neg (by simp [he])] at hcc
      rcases checkCompatible_cases a b with ⟨e, hce⟩ | ⟨hok, _⟩
      · rw [hce] at hcc; simp [bind, Except.bind] at hcc
      · rw [hok] at hcc
        simp only [bind, Except.bind, pure, Except.pure, Except.ok.injEq] at hcc
        rw [← hcc]
        rfl
    · rw [if_neg he]
      rw [if_pos ⟨rfl, he⟩] at hcc
      by_cases hgt : (ofMH a).scaled > (ofMH b).scaled
      · rw [if_pos hgt]
        rw [if_pos hgt] at hcc
        have := cc_core ha hb hgt hcc
        rw [this]
        rfl
      · rw [if_neg hgt]
        rw [if_neg hgt] at hcc
        have := cc_core hb ha (by omega) hcc
        rw [this]
        rfl

end Sm.Gather
