/-
Concrete instances evaluated by the kernel: an exact-rational `ScoreOps` that satisfies
`ScoreLaws`, and the data of the counterexamples / non-vacuity examples of `Props/C07.lean`.
-/
import SmVerif.Lemmas.GatherReach

set_option autoImplicit false

namespace Sm.Gather

open Sm

/-- scores as exact fractions `(num, den)`: containment without the bias factor -/
def ratOps : ScoreOps (Nat × Nat) where
  contained := fun c d _ => (c, d)
  ofF := fun x => if x.e ≥ 0 then (x.m * 2 ^ x.e.toNat, 1) else (x.m, 2 ^ (-x.e).toNat)
  gt := fun a b => decide (a.1 * b.2 > b.1 * a.2)
  ge := fun a b => decide (a.1 * b.2 ≥ b.1 * a.2)
  isZero := fun a => decide (a.1 = 0)
  ltOne := fun a => decide (a.1 < a.2)
  std := fun _ => (0, 1)
  str := fun a => s!"{a.1}/{a.2}"

theorem ratOps_laws : ScoreLaws ratOps := by
  constructor
  intro c c' d s _ _ hd _
  show decide (c * d > c' * d) = decide (c' < c)
  congr 1
  apply propext
  constructor
  · intro h; exact Nat.lt_of_mul_lt_mul_right h
  · intro h; exact Nat.mul_lt_mul_of_pos_right h hd

/-! ### D6 lifted to gather: a query finer than the database, `threshold_bp = 23` -/

def d6Query : LS := ⟨2, (List.range 14).map (· + 1) ++ (List.range 10).map (· + 4611686018427387905), none⟩
def d6Match : Sig LS := ⟨1, 1, ⟨4, [1, 2, 3, 4, 5, 6], none⟩⟩

/-- prefetch drops the only database sketch, gather reports nothing, although the sketch overlaps the query
by 6 hashes at scaled 4 = 24 bp ≥ 23 bp -/
def d6Check : Bool :=
  match counterGather lsOps [d6Match] d6Query 23 with
  | .ok c =>
    c.entries.isEmpty &&
    (match GD.init lsOps d6Query [.cg c] 23 false none none with
     | .ok g =>
       (match g.next lsOps ratOps with
        | .ok (_, none) => true
        | _ => false)
     | .error _ => false) &&
    decide (ovl (dn 4 d6Query.hs) (dn 4 d6Match.mh.hs) * 4 ≥ 23)
  | .error _ => false

theorem d6Check_true : d6Check = true := by decide +kernel

/-! ### a database mixing scaled values (query at 2, sketches at 2 and 4) -/

def mixQuery : LS :=
  ⟨2, (List.range 5).map (· + 1) ++ (List.range 15).map (· + 4611686018427387905), none⟩
def mixA : Sig LS := ⟨1, 1, ⟨2, (List.range 15).map (· + 4611686018427387905), none⟩⟩
def mixB : Sig LS := ⟨2, 2, ⟨4, [1, 2, 3], none⟩⟩

/-- on-demand mode: two rounds, `(|U|, orig_query_len)` = (15, 20) then (3, 5): 15/20 + 3/5 = 1.35 -/
def mixSumCheck : Bool :=
  match GD.init lsOps mixQuery [.idx [mixA, mixB]] 0 false none none with
  | .ok g =>
    (match g.run lsOps ratOps 5 with
     | .ok (_, rs) => decide (rs.map (fun r => (r.name, r.isectCur.length, r.queryNHashes)) = [(1, 15, 20), (2, 3, 5)])
     | .error _ => false)
  | .error _ => false

theorem mixSumCheck_true : mixSumCheck = true := by decide +kernel

/-- prefetch mode on the same data (regression for finding D25, fixed upstream): the count of sketch A (15,
counted at scaled 2) is stale once the counter's resolution is 4.  Before the fix `peek` computed containment 0
for it and its `assert cont` failed; the patched `peek` re-counts the entry (0 at scaled 4: every hash of A is
above the scaled-4 bound), drops it, and reports B: one round, `(|U|, orig_query_len)` = (3, 5) -/
def mixNoAssertCheck : Bool :=
  match counterGather lsOps [mixA, mixB] mixQuery 0 with
  | .ok c =>
    (match GD.init lsOps mixQuery [.cg c] 0 false none none with
     | .ok g =>
       (match g.run lsOps ratOps 5 with
        | .ok (_, rs) =>
          decide (rs.map (fun r => (r.name, r.isectCur.length, r.queryNHashes)) = [(2, 3, 5)])
        | .error _ => false)
     | .error _ => false)
  | .error _ => false

theorem mixNoAssertCheck_true : mixNoAssertCheck = true := by decide +kernel

/-! ### the command-line path: ident / noident split -/

/-- the database `[exD1, exD2]` (below) covers the query hashes 1..15; `commands.gather` starts gather from those
(`ident_mh`) and keeps 16..20 aside (`noident_mh`); the two rounds report `orig_query_len` 20 = the whole
query, unique overlaps 11 and 4, and `remaining_bp` counts the never-identified hashes -/
def cliRunCheck (q : LS) (db : List (Sig LS)) : Bool :=
  match counterGather lsOps db q 0 with
  | .ok c =>
    (match cliSplit lsOps q [c] with
     | .ok (ident, noident) =>
       decide (ident.hs = (List.range 15).map (· + 1)) && decide (noident.hs = (List.range 5).map (· + 16)) &&
       (match GD.init lsOps q [.cg c] 0 false (some noident) (some ident) with
        | .ok g =>
          (match g.run lsOps ratOps 10 with
           | .ok (gf, rs) =>
             decide (rs.map (fun r => (r.name, r.isectCur.length, r.queryNHashes, r.remainingBp))
               = [(2, 11, 20, 18), (1, 4, 20, 10)]) && decide (gf.query.hs = [])
           | .error _ => false)
        | .error _ => false)
     | .error _ => false)
  | .error _ => false

/-! ### non-vacuity: a three-round run with abundances, database at the query's scaled -/

def exQuery : LS := ⟨2, (List.range 20).map (· + 1), some ((List.range 20).map (fun i => i % 3 + 1))⟩
def exD1 : Sig LS := ⟨11, 1, ⟨2, (List.range 10).map (· + 1), none⟩⟩
def exD2 : Sig LS := ⟨12, 2, ⟨2, (List.range 11).map (· + 5), none⟩⟩
def exD3 : Sig LS := ⟨13, 3, ⟨2, (List.range 5).map (· + 14), none⟩⟩

/-- names, unique-overlap sizes, remaining bp, weighted sums of the three rounds (the numbers sourmash prints
for this input: d2 22/22 bp, d1 20/8 bp, d3 10/6 bp; remaining 18, 10, 4; sum_weighted_found 23, 30, 36 of 39) -/
def exRunCheck : Bool :=
  match counterGather lsOps [exD1, exD2, exD3] exQuery 0 with
  | .ok c =>
    (match GD.init lsOps exQuery [.cg c] 0 false none none with
     | .ok g =>
       (match g.run lsOps ratOps 10 with
        | .ok (gf, rs) =>
          decide (rs.map (fun r => (r.name, r.intersectBp, r.uniqueIntersectBp, r.remainingBp, r.sumWeightedFound,
              r.totalWeightedHashes)) = [(2, 22, 22, 18, 23, 39), (1, 20, 8, 10, 30, 39), (3, 10, 6, 4, 36, 39)])
          && decide (gf.query.hs = [19, 20])
        | .error _ => false)
     | .error _ => false)
  | .error _ => false

theorem exRunCheck_true : exRunCheck = true := by decide +kernel

theorem cliRunCheck_true : cliRunCheck exQuery [exD1, exD2] = true := by decide +kernel

theorem range_succ_sorted (n k : Nat) : Sorted ((List.range n).map (· + k)) := by
  unfold Sorted
  rw [List.pairwise_map]
  exact (List.pairwise_lt_range).imp (fun h => by omega)

end Sm.Gather
