/-
C06, `LCA_Database.find`: candidate selection through the inverted index is exact -- the counter
holds precisely the stored sketches that share a hash with the (prepared) query, each once, with
the size of the overlap.  (Everything after that is rescoring with `count_common` / `+`, the
operations C04/C05 are about.)
-/
import SmVerif.Lemmas.SearchCounter
import SmVerif.Lemmas.SearchPair

namespace Sm.Search

open Sm

/-- the fold `find` performs over the query hashes and the inverted index -/
def lcaCounter (db : LcaDb) (Q : List Nat) : List (Nat × Nat) :=
  Q.foldl (fun c h => (db.idxOf h).foldl counterIncr c) []

theorem foldl_flatMap_counter (f : Nat → List Nat) (Q : List Nat) (c : List (Nat × Nat)) :
    Q.foldl (fun c h => (f h).foldl counterIncr c) c = (Q.flatMap f).foldl counterIncr c := by
  induction Q generalizing c with
  | nil => rfl
  | cons h rest ih => simp only [List.foldl_cons, List.flatMap_cons, List.foldl_append, ih]

theorem lcaCounter_eq (db : LcaDb) (Q : List Nat) : lcaCounter db Q = countAll (Q.flatMap db.idxOf) := by
  unfold lcaCounter countAll
  exact foldl_flatMap_counter db.idxOf Q []

/-- an idx occurs in `_hashval_to_idx[h]` once if the sketch holds `h`, not at all otherwise -/
theorem count_idxOf (db : LcaDb) (hn : (db.entries.map Prod.fst).Nodup) {i : Nat} {s : MH}
    (hs : (i, s) ∈ db.entries) (h : Nat) :
    (db.idxOf h).count i = if h ∈ s.mins then 1 else 0 := by
  unfold LcaDb.idxOf
  generalize db.entries = es at hn hs
  induction es with
  | nil => cases hs
  | cons e rest ih =>
    obtain ⟨j, t⟩ := e
    simp only [List.map_cons, List.nodup_cons] at hn
    rcases List.mem_cons.1 hs with heq | hmem
    · cases heq
      -- no other entry has idx i
      have hrest : ((rest.filter (fun e => e.2.mins.contains h)).map Prod.fst).count i = 0 := by
        apply List.count_eq_zero_of_not_mem
        intro hm
        obtain ⟨p, hp, e⟩ := List.mem_map.1 hm
        exact hn.1 (List.mem_map.2 ⟨p, (List.mem_filter.1 hp).1, e⟩)
      by_cases hc : h ∈ s.mins
      · have : s.mins.contains h = true := List.contains_iff_mem.2 hc
        rw [List.filter_cons_of_pos (by simpa using this), List.map_cons, List.count_cons_self, hrest, if_pos hc]
      · have : ¬ (s.mins.contains h = true) := fun x => hc (List.contains_iff_mem.1 x)
        rw [List.filter_cons_of_neg (by simpa using this), hrest, if_neg hc]
    · have hne : j ≠ i := by
        intro e
        apply hn.1
        rw [e]
        exact List.mem_map.2 ⟨(i, s), hmem, rfl⟩
      by_cases hc : t.mins.contains h = true
      · rw [List.filter_cons_of_pos (by simpa using hc), List.map_cons, List.count_cons_of_ne hne]
        exact ih hn.2 hmem
      · rw [List.filter_cons_of_neg (by simpa using hc)]
        exact ih hn.2 hmem

theorem count_flatMap_idxOf (db : LcaDb) (hn : (db.entries.map Prod.fst).Nodup) {i : Nat} {s : MH}
    (hs : (i, s) ∈ db.entries) (Q : List Nat) :
    (Q.flatMap db.idxOf).count i = (Q.filter (fun h => decide (h ∈ s.mins))).length := by
  induction Q with
  | nil => rfl
  | cons h rest ih =>
    rw [List.flatMap_cons, List.count_append, ih, count_idxOf db hn hs h]
    by_cases hc : h ∈ s.mins
    · rw [if_pos hc, List.filter_cons_of_pos (by simpa using hc), List.length_cons]; omega
    · rw [if_neg hc, List.filter_cons_of_neg (by simpa using hc)]; omega

theorem mem_idxOf {db : LcaDb} {h i : Nat} (hm : i ∈ db.idxOf h) : ∃ s, (i, s) ∈ db.entries ∧ h ∈ s.mins := by
  unfold LcaDb.idxOf at hm
  obtain ⟨p, hp, e⟩ := List.mem_map.1 hm
  obtain ⟨hp1, hp2⟩ := List.mem_filter.1 hp
  obtain ⟨j, s⟩ := p
  simp only [] at e
  subst e
  exact ⟨s, hp1, List.contains_iff_mem.1 hp2⟩

/-- **candidate selection of `LCA_Database.find` is exact**: `(idx, n)` comes out of
`Counter.most_common()` iff `idx` is a stored sketch sharing `n > 0` hashes with the query; every
idx at most once -/
theorem lca_candidates (db : LcaDb) (hn : (db.entries.map Prod.fst).Nodup) (Q : List Nat) :
    ((mostCommon (lcaCounter db Q)).map Prod.fst).Nodup ∧
    ∀ i n, (i, n) ∈ mostCommon (lcaCounter db Q) ↔
      ∃ s, (i, s) ∈ db.entries ∧ n = (Q.filter (fun h => decide (h ∈ s.mins))).length ∧ 0 < n := by
  rw [lcaCounter_eq]
  refine ⟨(List.Perm.nodup_iff ((mostCommon_perm _).map Prod.fst)).2 (countAll_nodup _), ?_⟩
  intro i n
  rw [(mostCommon_perm _).mem_iff, mem_countAll]
  constructor
  · intro ⟨h1, h2⟩
    have hpos : 0 < (Q.flatMap db.idxOf).count i := by omega
    have hmem : i ∈ Q.flatMap db.idxOf := List.count_pos_iff.1 hpos
    obtain ⟨h, _, hi⟩ := List.mem_flatMap.1 hmem
    obtain ⟨s, hs, _⟩ := mem_idxOf hi
    exact ⟨s, hs, by rw [h1, count_flatMap_idxOf db hn hs], h2⟩
  · intro ⟨s, hs, h1, h2⟩
    exact ⟨by rw [h1, count_flatMap_idxOf db hn hs], h2⟩

end Sm.Search
