/-
Helper lemmas for C14: `sourmash compute` builds, for each molecule type it was asked for, the
sketches the equivalent `sketch -p <moltype>,k=..,num|scaled=..,abund|noabund,seed=..` builds.
-/
import SmVerif.Model.SketchCompute
import SmVerif.Lemmas.SketchCanon

namespace Sm.Sketch

open Sm

/-- whatever its options, `compute` never asks for a sketch that is both num and scaled: `--scaled`
resets the default `num_hashes = 500` to 0 (the raw `ComputeParameters(scaled=..)` API does not) -/
theorem computeParams_excl {a : ComputeArgs} {c : CP} (h : computeParams a = .ok c) :
    c.scaled = 0 ∨ c.num = 0 := by
  unfold computeParams at h
  simp only [] at h
  split at h
  · cases h
  · split at h
    · cases h
    · rename_i num scaled hsz
      have hx : scaled = 0 ∨ num = 0 := by
        split at hsz
        · cases hsz
        · cases hsz
        · simp only [Except.ok.injEq, Prod.mk.injEq] at hsz; exact Or.inl hsz.2.symm
        · split at hsz
          · cases hsz
          · simp only [Except.ok.injEq, Prod.mk.injEq] at hsz; exact Or.inr hsz.1.symm
      repeat' split at h
      all_goals first
        | (simp only [Except.ok.injEq] at h; subst h; exact hx)
        | cases h

/-- the `-p` items that ask `sketch` for the sketches of molecule type `m` a parameter set stands for:
the canonical form of this summary -/
def equivSummary (c : CP) (m : Mol) : Summary :=
  { mol := some m,
    ks := c.ksizes.map (fun k => if m = .dna then k else k / 3),
    track := some c.track,
    sz := if c.scaled = 0 then some (true, c.num) else some (false, c.scaled),
    seed := some c.seed }

/-- the parameter set `sketch` makes of it -/
def cpFor (c : CP) (m : Mol) : CP :=
  { ksizes := c.ksizes, seed := c.seed, protein := m = .protein, dayhoff := m = .dayhoff, hp := m = .hp,
    dna := m = .dna, num := c.num, track := c.track, scaled := c.scaled }

theorem template_cpFor (c : CP) (m : Mol) (k : Nat) (m' : Mol) : template (cpFor c m) k m' = template c k m' := rfl

theorem molsOf_cpFor (c : CP) (m : Mol) : molsOf (cpFor c m) = [m] := by
  cases m <;> simp [molsOf, cpFor]

theorem buildTemplate_cpFor (c : CP) (m : Mol) :
    buildTemplate (cpFor c m) = c.ksizes.map (fun k => template c k m) := by
  unfold buildTemplate
  rw [molsOf_cpFor]
  simp only [List.map_cons, List.map_nil, template_cpFor]
  show List.flatMap (fun k => [template c k m]) c.ksizes = _
  induction c.ksizes with
  | nil => rfl
  | cons k ks ih => simp [ih]

/-- hypotheses under which the equivalent `sketch` invocation exists: a k size is given, protein
k sizes are multiples of 3 (`compute` checks this itself), numbers fit their C fields, the scaled
value is one `float` represents, and the sketch has a size -/
structure Equivalent (c : CP) (m : Mol) : Prop where
  ks_ne : c.ksizes ≠ []
  div3 : m ≠ .dna → ∀ k ∈ c.ksizes, k % 3 = 0
  kfit : ∀ k ∈ c.ksizes, k < 2 ^ 32
  seedfit : c.seed < 2 ^ 64
  numfit : c.num < 2 ^ 32
  scaledfit : c.scaled < 2 ^ 64
  float : floatOfNat c.scaled = some c.scaled
  excl : c.scaled = 0 ∨ c.num = 0
  sized : c.scaled ≠ 0 ∨ c.num ≠ 0

theorem equivSummary_floats {c : CP} {m : Mol} (h : Equivalent c m) : (equivSummary c m).Floats := by
  intro n hn
  unfold equivSummary at hn
  simp only at hn
  split at hn
  · cases hn
  · simp only [Option.some.injEq, Prod.mk.injEq, true_and] at hn
    subst hn
    rw [h.float]; rfl

theorem kmult_three : (Gen.sketchKMult : Int) = 3 := by decide

theorem rawOf_of_fields (m : Mol) (p : Params) (ks : List Int) (sd : Int) (n s : Nat) (t : Bool)
    (hks : p.ksize = ks) (hne : ks ≠ []) (hseed : p.seed = some sd) (hnum : p.num = some n)
    (htr : p.track = some t) (hsc : p.scaled = some s) :
    rawOf m p = { ksizes := if m ≠ .dna then ks.map (· * (Gen.sketchKMult : Int)) else ks, seed := sd, mol := m,
                  num := n, track := t, scaled := s } := by
  obtain ⟨ksize, track, num, scaled, seed⟩ := p
  simp only at hks hseed hnum htr hsc
  subst hks hseed hnum htr hsc
  have : ksize.isEmpty = false := by
    cases ksize with
    | nil => exact absurd rfl hne
    | cons a as => rfl
  unfold rawOf
  simp only [this, Bool.false_eq_true, if_false]

theorem rawOf_equiv {c : CP} {m : Mol} (h : Equivalent c m) :
    rawOf m (equivSummary c m).state.2 =
      { ksizes := c.ksizes.map (fun (k : Nat) => (k : Int)), seed := (c.seed : Int), mol := m, num := c.num,
        track := c.track, scaled := c.scaled } := by
  have hnum : szNum (if c.scaled = 0 then some (true, c.num) else some (false, c.scaled)) = some c.num := by
    by_cases hz : c.scaled = 0
    · simp [hz, szNum]
    · rcases h.excl with e | e
      · exact absurd e hz
      · simp [hz, szNum, e]
  have hsc : szScaled (if c.scaled = 0 then some (true, c.num) else some (false, c.scaled)) = some c.scaled := by
    by_cases hz : c.scaled = 0
    · simp [hz, szScaled]
    · simp [hz, szScaled, h.float]
  rw [rawOf_of_fields m (equivSummary c m).state.2
    ((c.ksizes.map (fun k => if m = .dna then k else k / 3)).map (fun (n : Nat) => (n : Int))) (c.seed : Int)
    c.num c.scaled c.track rfl (by simp [h.ks_ne]) rfl hnum rfl hsc]
  congr 1
  by_cases hm : m = .dna
  · simp [hm]
  · simp only [hm, ne_eq, not_false_eq_true, if_true, if_false, List.map_map, kmult_three]
    apply List.map_congr_left
    intro k hk
    have := h.div3 hm k hk
    simp only [Function.comp]
    omega

theorem mkCP_equiv {c : CP} {m : Mol} (h : Equivalent c m) :
    mkCP { ksizes := c.ksizes.map (fun (k : Nat) => (k : Int)), seed := (c.seed : Int), mol := m, num := c.num,
           track := c.track, scaled := c.scaled } (c.ksizes.map (fun (k : Nat) => (k : Int))) = .ok (cpFor c m) := by
  unfold mkCP
  have h1 : ¬ ((c.seed : Int) < 0 ∨ (c.seed : Int) ≥ 2 ^ 64) := by
    have := h.seedfit
    omega
  have h2 : (c.ksizes.map (fun (k : Nat) => (k : Int))).any (fun k => decide (k < 0 ∨ k ≥ 2 ^ 32)) = false := by
    rw [List.any_eq_false]
    intro k hk
    simp only [List.mem_map] at hk
    obtain ⟨n, hn, rfl⟩ := hk
    have := h.kfit n hn
    simp only [decide_eq_true_eq]
    omega
  have h3 : ¬ c.num ≥ 2 ^ 32 := by have := h.numfit; omega
  have h4 : ¬ c.scaled ≥ 2 ^ 64 := by have := h.scaledfit; omega
  simp only [h1, h2, h3, h4, if_false, Bool.false_eq_true]
  simp [cpFor, Function.comp_def]

theorem zeroSized_equiv {c : CP} {m : Mol} (h : Equivalent c m) :
    zeroSized (m, (equivSummary c m).state.2) = false := by
  have hnum : szNum (if c.scaled = 0 then some (true, c.num) else some (false, c.scaled)) = some c.num := by
    by_cases hz : c.scaled = 0
    · simp [hz, szNum]
    · rcases h.excl with e | e
      · exact absurd e hz
      · simp [hz, szNum, e]
  have hsc : szScaled (if c.scaled = 0 then some (true, c.num) else some (false, c.scaled)) = some c.scaled := by
    by_cases hz : c.scaled = 0
    · simp [hz, szScaled]
    · simp [hz, szScaled, h.float]
  have e1 : (equivSummary c m).state.2.num = some c.num := hnum
  have e2 : (equivSummary c m).state.2.scaled = some c.scaled := hsc
  unfold zeroSized
  simp only [e1, e2]
  rcases h.sized with hs | hn
  · simp [hs]
  · simp [hn]

theorem computeParamsOf_equiv {c : CP} {m : Mol} (h : Equivalent c m) :
    computeParamsOf false (m, (equivSummary c m).state.2) = .ok [cpFor c m] := by
  unfold computeParamsOf
  simp only [Bool.false_eq_true, if_false]
  rw [rawOf_equiv h]
  simp only []
  rw [mkCP_equiv h]
  rfl

/-- **`compute` and `sketch` build the same sketches**: for a parameter set `compute` arrives at and
a molecule type `m` it was asked for, the `sketch` factory given the single string
`<m>,k=..,k=..,num=N|scaled=S,abund|noabund,seed=..` (amino-acid k sizes for the protein alphabets,
no default molecule type) returns one signature holding exactly `compute`'s sketches of type `m`,
in the order of the k sizes -/
theorem factory_equiv {c : CP} {m : Mol} (h : Equivalent c m) :
    factory [renderItems (equivSummary c m).canon] none false =
      .ok [c.ksizes.map (fun k => template c k m)] := by
  have hne : (equivSummary c m).canon ≠ [] :=
    canon_ne_nil _ (Or.inl rfl)
  have hparse : parseParamsStr (renderItems (equivSummary c m).canon) = .ok (equivSummary c m).state := by
    rw [parse_render _ hne, applyAll_canon _ (equivSummary_floats h)]
  have hstate : (equivSummary c m).state = (some m, (equivSummary c m).state.2) := rfl
  have hcore : factoryInitCore [renderItems (equivSummary c m).canon] none =
      .ok [(m, (equivSummary c m).state.2)] := by
    show factoryInitCore.go [renderItems (equivSummary c m).canon] none = _
    unfold factoryInitCore.go
    rw [hparse, hstate]
    simp [factoryInitCore.go]
  have hinit : factoryInit [renderItems (equivSummary c m).canon] none =
      .ok [(m, (equivSummary c m).state.2)] := by
    unfold factoryInit
    rw [hcore]
    simp [zeroSized_equiv h]
  unfold factory
  rw [hinit]
  simp only [mapM', computeParamsOf_equiv h]
  simp [buildTemplate_cpFor]

end Sm.Sketch
