/-
Prefetch mode against on-demand mode (C08 `mode_equiv`) for every threshold, on inputs without D6:
`threshold_bp = 0`, or a query at least as coarse as the database.

Both modes' float threshold tests are the integer test `threshold_bp ≤ k · scaled` (`Lemmas/GatherThreshold.lean`,
from C06's analysis of the correctly rounded quotient), so both modes report exactly the sketches of maximal
overlap among the *eligible* ones (`Elig`: non-empty overlap worth at least `threshold_bp` base pairs) and
stop exactly when no sketch is eligible.
-/
import SmVerif.Lemmas.GatherModes
import SmVerif.Lemmas.GatherThreshold

set_option autoImplicit false

namespace Sm.Gather

open Sm Sm.F64

variable {σ : Type} {ops : ScoreOps σ}

/-- the statement's eligibility: a non-empty overlap of `k` hashes at scaled `S` worth at least `thr` bp -/
def Elig (thr S k : Nat) : Prop := k ≠ 0 ∧ thr ≤ k * S

theorem Elig.mono {thr S k k' : Nat} (h : Elig thr S k) (hk : k ≤ k') : Elig thr S k' :=
  ⟨by have := h.1; omega, le_trans h.2 (Nat.mul_le_mul_right _ hk)⟩

/-- the threshold is attainable whenever some overlap can reach it -/
theorem calcThreshold_ok_of_le {thr S n : Nat} (hS0 : 0 < S) (hS : S < 2 ^ 53) (hn0 : 0 < n) (hn : n < 2 ^ 53)
    (hthr : thr < 2 ^ 53) (hle : thr ≤ n * S) : ∃ t nT, calcThreshold thr S n = .ok (t, nT) := by
  by_cases h0 : thr = 0
  · subst h0; exact ⟨_, _, calcThreshold_zero _ _⟩
  unfold calcThreshold
  rw [if_neg h0, if_neg (by omega)]
  simp only []
  have hthrp : 0 < thr := Nat.pos_of_ne_zero h0
  obtain ⟨ebp, mbp⟩ := ofNat_exact thr hthrp hthr
  obtain ⟨eS, mS⟩ := ofNat_exact S hS0 hS
  obtain ⟨en, mn⟩ := ofNat_exact n hn0 hn
  have r1 := isRN_div mbp mS
  rw [ebp, eS] at r1
  have nTpos : 0 < (F64.div (F64.ofNat thr) (F64.ofNat S)).m := (div_spec _ _ mbp mS).1
  have r2 := isRN_div nTpos mn
  rw [en] at r2
  have hSq : (0 : ℚ) < S := by exact_mod_cast hS0
  have hnq : (0 : ℚ) < n := by exact_mod_cast hn0
  -- fl(thr / S) ≤ n
  have hn1 : IsRN ((n : ℚ) / (1 : Nat)) (divNat n 1).val := isRN_divNat hn0 (by decide)
  have hexn : (divNat n 1).val = n := by
    apply IsRN.exact_nat _ hn
    simpa using hn1
  have hq1 : (thr : ℚ) / S ≤ (n : ℚ) / (1 : Nat) := by
    rw [Nat.cast_one, div_one, div_le_iff₀ hSq]
    exact_mod_cast hle
  have hnT : (F64.div (F64.ofNat thr) (F64.ofNat S)).val ≤ n := by
    have := IsRN.mono_le hn (by decide) hq1 r1 hn1
    rwa [hexn] at this
  -- fl(fl(thr / S) / n) ≤ 1
  have h11 : IsRN (((1 : Nat) : ℚ) / (1 : Nat)) (divNat 1 1).val := isRN_divNat (by decide) (by decide)
  have hex1 : (divNat 1 1).val = ((1 : Nat) : ℚ) := by
    apply IsRN.exact_nat _ (by decide)
    simpa using h11
  have hq2 : (F64.div (F64.ofNat thr) (F64.ofNat S)).val / n ≤ ((1 : Nat) : ℚ) / (1 : Nat) := by
    rw [Nat.cast_one, div_one, div_le_iff₀ hnq]
    linarith
  have ht : (F64.div (F64.div (F64.ofNat thr) (F64.ofNat S)) (F64.ofNat n)).val ≤ 1 := by
    have := IsRN.mono_le (by decide) (by decide) hq2 r2 h11
    rw [hex1] at this
    simpa using this
  have hge : F64.ge fone (F64.div (F64.div (F64.ofNat thr) (F64.ofNat S)) (F64.ofNat n)) = true := by
    rw [ge_iff]
    have e1 : fone.val = 1 := by
      have := ofNat_val (n := 1) (by decide)
      simpa [fone] using this
    rw [e1]
    exact ht
  rw [if_neg (by simpa using hge)]
  exact ⟨_, _, rfl⟩

/-- `CounterGather.peek`'s per-round test is eligibility -/
theorem reaches_iff_elig {thr S n k : Nat} (hS0 : 0 < S) (hS : S < 2 ^ 53) (hn : n < 2 ^ 53) (hk : k ≤ n)
    (hk0 : k ≠ 0) (hthr : thr ≤ 2 ^ 50) : reaches thr S n (k : Int) ↔ Elig thr S k := by
  have hk53 : k < 2 ^ 53 := lt_of_le_of_lt hk hn
  constructor
  · rintro ⟨t, nT, hc, hb⟩
    exact ⟨hk0, (not_below_iff_bp hS hthr hk53 hc).1 hb⟩
  · rintro ⟨_, hle⟩
    have hle' : thr ≤ n * S := le_trans hle (Nat.mul_le_mul_right _ hk)
    obtain ⟨t, nT, hc⟩ := calcThreshold_ok_of_le hS0 hS (by omega) hn (lt_of_le_of_lt hthr (by decide)) hle'
    exact ⟨t, nT, hc, (not_below_iff_bp hS hthr hk53 hc).2 hle⟩

/-- what one round guarantees, in either mode, w.r.t. the sketches `pool` (comparison scaled `max sq sd`) -/
def RoundT (ops : ScoreOps σ) (thr sq sd : Nat) (pool : List (Sig LS)) (Q0 NI0 : List Nat) (g g' : GD LS) :
    Option (GRes σ) → Prop
  | none =>
    g'.unassigned sq sd = g.unassigned sq sd ∧ g'.resultN = g.resultN ∧ g'.origSigMh = g.origSigMh ∧
    g'.origQueryAbunds = g.origQueryAbunds ∧ g'.trackAbundance = g.trackAbundance ∧
    g'.thresholdBp = g.thresholdBp ∧
    ∀ d ∈ pool, ¬ Elig thr (max sq sd) (ovl (g.unassigned sq sd) (dn (max sq sd) d.mh.hs))
  | some res =>
    ∃ best ∈ pool, res.name = best.name ∧ res.md5 = best.md5 ∧
      Elig thr (max sq sd) (ovl (g.unassigned sq sd) (dn (max sq sd) best.mh.hs)) ∧
      (∀ d ∈ pool, ovl (g.unassigned sq sd) (dn (max sq sd) d.mh.hs)
        ≤ ovl (g.unassigned sq sd) (dn (max sq sd) best.mh.hs)) ∧
      g'.unassigned sq sd = diffL (g.unassigned sq sd) (dn (max sq sd) best.mh.hs) ∧
      g'.resultN = g.resultN + 1 ∧ g'.origSigMh = g.origSigMh ∧
      g'.origQueryAbunds = g.origQueryAbunds ∧ g'.trackAbundance = g.trackAbundance ∧
      g'.thresholdBp = g.thresholdBp ∧
      ColsOK ops res best (max sq sd) (max sq sd) g.origSigMh.hs g.query.hs g.origQueryAbunds
        g.trackAbundance g.resultN
        (wsum g.origQueryAbunds (dn (max sq sd) Q0) + wsum g.origQueryAbunds (dn (max sq sd) NI0)
          - (wsum g.origQueryAbunds (diffL (g.unassigned sq sd) (dn (max sq sd) best.mh.hs))
              + wsum g.origQueryAbunds (dn (max sq sd) NI0)))
        ((dn (max sq sd) Q0).length + (dn (max sq sd) NI0).length) ((dn (max sq sd) NI0).length * max sq sd)
        (wsum g.origQueryAbunds (dn (max sq sd) Q0) + wsum g.origQueryAbunds (dn (max sq sd) NI0))
        g.origSigMh.scaled

/-- two rounds (of two runs, in whatever modes) over permuted pools, from related states, agree -/
theorem roundT_agree {thr sq sd : Nat} {P P' : List (Sig LS)} {Q0 NI0 : List Nat} {g g' h h' : GD LS}
    {rA rB : Option (GRes σ)} (hA : RoundT ops thr sq sd P Q0 NI0 g g' rA)
    (hB : RoundT ops thr sq sd P' Q0 NI0 h h' rB) (hperm : P.Perm P') (rel : Rel sq sd g h) :
    match rA, rB with
    | none, none => Rel sq sd g' h'
    | some a, some b =>
      ∃ bestA ∈ P, ∃ bestB ∈ P',
        a.name = bestA.name ∧ a.md5 = bestA.md5 ∧ b.name = bestB.name ∧ b.md5 = bestB.md5 ∧
        ovl (g.unassigned sq sd) (dn (max sq sd) bestA.mh.hs)
          = ovl (g.unassigned sq sd) (dn (max sq sd) bestB.mh.hs) ∧
        (dn (max sq sd) bestA.mh.hs = dn (max sq sd) bestB.mh.hs → SameNumbers a b ∧ Rel sq sd g' h')
    | none, some _ => False
    | some _, none => False := by
  cases rA with
  | none =>
    cases rB with
    | none =>
      obtain ⟨a1, a2, a3, a4, a5, a6, _⟩ := hA
      obtain ⟨b1, b2, b3, b4, b5, b6, _⟩ := hB
      exact ⟨by rw [a1, b1]; exact rel.un, by rw [a2, b2]; exact rel.rank, by rw [a3, b3]; exact rel.orig,
        by rw [a4, b4]; exact rel.abunds, by rw [a5, b5]; exact rel.track, by rw [a6, b6]; exact rel.thr⟩
    | some b =>
      obtain ⟨_, _, _, _, _, _, az⟩ := hA
      obtain ⟨best, bm, _, _, bel, _⟩ := hB
      simp only []
      rw [← rel.un] at bel
      exact az best (hperm.mem_iff.2 bm) bel
  | some a =>
    cases rB with
    | none =>
      obtain ⟨best, am, _, _, ael, _⟩ := hA
      obtain ⟨_, _, _, _, _, _, bz⟩ := hB
      simp only []
      rw [rel.un] at ael
      exact bz best (hperm.mem_iff.1 am) ael
    | some b =>
      obtain ⟨bA, mA, a1, a2, _, maxA, a8, a13, a17, a18, a19, a14, colsA⟩ := hA
      obtain ⟨bB, mB, b1, b2, _, maxB, b8, b13, b17, b18, b19, b14, colsB⟩ := hB
      simp only []
      rw [← rel.un] at maxB
      have h1 := maxA bB (hperm.mem_iff.2 mB)
      have h2 := maxB bA (hperm.mem_iff.1 mA)
      refine ⟨bA, mA, bB, mB, a1, a2, b1, b2, by omega, ?_⟩
      intro hsame
      have eq1 : dn (max sq sd) g.query.hs = dn (max sq sd) h.query.hs := rel.un
      rw [← rel.un, ← rel.orig, ← rel.abunds, ← rel.track, ← rel.rank, ← hsame] at colsB
      refine ⟨ColsOK.same_numbers colsA colsB hsame eq1, ?_⟩
      exact ⟨by rw [a8, b8, ← rel.un, hsame], by rw [a13, b13, rel.rank], by rw [a17, b17, rel.orig],
        by rw [a18, b18, rel.abunds], by rw [a19, b19, rel.track], by rw [a14, b14, rel.thr]⟩

/-- a prefetch-mode round -/
theorem roundT_prefetch (laws : ScoreLaws ops) {q : LS} {sd thr : Nat} {t nT : F64.F}
    {dbs : List (List (Sig LS))} {Q0 NI0 : List Nat} {g0 g g' : GD LS} {r : Option (GRes σ)}
    (A : RunSetup q sd thr t nT dbs Q0 NI0 g0) (hthr50 : thr ≤ 2 ^ 50) (hsd : sd ≤ 2 ^ 31)
    (hr : Reach ops g0 g) (hn : g.next lsOps ops = .ok (g', r)) :
    RoundT ops thr q.scaled sd dbs.flatten Q0 NI0 g g' r := by
  obtain ⟨hi, ha, hh⟩ := reach_inv laws A.h0 A.a0 hr
  have hthr : g.thresholdBp = thr := by rw [hh.thr, A.hthr0]
  have hS0 : 0 < max q.scaled sd := by have := A.hq.lo; omega
  have hS : max q.scaled sd < 2 ^ 53 := by
    have := A.hq.hi
    have : max q.scaled sd ≤ 2 ^ 31 := max_le this hsd
    exact lt_of_le_of_lt this (by decide)
  have hQlen : (g.unassigned q.scaled sd).length < 2 ^ 53 :=
    lt_of_le_of_lt (List.length_filter_le _ _) hi.size
  cases r with
  | none =>
    obtain ⟨s1, s2, s3, s4, s5, s6⟩ := next_none_scalars hn
    have st := stops_only_below_db laws A.hq A.hdb A.hthr A.hcase A.hsize A.h0 A.a0 A.hun0 A.hthr0 hr hn
    refine ⟨by unfold GD.unassigned; rw [s1], s2, s3, s4, s5, s6, ?_⟩
    intro d hd hel
    rcases st with hnil | hall
    · apply hel.1; rw [hnil]; rfl
    · rcases hall d hd with hz | hnr
      · exact hel.1 hz
      · exact hnr ((reaches_iff_elig hS0 hS hQlen (ovl_le _ _) hel.1 hthr50).2 hel)
  | some res =>
    have sp := next_spec laws hi ha hn rfl rfl
    simp only [] at sp
    obtain ⟨best, bm, b1, b2, b3, b4, _, b6, b7, b8, _, _, _, _, b13, b14, _, _, b17, b18, b19, cols⟩ := sp
    rw [hthr] at b4
    have hmax := max_over_db A.hq A.hdb A.hthr A.hcase A.hsize A.hun0 hh b3 b4
    have hnz : ovl (g.unassigned q.scaled sd) (dn (max q.scaled sd) best.mh.hs) ≠ 0 := by
      intro hz
      apply b7
      rw [b6]
      exact List.eq_nil_of_length_eq_zero hz
    refine ⟨best, mem_candLists_flatten bm, b1, b2, ?_, hmax, b8, b13, b17, b18, b19, b14, cols⟩
    exact (reaches_iff_elig hS0 hS hQlen (ovl_le _ _) hnz hthr50).1 b4

/-! ### on-demand mode -/

/-- `Index.peek` returns nothing when the threshold is unattainable for the current query -/
theorem idxPeek_unattainable {cur : LS} (hc : cur.WF) (hne : cur.hs ≠ []) {thr : Nat}
    (hthr : calcThreshold thr cur.scaled cur.hs.length = .error .value) (db : List (Sig LS)) :
    idxPeek lsOps ops db cur thr = .ok none := by
  unfold idxPeek bestContainment prefetch
  have e1 : lsOps.scaled cur = cur.scaled := rfl
  have e2 : len lsOps cur = cur.hs.length := rfl
  have h1 := hc.lo
  by_cases hde : db.isEmpty = true
  · rw [if_pos hde]
  · rw [if_neg hde, if_neg (by rw [e2]; intro h0; exact hne (List.eq_nil_of_length_eq_zero h0)),
      if_neg (by rw [e1]; omega), e1, e2, hthr]

theorem peekAll_idx_unattainable {cur : LS} (hc : cur.WF) (hne : cur.hs ≠ [])
    {thr : Nat} (hthr : calcThreshold thr cur.scaled cur.hs.length = .error .value) :
    ∀ (dbs : List (List (Sig LS))),
      peekAll lsOps ops cur thr (dbs.map CObj.idx) none = .ok (dbs.map CObj.idx, none) := by
  intro dbs
  induction dbs with
  | nil => rfl
  | cons db rest ih =>
    simp only [List.map_cons, peekAll, CObj.peek, idxPeek_unattainable (ops := ops) hc hne hthr db, better, ih]

/-- the score test of `Index.find` on the current query of a run is eligibility (inputs without D6) -/
theorem passes_iff_elig_run {thr sq sd : Nat} {g : GD LS} (hb : GBasic sq sd g) (hin : thr = 0 ∨ sd ≤ sq)
    (hthr50 : thr ≤ 2 ^ 50) {t nT : F64.F}
    (hc : calcThreshold thr g.query.scaled g.query.hs.length = .ok (t, nT)) {d : LS} (hd : d.scaled = sd) :
    passes (findScore g.query d) t = true ↔
      Elig thr (max sq sd) (ovl (g.unassigned sq sd) (dn (max sq sd) d.hs)) := by
  rw [findScore_run hb hd]
  rcases hin with h0 | hle
  · subst h0
    rw [calcThreshold_zero] at hc
    cases hc
    rw [passes_zero_iff]
    unfold Elig
    constructor
    · intro h; exact ⟨h.2, Nat.zero_le _⟩
    · intro h
      refine ⟨?_, h.1⟩
      intro hn0
      apply h.1
      have : g.unassigned sq sd = [] := List.eq_nil_of_length_eq_zero hn0
      rw [this]; rfl
  · have hS : max sq sd = sq := by omega
    have hqs : g.query.scaled = sq := by
      rw [hb.q_scaled]
      rcases hb.cmp with h1 | h1 <;> rw [h1]
      exact hS
    have hun : g.unassigned sq sd = g.query.hs := by
      unfold GD.unassigned
      rw [hS, ← hqs]
      exact hb.q_wf.dn_self
    rw [hun, hS]
    rw [hqs] at hc
    have h1 := hb.q_wf.lo
    have h2 := hb.q_wf.hi
    rw [hqs] at h1 h2
    by_cases hn0 : g.query.hs.length = 0
    · -- empty query: nothing passes, nothing is eligible
      have hnil : g.query.hs = [] := List.eq_nil_of_length_eq_zero hn0
      rw [hnil]
      constructor
      · intro h
        unfold passes scoreContainment at h
        simp [fzero] at h
      · intro h; exact absurd rfl h.1
    · exact passes_iff_bp (lt_of_le_of_lt h2 (by decide)) hb.size (ovl_le _ _) hthr50
        (by omega) (by omega) hc

/-- an on-demand round, inputs without D6 -/
theorem roundT_idx (laws : IdxLaws ops) {thr sq sd : Nat} {dbs : List (List (Sig LS))} {Q0 NI0 : List Nat}
    {g g' : GD LS} {r : Option (GRes σ)} (hin : thr = 0 ∨ sd ≤ sq) (hthr50 : thr ≤ 2 ^ 50)
    (hinv : GInvI sq sd dbs g) (ha : AInv sq sd Q0 NI0 g)
    (hthr : g.thresholdBp = thr) (hsz : g.query.hs.length < 2 ^ 50) (hn : g.next lsOps ops = .ok (g', r)) :
    RoundT ops thr sq sd dbs.flatten Q0 NI0 g g' r ∧ GInvI sq sd dbs g' ∧ AInv sq sd Q0 NI0 g' ∧
      g'.thresholdBp = thr ∧ g'.query.hs.length < 2 ^ 50 := by
  have hQlen : (g.unassigned sq sd).length < 2 ^ 50 :=
    Nat.lt_of_le_of_lt (List.length_filter_le _ _) hsz
  have hdsd : ∀ d ∈ dbs.flatten, d.mh.scaled = sd := by
    intro d hd
    obtain ⟨db, hdb, hddb⟩ := List.mem_flatten.1 hd
    exact (hinv.db_ok db hdb d hddb).2
  by_cases hempty : g.query.hs = []
  · -- empty query: `__next__` stops at once
    unfold GD.next at hn
    have h0 : len lsOps g.query = 0 := by show g.query.hs.length = 0; rw [hempty]; rfl
    rw [if_pos h0] at hn
    simp only [Except.ok.injEq, Prod.mk.injEq] at hn
    obtain ⟨rfl, rfl⟩ := hn
    refine ⟨⟨rfl, rfl, rfl, rfl, rfl, rfl, ?_⟩, hinv, ha, hthr, hsz⟩
    intro d _ hel
    apply hel.1
    unfold GD.unassigned
    rw [hempty]; rfl
  cases hcalc : calcThreshold g.thresholdBp g.query.scaled g.query.hs.length with
  | ok tn =>
    obtain ⟨t, nT⟩ := tn
    have sp := next_idx laws hinv ha hcalc hn
    rw [hthr] at hcalc
    have hpe : ∀ d ∈ dbs.flatten, (passes (findScore g.query d.mh) t = true ↔
        Elig thr (max sq sd) (ovl (g.unassigned sq sd) (dn (max sq sd) d.mh.hs))) :=
      fun d hd => passes_iff_elig_run hinv.basic hin hthr50 hcalc (hdsd d hd)
    have hscore : ∀ d ∈ dbs.flatten, findScore g.query d.mh = scoreContainment (g.unassigned sq sd).length
        (ovl (g.unassigned sq sd) (dn (max sq sd) d.mh.hs)) :=
      fun d hd => findScore_run hinv.basic (hdsd d hd)
    cases r with
    | none =>
      simp only [] at sp
      obtain ⟨s1, s2, s3, s4, s5, s6, s7, s8, s9⟩ := sp
      refine ⟨⟨by unfold GD.unassigned; rw [s1], s2, s4, s5, s6, s3, ?_⟩, s7, s8, by rw [s3, hthr],
        by rw [s1]; exact hsz⟩
      intro d hd hel
      rcases s9 with hnil | hnp
      · exact hempty hnil
      · obtain ⟨db, hdb, hddb⟩ := List.mem_flatten.1 hd
        have := hnp db hdb d hddb
        rw [(hpe d hd).2 hel] at this
        cases this
    | some res =>
      simp only [] at sp
      obtain ⟨best, bm, p1, p2, r1, r2, r3, r4, r5, r7, r8, r9, r10, r11, r12, r13, r13b, r14⟩ := sp
      have hbel := (hpe best bm).1 p1
      have hn0 : (g.unassigned sq sd).length ≠ 0 := by
        intro h0
        apply hbel.1
        have : g.unassigned sq sd = [] := List.eq_nil_of_length_eq_zero h0
        rw [this]; rfl
      refine ⟨⟨best, bm, r1, r2, hbel, ?_, r5, r7, r9, r10, r11, r8, r14⟩, r12, r13, by rw [r8, hthr], by omega⟩
      intro d hd
      by_contra hlt
      have hlt' : ovl (g.unassigned sq sd) (dn (max sq sd) best.mh.hs)
          < ovl (g.unassigned sq sd) (dn (max sq sd) d.mh.hs) := by omega
      have hdel : Elig thr (max sq sd) (ovl (g.unassigned sq sd) (dn (max sq sd) d.mh.hs)) :=
        hbel.mono (le_of_lt hlt')
      have hge := p2 d hd ((hpe d hd).2 hdel)
      rw [hscore best bm, hscore d hd] at hge
      have := ovl_le_of_score_ge hn0 (Nat.lt_of_le_of_lt (ovl_le _ _) hQlen)
        (Nat.lt_of_le_of_lt (ovl_le _ _) hQlen) hge
      omega
  | error e =>
    -- the threshold is unattainable: every `Index.peek` returns nothing
    have hwf := hinv.basic.q_wf
    have he : e = .value := by
      unfold calcThreshold at hcalc
      split at hcalc
      · cases hcalc
      · split at hcalc
        · rename_i hz
          exfalso
          rcases hz with hz | hz
          · have := hwf.lo; omega
          · exact hempty (List.eq_nil_of_length_eq_zero hz)
        · simp only [] at hcalc
          split at hcalc
          · cases hcalc; rfl
          · cases hcalc
    subst he
    unfold GD.next at hn
    have h0 : ¬ len lsOps g.query = 0 := by
      intro h0; exact hempty (List.eq_nil_of_length_eq_zero h0)
    rw [if_neg h0, hinv.counters] at hn
    have hfb : findBest lsOps ops (dbs.map CObj.idx) g.query g.thresholdBp
        = .ok (dbs.map CObj.idx, none) := by
      unfold findBest
      rw [peekAll_idx_unattainable hwf hempty hcalc dbs]
    rw [hfb] at hn
    simp only [Except.ok.injEq, Prod.mk.injEq] at hn
    obtain ⟨rfl, rfl⟩ := hn
    refine ⟨⟨rfl, rfl, rfl, rfl, rfl, rfl, ?_⟩, ⟨⟨hinv.basic.orig_sorted, hinv.basic.q_wf, hinv.basic.q_flat,
      hinv.basic.q_scaled, hinv.basic.cmp, hinv.basic.size⟩, rfl, hinv.db_ok⟩,
      ⟨ha.bounds, ha.oq_hs, ha.oq_sc, ha.ni_hs, ha.ni_sc, ha.nsum, ha.tot⟩, hthr, hsz⟩
    intro d hd hel
    -- an eligible sketch would make the threshold attainable
    rw [hthr] at hcalc
    rcases hin with h0' | hle
    · subst h0'
      rw [calcThreshold_zero] at hcalc
      cases hcalc
    · have hS : max sq sd = sq := by omega
      have hqs : g.query.scaled = sq := by
        rw [hinv.basic.q_scaled]
        rcases hinv.basic.cmp with h1 | h1 <;> rw [h1]
        exact hS
      have hun : g.unassigned sq sd = g.query.hs := by
        unfold GD.unassigned
        rw [hS, ← hqs]
        exact hwf.dn_self
      rw [hS, hun] at hel
      have hk : ovl g.query.hs (dn sq d.mh.hs) ≤ g.query.hs.length := ovl_le _ _
      have hle' : thr ≤ g.query.hs.length * sq := le_trans hel.2 (Nat.mul_le_mul_right _ hk)
      have h1 := hwf.lo
      have h2 := hwf.hi
      rw [hqs] at h1 h2 hcalc
      have hnpos : 0 < g.query.hs.length := by
        rcases Nat.eq_zero_or_pos g.query.hs.length with hz | hp
        · exact absurd (List.eq_nil_of_length_eq_zero hz) hempty
        · exact hp
      obtain ⟨t, nT, hok⟩ := calcThreshold_ok_of_le (by omega) (lt_of_le_of_lt h2 (by decide)) hnpos
        (lt_trans hsz (by decide)) (lt_of_le_of_lt hthr50 (by decide)) hle'
      rw [hok] at hcalc
      cases hcalc

/-- the hypotheses of an on-demand run -/
structure IdxSetupT (thr sq sd : Nat) (dbs : List (List (Sig LS))) (Q0 NI0 : List Nat) (h0 : GD LS) : Prop where
  inv : GInvI sq sd dbs h0
  acc : AInv sq sd Q0 NI0 h0
  thr : h0.thresholdBp = thr
  size : h0.query.hs.length < 2 ^ 50

/-- the on-demand invariants hold in every reachable state -/
theorem reach_idxT (laws : IdxLaws ops) {thr sq sd : Nat} (hin : thr = 0 ∨ sd ≤ sq) (hthr50 : thr ≤ 2 ^ 50)
    {dbs : List (List (Sig LS))} {Q0 NI0 : List Nat} {h0 h : GD LS} (B : IdxSetupT thr sq sd dbs Q0 NI0 h0)
    (hr : Reach ops h0 h) : IdxSetupT thr sq sd dbs Q0 NI0 h := by
  induction hr with
  | refl => exact B
  | @step g g' r _ hn ih =>
    obtain ⟨_, i2, i3, i4, i5⟩ := roundT_idx laws hin hthr50 ih.inv ih.acc ih.thr ih.size hn
    exact ⟨i2, i3, i4, i5⟩

/-- **`mode_equiv`**, inputs without D6 (`threshold_bp = 0`, or query at least as coarse as the database):
a prefetch-mode run (`counter_gather` + `CounterGather.peek`) and an on-demand run (`Index.peek` =
`best_containment` every round) over the same sketches (organised in any way), in states that have assigned
the same hashes: they stop together, they pick sketches of the same (maximal) overlap, and given the same
pick all numbers coincide and the successor states are related. -/
theorem mode_equiv_noD6 (lawsA : ScoreLaws ops) (lawsB : IdxLaws ops) {q : LS} {sd thr : Nat} {t nT : F64.F}
    {dbs dbs' : List (List (Sig LS))} {Q0 NI0 : List Nat} {g0 h0 g h g' h' : GD LS}
    {rA rB : Option (GRes σ)} (hin : thr = 0 ∨ sd ≤ q.scaled) (hthr50 : thr ≤ 2 ^ 50) (hsd : sd ≤ 2 ^ 31)
    (A : RunSetup q sd thr t nT dbs Q0 NI0 g0) (B : IdxSetupT thr q.scaled sd dbs' Q0 NI0 h0)
    (hperm : dbs.flatten.Perm dbs'.flatten)
    (hrA : Reach ops g0 g) (hrB : Reach ops h0 h) (rel : Rel q.scaled sd g h)
    (hnA : g.next lsOps ops = .ok (g', rA)) (hnB : h.next lsOps ops = .ok (h', rB)) :
    match rA, rB with
    | none, none => Rel q.scaled sd g' h'
    | some a, some b =>
      ∃ bestA ∈ dbs.flatten, ∃ bestB ∈ dbs'.flatten,
        a.name = bestA.name ∧ a.md5 = bestA.md5 ∧ b.name = bestB.name ∧ b.md5 = bestB.md5 ∧
        ovl (g.unassigned q.scaled sd) (dn (max q.scaled sd) bestA.mh.hs)
          = ovl (g.unassigned q.scaled sd) (dn (max q.scaled sd) bestB.mh.hs) ∧
        (dn (max q.scaled sd) bestA.mh.hs = dn (max q.scaled sd) bestB.mh.hs →
          SameNumbers a b ∧ Rel q.scaled sd g' h')
    | none, some _ => False
    | some _, none => False := by
  have rA' := roundT_prefetch lawsA A hthr50 hsd hrA hnA
  have Bh := reach_idxT lawsB hin hthr50 B hrB
  have rB' := (roundT_idx lawsB hin hthr50 Bh.inv Bh.acc Bh.thr Bh.size hnB).1
  have key := roundT_agree rA' rB' hperm rel
  cases rA <;> cases rB <;> exact key

/-- the on-demand invariants hold after `GatherDatabases.__init__(query, [index, ...], threshold_bp)` -/
theorem init_idxT {q : LS} (hq : q.WF) {sd thr : Nat} (hsd1 : 1 ≤ sd) (hsd2 : sd ≤ 2 ^ 31)
    {dbs : List (List (Sig LS))} {ign : Bool} {g : GD LS}
    (hdb : ∀ db ∈ dbs, ∀ d ∈ db, d.mh.WF ∧ d.mh.scaled = sd) (hsize : q.hs.length < 2 ^ 50)
    (h : GD.init lsOps q (dbs.map CObj.idx) thr ign none none = .ok g) :
    IdxSetupT thr q.scaled sd dbs q.hs [] g ∧ g.unassigned q.scaled sd = dn (max q.scaled sd) q.hs ∧
    g.origSigMh = q ∧ g.resultN = 0 := by
  obtain ⟨i1, i2, i3, i4, i5, i6, i7, i8, i9, i10, i11, i12, i13, i14, i15⟩ := init_plain hq h
  have hqab : g.query.ab = none := init_plain_flat h
  refine ⟨⟨⟨⟨?_, ⟨?_, ?_, ?_, ?_, ?_⟩, hqab, ?_, Or.inl i3, ?_⟩, i4, hdb⟩,
    ⟨⟨hq.lo, hq.hi, hsd1, hsd2⟩, ?_, ?_, ?_, ?_, ?_, ?_⟩, i5, ?_⟩, ?_, i6, i7⟩
  · rw [i6]; exact hq.sorted
  · rw [i2]; exact hq.lo
  · rw [i2]; exact hq.hi
  · rw [i1]; exact hq.sorted
  · rw [i1, i2]; exact hq.bounded
  · intro ab hab; rw [hqab] at hab; cases hab
  · rw [i2, i3]
  · rw [i1]; exact Nat.lt_trans hsize (by decide)
  · rw [i10, i3]
  · rw [i11, i3]
  · rw [i12, i3]
  · rw [i13, i3]
  · rw [i14, i3]
  · rw [i15, i3]
  · rw [i1]; exact hsize
  · unfold GD.unassigned; rw [i1]

end Sm.Gather
