/-
The Cover invariant of an SBT and how the two `update` methods act on it.
-/
import SmVerif.Lemmas.SBTPos
import SmVerif.Lemmas.NodegraphBloom

namespace Sm.SBT

open Sm.NG

/-- the factory makes filters with at least one bit per table -/
def SizesOK (sizes : List Nat) : Prop := ∀ s ∈ sizes, 0 < s

/-- every filter an internal node can hand out has the factory's shape -/
def DataOK (sizes : List Nat) (n : INode) : Prop :=
  (∀ g, n.mem = some g → WF g ∧ g.sizes = sizes) ∧ (∀ g, n.stored = some g → WF g ∧ g.sizes = sizes)

theorem data_ok {sizes : List Nat} {n : INode} (hs : SizesOK sizes) (h : DataOK sizes n) :
    WF (n.data sizes) ∧ (n.data sizes).sizes = sizes := by
  unfold INode.data
  split
  · rename_i g hg; exact h.1 g hg
  · split
    · rename_i g hg; exact h.2 g hg
    · exact ⟨new_wf hs 1, new_sizes sizes 1⟩

theorem fresh_dataOK (sizes : List Nat) : DataOK sizes INode.fresh := by
  constructor <;> intro g hg <;> simp [INode.fresh] at hg

/-- node `n` covers leaf `l`: answers 'present' for all its hashes and records a size bound
no larger than `max 1 |l|` -/
def Holds (sizes : List Nat) (n : INode) (l : Leaf) : Prop :=
  (∀ h ∈ l.hashes, (n.data sizes).has h = true) ∧ ∃ m, n.minN = some m ∧ m ≤ max 1 l.hashes.length

/-- `n'` is `n` after some updates: still well-shaped, covers everything `n` covered -/
def Ext (sizes : List Nat) (n n' : INode) : Prop :=
  DataOK sizes n → DataOK sizes n' ∧ ∀ l, Holds sizes n l → Holds sizes n' l

theorem Ext.refl (sizes : List Nat) (n : INode) : Ext sizes n n := fun h => ⟨h, fun _ hl => hl⟩

theorem Ext.trans {sizes : List Nat} {a b c : INode} (h1 : Ext sizes a b) (h2 : Ext sizes b c) :
    Ext sizes a c := by
  intro ha
  obtain ⟨hb, hab⟩ := h1 ha
  obtain ⟨hc, hbc⟩ := h2 hb
  exact ⟨hc, fun l hl => hbc l (hab l hl)⟩

theorem clamp_min_le_left (a b : Nat) : clamp (min a b) ≤ max 1 a := by
  unfold clamp; split <;> omega

theorem clamp_min_le_right (a b k : Nat) (h : b ≤ max 1 k) : clamp (min a b) ≤ max 1 k := by
  unfold clamp; split <;> omega

theorem leafUpdate_data (sizes : List Nat) (l : Leaf) (n : INode) :
    (leafUpdate sizes l n).data sizes = (n.data sizes).addMany l.hashes := by
  simp [leafUpdate, INode.data]

theorem leafUpdate_dataOK {sizes : List Nat} (hs : SizesOK sizes) (l : Leaf) {n : INode}
    (h : DataOK sizes n) : DataOK sizes (leafUpdate sizes l n) := by
  have hd := data_ok hs h
  constructor
  · intro g hg
    simp only [leafUpdate, Option.some.injEq] at hg
    subst hg
    exact ⟨addMany_wf hd.1 _, by rw [addMany_sizes]; exact hd.2⟩
  · intro g hg
    exact h.2 g (by simpa [leafUpdate] using hg)

theorem leafUpdate_holds {sizes : List Nat} (hs : SizesOK sizes) (l : Leaf) {n : INode}
    (h : DataOK sizes n) : Holds sizes (leafUpdate sizes l n) l := by
  have hd := data_ok hs h
  refine ⟨?_, ?_⟩
  · intro x hx
    rw [leafUpdate_data]
    exact addMany_has hd.1 hx
  · exact ⟨_, rfl, clamp_min_le_left _ _⟩

theorem leafUpdate_ext {sizes : List Nat} (hs : SizesOK sizes) (l : Leaf) (n : INode) :
    Ext sizes n (leafUpdate sizes l n) := by
  intro h
  have hd := data_ok hs h
  refine ⟨leafUpdate_dataOK hs l h, ?_⟩
  intro l' ⟨hh, m, hm, hle⟩
  refine ⟨?_, ?_⟩
  · intro x hx
    rw [leafUpdate_data]
    exact addMany_mono hd.1 _ (hh x hx)
  · refine ⟨_, rfl, ?_⟩
    simp only [hm, Option.getD_some]
    exact clamp_min_le_right _ _ _ hle

theorem nodeUpdate_data (sizes : List Nat) (c n : INode) :
    (nodeUpdate sizes c n).data sizes = (n.data sizes).update (c.data sizes) := by
  simp [nodeUpdate, INode.data]

theorem nodeUpdate_dataOK {sizes : List Nat} (hs : SizesOK sizes) {c n : INode}
    (hc : DataOK sizes c) (h : DataOK sizes n) : DataOK sizes (nodeUpdate sizes c n) := by
  have hd := data_ok hs h
  have hcd := data_ok hs hc
  have hss : (n.data sizes).sizes = (c.data sizes).sizes := by rw [hd.2, hcd.2]
  constructor
  · intro g hg
    simp only [nodeUpdate, Option.some.injEq] at hg
    subst hg
    exact ⟨update_wf hd.1 hcd.1 hss, by rw [update_sizes hss]; exact hd.2⟩
  · intro g hg
    exact h.2 g (by simpa [nodeUpdate] using hg)

theorem nodeUpdate_ext {sizes : List Nat} (hs : SizesOK sizes) {c : INode} (hc : DataOK sizes c)
    (n : INode) : Ext sizes n (nodeUpdate sizes c n) := by
  intro h
  have hd := data_ok hs h
  have hcd := data_ok hs hc
  have hss : (n.data sizes).sizes = (c.data sizes).sizes := by rw [hd.2, hcd.2]
  refine ⟨nodeUpdate_dataOK hs hc h, ?_⟩
  intro l' ⟨hh, m, hm, hle⟩
  refine ⟨?_, ?_⟩
  · intro x hx
    rw [nodeUpdate_data]
    exact update_has_left hd.1 hcd.1 hss (hh x hx)
  · unfold nodeUpdate
    cases hcm : c.minN with
    | none => exact ⟨m, by simpa using hm, hle⟩
    | some cm =>
      refine ⟨_, rfl, ?_⟩
      simp only [hm, Option.getD_some]
      rw [Nat.min_comm]
      exact clamp_min_le_right _ _ _ hle

/-- merging child `c` into `n` makes `n` cover whatever `c` covered -/
theorem nodeUpdate_holds {sizes : List Nat} (hs : SizesOK sizes) {c n : INode}
    (hc : DataOK sizes c) (h : DataOK sizes n) {l : Leaf} (hl : Holds sizes c l) :
    Holds sizes (nodeUpdate sizes c n) l := by
  have hd := data_ok hs h
  have hcd := data_ok hs hc
  have hss : (n.data sizes).sizes = (c.data sizes).sizes := by rw [hd.2, hcd.2]
  obtain ⟨hh, cm, hcm, hle⟩ := hl
  refine ⟨?_, ?_⟩
  · intro x hx
    rw [nodeUpdate_data]
    exact update_has_right hd.1 hcd.1 hss (hh x hx)
  · unfold nodeUpdate
    simp only [hcm]
    exact ⟨_, rfl, clamp_min_le_right _ _ _ hle⟩

/-! ### the invariant -/

/-- every ancestor of every leaf is an internal node that covers the leaf, or is recorded as
missing (not loaded); no leaf lies beneath a leaf -/
def Cover (t : Tree) : Prop :=
  ∀ p l, t.leaves.get? p = some l → ∀ a ∈ ancestors t.d p,
    t.leaves.get? a = none ∧
    match t.nodes.get? a with
    | some n => Holds t.sizes n l
    | none => a ∈ t.missing

theorem holds_iff_bool (sizes : List Nat) (n : INode) (l : Leaf) :
    Holds sizes n l ↔ (leafCovered sizes n l &&
      (match n.minN with | some m => decide (m ≤ max 1 l.hashes.length) | none => false)) = true := by
  unfold Holds leafCovered
  rw [Bool.and_eq_true, List.all_eq_true]
  constructor
  · rintro ⟨h1, m, hm, hle⟩
    exact ⟨h1, by simp [hm, hle]⟩
  · rintro ⟨h1, h2⟩
    refine ⟨h1, ?_⟩
    cases hm : n.minN with
    | none => simp [hm] at h2
    | some m => exact ⟨m, rfl, by simpa [hm] using h2⟩

/-- the executable check used by the driver-independent counterexamples decides `Cover` -/
theorem cover_iff_coverB (t : Tree) : Cover t ↔ coverB t = true := by
  unfold Cover coverB
  rw [List.all_eq_true]
  constructor
  · intro h p _
    cases hl : t.leaves.get? p with
    | none => rfl
    | some l =>
      simp only
      rw [List.all_eq_true]
      intro a ha
      obtain ⟨h1, h2⟩ := h p l hl a ha
      rw [Bool.and_eq_true]
      refine ⟨by simp [PMap.has, h1], ?_⟩
      cases hn : t.nodes.get? a with
      | none => simp only [hn] at h2 ⊢; simpa using h2
      | some n => simp only [hn] at h2 ⊢; exact (holds_iff_bool _ _ _).mp h2
  · intro h p l hpl a ha
    have hk : p ∈ t.leaves.keys := PMap.mem_keys_iff.mpr (by simp [hpl])
    have := h p hk
    simp only [hpl] at this
    rw [List.all_eq_true] at this
    have := this a ha
    rw [Bool.and_eq_true] at this
    obtain ⟨h1, h2⟩ := this
    refine ⟨by simpa [PMap.has] using h1, ?_⟩
    cases hn : t.nodes.get? a with
    | none => simp only [hn] at h2 ⊢; simpa using h2
    | some n => simp only [hn] at h2 ⊢; exact (holds_iff_bool _ _ _).mpr h2

/-- standing assumptions on a tree: branching factor, factory, well-shaped node data -/
structure Base (t : Tree) : Prop where
  d2 : 2 ≤ t.d
  sizes : SizesOK t.sizes
  nodesOK : ∀ p n, t.nodes.get? p = some n → DataOK t.sizes n

end Sm.SBT
