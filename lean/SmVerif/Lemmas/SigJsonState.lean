/-
C09: pickling is `__getstate__` / `__reduce__` (a state tuple) followed by `__setstate__` / the
constructor.  The state tuples carry no md5; whatever is rebuilt from one has an empty md5 cache.
-/
import SmVerif.Lemmas.SigJsonPy

namespace Sm.SigJson

open Sm MH

theorem pickleMH_eq_state (m : MH) : Py.pickleMH m = (Py.getState m).map Py.ofState := by
  unfold Py.pickleMH Py.getState Py.ofState
  cases Py.ksizeProp m <;> rfl

theorem pickleSig_eq_state (s : Sig) : Py.pickleSig s = (Py.reduceSig s).map Py.ofSigState := by
  unfold Py.pickleSig Py.reduceSig Py.ofSigState
  cases firstMh s with
  | error e => rfl
  | ok mh =>
    simp only [bind, Except.bind, pickleMH_eq_state]
    cases Py.getState mh.mh <;> rfl

/-! ### nothing that is rebuilt from a state carries an md5 -/

theorem removeHash_md5_none {s : MH} (h : s.md5 = none) (x : Nat) : (s.removeHash x).md5 = none := by
  unfold MH.removeHash
  split
  · rfl
  · exact h

theorem addHashAb_md5_none {s : MH} (h : s.md5 = none) (x a : Nat) : (s.addHashAb x a).md5 = none := by
  unfold MH.addHashAb
  simp only
  repeat' split
  all_goals first
    | exact h
    | exact removeHash_md5_none h x
    | rfl

theorem addManyAb_md5_none {s : MH} (h : s.md5 = none) (ps : List (Nat × Nat)) : (s.addManyAb ps).md5 = none := by
  unfold MH.addManyAb
  induction ps generalizing s with
  | nil => simpa
  | cons p ps ih => exact ih (addHashAb_md5_none h p.1 p.2)

theorem addMany_md5_none {s : MH} (h : s.md5 = none) (xs : List Nat) : (s.addMany xs).md5 = none := by
  unfold MH.addMany
  induction xs generalizing s with
  | nil => simpa
  | cons x xs ih => exact ih (addHashAb_md5_none h x 1)

theorem setState_md5_none (num ksize hf seed : Nat) (track : Bool) (maxHash : Nat) (hashes : List (Nat × Nat)) :
    (Sm.Py.setState num ksize hf seed track maxHash hashes).md5 = none := by
  unfold Sm.Py.setState
  simp only
  split
  · unfold MH.ffiSetAbundances
    simp only [if_true]
    exact addManyAb_md5_none rfl _
  · exact addMany_md5_none rfl _

/-- the sketch rebuilt by `__setstate__` has an empty md5 cache, whatever the state -/
theorem ofState_md5_none (st : Py.MHState) : (Py.ofState st).md5 = none :=
  setState_md5_none ..

/-- for EVERY sketch (valid or not): what comes out of a pickle round trip has an empty md5 cache -/
theorem pickleMH_md5_none {m m' : MH} (h : Py.pickleMH m = .ok m') : m'.md5 = none := by
  rw [pickleMH_eq_state] at h
  cases hs : Py.getState m with
  | error e => rw [hs] at h; cases h
  | ok st =>
    rw [hs] at h
    injection h with h
    rw [← h]
    exact ofState_md5_none st

/-- the state of a valid sketch holds exactly its fields: parameters, the three flags, and the
(hash, abundance) pairs -/
theorem getState_stable {m : MH} (h : PyStable m) :
    Py.getState m = .ok { num := m.num, ksize := m.ksize, isProtein := m.hf == 2, dayhoff := m.hf == 3,
                          hp := m.hf == 4, hashes := m.pairs, track := m.trackAbundance, maxHash := m.maxHash,
                          seed := m.seed } := by
  obtain ⟨k, hk, hck⟩ := ksizeProp_ok h.k3
  unfold Py.getState
  simp only [hk, bind, Except.bind, pure, Except.pure, hashes_eq_pairs h.inv.toW, Py.flagsOf]
  unfold Py.ctorKsize at hck
  rw [hck]

end Sm.SigJson
