/-
C09 helper lemmas: `Deserialize ∘ Serialize` on sketches, signatures and documents;
every accepted document is normalised by one load (so a second write/read changes nothing).
-/
import SmVerif.Lemmas.SigJsonSort
import SmVerif.Lemmas.PairLemmas
import SmVerif.Props.C11

namespace Sm.SigJson

open Sm

/-! ### small facts about the field readers -/

theorem reqNat_val {b n : Nat} (h : n < b) : reqNat b (.val n) = .ok n := by simp [reqNat, h]

theorem allU64_iff {l : List Nat} : allU64 l = true ↔ ∀ x ∈ l, x < 2 ^ 64 := by
  simp [allU64]

theorem reqNats_val {l : List Nat} (h : ∀ x ∈ l, x < 2 ^ 64) : reqNats (.val l) = .ok l := by
  simp [reqNats, allU64_iff.mpr h]

theorem optNats_val {l : List Nat} (h : ∀ x ∈ l, x < 2 ^ 64) : optNats (.val l) = .ok (some l) := by
  simp [optNats, allU64_iff.mpr h]

theorem parseMolecule_molName {hf : Nat} (h1 : 1 ≤ hf) (h4 : hf ≤ 4) : parseMolecule (Sk.molName hf) = .ok hf := by
  have : hf = 1 ∨ hf = 2 ∨ hf = 3 ∨ hf = 4 := by omega
  rcases this with rfl | rfl | rfl | rfl <;> rfl

theorem lookup_mem {α : Type} [BEq α] {k : α} {v : Nat} :
    ∀ {l : List (α × Nat)}, l.lookup k = some v → v ∈ l.map Prod.snd
  | [], h => by simp at h
  | (a, b) :: l, h => by
    rw [List.lookup_cons] at h
    split at h
    · simp at h; simp [h]
    · have := lookup_mem h
      simp only [List.map_cons, List.mem_cons]
      exact Or.inr this

theorem parseMolecule_range {mol : String} {hf : Nat} (h : parseMolecule mol = .ok hf) : 1 ≤ hf ∧ hf ≤ 4 := by
  unfold parseMolecule at h
  split at h
  · rename_i v hv
    injection h with h
    subst h
    unfold lookupStr at hv
    have := lookup_mem hv
    rw [List.map_map] at this
    have hall : ∀ x ∈ (Gen.moleculeParse.map ((Prod.snd : List Char × Nat → Nat) ∘ fun p => (p.1.toList, p.2))), 1 ≤ x ∧ x ≤ 4 := by
      decide
    exact hall _ this
  · cases h

/-! ### what a sketch must satisfy to come back unchanged -/

/-- the (hash, abundance) order `Deserialize` establishes -/
def Ordered (mins : List Nat) (ab : Option (List Nat)) : Prop :=
  match ab with
  | some ab => (mins.zip ab).Pairwise LexLe
  | none => mins.Pairwise (· ≤ ·)

structure Sk.Encodable (s : Sk) : Prop where
  num32 : s.mh.num < 2 ^ 32
  ksize32 : s.mh.ksize < 2 ^ 32
  seed64 : s.mh.seed < 2 ^ 64
  max64 : s.mh.maxHash < 2 ^ 64
  mins64 : ∀ h ∈ s.mh.mins, h < 2 ^ 64
  ab64 : ∀ ab, s.mh.abunds = some ab → ∀ a ∈ ab, a < 2 ^ 64
  aligned : ∀ ab, s.mh.abunds = some ab → ab.length = s.mh.mins.length
  ordered : Ordered s.mh.mins s.mh.abunds
  excl : s.mh.num = 0 ∨ s.mh.maxHash = 0
  hf : 1 ≤ s.mh.hf ∧ s.mh.hf ≤ 4
  rawExcl : s.raw.isSome → s.mh.md5 = none

/-- the sketch `Deserialize` produces from what `Serialize` wrote for `s` -/
def Sk.afterLoad (trusted : Bool) (s : Sk) : Sk :=
  if trusted then s.touch else { mh := { s.mh with md5 := none }, raw := none }

theorem loadOrder_id (sorts : Bool) {mins : List Nat} {ab : Option (List Nat)}
    (hal : ∀ a, ab = some a → a.length = mins.length) (ho : Ordered mins ab) :
    loadOrder sorts mins ab = (mins, ab) := by
  unfold loadOrder
  cases ab with
  | none =>
    have : sortNat mins = mins := sortNat_of_sorted ho
    cases sorts <;> simp [this]
  | some a =>
    have hs : MH.sortPairs (mins.zip a) = mins.zip a := sortPairs_of_sorted ho
    have h1 := map_fst_zip_of_length (hal a rfl)
    have h2 := map_snd_zip_of_length (hal a rfl)
    cases sorts <;> simp [hs, h1, h2]

theorem MH.md5sum_fst (m : MH) : m.md5sum.1 = { m with md5 := some m.md5sum.2 } := by
  unfold MH.md5sum
  split
  · rename_i d hd
    cases m
    simp_all
  · rfl

theorem decodeSk_encode (trusted sorts : Bool) {s : Sk} (h : s.Encodable) :
    decodeSkWith trusted sorts s.encode = .ok (s.afterLoad trusted) := by
  obtain ⟨mh, raw⟩ := s
  obtain ⟨num, maxHash, ksize, seed, hf, mins, abunds, md5⟩ := mh
  have hn := h.num32; have hk := h.ksize32; have hs := h.seed64; have hm := h.max64
  have hmins := h.mins64; have hab := h.ab64; have hal := h.aligned; have ho := h.ordered
  have hx := h.excl; have hhf := h.hf; have hr := h.rawExcl
  simp only at hn hk hs hm hmins hab hal ho hx hhf hr
  have hnum : (if Gen.numZeroedWhenScaled = true ∧ maxHash ≠ 0 then 0 else num) = num := by
    split
    · rename_i hc; omega
    · rfl
  have hord := loadOrder_id sorts hal ho
  have hmol := parseMolecule_molName hhf.1 hhf.2
  unfold decodeSkWith Sk.encode
  simp only [reqNat_val hn, reqNat_val hk, reqNat_val hs, reqNat_val hm, reqNats_val hmins, req,
    bind, Except.bind, pure, Except.pure, hmol, hnum]
  cases abunds with
  | none =>
    simp only [optNats]
    unfold Sk.afterLoad Sk.touch Sk.md5sum cacheOf
    cases trusted
    · simp [hord]
    · cases raw with
      | none => simp [MH.md5sum_fst, hord]
      | some r =>
        have : md5 = none := hr (by simp)
        simp [this, hord]
  | some ab =>
    simp only [optNats_val (hab ab rfl)]
    unfold Sk.afterLoad Sk.touch Sk.md5sum cacheOf
    cases trusted
    · simp [hord]
    · cases raw with
      | none => simp [MH.md5sum_fst, hord]
      | some r =>
        have : md5 = none := hr (by simp)
        simp [this, hord]

/-! ### one load normalises -/

theorem mem_map_fst_sortPairs_zip {mins ab : List Nat} {h : Nat}
    (hm : h ∈ (MH.sortPairs (mins.zip ab)).map Prod.fst) : h ∈ mins := by
  obtain ⟨q, hq, rfl⟩ := List.mem_map.mp hm
  have := (sortPairs_perm (mins.zip ab)).mem_iff.mp hq
  exact (List.of_mem_zip this).1

theorem mem_map_snd_sortPairs_zip {mins ab : List Nat} {a : Nat}
    (hm : a ∈ (MH.sortPairs (mins.zip ab)).map Prod.snd) : a ∈ ab := by
  obtain ⟨q, hq, rfl⟩ := List.mem_map.mp hm
  have := (sortPairs_perm (mins.zip ab)).mem_iff.mp hq
  exact (List.of_mem_zip this).2

theorem reqNat_ok {b : Nat} {f : Fld Nat} {n : Nat} (h : reqNat b f = .ok n) : f = .val n ∧ n < b := by
  unfold reqNat at h
  split at h
  · split at h
    · injection h with h; subst h; exact ⟨rfl, by assumption⟩
    · cases h
  · cases h

theorem reqNats_ok {f : Fld (List Nat)} {l : List Nat} (h : reqNats f = .ok l) :
    f = .val l ∧ ∀ x ∈ l, x < 2 ^ 64 := by
  unfold reqNats at h
  split at h
  · split at h
    · rename_i hall
      injection h with h; subst h; exact ⟨rfl, allU64_iff.mp hall⟩
    · cases h
  · cases h

theorem optNats_ok {f : Fld (List Nat)} {o : Option (List Nat)} (h : optNats f = .ok o) :
    ∀ l, o = some l → ∀ x ∈ l, x < 2 ^ 64 := by
  unfold optNats at h
  split at h
  · injection h with h; subst h; intro l hl; cases hl
  · injection h with h; subst h; intro l hl; cases hl
  · split at h
    · rename_i hall
      injection h with h; subst h
      intro l hl; injection hl with hl; subst hl
      exact allU64_iff.mp hall
    · cases h
  · cases h

/-- whatever `Deserialize` accepts (with the load-time sort in place) satisfies `Encodable` -/
theorem decodeSk_encodable (trusted : Bool) {r : SkRec} {s : Sk}
    (hz : Gen.numZeroedWhenScaled = true)
    (h : decodeSkWith trusted true r = .ok s) : s.Encodable := by
  unfold decodeSkWith at h
  simp only [bind, Except.bind, pure, Except.pure] at h
  split at h; · cases h
  rename_i num hnum
  split at h; · cases h
  rename_i ksize hksize
  split at h; · cases h
  rename_i seed hseed
  split at h; · cases h
  rename_i maxHash hmax
  split at h; · cases h
  rename_i md5 hmd5
  split at h; · cases h
  rename_i mins hmins
  split at h; · cases h
  rename_i ab hab
  split at h; · cases h
  rename_i mol hmol
  split at h; · cases h
  rename_i hf hhf
  injection h with h
  subst h
  have h1 := reqNat_ok hnum
  have h2 := reqNat_ok hksize
  have h3 := reqNat_ok hseed
  have h4 := reqNat_ok hmax
  have h5 := reqNats_ok hmins
  have h6 := optNats_ok hab
  have h7 := parseMolecule_range hhf
  refine ⟨?_, h2.2, h3.2, h4.2, ?_, ?_, ?_, ?_, ?_, h7, ?_⟩
  · simp only
    split
    · decide
    · exact h1.2
  · -- mins64
    simp only [loadOrder]
    cases ab with
    | none =>
      intro x hx
      exact h5.2 x ((sortNat_perm mins).mem_iff.mp hx)
    | some a =>
      intro x hx
      exact h5.2 x (mem_map_fst_sortPairs_zip hx)
  · -- ab64
    simp only [loadOrder]
    cases ab with
    | none => intro a ha; cases ha
    | some a =>
      intro a' ha' x hx
      simp only [if_true] at ha'
      injection ha' with ha'
      subst ha'
      exact h6 a rfl x (mem_map_snd_sortPairs_zip hx)
  · -- aligned
    simp only [loadOrder]
    cases ab with
    | none => intro a ha; cases ha
    | some a =>
      intro a' ha'
      simp only [if_true] at ha'
      injection ha' with ha'
      subst ha'
      simp
  · -- ordered
    simp only [loadOrder]
    cases ab with
    | none => exact sortNat_sorted mins
    | some a =>
      simp only [if_true, Ordered]
      rw [zip_map_fst_snd']
      exact sortPairs_sorted _
  · -- excl
    simp only [hz, true_and]
    split
    · exact Or.inl rfl
    · rename_i hc
      exact Or.inr (by simpa using hc)
  · -- rawExcl
    simp only [cacheOf]
    cases trusted
    · simp
    · cases md5 <;> simp

/-- with the file's md5 ignored the cache of a loaded sketch is empty -/
theorem decodeSk_untrusted_cache {sorts : Bool} {r : SkRec} {s : Sk}
    (h : decodeSkWith false sorts r = .ok s) : s.mh.md5 = none ∧ s.raw = none := by
  unfold decodeSkWith at h
  simp only [bind, Except.bind, pure, Except.pure] at h
  repeat (split at h; · cases h)
  injection h with h
  subst h
  simp [cacheOf]

/-! ### writing a loaded sketch gives the same record -/

theorem Sk.md5sum_touch (s : Sk) : s.touch.md5sum.2 = s.md5sum.2 := by
  unfold Sk.touch Sk.md5sum
  cases hr : s.raw with
  | some r => simp [hr]
  | none =>
    simp only
    unfold MH.md5sum
    cases hm : s.mh.md5 <;> simp [hm, MH.digest]

theorem Sk.touch_mh_fields (s : Sk) :
    s.touch.mh.num = s.mh.num ∧ s.touch.mh.maxHash = s.mh.maxHash ∧ s.touch.mh.ksize = s.mh.ksize ∧
    s.touch.mh.seed = s.mh.seed ∧ s.touch.mh.hf = s.mh.hf ∧ s.touch.mh.mins = s.mh.mins ∧
    s.touch.mh.abunds = s.mh.abunds ∧ s.touch.raw = s.raw := by
  unfold Sk.touch Sk.md5sum
  cases hr : s.raw with
  | some r => simp [hr]
  | none =>
    simp only
    unfold MH.md5sum
    cases hm : s.mh.md5 <;> simp

theorem MH.md5sum_md5sum (m : MH) : m.md5sum.1.md5sum.1 = m.md5sum.1 := by
  obtain ⟨num, maxHash, ksize, seed, hf, mins, abunds, md5⟩ := m
  cases md5 <;> simp [MH.md5sum]

theorem Sk.touch_touch (s : Sk) : s.touch.touch = s.touch := by
  obtain ⟨m, raw⟩ := s
  cases raw with
  | some r => simp [Sk.touch, Sk.md5sum]
  | none => simp [Sk.touch, Sk.md5sum, MH.md5sum_md5sum]

theorem Sk.encode_touch (s : Sk) : s.touch.encode = s.encode := by
  have hf := Sk.touch_mh_fields s
  unfold Sk.encode
  rw [Sk.md5sum_touch, hf.1, hf.2.1, hf.2.2.1, hf.2.2.2.1, hf.2.2.2.2.1, hf.2.2.2.2.2.1, hf.2.2.2.2.2.2.1]

/-- the cache is empty or valid, and holds no foreign string -/
def Sk.CacheOK (s : Sk) : Prop := s.raw = none ∧ C11.CacheInv s.mh

theorem Sk.encode_afterLoad (trusted : Bool) (s : Sk) (hc : trusted = false → s.CacheOK) :
    (s.afterLoad trusted).encode = s.encode := by
  cases trusted with
  | true => exact Sk.encode_touch s
  | false =>
    obtain ⟨hr, hi⟩ := hc rfl
    have h1 := C11.md5sum_eq_digest hi
    obtain ⟨m, raw⟩ := s
    simp only at hr h1
    subst hr
    simp only [Sk.afterLoad, Sk.encode, Sk.md5sum, Bool.false_eq_true, if_false, h1]
    simp [MH.md5sum, MH.digest]

/-! ### signatures and documents -/

def Sig.Encodable (s : Sig) : Prop := ∀ sk ∈ s.sketches, sk.Encodable

def Sig.afterLoad (trusted : Bool) (s : Sig) : Sig := { s with sketches := s.sketches.map (Sk.afterLoad trusted) }

theorem mapM_map_ok {α β γ : Type} (f : α → β) (g : β → Except Err γ) (h : α → γ) :
    ∀ (l : List α), (∀ x ∈ l, g (f x) = .ok (h x)) → (l.map f).mapM g = .ok (l.map h)
  | [], _ => rfl
  | x :: xs, hx => by
    have h1 := hx x (by simp)
    have h2 := mapM_map_ok f g h xs (fun y hy => hx y (by simp [hy]))
    simp only [List.map_cons, List.mapM_cons, h1, h2, bind, Except.bind, pure, Except.pure]

theorem mapM_ok_mem {β γ : Type} {g : β → Except Err γ} :
    ∀ {l : List β} {r : List γ}, l.mapM g = .ok r → ∀ c ∈ r, ∃ b ∈ l, g b = .ok c
  | [], r, h => by
    simp only [List.mapM_nil, pure, Except.pure] at h
    injection h with h; subst h; intro c hc; cases hc
  | b :: bs, r, h => by
    simp only [List.mapM_cons, bind, Except.bind, pure, Except.pure] at h
    split at h; · cases h
    rename_i c hc
    split at h; · cases h
    rename_i cs hcs
    injection h with h; subst h
    intro c' hc'
    rcases List.mem_cons.mp hc' with rfl | hmem
    · exact ⟨b, by simp, hc⟩
    · obtain ⟨b', hb', hg⟩ := mapM_ok_mem hcs c' hmem
      exact ⟨b', by simp [hb'], hg⟩

theorem decodeSig_encode (trusted sorts : Bool) {s : Sig} (h : s.Encodable) :
    decodeSigWith trusted sorts s.encode = .ok (s.afterLoad trusted) := by
  have hm := mapM_map_ok Sk.encode (decodeSkWith trusted sorts) (Sk.afterLoad trusted) s.sketches
    (fun sk hsk => decodeSk_encode trusted sorts (h sk hsk))
  obtain ⟨cls, email, hashFunction, filename, name, license, sketches, version⟩ := s
  unfold decodeSigWith checkTypes decodeSks finishSig Sig.encode Sig.afterLoad
  simp only at hm
  cases filename <;> cases name <;>
    simp [typed, dflt, req, opt, hm, bind, Except.bind, pure, Except.pure]

theorem decodeDoc_encode (trusted sorts : Bool) {sigs : List Sig} (h : ∀ s ∈ sigs, s.Encodable) :
    decodeDocWith trusted sorts (encodeDoc sigs) = .ok (sigs.map (Sig.afterLoad trusted)) :=
  mapM_map_ok Sig.encode (decodeSigWith trusted sorts) (Sig.afterLoad trusted) sigs
    (fun s hs => decodeSig_encode trusted sorts (h s hs))

theorem finishSig_sketches {r : SigRec} {sks : List Sk} {s : Sig} (h : finishSig r sks = .ok s) :
    s.sketches = sks := by
  unfold finishSig at h
  simp only [bind, Except.bind, pure, Except.pure] at h
  repeat (split at h; · cases h)
  injection h with h
  subst h
  rfl

theorem decodeSig_sketches {trusted sorts : Bool} {r : SigRec} {s : Sig}
    (h : decodeSigWith trusted sorts r = .ok s) : decodeSks trusted sorts r.signatures = .ok s.sketches := by
  unfold decodeSigWith at h
  simp only [bind, Except.bind] at h
  split at h; · cases h
  split at h; · cases h
  rename_i sks hsks
  rw [finishSig_sketches h]
  exact hsks

theorem decodeSks_mem {trusted sorts : Bool} {f : Fld (List SkRec)} {sks : List Sk}
    (h : decodeSks trusted sorts f = .ok sks) : ∀ sk ∈ sks, ∃ r, decodeSkWith trusted sorts r = .ok sk := by
  unfold decodeSks at h
  split at h
  · intro sk hsk
    obtain ⟨b, _, hb⟩ := mapM_ok_mem h sk hsk
    exact ⟨b, hb⟩
  · injection h with h; subst h; intro sk hsk; cases hsk
  · cases h

theorem decodeSig_encodable (trusted : Bool) (hz : Gen.numZeroedWhenScaled = true) {r : SigRec} {s : Sig}
    (h : decodeSigWith trusted true r = .ok s) : s.Encodable := by
  intro sk hsk
  obtain ⟨rec, hrec⟩ := decodeSks_mem (decodeSig_sketches h) sk hsk
  exact decodeSk_encodable trusted hz hrec

theorem decodeSig_untrusted_cache {sorts : Bool} {r : SigRec} {s : Sig}
    (h : decodeSigWith false sorts r = .ok s) : ∀ sk ∈ s.sketches, sk.CacheOK := by
  intro sk hsk
  obtain ⟨rec, hrec⟩ := decodeSks_mem (decodeSig_sketches h) sk hsk
  have := decodeSk_untrusted_cache hrec
  exact ⟨this.2, Or.inl this.1⟩

theorem Sig.encode_afterLoad (trusted : Bool) (s : Sig) (hc : trusted = false → ∀ sk ∈ s.sketches, sk.CacheOK) :
    (s.afterLoad trusted).encode = s.encode := by
  unfold Sig.afterLoad Sig.encode
  simp only [List.map_map]
  have : s.sketches.map (Sk.encode ∘ Sk.afterLoad trusted) = s.sketches.map Sk.encode := by
    apply List.map_congr_left
    intro sk hsk
    exact Sk.encode_afterLoad trusted sk (fun ht => hc ht sk hsk)
  rw [this]

end Sm.SigJson
