/-
Helper lemmas for C14, part B: `_parse_params_str`, the signature factory and `build_template`
(model: `Model/SketchParams.lean`).
-/
import SmVerif.Lemmas.BTreeHist
import SmVerif.Model.SketchParams

deriving instance DecidableEq for Except

namespace Sm.Sketch

open Sm MH

/-! ### the parser -/

theorem foldItems_error {items : List (List Char)} {st : Option Mol × Params} {e : Reason}
    (h : foldItems items st = .error e) : ∃ item ∈ items, ∃ st', stepItem st' item = .error e := by
  induction items generalizing st with
  | nil => simp [foldItems] at h
  | cons item items ih =>
    unfold foldItems at h
    cases hs : stepItem st item with
    | error e' =>
      rw [hs] at h
      simp only [Except.error.injEq] at h
      subst h
      exact ⟨item, by simp, st, hs⟩
    | ok st' =>
      rw [hs] at h
      obtain ⟨it, hm, st'', h'⟩ := ih h
      exact ⟨it, List.mem_cons_of_mem _ hm, st'', h'⟩

/-! ### every refusal, with its reason -/

def startsK (item : List Char) : Prop := "k".toList.isPrefixOf item = true
def startsNum (item : List Char) : Prop := "num".toList.isPrefixOf item = true
def startsScaled (item : List Char) : Prop := "scaled".toList.isPrefixOf item = true
def startsSeed (item : List Char) : Prop := "seed".toList.isPrefixOf item = true
def isFlag (item : List Char) : Prop := item = "abund".toList ∨ item = "noabund".toList

/-- the declarative reading of the refusals of one item, given what the earlier items of the same
string have set (`st`): which category the item falls in (the first of: flag, `k…`, `num…`,
`scaled…`, `seed…`, molecule word), and what is wrong with it -/
def Refused (st : Option Mol × Params) (item : List Char) : Reason → Prop
  | .kNoParam => ¬ isFlag item ∧ startsK item ∧ (item.length < 3 ∨ item[1]? ≠ some '=')
  | .kNotInt => ¬ isFlag item ∧ startsK item ∧ ¬ (item.length < 3 ∨ item[1]? ≠ some '=') ∧
      pyInt? (item.drop 2) = none
  | .numNoParam => ¬ isFlag item ∧ ¬ startsK item ∧ startsNum item ∧
      (item.length < 5 ∨ item[3]? ≠ some '=')
  | .numAfterScaled => ¬ isFlag item ∧ ¬ startsK item ∧ startsNum item ∧
      ¬ (item.length < 5 ∨ item[3]? ≠ some '=') ∧ truthy st.2.scaled = true
  | .numNotInt => ¬ isFlag item ∧ ¬ startsK item ∧ startsNum item ∧
      ¬ (item.length < 5 ∨ item[3]? ≠ some '=') ∧ truthy st.2.scaled = false ∧
      pyInt? (item.drop 4) = none
  | .numNegative => ¬ isFlag item ∧ ¬ startsK item ∧ startsNum item ∧
      ¬ (item.length < 5 ∨ item[3]? ≠ some '=') ∧ truthy st.2.scaled = false ∧
      ∃ n, pyInt? (item.drop 4) = some n ∧ n < 0
  | .scaledNoParam => ¬ isFlag item ∧ ¬ startsK item ∧ ¬ startsNum item ∧ startsScaled item ∧
      (item.length < 8 ∨ item[6]? ≠ some '=')
  | .scaledAfterNum => ¬ isFlag item ∧ ¬ startsK item ∧ ¬ startsNum item ∧ startsScaled item ∧
      ¬ (item.length < 8 ∨ item[6]? ≠ some '=') ∧ truthy st.2.num = true
  | .scaledNotInt => ¬ isFlag item ∧ ¬ startsK item ∧ ¬ startsNum item ∧ startsScaled item ∧
      ¬ (item.length < 8 ∨ item[6]? ≠ some '=') ∧ truthy st.2.num = false ∧
      pyInt? (item.drop 7) = none
  | .scaledTooBig => ¬ isFlag item ∧ ¬ startsK item ∧ ¬ startsNum item ∧ startsScaled item ∧
      ¬ (item.length < 8 ∨ item[6]? ≠ some '=') ∧ truthy st.2.num = false ∧
      ∃ n, pyInt? (item.drop 7) = some n ∧ floatOfNat n.natAbs = none
  | .scaledNegative => ¬ isFlag item ∧ ¬ startsK item ∧ ¬ startsNum item ∧ startsScaled item ∧
      ¬ (item.length < 8 ∨ item[6]? ≠ some '=') ∧ truthy st.2.num = false ∧
      ∃ n, pyInt? (item.drop 7) = some n ∧ (∃ f, floatOfNat n.natAbs = some f) ∧ n < 0
  | .seedNoParam => ¬ isFlag item ∧ ¬ startsK item ∧ ¬ startsNum item ∧ ¬ startsScaled item ∧
      startsSeed item ∧ (item.length < 6 ∨ item[4]? ≠ some '=')
  | .seedNotInt => ¬ isFlag item ∧ ¬ startsK item ∧ ¬ startsNum item ∧ ¬ startsScaled item ∧
      startsSeed item ∧ ¬ (item.length < 6 ∨ item[4]? ≠ some '=') ∧ pyInt? (item.drop 5) = none
  | .unknownItem => ¬ isFlag item ∧ ¬ startsK item ∧ ¬ startsNum item ∧ ¬ startsScaled item ∧
      ¬ startsSeed item ∧ molOfItem item = none
  | _ => False

theorem stepItem_error_iff (st : Option Mol × Params) (item : List Char) (r : Reason) :
    stepItem st item = .error r ↔ Refused st item r := by
  unfold stepItem
  simp only []
  by_cases c1 : item = "abund".toList
  · rw [if_pos c1]
    cases r <;> simp [Refused, isFlag, c1]
  rw [if_neg c1]
  by_cases c2 : item = "noabund".toList
  · rw [if_pos c2]
    cases r <;> simp [Refused, isFlag, c2]
  rw [if_neg c2]
  have hf : ¬ isFlag item := by rintro (h | h) <;> contradiction
  by_cases c3 : "k".toList.isPrefixOf item = true
  · rw [if_pos c3]
    have k3 : startsK item := c3
    by_cases d : item.length < 3 ∨ item[1]? ≠ some '='
    · rw [if_pos d]
      cases r <;> simp [Refused, hf, k3, d]
    · rw [if_neg d]
      cases hp : pyInt? (item.drop 2) with
      | none => cases r <;> simp [Refused, hf, k3, d, hp]
      | some n => cases r <;> simp [Refused, hf, k3, d, hp]
  rw [if_neg c3]
  have k3 : ¬ startsK item := c3
  by_cases c4 : "num".toList.isPrefixOf item = true
  · rw [if_pos c4]
    have k4 : startsNum item := c4
    by_cases d : item.length < 5 ∨ item[3]? ≠ some '='
    · rw [if_pos d]
      cases r <;> simp [Refused, hf, k3, k4, d]
    · rw [if_neg d]
      cases ht : truthy st.2.scaled with
      | true =>
        simp only [if_true]
        cases r <;> simp [Refused, hf, k3, k4, d, ht]
      | false =>
        simp only [Bool.false_eq_true, if_false]
        cases hp : pyInt? (item.drop 4) with
        | none => cases r <;> simp [Refused, hf, k3, k4, d, ht, hp]
        | some n =>
          simp only []
          by_cases hn : n < 0
          · rw [if_pos hn]
            cases r <;> simp [Refused, hf, k3, k4, d, ht, hp, hn]
          · rw [if_neg hn]
            cases r <;> simp [Refused, hf, k3, k4, d, ht, hp, hn]
  rw [if_neg c4]
  have k4 : ¬ startsNum item := c4
  by_cases c5 : "scaled".toList.isPrefixOf item = true
  · rw [if_pos c5]
    have k5 : startsScaled item := c5
    by_cases d : item.length < 8 ∨ item[6]? ≠ some '='
    · rw [if_pos d]
      cases r <;> simp [Refused, hf, k3, k4, k5, d]
    · rw [if_neg d]
      cases ht : truthy st.2.num with
      | true =>
        simp only [if_true]
        cases r <;> simp [Refused, hf, k3, k4, k5, d, ht]
      | false =>
        simp only [Bool.false_eq_true, if_false]
        cases hp : pyInt? (item.drop 7) with
        | none => cases r <;> simp [Refused, hf, k3, k4, k5, d, ht, hp]
        | some n =>
          simp only []
          cases hfl : floatOfNat n.natAbs with
          | none =>
            cases r <;> simp [Refused, hf, k3, k4, k5, d, ht, hp, hfl]
          | some f =>
            simp only []
            by_cases hn : n < 0
            · rw [if_pos hn]
              cases r <;> simp [Refused, hf, k3, k4, k5, d, ht, hp, hfl, hn]
            · rw [if_neg hn]
              cases r <;> simp [Refused, hf, k3, k4, k5, d, ht, hp, hfl, hn]
  rw [if_neg c5]
  have k5 : ¬ startsScaled item := c5
  by_cases c6 : "seed".toList.isPrefixOf item = true
  · rw [if_pos c6]
    have k6 : startsSeed item := c6
    by_cases d : item.length < 6 ∨ item[4]? ≠ some '='
    · rw [if_pos d]
      cases r <;> simp [Refused, hf, k3, k4, k5, k6, d]
    · rw [if_neg d]
      cases hp : pyInt? (item.drop 5) with
      | none => cases r <;> simp [Refused, hf, k3, k4, k5, k6, d, hp]
      | some n => cases r <;> simp [Refused, hf, k3, k4, k5, k6, d, hp]
  rw [if_neg c6]
  have k6 : ¬ startsSeed item := c6
  cases hm : molOfItem item with
  | none => cases r <;> simp [Refused, hf, k3, k4, k5, k6, hm]
  | some m => cases r <;> simp [Refused, hf, k3, k4, k5, k6, hm]

/-- a refused string has a first refused item, and every item before it was accepted -/
theorem parse_error_iff (s : List Char) (r : Reason) :
    parseParamsStr s = .error r ↔
      ∃ pre item post st, splitOn ',' s = pre ++ item :: post ∧
        foldItems pre (none, {}) = .ok st ∧ Refused st item r := by
  unfold parseParamsStr
  generalize splitOn ',' s = items
  generalize ((none, {}) : Option Mol × Params) = st0
  induction items generalizing st0 with
  | nil =>
    simp only [foldItems]
    constructor
    · intro h; cases h
    · rintro ⟨pre, item, post, st, h, _⟩
      cases pre <;> simp at h
  | cons it rest ih =>
    constructor
    · intro h
      unfold foldItems at h
      cases hs : stepItem st0 it with
      | error e =>
        rw [hs] at h
        injection h with h
        subst h
        exact ⟨[], it, rest, st0, rfl, rfl, (stepItem_error_iff st0 it e).1 hs⟩
      | ok st1 =>
        rw [hs] at h
        obtain ⟨pre, item, post, st, h1, h2, h3⟩ := (ih st1).1 h
        refine ⟨it :: pre, item, post, st, by rw [h1]; rfl, ?_, h3⟩
        unfold foldItems
        rw [hs]; exact h2
    · rintro ⟨pre, item, post, st, h1, h2, h3⟩
      cases pre with
      | nil =>
        simp only [List.nil_append, List.cons.injEq] at h1
        obtain ⟨rfl, rfl⟩ := h1
        simp only [foldItems, Except.ok.injEq] at h2
        subst h2
        unfold foldItems
        rw [(stepItem_error_iff _ _ _).2 h3]
      | cons p pre =>
        simp only [List.cons_append, List.cons.injEq] at h1
        obtain ⟨rfl, h1⟩ := h1
        unfold foldItems at h2 ⊢
        cases hs : stepItem st0 it with
        | error e => rw [hs] at h2; cases h2
        | ok st1 =>
          rw [hs] at h2
          exact (ih st1).2 ⟨pre, item, post, st, h1, h2, h3⟩

/-- not both a num and a scaled; one is set exactly when the other is -/
def NS (p : Params) : Prop :=
  ¬ (truthy p.num = true ∧ truthy p.scaled = true) ∧ (p.num.isSome ↔ p.scaled.isSome)

theorem NS_default : NS {} := by
  refine ⟨?_, ?_⟩ <;> simp [truthy]

theorem stepItem_NS {st st' : Option Mol × Params} {item : List Char} (hns : NS st.2)
    (h : stepItem st item = .ok st') : NS st'.2 := by
  unfold stepItem at h
  simp only [] at h
  by_cases c1 : item = "abund".toList
  · rw [if_pos c1] at h; injection h with h; subst h; exact hns
  rw [if_neg c1] at h
  by_cases c2 : item = "noabund".toList
  · rw [if_pos c2] at h; injection h with h; subst h; exact hns
  rw [if_neg c2] at h
  by_cases c3 : "k".toList.isPrefixOf item = true
  · rw [if_pos c3] at h
    split at h
    · cases h
    · split at h
      · injection h with h; subst h; exact hns
      · cases h
  rw [if_neg c3] at h
  by_cases c4 : "num".toList.isPrefixOf item = true
  · rw [if_pos c4] at h
    split at h
    · cases h
    · split at h
      · cases h
      · split at h
        · cases h
        · split at h
          · cases h
          · injection h with h; subst h
            refine ⟨?_, ?_⟩ <;> simp [truthy]
  rw [if_neg c4] at h
  by_cases c5 : "scaled".toList.isPrefixOf item = true
  · rw [if_pos c5] at h
    split at h
    · cases h
    · split at h
      · cases h
      · split at h
        · cases h
        · split at h
          · cases h
          · split at h
            · cases h
            · injection h with h; subst h
              refine ⟨?_, ?_⟩ <;> simp [truthy]
  rw [if_neg c5] at h
  by_cases c6 : "seed".toList.isPrefixOf item = true
  · rw [if_pos c6] at h
    split at h
    · cases h
    · split at h
      · injection h with h; subst h; exact hns
      · cases h
  rw [if_neg c6] at h
  split at h
  · injection h with h; subst h; exact hns
  · cases h

theorem foldItems_NS {items : List (List Char)} {st st' : Option Mol × Params} (hns : NS st.2)
    (h : foldItems items st = .ok st') : NS st'.2 := by
  induction items generalizing st with
  | nil =>
    simp only [foldItems, Except.ok.injEq] at h
    subst h; exact hns
  | cons item items ih =>
    unfold foldItems at h
    cases hs : stepItem st item with
    | error e => rw [hs] at h; cases h
    | ok st1 =>
      rw [hs] at h
      exact ih (stepItem_NS hns hs) h

theorem parse_NS {s : List Char} {mt : Option Mol} {p : Params}
    (h : parseParamsStr s = .ok (mt, p)) : NS p :=
  foldItems_NS (st := (none, {})) NS_default h

theorem parse_numScaled (s : List Char) (mt : Option Mol) (p : Params)
    (h : parseParamsStr s = .ok (mt, p)) :
    ¬ (truthy p.num ∧ truthy p.scaled) ∧ (p.num.isSome ↔ p.scaled.isSome) :=
  parse_NS h

theorem NS_defaultsOf (m : Mol) : NS (defaultsOf m) := by
  unfold defaultsOf
  split
  · split
    · rename_i h; exact parse_NS h
    · exact NS_default
  · exact NS_default

/-- the per-moltype default string parses, names no molecule type, has a k size, an abundance
flag and a num or a scaled -/
def defaultOk (m : Mol) : Bool :=
  match Gen.sketchDefaults.lookup m.name with
  | some s =>
    match parseParamsStr s.toList with
    | .ok (none, p) => !p.ksize.isEmpty && p.track.isSome && (truthy p.num || truthy p.scaled)
    | _ => false
  | none => false

theorem defaultOk_spec {m : Mol} (h : defaultOk m = true) :
    ∃ s, Gen.sketchDefaults.lookup m.name = some s ∧
      ∃ p, parseParamsStr s.toList = .ok (none, p) ∧ p.ksize ≠ [] ∧ p.track.isSome ∧
        (truthy p.num ∨ truthy p.scaled) := by
  unfold defaultOk at h
  split at h
  · rename_i s hs
    split at h
    · rename_i p hp
      simp only [Bool.and_eq_true, Bool.not_eq_true', Bool.or_eq_true, List.isEmpty_eq_false_iff] at h
      exact ⟨s, hs, p, hp, h.1.1, h.1.2, h.2⟩
    · cases h
  · cases h

/-! ### `build_template` -/

theorem buildTemplate_length (p : CP) :
    (buildTemplate p).length = p.ksizes.length * (molsOf p).length := by
  unfold buildTemplate
  induction p.ksizes with
  | nil => simp
  | cons k ks ih =>
    simp only [List.flatMap_cons, List.length_append, List.length_map, List.length_cons, ih]
    rw [Nat.add_mul, Nat.one_mul, Nat.add_comm]

theorem mem_buildTemplate (p : CP) (b : BT) :
    b ∈ buildTemplate p ↔ ∃ k ∈ p.ksizes, ∃ m ∈ molsOf p, b = template p k m := by
  unfold buildTemplate
  simp only [List.mem_flatMap, List.mem_map]
  constructor
  · rintro ⟨k, hk, m, hm, rfl⟩; exact ⟨k, hk, m, hm, rfl⟩
  · rintro ⟨k, hk, m, hm, rfl⟩; exact ⟨k, hk, m, hm, rfl⟩

theorem template_abs (p : CP) (k : Nat) (m : Mol) :
    (template p k m).abs = MH.new p.scaled k m.hf p.seed p.track p.num ∧
    BInv (template p k m) ∧ CmOk (template p k m) := by
  have h1 : (template p k m).abs = MH.new p.scaled k m.hf p.seed p.track p.num := by
    unfold template BT.abs MH.new
    cases p.track <;> rfl
  refine ⟨h1, ⟨by rw [h1]; exact inv_new .., ?_⟩, fun _ h => absurd rfl h⟩
  intro mm hm
  unfold template at hm ⊢
  cases hp : p.track <;> rw [hp] at hm <;> simp at hm ⊢
  exact hm.symm ▸ rfl

/-! ### the factory -/

theorem mapM'_mem {α β} {f : α → Except Reason β} {l : List α} {r : List β} (h : mapM' f l = .ok r) :
    ∀ y ∈ r, ∃ x ∈ l, f x = .ok y := by
  induction l generalizing r with
  | nil =>
    simp only [mapM', Except.ok.injEq] at h
    subst h; intro y hy; cases hy
  | cons a as ih =>
    unfold mapM' at h
    cases hf : f a with
    | error e => rw [hf] at h; cases h
    | ok b =>
      rw [hf] at h
      cases hm : mapM' f as with
      | error e => rw [hm] at h; cases h
      | ok bs =>
        rw [hm] at h
        simp only [Except.ok.injEq] at h
        subst h
        intro y hy
        rcases List.mem_cons.1 hy with rfl | hy
        · exact ⟨a, by simp, hf⟩
        · obtain ⟨x, hx, hfx⟩ := ih hm y hy
          exact ⟨x, List.mem_cons_of_mem _ hx, hfx⟩

theorem mkCP_fields {r : RawCP} {ks : List Int} {c : CP} (h : mkCP r ks = .ok c) :
    c.num = r.num ∧ c.scaled = r.scaled := by
  unfold mkCP at h
  repeat' split at h
  all_goals first
    | (injection h with h; subst h; exact ⟨rfl, rfl⟩)
    | cases h

/-- a parameter set for a num sketch or a scaled sketch, not both -/
def CPExcl (c : CP) : Prop := c.scaled = 0 ∨ c.num = 0

theorem rawOf_excl (m : Mol) {p : Params} (hp : NS p) :
    (rawOf m p).scaled = 0 ∨ (rawOf m p).num = 0 := by
  have hd := NS_defaultsOf m
  unfold rawOf
  simp only []
  generalize defaultsOf m = d at hd
  obtain ⟨h1, h2⟩ := hp
  obtain ⟨h3, h4⟩ := hd
  cases hn : p.num with
  | none =>
    have hs : p.scaled = none := by
      cases hsc : p.scaled with
      | none => rfl
      | some s => rw [hn, hsc] at h2; simp at h2
    rw [hs]
    simp only []
    cases hdn : d.num with
    | none => right; simp
    | some n =>
      cases hds : d.scaled with
      | none => left; simp
      | some s =>
        simp only [Option.getD_some]
        rw [hdn, hds] at h3
        simp only [truthy, bne_iff_ne, ne_eq, not_and, Decidable.not_not] at h3
        by_cases hz : n = 0
        · exact Or.inr hz
        · exact Or.inl (h3 hz)
  | some n =>
    cases hsc : p.scaled with
    | none => rw [hn, hsc] at h2; simp at h2
    | some s =>
      simp only []
      rw [hn, hsc] at h1
      simp only [truthy, bne_iff_ne, ne_eq, not_and, Decidable.not_not] at h1
      by_cases hz : n = 0
      · exact Or.inr hz
      · exact Or.inl (h1 hz)

theorem computeParamsOf_excl {split : Bool} {mp : Mol × Params} {cs : List CP} (hp : NS mp.2)
    (h : computeParamsOf split mp = .ok cs) : ∀ c ∈ cs, CPExcl c := by
  have hr := rawOf_excl mp.1 hp
  unfold computeParamsOf at h
  simp only [] at h
  cases split with
  | true =>
    simp only [if_true] at h
    intro c hc
    obtain ⟨k, _, hk⟩ := mapM'_mem h c hc
    have := mkCP_fields hk
    unfold CPExcl
    rw [this.1, this.2]; exact hr
  | false =>
    simp only [Bool.false_eq_true, if_false] at h
    cases hm : mkCP (rawOf mp.1 mp.2) (rawOf mp.1 mp.2).ksizes with
    | error e => rw [hm] at h; cases h
    | ok c0 =>
      rw [hm] at h
      simp only [Except.map, Except.ok.injEq] at h
      subst h
      intro c hc
      simp only [List.mem_singleton] at hc
      subst hc
      have := mkCP_fields hm
      unfold CPExcl
      rw [this.1, this.2]; exact hr

theorem factoryInit_go_NS {ps : List (List Char)} {d : Option Mol} {pl : List (Mol × Params)}
    (h : factoryInitCore.go ps d = .ok pl) : pl.length = ps.length ∧ ∀ mp ∈ pl, NS mp.2 := by
  induction ps generalizing pl with
  | nil =>
    simp only [factoryInitCore.go, Except.ok.injEq] at h
    subst h
    exact ⟨rfl, fun _ hm => by cases hm⟩
  | cons s rest ih =>
    unfold factoryInitCore.go at h
    cases hp : parseParamsStr s with
    | error e => rw [hp] at h; cases h
    | ok r =>
      obtain ⟨mt, p⟩ := r
      rw [hp] at h
      simp only [] at h
      split at h
      · cases h
      · rename_i m hm
        cases hg : factoryInitCore.go rest d with
        | error e => rw [hg] at h; cases h
        | ok l =>
          rw [hg] at h
          simp only [Except.ok.injEq] at h
          subst h
          have := ih hg
          refine ⟨by simp [this.1], ?_⟩
          intro mp hmp
          rcases List.mem_cons.1 hmp with rfl | hmp
          · exact parse_NS hp
          · exact this.2 mp hmp

theorem factoryInit_core {ps : List (List Char)} {d : Option Mol} {pl : List (Mol × Params)}
    (h : factoryInit ps d = .ok pl) : factoryInitCore ps d = .ok pl := by
  unfold factoryInit at h
  cases hc : factoryInitCore ps d with
  | error e => rw [hc] at h; cases h
  | ok pl' =>
    rw [hc] at h
    simp only [] at h
    split at h
    · cases h
    · exact h

theorem factoryInitCore_NS {ps : List (List Char)} {d : Option Mol} {pl : List (Mol × Params)}
    (h : factoryInitCore ps d = .ok pl) : pl.length = max 1 ps.length ∧ ∀ mp ∈ pl, NS mp.2 := by
  cases ps with
  | nil =>
    cases d with
    | none => simp [factoryInitCore] at h
    | some d =>
      simp only [factoryInitCore, Except.ok.injEq] at h
      subst h
      refine ⟨rfl, ?_⟩
      intro mp hmp
      simp only [List.mem_singleton] at hmp
      subst hmp
      exact NS_default
  | cons s rest =>
    have h' : factoryInitCore.go (s :: rest) d = .ok pl := by
      cases d <;> exact h
    have := factoryInit_go_NS h'
    refine ⟨?_, this.2⟩
    rw [this.1]
    simp only [List.length_cons]
    omega

theorem factoryInit_NS {ps : List (List Char)} {d : Option Mol} {pl : List (Mol × Params)}
    (h : factoryInit ps d = .ok pl) : pl.length = max 1 ps.length ∧ ∀ mp ∈ pl, NS mp.2 :=
  factoryInitCore_NS (factoryInit_core h)

theorem mapM'_single_length {l : List (Mol × Params)} {r : List (List CP)}
    (h : mapM' (computeParamsOf false) l = .ok r) : r.flatten.length = l.length := by
  induction l generalizing r with
  | nil =>
    simp only [mapM', Except.ok.injEq] at h
    subst h; rfl
  | cons a as ih =>
    unfold mapM' at h
    cases hf : computeParamsOf false a with
    | error e => rw [hf] at h; cases h
    | ok b =>
      rw [hf] at h
      cases hm : mapM' (computeParamsOf false) as with
      | error e => rw [hm] at h; cases h
      | ok bs =>
        rw [hm] at h
        simp only [Except.ok.injEq] at h
        subst h
        have hb : b.length = 1 := by
          unfold computeParamsOf at hf
          simp only [Bool.false_eq_true, if_false] at hf
          cases hk : mkCP (rawOf a.1 a.2) (rawOf a.1 a.2).ksizes with
          | error e => rw [hk] at hf; cases hf
          | ok c0 =>
            rw [hk] at hf
            simp only [Except.map, Except.ok.injEq] at hf
            subst hf; rfl
        simp only [List.flatten_cons, List.length_append, List.length_cons, ih hm, hb]
        omega

theorem factory_length (ps : List (List Char)) (d : Option Mol) (sigs : List (List BT))
    (h : factory ps d false = .ok sigs) : sigs.length = max 1 ps.length := by
  unfold factory at h
  cases hi : factoryInit ps d with
  | error e => rw [hi] at h; cases h
  | ok pl =>
    rw [hi] at h
    simp only [] at h
    cases hm : mapM' (computeParamsOf false) pl with
    | error e => rw [hm] at h; cases h
    | ok cps =>
      rw [hm] at h
      simp only [Except.ok.injEq] at h
      subst h
      rw [List.length_map, mapM'_single_length hm]
      exact (factoryInit_NS hi).1

theorem template_excl {c : CP} (hc : CPExcl c) (k : Nat) (m : Mol) : Excl (template c k m).abs := by
  unfold Excl
  show c.num = 0 ∨ mhR c.scaled = 0
  rcases hc with h | h
  · right; rw [h]; rfl
  · left; exact h

theorem factory_excl (ps : List (List Char)) (d : Option Mol) (split : Bool)
    (sigs : List (List BT)) (h : factory ps d split = .ok sigs) :
    ∀ sig ∈ sigs, ∀ b ∈ sig, Excl b.abs ∧ BInv b ∧ CmOk b ∧ b.mins = [] := by
  unfold factory at h
  cases hi : factoryInit ps d with
  | error e => rw [hi] at h; cases h
  | ok pl =>
    rw [hi] at h
    simp only [] at h
    cases hm : mapM' (computeParamsOf split) pl with
    | error e => rw [hm] at h; cases h
    | ok cps =>
      rw [hm] at h
      simp only [Except.ok.injEq] at h
      subst h
      intro sig hsig b hb
      simp only [List.mem_map] at hsig
      obtain ⟨c, hc, rfl⟩ := hsig
      obtain ⟨cs, hcs, hcc⟩ := List.mem_flatten.1 hc
      obtain ⟨mp, hmp, hf⟩ := mapM'_mem hm cs hcs
      have hex : CPExcl c := computeParamsOf_excl ((factoryInit_NS hi).2 mp hmp) hf c hcc
      obtain ⟨k, _, m, _, rfl⟩ := (mem_buildTemplate c b).1 hb
      have := template_abs c k m
      exact ⟨template_excl hex k m, this.2.1, this.2.2, rfl⟩

theorem factory_templates (ps : List (List Char)) (d : Option Mol) (split : Bool)
    (sigs : List (List BT)) (h : factory ps d split = .ok sigs) :
    ∀ sig ∈ sigs, ∀ b ∈ sig, ∃ c k m, CPExcl c ∧ b = template c k m := by
  unfold factory at h
  cases hi : factoryInit ps d with
  | error e => rw [hi] at h; cases h
  | ok pl =>
    rw [hi] at h
    simp only [] at h
    cases hm : mapM' (computeParamsOf split) pl with
    | error e => rw [hm] at h; cases h
    | ok cps =>
      rw [hm] at h
      simp only [Except.ok.injEq] at h
      subst h
      intro sig hsig b hb
      simp only [List.mem_map] at hsig
      obtain ⟨c, hc, rfl⟩ := hsig
      obtain ⟨cs, hcs, hcc⟩ := List.mem_flatten.1 hc
      obtain ⟨mp, hmp, hf⟩ := mapM'_mem hm cs hcs
      have hex : CPExcl c := computeParamsOf_excl ((factoryInit_NS hi).2 mp hmp) hf c hcc
      obtain ⟨k, _, m, _, rfl⟩ := (mem_buildTemplate c b).1 hb
      exact ⟨c, k, m, hex, rfl⟩

/-! ### factory = direct -/

theorem factory_direct (p : CP) (k : Nat) (m : Mol) (hs : List Nat)
    (hx : p.scaled = 0 ∨ p.num = 0) (hst : Stable (mhR p.scaled)) :
    ((template p k m).addMany hs).intoVec =
      { (MH.new p.scaled k m.hf p.seed p.track p.num).addMany hs with md5 := none } ∧
    ((template p k m).addMany hs).md5sum.2 =
      ((MH.new p.scaled k m.hf p.seed p.track p.num).addMany hs).md5sum.2 := by
  obtain ⟨h1, h2, h3⟩ := template_abs p k m
  have hex : Excl (template p k m).abs := template_excl hx k m
  have hsim := sim_addMany h2 hex h3 hs
  rw [h1] at hsim
  have hmax : ((template p k m).addMany hs).maxHash = mhR p.scaled := by
    have := (addMany_frame (MH.new p.scaled k m.hf p.seed p.track p.num) hs).2.1
    have e : ((template p k m).addMany hs).abs.maxHash = mhR p.scaled := by rw [hsim.1, this]; rfl
    exact e
  constructor
  · rw [intoVec_eq, hmax, hsim.1]
    unfold Stable at hst
    rw [hst]
    have := (addMany_frame (MH.new p.scaled k m.hf p.seed p.track p.num) hs).2.1
    generalize (MH.new p.scaled k m.hf p.seed p.track p.num).addMany hs = v at this ⊢
    obtain ⟨num, maxHash, ksize, seed, hf, mins, abunds, md5⟩ := v
    simp only at this
    rw [this]
    rfl
  · rw [(abs_md5sum _).2, hsim.1]

theorem factory_direct_json (p : CP) (k : Nat) (m : Mol) (hs : List Nat)
    (hx : p.scaled = 0 ∨ p.num = 0) :
    ((template p k m).addMany hs).serialize.2 =
      ((MH.new p.scaled k m.hf p.seed p.track p.num).addMany hs).serialize.2 := by
  obtain ⟨h1, h2, h3⟩ := template_abs p k m
  have hex : Excl (template p k m).abs := template_excl hx k m
  have hsim := sim_addMany h2 hex h3 hs
  rw [h1] at hsim
  rw [BT.serialize_eq, ← hsim.1, MH.serialize_abs]

end Sm.Sketch
