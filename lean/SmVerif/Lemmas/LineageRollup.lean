/-
More about `find_lca` and the summarised counts, for arbitrary lineage sets:
* the reported path is the LONGEST path all lineages agree on (`isLca_longest`), and the empty path
  when two lineages start with different taxa (several roots);
* `count_lca_for_assignments` conserves the number (weight) of assigned hashes;
* the rollup of `summarize`: a node's count is its own plus its children's.
-/
import SmVerif.Lemmas.LineageLca
import SmVerif.Lemmas.LineageAgg

namespace Sm.Lin

open Sm.Dict

section Longest

variable {κ : Type}

/-- an agreed path: on the way to some member, and no member leaves it -/
def Agreed (Ls : List (List κ)) (q : List κ) : Prop :=
  (∃ l ∈ Ls, q <+: l) ∧ ∀ l ∈ Ls, l <+: q ∨ q <+: l

theorem IsLca.agreed {Ls : List (List κ)} {p : List κ} {r : Nat} (h : IsLca Ls p r) : Agreed Ls p :=
  ⟨h.onPath, h.comparable⟩

/-- the LCA path is the longest agreed path: every agreed path is a prefix of it -/
theorem isLca_longest {Ls : List (List κ)} {p : List κ} {r : Nat} (h : IsLca Ls p r) {q : List κ}
    (hq : Agreed Ls q) : q <+: p := by
  obtain ⟨⟨lq, hlq, hqp⟩, hqc⟩ := hq
  -- p and q are comparable
  have hcmp : p <+: q ∨ q <+: p := by
    rcases h.comparable lq hlq with hc | hc
    · exact Or.inr (List.IsPrefix.trans hqp hc)
    · exact prefix_comparable hc hqp
  rcases hcmp with hpq | hqp'
  · by_cases hlen : p.length < q.length
    · exfalso
      obtain ⟨k, hk⟩ := snoc_prefix_of_lt hpq hlen
      obtain ⟨ks, hnd, hlenks, hmem⟩ := h.ext
      have hk_in : k ∈ ks := (hmem k).mpr ⟨lq, hlq, List.IsPrefix.trans hk hqp⟩
      have hall : ∀ k' ∈ ks, k' = k := by
        intro k' hk'
        obtain ⟨l2, hl2, hp2⟩ := (hmem k').mp hk'
        rcases hqc l2 hl2 with hc | hc
        · exact snoc_prefix_inj (List.IsPrefix.trans hp2 hc) hk
        · exact snoc_prefix_inj hp2 (List.IsPrefix.trans hk hc)
      have : ks.length = 1 := by
        cases ks with
        | nil => simp at hk_in
        | cons x xs =>
          cases xs with
          | nil => rfl
          | cons y ys =>
            exfalso
            have hx := hall x (by simp)
            have hy := hall y (by simp)
            simp only [List.nodup_cons, List.mem_cons, not_or] at hnd
            exact hnd.1.1 (hx.trans hy.symm)
      exact h.notOne (hlenks ▸ this)
    · rw [List.IsPrefix.eq_of_length_le hpq (by omega)]
      exact List.prefix_refl _
  · exact hqp'

/-- several roots: two members that start differently force the empty path -/
theorem isLca_roots {Ls : List (List κ)} {p : List κ} {r : Nat} (h : IsLca Ls p r) {k₁ k₂ : κ} {t₁ t₂ : List κ}
    (h₁ : k₁ :: t₁ ∈ Ls) (h₂ : k₂ :: t₂ ∈ Ls) (hne : k₁ ≠ k₂) : p = [] ∧ 2 ≤ r := by
  have hp : p = [] := by
    cases p with
    | nil => rfl
    | cons a as =>
      exfalso
      have e1 : a = k₁ := by
        rcases h.comparable _ h₁ with hc | hc
        · exact ((List.cons_prefix_cons.mp hc).1).symm
        · exact (List.cons_prefix_cons.mp hc).1
      have e2 : a = k₂ := by
        rcases h.comparable _ h₂ with hc | hc
        · exact ((List.cons_prefix_cons.mp hc).1).symm
        · exact (List.cons_prefix_cons.mp hc).1
      exact hne (e1.symm.trans e2)
  subst hp
  refine ⟨rfl, ?_⟩
  obtain ⟨ks, hnd, hlen, hmem⟩ := h.ext
  have m1 : k₁ ∈ ks := (hmem k₁).mpr ⟨_, h₁, by simp⟩
  have m2 : k₂ ∈ ks := (hmem k₂).mpr ⟨_, h₂, by simp⟩
  rw [← hlen]
  match ks, m1, m2, hnd with
  | [], m1, _, _ => simp at m1
  | [x], m1, m2, _ =>
    simp only [List.mem_cons, List.not_mem_nil, or_false] at m1 m2
    exact absurd (m1.trans m2.symm) hne
  | _ :: _ :: _, _, _, _ => simp

end Longest

/-! ### conservation -/

theorem sum_map_one {α : Type} (l : List α) : (l.map (fun _ => 1)).sum = l.length := by
  induction l with
  | nil => rfl
  | cons x xs ih => simp only [List.map_cons, List.sum_cons, List.length_cons, ih]; omega

theorem sum_map_zero {α : Type} (l : List α) : (l.map (fun _ => 0)).sum = 0 := by
  induction l with
  | nil => rfl
  | cons x xs ih => simp only [List.map_cons, List.sum_cons, ih]

theorem mul_indicator_sum {β : Type} (c : Nat) (b : β → Prop) [DecidablePred b] (ks : List β) :
    c * (ks.map (fun k => if b k then 1 else 0)).sum = (ks.map (fun k => if b k then c else 0)).sum := by
  induction ks with
  | nil => simp
  | cons k rest ih =>
    simp only [List.map_cons, List.sum_cons, Nat.mul_add, ih]
    by_cases h : b k <;> simp [h]

theorem sum_counts_eq_selSum (c : List (Lineage × Nat)) : (c.map Prod.snd).sum = selSum (fun _ => true) c := by
  unfold selSum
  simp

/-- unweighted counting: the counts add up to the number of hashes that have at least one lineage -/
theorem countLca_conservation {asg : List (Nat × List Lineage)} {counts : List (Lineage × Nat)}
    (h : countLca asg none = .ok counts) : (counts.map Prod.snd).sum = asg.length := by
  obtain ⟨h1, _⟩ := foldlM_countStep asg h
  rw [sum_counts_eq_selSum, h1]
  simp only [selSum, hashSum, weightOf, wOf, List.map_nil, List.sum_nil, Nat.zero_add, if_true, Option.getD_some]
  exact sum_map_one asg

/-- weighted counting: the counts add up to the total weight of the assigned hashes -/
theorem countLca_conservation_weighted {asg : List (Nat × List Lineage)} {w : Option (List (Nat × Nat))}
    {counts : List (Lineage × Nat)} (h : countLca asg w = .ok counts) :
    (counts.map Prod.snd).sum = (asg.map (fun a => weightOf w a.1)).sum := by
  obtain ⟨h1, _⟩ := foldlM_countStep asg h
  rw [sum_counts_eq_selSum, h1]
  simp [selSum, hashSum]

/-! ### the rollup -/

theorem sum_map_add {α : Type} (f g : α → Nat) (l : List α) :
    (l.map (fun x => f x + g x)).sum = (l.map f).sum + (l.map g).sum := by
  induction l with
  | nil => rfl
  | cons x xs ih => simp only [List.map_cons, List.sum_cons, ih]; omega

theorem sum_swap {α β : Type} (F : α → β → Nat) (l : List α) (ks : List β) :
    (l.map (fun x => (ks.map (fun k => F x k)).sum)).sum = (ks.map (fun k => (l.map (fun x => F x k)).sum)).sum := by
  induction l with
  | nil => simp only [List.map_nil, List.sum_nil]; exact (sum_map_zero ks).symm
  | cons x xs ih =>
    simp only [List.map_cons, List.sum_cons, ih]
    rw [← sum_map_add]

/-- over a duplicate-free list of candidate next taxa, at most one continues `p` inside `l` -/
theorem sum_next_indicator (p l : Lineage) (ks : List Key) (hnd : ks.Nodup) :
    (ks.map (fun k => if p ++ [k] <+: l then 1 else 0)).sum = if ∃ k ∈ ks, p ++ [k] <+: l then 1 else 0 := by
  induction ks with
  | nil => simp
  | cons k rest ih =>
    simp only [List.nodup_cons] at hnd
    simp only [List.map_cons, List.sum_cons, ih hnd.2, List.mem_cons, exists_eq_or_imp]
    by_cases hk : p ++ [k] <+: l
    · have : ¬ ∃ k' ∈ rest, p ++ [k'] <+: l := by
        rintro ⟨k', hk', hp'⟩
        exact hnd.1 (snoc_prefix_inj hk hp' ▸ hk')
      simp [hk, this]
    · simp only [hk, if_false, false_or, Nat.zero_add]

theorem credit_snoc_iff (l p : Lineage) (k : Key) : credit l (p ++ [k]) ↔ p ++ [k] <+: l := by
  unfold credit
  constructor
  · rintro (⟨_, h⟩ | ⟨_, h⟩)
    · simp at h
    · exact h
  · intro h; exact Or.inr ⟨by simp, h⟩

/-- for a non-root node `p`: an LCA is credited to `p` iff it is `p` itself or is credited to exactly one child
    `p ++ [k]` (`ks`: any duplicate-free list containing every taxon that follows `p` in `l`) -/
theorem credit_split (l p : Lineage) (hp : p ≠ []) (ks : List Key) (hnd : ks.Nodup)
    (hks : ∀ k, p ++ [k] <+: l → k ∈ ks) :
    (if credit l p then 1 else 0) =
      (if l = p then 1 else 0) + (ks.map (fun k => if credit l (p ++ [k]) then 1 else 0)).sum := by
  have hcong : ks.map (fun k => if credit l (p ++ [k]) then 1 else 0) =
      ks.map (fun k => if p ++ [k] <+: l then 1 else 0) := by
    apply List.map_congr_left
    intro k _
    by_cases h : p ++ [k] <+: l
    · simp [(credit_snoc_iff l p k).mpr h, h]
    · have : ¬ credit l (p ++ [k]) := fun hc => h ((credit_snoc_iff l p k).mp hc)
      simp [this, h]
  rw [hcong, sum_next_indicator p l ks hnd]
  have hcr : credit l p ↔ p <+: l := by
    unfold credit
    constructor
    · rintro (⟨h1, h2⟩ | ⟨_, h⟩)
      · exact absurd h2 hp
      · exact h
    · intro h; exact Or.inr ⟨hp, h⟩
  by_cases hpl : p <+: l
  · by_cases heq : l = p
    · subst heq
      have : ¬ ∃ k ∈ ks, l ++ [k] <+: l := by
        rintro ⟨k, _, hk⟩
        have := hk.length_le
        simp at this
        omega
      simp [hcr.mpr hpl, this]
    · have hlt : p.length < l.length := by
        rcases Nat.lt_or_ge p.length l.length with h | h
        · exact h
        · exact absurd (List.IsPrefix.eq_of_length_le hpl h).symm heq
      obtain ⟨k, hk⟩ := snoc_prefix_of_lt hpl hlt
      have : ∃ k ∈ ks, p ++ [k] <+: l := ⟨k, hks k hk, hk⟩
      simp [hcr.mpr hpl, heq, this]
  · have h1 : ¬ credit l p := fun h => hpl (hcr.mp h)
    have h2 : ¬ l = p := fun e => hpl (e ▸ List.prefix_refl _)
    have h3 : ¬ ∃ k ∈ ks, p ++ [k] <+: l := by
      rintro ⟨k, _, hk⟩
      exact hpl (List.IsPrefix.trans (List.prefix_append p [k]) hk)
    simp [h1, h2, h3]

/-- the rollup: what is credited to a non-root node is what is credited to it as an LCA plus what is credited to
    its children -/
theorem creditSum_rollup (L : List (Lineage × Nat)) (p : Lineage) (hp : p ≠ []) (ks : List Key) (hnd : ks.Nodup)
    (hks : ∀ x ∈ L, ∀ k, p ++ [k] <+: x.1 → k ∈ ks) :
    creditSum L p = ((L.filter (fun x => decide (x.1 = p))).map Prod.snd).sum +
      (ks.map (fun k => creditSum L (p ++ [k]))).sum := by
  unfold creditSum
  rw [filter_sum_eq, ← sum_swap (fun (x : Lineage × Nat) (k : Key) => if credit x.1 (p ++ [k]) then x.2 else 0),
    ← sum_map_add]
  apply map_sum_congr
  intro x hx
  have := credit_split x.1 p hp ks hnd (hks x hx)
  -- multiply the 0/1 identity by the count
  have hmul : ∀ (b : Prop) [Decidable b], (if b then x.2 else 0) = x.2 * (if b then 1 else 0) := by
    intro b _; by_cases hb : b <;> simp [hb]
  rw [hmul (credit x.1 p), this, Nat.mul_add]
  congr 1
  · by_cases h : x.1 = p <;> simp [h]
  · exact mul_indicator_sum x.2 (fun k => credit x.1 (p ++ [k])) ks

/-- the taxa that follow `p` in the LCAs of `L` (each once): the children of node `p` in the summary -/
def childKeys (L : List (Lineage × Nat)) (p : Lineage) : List Key :=
  updateSet [] (L.filterMap (fun x => if p <+: x.1 then x.1[p.length]? else none))

theorem nodup_updateSet {α : Type} [DecidableEq α] (xs s : List α) (h : s.Nodup) : (updateSet s xs).Nodup := by
  unfold updateSet
  induction xs generalizing s with
  | nil => exact h
  | cons y ys ih => simp only [List.foldl_cons]; exact ih _ (nodup_addSet h y)

theorem mem_updateSet' {α : Type} [DecidableEq α] (xs s : List α) (x : α) :
    x ∈ updateSet s xs ↔ x ∈ s ∨ x ∈ xs := by
  unfold updateSet
  induction xs generalizing s with
  | nil => simp
  | cons y ys ih =>
    simp only [List.foldl_cons]
    rw [ih, mem_addSet]
    simp only [List.mem_cons]
    constructor
    · rintro ((h | h) | h)
      · exact Or.inl h
      · exact Or.inr (Or.inl h)
      · exact Or.inr (Or.inr h)
    · rintro (h | h | h)
      · exact Or.inl (Or.inl h)
      · exact Or.inl (Or.inr h)
      · exact Or.inr h

theorem childKeys_nodup (L : List (Lineage × Nat)) (p : Lineage) : (childKeys L p).Nodup :=
  nodup_updateSet _ [] (by simp)

theorem childKeys_complete (L : List (Lineage × Nat)) (p : Lineage) :
    ∀ x ∈ L, ∀ k, p ++ [k] <+: x.1 → k ∈ childKeys L p := by
  intro x hx k hk
  unfold childKeys
  rw [mem_updateSet']
  refine Or.inr (List.mem_filterMap.mpr ⟨x, hx, ?_⟩)
  have hp : p <+: x.1 := List.IsPrefix.trans (List.prefix_append p [k]) hk
  obtain ⟨t, ht⟩ := hk
  simp only [hp, if_true]
  rw [← ht]
  simp

/-- `summarize`'s table: the count of a non-root lineage `p` is the count of the hashes whose LCA is `p` itself
    (if that reaches the threshold) plus the counts of its children -/
theorem aggregate_rollup (counts : List (Lineage × Nat)) (thr : Nat) (p : Lineage) (hp : p ≠ []) :
    val (aggregate counts thr) p =
      (((counts.filter (fun x => !decide (x.2 < thr))).filter (fun x => decide (x.1 = p))).map Prod.snd).sum +
      ((childKeys (counts.filter (fun x => !decide (x.2 < thr))) p).map
        (fun k => val (aggregate counts thr) (p ++ [k]))).sum := by
  rw [val_aggregate]
  rw [creditSum_rollup _ p hp _ (childKeys_nodup _ p) (childKeys_complete _ p)]
  congr 2
  apply List.map_congr_left
  intro k _
  rw [val_aggregate]

end Sm.Lin
