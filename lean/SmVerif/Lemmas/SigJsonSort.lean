/-
C09 helper lemmas: the load-time sort of `Deserialize for KmerMinHash`.

* sorting an already sorted vector (of hashes, or of (hash, abundance) pairs in
  lexicographic order) is the identity;
* the result of sorting is sorted (so a second load changes nothing);
* strictly ascending hashes zipped with any abundances are lexicographically sorted.
-/
import SmVerif.Model.SigJson
import SmVerif.Lemmas.ListLemmas

namespace Sm.SigJson

open Sm

/-- the order `sort()` uses on `(u64, u64)` tuples -/
def LexLe (p q : Nat × Nat) : Prop := p.1 < q.1 ∨ (p.1 = q.1 ∧ p.2 ≤ q.2)

instance (p q : Nat × Nat) : Decidable (LexLe p q) := by unfold LexLe; infer_instance

theorem LexLe.refl (p : Nat × Nat) : LexLe p p := Or.inr ⟨rfl, Nat.le_refl _⟩

theorem LexLe.trans {p q r : Nat × Nat} (h1 : LexLe p q) (h2 : LexLe q r) : LexLe p r := by
  unfold LexLe at *
  omega

theorem LexLe.total (p q : Nat × Nat) : LexLe p q ∨ LexLe q p := by
  unfold LexLe
  omega

/-! ### flat -/

theorem insertNat_of_le_all (x : Nat) (l : List Nat) (h : ∀ y ∈ l, x ≤ y) : insertNat x l = x :: l := by
  cases l with
  | nil => rfl
  | cons y ys => simp [insertNat, h y (by simp)]

theorem sortNat_of_sorted {l : List Nat} (h : l.Pairwise (· ≤ ·)) : sortNat l = l := by
  induction l with
  | nil => rfl
  | cons x xs ih =>
    rw [List.pairwise_cons] at h
    show insertNat x (sortNat xs) = x :: xs
    rw [ih h.2]
    exact insertNat_of_le_all x xs h.1

theorem mem_insertNat {x y : Nat} {l : List Nat} : y ∈ insertNat x l ↔ y = x ∨ y ∈ l := by
  induction l with
  | nil => simp [insertNat]
  | cons z zs ih =>
    unfold insertNat
    split
    · simp
    · simp [ih, or_left_comm]

theorem insertNat_sorted {x : Nat} {l : List Nat} (h : l.Pairwise (· ≤ ·)) :
    (insertNat x l).Pairwise (· ≤ ·) := by
  induction l with
  | nil => simp [insertNat]
  | cons z zs ih =>
    rw [List.pairwise_cons] at h
    unfold insertNat
    split
    · rename_i hxz
      rw [List.pairwise_cons]
      refine ⟨?_, List.pairwise_cons.mpr h⟩
      intro y hy
      rcases List.mem_cons.mp hy with rfl | hy
      · exact hxz
      · exact Nat.le_trans hxz (h.1 y hy)
    · rename_i hxz
      rw [List.pairwise_cons]
      refine ⟨?_, ih h.2⟩
      intro y hy
      rcases mem_insertNat.mp hy with rfl | hy
      · omega
      · exact h.1 y hy

theorem sortNat_sorted (l : List Nat) : (sortNat l).Pairwise (· ≤ ·) := by
  induction l with
  | nil => exact List.Pairwise.nil
  | cons x xs ih => exact insertNat_sorted ih

theorem sortNat_idem (l : List Nat) : sortNat (sortNat l) = sortNat l :=
  sortNat_of_sorted (sortNat_sorted l)

theorem insertNat_perm (x : Nat) (l : List Nat) : (insertNat x l).Perm (x :: l) := by
  induction l with
  | nil => exact List.Perm.refl _
  | cons z zs ih =>
    unfold insertNat
    split
    · exact List.Perm.refl _
    · exact (List.Perm.cons z ih).trans (List.Perm.swap x z zs)

/-- the load-time sort keeps exactly the hashes of the file (duplicates included) -/
theorem sortNat_perm (l : List Nat) : (sortNat l).Perm l := by
  induction l with
  | nil => exact List.Perm.refl _
  | cons x xs ih => exact (insertNat_perm x (sortNat xs)).trans (List.Perm.cons x ih)

/-! ### with abundances -/

theorem insertPair_of_le_all (p : Nat × Nat) (l : List (Nat × Nat)) (h : ∀ q ∈ l, LexLe p q) :
    MH.insertPair p l = p :: l := by
  cases l with
  | nil => rfl
  | cons q qs =>
    have := h q (by simp)
    unfold LexLe at this
    simp [MH.insertPair, this]

theorem sortPairs_of_sorted {l : List (Nat × Nat)} (h : l.Pairwise LexLe) : MH.sortPairs l = l := by
  induction l with
  | nil => rfl
  | cons x xs ih =>
    rw [List.pairwise_cons] at h
    show MH.insertPair x (MH.sortPairs xs) = x :: xs
    rw [ih h.2]
    exact insertPair_of_le_all x xs h.1

theorem mem_insertPair {p q : Nat × Nat} {l : List (Nat × Nat)} :
    q ∈ MH.insertPair p l ↔ q = p ∨ q ∈ l := by
  induction l with
  | nil => simp [MH.insertPair]
  | cons z zs ih =>
    unfold MH.insertPair
    split
    · simp
    · simp [ih, or_left_comm]

theorem insertPair_sorted {p : Nat × Nat} {l : List (Nat × Nat)} (h : l.Pairwise LexLe) :
    (MH.insertPair p l).Pairwise LexLe := by
  induction l with
  | nil => simp [MH.insertPair]
  | cons z zs ih =>
    rw [List.pairwise_cons] at h
    unfold MH.insertPair
    split
    · rename_i hpz
      rw [List.pairwise_cons]
      refine ⟨?_, List.pairwise_cons.mpr h⟩
      intro y hy
      rcases List.mem_cons.mp hy with rfl | hy
      · exact hpz
      · exact LexLe.trans hpz (h.1 y hy)
    · rename_i hpz
      rw [List.pairwise_cons]
      refine ⟨?_, ih h.2⟩
      intro y hy
      rcases mem_insertPair.mp hy with rfl | hy
      · rcases LexLe.total z y with h1 | h1
        · exact h1
        · exact absurd h1 hpz
      · exact h.1 y hy

theorem sortPairs_sorted (l : List (Nat × Nat)) : (MH.sortPairs l).Pairwise LexLe := by
  induction l with
  | nil => exact List.Pairwise.nil
  | cons x xs ih => exact insertPair_sorted ih

theorem sortPairs_idem (l : List (Nat × Nat)) : MH.sortPairs (MH.sortPairs l) = MH.sortPairs l :=
  sortPairs_of_sorted (sortPairs_sorted l)

/-- strictly ascending hashes with any abundances are in tuple order -/
theorem zip_lexLe_of_sorted : ∀ {mins ab : List Nat}, Sorted mins → (mins.zip ab).Pairwise LexLe
  | [], _, _ => by simp
  | _ :: _, [], _ => by simp
  | m :: ms, a :: as, h => by
    rw [List.zip_cons_cons, List.pairwise_cons]
    have h' := List.pairwise_cons.mp h
    refine ⟨?_, zip_lexLe_of_sorted h'.2⟩
    intro q hq
    have := (List.of_mem_zip hq).1
    exact Or.inl (h'.1 q.1 this)

theorem sorted_le_of_sorted {l : List Nat} (h : Sorted l) : l.Pairwise (· ≤ ·) :=
  List.Pairwise.imp (fun hab => Nat.le_of_lt hab) h

theorem map_fst_zip_of_length {a b : List Nat} (h : b.length = a.length) : (a.zip b).map Prod.fst = a :=
  List.map_fst_zip (Nat.le_of_eq h.symm)

theorem map_snd_zip_of_length {a b : List Nat} (h : b.length = a.length) : (a.zip b).map Prod.snd = b :=
  List.map_snd_zip (Nat.le_of_eq h)

theorem zip_map_fst_snd' (l : List (Nat × Nat)) : (l.map Prod.fst).zip (l.map Prod.snd) = l := by
  induction l with
  | nil => rfl
  | cons q qs ih => simp [ih]

end Sm.SigJson
