/-
C06, num sketches: the score `Index.find` computes for a (query, subject) pair of flat num sketches
is the Jaccard estimate defined on the two hash lists after restricting both to the smaller `num`
(`flatten_and_downsample_num`): with `N = min(num_q, num_s)`, `Q' = first N of Q`, `D' = first N of D`
and `U = first N of the sorted union of Q' and D'`, the score is `|Q' ∩ D' ∩ U| / |U|`.
-/
import SmVerif.Lemmas.SearchPair
import SmVerif.Lemmas.SigJsonPickle
import SmVerif.Lemmas.CompareLemmas
import SmVerif.Props.C05

namespace Sm.Search

open Sm MH

/-- a well-formed flat num sketch with capacity `N` -/
structure NumFlat (s : MH) (N : Nat) : Prop where
  inv : Inv s
  num : s.num = N
  pos : 0 < N
  mh : s.maxHash = 0
  flat : s.abunds = none

theorem NumFlat.track {s : MH} {N : Nat} (h : NumFlat s N) : s.trackAbundance = false := by
  simp [MH.trackAbundance, h.flat]

theorem NumFlat.scaledProp {s : MH} {N : Nat} (h : NumFlat s N) : Py.scaledProp s = 0 := by
  unfold Py.scaledProp; rw [if_neg (by simp [h.mh])]

theorem NumFlat.len {s : MH} {N : Nat} (h : NumFlat s N) : s.mins.length ≤ N := by
  have := h.inv.capped (by rw [h.num]; exact Nat.pos_iff_ne_zero.1 h.pos)
  rwa [h.num] at this

/-- a full bottom-`n` sketch ignores a hash larger than everything it holds -/
theorem addHashAb_full_noop {s : MH} {h : Nat} (hn : s.num ≠ 0) (hM : s.maxHash = 0)
    (hfull : s.mins.length = s.num) (hlt : ∀ x ∈ s.mins, x < h) : s.addHashAb h 1 = s := by
  have hne : s.mins ≠ [] := by
    intro e; rw [e] at hfull; exact hn hfull.symm
  have hlast : lastOr s.mins U64MAX < h := by
    rw [lastOr_eq_getLast hne]
    exact hlt _ (List.getLast_mem hne)
  have hpos : 0 < h := Nat.lt_of_le_of_lt (Nat.zero_le _) hlast
  unfold MH.addHashAb
  simp only []
  rw [if_neg (by simp [hM]), if_neg (by simp [hn]), if_neg (by decide)]
  rw [if_neg (by simpa using hne)]
  rw [if_neg (by rw [hM, hfull]; omega)]

theorem addManyAb_full_noop : ∀ (l : List Nat) {s : MH}, s.num ≠ 0 → s.maxHash = 0 →
    s.mins.length = s.num → (∀ x ∈ s.mins, ∀ h ∈ l, x < h) → s.addManyAb (ones l) = s
  | [], _, _, _, _, _ => rfl
  | h :: rest, s, hn, hM, hfull, hlt => by
    show (s.addHashAb h 1).addManyAb (ones rest) = s
    rw [addHashAb_full_noop hn hM hfull (fun x hx => hlt x hx h List.mem_cons_self)]
    exact addManyAb_full_noop rest hn hM hfull (fun x hx y hy => hlt x hx y (List.mem_cons_of_mem _ hy))

theorem ones_keys (l : List Nat) : (ones l).map Prod.fst = l := by
  unfold ones; rw [List.map_map]; exact List.map_id' _

/-- `downsample(num=n)` of a flat num sketch: the `n` smallest hashes -/
theorem downsample_num_flat {s : MH} {N n : Nat} (hs : NumFlat s N) (hn0 : 0 < n) (hnN : n ≤ N) :
    ∃ r, Py.downsample s (some n) none = .ok r ∧ NumFlat r n ∧ r.mins = s.mins.take n ∧
      r.ksize = s.ksize ∧ r.hf = s.hf ∧ r.seed = s.seed := by
  have hparams : Py.downsampleParams s (some n) none = .ok (n, 0) := by
    unfold Py.downsampleParams
    simp only []
    rw [if_neg (by rw [hs.scaledProp]; simp), if_neg (by rw [hs.num]; omega)]
  have hmk : Py.mkMinHash n s.ksize s.hf s.seed false 0 0 = .ok (MH.new 0 s.ksize s.hf s.seed false n) := by
    unfold Py.mkMinHash
    have hn' : n ≠ 0 := by omega
    simp [hn']
  have hres : Py.downsample s (some n) none = .ok ((MH.new 0 s.ksize s.hf s.seed false n).addMany s.mins) := by
    unfold Py.downsample
    rw [hparams]
    simp only []
    unfold Py.downsampleWith
    rw [hs.track, hmk]
    simp only []
    rfl
  -- the content: first the `n` smallest are appended, the rest is ignored
  have hsorted := hs.inv.sorted
  have hA := SigJson.addManyAb_ascending (ones (s.mins.take n)) (s := MH.new 0 s.ksize s.hf s.seed false n)
    (by rw [ones_keys]; exact hsorted.take n)
    (by intro p hp; unfold ones at hp; obtain ⟨a, _, rfl⟩ := List.mem_map.1 hp; exact Nat.one_ne_zero)
    (by intro x hx; cases hx)
    (by intro hm; exact absurd mhR_zero hm)
    (by intro _; show 0 + (ones (s.mins.take n)).length ≤ n
        unfold ones; rw [List.length_map, List.length_take]; omega)
    rfl
  rw [ones_keys] at hA
  have hsplit : (MH.new 0 s.ksize s.hf s.seed false n).addMany s.mins =
      ((MH.new 0 s.ksize s.hf s.seed false n).addManyAb (ones (s.mins.take n))).addManyAb (ones (s.mins.drop n)) := by
    rw [addMany_eq_addManyAb]
    conv => lhs; rw [← List.take_append_drop n s.mins]
    unfold ones MH.addManyAb
    rw [List.map_append, List.foldl_append]
  have hB : ((MH.new 0 s.ksize s.hf s.seed false n).addManyAb (ones (s.mins.take n))).addManyAb (ones (s.mins.drop n)) =
      (MH.new 0 s.ksize s.hf s.seed false n).addManyAb (ones (s.mins.take n)) := by
    by_cases hd : s.mins.drop n = []
    · rw [hd]; rfl
    · have hlen : n < s.mins.length := by
        by_contra hc
        exact hd (List.drop_eq_nil_of_le (by omega))
      rw [hA]
      apply addManyAb_full_noop
      · show n ≠ 0; omega
      · show mhR 0 = 0; exact mhR_zero
      · show ([] ++ s.mins.take n).length = n
        rw [List.nil_append, List.length_take]; omega
      · intro x hx h hh
        -- sortedness of take ++ drop
        have hs' : Sorted (s.mins.take n ++ s.mins.drop n) := by rw [List.take_append_drop]; exact hsorted
        exact (List.pairwise_append.1 hs').2.2 x hx h hh
  have hmins : ((MH.new 0 s.ksize s.hf s.seed false n).addMany s.mins).mins = s.mins.take n := by
    rw [hsplit, hB, hA]; simp [MH.new]
  have hinv := (invx_pyDownsample hres).1
  have fr := addMany_frame (MH.new 0 s.ksize s.hf s.seed false n) s.mins
  refine ⟨_, hres, ⟨hinv, fr.1, hn0, fr.2.1.trans mhR_zero, ?_⟩, hmins, fr.2.2.1, fr.2.2.2.2.1, fr.2.2.2.1⟩
  have := fr.2.2.2.2.2
  have htr : (MH.new 0 s.ksize s.hf s.seed false n).trackAbundance = false := rfl
  rw [htr] at this
  simpa [MH.trackAbundance] using this

theorem flattenMH_num {s : MH} {N : Nat} (hs : NumFlat s N) : flattenMH s = .ok s := by
  unfold flattenMH Py.flatten
  rw [hs.track]
  rfl

/-- `flatten_and_downsample_num(s, v)`: the sketch at `min N v` -/
theorem flattenAndDownsampleNum_flat {s : MH} {N v : Nat} (hs : NumFlat s N) (hv : 0 < v) :
    ∃ r, flattenAndDownsampleNum s v = .ok r ∧ NumFlat r (min N v) ∧ r.mins = s.mins.take (min N v) ∧
      r.ksize = s.ksize ∧ r.hf = s.hf ∧ r.seed = s.seed := by
  unfold flattenAndDownsampleNum
  have hp := hs.pos
  rw [if_neg (by rw [hs.num]; omega), if_neg (by omega), flattenMH_num hs]
  simp only []
  rw [hs.num]
  by_cases h : v < N
  · rw [if_pos h]
    obtain ⟨r, h1, h2, h3, h4⟩ := downsample_num_flat hs hv (Nat.le_of_lt h)
    have hmin : min N v = v := Nat.min_eq_right (Nat.le_of_lt h)
    rw [hmin]
    exact ⟨r, by rw [h1]; rfl, h2, h3, h4⟩
  · rw [if_neg h]
    have hmin : min N v = N := Nat.min_eq_left (by omega)
    rw [hmin]
    exact ⟨s, rfl, hs, (List.take_of_length_le hs.len).symm, rfl, rfl, rfl⟩

/-- **the score of a pair of flat num sketches**: Jaccard on the bottom-`N` sketches,
`N = min(num_q, num_s)`, restricted to the `N` smallest hashes `U` of their union -/
theorem pairScore_num {q s : MH} {Nq Ns : Nat} (hq : NumFlat q Nq) (hs : NumFlat s Ns)
    (hk : q.ksize = s.ksize) (hh : q.hf = s.hf) (hse : q.seed = s.seed) :
    ∃ u : List Nat, Sorted u ∧
      (∀ h, h ∈ u ↔ h ∈ q.mins.take (min Nq Ns) ∨ h ∈ s.mins.take (min Nq Ns)) ∧
      pairScore .jaccard q s = .ok (scoreFn .jaccard (q.mins.take (min Nq Ns)).length
        (((q.mins.take (min Nq Ns)).filter (fun h => decide (h ∈ s.mins.take (min Nq Ns)))).filter
          (fun h => decide (h ∈ u.take (min Nq Ns)))).length
        (s.mins.take (min Nq Ns)).length (u.take (min Nq Ns)).length) := by
  obtain ⟨s', e1, f1, m1, j1, j2, j3⟩ := flattenAndDownsampleNum_flat hs hq.pos
  have hN : min Ns Nq = min Nq Ns := Nat.min_comm _ _
  rw [hN] at f1 m1
  obtain ⟨q', e2, f2, m2, k1, k2, k3⟩ := flattenAndDownsampleNum_flat hq f1.pos
  have hNN : min Nq (min Nq Ns) = min Nq Ns := by omega
  rw [hNN] at f2 m2
  have hprep : prepare q s = .ok (q', s') := by
    unfold prepare
    rw [if_neg (by rw [hq.scaledProp]; simp), hq.num, e1]
    simp only []
    rw [f1.num, e2]
  have hc : Compatible q' s' := by
    rw [compatible_iff]
    exact ⟨by rw [k1, j1, hk], by rw [k2, j2, hh], by rw [k3, j3, hse], by rw [f2.mh, f1.mh]⟩
  obtain ⟨u, hu, hmem, hi⟩ := C05.num_isize_def f2.inv f1.inv hc
    (by rw [f2.num]; exact Nat.pos_iff_ne_zero.1 f2.pos) f2.mh
  rw [intersectionSize_eq_model, f2.num] at hi
  refine ⟨u, hu, by intro h; rw [hmem, m2, m1], ?_⟩
  unfold pairScore
  rw [hprep]
  simp only []
  unfold iuSize
  rw [show q'.checkCompatible s' = .ok () from hc]
  simp only []
  rw [hi]
  simp only []
  rw [m2, m1]

end Sm.Search
