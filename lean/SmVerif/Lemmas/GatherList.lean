/-
List facts for the gather proofs (C07/C08): on strictly ascending lists the two-cursor
intersection `interL` is a filter, so every set gather handles is a filter of one base
list and the accounting identities are identities between `filter` lengths.
-/
import SmVerif.Lemmas.PairLemmas

set_option autoImplicit false

namespace Sm

/-- membership test used throughout: `x ∈ b` as a `Bool` -/
def inL (b : List Nat) (x : Nat) : Bool := b.contains x

theorem inL_iff {b : List Nat} {x : Nat} : inL b x = true ↔ x ∈ b := by
  simp [inL]

theorem inL_false_iff {b : List Nat} {x : Nat} : inL b x = false ↔ x ∉ b := by
  rw [← inL_iff]; cases inL b x <;> simp

theorem Sorted.filter {l : List Nat} (h : Sorted l) (p : Nat → Bool) : Sorted (l.filter p) :=
  h.sublist List.filter_sublist

theorem Sorted.nodup {l : List Nat} (h : Sorted l) : l.Nodup :=
  h.imp (fun hab => Nat.ne_of_lt hab)

/-- on ascending lists the merge-style intersection is a filter of its first argument -/
theorem interL_eq_filter : ∀ (xs ys : List Nat), Sorted xs → Sorted ys →
    interL xs ys = xs.filter (inL ys) := by
  apply two_cursor_induct
  · intro ys _ _; simp
  · intro x xs _ _
    rw [interL_nil_right]
    symm
    rw [List.filter_eq_nil_iff]
    intro a _; simp [inL]
  · intro x xs y ys ih1 ih2 ih3 hx hy
    have hxs : Sorted xs := Sorted.tail hx
    have hys : Sorted ys := Sorted.tail hy
    have hxlt := Sorted.head_lt hx
    have hylt := Sorted.head_lt hy
    rw [interL_cons_cons]
    split
    · -- x < y: x is in nothing of y :: ys
      rename_i hlt
      have hnot : inL (y :: ys) x = false := by
        rw [inL_false_iff]
        intro hm
        rcases List.mem_cons.1 hm with rfl | hm
        · omega
        · have := hylt x hm; omega
      rw [ih3 hxs hy, List.filter_cons, hnot]
      simp
    · split
      · -- y < x: y matches nothing of x :: xs
        rename_i h1 hlt
        rw [ih1 hx hys]
        apply List.filter_congr
        intro a ha
        have hay : a ≠ y := by
          rcases List.mem_cons.1 ha with rfl | ha
          · omega
          · have := hxlt a ha; omega
        simp [inL, hay]
      · rename_i h1 h2
        have hxy : x = y := by omega
        subst hxy
        have hin : inL (x :: ys) x = true := by simp [inL]
        rw [List.filter_cons, hin, ih2 hxs hys]
        simp only [if_true]
        congr 1
        apply List.filter_congr
        intro a ha
        have : a ≠ x := by have := hxlt a ha; omega
        simp [inL, this]

theorem mem_interL {xs ys : List Nat} (hx : Sorted xs) (hy : Sorted ys) (z : Nat) :
    z ∈ interL xs ys ↔ z ∈ xs ∧ z ∈ ys := by
  rw [interL_eq_filter xs ys hx hy, List.mem_filter, inL_iff]

theorem sorted_interL {xs ys : List Nat} (hx : Sorted xs) : Sorted (interL xs ys) :=
  hx.sublist (interL_sublist xs ys)

/-- splitting a filter count by a second predicate -/
theorem length_filter_split (l : List Nat) (p q : Nat → Bool) :
    (l.filter p).length =
      ((l.filter (fun x => !q x)).filter p).length + ((l.filter q).filter p).length := by
  induction l with
  | nil => simp
  | cons a l ih =>
    simp only [List.filter_cons]
    cases hq : q a <;> cases hp : p a <;> simp [hp, ih] <;> omega

theorem length_filter_add_not (l : List Nat) (q : Nat → Bool) :
    l.length = (l.filter (fun x => !q x)).length + (l.filter q).length := by
  induction l with
  | nil => simp
  | cons a l ih =>
    simp only [List.filter_cons]
    cases hq : q a <;> simp [ih] <;> omega

theorem filter_eq_self_of_forall {l : List Nat} {p : Nat → Bool} (h : ∀ x ∈ l, p x = true) :
    l.filter p = l := List.filter_eq_self.2 h

/-- two ascending lists with the same members are equal -/
theorem Sorted.eq_of_mem_iff {l l' : List Nat} (hl : Sorted l) (hl' : Sorted l')
    (h : ∀ x, x ∈ l ↔ x ∈ l') : l = l' := Sorted.ext hl hl' h

/-- filtering by membership in a filtered list -/
theorem inL_filter (b : List Nat) (p : Nat → Bool) (x : Nat) :
    inL (b.filter p) x = (inL b x && p x) := by
  cases h : inL (b.filter p) x
  · symm
    rw [Bool.and_eq_false_iff]
    rw [inL_false_iff, List.mem_filter] at h
    by_cases hx : x ∈ b
    · right
      cases hp : p x
      · rfl
      · exact absurd ⟨hx, hp⟩ h
    · left; exact inL_false_iff.2 hx
  · rw [inL_iff, List.mem_filter] at h
    rw [inL_iff.2 h.1, h.2]; rfl

end Sm
