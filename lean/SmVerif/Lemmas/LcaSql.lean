/-
The SQLite twin against the in-memory database, for logs whose identifiers are what
`_build_index` derives from the signature names (`SqlOk`).
-/
import SmVerif.Lemmas.LcaDbRecon
import SmVerif.Lemmas.LcaDbJson
import SmVerif.Lemmas.LcaGather

namespace Sm.Lca

open Sm.Lin Sm.Dict

/-! ### row numbering -/

theorem length_numberFrom {α : Type} (k : Nat) (l : List α) : (numberFrom k l).length = l.length := by
  induction l generalizing k with
  | nil => rfl
  | cons x xs ih => simp [numberFrom, ih]

theorem map_snd_numberFrom {α : Type} (k : Nat) (l : List α) : (numberFrom k l).map Prod.snd = l := by
  induction l generalizing k with
  | nil => rfl
  | cons x xs ih => simp [numberFrom, ih]

theorem fst_numberFrom_ge {α : Type} (k : Nat) (l : List α) : ∀ q ∈ numberFrom k l, k ≤ q.1 := by
  induction l generalizing k with
  | nil => intro q hq; cases hq
  | cons x xs ih =>
    intro q hq
    simp only [numberFrom, List.mem_cons] at hq
    rcases hq with hq | hq
    · subst hq; exact Nat.le_refl _
    · have := ih (k + 1) q hq; omega

theorem nodup_fst_numberFrom {α : Type} (k : Nat) (l : List α) : ((numberFrom k l).map Prod.fst).Nodup := by
  induction l generalizing k with
  | nil => simp [numberFrom]
  | cons x xs ih =>
    simp only [numberFrom, List.map_cons, List.nodup_cons]
    refine ⟨?_, ih (k + 1)⟩
    intro hm
    obtain ⟨q, hq, hqk⟩ := List.mem_map.mp hm
    have := fst_numberFrom_ge (k + 1) xs q hq
    omega

/-! ### `save_to_sql`: the assignments table -/

def asgStep (db : Db) (a : List (String × Lineage)) (p : String × Nat) : List (String × Lineage) :=
  match get? db.idxToLid p.2 with
  | none => a
  | some lid => set a p.1 ((get? db.lidToLineage lid).getD [])

theorem sqlAssignments_eq (db : Db) : db.sqlAssignments = db.identToIdx.foldl (asgStep db) [] := rfl

theorem get?_asg_fold (db : Db) (pairs : List (String × Nat)) (hnd : (keys pairs).Nodup)
    (acc : List (String × Lineage)) (x : String) :
    get? (pairs.foldl (asgStep db) acc) x =
      match (get? pairs x).bind (fun i => (get? db.idxToLid i).map (fun lid => (get? db.lidToLineage lid).getD [])) with
      | some l => some l
      | none => get? acc x := by
  induction pairs generalizing acc with
  | nil => simp
  | cons p rest ih =>
    obtain ⟨k, i⟩ := p
    simp only [keys, List.nodup_cons] at hnd
    simp only [List.foldl_cons]
    rw [ih hnd.2]
    by_cases hx : x = k
    · subst hx
      have hr : get? rest x = none := get?_eq_none_iff.mpr hnd.1
      simp only [hr, get?, if_true, Option.bind_none, Option.bind_some]
      unfold asgStep
      cases hg : get? db.idxToLid i with
      | none => simp
      | some lid => simp [get?_set_self]
    · simp only [get?, hx, if_false]
      have : get? (asgStep db acc (k, i)) x = get? acc x := by
        unfold asgStep
        cases get? db.idxToLid i with
        | none => rfl
        | some lid => simp only; exact get?_set_ne _ _ hx
      rw [this]

theorem nodup_keys_asg_fold (db : Db) (pairs : List (String × Nat)) (acc : List (String × Lineage))
    (h : (keys acc).Nodup) : (keys (pairs.foldl (asgStep db) acc)).Nodup := by
  induction pairs generalizing acc with
  | nil => exact h
  | cons p rest ih =>
    simp only [List.foldl_cons]
    apply ih
    unfold asgStep
    cases get? db.idxToLid p.2 with
    | none => exact h
    | some lid => exact nodup_keys_set h _ _

theorem get?_identIdx_of {log : List Entry} (hnd : (log.map Entry.ident).Nodup) {i : Nat} {e : Entry}
    (he : log[i]? = some e) : get? (identIdx log) e.ident = some i := by
  apply get?_of_mem_nodup
  · rw [keys_identIdx]; exact hnd
  · exact mem_identIdx.mpr ⟨e, he, rfl⟩

/-- what `save_to_sql` stores: under each identifier with a lineage, that lineage -/
theorem get?_sqlAssignments {db : Db} {log : List Entry} (hq : QRep db log) :
    (∀ (i : Nat) (e : Entry), log[i]? = some e →
      get? db.sqlAssignments e.ident = if e.lineage = [] then none else some e.lineage) ∧
    (∀ x, x ∉ log.map Entry.ident → get? db.sqlAssignments x = none) ∧
    (keys db.sqlAssignments).Nodup := by
  have hkn : (keys db.identToIdx).Nodup := by rw [hq.identToIdx, keys_identIdx]; exact hq.idents_nodup
  refine ⟨?_, ?_, ?_⟩
  · intro i e he
    rw [sqlAssignments_eq, get?_asg_fold db _ hkn, hq.identToIdx, get?_identIdx_of hq.idents_nodup he]
    simp only [Option.bind_some, get?_nil]
    by_cases hl : e.lineage = []
    · rw [hq.lineage_none i e he hl]; simp [hl]
    · obtain ⟨lid, h1, h2⟩ := hq.lineage_some i e he hl
      rw [h1]; simp [h2, hl]
  · intro x hx
    rw [sqlAssignments_eq, get?_asg_fold db _ hkn, hq.identToIdx, get?_identIdx_none hx]
    simp
  · rw [sqlAssignments_eq]
    exact nodup_keys_asg_fold db _ [] (by simp [keys])

theorem sqlAssignments_some {db : Db} {log : List Entry} (hq : QRep db log) {x : String} {l : Lineage}
    (h : get? db.sqlAssignments x = some l) : ∃ e ∈ log, e.ident = x ∧ e.lineage = l ∧ l ≠ [] := by
  obtain ⟨h1, h2, _⟩ := get?_sqlAssignments hq
  by_cases hx : x ∈ log.map Entry.ident
  · obtain ⟨e, he, rfl⟩ := List.mem_map.mp hx
    obtain ⟨i, hi, hie⟩ := List.getElem_of_mem he
    have hget : log[i]? = some e := by rw [List.getElem?_eq_getElem hi, hie]
    rw [h1 i e hget] at h
    by_cases hl : e.lineage = []
    · simp [hl] at h
    · simp only [hl, if_false, Option.some.injEq] at h
      exact ⟨e, he, rfl, h, h ▸ hl⟩
  · rw [h2 x hx] at h; cases h

/-! ### the hypotheses of the equivalence -/

/-- what comes back for a lineage from the taxonomy table: names by position, trailing empties stripped -/
def sqlLin (l : Lineage) : Lineage := sqlTaxLineage (sqlTaxRow l)

/-- what the SQLite form keeps of a reported lineage (a lineage without any name does not count as one) -/
def sqlKeep (l : Lineage) : Option Lineage := if sqlLin l = [] then none else some (sqlLin l)

/-- the lineage the SQLite form reports for an entry -/
def sqlLineageOf (e : Entry) : Option Lineage := if e.lineage = [] then none else sqlKeep e.lineage

/-- the databases for which the SQLite form can be expected to agree (what finding C18.4 excludes):
    every signature has a name whose first word is its identifier; a
    signature without lineage does not, after stripping at the first '.', collide with the identifier of
    one that has a lineage; the stored hashes respect the sketch threshold -/
structure SqlOk (db : Db) (log : List Entry) : Prop where
  named : ∀ e ∈ log, e.name ≠ ""
  derivable : ∀ e ∈ log, firstWord e.name = e.ident
  noPickup : ∀ e ∈ log, e.lineage = [] → ∀ e' ∈ log, e'.lineage ≠ [] → dotPrefix e.name ≠ e'.ident
  bounded : ∀ e ∈ log, ∀ h ∈ e.kept, h ≤ mhR db.scaled

def taxOf (db : Db) : List (String × List Nat) := db.sqlAssignments.map (fun p => (p.1, sqlTaxRow p.2))

theorem taxLook_taxOf (db : Db) (x : String) : taxLook (taxOf db) x = (get? db.sqlAssignments x).map sqlLin := by
  unfold taxLook taxOf
  rw [get?_map_val]
  cases get? db.sqlAssignments x <;> rfl

/-- what `_build_index` settles on for the row of entry `e` -/
theorem sqlIdentLineage_entry {db : Db} {log : List Entry} (hq : QRep db log) (hok : SqlOk db log)
    {e : Entry} (he : e ∈ log) :
    (sqlIdentLineage (taxOf db) e.name).2 = if e.lineage = [] then none else some (sqlLin e.lineage) := by
  obtain ⟨i, hi, hie⟩ := List.getElem_of_mem he
  have hget : log[i]? = some e := by rw [List.getElem?_eq_getElem hi, hie]
  obtain ⟨h1, _, _⟩ := get?_sqlAssignments hq
  unfold sqlIdentLineage
  rw [hok.derivable e he, taxLook_taxOf, h1 i e hget]
  by_cases hl : e.lineage = []
  · simp only [hl, if_true, Option.map_none]
    rw [taxLook_taxOf]
    cases hg : get? db.sqlAssignments (dotPrefix e.name) with
    | none => rfl
    | some l =>
      exfalso
      obtain ⟨e', he', hid, hlin, hne⟩ := sqlAssignments_some hq hg
      exact hok.noPickup e he hl e' he' (hlin ▸ hne) hid.symm
  · simp [hl]

/-! ### `_build_index` -/

structure BInv (st : BuildSt) : Prop where
  to_lid : ∀ lin lid, get? st.lineageToLid lin = some lid → get? st.lidToLineage lid = some lin
  lid_lt : ∀ lid, lid ∈ keys st.lidToLineage → lid < st.nextLid

theorem sqlAssign_spec {st : BuildSt} (hi : BInv st) (idx : Nat) (L : Option Lineage) :
    BInv (sqlAssign st idx L) ∧
      (∀ lid l, get? st.lidToLineage lid = some l → get? (sqlAssign st idx L).lidToLineage lid = some l) ∧
      (∀ i, i ≠ idx → get? (sqlAssign st idx L).idxToLid i = get? st.idxToLid i) ∧
      (match L with
       | none => get? (sqlAssign st idx L).idxToLid idx = get? st.idxToLid idx
       | some [] => get? (sqlAssign st idx L).idxToLid idx = get? st.idxToLid idx
       | some (k :: ks) => ∃ lid, get? (sqlAssign st idx L).idxToLid idx = some lid ∧
           get? (sqlAssign st idx L).lidToLineage lid = some (k :: ks)) := by
  match L with
  | none => exact ⟨hi, fun _ _ h => h, fun _ _ => rfl, rfl⟩
  | some [] => exact ⟨hi, fun _ _ h => h, fun _ _ => rfl, rfl⟩
  | some (k :: ks) =>
    simp only [sqlAssign]
    cases hg : get? st.lineageToLid (k :: ks) with
    | some lid =>
      simp only
      refine ⟨⟨hi.to_lid, hi.lid_lt⟩, fun _ _ h => h, fun i hne => get?_set_ne _ _ hne, ?_⟩
      exact ⟨lid, get?_set_self _ _ _, hi.to_lid _ _ hg⟩
    | none =>
      simp only
      have hfresh : st.nextLid ∉ keys st.lidToLineage := fun hm => Nat.lt_irrefl _ (hi.lid_lt _ hm)
      have hpres : ∀ lid l, get? st.lidToLineage lid = some l →
          get? (set st.lidToLineage st.nextLid (k :: ks)) lid = some l := by
        intro lid l h'
        have hne : lid ≠ st.nextLid := by
          intro e
          apply hfresh
          rw [← e]
          exact get?_isSome_iff.mp (by simp [h'])
        rw [get?_set_ne _ _ hne]
        exact h'
      refine ⟨⟨?_, ?_⟩, hpres, fun i hne => get?_set_ne _ _ hne, ?_⟩
      · intro lin' lid' h'
        rw [get?_set] at h'
        by_cases he : lin' = k :: ks
        · simp only [he, if_true, Option.some.injEq] at h'
          subst h' he
          exact get?_set_self _ _ _
        · simp only [he, if_false] at h'
          exact hpres _ _ (hi.to_lid lin' lid' h')
      · intro lid hm
        rw [mem_keys_set] at hm
        rcases hm with hm | hm
        · have := hi.lid_lt lid hm
          show lid < st.nextLid + 1
          omega
        · subst hm
          show st.nextLid < st.nextLid + 1
          omega
      · exact ⟨st.nextLid, get?_set_self _ _ _, get?_set_self _ _ _⟩

/-- an annotated manifest row: id, the entry it belongs to, the hashes stored under the id -/
abbrev ARow := Nat × Entry × List Nat

def ARow.row (r : ARow) : Nat × String × List Nat := (r.1, r.2.1.name, r.2.2)

/-- the lineage option `_build_index` should end up assigning to the row of entry `e` -/
def lopt (e : Entry) : Option Lineage := if e.lineage = [] then none else some (sqlLin e.lineage)

/-- a step of `_build_index` that, on the lineage tables, is `sqlAssign` with the right lineage -/
def GoodStep {α : Type} (step : BuildSt → α → BuildSt) (ar : α → ARow) (it : α) : Prop :=
  ∀ st : BuildSt, ∃ st0 : BuildSt, st0.idxToLid = st.idxToLid ∧ st0.lineageToLid = st.lineageToLid ∧
    st0.lidToLineage = st.lidToLineage ∧ st0.nextLid = st.nextLid ∧
    step st it = sqlAssign st0 (ar it).1 (lopt (ar it).2.1)

theorem sqlIndexStep_arow {db : Db} {log : List Entry} (hq : QRep db log) (hok : SqlOk db log)
    (r : ARow) (hr : r.2.1 ∈ log) :
    GoodStep (fun st (r : ARow) => sqlIndexStep (taxOf db) st r.row) id r := by
  intro st
  unfold sqlIndexStep ARow.row
  simp only [hok.named _ hr, if_false, id]
  rw [sqlIdentLineage_entry hq hok hr]
  exact ⟨{ st with identToIdx := set st.identToIdx (sqlIdentLineage (taxOf db) r.2.1.name).1 r.1 },
    rfl, rfl, rfl, rfl, rfl⟩

/-- with recorded identifiers the lineage is found under the identifier itself -/
theorem sqlIndexStepI_arow {db : Db} {log : List Entry} (hq : QRep db log) (r : ARow) (hr : r.2.1 ∈ log) :
    GoodStep (fun st (r : ARow) => sqlIndexStepI (taxOf db) st (r.row, r.2.1.ident)) id r := by
  intro st
  obtain ⟨i, hi, hie⟩ := List.getElem_of_mem hr
  have hget : log[i]? = some r.2.1 := by rw [List.getElem?_eq_getElem hi, hie]
  obtain ⟨h1, _, _⟩ := get?_sqlAssignments hq
  unfold sqlIndexStepI ARow.row
  simp only [id]
  rw [taxLook_taxOf, h1 i _ hget]
  refine ⟨{ st with identToIdx := set st.identToIdx r.2.1.ident r.1 }, rfl, rfl, rfl, rfl, ?_⟩
  unfold lopt
  by_cases hl : r.2.1.lineage = [] <;> simp [hl]

/-- what the tables say about a row -/
def RowOk (st : BuildSt) (r : ARow) : Prop :=
  match sqlLineageOf r.2.1 with
  | none => get? st.idxToLid r.1 = none
  | some lin => ∃ lid, get? st.idxToLid r.1 = some lid ∧ get? st.lidToLineage lid = some lin

theorem RowOk.mono {st st' : BuildSt} {r : ARow} (h : RowOk st r)
    (h1 : get? st'.idxToLid r.1 = get? st.idxToLid r.1)
    (h2 : ∀ lid l, get? st.lidToLineage lid = some l → get? st'.lidToLineage lid = some l) : RowOk st' r := by
  unfold RowOk at h ⊢
  cases hs : sqlLineageOf r.2.1 with
  | none => simp only [hs] at h ⊢; rw [h1]; exact h
  | some lin =>
    simp only [hs] at h ⊢
    obtain ⟨lid, a, b⟩ := h
    exact ⟨lid, by rw [h1]; exact a, h2 lid lin b⟩

theorem build_fold {α : Type} (step : BuildSt → α → BuildSt) (ar : α → ARow) (R : List α)
    (hstep : ∀ it ∈ R, GoodStep step ar it) (hnd : (R.map (fun it => (ar it).1)).Nodup)
    (st : BuildSt) (hi : BInv st) (hfresh : ∀ it ∈ R, get? st.idxToLid (ar it).1 = none) :
    BInv (R.foldl step st) ∧
      (∀ lid l, get? st.lidToLineage lid = some l → get? (R.foldl step st).lidToLineage lid = some l) ∧
      (∀ i, (∀ it ∈ R, (ar it).1 ≠ i) → get? (R.foldl step st).idxToLid i = get? st.idxToLid i) ∧
      (∀ it ∈ R, RowOk (R.foldl step st) (ar it)) := by
  induction R generalizing st with
  | nil => exact ⟨hi, fun _ _ h => h, fun _ _ => rfl, fun r hr => by cases hr⟩
  | cons r rest ih =>
    simp only [List.map_cons, List.nodup_cons] at hnd
    simp only [List.foldl_cons]
    obtain ⟨st0, e1, e2, e3, e4, hs⟩ := hstep r (by simp) st
    have hi0 : BInv st0 := ⟨by rw [e2, e3]; exact hi.to_lid, by rw [e3, e4]; exact hi.lid_lt⟩
    obtain ⟨a1, a2, a3, a4⟩ := sqlAssign_spec hi0 (ar r).1 (lopt (ar r).2.1)
    rw [hs]
    have hfresh' : ∀ r' ∈ rest, get? (sqlAssign st0 (ar r).1 (lopt (ar r).2.1)).idxToLid (ar r').1 = none := by
      intro r' hr'
      have hne : (ar r').1 ≠ (ar r).1 := fun e => hnd.1 (List.mem_map.mpr ⟨r', hr', e⟩)
      rw [a3 _ hne, e1]
      exact hfresh r' (List.mem_cons_of_mem _ hr')
    have key : RowOk (sqlAssign st0 (ar r).1 (lopt (ar r).2.1)) (ar r) := by
      unfold RowOk sqlLineageOf sqlKeep
      unfold lopt at a4 ⊢
      by_cases hl : (ar r).2.1.lineage = []
      · simp only [hl, if_true] at a4 ⊢
        rw [a4, e1]; exact hfresh r (by simp)
      · simp only [hl, if_false] at a4 ⊢
        cases hsl : sqlLin (ar r).2.1.lineage with
        | nil =>
          simp only [hsl, if_true] at a4 ⊢
          rw [a4, e1]; exact hfresh r (by simp)
        | cons k ks =>
          simp only [hsl, List.cons_ne_nil, if_false, reduceCtorEq] at a4 ⊢
          exact a4
    obtain ⟨b1, b2, b3, b4⟩ := ih (fun r' hr' => hstep r' (List.mem_cons_of_mem _ hr')) hnd.2 _ a1 hfresh'
    refine ⟨b1, ?_, ?_, ?_⟩
    · intro lid l h
      exact b2 lid l (a2 lid l (by rw [e3]; exact h))
    · intro i hne
      rw [b3 i (fun r' hr' => hne r' (List.mem_cons_of_mem _ hr')), a3 i (fun e => hne r (by simp) e.symm), e1]
    · intro r' hr'
      simp only [List.mem_cons] at hr'
      rcases hr' with hr' | hr'
      · subst hr'
        have hnot : ∀ r'' ∈ rest, (ar r'').1 ≠ (ar r').1 :=
          fun r'' h'' e => hnd.1 (List.mem_map.mpr ⟨r'', h'', e⟩)
        exact key.mono (b3 _ hnot) b2
      · exact b4 r' hr'

/-! ### the rows of the SQLite form -/

instance : Inhabited Entry := ⟨⟨"", "", [], []⟩⟩

def entryAt (log : List Entry) (j : Nat) : Entry := (log[j]?).getD default

theorem numberFrom_map {α β : Type} (f : α → β) (k : Nat) (l : List α) :
    numberFrom k (l.map f) = (numberFrom k l).map (fun q => (q.1, f q.2)) := by
  induction l generalizing k with
  | nil => rfl
  | cons x xs ih => simp [numberFrom, ih]

theorem filter_snd_numberFrom {α : Type} (P : α → Bool) (k : Nat) (l : List α) :
    ((numberFrom k l).filter (fun q => P q.2)).map Prod.snd = l.filter P := by
  induction l generalizing k with
  | nil => rfl
  | cons x xs ih =>
    simp only [numberFrom, List.filter_cons]
    by_cases h : P x = true
    · simp [h, ih]
    · simp [h, ih]

/-- the annotated rows of `toSql`: row ids 1, 2, … over the rebuilt sketches -/
def arows (db : Db) (log : List Entry) : List ARow :=
  (numberFrom 1 db.sketches).map (fun q => (q.1, entryAt log q.2.1, q.2.2))

theorem arows_mem_log {db : Db} {log : List Entry} (hq : QRep db log) : ∀ r ∈ arows db log, r.2.1 ∈ log := by
  intro r hr
  obtain ⟨q, hq', rfl⟩ := List.mem_map.mp hr
  have hq2 : q.2 ∈ db.sketches := by
    have := List.mem_map_of_mem (f := Prod.snd) hq'
    rwa [map_snd_numberFrom] at this
  obtain ⟨e, he⟩ := ((sketches_log hq).2.2.2 q.2.1).mp (mem_keys_of_mem (v := q.2.2) (by simpa using hq2))
  simp only [entryAt, he, Option.getD_some]
  exact List.mem_of_getElem? he

theorem arows_ids_nodup (db : Db) (log : List Entry) : ((arows db log).map (·.1)).Nodup := by
  unfold arows
  rw [List.map_map]
  exact nodup_fst_numberFrom 1 db.sketches

/-- the rows `toSql` writes are the annotated rows -/
theorem rows_eq_arows {db : Db} {log : List Entry} (hq : QRep db log) :
    (numberFrom 1 (db.sketches.map (fun p => (p.1, ((log[p.1]?).map Entry.name).getD "", p.2)))).map
        (fun (q : Nat × Nat × String × List Nat) => (q.1, q.2.2.1, q.2.2.2)) =
      (arows db log).map ARow.row := by
  rw [numberFrom_map]
  unfold arows
  rw [List.map_map, List.map_map]
  apply List.map_congr_left
  intro q hq'
  have hq2 : q.2 ∈ db.sketches := by
    have := List.mem_map_of_mem (f := Prod.snd) hq'
    rwa [map_snd_numberFrom] at this
  obtain ⟨e, he⟩ := ((sketches_log hq).2.2.2 q.2.1).mp (mem_keys_of_mem (v := q.2.2) (by simpa using hq2))
  simp [ARow.row, entryAt, he]

/-! ### `get_lineage_assignments` on the SQLite form -/

def sqlLaStep (s : SqlDb) (x : List Lineage) (idx : Nat) : Except Err (List Lineage) :=
  match get? s.idxToLid idx with
  | none => .ok x
  | some lid => match get? s.lidToLineage lid with
    | some lin => .ok (x ++ [lin])
    | none => .error .key

theorem foldlM_sqlLaStep (s : SqlDb) (st : BuildSt) (h1 : s.idxToLid = st.idxToLid)
    (h2 : s.lidToLineage = st.lidToLineage) (Rx : List ARow) (hok : ∀ r ∈ Rx, RowOk st r) (x : List Lineage) :
    (Rx.map (·.1)).foldlM (sqlLaStep s) x = .ok (x ++ Rx.filterMap (fun r => sqlLineageOf r.2.1)) := by
  induction Rx generalizing x with
  | nil => simp [pure, Except.pure]
  | cons r rest ih =>
    simp only [List.map_cons, List.foldlM_cons, bind, Except.bind]
    have hr := hok r (by simp)
    unfold RowOk at hr
    have hstep : sqlLaStep s x r.1 = .ok (x ++ (sqlLineageOf r.2.1).toList) := by
      unfold sqlLaStep
      rw [h1, h2]
      cases hs : sqlLineageOf r.2.1 with
      | none => simp only [hs] at hr; simp [hr]
      | some lin =>
        simp only [hs] at hr
        obtain ⟨lid, a, b⟩ := hr
        simp [a, b]
    rw [hstep]
    simp only
    rw [ih (fun r' hr' => hok r' (List.mem_cons_of_mem _ hr'))]
    simp only [List.filterMap_cons, List.append_assoc]
    cases sqlLineageOf r.2.1 <;> simp

theorem sql_idxsOfAll_arows (s : SqlDb) (R : List ARow) (hrows : s.rows = R.map ARow.row) (x : Nat) :
    s.idxsOfAll x = (R.filter (fun r => r.2.2.contains x)).map (·.1) := by
  unfold SqlDb.idxsOfAll
  rw [hrows]
  clear hrows
  induction R with
  | nil => rfl
  | cons r rest ih =>
    simp only [List.map_cons, List.filterMap_cons, List.filter_cons, ARow.row]
    by_cases h : r.2.2.contains x = true
    · simp only [h, if_true, List.map_cons]; rw [ih]
    · simp only [h, Bool.false_eq_true, if_false]; rw [ih]

/-- when every stored hash is within the threshold of `self.scaled`, honouring `downsample_scaled` or not
    makes no difference -/
theorem idxsOf_eq_all (s : SqlDb) (hb : ∀ r ∈ s.rows, ∀ h ∈ r.2.2, h ≤ mhR s.scaled) (x : Nat) :
    s.idxsOf x = s.idxsOfAll x := by
  unfold SqlDb.idxsOf SqlDb.idxsOfWith SqlDb.visibleWith
  by_cases hv : (!Gen.sqlDownHonoured || decide (x ≤ mhR s.scaled)) = true
  · simp [hv]
  · simp only [hv, Bool.false_eq_true, if_false]
    have hx : ¬ x ≤ mhR s.scaled := by
      intro hle; apply hv; simp [hle]
    symm
    unfold SqlDb.idxsOfAll
    rw [List.filterMap_eq_nil_iff]
    intro r hr
    have : r.2.2.contains x = false := by
      cases hc : r.2.2.contains x with
      | false => rfl
      | true => exact absurd (hb r hr x (by simpa using hc)) hx
    simpa using this

theorem arows_bounded {db : Db} {log : List Entry} (hq : QRep db log) :
    ∀ r ∈ arows db log, ∀ h ∈ r.2.2, h ≤ mhR db.scaled := by
  intro r hr h hh
  obtain ⟨h1, _, h3, _⟩ := sketches_log hq
  obtain ⟨q, hq', rfl⟩ := List.mem_map.mp hr
  have hq2 : q.2 ∈ db.sketches := by
    have := List.mem_map_of_mem (f := Prod.snd) hq'
    rwa [map_snd_numberFrom] at this
  have hg : get? db.sketches q.2.1 = some q.2.2 := get?_of_mem_nodup h1 (by simpa using hq2)
  obtain ⟨_, _, _, hle⟩ := (h3 q.2.1 h).mp (by rw [hg]; exact hh)
  exact hle

/-! ### the equivalence -/

/-- what `toSql` produces, whichever way `_build_index` finds the lineages: the rows, and lineage tables that
    are right for every row -/
structure SqlBuilt (db : Db) (log : List Entry) (s : SqlDb) : Prop where
  rows : s.rows = (arows db log).map ARow.row
  scaled : s.scaled = db.scaled
  stored : s.storedScaled = db.scaled
  tables : ∃ st : BuildSt, s.idxToLid = st.idxToLid ∧ s.lidToLineage = st.lidToLineage ∧
    ∀ r ∈ arows db log, RowOk st r

/-- rows and scaled values of `toSql` do not depend on how `_build_index` works -/
theorem toSqlWith_rows {db : Db} {log : List Entry} (hq : QRep db log) {stored : Bool} {s : SqlDb}
    (h : db.toSqlWith stored = .ok s) :
    s.rows = (arows db log).map ARow.row ∧ s.scaled = db.scaled ∧ s.storedScaled = db.scaled := by
  unfold Db.toSqlWith at h
  rw [signatures_named_log hq] at h
  simp only at h
  split at h
  · cases h
  · split at h
    · cases h
    · simp only [Except.ok.injEq] at h
      subst h
      exact ⟨rows_eq_arows hq, rfl, rfl⟩

theorem binv_init : BInv initSt :=
  ⟨by intro _ _ hh; simp [initSt] at hh, by intro _ hh; simp [initSt, keys] at hh⟩

/-- identifiers guessed from names (the code before the identifier table): needs `SqlOk` -/
theorem toSql_built_names {db : Db} {log : List Entry} (hq : QRep db log) (hok : SqlOk db log) {s : SqlDb}
    (h : db.toSqlWith false = .ok s) : SqlBuilt db log s := by
  unfold Db.toSqlWith at h
  rw [signatures_named_log hq] at h
  simp only at h
  split at h
  · cases h
  · split at h
    · cases h
    · simp only [Bool.false_eq_true, if_false, Except.ok.injEq] at h
      subst h
      refine ⟨rows_eq_arows hq, rfl, rfl, ?_⟩
      simp only
      rw [rows_eq_arows hq]
      unfold sqlBuildIndex
      rw [List.foldl_map]
      obtain ⟨_, _, _, hall⟩ := build_fold (fun st (r : ARow) => sqlIndexStep (taxOf db) st r.row) id
        (arows db log) (fun r hr => sqlIndexStep_arow hq hok r (arows_mem_log hq r hr))
        (arows_ids_nodup db log) initSt binv_init (by intro r _; simp [initSt])
      exact ⟨_, rfl, rfl, hall⟩

theorem zip_map_map {α β γ : Type} (f : α → β) (g : α → γ) (l : List α) :
    (l.map f).zip (l.map g) = l.map (fun x => (f x, g x)) := by
  induction l with
  | nil => rfl
  | cons x xs ih => simp [ih]

/-- identifiers recorded in the file: no hypothesis on names or identifiers -/
theorem toSql_built_idents {db : Db} {log : List Entry} (hq : QRep db log) {s : SqlDb}
    (h : db.toSqlWith true = .ok s) : SqlBuilt db log s := by
  unfold Db.toSqlWith at h
  rw [signatures_named_log hq, idxToIdent_eq hq] at h
  simp only at h
  split at h
  · cases h
  · split at h
    · cases h
    · simp only [if_true, Except.ok.injEq] at h
      subst h
      refine ⟨rows_eq_arows hq, rfl, rfl, ?_⟩
      simp only
      -- the (row, identifier) pairs are the annotated rows with their entries' identifiers
      have hz : ((numberFrom 1 (db.sketches.map (fun p => (p.1, ((log[p.1]?).map Entry.name).getD "", p.2)))).map
            (fun (q : Nat × Nat × String × List Nat) => (q.1, q.2.2.1, q.2.2.2))).zip
          ((db.sketches.map (fun p => (p.1, ((log[p.1]?).map Entry.name).getD "", p.2))).map
            (fun g => (get? (idxIdent log) g.1).getD "")) =
          (arows db log).map (fun r => (r.row, r.2.1.ident)) := by
        rw [rows_eq_arows hq]
        unfold arows
        rw [List.map_map, List.map_map, List.map_map]
        conv => lhs; arg 2; rw [← map_snd_numberFrom 1 db.sketches, List.map_map]
        rw [zip_map_map]
        apply List.map_congr_left
        intro q hq'
        have hq2 : q.2 ∈ db.sketches := by
          have := List.mem_map_of_mem (f := Prod.snd) hq'
          rwa [map_snd_numberFrom] at this
        obtain ⟨e, he⟩ := ((sketches_log hq).2.2.2 q.2.1).mp (mem_keys_of_mem (v := q.2.2) (by simpa using hq2))
        simp [Function.comp, get?_idxIdent, entryAt, he]
      rw [hz, List.foldl_map]
      obtain ⟨_, _, _, hall⟩ := build_fold
        (fun st (r : ARow) => sqlIndexStepI (taxOf db) st (r.row, r.2.1.ident)) id
        (arows db log) (fun r hr => sqlIndexStepI_arow hq r (arows_mem_log hq r hr))
        (arows_ids_nodup db log) initSt binv_init (by intro r _; simp [initSt])
      exact ⟨_, rfl, rfl, hall⟩

theorem filterMap_snd {α β γ : Type} (G : β → Option γ) (l : List (α × β)) :
    l.filterMap (fun q => G q.2) = (l.map Prod.snd).filterMap G := by
  induction l with
  | nil => rfl
  | cons x xs ih => simp [List.filterMap_cons, ih]

/-- the indices whose rebuilt sketch contains `x` -/
def sketchHolders (db : Db) (x : Nat) : List Nat :=
  (db.sketches.filter (fun p => p.2.contains x)).map Prod.fst

theorem sketchHolders_perm {db : Db} {log : List Entry} (hq : QRep db log)
    (hb : ∀ e ∈ log, ∀ h ∈ e.kept, h ≤ mhR db.scaled) (x : Nat) :
    (sketchHolders db x).Perm (idxsSpec log x) := by
  obtain ⟨h1, _, h3, _⟩ := sketches_log hq
  have hnd : (sketchHolders db x).Nodup := by
    unfold sketchHolders
    have hsub : ((db.sketches.filter (fun p => p.2.contains x)).map Prod.fst).Sublist (db.sketches.map Prod.fst) :=
      List.filter_sublist.map _
    rw [keys_eq_map] at h1
    exact hsub.nodup h1
  have hnd2 : (idxsSpec log x).Nodup := by
    unfold idxsSpec
    exact (List.filter_sublist).nodup List.nodup_range
  rw [List.perm_ext_iff_of_nodup hnd hnd2]
  intro j
  rw [mem_idxsSpec]
  unfold sketchHolders
  simp only [List.mem_map, List.mem_filter, List.contains_eq_mem, decide_eq_true_eq]
  constructor
  · rintro ⟨p, ⟨hp, hx⟩, rfl⟩
    have hg : get? db.sketches p.1 = some p.2 := get?_of_mem_nodup h1 (by simpa using hp)
    have := (h3 p.1 x).mp (by rw [hg]; exact hx)
    obtain ⟨e, he, hk, _⟩ := this
    exact ⟨e, he, hk⟩
  · rintro ⟨e, he, hk⟩
    have hmem : x ∈ (get? db.sketches j).getD [] :=
      (h3 j x).mpr ⟨e, he, hk, hb e (List.mem_of_getElem? he) x hk⟩
    cases hg : get? db.sketches j with
    | none => simp [hg] at hmem
    | some hs =>
      simp only [hg, Option.getD_some] at hmem
      exact ⟨(j, hs), ⟨mem_of_get? hg, hmem⟩, rfl⟩

/-- `get_lineage_assignments` of the SQLite form: the lineages of the holders as the taxonomy table returns
    them, in row order -/
theorem sql_assignments_eq {db : Db} {log : List Entry} (hq : QRep db log) {s : SqlDb}
    (hs : SqlBuilt db log s) (x : Nat) :
    s.getLineageAssignments x = .ok ((sketchHolders db x).filterMap (fun j => sqlLineageOf (entryAt log j))) := by
  obtain ⟨hrows, hsc, _, st, hi2l, hl2l, hall⟩ := hs
  have hb : ∀ r ∈ s.rows, ∀ h ∈ r.2.2, h ≤ mhR s.scaled := by
    intro r hr h hh
    rw [hrows] at hr
    obtain ⟨r', hr', rfl⟩ := List.mem_map.mp hr
    rw [hsc]
    exact arows_bounded hq r' hr' h hh
  unfold SqlDb.getLineageAssignments
  simp only [ne_eq, not_true_eq_false, false_and, if_false]
  rw [idxsOf_eq_all s hb, sql_idxsOfAll_arows s _ hrows x]
  have := foldlM_sqlLaStep s _ hi2l hl2l ((arows db log).filter (fun r => r.2.2.contains x))
    (fun r hr => hall r (List.mem_filter.mp hr).1) []
  rw [List.nil_append] at this
  refine Eq.trans this ?_
  congr 1
  -- forget the row numbers
  unfold arows sketchHolders
  rw [List.filter_map, List.filterMap_map, List.filterMap_map]
  have e1 := filter_snd_numberFrom (fun (p : Nat × List Nat) => p.2.contains x) 1 db.sketches
  rw [← e1, List.filterMap_map]
  rfl

/-- the SQLite form answers `get_lineage_assignments` with the lineages of the in-memory form, each as the
    taxonomy table returns it (`sqlKeep`), up to the order of the answer (row order instead of idx order) -/
theorem sql_assignments_perm {db : Db} {log : List Entry} (hq : QRep db log)
    (hb : ∀ e ∈ log, ∀ h ∈ e.kept, h ≤ mhR db.scaled) {s : SqlDb} (hs : SqlBuilt db log s) (x : Nat) :
    ∃ ls ls', db.getLineageAssignments x = .ok ls ∧ s.getLineageAssignments x = .ok ls' ∧
      ls'.Perm (ls.filterMap sqlKeep) := by
  refine ⟨_, _, getLineageAssignments_eq hq x 0, sql_assignments_eq hq hs x, ?_⟩
  simp only [ne_eq, not_true_eq_false, false_and, if_false]
  rw [List.filterMap_filterMap]
  have hp := (sketchHolders_perm hq hb x).filterMap (fun j => sqlLineageOf (entryAt log j))
  refine hp.trans ?_
  apply List.Perm.of_eq
  apply filterMap_congr'
  intro j hj
  obtain ⟨e, he, _⟩ := mem_idxsSpec.mp hj
  unfold lineageAt entryAt sqlLineageOf
  rw [he]
  by_cases hl : e.lineage = [] <;> simp [hl]

/-! ### `signatures()` and `hashvals` of the SQLite form -/

theorem insertAsc_append {acc : List Nat} {x : Nat} (h : ∀ a ∈ acc, a < x) : insertAsc acc x = acc ++ [x] := by
  induction acc with
  | nil => rfl
  | cons y ys ih =>
    have hy : y < x := h y (by simp)
    have h1 : ¬ x < y := by omega
    have h2 : ¬ x = y := by omega
    simp only [insertAsc, h1, h2, if_false, List.cons_append]
    rw [ih (fun a ha => h a (List.mem_cons_of_mem _ ha))]

theorem foldl_insertAsc_sorted (l acc : List Nat) (h : (acc ++ l).Pairwise (· < ·)) :
    l.foldl insertAsc acc = acc ++ l := by
  induction l generalizing acc with
  | nil => simp
  | cons x xs ih =>
    simp only [List.foldl_cons]
    have hx : ∀ a ∈ acc, a < x := by
      intro a ha
      rw [List.pairwise_append] at h
      exact h.2.2 a ha x (by simp)
    rw [insertAsc_append hx, ih]
    · simp
    · simpa using h

theorem sortAsc_sorted {l : List Nat} (h : l.Pairwise (· < ·)) : sortAsc l = l := by
  unfold sortAsc
  rw [foldl_insertAsc_sorted l [] (by simpa using h)]
  simp

/-- the SQLite form yields the same (name, sketch) pairs as the in-memory form, in the same order -/
theorem sql_signatures_eq {db : Db} {log : List Entry} (hq : QRep db log) {s : SqlDb}
    (hs : s.rows = (arows db log).map ARow.row ∧ s.scaled = db.scaled ∧ s.storedScaled = db.scaled) :
    ∃ sigs, db.signatures = .ok sigs ∧
      s.signatures.map (fun r => (r.2.1, r.2.2)) = sigs.map (fun g => (g.2.1, g.2.2)) := by
  obtain ⟨hrows, hsc, hst⟩ := hs
  obtain ⟨h1, h2, h3, h4⟩ := sketches_log hq
  refine ⟨_, signatures_named_log hq, ?_⟩
  have hnot : decide (s.storedScaled < s.scaled) = false := by rw [hsc, hst]; simp
  unfold SqlDb.signatures SqlDb.signaturesWith
  simp only [hnot, Bool.and_false, Bool.false_eq_true, if_false]
  unfold SqlDb.signaturesStored
  rw [hrows, hst]
  unfold arows
  simp only [List.map_map]
  have e := map_snd_numberFrom 1 db.sketches
  conv => rhs; rw [← e]
  rw [List.map_map]
  apply List.map_congr_left
  intro q hq'
  have hq2 : q.2 ∈ db.sketches := by
    have := List.mem_map_of_mem (f := Prod.snd) hq'
    rwa [map_snd_numberFrom] at this
  have hg : get? db.sketches q.2.1 = some q.2.2 := get?_of_mem_nodup h1 (by simpa using hq2)
  obtain ⟨e0, he⟩ := (h4 q.2.1).mp (mem_keys_of_mem (v := q.2.2) (by simpa using hq2))
  have hsorted : q.2.2.Pairwise (· < ·) := by have := h2 q.2.1; rwa [hg] at this
  have hfilter : q.2.2.filter (· ≤ mhR db.scaled) = q.2.2 := by
    rw [List.filter_eq_self]
    intro a ha
    have := (h3 q.2.1 a).mp (by rw [hg]; exact ha)
    obtain ⟨_, _, _, hle⟩ := this
    simpa using hle
  simp only [Function.comp, ARow.row, entryAt, he, Option.getD_some, Option.map_some, hfilter,
    sortAsc_sorted hsorted]

theorem mem_foldl_updateSet (rows : List (Nat × String × List Nat)) (acc : List Nat) (y : Nat) :
    y ∈ rows.foldl (fun acc r => updateSet acc r.2.2) acc ↔ y ∈ acc ∨ ∃ r ∈ rows, y ∈ r.2.2 := by
  induction rows generalizing acc with
  | nil => simp
  | cons r rest ih =>
    simp only [List.foldl_cons]
    rw [ih, mem_updateSet]
    simp only [List.mem_cons, exists_eq_or_imp]
    constructor
    · rintro ((h | h) | h)
      · exact Or.inl h
      · exact Or.inr (Or.inl h)
      · exact Or.inr (Or.inr h)
    · rintro (h | h | h)
      · exact Or.inl (Or.inl h)
      · exact Or.inl (Or.inr h)
      · exact Or.inr h

theorem convert_roundtrip (h : Nat) (hh : h < 2 ^ 64) : convertHashFrom (convertHashTo h) = h := by
  unfold convertHashFrom convertHashTo MAX_SQLITE_INT
  split <;> split <;> omega

theorem mem_hashvals_iff {db : Db} {log : List Entry} (hq : QRep db log) (x : Nat) :
    x ∈ db.hashvals ↔ ∃ e ∈ log, x ∈ e.kept := by
  unfold Db.hashvals
  rw [← get?_isSome_iff]
  constructor
  · intro hs
    obtain ⟨sx, hsx⟩ := Option.isSome_iff_exists.mp hs
    have hne := hq.hv_nonempty x sx hsx
    obtain ⟨j, hj⟩ := List.exists_mem_of_ne_nil _ hne
    have : j ∈ db.idxsOf x := by unfold Db.idxsOf; rw [hsx]; exact hj
    obtain ⟨e, he, hk⟩ := (idxsOf_mem hq x j).mp this
    exact ⟨e, List.mem_of_getElem? he, hk⟩
  · rintro ⟨e, he, hk⟩
    obtain ⟨i, hi, hie⟩ := List.getElem_of_mem he
    have hget : log[i]? = some e := by rw [List.getElem?_eq_getElem hi, hie]
    have : i ∈ db.idxsOf x := (idxsOf_mem hq x i).mpr ⟨e, hget, hk⟩
    unfold Db.idxsOf at this
    cases hg : get? db.hashvalToIdx x with
    | none => simp [hg] at this
    | some v => rfl

/-- the SQLite form lists the same hash values (64-bit values stored within the sketch threshold) -/
theorem sql_hashvals_mem {db : Db} {log : List Entry} (hq : QRep db log)
    (hbd : ∀ e ∈ log, ∀ h ∈ e.kept, h ≤ mhR db.scaled)
    (hu : ∀ e ∈ log, ∀ h ∈ e.kept, h < 2 ^ 64) {s : SqlDb}
    (hs : s.rows = (arows db log).map ARow.row ∧ s.scaled = db.scaled ∧ s.storedScaled = db.scaled) (x : Nat) :
    x ∈ s.hashvals ↔ x ∈ db.hashvals := by
  obtain ⟨hrows, hsc, _⟩ := hs
  obtain ⟨h1, _, h3, _⟩ := sketches_log hq
  rw [mem_hashvals_iff hq]
  -- the stored values
  have hstored : ∀ y, (∃ r ∈ s.rows, y ∈ r.2.2) ↔ ∃ e ∈ log, y ∈ e.kept := by
    intro y
    rw [hrows]
    unfold arows
    simp only [List.map_map, List.mem_map, Function.comp, ARow.row]
    constructor
    · rintro ⟨r, ⟨q, hq', rfl⟩, hy⟩
      have hq2 : q.2 ∈ db.sketches := by
        have := List.mem_map_of_mem (f := Prod.snd) hq'
        rwa [map_snd_numberFrom] at this
      have hg : get? db.sketches q.2.1 = some q.2.2 := get?_of_mem_nodup h1 (by simpa using hq2)
      obtain ⟨e, he, hk, _⟩ := (h3 q.2.1 y).mp (by rw [hg]; exact hy)
      exact ⟨e, List.mem_of_getElem? he, hk⟩
    · rintro ⟨e, he, hk⟩
      obtain ⟨i, hi, hie⟩ := List.getElem_of_mem he
      have hget : log[i]? = some e := by rw [List.getElem?_eq_getElem hi, hie]
      have hmem : y ∈ (get? db.sketches i).getD [] := (h3 i y).mpr ⟨e, hget, hk, hbd e he y hk⟩
      cases hg : get? db.sketches i with
      | none => simp [hg] at hmem
      | some hs =>
        simp only [hg, Option.getD_some] at hmem
        have hin : (i, hs) ∈ (numberFrom 1 db.sketches).map Prod.snd := by
          rw [map_snd_numberFrom]; exact mem_of_get? hg
        obtain ⟨q, hq', hq2⟩ := List.mem_map.mp hin
        exact ⟨_, ⟨q, hq', rfl⟩, by rw [hq2]; exact hmem⟩
  unfold SqlDb.hashvals SqlDb.hashvalsWith SqlDb.hashvalsAll SqlDb.visibleWith
  simp only [List.mem_filter, List.mem_map]
  constructor
  · rintro ⟨⟨y, hy, rfl⟩, _⟩
    have := (mem_foldl_updateSet s.rows [] y).mp hy
    simp only [List.not_mem_nil, false_or] at this
    obtain ⟨e, he, hk⟩ := (hstored y).mp this
    rw [convert_roundtrip y (hu e he y hk)]
    exact ⟨e, he, hk⟩
  · rintro ⟨e, he, hk⟩
    refine ⟨⟨x, ?_, convert_roundtrip x (hu e he x hk)⟩, ?_⟩
    · apply (mem_foldl_updateSet s.rows [] x).mpr
      exact Or.inr ((hstored x).mpr ⟨e, he, hk⟩)
    · rw [hsc]
      simp [hbd e he x hk]

/-! ### what the taxonomy table does to a lineage along `taxlist()` -/

theorem filter_dropWhile_not {α : Type} (p : α → Bool) (l : List α) :
    (l.dropWhile (fun x => !p x)).filter p = l.filter p := by
  induction l with
  | nil => rfl
  | cons x xs ih =>
    simp only [List.dropWhile_cons, List.filter_cons]
    by_cases h : p x = true
    · simp [h]
    · simp [h, ih]

theorem canon_stripTrailing (l : Lineage) :
    canon ((l.reverse.dropWhile (fun p => p.2 == 0)).reverse) = canon l := by
  unfold canon
  have := filter_dropWhile_not (fun (p : Key) => p.2 != 0) l.reverse
  simp only [bne, Bool.not_not] at this
  rw [List.filter_reverse]
  simp only [bne] at this ⊢
  rw [this, List.filter_reverse, List.reverse_reverse]

/-- a lineage that lists the ranks of `taxlist()` in order comes back from the SQLite taxonomy table naming
    the same taxa (interior empty names are kept, trailing ones are stripped) -/
theorem canon_sqlLin {l : Lineage} (h : Positional l) : canon (sqlLin l) = canon l := by
  obtain ⟨h1, h2⟩ := h
  unfold sqlLin sqlTaxLineage
  rw [canon_stripTrailing]
  unfold sqlTaxRow
  obtain ⟨m, hm⟩ : ∃ m, nRanks = l.length + m := ⟨nRanks - l.length, by omega⟩
  have hm' : nRanks - l.length = m := by omega
  rw [hm', hm, List.range_add, List.zip_append (by simp)]
  have hA : (List.range l.length).zip (l.map Prod.snd) = l := by
    rw [← h1]
    have := List.zip_unzip l
    rwa [List.unzip_eq_map] at this
  rw [hA]
  unfold canon
  rw [List.filter_append]
  have hB : ((List.map (fun x => l.length + x) (List.range m)).zip (List.replicate m 0)).filter
      (fun p => p.2 != 0) = [] := by
    rw [List.filter_eq_nil_iff]
    intro p hp
    have := (List.of_mem_zip (a := p.1) (b := p.2) (by simpa using hp)).2
    rw [List.mem_replicate] at this
    simp [this.2]
  rw [hB, List.append_nil]

/-! ### name splitting on characters -/

theorem headUntil_of_not_mem {c : Char} {l : List Char} (h : c ∉ l) : headUntil c l = l := by
  induction l with
  | nil => rfl
  | cons x xs ih =>
    simp only [List.mem_cons, not_or] at h
    have hx : ¬ x = c := fun e => h.1 e.symm
    simp [headUntil, hx, ih h.2]

theorem headUntil_append {c : Char} {a : List Char} (b : List Char) (h : c ∉ a) :
    headUntil c (a ++ c :: b) = a := by
  induction a with
  | nil => simp [headUntil]
  | cons x xs ih =>
    simp only [List.mem_cons, not_or] at h
    have hx : ¬ x = c := fun e => h.1 e.symm
    simp [headUntil, hx, ih h.2]

/-- a name without a space is its own first word -/
theorem firstWord_of_no_space {s : String} (h : ' ' ∉ s.toList) : firstWord s = s := by
  unfold firstWord
  rw [headUntil_of_not_mem h, String.ofList_toList]

/-- `"<ident> <anything>"` has first word `<ident>` -/
theorem firstWord_ident_space (a b : List Char) (h : ' ' ∉ a) :
    firstWord (String.ofList (a ++ ' ' :: b)) = String.ofList a := by
  unfold firstWord
  rw [String.toList_ofList, headUntil_append b h]

/-- a name without '.' is its own dot prefix; `"<x>.<anything>"` has dot prefix `<x>` -/
theorem dotPrefix_of_no_dot {s : String} (h : '.' ∉ s.toList) : dotPrefix s = s := by
  unfold dotPrefix
  rw [headUntil_of_not_mem h, String.ofList_toList]

theorem dotPrefix_dot (a b : List Char) (h : '.' ∉ a) :
    dotPrefix (String.ofList (a ++ '.' :: b)) = String.ofList a := by
  unfold dotPrefix
  rw [String.toList_ofList, headUntil_append b h]

/-! ### `downsample_scaled` on the SQLite form -/

theorem sql_downsample_unhonoured {s s' : SqlDb} {S : Nat} (h : s.downsampleScaled S = .ok s') (x : Nat) :
    s'.idxsOfWith false x = s.idxsOfWith false x := by
  unfold SqlDb.downsampleScaled at h
  by_cases h1 : S < s.scaled
  · simp [h1] at h
  · simp only [h1, if_false, Except.ok.injEq] at h
    subst h
    rfl

theorem sql_downsample_honoured_idxs {s s' : SqlDb} {S : Nat} (h : s.downsampleScaled S = .ok s') (x : Nat) :
    s'.scaled = S ∧ s'.idxsOfWith true x = if x ≤ mhR S then s.idxsOfAll x else [] := by
  unfold SqlDb.downsampleScaled at h
  by_cases h1 : S < s.scaled
  · simp [h1] at h
  · simp only [h1, if_false, Except.ok.injEq] at h
    subst h
    refine ⟨rfl, ?_⟩
    unfold SqlDb.idxsOfWith SqlDb.visibleWith SqlDb.idxsOfAll
    by_cases hx : x ≤ mhR S <;> simp [hx]

end Sm.Lca
