/-
`ratOps` (exact fractions) satisfies the comparison law of the on-demand mode.
-/
import SmVerif.Lemmas.GatherModes
import SmVerif.Lemmas.GatherExamples

set_option autoImplicit false

namespace Sm.Gather

open Sm

/-- the fraction `ratOps` embeds a double as -/
def ratOf (z : F64.F) : Nat × Nat :=
  if z.e ≥ 0 then (z.m * 2 ^ z.e.toNat, 1) else (z.m, 2 ^ (-z.e).toNat)

theorem ratOf_val (z : F64.F) : ((ratOf z).1 : ℚ) / ((ratOf z).2 : ℚ) = z.val ∧ 0 < (ratOf z).2 := by
  unfold ratOf
  by_cases hz : z.e ≥ 0
  · rw [if_pos hz]
    refine ⟨?_, Nat.one_pos⟩
    rw [F64.val_of_nonneg_exp hz]
    simp
  · rw [if_neg hz]
    refine ⟨?_, Nat.pow_pos (by decide)⟩
    rw [F64.val_of_neg_exp hz]
    push_cast
    rfl

/-- `ratOps` compares embedded doubles like `F64.ge` does -/
theorem ratOps_idxLaws : IdxLaws ratOps := by
  constructor
  intro x y
  have e : ratOps.gt (ratOps.ofF x) (ratOps.ofF y)
      = decide ((ratOf x).1 * (ratOf y).2 > (ratOf y).1 * (ratOf x).2) := rfl
  rw [e]
  obtain ⟨hx, hxp⟩ := ratOf_val x
  obtain ⟨hy, hyp⟩ := ratOf_val y
  have hxq : (0 : ℚ) < ((ratOf x).2 : ℚ) := by exact_mod_cast hxp
  have hyq : (0 : ℚ) < ((ratOf y).2 : ℚ) := by exact_mod_cast hyp
  have iff1 : ((ratOf x).1 * (ratOf y).2 > (ratOf y).1 * (ratOf x).2) ↔ y.val < x.val := by
    rw [← hx, ← hy, div_lt_div_iff₀ hyq hxq]
    constructor
    · intro h; exact_mod_cast h
    · intro h; exact_mod_cast h
  by_cases hlt : y.val < x.val
  · rw [decide_eq_true (iff1.2 hlt)]
    have h1 : F64.ge x y = true := (F64.ge_iff x y).2 hlt.le
    have h2 : F64.ge y x = false := (F64.not_ge_iff y x).2 hlt
    rw [h1, h2]; rfl
  · rw [decide_eq_false (fun h => hlt (iff1.1 h))]
    have h2 : F64.ge y x = true := (F64.ge_iff y x).2 (not_lt.1 hlt)
    rw [h2]; simp

end Sm.Gather
