/-
C19 helper lemmas, part 4: the result of one rank for a valid gather result, permutation
invariance, parent/children, the classification loop.
-/
import SmVerif.Lemmas.TaxValid

namespace Sm.Tax

set_option linter.unusedSectionVars false
set_option linter.unusedSimpArgs false
variable {ν : Type} [DecidableEq ν]

/-- the remainder entry, present iff some hash of the query has no lineage at rank `r` -/
def Gather.rem (g : Gather ν) (r : Nat) : List (Entry ℚ ν) :=
  if g.kAt r < g.N then [remainder g.qbp r (g.tbl r)] else []

/-- **one rank of `build_summarized_result` on a valid gather result, in closed form** (the code as it is,
or with a sane tolerance repair) -/
theorem buildRank_valid (rp : Option (Repair ℚ)) (g : Gather ν) (hv : g.Valid) (hrp : RepairOK rp g.N) (r : Nat) :
    buildRank ratA rp g.qbp r (g.tbl r) = .ok ((sortDesc ratA (g.tbl r)).map (toEntry r) ++ g.rem r) := by
  have hN : (0 : ℚ) < g.N := by exact_mod_cast hv.hN
  have hW : (0 : ℚ) < g.W := by exact_mod_cast hv.hW
  unfold Gather.rem
  by_cases h : g.kAt r < g.N
  · simp only [h, if_true]
    have hlt : tblF (g.tbl r) < 1 := by
      rw [tblF_eq, div_lt_iff₀ hN, one_mul]; exact_mod_cast h
    apply buildRank_lt rp _ _ _ _ (good_tbl g hv r) hlt
    · rw [tblFw_eq, div_lt_iff₀ hW, one_mul]; exact_mod_cast wAt_lt_of_kAt_lt g hv r h
    · intro p hp
      obtain ⟨h0, h1, h2⟩ := hrp p hp
      refine ⟨h1, ?_⟩
      -- the exact remainder is at least 1/N, the tolerance is below 1/N
      rw [tblF_eq]
      have hk : (g.kAt r : ℚ) + 1 ≤ g.N := by exact_mod_cast h
      have : p.tol < 1 / (g.N : ℚ) := by rw [lt_div_iff₀ hN]; exact h2
      have h3 : 1 / (g.N : ℚ) ≤ 1 - (g.kAt r : ℚ) / g.N := by
        rw [div_le_iff₀ hN, sub_mul, div_mul_cancel₀ _ (ne_of_gt hN)]; linarith
      linarith
  · simp only [h, if_false, List.append_nil]
    apply buildRank_eq1 rp _ _ _ _ (good_tbl g hv r)
    · have : g.kAt r = g.N := le_antisymm (kAt_le g hv r) (not_lt.mp h)
      rw [tblF_eq, this, div_self (ne_of_gt hN)]
    · intro p hp
      obtain ⟨h0, h1, _⟩ := hrp p hp
      exact ⟨h1, h0⟩

theorem repairOK_none (N : Nat) : RepairOK none N := by intro p hp; cases hp

/-! keys are never empty (so a classified entry is never mistaken for the remainder) -/

theorem popTo_ne_nil_of_filled (lin : Lineage ν) (r : Nat) (h : filledAt lin r = true) : popTo lin r ≠ [] := by
  unfold filledAt at h
  unfold popTo
  cases lin with
  | nil => simp at h
  | cons a t => simp

theorem key_ne_nil (g : Gather ν) (r : Nat) (L : Lineage ν) (a : Acc ℚ) (hm : (L, a) ∈ g.tbl r) : L ≠ [] := by
  obtain ⟨x, _, hu⟩ := exists_row_of_mem g r L a hm
  unfold under at hu
  simp only [Bool.and_eq_true, decide_eq_true_eq] at hu
  rw [← hu.2]
  exact popTo_ne_nil_of_filled _ _ hu.1.2

/-! permutation invariance -/

theorem ksum_perm {l l' : List (GRow ν)} (h : l.Perm l') : ksum l = ksum l' := (h.map _).sum_eq
theorem wsum_perm {l l' : List (GRow ν)} (h : l.Perm l') : wsum l = wsum l' := (h.map _).sum_eq

/-- the same gather rows in another order -/
structure Gather.Reorder (g g' : Gather ν) : Prop where
  hN : g'.N = g.N
  hW : g'.W = g.W
  hs : g'.scaled = g.scaled
  perm : g'.rows.Perm g.rows

theorem Gather.Reorder.valid {g g' : Gather ν} (h : g.Reorder g') (hv : g.Valid) : g'.Valid := by
  refine ⟨h.hN ▸ hv.hN, h.hW ▸ hv.hW, fun x hx => hv.pos x (h.perm.mem_iff.mp hx), ?_, ?_, ?_⟩
  · rw [ksum_perm h.perm, h.hN]; exact hv.kle
  · rw [wsum_perm h.perm, h.hW]; exact hv.wle
  · rw [ksum_perm h.perm, wsum_perm h.perm, h.hN, h.hW]; exact hv.full

theorem Gather.Reorder.kAt {g g' : Gather ν} (h : g.Reorder g') (r : Nat) : g'.kAt r = g.kAt r :=
  ksum_perm (h.perm.filter _)

theorem Gather.Reorder.wAt {g g' : Gather ν} (h : g.Reorder g') (r : Nat) : g'.wAt r = g.wAt r :=
  wsum_perm (h.perm.filter _)

theorem acc_ext (a b : Acc ℚ) (h1 : a.f = b.f) (h2 : a.fw = b.fw) (h3 : a.bp = b.bp) : a = b := by
  cases a; cases b; simp_all

theorem mem_tbl_of_reorder {g g' : Gather ν} (h : g.Reorder g') (r : Nat) (L : Lineage ν) (a : Acc ℚ)
    (hm : (L, a) ∈ g.tbl r) : (L, a) ∈ g'.tbl r := by
  have hk : L ∈ (g.tbl r).map Prod.fst := List.mem_map_of_mem (f := Prod.fst) hm
  have hk' : L ∈ (g'.tbl r).map Prod.fst := by
    unfold Gather.tbl at hk ⊢
    rw [mem_keys] at hk ⊢
    obtain ⟨row, hrow, hc⟩ := hk
    unfold Gather.toQ at hrow ⊢
    obtain ⟨x, hx, rfl⟩ := List.mem_map.mp hrow
    refine ⟨GRow.toQ g'.N g'.W g'.scaled x, List.mem_map_of_mem (h.perm.mem_iff.mpr hx), ?_⟩
    exact hc
  obtain ⟨⟨L', a'⟩, hm', hL⟩ := List.mem_map.mp hk'
  simp only at hL
  subst hL
  have e : a' = a := by
    apply acc_ext
    · rw [entry_f g' r L' a' hm', entry_f g r L' a hm, ksum_perm (h.perm.filter _), h.hN]
    · rw [entry_fw g' r L' a' hm', entry_fw g r L' a hm, wsum_perm (h.perm.filter _), h.hW]
    · rw [entry_bp g' r L' a' hm', entry_bp g r L' a hm, ksum_perm (h.perm.filter _), h.hs]
  rw [← e]; exact hm'

theorem Gather.Reorder.symm {g g' : Gather ν} (h : g.Reorder g') : g'.Reorder g :=
  ⟨h.hN.symm, h.hW.symm, h.hs.symm, h.perm.symm⟩

theorem nodup_of_nodup_map {α β : Type} (f : α → β) (l : List α) (h : (l.map f).Nodup) : l.Nodup := by
  induction l with
  | nil => simp
  | cons x t ih =>
    simp only [List.map_cons, List.nodup_cons] at h ⊢
    exact ⟨fun hx => h.1 (List.mem_map_of_mem hx), ih h.2⟩

theorem tbl_nodup (g : Gather ν) (r : Nat) : (g.tbl r).Nodup :=
  nodup_of_nodup_map Prod.fst _ (keys_nodup r g.toQ)

/-- the rank tables of two orderings of the same rows hold the same entries -/
theorem tbl_perm {g g' : Gather ν} (h : g.Reorder g') (r : Nat) : (g'.tbl r).Perm (g.tbl r) := by
  rw [List.perm_ext_iff_of_nodup (tbl_nodup g' r) (tbl_nodup g r)]
  intro x
  obtain ⟨L, a⟩ := x
  exact ⟨mem_tbl_of_reorder h.symm r L a, mem_tbl_of_reorder h r L a⟩

theorem rem_reorder {g g' : Gather ν} (h : g.Reorder g') (r : Nat) : g'.rem r = g.rem r := by
  unfold Gather.rem remainder Gather.qbp
  rw [h.kAt, h.hN, h.hs, tblF_perm (tbl_perm h r), tblFw_perm (tbl_perm h r), tblBp_perm (tbl_perm h r)]

/-! psum over a permuted table, and over the entries of a result -/

theorem psum_perm (P : Lineage ν → Bool) (gq : Acc ℚ → ℚ) {t t' : Tbl ℚ ν} (h : t.Perm t') :
    psum P gq t = psum P gq t' := by
  unfold psum
  exact ((h.filter _).map _).sum_eq

theorem ksum_filter_mono (p q : GRow ν → Bool) (l : List (GRow ν)) (h : ∀ x ∈ l, p x = true → q x = true) :
    ksum (l.filter p) ≤ ksum (l.filter q) := by
  induction l with
  | nil => simp
  | cons x t ih =>
    have ht := ih (fun y hy => h y (List.mem_cons_of_mem _ hy))
    have hx := h x (List.mem_cons_self ..)
    by_cases hp : p x
    · have hq := hx hp
      simp only [List.filter_cons, hp, hq, if_true, ksum, List.map_cons, List.sum_cons] at *; omega
    · by_cases hq : q x
      · simp only [List.filter_cons, hp, hq, if_true, ksum, List.map_cons, List.sum_cons] at *
        simp; omega
      · simp only [List.filter_cons, hp, hq, ksum] at *; simpa using ht

theorem wsum_filter_mono (p q : GRow ν → Bool) (l : List (GRow ν)) (h : ∀ x ∈ l, p x = true → q x = true) :
    wsum (l.filter p) ≤ wsum (l.filter q) := by
  induction l with
  | nil => simp
  | cons x t ih =>
    have ht := ih (fun y hy => h y (List.mem_cons_of_mem _ hy))
    have hx := h x (List.mem_cons_self ..)
    by_cases hp : p x
    · have hq := hx hp
      simp only [List.filter_cons, hp, hq, if_true, wsum, List.map_cons, List.sum_cons] at *; omega
    · by_cases hq : q x
      · simp only [List.filter_cons, hp, hq, if_true, wsum, List.map_cons, List.sum_cons] at *
        simp; omega
      · simp only [List.filter_cons, hp, hq, wsum] at *; simpa using ht

/-- cutting a lineage at `r' ≥ r` and then at `r` is cutting it at `r` -/
theorem popTo_popTo (lin : Lineage ν) {r r' : Nat} (h : r ≤ r') : popTo (popTo lin r') r = popTo lin r := by
  unfold popTo
  rw [List.take_take]
  congr 1
  omega

theorem filledAt_popTo (lin : Lineage ν) (r : Nat) : filledAt (popTo lin r) r = filledAt lin r := by
  unfold filledAt popTo
  rw [List.getElem?_take]
  simp

theorem hasLineage_of_filledAt (lin : Lineage ν) (r : Nat) (h : filledAt lin r = true) : hasLineage lin = true := by
  unfold filledAt at h
  unfold hasLineage
  split at h
  · rename_i v hv
    rw [List.any_eq_true]
    exact ⟨some v, List.mem_of_getElem? hv, rfl⟩
  · cases h

/-- a row summarised under a child of `L` (at a lower rank `r'`) is summarised under `L` at rank `r` -/
theorem under_child_parent (g : Gather ν) {r r' : Nat} (hr : r ≤ r') (L : Lineage ν) (a : Acc ℚ)
    (hm : (L, a) ∈ g.tbl r) (x : GRow ν)
    (hx : under (fun C => decide (popTo C r = L)) r' x = true) : under (fun K => decide (K = L)) r x = true := by
  unfold under at hx ⊢
  simp only [Bool.and_eq_true, decide_eq_true_eq] at hx ⊢
  obtain ⟨⟨hl, _⟩, hp⟩ := hx
  rw [popTo_popTo _ hr] at hp
  refine ⟨⟨hl, ?_⟩, hp⟩
  -- rank r is filled in L (it is a key of the rank-r table), hence in x
  obtain ⟨y, _, hy⟩ := exists_row_of_mem g r L a hm
  unfold under at hy
  simp only [Bool.and_eq_true, decide_eq_true_eq] at hy
  rw [← filledAt_popTo, hp, ← hy.2, filledAt_popTo]
  exact hy.1.2

end Sm.Tax
