/-
`search` (`_find_nodes` with the bounded `_NodesCache` and `unload_data=True`) as a tree effect, for both variants of
`Node.unload` (`keep`), against the Cover invariant.  Part of `SBTSearch`.

* `CleanV keep`, `AllPresent`, `Good keep`, `Step keep`: what a search needs and keeps.
* T1 `findLoop_preserves`, `search_preserves` (+ `_present` forms): a search keeps Base / Cover / `CleanV keep` and
  the leaves, for every cache bound, cache content and query (repaired `_rebuild_node`, or nothing missing, or every
  position listed as missing present).
* T2 `search_sound` (no hypotheses), `findLoop_complete`, `search_complete_gen`, `search_complete` (need `MinPos`).
  The pruning arithmetic `nodeOk_of_leafPasses` covers the three score types (Jaccard, containment,
  max-containment: `denomOf`) and a query at the tree's scaled or coarser (`cut`: leaves scored downsampled,
  `leafView`; `min_n_below` replaced by 1, `subjSize`).
-/
import SmVerif.Lemmas.SBTRebuild
import SmVerif.Lemmas.SBTInsert

namespace Sm.SBT

open Sm.NG

/-! ### tree effects -/

/-- the fields a search never touches -/
structure Frame (t t' : Tree) : Prop where
  leaves : t'.leaves = t.leaves
  missing : t'.missing = t.missing
  d : t'.d = t.d
  sizes : t'.sizes = t.sizes
  cacheMax : t'.cacheMax = t.cacheMax

theorem Frame.refl (t : Tree) : Frame t t := ⟨rfl, rfl, rfl, rfl, rfl⟩

theorem Frame.trans {a b c : Tree} (h1 : Frame a b) (h2 : Frame b c) : Frame a c :=
  ⟨h2.leaves.trans h1.leaves, h2.missing.trans h1.missing, h2.d.trans h1.d, h2.sizes.trans h1.sizes,
   h2.cacheMax.trans h1.cacheMax⟩

/-- cleanliness as far as the variant of `Node.unload` needs it: the current source (`keep = true`) keeps the
filter of an updated node, so nothing is needed; the older one (`keep = false`) needs `Clean` -/
def CleanV (keep : Bool) (t : Tree) : Prop := keep = true ∨ Clean t

theorem cleanV_true (t : Tree) : CleanV true t := Or.inl rfl

theorem CleanV.of_clean {keep : Bool} {t : Tree} (h : Clean t) : CleanV keep t := Or.inr h

theorem CleanV.clean {t : Tree} (h : CleanV false t) : Clean t := h.resolve_left (by decide)

/-- every position listed in `_missing_nodes` carries a node by now (the list never shrinks) -/
def AllPresent (t : Tree) : Prop := ∀ a ∈ t.missing, (t.nodes.get? a).isSome = true

theorem allPresent_of_nomissing {t : Tree} (h : t.missing = []) : AllPresent t := by
  intro a ha; rw [h] at ha; cases ha

theorem unloadV_false : INode.unloadV false = INode.unload := by
  funext n; simp [INode.unloadV]

theorem unloadV_true (n : INode) : INode.unloadV true n = n := by
  simp [INode.unloadV]

/-- the three invariants a search relies on and keeps -/
structure Good (keep : Bool) (t : Tree) : Prop where
  base : Base t
  cover : Cover t
  clean : CleanV keep t

/-- no internal node records `min_n_below = 0` (every writer clamps it to 1) -/
def MinPos (t : Tree) : Prop := ∀ p n, t.nodes.get? p = some n → n.minN ≠ some 0

/-- an effect on the tree that a search may have -/
structure Step (keep : Bool) (t t' : Tree) : Prop where
  frame : Frame t t'
  good : Good keep t → Good keep t'
  minpos : MinPos t → MinPos t'
  present : ∀ x, (t.nodes.get? x).isSome = true → (t'.nodes.get? x).isSome = true

theorem Step.refl {keep : Bool} (t : Tree) : Step keep t t := ⟨Frame.refl t, id, id, fun _ h => h⟩

theorem Step.trans {keep : Bool} {a b c : Tree} (h1 : Step keep a b) (h2 : Step keep b c) : Step keep a c :=
  ⟨h1.frame.trans h2.frame, fun h => h2.good (h1.good h), fun h => h2.minpos (h1.minpos h),
   fun x h => h2.present x (h1.present x h)⟩

theorem Step.allPresent {keep : Bool} {t t' : Tree} (h : Step keep t t') (ha : AllPresent t) : AllPresent t' := by
  intro a hm
  rw [h.frame.missing] at hm
  exact h.present a (ha a hm)

theorem Step.hfm {fixed keep : Bool} {t t' : Tree} (h : Step keep t t') (hfm : fixed = true ∨ AllPresent t) :
    fixed = true ∨ AllPresent t' := hfm.imp_right h.allPresent

/-- changing the cache bookkeeping is invisible to the invariants -/
theorem step_cache {keep : Bool} (t : Tree) (c : List (Nat × Nat)) : Step keep t { t with cache := c } := by
  refine ⟨⟨rfl, rfl, rfl, rfl, rfl⟩, ?_, ?_, fun _ h => h⟩
  · intro ⟨hb, hc, hcl⟩
    exact ⟨⟨hb.d2, hb.sizes, hb.nodesOK⟩, hc, hcl⟩
  · intro h; exact h

/-- an effect that changes no field a search looks at and no node, as far as `get?` can tell -/
theorem step_of_get_eq {keep : Bool} {t t' : Tree} (hf : Frame t t')
    (hget : ∀ q, t'.nodes.get? q = t.nodes.get? q) : Step keep t t' := by
  refine ⟨hf, ?_, ?_, ?_⟩
  · intro ⟨hb, hc, hcl⟩
    refine ⟨⟨by rw [hf.d]; exact hb.d2, by rw [hf.sizes]; exact hb.sizes, ?_⟩, ?_, ?_⟩
    · intro q n hn
      rw [hf.sizes]
      rw [hget] at hn
      exact hb.nodesOK q n hn
    · intro q l hl a ha
      rw [hf.leaves] at hl
      rw [hf.d] at ha
      obtain ⟨h1, h2⟩ := hc q l hl a ha
      refine ⟨by rw [hf.leaves]; exact h1, ?_⟩
      rw [hget, hf.missing, hf.sizes]
      exact h2
    · exact hcl.imp_right (fun h q n hn => h q n (by rw [← hget]; exact hn))
  · intro h q n hn
    exact h q n (by rw [← hget]; exact hn)
  · intro x hx
    rw [hget]; exact hx

theorem modNode_unloadV_true_get? (t : Tree) (p q : Nat) :
    (t.modNode p (INode.unloadV true)).nodes.get? q = t.nodes.get? q := by
  rw [modNode_get?]
  split
  · rename_i h; subst h
    cases t.nodes.get? q with
    | none => rfl
    | some n => simp [unloadV_true]
  · rfl

/-- the older `Node.unload` of one node -/
theorem step_unload_old (t : Tree) (p : Nat) : Step false t (t.modNode p INode.unload) := by
  have hf := modNode_fields t p INode.unload
  have hget := modNode_get? t p INode.unload
  refine ⟨⟨hf.1, hf.2.1, hf.2.2.1, hf.2.2.2.1, hf.2.2.2.2.2.1⟩, ?_, ?_, ?_⟩
  · intro ⟨hb, hc, hcl0⟩
    have hcl : Clean t := hcl0.clean
    refine ⟨⟨by rw [hf.2.2.1]; exact hb.d2, by rw [hf.2.2.2.1]; exact hb.sizes, ?_⟩, ?_, Or.inr ?_⟩
    · intro q n hn
      rw [hf.2.2.2.1]
      rw [hget] at hn
      split at hn
      · rename_i hq; subst hq
        cases hm : t.nodes.get? q with
        | none => rw [hm] at hn; cases hn
        | some m =>
          rw [hm] at hn
          simp only [Option.map_some, Option.some.injEq] at hn
          subst hn
          exact unload_dataOK (hb.nodesOK q m hm)
      · exact hb.nodesOK q n hn
    · intro q l hl a ha
      rw [hf.1] at hl
      rw [hf.2.2.1] at ha
      obtain ⟨h1, h2⟩ := hc q l hl a ha
      refine ⟨by rw [hf.1]; exact h1, ?_⟩
      rw [hget, hf.2.1, hf.2.2.2.1]
      by_cases hq : a = p
      · subst hq
        rw [if_pos rfl]
        cases hm : t.nodes.get? a with
        | none => rw [hm] at h2; exact h2
        | some m =>
          rw [hm] at h2
          simp only [Option.map_some]
          exact (unload_holds (hcl a m hm)).mpr h2
      · rw [if_neg hq]; exact h2
    · intro q n hn hst
      rw [hget] at hn
      split at hn
      · rename_i hq; subst hq
        cases hm : t.nodes.get? q with
        | none => rw [hm] at hn; cases hn
        | some m =>
          rw [hm] at hn
          simp only [Option.map_some, Option.some.injEq] at hn
          subst hn
          unfold INode.unload at hst ⊢
          split
          · rfl
          · rename_i hns
            rw [if_neg hns] at hst
            exact absurd hst hns
      · exact hcl q n hn hst
  · intro h q n hn
    rw [hget] at hn
    split at hn
    · rename_i hq; subst hq
      cases hm : t.nodes.get? q with
      | none => rw [hm] at hn; cases hn
      | some m =>
        rw [hm] at hn
        simp only [Option.map_some, Option.some.injEq] at hn
        subst hn
        have := h q m hm
        unfold INode.unload
        split
        · exact this
        · exact this
    · exact h q n hn
  · intro x hx
    rw [hget]
    split
    · rename_i hq; subst hq
      rw [Option.isSome_map]; exact hx
    · exact hx

/-- `Node.unload` of one node, in either variant -/
theorem step_unload {keep : Bool} (t : Tree) (p : Nat) : Step keep t (t.modNode p (INode.unloadV keep)) := by
  cases keep with
  | true =>
    have hf := modNode_fields t p (INode.unloadV true)
    exact step_of_get_eq ⟨hf.1, hf.2.1, hf.2.2.1, hf.2.2.2.1, hf.2.2.2.2.2.1⟩ (modNode_unloadV_true_get? t p)
  | false =>
    rw [unloadV_false]
    exact step_unload_old t p

/-- `_NodesCache.popitem` -/
theorem step_cachePop {keep : Bool} (t : Tree) : Step keep t (cachePop keep t) := by
  unfold cachePop
  simp only
  split
  · exact Step.refl t
  · exact (step_cache t _).trans (step_unload _ _)

/-- `_NodesCache.__setitem__`, however many evictions it takes -/
theorem step_cacheSet {keep : Bool} : ∀ (fuel : Nat) (t : Tree) (key : Nat), Step keep t (cacheSet keep fuel t key) := by
  intro fuel
  induction fuel with
  | zero => intro t key; exact step_cache t _
  | succ fuel ih =>
    intro t key
    unfold cacheSet
    split
    · split
      · exact (step_cachePop t).trans (ih _ _)
      · exact step_cache t _
    · exact step_cache t _

/-- a property of single internal nodes that every writer of nodes establishes or keeps -/
structure NodeProp (P : INode → Prop) : Prop where
  fresh : P INode.fresh
  leafUp : ∀ sz l n, P n → P (leafUpdate sz l n)
  nodeUp : ∀ sz c n, P n → P (nodeUpdate sz c n)

def AllNodes (P : INode → Prop) (t : Tree) : Prop := ∀ p n, t.nodes.get? p = some n → P n

theorem AllNodes.modNode {P : INode → Prop} {t : Tree} (h : AllNodes P t) (pos : Nat) (f : INode → INode)
    (hf : ∀ n, P n → P (f n)) : AllNodes P (t.modNode pos f) := by
  intro q n hn
  rw [modNode_get?] at hn
  split at hn
  · rename_i hq; subst hq
    cases hm : t.nodes.get? q with
    | none => rw [hm] at hn; cases hn
    | some m =>
      rw [hm] at hn
      simp only [Option.map_some, Option.some.injEq] at hn
      subst hn
      exact hf m (h q m hm)
  · exact h q n hn

theorem AllNodes.set {P : INode → Prop} {t : Tree} (h : AllNodes P t) (pos : Nat) {n : INode} (hn : P n) :
    AllNodes P { t with nodes := t.nodes.set pos n } := by
  intro q m hm
  have hm' : PMap.get? (PMap.set t.nodes pos n) q = some m := hm
  rw [PMap.get?_set] at hm'
  split at hm'
  · cases hm'; exact hn
  · exact h q m hm'

theorem rebuild_allNodes {P : INode → Prop} (hP : NodeProp P) (fixed : Bool) : ∀ (fuel : Nat) (t t' : Tree) (pos : Nat),
    AllNodes P t → rebuild fixed fuel t pos = .ok t' → AllNodes P t' := by
  intro fuel
  induction fuel with
  | zero => intro t t' pos _ h; rw [rebuild_zero] at h; cases h
  | succ fuel ih =>
    intro t t' pos hmp h
    rw [rebuild_succ] at h
    cases hp : t.nodes.get? pos with
    | some n =>
      simp only [hp, Except.ok.injEq] at h
      subst h; exact hmp
    | none =>
      simp only [hp] at h
      refine foldlM_range_inv (rbStep fixed fuel pos) (fun _ s => AllNodes P s) t.d ?_ ?_ h
      · intro i s s' _ hs hstep
        rcases rbStep_cases hstep with ⟨l, _, rfl⟩ | ⟨_, cn, _, rfl⟩ | ⟨_, _, _, _, rfl⟩ |
          ⟨_, _, _, s1, cn, hr, _, rfl⟩ | ⟨_, _, _, rfl⟩
        · exact hs.modNode _ _ (hP.leafUp _ _)
        · exact hs.modNode _ _ (hP.nodeUp _ _)
        · exact hs
        · exact (ih _ _ _ hs hr).modNode _ _ (hP.nodeUp _ _)
        · exact hs
      · exact hmp.set pos hP.fresh

theorem clamp_ne_zero (x : Nat) : (some (clamp x) : Option Nat) ≠ some 0 := by
  unfold clamp; split <;> simp_all

theorem nodeProp_minpos : NodeProp (fun n => n.minN ≠ some 0) := by
  refine ⟨by simp [INode.fresh], fun _ _ _ _ => clamp_ne_zero _, ?_⟩
  intro sz c n hn
  unfold nodeUpdate
  cases c.minN with
  | none => exact hn
  | some cm => exact clamp_ne_zero _

theorem rebuild_minpos (fixed : Bool) (fuel : Nat) (t t' : Tree) (pos : Nat) :
    MinPos t → rebuild fixed fuel t pos = .ok t' → MinPos t' :=
  rebuild_allNodes nodeProp_minpos fixed fuel t t' pos

/-- the repaired `_rebuild_node` -/
theorem step_rebuild_fixed {keep : Bool} {fuel : Nat} {t t' : Tree} {pos : Nat} (h : rebuild true fuel t pos = .ok t') :
    Step keep t t' := by
  have hf := rebuild_frame h
  refine ⟨⟨hf.1, hf.2.1, hf.2.2.1, hf.2.2.2.1, hf.2.2.2.2.2.1⟩, ?_, fun hm => rebuild_minpos _ _ _ _ _ hm h, ?_⟩
  · intro ⟨hb, hc, hcl⟩
    obtain ⟨hb', hc'⟩ := rebuild_fixed_cover hb hc h
    exact ⟨hb', hc', hcl.imp_right (fun hcl => rebuild_clean hcl h)⟩
  · intro x hx
    obtain ⟨n, hn⟩ := Option.isSome_iff_exists.mp hx
    rw [hf.2.2.2.2.2.2.2.1 x n hn]; rfl

/-! ### one position of `_find_nodes` -/

/-- what `_find_nodes` does to fetch the internal node at `p`: cache hit, present node, or repair -/
def visit (fixed keep : Bool) (t : Tree) (p : Nat) : Except Err (Option Tree) :=
  if t.cache.any (fun c => c.1 = p) then .ok (some { t with cache := cacheTouch t.cache p })
  else match t.nodes.get? p with
    | some _ => .ok (some (cacheSet keep (t.cache.length + 1) t p))
    | none =>
      if t.missing.contains p then
        match rebuild fixed t.rebuildFuel t p with
        | .ok t => .ok (some (cacheSet keep (t.cache.length + 1) t p))
        | .error e => .error e
      else .ok none

/-- the node test of `find`, for the three score types (`denomOf`) and for a query coarser than the tree
(`subjSize`: `min_n_below` is replaced by 1) -/
def nodeOk (q : Query) (sizes : List Nat) (n : INode) (m : Nat) : Bool :=
  passes q ((n.data sizes).matchCount q.mins) (denomOf q (subjSize q m) (subjSize q m))

theorem findLoop_zero (fixed keep : Bool) (q : Query) (t : Tree) (visited queue : List Nat) (acc : List Leaf) :
    findLoop fixed keep q 0 t visited queue acc = (t, .error .fuel) := by
  rw [findLoop]

theorem findLoop_nil (fixed keep : Bool) (q : Query) (fuel : Nat) (t : Tree) (visited : List Nat) (acc : List Leaf) :
    findLoop fixed keep q (fuel + 1) t visited [] acc = (t, .ok acc) := by
  rw [findLoop]

theorem findLoop_cons (fixed keep : Bool) (q : Query) (fuel : Nat) (t : Tree) (visited : List Nat) (p : Nat)
    (queue : List Nat) (acc : List Leaf) :
    findLoop fixed keep q (fuel + 1) t visited (p :: queue) acc =
      match t.leaves.get? p with
      | some l =>
        if visited.contains p then findLoop fixed keep q fuel t visited queue acc
        else findLoop fixed keep q fuel t (p :: visited) queue (if leafPasses q l then acc ++ [l] else acc)
      | none =>
        match visit fixed keep t p with
        | .error e => (t, .error e)
        | .ok none => findLoop fixed keep q fuel t visited queue acc
        | .ok (some t') =>
          if visited.contains p then findLoop fixed keep q fuel t' visited queue acc
          else
            match t'.nodes.get? p with
            | none => (t', .error .key)
            | some n =>
              match n.minN with
              | none => (t', .error .value)
              | some m =>
                findLoop fixed keep q fuel (t'.modNode p (INode.unloadV keep)) (p :: visited)
                  (if nodeOk q t'.sizes n m then ((List.range t'.d).map (child t'.d p)).reverse ++ queue else queue) acc := by
  rw [findLoop]
  rfl

theorem contains_nil_false (p : Nat) : ([] : List Nat).contains p = false := rfl

/-- fetching a node is a `Step`, when the repair is the fixed one or is never needed -/
theorem visit_step {fixed keep : Bool} {t t' : Tree} {p : Nat} (hfm : fixed = true ∨ AllPresent t)
    (h : visit fixed keep t p = .ok (some t')) : Step keep t t' := by
  unfold visit at h
  split at h
  · cases h; exact step_cache t _
  · split at h
    · cases h; exact step_cacheSet _ _ _
    · rename_i hn
      split at h
      · rename_i hm
        rcases hfm with hfx | hap
        · subst hfx
          split at h
          · rename_i t1 hr
            cases h
            exact (step_rebuild_fixed hr).trans (step_cacheSet _ _ _)
          · cases h
        · exfalso
          have := hap p (by simpa using hm)
          rw [hn] at this; cases this
      · cases h

/-- the loop of `_find_nodes` as a tree effect -/
theorem findLoop_step {fixed keep : Bool} (q : Query) : ∀ (fuel : Nat) (t : Tree) (visited queue : List Nat)
    (acc : List Leaf), (fixed = true ∨ AllPresent t) → Step keep t (findLoop fixed keep q fuel t visited queue acc).1 := by
  intro fuel
  induction fuel with
  | zero => intro t visited queue acc _; rw [findLoop_zero]; exact Step.refl t
  | succ fuel ih =>
    intro t visited queue acc hfm
    cases queue with
    | nil => rw [findLoop_nil]; exact Step.refl t
    | cons p queue =>
      rw [findLoop_cons]
      split
      · split
        · exact ih _ _ _ _ hfm
        · exact ih _ _ _ _ hfm
      · split
        · exact Step.refl t
        · exact ih _ _ _ _ hfm
        · rename_i t' hv
          have hs : Step keep t t' := visit_step hfm hv
          have hfm' : fixed = true ∨ AllPresent t' := hs.hfm hfm
          split
          · exact hs.trans (ih _ _ _ _ hfm')
          · split
            · exact hs
            · split
              · exact hs
              · have hu : Step keep t' (t'.modNode p (INode.unloadV keep)) := step_unload t' p
                exact (hs.trans hu).trans (ih _ _ _ _ (hu.hfm hfm'))

/-- **T1**: a search on a covered tree (clean, if `unload` is the older one) leaves such a tree with the same
leaves, for every cache bound, cache content and query -/
theorem findLoop_preserves {fixed keep : Bool} (q : Query) : ∀ (fuel : Nat) (t : Tree) (visited queue : List Nat) (acc : List Leaf),
    Base t → Cover t → CleanV keep t → (fixed = true ∨ t.missing = []) →
    let r := findLoop fixed keep q fuel t visited queue acc
    Base r.1 ∧ Cover r.1 ∧ CleanV keep r.1 ∧ r.1.leaves = t.leaves ∧ r.1.missing = t.missing ∧ r.1.d = t.d ∧ r.1.sizes = t.sizes := by
  intro fuel t visited queue acc hb hc hcl hfm
  have hs := findLoop_step (fixed := fixed) (keep := keep) q fuel t visited queue acc (hfm.imp_right allPresent_of_nomissing)
  obtain ⟨hb', hc', hcl'⟩ := hs.good ⟨hb, hc, hcl⟩
  exact ⟨hb', hc', hcl', hs.frame.leaves, hs.frame.missing, hs.frame.d, hs.frame.sizes⟩

/-- the same with "everything listed as missing is present" instead of "nothing missing" -/
theorem findLoop_preserves_present {fixed keep : Bool} (q : Query) (fuel : Nat) (t : Tree) (visited queue : List Nat)
    (acc : List Leaf) (hb : Base t) (hc : Cover t) (hcl : CleanV keep t) (hfm : fixed = true ∨ AllPresent t) :
    let r := findLoop fixed keep q fuel t visited queue acc
    Base r.1 ∧ Cover r.1 ∧ CleanV keep r.1 ∧ r.1.leaves = t.leaves ∧ r.1.missing = t.missing ∧ r.1.d = t.d ∧
      r.1.sizes = t.sizes ∧ (fixed = true ∨ AllPresent r.1) := by
  have hs := findLoop_step (fixed := fixed) (keep := keep) q fuel t visited queue acc hfm
  obtain ⟨hb', hc', hcl'⟩ := hs.good ⟨hb, hc, hcl⟩
  exact ⟨hb', hc', hcl', hs.frame.leaves, hs.frame.missing, hs.frame.d, hs.frame.sizes, hs.hfm hfm⟩

theorem search_preserves {fixed keep : Bool} {t : Tree} (q : Query) (hb : Base t) (hc : Cover t) (hcl : CleanV keep t)
    (h : fixed = true ∨ t.missing = []) :
    Base (search fixed keep t q).1 ∧ Cover (search fixed keep t q).1 ∧ CleanV keep (search fixed keep t q).1 ∧
      (search fixed keep t q).1.leaves = t.leaves := by
  obtain ⟨h1, h2, h3, h4, _⟩ := findLoop_preserves (fixed := fixed) (keep := keep) q t.findFuel t [] [0] [] hb hc hcl h
  exact ⟨h1, h2, h3, h4⟩

theorem search_preserves_present {fixed keep : Bool} {t : Tree} (q : Query) (hb : Base t) (hc : Cover t)
    (hcl : CleanV keep t) (h : fixed = true ∨ AllPresent t) :
    Base (search fixed keep t q).1 ∧ Cover (search fixed keep t q).1 ∧ CleanV keep (search fixed keep t q).1 ∧
      (search fixed keep t q).1.leaves = t.leaves ∧ (fixed = true ∨ AllPresent (search fixed keep t q).1) := by
  obtain ⟨h1, h2, h3, h4, _, _, _, h8⟩ :=
    findLoop_preserves_present (fixed := fixed) (keep := keep) q t.findFuel t [] [0] [] hb hc hcl h
  exact ⟨h1, h2, h3, h4, h8⟩

/-! ### soundness: every reported leaf is a stored leaf that passes -/

theorem visit_frame {fixed keep : Bool} {t t' : Tree} {p : Nat} (h : visit fixed keep t p = .ok (some t')) : Frame t t' := by
  unfold visit at h
  split at h
  · cases h; exact (step_cache (keep := keep) t _).frame
  · split at h
    · cases h; exact (step_cacheSet (keep := keep) _ _ _).frame
    · split at h
      · split at h
        · rename_i t1 hr
          cases h
          have hf := rebuild_frame hr
          exact Frame.trans ⟨hf.1, hf.2.1, hf.2.2.1, hf.2.2.2.1, hf.2.2.2.2.2.1⟩ (step_cacheSet (keep := keep) _ _ _).frame
        · cases h
      · cases h

theorem findLoop_sound {fixed keep : Bool} (q : Query) (L : PMap Leaf) : ∀ (fuel : Nat) (t : Tree) (visited queue : List Nat)
    (acc ls : List Leaf), t.leaves = L → (∀ l ∈ acc, leafPasses q l = true ∧ ∃ p, L.get? p = some l) →
    (findLoop fixed keep q fuel t visited queue acc).2 = .ok ls →
    ∀ l ∈ ls, leafPasses q l = true ∧ ∃ p, L.get? p = some l := by
  intro fuel
  induction fuel with
  | zero => intro t visited queue acc ls _ _ h; rw [findLoop_zero] at h; cases h
  | succ fuel ih =>
    intro t visited queue acc ls hL hacc h
    cases queue with
    | nil => rw [findLoop_nil] at h; cases h; exact hacc
    | cons p queue =>
      rw [findLoop_cons] at h
      split at h
      · rename_i l0 hl0
        split at h
        · exact ih _ _ _ _ _ hL hacc h
        · refine ih _ _ _ _ _ hL ?_ h
          split
          · rename_i hp
            intro l hl
            rcases List.mem_append.mp hl with hl | hl
            · exact hacc l hl
            · simp only [List.mem_singleton] at hl
              subst hl
              exact ⟨hp, p, by rw [← hL]; exact hl0⟩
          · exact hacc
      · split at h
        · cases h
        · exact ih _ _ _ _ _ hL hacc h
        · rename_i t' hv
          have hf := visit_frame hv
          have hL' : t'.leaves = L := hf.leaves.trans hL
          split at h
          · exact ih _ _ _ _ _ hL' hacc h
          · split at h
            · cases h
            · split at h
              · cases h
              · exact ih _ _ _ _ _ ((modNode_fields t' p (INode.unloadV keep)).1.trans hL') hacc h

/-- **T2, soundness** (no hypotheses on the tree at all): whatever `search` reports is a stored leaf
that passes the leaf test -/
theorem search_sound {fixed keep : Bool} {t : Tree} (q : Query) (l : Leaf) {ls : List Leaf} :
    (search fixed keep t q).2 = .ok ls → l ∈ ls → leafPasses q l = true ∧ ∃ p, t.leaves.get? p = some l := by
  intro h hl
  exact findLoop_sound (fixed := fixed) (keep := keep) q t.leaves t.findFuel t [] [0] [] ls rfl (by simp) h l hl

/-! ### completeness: pruning by the node test never loses a passing leaf -/

theorem filter_length_mono {α : Type} (a : List α) (f g : α → Bool) (h : ∀ x ∈ a, f x = true → g x = true) :
    (a.filter f).length ≤ (a.filter g).length := by
  induction a with
  | nil => simp
  | cons x xs ih =>
    have ih' := ih (fun y hy => h y (List.mem_cons_of_mem _ hy))
    have hx := h x List.mem_cons_self
    simp only [List.filter_cons]
    cases hf : f x with
    | false =>
      simp only [Bool.false_eq_true, ↓reduceIte]
      split
      · simp only [List.length_cons]; omega
      · exact ih'
    | true =>
      rw [hx hf]
      simp only [↓reduceIte, List.length_cons]; omega

/-- a node that covers `l` answers 'present' for at least the query hashes that are in `l` -/
theorem matchCount_ge {sizes : List Nat} {n : INode} {l : Leaf} (hh : Holds sizes n l) (mins : List Nat) :
    interCount mins l.hashes ≤ (n.data sizes).matchCount mins := by
  unfold interCount NG.matchCount
  apply filter_length_mono
  intro x _ hx
  have hmem : x ∈ l.hashes := by simpa using hx
  exact hh.1 x hmem

theorem interCount_le (a b : List Nat) : interCount a b ≤ a.length := List.length_filter_le _ _

theorem interCount_nil (a : List Nat) : interCount a [] = 0 := by
  unfold interCount; simp

/-- the leaf as scored (downsampled to a coarser query's scaled, or as it is) is a sub-list of the stored leaf -/
theorem mem_leafView {q : Query} {l : Leaf} {x : Nat} (h : x ∈ leafView q l) : x ∈ l.hashes := by
  unfold leafView at h
  split at h
  · exact (List.mem_filter.mp h).1
  · exact h

theorem leafView_none {q : Query} (l : Leaf) (h : q.cut = none) : leafView q l = l.hashes := by
  unfold leafView; rw [h]

/-- a node that covers `l` answers 'present' for at least the query hashes that are in the scored view of `l` -/
theorem matchCount_ge_view {sizes : List Nat} {n : INode} {l : Leaf} (hh : Holds sizes n l) (q : Query) :
    interCount q.mins (leafView q l) ≤ (n.data sizes).matchCount q.mins := by
  unfold interCount NG.matchCount
  apply filter_length_mono
  intro x _ hx
  have hmem : x ∈ leafView q l := by simpa using hx
  exact hh.1 x (mem_leafView hmem)

/-- the size a node contributes is positive and at most the size of the scored view of a non-empty covered leaf:
`min_n_below ≤ |l|` for a query at the tree's scaled, 1 for a coarser query -/
theorem subjSize_le {q : Query} {l : Leaf} {m : Nat} (hle : m ≤ max 1 l.hashes.length) (hm0 : m ≠ 0)
    (hv : 1 ≤ (leafView q l).length) : subjSize q m ≠ 0 ∧ subjSize q m ≤ (leafView q l).length := by
  unfold subjSize
  cases hc : q.cut with
  | none =>
    rw [leafView_none l hc] at hv ⊢
    simp only [Option.isSome_none, Bool.false_eq_true, ↓reduceIte]
    exact ⟨hm0, by omega⟩
  | some mh =>
    simp only [Option.isSome_some, ↓reduceIte]
    exact ⟨by omega, hv⟩

/-- the arithmetic behind the pruning, for every score type (Jaccard, containment, max-containment) and for a
query at the tree's scaled or coarser: a node that covers a passing leaf, with a positive size bound, passes
the node test -/
theorem nodeOk_of_leafPasses {q : Query} {sizes : List Nat} {n : INode} {l : Leaf} {m : Nat}
    (hh : Holds sizes n l) (hm : n.minN = some m) (hm0 : m ≠ 0) (hp : leafPasses q l = true) :
    nodeOk q sizes n m = true := by
  have h1 := matchCount_ge_view hh q
  have h2 := interCount_le q.mins (leafView q l)
  obtain ⟨_, m', hm', hle⟩ := hh
  rw [hm] at hm'; cases hm'
  have hv1 : interCount q.mins (leafView q l) ≠ 0 → 1 ≤ (leafView q l).length := by
    intro h0
    cases hl : leafView q l with
    | nil => rw [hl, interCount_nil] at h0; exact absurd rfl h0
    | cons x xs => simp
  have hsub := fun hv => subjSize_le (q := q) hle hm0 hv
  unfold leafPasses passes at hp
  dsimp only at hp
  unfold nodeOk passes
  generalize interCount q.mins (leafView q l) = S at *
  generalize (n.data sizes).matchCount q.mins = N at *
  generalize (leafView q l).length = V at *
  generalize subjSize q m = J at *
  simp only [Bool.and_eq_true, ne_eq, decide_eq_true_eq, ge_iff_le] at hp ⊢
  obtain ⟨⟨hd0, hs0⟩, hthr⟩ := hp
  obtain ⟨hJ0, hJV⟩ := hsub (hv1 hs0)
  have hden : denomOf q J J ≠ 0 ∧ denomOf q J J ≤ denomOf q V (q.mins.length + V - S) := by
    unfold denomOf
    unfold denomOf at hd0
    cases q.maxc <;> cases q.containment <;>
      simp only [Bool.false_eq_true, ↓reduceIte] at hd0 ⊢ <;> omega
  have := Nat.mul_le_mul_left q.thr hden.2
  have := Nat.mul_le_mul_right 1000 h1
  exact ⟨⟨hden.1, by omega⟩, by omega⟩

/-- `x` is `p` or one of its ancestors -/
def OnPath (d x p : Nat) : Prop := x = p ∨ x ∈ ancestors d p

theorem OnPath.refl (d p : Nat) : OnPath d p p := Or.inl rfl

theorem OnPath.trans {d x y p : Nat} (h1 : OnPath d x y) (h2 : OnPath d y p) : OnPath d x p := by
  rcases h1 with rfl | h1
  · exact h2
  · rcases h2 with rfl | h2
    · exact Or.inr h1
    · exact Or.inr (ancestors_trans h2 h1)

theorem OnPath.le {d x y : Nat} (h : OnPath d x y) : x ≤ y := by
  rcases h with rfl | h
  · exact Nat.le_refl _
  · exact Nat.le_of_lt (mem_ancestors_lt h)

/-- the root is above everything -/
theorem onPath_zero (d : Nat) : ∀ p, OnPath d 0 p := by
  intro p
  induction p using Nat.strongRecOn with
  | _ p ih =>
    by_cases hp : p = 0
    · subst hp; exact OnPath.refl _ _
    · have hp' : 0 < p := Nat.pos_of_ne_zero hp
      right
      rw [mem_ancestors_iff hp']
      rcases ih _ (parent_lt (d := d) hp') with h | h
      · exact Or.inl h
      · exact Or.inr h

/-- `p` is on the way to `p0` and nothing from `p` down to `p0` has been visited -/
def Head (d p0 : Nat) (visited : List Nat) (p : Nat) : Prop :=
  OnPath d p p0 ∧ ∀ y, OnPath d y p0 → OnPath d p y → y ∉ visited

/-- some queued position is on the way to `p0` with nothing visited from there down -/
def Pend (d p0 : Nat) (visited queue : List Nat) : Prop := ∃ x ∈ queue, Head d p0 visited x

theorem Head.not_visited {d p0 p : Nat} {visited : List Nat} (h : Head d p0 visited p) : p ∉ visited :=
  h.2 p h.1 (OnPath.refl _ _)

theorem pend_cons {d p0 p : Nat} {visited queue : List Nat} (h : Pend d p0 visited (p :: queue)) :
    Head d p0 visited p ∨ (¬ Head d p0 visited p ∧ Pend d p0 (p :: visited) queue) := by
  by_cases hA : Head d p0 visited p
  · exact Or.inl hA
  · right
    refine ⟨hA, ?_⟩
    obtain ⟨x, hx, hxp, hxv⟩ := h
    rcases List.mem_cons.mp hx with rfl | hx
    · exact absurd ⟨hxp, hxv⟩ hA
    · refine ⟨x, hx, hxp, ?_⟩
      intro y hy hxy hmem
      rcases List.mem_cons.mp hmem with rfl | hmem
      · exact hA ⟨hy, fun z hz hyz => hxv z hz (hxy.trans hyz)⟩
      · exact hxv y hy hxy hmem

theorem Pend.drop {d p0 p : Nat} {visited queue : List Nat} (h : Pend d p0 (p :: visited) queue) :
    Pend d p0 visited queue := by
  obtain ⟨x, hx, hxp, hxv⟩ := h
  exact ⟨x, hx, hxp, fun y hy hxy hmem => hxv y hy hxy (List.mem_cons_of_mem _ hmem)⟩

theorem Pend.append {d p0 : Nat} {visited queue : List Nat} (pre : List Nat) (h : Pend d p0 visited queue) :
    Pend d p0 visited (pre ++ queue) := by
  obtain ⟨x, hx, hh⟩ := h
  exact ⟨x, List.mem_append_right _ hx, hh⟩

theorem visit_none {fixed keep : Bool} {t : Tree} {p : Nat} (h : visit fixed keep t p = .ok none) :
    t.nodes.get? p = none ∧ t.missing.contains p = false := by
  unfold visit at h
  split at h
  · cases h
  · split at h
    · cases h
    · rename_i hn
      split at h
      · split at h <;> cases h
      · rename_i hm
        exact ⟨hn, by simpa using hm⟩

/-- the loop invariant of the search for one passing stored leaf `l` at `p0`: it is already in `acc`, or some
queued position leads to it through unvisited positions -/
theorem findLoop_complete {fixed keep : Bool} (q : Query) {d p0 : Nat} {l : Leaf} (hpass : leafPasses q l = true) :
    ∀ (fuel : Nat) (t : Tree) (visited queue : List Nat) (acc ls : List Leaf),
    Good keep t → MinPos t → (fixed = true ∨ AllPresent t) → t.d = d → t.leaves.get? p0 = some l →
    (findLoop fixed keep q fuel t visited queue acc).2 = .ok ls →
    (l ∈ acc ∨ Pend d p0 visited queue) → l ∈ ls := by
  intro fuel
  induction fuel with
  | zero => intro t visited queue acc ls _ _ _ _ _ h; rw [findLoop_zero] at h; cases h
  | succ fuel ih =>
    intro t visited queue acc ls hg hmp hfm hd hl h hpend
    cases queue with
    | nil =>
      rw [findLoop_nil] at h; cases h
      rcases hpend with hp | ⟨x, hx, _⟩
      · exact hp
      · cases hx
    | cons p queue =>
      -- normal form of the hypothesis on the queue
      have hpend' : l ∈ acc ∨ Head d p0 visited p ∨ (¬ Head d p0 visited p ∧ Pend d p0 (p :: visited) queue) :=
        hpend.imp_right pend_cons
      have hd0 : 0 < d := by have := hg.base.d2; omega
      rw [findLoop_cons] at h
      split at h
      · -- a leaf position
        rename_i l0 hl0
        split at h
        · rename_i hvis
          refine ih _ _ _ _ _ hg hmp hfm hd hl h ?_
          rcases hpend' with ha | hA | ⟨_, hB⟩
          · exact Or.inl ha
          · exact absurd (by simpa using hvis) hA.not_visited
          · exact Or.inr hB.drop
        · refine ih _ _ _ _ _ hg hmp hfm hd hl h ?_
          rcases hpend' with ha | hA | ⟨_, hB⟩
          · left; split
            · exact List.mem_append_left _ ha
            · exact ha
          · left
            rcases hA.1 with rfl | hanc
            · rw [hl] at hl0; cases hl0
              rw [if_pos hpass]; simp
            · have := (hg.cover p0 l hl p (by rw [hd]; exact hanc)).1
              rw [this] at hl0; cases hl0
          · exact Or.inr hB
      · -- an internal position
        rename_i hl0
        split at h
        · cases h
        · rename_i hv
          refine ih _ _ _ _ _ hg hmp hfm hd hl h ?_
          rcases hpend' with ha | hA | ⟨_, hB⟩
          · exact Or.inl ha
          · exfalso
            obtain ⟨hn, hm⟩ := visit_none hv
            rcases hA.1 with rfl | hanc
            · rw [hl] at hl0; cases hl0
            · have := (hg.cover p0 l hl p (by rw [hd]; exact hanc)).2
              rw [hn] at this
              have hc : t.missing.contains p = true := by simpa using this
              rw [hc] at hm; cases hm
          · exact Or.inr hB.drop
        · rename_i t' hv
          have hs : Step keep t t' := visit_step hfm hv
          have hg' := hs.good hg
          have hmp' := hs.minpos hmp
          have hfm' : fixed = true ∨ AllPresent t' := hs.hfm hfm
          have hd' : t'.d = d := hs.frame.d.trans hd
          have hl' : t'.leaves.get? p0 = some l := by rw [hs.frame.leaves]; exact hl
          split at h
          · rename_i hvis
            refine ih _ _ _ _ _ hg' hmp' hfm' hd' hl' h ?_
            rcases hpend' with ha | hA | ⟨_, hB⟩
            · exact Or.inl ha
            · exact absurd (by simpa using hvis) hA.not_visited
            · exact Or.inr hB.drop
          · split at h
            · cases h
            · rename_i n hn
              split at h
              · cases h
              · rename_i m hm
                have hu : Step keep t' (t'.modNode p (INode.unloadV keep)) := step_unload t' p
                refine ih _ _ _ _ _ (hu.good hg') (hu.minpos hmp') (hu.hfm hfm')
                  (hu.frame.d.trans hd') (by rw [hu.frame.leaves]; exact hl') h ?_
                rcases hpend' with ha | hA | ⟨_, hB⟩
                · exact Or.inl ha
                · right
                  rcases hA.1 with rfl | hanc
                  · rw [hl] at hl0; cases hl0
                  · have hhold := (hg'.cover p0 l hl' p (by rw [hd']; exact hanc)).2
                    rw [hn] at hhold
                    have hok : nodeOk q t'.sizes n m = true :=
                      nodeOk_of_leafPasses hhold hm (fun h0 => hmp' p n hn (by rw [hm, h0])) hpass
                    rw [if_pos hok, hd']
                    obtain ⟨i, hi, hc⟩ := below_cases hd0 hanc
                    refine ⟨child d p i, ?_, ?_, ?_⟩
                    · apply List.mem_append_left
                      rw [List.mem_reverse, List.mem_map]
                      exact ⟨i, List.mem_range.mpr hi, rfl⟩
                    · rcases hc with hc | hc
                      · exact Or.inl hc.symm
                      · exact Or.inr hc
                    · intro y hy hcy hmem
                      have hpc : OnPath d p (child d p i) := by
                        right; rw [ancestors_child hi]; exact List.mem_cons_self
                      rcases List.mem_cons.mp hmem with rfl | hmem
                      · have h1 := hcy.le
                        have h2 := child_gt d y i (by omega)
                        omega
                      · exact hA.2 y hy (hpc.trans hcy) hmem
                · right
                  split
                  · exact hB.append _
                  · exact hB

/-- **T2, completeness**, general form: on a covered tree (clean, for the older `unload`) whose nodes record a
positive `min_n_below`, a search that returns (does not raise) reports every stored leaf that passes the leaf
test; with the repaired `_rebuild_node` also when internal nodes are missing -/
theorem search_complete_gen {fixed keep : Bool} {t : Tree} (q : Query) (hb : Base t) (hc : Cover t) (hcl : CleanV keep t)
    (hmp : MinPos t) (hfm : fixed = true ∨ AllPresent t) {ls : List Leaf} (hres : (search fixed keep t q).2 = .ok ls)
    {p : Nat} {l : Leaf} (hl : t.leaves.get? p = some l) (hp : leafPasses q l = true) : l ∈ ls := by
  refine findLoop_complete (fixed := fixed) (keep := keep) q hp t.findFuel t [] [0] [] ls ⟨hb, hc, hcl⟩ hmp hfm rfl hl hres ?_
  right
  exact ⟨0, List.mem_cons_self, onPath_zero _ _, fun _ _ _ h => by cases h⟩

/-- an insertion-shaped tree has a node at every position its `_missing_nodes` still lists -/
theorem Shape.allPresent {t : Tree} {m M : Nat} (hs : Shape t m M) : AllPresent t :=
  fun a ha => (hs.nodes a).mpr (hs.missing a ha)

/-- **T2, completeness** for insertion-shaped trees.  Added hypothesis: `MinPos t` (`Holds` bounds `min_n_below`
from above only; a node recording 0 fails the Jaccard node test `shared / 0` and prunes everything below it,
see `search_incomplete_minN_zero`).  No `Nodup` hypothesis is needed. -/
theorem search_complete {fixed keep : Bool} {t : Tree} {m M : Nat} (q : Query) (hb : Base t) (hc : Cover t)
    (hcl : CleanV keep t) (hs : Shape t m M) (hmp : MinPos t) {ls : List Leaf} (hres : (search fixed keep t q).2 = .ok ls)
    {p : Nat} {l : Leaf} (hl : t.leaves.get? p = some l) (hp : leafPasses q l = true) : l ∈ ls :=
  search_complete_gen q hb hc hcl hmp (Or.inr hs.allPresent) hres hl hp

end Sm.SBT
