/-
Helper lemmas for C03 (downsampling = sketching at the coarser resolution).

This file is the entry point; the material is split over
* `Float64Nat`     : ℕ-level facts about the binary64 model: `shiftRNE` is within half a
                     unit (`shiftRNE_core`), `divNat` in normal form (`divNat_nat`), exactness
                     of `ofNat` below `2^53` (`ofNat_small`)
* `Float64Lemmas`  : the value `F.val : F → ℚ`; `divNat_spec` / `div_spec` / `ofNat_spec`
                     (normalised mantissa, relative error ≤ 2^-53), `ofNat_exact`,
                     `floor_spec`, `roundHalfEven_spec`, `roundHalfAway_spec`
* `ScaledNum`      : `mhR_antitone`, `mhR_pos`, `scP_mhR`, `scR_mhR`, `scP_mhP`, `scR_ne_zero`
* `Downsample`     : `downsample_count'`, `downsample_eq_direct'`, `downsample_compose'`
-/
import SmVerif.Lemmas.Downsample
