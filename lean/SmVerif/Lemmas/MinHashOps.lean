/-
The invariant through the remaining entry points: FFI glue (`ffiSetAbundances`,
`ffiIntersection`), `downsampleScaled`, `inflate`, and the Python layer; and
through every history of API-level operations (`inv_foldl_step`).
-/
import SmVerif.Lemmas.MinHashNum

namespace Sm

open MH

/-! ### the only facts about the scaled <-> max_hash conversions that are used:
`0` (= "no threshold") is mapped to `0` -/

theorem mhR_zero : mhR 0 = 0 := rfl
theorem scR_zero : scR 0 = 0 := rfl
theorem scP_zero : scP 0 = 0 := by simp [scP]

/-! ### `Inv` only looks at `mins`, `abunds`, `maxHash`, `num` -/

theorem Inv.congr {s t : MH} (hs : Inv s) (h1 : t.mins = s.mins) (h2 : t.abunds = s.abunds)
    (h3 : t.maxHash = s.maxHash) (h4 : t.num = s.num) : Inv t := by
  refine ⟨?_, ?_, ?_, ?_, ?_⟩
  · rw [h1]; exact hs.sorted
  · rw [h1, h2]; exact hs.aligned
  · rw [h2]; exact hs.positive
  · rw [h1, h3]; exact hs.bounded
  · rw [h1, h4]; exact hs.capped

theorem md5sum_fields (s : MH) :
    s.md5sum.1.mins = s.mins ∧ s.md5sum.1.abunds = s.abunds ∧
    s.md5sum.1.maxHash = s.maxHash ∧ s.md5sum.1.num = s.num := by
  unfold MH.md5sum; split <;> simp

theorem inv_md5sum {s : MH} (hs : Inv s) : Inv s.md5sum.1 :=
  have h := md5sum_fields s
  hs.congr h.1 h.2.1 h.2.2.1 h.2.2.2

theorem clone_fields (s : MH) :
    (s.clone.1.mins = s.mins ∧ s.clone.1.abunds = s.abunds ∧
      s.clone.1.maxHash = s.maxHash ∧ s.clone.1.num = s.num) ∧
    (s.clone.2.mins = s.mins ∧ s.clone.2.abunds = s.abunds ∧
      s.clone.2.maxHash = s.maxHash ∧ s.clone.2.num = s.num) := by
  have h := md5sum_fields s
  unfold MH.clone
  exact ⟨h, h⟩

theorem inv_clone {s : MH} (hs : Inv s) : Inv s.clone.1 ∧ Inv s.clone.2 :=
  have h := clone_fields s
  ⟨hs.congr h.1.1 h.1.2.1 h.1.2.2.1 h.1.2.2.2, hs.congr h.2.1 h.2.2.1 h.2.2.2.1 h.2.2.2.2⟩

theorem Excl.clone {s : MH} (hx : Excl s) : Excl s.clone.1 ∧ Excl s.clone.2 := by
  have h := clone_fields s
  unfold Excl at *
  rw [h.1.2.2.1, h.1.2.2.2, h.2.2.2.1, h.2.2.2.2]
  exact ⟨hx, hx⟩

/-! ### FFI glue -/

theorem Excl.new {sc k hf seed : Nat} {tr : Bool} {n : Nat} (h : sc = 0 ∨ n = 0) :
    Excl (MH.new sc k hf seed tr n) := by
  rcases h with rfl | rfl
  · exact Or.inr mhR_zero
  · exact Or.inl rfl

theorem inv_ffiSetAbundances {s : MH} (hs : Inv s) (hx : Excl s) (ps : List (Nat × Nat))
    (c : Bool) : Inv (s.ffiSetAbundances ps c) := by
  unfold MH.ffiSetAbundances
  cases c
  · exact inv_addManyAb hs hx _
  · exact inv_addManyAb (inv_clear hs) hx.clear _

theorem Excl.ffiSetAbundances {s : MH} (hx : Excl s) (ps : List (Nat × Nat)) (c : Bool) :
    Excl (s.ffiSetAbundances ps c) := by
  unfold MH.ffiSetAbundances
  cases c
  · exact hx.addManyAb _
  · exact hx.clear.addManyAb _

theorem inv_downsampleScaled {s r : MH} (hs : Inv s) (hx : Excl s) {sc : Nat}
    (hr : s.downsampleScaled sc = .ok r) : Inv r := by
  unfold MH.downsampleScaled at hr
  split at hr
  · cases hr; exact hs
  · rename_i h1
    split at hr
    · cases hr
    · cases hr
      have hn : s.num = 0 := by
        rcases hx with hx | hx
        · exact hx
        · exfalso; apply h1; right
          unfold MH.scaled; rw [hx]; exact scR_zero
      have hxn : Excl (MH.new sc s.ksize s.hf s.seed s.abunds.isSome s.num) := Excl.new (Or.inr hn)
      split
      · exact inv_addManyAb (inv_new ..) hxn _
      · exact inv_addMany (inv_new ..) hxn _

theorem inv_ffiIntersection {s o s' r : MH} (hs : Inv s) (hx : Excl s)
    (hr : s.ffiIntersection o = .ok (s', r)) : Inv s' ∧ Inv r := by
  unfold MH.ffiIntersection at hr
  cases hi : s.intersection o with
  | error e => simp [hi, bind, Except.bind] at hr
  | ok v =>
    obtain ⟨c, n⟩ := v
    simp only [hi, bind, Except.bind, pure, Except.pure, Except.ok.injEq, Prod.mk.injEq] at hr
    obtain ⟨rfl, rfl⟩ := hr
    exact ⟨(inv_clone hs).1, inv_addMany (inv_clear (inv_clone hs).2) (hx.clone.2).clear _⟩

/-- Rust `inflate` -/
theorem inv_inflate {s o r : MH} (hs : Inv s) (ho : Inv o) (hr : s.inflate o = .ok r) : Inv r := by
  unfold MH.inflate at hr
  rcases checkCompatible_cases s o with ⟨e, he⟩ | ⟨hok, _⟩
  · rw [he] at hr
    simp [bind, Except.bind] at hr
  · rw [hok] at hr
    simp only [bind, Except.bind] at hr
    cases hab : o.abunds with
    | none => simp [hab] at hr
    | some ab =>
      simp only [hab, pure, Except.pure, Except.ok.injEq] at hr
      subst hr
      have hsub := inflateJoin_keys_sublist s.mins (o.mins.zip ab)
      refine ⟨hs.sorted.sublist hsub, ?_, ?_, ?_, ?_⟩
      · intro ab' hab'
        cases hab'
        simp
      · intro ab' hab'
        cases hab'
        intro a ha
        obtain ⟨q, hq, rfl⟩ := List.mem_map.1 ha
        have := inflateJoin_subset _ _ q hq
        exact ho.positive ab hab q.2 (List.of_mem_zip this).2
      · intro hM x hx
        exact hs.bounded hM x (hsub.subset hx)
      · intro hn
        have := hs.capped hn
        have := hsub.length_le
        simp only at *
        omega

/-! ### Python layer -/

theorem mkMinHash_ok {n k hf seed : Nat} {tr : Bool} {mh sc : Nat} {r : MH}
    (h : Py.mkMinHash n k hf seed tr mh sc = .ok r) :
    ∃ sc', r = MH.new sc' k hf seed tr n ∧ (sc' = 0 ∨ n = 0) := by
  unfold Py.mkMinHash at h
  by_cases c1 : mh ≠ 0 ∧ sc ≠ 0
  · rw [if_pos c1] at h; cases h
  · rw [if_neg c1] at h
    simp only at h
    generalize (if mh ≠ 0 then scP mh else sc) = sc' at h
    by_cases c2 : sc' ≠ 0 ∧ n ≠ 0
    · rw [if_pos c2] at h; cases h
    · rw [if_neg c2] at h
      by_cases c3 : n = 0 ∧ sc' = 0
      · rw [if_pos c3] at h; cases h
      · rw [if_neg c3] at h
        cases h
        exact ⟨sc', rfl, by omega⟩

theorem inv_mkMinHash {n k hf seed : Nat} {tr : Bool} {mh sc : Nat} {r : MH}
    (h : Py.mkMinHash n k hf seed tr mh sc = .ok r) : Inv r ∧ Excl r := by
  obtain ⟨sc', rfl, hx⟩ := mkMinHash_ok h
  exact ⟨inv_new .., Excl.new hx⟩

theorem mkMinHash_frame {n k hf seed : Nat} {tr : Bool} {mh sc : Nat} {r : MH}
    (h : Py.mkMinHash n k hf seed tr mh sc = .ok r) :
    r.num = n ∧ r.ksize = k ∧ r.hf = hf ∧ r.seed = seed ∧ r.trackAbundance = tr ∧ r.mins = [] := by
  obtain ⟨sc', rfl, _⟩ := mkMinHash_ok h
  refine ⟨rfl, rfl, rfl, rfl, ?_, rfl⟩
  cases tr <;> rfl

theorem inv_pySetAbundances {s r : MH} (hs : Inv s) (hx : Excl s) {ps : List (Nat × Nat)}
    {c : Bool} (hr : Py.setAbundances s ps c = .ok r) : Inv r := by
  unfold Py.setAbundances at hr
  split at hr
  · cases hr; exact inv_ffiSetAbundances hs hx ps c
  · cases hr

theorem Excl.pySetAbundances {s r : MH} (hx : Excl s) {ps : List (Nat × Nat)}
    {c : Bool} (hr : Py.setAbundances s ps c = .ok r) : Excl r := by
  unfold Py.setAbundances at hr
  split at hr
  · cases hr; exact hx.ffiSetAbundances ps c
  · cases hr

theorem inv_pyAddHashWithAbundance {s r : MH} (hs : Inv s) (hx : Excl s) {h a : Nat}
    (hr : Py.addHashWithAbundance s h a = .ok r) : Inv r := by
  unfold Py.addHashWithAbundance at hr
  split at hr
  · cases hr; exact inv_addHashAb hs hx h a
  · cases hr

theorem Excl.pyAddHashWithAbundance {s r : MH} (hx : Excl s) {h a : Nat}
    (hr : Py.addHashWithAbundance s h a = .ok r) : Excl r := by
  unfold Py.addHashWithAbundance at hr
  split at hr
  · cases hr; exact hx.addHashAb h a
  · cases hr

theorem invx_setState (num ksize hf seed : Nat) (track : Bool) (maxHash : Nat)
    (hashes : List (Nat × Nat)) (hx : num = 0 ∨ maxHash = 0) :
    Inv (Py.setState num ksize hf seed track maxHash hashes) ∧
    Excl (Py.setState num ksize hf seed track maxHash hashes) := by
  have hxn : Excl (MH.new (scP maxHash) ksize hf seed track num) := by
    rcases hx with rfl | rfl
    · exact Excl.new (Or.inr rfl)
    · exact Excl.new (Or.inl scP_zero)
  unfold Py.setState
  simp only
  split
  · exact ⟨inv_ffiSetAbundances (inv_new ..) hxn _ _, hxn.ffiSetAbundances _ _⟩
  · exact ⟨inv_addMany (inv_new ..) hxn _, hxn.addMany _⟩

theorem inv_pickleRoundTrip {s : MH} (hx : Excl s) : Inv (Py.pickleRoundTrip s) :=
  (invx_setState _ _ _ _ _ _ _ hx).1

theorem Excl.pickleRoundTrip {s : MH} (hx : Excl s) : Excl (Py.pickleRoundTrip s) :=
  (invx_setState _ _ _ _ _ _ _ hx).2

theorem invx_pyDownsampleWith {s r : MH} {n mh : Nat} (hr : Py.downsampleWith s n mh = .ok r) :
    Inv r ∧ Excl r := by
  unfold Py.downsampleWith at hr
  split at hr
  · cases hr
  · rename_i a ha
    obtain ⟨hia, hxa⟩ := inv_mkMinHash ha
    split at hr
    · exact ⟨inv_pySetAbundances hia hxa hr, hxa.pySetAbundances hr⟩
    · cases hr
      exact ⟨inv_addFrom hia hxa s, hxa.addFrom s⟩

theorem inv_pyDownsampleWith {s r : MH} {n mh : Nat} (hr : Py.downsampleWith s n mh = .ok r) :
    Inv r := (invx_pyDownsampleWith hr).1

theorem invx_pyDownsample {s r : MH} {n sc : Option Nat} (hr : Py.downsample s n sc = .ok r) :
    Inv r ∧ Excl r := by
  unfold Py.downsample at hr
  split at hr
  · cases hr
  · exact invx_pyDownsampleWith hr

theorem inv_pyDownsample {s r : MH} (_hs : Inv s) {n sc : Option Nat}
    (hr : Py.downsample s n sc = .ok r) : Inv r := (invx_pyDownsample hr).1

theorem invx_pyCopy {s r : MH} (hs : Inv s) (hr : Py.copy s = .ok r) : Inv r ∧ Excl r := by
  unfold Py.copy at hr
  cases ha : Py.mkMinHash s.num s.ksize s.hf s.seed s.trackAbundance s.maxHash 0 with
  | error e => simp [ha, bind, Except.bind] at hr
  | ok a =>
    simp only [ha, bind, Except.bind] at hr
    obtain ⟨hia, hxa⟩ := inv_mkMinHash ha
    refine ⟨inv_merge hia hs hr, ?_⟩
    have hf := merge_frame hr
    unfold Excl at *
    rw [hf.1, hf.2.1]; exact hxa

theorem inv_pyCopy {s r : MH} (hs : Inv s) (hr : Py.copy s = .ok r) : Inv r := (invx_pyCopy hs hr).1

theorem invx_pyFlatten {s r : MH} (hr : Py.flatten s = .ok (some r)) : Inv r ∧ Excl r := by
  unfold Py.flatten at hr
  split at hr
  · cases ha : Py.mkMinHash s.num s.ksize s.hf s.seed false s.maxHash 0 with
    | error e => simp [ha, bind, Except.bind] at hr
    | ok a =>
      simp only [ha, bind, Except.bind, pure, Except.pure, Except.ok.injEq, Option.some.injEq] at hr
      subst hr
      obtain ⟨hia, hxa⟩ := inv_mkMinHash ha
      exact ⟨inv_addFrom hia hxa s, hxa.addFrom s⟩
  · simp [pure, Except.pure] at hr

theorem inv_pyFlatten {s r : MH} (hr : Py.flatten s = .ok (some r)) : Inv r := (invx_pyFlatten hr).1

theorem invx_pyAdd {s o r : MH} (hs : Inv s) (ho : Inv o) (hr : Py.add s o = .ok r) :
    Inv r ∧ Excl r := by
  unfold Py.add at hr
  split at hr
  · cases hr
  · cases hc : Py.copy s with
    | error e => simp [hc, bind, Except.bind] at hr
    | ok n =>
      simp only [hc, bind, Except.bind] at hr
      obtain ⟨hin, hxn⟩ := invx_pyCopy hs hc
      refine ⟨inv_merge hin ho hr, ?_⟩
      have hf := merge_frame hr
      unfold Excl at *
      rw [hf.1, hf.2.1]; exact hxn

theorem inv_pyAdd {s o r : MH} (hs : Inv s) (ho : Inv o) (hr : Py.add s o = .ok r) : Inv r :=
  (invx_pyAdd hs ho hr).1

theorem inv_pyIntersection {s o s' r : MH} (hs : Inv s) (hx : Excl s)
    (hr : Py.intersection s o = .ok (s', r)) : Inv s' ∧ Inv r := by
  unfold Py.intersection at hr
  split at hr
  · cases hr
  · exact inv_ffiIntersection hs hx hr

/-- Python `inflate` -/
theorem invx_pyInflate {s o r : MH} (hr : Py.inflate s o = .ok r) : Inv r ∧ Excl r := by
  unfold Py.inflate at hr
  split at hr
  · cases ha : Py.copyAndClear o with
    | error e => simp [ha, bind, Except.bind] at hr
    | ok am =>
      simp only [ha, bind, Except.bind] at hr
      split at hr
      · cases hr
      · rename_i am' hd
        obtain ⟨hia, hxa⟩ := invx_pyDownsample hd
        exact ⟨inv_pySetAbundances hia hxa hr, hxa.pySetAbundances hr⟩
  · cases hr

theorem inv_pyInflate {s o r : MH} (hr : Py.inflate s o = .ok r) : Inv r := (invx_pyInflate hr).1

end Sm

/-! ### every history of API-level operations -/

namespace Sm.C01

open Sm MH

/-- one API-level operation on a sketch (the Python surface that C01 quantifies over) -/
inductive Op where
  | add (h : Nat)
  | addAb (h a : Nat)
  | addMany (hs : List Nat)
  | addFrom (o : MH)
  | removeMany (hs : List Nat)
  | removeFrom (o : MH)
  | setAbundances (ps : List (Nat × Nat)) (clear : Bool)
  | clear
  | merge (o : MH)
  | copy
  | pickle

/-- `step s op`: the sketch after the operation (unchanged when the operation is refused) -/
def step (s : MH) : Op → MH
  | .add h => s.addHash h
  | .addAb h a => (Py.addHashWithAbundance s h a).toOption.getD s
  | .addMany hs => s.addMany hs
  | .addFrom o => s.addFrom o
  | .removeMany hs => s.removeMany hs
  | .removeFrom o => s.removeFrom o
  | .setAbundances ps c => (Py.setAbundances s ps c).toOption.getD s
  | .clear => s.clear
  | .merge o => (s.merge o).toOption.getD s
  | .copy => (Py.copy s).toOption.getD s
  | .pickle => Py.pickleRoundTrip s

/-- operands of binary operations must themselves be valid sketches -/
def Op.Ok : Op → Prop
  | .merge o => Inv o
  | _ => True

end Sm.C01

namespace Sm

open MH C01

theorem getD_toOption {α ε} {P : α → Prop} (e : Except ε α) (d : α) (hd : P d)
    (hok : ∀ r, e = .ok r → P r) : P (e.toOption.getD d) := by
  cases e with
  | error _ => exact hd
  | ok r => exact hok r rfl

theorem invx_step {s : MH} (hs : Inv s) (hx : Excl s) (op : Op) (hop : op.Ok) :
    Inv (step s op) ∧ Excl (step s op) := by
  cases op with
  | add h => exact ⟨inv_addHash hs hx h, hx.addHash h⟩
  | addAb h a =>
    exact getD_toOption (P := fun r => Inv r ∧ Excl r) _ _ ⟨hs, hx⟩
      (fun r hr => ⟨inv_pyAddHashWithAbundance hs hx hr, hx.pyAddHashWithAbundance hr⟩)
  | addMany l => exact invx_addMany hs hx l
  | addFrom o => exact ⟨inv_addFrom hs hx o, hx.addFrom o⟩
  | removeMany l => exact ⟨inv_removeMany hs l, hx.removeMany l⟩
  | removeFrom o => exact ⟨inv_removeFrom hs o, hx.removeFrom o⟩
  | setAbundances ps c =>
    exact getD_toOption (P := fun r => Inv r ∧ Excl r) _ _ ⟨hs, hx⟩
      (fun r hr => ⟨inv_pySetAbundances hs hx hr, hx.pySetAbundances hr⟩)
  | clear => exact ⟨inv_clear hs, hx.clear⟩
  | merge o =>
    refine getD_toOption (P := fun r => Inv r ∧ Excl r) _ _ ⟨hs, hx⟩ (fun r hr => ⟨inv_merge hs hop hr, ?_⟩)
    have hf := merge_frame hr
    unfold Excl at *
    rw [hf.1, hf.2.1]; exact hx
  | copy =>
    exact getD_toOption (P := fun r => Inv r ∧ Excl r) _ _ ⟨hs, hx⟩ (fun r hr => invx_pyCopy hs hr)
  | pickle => exact ⟨inv_pickleRoundTrip hx, hx.pickleRoundTrip⟩

/-- the invariant holds after every history of operations, for a sketch that is
not simultaneously a num and a scaled sketch -/
theorem invx_foldl_step (s : MH) (hs : Inv s) (hx : Excl s) (ops : List Op)
    (hops : ∀ op ∈ ops, op.Ok) : Inv (ops.foldl step s) ∧ Excl (ops.foldl step s) := by
  induction ops generalizing s with
  | nil => exact ⟨hs, hx⟩
  | cons op ops ih =>
    have h1 := invx_step hs hx op (hops op (by simp))
    exact ih _ h1.1 h1.2 (fun o ho => hops o (List.mem_cons_of_mem _ ho))

theorem inv_foldl_step (s : MH) (hs : Inv s) (hx : Excl s) (ops : List Op)
    (hops : ∀ op ∈ ops, op.Ok) : Inv (ops.foldl step s) :=
  (invx_foldl_step s hs hx ops hops).1

end Sm
