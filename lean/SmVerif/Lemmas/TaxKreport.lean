/-
C19 helper lemmas, part 10: the number-formatting writers.  `fmul` error bounds, `floor`, `'%.kf'`, and
kreport's `int(f_weighted * total_bp)` against the exact weighted base pairs of a lineage.
-/
import SmVerif.Lemmas.TaxFloatOrder
import SmVerif.Lemmas.Float64Nat

namespace Sm.Tax

open Sm.F64

set_option linter.unusedSectionVars false
set_option linter.unusedSimpArgs false
variable {ν : Type} [DecidableEq ν]

/-- integers below `2^53` convert to doubles exactly -/
theorem ofNat_toQ (n : Nat) (h : n < 2 ^ 53) : (ofNat n).toQ = (n : ℚ) := by
  by_cases h0 : n = 0
  · subst h0; simp [ofNat, divNat, F.toQ]
  · rw [ofNat_small n (Nat.pos_of_ne_zero h0) h]
    unfold F.toQ
    have hla : Nat.log2 n ≤ 52 := by
      have : Nat.log2 n < 53 := (Nat.log2_lt h0).2 h
      omega
    have h2 : (2 : ℚ) ≠ 0 := by norm_num
    simp only
    push_cast
    rw [mul_assoc, ← zpow_natCast, ← zpow_add₀ h2]
    have : ((52 - Nat.log2 n : Nat) : ℤ) + ((Nat.log2 n : ℤ) - 52) = 0 := by omega
    rw [this]; simp

theorem fmul_le (x y : F) : (fmul x y).toQ ≤ x.toQ * y.toQ * (1 + u) := by
  unfold fmul
  have h := roundNat_le (x.m * y.m) (x.e + y.e)
  have h2 : (2 : ℚ) ≠ 0 := by norm_num
  have e : ((x.m * y.m : Nat) : ℚ) * 2 ^ (x.e + y.e) = x.toQ * y.toQ := by
    unfold F.toQ; rw [zpow_add₀ h2]; push_cast; ring
  rw [e] at h; exact h

theorem fmul_ge (x y : F) : x.toQ * y.toQ * (1 - u) ≤ (fmul x y).toQ := by
  unfold fmul
  have h := roundNat_ge (x.m * y.m) (x.e + y.e)
  have h2 : (2 : ℚ) ≠ 0 := by norm_num
  have e : ((x.m * y.m : Nat) : ℚ) * 2 ^ (x.e + y.e) = x.toQ * y.toQ := by
    unfold F.toQ; rw [zpow_add₀ h2]; push_cast; ring
  rw [e] at h; exact h

/-- `int(x)` of a non-negative double is the integer part of its value -/
theorem floor_spec (x : F) : (floor x : ℚ) ≤ x.toQ ∧ x.toQ < (floor x : ℚ) + 1 := by
  unfold floor F.toQ
  by_cases he : x.e ≥ 0
  · simp only [he, if_true]
    obtain ⟨k, hk⟩ : ∃ k : Nat, x.e = (k : ℤ) := ⟨x.e.toNat, (Int.toNat_of_nonneg he).symm⟩
    rw [hk]; simp only [Int.toNat_natCast, zpow_natCast]
    push_cast
    constructor <;> linarith
  · simp only [he, if_false]
    obtain ⟨k, hk⟩ : ∃ k : Nat, -x.e = (k : ℤ) := ⟨(-x.e).toNat, (Int.toNat_of_nonneg (by omega)).symm⟩
    have hxe : x.e = -(k : ℤ) := by omega
    rw [hk]; simp only [Int.toNat_natCast]
    rw [hxe, zpow_neg, zpow_natCast]
    have hp : (0 : ℚ) < 2 ^ k := by positivity
    have hdm := Nat.div_add_mod x.m (2 ^ k)
    have hml : x.m % 2 ^ k < 2 ^ k := Nat.mod_lt _ (by positivity)
    have hq : ((x.m : ℚ)) = (2 : ℚ) ^ k * ((x.m / 2 ^ k : Nat) : ℚ) + ((x.m % 2 ^ k : Nat) : ℚ) := by
      have : ((2 ^ k * (x.m / 2 ^ k) + x.m % 2 ^ k : Nat) : ℚ) = (x.m : ℚ) := by rw [hdm]
      push_cast at this; linarith
    have hr0 : (0 : ℚ) ≤ ((x.m % 2 ^ k : Nat) : ℚ) := Nat.cast_nonneg _
    have hr1 : ((x.m % 2 ^ k : Nat) : ℚ) < (2 : ℚ) ^ k := by exact_mod_cast hml
    constructor
    · rw [le_mul_inv_iff₀ hp]; nlinarith
    · rw [mul_inv_lt_iff₀ hp]; nlinarith

/-- `'%.kf'` prints the decimal nearest to the exact binary value: `|h − x·10^k| ≤ 1/2` -/
theorem fmtDec_nearest (x : F) (k : Nat) :
    (fmtDec x k : ℚ) - 1 / 2 ≤ x.toQ * 10 ^ k ∧ x.toQ * 10 ^ k ≤ (fmtDec x k : ℚ) + 1 / 2 := by
  unfold fmtDec F.toQ
  by_cases he : x.e ≥ 0
  · simp only [he, if_true]
    obtain ⟨j, hj⟩ : ∃ j : Nat, x.e = (j : ℤ) := ⟨x.e.toNat, (Int.toNat_of_nonneg he).symm⟩
    rw [hj]; simp only [Int.toNat_natCast, zpow_natCast]
    push_cast
    constructor <;> linarith
  · simp only [he, if_false]
    obtain ⟨j, hj⟩ : ∃ j : Nat, -x.e = (j : ℤ) := ⟨(-x.e).toNat, (Int.toNat_of_nonneg (by omega)).symm⟩
    have hxe : x.e = -(j : ℤ) := by omega
    have hj0 : 0 < j := by omega
    rw [hj]; simp only [Int.toNat_natCast]
    rw [hxe, zpow_neg, zpow_natCast]
    have hp : (0 : ℚ) < 2 ^ j := by positivity
    have h1 := shiftRNE_mul_le (x.m * 10 ^ k) j false hj0
    have h2 := shiftRNE_mul_ge (x.m * 10 ^ k) j false hj0
    simp only [Bool.false_eq_true, if_false, Nat.add_zero] at h2
    have hpow : (2 : ℚ) ^ j = 2 * 2 ^ (j - 1) := by
      have : j = (j - 1) + 1 := by omega
      conv_lhs => rw [this, pow_succ]
      ring
    have h1q : ((shiftRNE (x.m * 10 ^ k) j false : Nat) : ℚ) * 2 ^ j ≤ (x.m : ℚ) * 10 ^ k + 2 ^ (j - 1) := by
      exact_mod_cast h1
    have h2q : (x.m : ℚ) * 10 ^ k ≤ ((shiftRNE (x.m * 10 ^ k) j false : Nat) : ℚ) * 2 ^ j + 2 ^ (j - 1) := by
      exact_mod_cast h2
    have hp1 : (0 : ℚ) < 2 ^ (j - 1) := by positivity
    have e : (x.m : ℚ) * (2 ^ j)⁻¹ * 10 ^ k = ((x.m : ℚ) * 10 ^ k) / 2 ^ j := by
      rw [div_eq_mul_inv]; ring
    rw [e]
    constructor
    · rw [le_div_iff₀ hp]; nlinarith
    · rw [div_le_iff₀ hp]; nlinarith

/-- **kreport's `num_bp_contained`** for a classified lineage `L` of rank `r`: with `T = W·scaled < 2^53` and
`2(n+1)·T·2^-53 < 1`, the reported integer is the exact weighted base pairs `B = w_L·scaled` or `B − 1` -/
theorem kreportBp_bounds (g : Gather ν) (hv : g.Valid) (r : Nat) (x : Lineage ν × Acc SF)
    (hx : x ∈ sumAtRank f64 g.toF r) (hT : g.W * g.scaled < 2 ^ 53)
    (hsmall : 2 * ((g.rows.length : ℚ) + 1) * ((g.W * g.scaled : Nat) : ℚ) * u < 1)
    (hn : 2 * ((g.rows.length : ℚ) + 1) * u ≤ 1) :
    kreportBp x.2.fw (g.W * g.scaled) ≤ wU r g.rows x.1 * g.scaled ∧
    wU r g.rows x.1 * g.scaled ≤ kreportBp x.2.fw (g.W * g.scaled) + 1 := by
  have hu := u_pos
  have hu1 : u ≤ 1 := by unfold u; rw [div_le_one (by positivity)]; norm_num
  obtain ⟨_, _, _, _, hin⟩ := tbl_bnd2 g hv r
  have hw := (hin x hx).2
  set n := g.rows.length with hndef
  set B := wU r g.rows x.1 * g.scaled with hB
  have hWq : (0 : ℚ) < g.W := by exact_mod_cast hv.hW
  -- T as a double is exact
  have hTv : (ofNat (g.W * g.scaled)).toQ = ((g.W * g.scaled : Nat) : ℚ) := by
    exact ofNat_toQ _ hT
  have hBT : B ≤ g.W * g.scaled := by
    apply Nat.mul_le_mul_right
    exact le_trans (wsum_filter_le _ _) hv.wle
  -- the exact product
  have hprod : (wU r g.rows x.1 : ℚ) / g.W * ((g.W * g.scaled : Nat) : ℚ) = (B : ℚ) := by
    rw [hB]; push_cast
    rw [div_mul_eq_mul_div, div_eq_iff (ne_of_gt hWq)]; ring
  set v := (fmul x.2.fw.a (ofNat (g.W * g.scaled))).toQ with hv'
  have hTq0 : (0 : ℚ) ≤ ((g.W * g.scaled : Nat) : ℚ) := Nat.cast_nonneg _
  have hup : v ≤ (B : ℚ) * (1 + u) ^ (n + 1) := by
    have h1 := fmul_le x.2.fw.a (ofNat (g.W * g.scaled))
    rw [hTv] at h1
    have h2 : x.2.fw.a.toQ * ((g.W * g.scaled : Nat) : ℚ) ≤ (B : ℚ) * (1 + u) ^ n := by
      calc _ ≤ ((wU r g.rows x.1 : ℚ) / g.W * (1 + u) ^ n) * ((g.W * g.scaled : Nat) : ℚ) :=
            mul_le_mul_of_nonneg_right hw.2.2 hTq0
        _ = _ := by rw [← hprod]; ring
    calc v ≤ x.2.fw.a.toQ * ((g.W * g.scaled : Nat) : ℚ) * (1 + u) := h1
      _ ≤ (B : ℚ) * (1 + u) ^ n * (1 + u) := mul_le_mul_of_nonneg_right h2 (by linarith)
      _ = _ := by rw [pow_succ]; ring
  have hdn : (B : ℚ) * (1 - u) ^ (n + 1) ≤ v := by
    have h1 := fmul_ge x.2.fw.a (ofNat (g.W * g.scaled))
    rw [hTv] at h1
    have h2 : (B : ℚ) * (1 - u) ^ n ≤ x.2.fw.a.toQ * ((g.W * g.scaled : Nat) : ℚ) := by
      calc (B : ℚ) * (1 - u) ^ n = ((wU r g.rows x.1 : ℚ) / g.W * (1 - u) ^ n) * ((g.W * g.scaled : Nat) : ℚ) := by
            rw [← hprod]; ring
        _ ≤ _ := mul_le_mul_of_nonneg_right hw.2.1 hTq0
    calc (B : ℚ) * (1 - u) ^ (n + 1) = (B : ℚ) * (1 - u) ^ n * (1 - u) := by rw [pow_succ]; ring
      _ ≤ x.2.fw.a.toQ * ((g.W * g.scaled : Nat) : ℚ) * (1 - u) := mul_le_mul_of_nonneg_right h2 (by linarith)
      _ ≤ v := h1
  have hpowu := one_add_u_pow_le (n + 1) (by push_cast; linarith)
  have hpowd := one_sub_u_pow_ge (n + 1)
  push_cast at hpowu hpowd
  have hBq : (0 : ℚ) ≤ B := Nat.cast_nonneg B
  have hBTq : (B : ℚ) ≤ ((g.W * g.scaled : Nat) : ℚ) := by exact_mod_cast hBT
  have hBsmall : 2 * ((n : ℚ) + 1) * (B : ℚ) * u < 1 := by
    have : 2 * ((n : ℚ) + 1) * (B : ℚ) * u ≤ 2 * ((n : ℚ) + 1) * ((g.W * g.scaled : Nat) : ℚ) * u := by
      have hn0 : (0 : ℚ) ≤ 2 * ((n : ℚ) + 1) * u := by positivity
      nlinarith
    linarith
  have hvlt : v < (B : ℚ) + 1 := by
    have : (B : ℚ) * (1 + u) ^ (n + 1) ≤ (B : ℚ) * (1 + 2 * ((n : ℚ) + 1) * u) := mul_le_mul_of_nonneg_left hpowu hBq
    nlinarith
  have hvgt : (B : ℚ) - 1 < v := by
    have : (B : ℚ) * (1 - ((n : ℚ) + 1) * u) ≤ (B : ℚ) * (1 - u) ^ (n + 1) := mul_le_mul_of_nonneg_left hpowd hBq
    have hn0 : (0 : ℚ) ≤ ((n : ℚ) + 1) * (B : ℚ) * u := by positivity
    nlinarith
  obtain ⟨hf1, hf2⟩ := floor_spec (fmul x.2.fw.a (ofNat (g.W * g.scaled)))
  unfold kreportBp
  constructor
  · have : ((floor (fmul x.2.fw.a (ofNat (g.W * g.scaled))) : Nat) : ℚ) < (B : ℚ) + 1 := lt_of_le_of_lt hf1 hvlt
    have : floor (fmul x.2.fw.a (ofNat (g.W * g.scaled))) < B + 1 := by exact_mod_cast this
    omega
  · have : (B : ℚ) - 1 < ((floor (fmul x.2.fw.a (ofNat (g.W * g.scaled))) : Nat) : ℚ) + 1 := lt_trans hvgt hf2
    have : (B : ℚ) < ((floor (fmul x.2.fw.a (ofNat (g.W * g.scaled))) + 2 : Nat) : ℚ) := by push_cast; linarith
    have : B < floor (fmul x.2.fw.a (ofNat (g.W * g.scaled))) + 2 := by exact_mod_cast this
    omega

theorem sum_map_mul_right_nat {β : Type} (c : β → Nat) (s : Nat) (l : List β) :
    (l.map (fun x => c x * s)).sum = (l.map c).sum * s := by
  induction l with
  | nil => simp
  | cons x t ih => simp only [List.map_cons, List.sum_cons, ih]; ring

theorem sum_cast_div {β : Type} (c : β → Nat) (W : ℚ) (l : List β) :
    (l.map (fun x => (c x : ℚ) / W)).sum = ((l.map c).sum : ℚ) / W := by
  induction l with
  | nil => simp
  | cons x t ih => simp only [List.map_cons, List.sum_cons, ih]; push_cast; rw [add_div]

/-- exact weighted hashes of the children of `L` never exceed those of `L` -/
theorem wU_children_le (g : Gather ν) (hv : g.Valid) (r r' : Nat) (hr : r ≤ r') (L : Lineage ν) (a : Acc ℚ)
    (hm : (L, a) ∈ g.tbl r) :
    (((keysOf (g.tbl r')).filter (fun C => decide (popTo C r = L))).map (fun C => wU r' g.rows C)).sum ≤ wU r g.rows L := by
  have hWq : (0 : ℚ) < g.W := by exact_mod_cast hv.hW
  set l := (g.tbl r').filter (fun x => decide (popTo x.1 r = L)) with hl
  have hlist : ((keysOf (g.tbl r')).filter (fun C => decide (popTo C r = L))).map (fun C => wU r' g.rows C) =
      l.map (fun x => wU r' g.rows x.1) := by
    unfold keysOf
    rw [List.filter_map, List.map_map]
    rfl
  rw [hlist]
  have hmem : ∀ x ∈ l, x ∈ g.tbl r' := fun x hx => (List.mem_filter.mp hx).1
  have h1 : (l.map (fun x => (wU r' g.rows x.1 : ℚ) / g.W)).sum = (l.map (fun x => x.2.fw)).sum := by
    congr 1
    apply List.map_congr_left
    intro x hx
    exact (entry_fw g r' x.1 x.2 (hmem x hx)).symm
  have h2 : (l.map (fun x => x.2.fw)).sum = psum (fun C => decide (popTo C r = L)) (projFw (ν := ν)).acc (g.tbl r') := rfl
  rw [sum_cast_div, h2, psum_fw] at h1
  have h3 : ((l.map (fun x => wU r' g.rows x.1)).sum : ℚ) =
      (wsum (g.rows.filter (under (fun C => decide (popTo C r = L)) r')) : ℚ) := by
    have := h1
    rw [div_left_inj' (ne_of_gt hWq)] at this
    exact this
  have h4 : (l.map (fun x => wU r' g.rows x.1)).sum = wsum (g.rows.filter (under (fun C => decide (popTo C r = L)) r')) := by
    exact_mod_cast h3
  rw [h4]
  exact wsum_filter_mono _ _ g.rows (fun x _ hxu => under_child_parent g hr L a hm x hxu)

/-- **C19.1, precisely** (kreport `num_bp_contained`, classified lineages): a parent's reported base pairs can fall
short of the sum of its reported children — by at most ONE base pair, whatever the number of children
(each child reports at most its exact value, the parent at least its exact value minus one) -/
theorem kreport_parent_children (g : Gather ν) (hv : g.Valid) (r r' : Nat) (hr : r ≤ r')
    (hT : g.W * g.scaled < 2 ^ 53)
    (hsmall : 2 * ((g.rows.length : ℚ) + 1) * ((g.W * g.scaled : Nat) : ℚ) * u < 1)
    (hn : 2 * ((g.rows.length : ℚ) + 1) * u ≤ 1)
    (x : Lineage ν × Acc SF) (hx : x ∈ sumAtRank f64 g.toF r) :
    (((sumAtRank f64 g.toF r').filter (fun y => decide (popTo y.1 r = x.1))).map
        (fun y => kreportBp y.2.fw (g.W * g.scaled))).sum ≤ kreportBp x.2.fw (g.W * g.scaled) + 1 := by
  -- the parent is a key of the exact table as well
  have hk : x.1 ∈ keysOf (g.tbl r) := by
    rw [← keys_f64_eq_rat]; exact List.mem_map_of_mem (f := Prod.fst) hx
  obtain ⟨y0, hm0, hL⟩ := List.mem_map.mp hk
  have hm : (x.1, y0.2) ∈ g.tbl r := by rw [← hL]; exact hm0
  set L := x.1 with hLdef
  set a := y0.2
  have hpar := (kreportBp_bounds g hv r x hx hT hsmall hn).2
  -- children: each at most its exact value
  have hch : (((sumAtRank f64 g.toF r').filter (fun y => decide (popTo y.1 r = L))).map
      (fun y => kreportBp y.2.fw (g.W * g.scaled))).sum ≤
      (((sumAtRank f64 g.toF r').filter (fun y => decide (popTo y.1 r = L))).map
      (fun y => wU r' g.rows y.1 * g.scaled)).sum := by
    apply List.sum_le_sum
    intro y hy
    exact (kreportBp_bounds g hv r' y (List.mem_filter.mp hy).1 hT hsmall hn).1
  have hsum : (((sumAtRank f64 g.toF r').filter (fun y => decide (popTo y.1 r = L))).map
      (fun y => wU r' g.rows y.1 * g.scaled)).sum =
      (((keysOf (g.tbl r')).filter (fun C => decide (popTo C r = L))).map (fun C => wU r' g.rows C)).sum * g.scaled := by
    rw [← keys_f64_eq_rat]
    unfold keysOf
    rw [List.filter_map, List.map_map]
    exact sum_map_mul_right_nat _ _ _
  have hle := wU_children_le g hv r r' hr L a hm
  calc _ ≤ _ := hch
    _ = _ := hsum
    _ ≤ wU r g.rows L * g.scaled := Nat.mul_le_mul_right _ hle
    _ ≤ _ := hpar

end Sm.Tax
