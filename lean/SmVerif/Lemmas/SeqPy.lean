/-
The Python / FFI glue around the iterator: what `seq_to_hashes`, `add_sequence` and
`kmers_and_hashes` do (after the fixes d13355a, a005a3e, 67d1f7c in /repo: byte length passed
to Rust, no assertion on short sequences, no bookkeeping items in translated output).
-/
import SmVerif.Lemmas.SeqDna
import SmVerif.Lemmas.SeqCanon
import SmVerif.Lemmas.SeqTranslate

namespace Sm.Seq

theorem upperByte_lt {a : Nat} (h : a < 128) : upperByte a < 128 := by
  unfold upperByte
  split <;> omega

theorem upperByte_idem (b : Nat) : upperByte (upperByte b) = upperByte b := by
  unfold upperByte
  by_cases h : 97 ≤ b ∧ b ≤ 122
  · rw [if_pos h, if_neg (by omega)]
  · rw [if_neg h, if_neg h]

theorem upper_ascii (bs : List Nat) (h : ∀ b ∈ bs, b < 128) : ∀ b ∈ upper bs, b < 128 := by
  intro b hb
  simp only [upper, List.mem_map] at hb
  obtain ⟨a, ha, rfl⟩ := hb
  exact upperByte_lt (h a ha)

theorem upper_upper (bs : List Nat) : upper (upper bs) = upper bs := by
  simp only [upper, List.map_map]
  apply List.map_congr_left
  intro b _
  exact upperByte_idem b

theorem length_upper (bs : List Nat) : (upper bs).length = bs.length := by simp [upper]

theorem cstr_of_no_nul (bs : List Nat) (h : ∀ b ∈ bs, b ≠ 0) : Py.cstr bs = bs := by
  unfold Py.cstr
  induction bs with
  | nil => rfl
  | cons b bs ih =>
    have hb : (b != 0) = true := by simpa using h b (List.mem_cons_self ..)
    rw [List.takeWhile_cons, hb]
    simp [ih (fun x hx => h x (List.mem_cons_of_mem _ hx))]

theorem codonsUtf8_of_ascii (bs : List Nat) (h : ∀ b ∈ bs, b < 128) : codonsUtf8 bs = true := by
  have hu := upper_ascii bs h
  unfold codonsUtf8
  simp only [List.all_eq_true]
  intro f _ c hc
  apply utf8Valid_of_ascii
  intro x hx
  exact hu x (List.mem_of_mem_drop (mem_of_mem_codons hc x hx))

/-- `kmers_and_hashes` on a DNA sketch and a sequence shorter than k yields nothing (it used to
    fail its assertion when more than one base short: finding C02.1, fixed d13355a) -/
theorem kmersAndHashes_short (hash : List Nat → Nat) (k : Nat) (bs : List Nat) (force : Bool)
    (hlen : bs.length < k) :
    Py.kmersAndHashes hash .dna k bs force false = .ok [] := by
  have hlu := length_upper bs
  have hit := iterate_dna_eq_spec hash (upper bs) k force
  have hw : windows k (upper (upper bs)) = [] := windows_of_length_lt (by rw [length_upper, hlu]; exact hlen)
  have hs2h : Py.seqToHashes hash .dna k (upper bs) force force false = .ok [] := by
    simp [Py.seqToHashes, Py.rustK, HashFn.isDna, seqToHashesFfi, hit, dnaSpec, hw, dnaGo]
  have hz : (upper bs).length + 1 - k = 0 := by omega
  unfold Py.kmersAndHashes
  simp only [hs2h]
  simp [HashFn.isDna, hz]

theorem zip_map_self {α β : Type} (f : α → β) : ∀ (l : List α), l.zip (l.map f) = l.map (fun x => (x, f x))
  | [] => rfl
  | a :: l => by simp [zip_map_self f l]

theorem range_map_windows (k : Nat) (s : List Nat) :
    (List.range (s.length + 1 - k)).map (fun i => (s.drop i).take k) = windows k s := by
  apply List.ext_getElem?
  intro i
  by_cases hi : i + k ≤ s.length
  · rw [getElem?_windows s i hi]
    have : i < s.length + 1 - k := by omega
    simp [List.getElem?_map, List.getElem?_range this]
  · have h1 : ((List.range (s.length + 1 - k)).map (fun i => (s.drop i).take k)).length ≤ i := by
      simp; omega
    have h2 : (windows k s).length ≤ i := by rw [length_windows]; omega
    rw [List.getElem?_eq_none h1, List.getElem?_eq_none h2]

/-- `kmers_and_hashes(force=True)` on a DNA sketch (no k-mer hashing to the sentinel): every window
    of the upper-cased sequence paired with the hash of its canonical form, or with `None` when it
    contains a non-ACGT byte -/
theorem kmersAndHashes_dna_force (hash : List Nat → Nat) (h0 : ∀ w, hash w ≠ 0) (k : Nat) (bs : List Nat) :
    Py.kmersAndHashes hash .dna k bs true false =
      .ok ((windows k (upper bs)).map
        (fun w => (w, if w.all valid then some (hash (canon w)) else none))) := by
  have hit := iterate_dna_eq_spec hash (upper bs) k true
  rw [dnaSpec, upper_upper, dnaGo_force] at hit
  have hs2h : Py.seqToHashes hash .dna k (upper bs) true true false =
      .ok ((windows k (upper bs)).map (fun w => if w.all valid then hash (canon w) else 0)) := by
    simp [Py.seqToHashes, Py.rustK, HashFn.isDna, seqToHashesFfi, hit]
  unfold Py.kmersAndHashes
  simp only [hs2h]
  have hlw := length_windows (k := k) (upper bs)
  simp only [HashFn.isDna, Bool.not_true, Bool.false_and, Bool.false_eq_true, if_false, if_true,
    List.length_map, hlw, bne_self_eq_false]
  rw [range_map_windows, List.map_map]
  have hmap : (windows k (upper bs)).map
      ((fun h => if (h == 0) = true then none else some h) ∘ fun w => if w.all valid = true then hash (canon w) else 0)
      = (windows k (upper bs)).map (fun w => if w.all valid then some (hash (canon w)) else none) := by
    apply List.map_congr_left
    intro w _
    by_cases hw : w.all valid = true
    · have hne : (hash (canon w) == 0) = false := by simpa using h0 (canon w)
      simp only [Function.comp, hw, if_true, hne, Bool.false_eq_true, if_false]
    · have hw' : w.all valid = false := by simpa using hw
      simp only [Function.comp, hw', Bool.false_eq_true, if_false, beq_self_eq_true, if_true]
  rw [hmap, zip_map_self]

theorem sixFrames_ne_zero (hash : List Nat → Nat) (h0 : ∀ w, hash w ≠ 0) (hf : HashFn) (k : Nat)
    (seq : List Nat) : ∀ x ∈ sixFrames hash hf k seq, x ≠ 0 := by
  intro x hx
  simp only [sixFrames, frameSpec, List.mem_flatMap, List.mem_append, List.mem_map] at hx
  obtain ⟨_, _, h | h⟩ := hx <;> obtain ⟨w, _, rfl⟩ := h <;> exact h0 w

/-- D20 repaired (67d1f7c): on a protein / Dayhoff / HP sketch `kmers_and_hashes(dna, force=True)`
    answers exactly what `kmers_and_hashes(dna)` answers (translated DNA has no invalid k-mers to
    mark, and no bookkeeping items come back any more); stated for hash functions that never hit
    the in-band value 0 -/
theorem kmersAndHashes_translate_force_irrelevant (hash : List Nat → Nat) (h0 : ∀ w, hash w ≠ 0)
    (hf : HashFn) (hhf : hf ≠ .dna) (k : Nat) (hk : 1 ≤ k) (bs : List Nat) :
    Py.kmersAndHashes hash hf k bs true false = Py.kmersAndHashes hash hf k bs false false := by
  have hdna : hf.isDna = false := by cases hf <;> simp [HashFn.isDna] at hhf ⊢
  have hK : k * 3 / 3 = k := by omega
  have hit : ∀ force, iterate hash (upper bs) (k * 3) force false hf = translateSpec hash hf (upper bs) k := by
    intro force
    have := iterate_translate_eq_spec hash (upper bs) (k * 3) force hf hhf (by omega)
    rwa [hK] at this
  have hnz := sixFrames_ne_zero hash h0 hf k (upper bs)
  have hfilt : (sixFrames hash hf k (upper bs)).filter (· != 0) = sixFrames hash hf k (upper bs) := by
    rw [List.filter_eq_self]
    intro x hx
    simpa using hnz x hx
  have hmap : (sixFrames hash hf k (upper bs)).map (fun h => if h == 0 then none else some h)
      = (sixFrames hash hf k (upper bs)).map some := by
    apply List.map_congr_left
    intro x hx
    have : (x == 0) = false := by simpa using hnz x hx
    simp [this]
  have hT := hit true
  have hF := hit false
  unfold translateSpec at hT hF
  by_cases h1 : (upper bs).length < 3 * k
  · rw [if_pos h1] at hT hF
    have e1 : Py.seqToHashes hash hf k (upper bs) true true false = .ok [] := by
      simp [Py.seqToHashes, Py.rustK, hdna, seqToHashesFfi, hT]
    have e2 : Py.seqToHashes hash hf k (upper bs) false false false = .ok [] := by
      simp [Py.seqToHashes, Py.rustK, hdna, seqToHashesFfi, hF]
    unfold Py.kmersAndHashes
    simp only [e1, e2]
    simp
  · rw [if_neg h1] at hT hF
    by_cases h2 : codonsUtf8 (upper bs) = true
    · simp only [h2, Bool.not_true, Bool.false_eq_true, if_false] at hT hF
      have e1 : Py.seqToHashes hash hf k (upper bs) true true false = .ok (sixFrames hash hf k (upper bs)) := by
        simp [Py.seqToHashes, Py.rustK, hdna, seqToHashesFfi, hT]
      have e2 : Py.seqToHashes hash hf k (upper bs) false false false = .ok (sixFrames hash hf k (upper bs)) := by
        simp [Py.seqToHashes, Py.rustK, hdna, seqToHashesFfi, hF, hfilt]
      unfold Py.kmersAndHashes
      simp only [e1, e2, if_true, hmap]
      simp
    · have h2' : codonsUtf8 (upper bs) = false := by simpa using h2
      simp only [h2', Bool.not_false, if_true] at hT hF
      have e1 : Py.seqToHashes hash hf k (upper bs) true true false = .error .panic := by
        simp [Py.seqToHashes, Py.rustK, hdna, seqToHashesFfi, hT, Py.ofErr]
      have e2 : Py.seqToHashes hash hf k (upper bs) false false false = .error .panic := by
        simp [Py.seqToHashes, Py.rustK, hdna, seqToHashesFfi, hF, Py.ofErr]
      unfold Py.kmersAndHashes
      simp only [e1, e2]

end Sm.Seq
