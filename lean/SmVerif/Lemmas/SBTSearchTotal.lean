/-
A search on a tree where every position listed as missing is present does not raise.
-/
import SmVerif.Lemmas.SBTSearchCore

namespace Sm.SBT

open Sm.NG

/-! ### a search on a tree where everything listed as missing is present does not raise -/

/-- cached keys are positions of present internal nodes -/
def CacheOK (t : Tree) : Prop := ∀ c ∈ t.cache, (t.nodes.get? c.1).isSome = true

/-- every internal node records a `min_n_below` -/
def MinSome (t : Tree) : Prop := ∀ p n, t.nodes.get? p = some n → n.minN.isSome = true

/-- effects that keep the set of node positions, the recorded `min_n_below`s and the cache discipline -/
structure Safe (t t' : Tree) : Prop where
  frame : Frame t t'
  keys : ∀ x, (t'.nodes.get? x).isSome = (t.nodes.get? x).isSome
  minSome : MinSome t → MinSome t'
  cache : CacheOK t → CacheOK t'

theorem Safe.refl (t : Tree) : Safe t t := ⟨Frame.refl t, fun _ => rfl, id, id⟩

theorem Safe.trans {a b c : Tree} (h1 : Safe a b) (h2 : Safe b c) : Safe a c :=
  ⟨h1.frame.trans h2.frame, fun x => (h2.keys x).trans (h1.keys x), fun h => h2.minSome (h1.minSome h),
   fun h => h2.cache (h1.cache h)⟩

theorem Safe.allPresent {t t' : Tree} (h : Safe t t') (ha : AllPresent t) : AllPresent t' := by
  intro a hm
  rw [h.frame.missing] at hm
  rw [h.keys]; exact ha a hm

theorem safe_cache (t : Tree) (c : List (Nat × Nat))
    (h : CacheOK t → ∀ x ∈ c, (t.nodes.get? x.1).isSome = true) : Safe t { t with cache := c } :=
  ⟨⟨rfl, rfl, rfl, rfl, rfl⟩, fun _ => rfl, fun hm => hm, fun hc => h hc⟩

theorem safe_modNode (t : Tree) (p : Nat) (f : INode → INode) (hf : ∀ n, (f n).minN = n.minN) :
    Safe t (t.modNode p f) := by
  have hfl := modNode_fields t p f
  have hget := modNode_get? t p f
  have hkeys : ∀ x, ((t.modNode p f).nodes.get? x).isSome = (t.nodes.get? x).isSome := by
    intro x
    rw [hget]
    by_cases hx : x = p
    · subst hx; rw [if_pos rfl, Option.isSome_map]
    · rw [if_neg hx]
  refine ⟨⟨hfl.1, hfl.2.1, hfl.2.2.1, hfl.2.2.2.1, hfl.2.2.2.2.2.1⟩, hkeys, ?_, ?_⟩
  · intro h q n hn
    rw [hget] at hn
    by_cases hq : q = p
    · subst hq
      rw [if_pos rfl] at hn
      cases hm : t.nodes.get? q with
      | none => rw [hm] at hn; cases hn
      | some m =>
        rw [hm] at hn
        simp only [Option.map_some, Option.some.injEq] at hn
        subst hn
        rw [hf]
        exact h q m hm
    · rw [if_neg hq] at hn; exact h q n hn
  · intro h c hc
    rw [hfl.2.2.2.2.2.2] at hc
    rw [hkeys]; exact h c hc

theorem unloadV_minN (keep : Bool) (n : INode) : (INode.unloadV keep n).minN = n.minN := by
  unfold INode.unloadV INode.unload
  split
  · rfl
  · split <;> rfl

theorem safe_unload {keep : Bool} (t : Tree) (p : Nat) : Safe t (t.modNode p (INode.unloadV keep)) :=
  safe_modNode t p _ (unloadV_minN keep)

theorem safe_cachePop {keep : Bool} (t : Tree) : Safe t (cachePop keep t) := by
  unfold cachePop
  simp only
  split
  · exact Safe.refl t
  · refine (safe_cache t _ ?_).trans (safe_unload _ _)
    intro hc x hx
    exact hc x (List.mem_filter.mp hx).1

theorem mem_cacheTouch {c : List (Nat × Nat)} {key : Nat} {x : Nat × Nat} (h : x ∈ cacheTouch c key) :
    x.1 = key ∨ ∃ y ∈ c, y.1 = x.1 := by
  unfold cacheTouch at h
  split at h
  · obtain ⟨y, hy, rfl⟩ := List.mem_map.mp h
    right
    refine ⟨y, hy, ?_⟩
    split <;> rfl
  · rcases List.mem_append.mp h with h | h
    · exact Or.inr ⟨x, h, rfl⟩
    · simp only [List.mem_singleton] at h
      subst h; exact Or.inl rfl

theorem safe_cacheTouch (t : Tree) (key : Nat) (hk : (t.nodes.get? key).isSome = true) :
    Safe t { t with cache := cacheTouch t.cache key } := by
  refine safe_cache t _ ?_
  intro hc x hx
  rcases mem_cacheTouch hx with h | ⟨y, hy, h⟩
  · rw [h]; exact hk
  · rw [← h]; exact hc y hy

theorem safe_cacheSet {keep : Bool} : ∀ (fuel : Nat) (t : Tree) (key : Nat), (t.nodes.get? key).isSome = true →
    Safe t (cacheSet keep fuel t key) := by
  intro fuel
  induction fuel with
  | zero => intro t key hk; exact safe_cacheTouch t key hk
  | succ fuel ih =>
    intro t key hk
    unfold cacheSet
    split
    · split
      · have h1 := safe_cachePop (keep := keep) t
        exact h1.trans (ih _ _ (by rw [h1.keys]; exact hk))
      · exact safe_cacheTouch t key hk
    · exact safe_cacheTouch t key hk

/-- when everything listed as missing is present, fetching a node never raises; what it returns has a node at `p` -/
theorem visit_safe {fixed keep : Bool} {t : Tree} (p : Nat) (hm : AllPresent t) (hc : CacheOK t) :
    visit fixed keep t p = .ok none ∨
    ∃ t', visit fixed keep t p = .ok (some t') ∧ Safe t t' ∧ (t'.nodes.get? p).isSome = true := by
  unfold visit
  split
  · rename_i hany
    right
    obtain ⟨c, hcm, hcp⟩ := List.any_eq_true.mp hany
    have hk : (t.nodes.get? p).isSome = true := by
      have := hc c hcm
      rw [decide_eq_true_eq] at hcp
      rw [← hcp]; exact this
    exact ⟨_, rfl, safe_cacheTouch t p hk, hk⟩
  · split
    · rename_i n hn
      right
      have hk : (t.nodes.get? p).isSome = true := by rw [hn]; rfl
      have hs := safe_cacheSet (keep := keep) (t.cache.length + 1) t p hk
      exact ⟨_, rfl, hs, by rw [hs.keys]; exact hk⟩
    · rename_i hn
      left
      split
      · rename_i hcon
        exfalso
        have := hm p (by simpa using hcon)
        rw [hn] at this; cases this
      · rfl

/-- positions below `N` that carry a node and have not been visited -/
def unvisited (N : Nat) (hasN : Nat → Bool) (visited : List Nat) : Nat :=
  ((List.range N).filter (fun x => hasN x && !visited.contains x)).length

theorem filter_length_lt {α : Type} (L : List α) (f g : α → Bool) (hfg : ∀ x ∈ L, g x = true → f x = true)
    {p : α} (hp : p ∈ L) (hfp : f p = true) (hgp : g p = false) : (L.filter g).length + 1 ≤ (L.filter f).length := by
  induction L with
  | nil => cases hp
  | cons x xs ih =>
    have hmono := filter_length_mono xs g f (fun y hy => hfg y (List.mem_cons_of_mem _ hy))
    simp only [List.filter_cons]
    rcases List.mem_cons.mp hp with rfl | hp'
    · rw [hfp, hgp]
      simp only [↓reduceIte, Bool.false_eq_true, List.length_cons]
      omega
    · have ih' := ih (fun y hy => hfg y (List.mem_cons_of_mem _ hy)) hp'
      cases hg : g x with
      | false =>
        simp only [Bool.false_eq_true, ↓reduceIte]
        split
        · simp only [List.length_cons]; omega
        · exact ih'
      | true =>
        rw [hfg x List.mem_cons_self hg]
        simp only [↓reduceIte, List.length_cons]; omega

theorem unvisited_cons_le (N : Nat) (hasN : Nat → Bool) (visited : List Nat) (p : Nat) :
    unvisited N hasN (p :: visited) ≤ unvisited N hasN visited := by
  unfold unvisited
  apply filter_length_mono
  intro x _ hx
  simp only [Bool.and_eq_true, Bool.not_eq_true', List.contains_cons, Bool.or_eq_false_iff] at hx ⊢
  exact ⟨hx.1, hx.2.2⟩

theorem unvisited_cons_lt {N : Nat} {hasN : Nat → Bool} {visited : List Nat} {p : Nat} (hN : p < N)
    (hh : hasN p = true) (hv : visited.contains p = false) :
    unvisited N hasN (p :: visited) + 1 ≤ unvisited N hasN visited := by
  unfold unvisited
  apply filter_length_lt (p := p)
  · intro x _ hx
    simp only [Bool.and_eq_true, Bool.not_eq_true', List.contains_cons, Bool.or_eq_false_iff] at hx ⊢
    exact ⟨hx.1, hx.2.2⟩
  · exact List.mem_range.mpr hN
  · have hv' : ¬ p ∈ visited := by simpa using hv
    simp [hh, hv']
  · simp

theorem unvisited_le (N : Nat) (hasN : Nat → Bool) (visited : List Nat) : unvisited N hasN visited ≤ N := by
  unfold unvisited
  exact Nat.le_trans (List.length_filter_le _ _) (by rw [List.length_range]; exact Nat.le_refl _)

/-- `_find_nodes` neither runs out of fuel nor raises, given one unit of fuel per queued position plus `d` per
unvisited internal node -/
theorem findLoop_ok {fixed keep : Bool} (q : Query) (d N : Nat) (hasN : Nat → Bool) (hN : ∀ x, hasN x = true → x < N) :
    ∀ (fuel : Nat) (t : Tree) (visited queue : List Nat) (acc : List Leaf),
    AllPresent t → CacheOK t → MinSome t → t.d = d → (∀ x, (t.nodes.get? x).isSome = hasN x) →
    queue.length + d * unvisited N hasN visited + 1 ≤ fuel →
    (∃ ls, (findLoop fixed keep q fuel t visited queue acc).2 = .ok ls) ∧
      Safe t (findLoop fixed keep q fuel t visited queue acc).1 := by
  intro fuel
  induction fuel with
  | zero => intro t visited queue acc _ _ _ _ _ hf; omega
  | succ fuel ih =>
    intro t visited queue acc hm hc hms hd hk hf
    cases queue with
    | nil => rw [findLoop_nil]; exact ⟨⟨acc, rfl⟩, Safe.refl t⟩
    | cons p queue =>
      rw [findLoop_cons]
      simp only [List.length_cons] at hf
      have hle := unvisited_cons_le N hasN visited p
      have hmul := Nat.mul_le_mul_left d hle
      split
      · split
        · exact ih _ _ _ _ hm hc hms hd hk (by omega)
        · exact ih _ _ _ _ hm hc hms hd hk (by omega)
      · rcases visit_safe (fixed := fixed) (keep := keep) p hm hc with hv | ⟨t', hv, hs, hp⟩
        · rw [hv]
          exact ih _ _ _ _ hm hc hms hd hk (by omega)
        · rw [hv]
          simp only
          have hm' : AllPresent t' := hs.allPresent hm
          have hd' : t'.d = d := hs.frame.d.trans hd
          have hk' : ∀ x, (t'.nodes.get? x).isSome = hasN x := fun x => (hs.keys x).trans (hk x)
          split
          · obtain ⟨h1, h2⟩ := ih t' visited queue acc hm' (hs.cache hc) (hs.minSome hms) hd' hk' (by omega)
            exact ⟨h1, hs.trans h2⟩
          · rename_i hvis
            obtain ⟨n, hn⟩ := Option.isSome_iff_exists.mp hp
            obtain ⟨m, hmn⟩ := Option.isSome_iff_exists.mp (hs.minSome hms p n hn)
            simp only [hn, hmn]
            have hu := safe_unload (keep := keep) t' p
            have hlt := unvisited_cons_lt (N := N) (hasN := hasN) (visited := visited) (p := p)
              (hN p (by rw [← hk']; exact hp)) (by rw [← hk']; exact hp) (by simpa using hvis)
            have hmul2 := Nat.mul_le_mul_left d hlt
            rw [Nat.mul_add, Nat.mul_one] at hmul2
            obtain ⟨h1, h2⟩ := ih (t'.modNode p (INode.unloadV keep)) (p :: visited)
              (if nodeOk q t'.sizes n m then ((List.range t'.d).map (child t'.d p)).reverse ++ queue else queue) acc
              (hu.allPresent hm') (hu.cache (hs.cache hc)) (hu.minSome (hs.minSome hms))
              (hu.frame.d.trans hd') (fun x => (hu.keys x).trans (hk' x))
              (by
                split
                · simp only [List.length_append, List.length_reverse, List.length_map, List.length_range, hd']
                  omega
                · omega)
            exact ⟨h1, (hs.trans hu).trans h2⟩

theorem findFuel_enough (t : Tree) :
    1 + t.d * unvisited (listMax (t.leaves.keys ++ t.missing ++ t.nodes.keys) + 1) (fun x => t.nodes.has x) [] + 1
      ≤ t.findFuel := by
  unfold Tree.findFuel
  generalize listMax (t.leaves.keys ++ t.missing ++ t.nodes.keys) = K
  have h1 := unvisited_le (K + 1) (fun x => t.nodes.has x) []
  have h2 := Nat.mul_le_mul_left t.d h1
  have h3 : t.d * (K + 1) ≤ (K + 2) * (t.d + 2) := by
    rw [Nat.mul_comm]
    exact Nat.mul_le_mul (by omega) (by omega)
  omega

/-- **a search does not raise** when every position listed as missing carries a node, the cache only names present nodes (e.g. it is empty)
and every node records a `min_n_below`; and it leaves such a tree -/
theorem search_ok {fixed keep : Bool} {t : Tree} (hm : AllPresent t) (hc : CacheOK t) (hms : MinSome t) (q : Query) :
    (∃ ls, (search fixed keep t q).2 = .ok ls) ∧ Safe t (search fixed keep t q).1 := by
  refine findLoop_ok (fixed := fixed) (keep := keep) q t.d (listMax (t.leaves.keys ++ t.missing ++ t.nodes.keys) + 1)
    (fun x => t.nodes.has x) ?_ t.findFuel t [] [0] [] hm hc hms rfl (fun _ => rfl) (findFuel_enough t)
  intro x hx
  have : x ∈ t.nodes.keys := PMap.mem_keys_iff.mpr hx
  have := le_listMax (List.mem_append_right (t.leaves.keys ++ t.missing) this)
  omega

end Sm.SBT
