/-
Specifications the C02 theorems compare the iterator model with.  They are written from
the property statement (windows of the upper-cased sequence, canonical = the smaller of a
k-mer and its reverse complement, error at the first invalid window / skip exactly the
invalid windows, six translation frames) and do not mention the iterator's state.
-/
import SmVerif.Model.SeqToHashes

namespace Sm.Seq

/-- the canonical form of a k-mer: the lexicographically smaller of it and its reverse complement -/
def canon (w : List Nat) : List Nat := lexMin w (revcomp w)

/-- the error a window with an invalid byte raises (the message is the k-mer; building it panics
    when the k-mer is not UTF-8) -/
def dnaErr (w : List Nat) : Err := if utf8Valid w then .invalidDNA w else .panicUtf8

/-- walk the windows left to right: hash the canonical form of a valid window; an invalid window
    ends everything with an error, or (force) yields the skip sentinel 0 -/
def dnaGo (hash : List Nat → Nat) (force : Bool) : List (List Nat) → List Nat × Stop
  | [] => ([], .done)
  | w :: ws =>
    if w.all valid then
      let r := dnaGo hash force ws
      (hash (canon w) :: r.1, r.2)
    else if force then
      let r := dnaGo hash force ws
      (0 :: r.1, r.2)
    else ([], .err (dnaErr w))

/-- DNA: the items of the iterator for sequence `seq`, k-mer size `k` -/
def dnaSpec (hash : List Nat → Nat) (seq : List Nat) (k : Nat) (force : Bool) : List Nat × Stop :=
  dnaGo hash force (windows k (upper seq))

/-- amino-acid input: every window of the (re-encoded) upper-cased sequence, no validation -/
def proteinSpec (hash : List Nat → Nat) (hf : HashFn) (seq : List Nat) (k : Nat) : List Nat :=
  match hf with
  | .protein => (windows k (upper seq)).map hash
  | .dayhoff => (windows k ((upper seq).map aaToDayhoff)).map hash
  | .hp => (windows k ((upper seq).map aaToHp)).map hash
  | .dna => []

/-- the codons of a strand read from its first base: consecutive triples, an incomplete last one dropped -/
def codons : List Nat → List (List Nat)
  | a :: b :: c :: rest => [a, b, c] :: codons rest
  | _ => []

/-- residue of one codon: table lookup, `X` when absent, then the Dayhoff / HP re-encoding -/
def residue (hf : HashFn) (codon : List Nat) : Nat :=
  reenc hf.isDayhoff hf.isHp ((codonLookup codon).getD Gen.unknownCodon)

/-- hashes of one reading frame of one strand -/
def frameSpec (hash : List Nat → Nat) (hf : HashFn) (k : Nat) (strand : List Nat) (frame : Nat) : List Nat :=
  (windows k ((codons (strand.drop frame)).map (residue hf))).map hash

/-- the six frames in the order the code emits them: frame 0 forward, frame 0 reverse complement,
    frame 1 forward, ... -/
def sixFrames (hash : List Nat → Nat) (hf : HashFn) (k : Nat) (seq : List Nat) : List Nat :=
  let u := upper seq
  [0, 1, 2].flatMap (fun f => frameSpec hash hf k u f ++ frameSpec hash hf k (revcomp u) f)

/-- every codon of the three forward frames is valid UTF-8 (always true for ASCII input) -/
def codonsUtf8 (seq : List Nat) : Bool :=
  [0, 1, 2].all (fun f => (codons ((upper seq).drop f)).all utf8Valid)

/-- translated DNA (`k` = amino acids per k-mer, `k ≥ 1`): nothing when shorter than one k-mer;
    a panic when some forward codon is not UTF-8; otherwise exactly the six frames -/
def translateSpec (hash : List Nat → Nat) (hf : HashFn) (seq : List Nat) (k : Nat) : List Nat × Stop :=
  if seq.length < 3 * k then ([], .done)
  else if !codonsUtf8 seq then ([], .err .panicUtf8)
  else (sixFrames hash hf k seq, .done)

/-- sequential composition of two feeds: the second happens only if the first ended normally -/
def seqThen (r1 r2 : List Nat × Stop) : List Nat × Stop :=
  match r1.2 with
  | .done => (r1.1 ++ r2.1, r2.2)
  | _ => r1

/-! ### reference tables, typed independently of encodings.rs -/

/-- NCBI translation table 1 (the standard genetic code), amino acids for the 64 codons with the
    bases in the order T, C, A, G (first base slowest) -/
def stdCode : List Char := ['F', 'F', 'L', 'L', 'S', 'S', 'S', 'S', 'Y', 'Y', '*', '*', 'C', 'C', '*', 'W', 'L', 'L', 'L', 'L', 'P', 'P', 'P', 'P', 'H', 'H', 'Q', 'Q', 'R', 'R', 'R', 'R', 'I', 'I', 'I', 'M', 'T', 'T', 'T', 'T', 'N', 'N', 'K', 'K', 'S', 'S', 'R', 'R', 'V', 'V', 'V', 'V', 'A', 'A', 'A', 'A', 'D', 'D', 'E', 'E', 'G', 'G', 'G', 'G']

/-- the base order of `stdCode` -/
def stdBases : List Nat := ['T'.toNat, 'C'.toNat, 'A'.toNat, 'G'.toNat]

/-- the letter of the first class containing `b`, `X` when there is none -/
def classRef (classes : List (Char × List Char)) (b : Nat) : Nat :=
  match classes.find? (fun c => c.2.any (fun ch => ch.toNat == b)) with
  | some c => c.1.toNat
  | none => 'X'.toNat

/-- Dayhoff (1978) classes: C | AGPST | DENQ | HKR | ILMV | FWY, stop kept -/
def dayhoffClasses : List (Char × List Char) :=
  [('a', ['C']), ('b', ['A', 'G', 'P', 'S', 'T']), ('c', ['D', 'E', 'N', 'Q']), ('d', ['H', 'K', 'R']),
   ('e', ['I', 'L', 'M', 'V']), ('f', ['F', 'W', 'Y']), ('*', ['*'])]

/-- hydrophobic / polar classes (Phillips et al. 2008), stop kept -/
def hpClasses : List (Char × List Char) :=
  [('h', ['A', 'F', 'G', 'I', 'L', 'M', 'P', 'V', 'W', 'Y']),
   ('p', ['N', 'C', 'S', 'T', 'D', 'E', 'R', 'H', 'K', 'Q']), ('*', ['*'])]

end Sm.Seq
