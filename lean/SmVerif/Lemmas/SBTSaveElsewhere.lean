/-
A loaded tree that received insertions is saved to ANOTHER location and stays in use
(`sourmash index --append` style, or a long-lived process): `SBT.save` leaves the in-memory tree
as it was, so its ancestors keep the inserted hashes through every later unload / cache eviction
/ search, and the copy written is covered as well.
-/
import SmVerif.Lemmas.SBTFinal

namespace Sm.SBT

/-- a run of searches on the tree in use -/
def searchMany (fixed keep : Bool) (t : Tree) (qs : List Query) : Tree :=
  qs.foldl (fun t q => (search fixed keep t q).1) t

theorem searchMany_searchable {fixed keep : Bool} : ∀ (qs : List Query) (t : Tree), Searchable keep t →
    Searchable keep (searchMany fixed keep t qs) ∧ (searchMany fixed keep t qs).leaves = t.leaves := by
  intro qs
  induction qs with
  | nil => intro t h; exact ⟨h, rfl⟩
  | cons q qs ih =>
    intro t h
    obtain ⟨h1, h2, _⟩ := search_exact (fixed := fixed) (keep := keep) h q
    obtain ⟨h3, h4⟩ := ih _ h1
    exact ⟨h3, h4.trans h2⟩

/-- a full save + load of a searchable insertion-shaped tree is searchable (any `keep`) -/
theorem searchable_after_full_load {fixed keep keep0 : Bool} {t t' : Tree} {ver : Nat} (cm : Option Nat) (hv : ver ≠ 3)
    (hinv : InsInv t) (hs : Searchable keep0 t) (hl : load fixed (save t (fun _ => false)) ver cm = .ok t') :
    InsInv t' ∧ Searchable keep t' ∧ t'.leaves = t.leaves := by
  obtain ⟨hinv', hcl', hle, _, hcache, _⟩ := insInv_after_full_load cm hv hinv hl
  refine ⟨hinv', searchable_of_insInv hinv' (load_save_minSome _ cm hv hs.minSome hl)
    (load_save_minpos _ cm hv hs.minPos hl) ?_ (CleanV.of_clean hcl'), hle⟩
  intro c hc; rw [hcache] at hc; cases hc

/-- **cover_after_save_elsewhere**: an insertion-built tree is saved in full and loaded (index
versions 4-6, any cache bound), receives ANY list of insertions, and is then saved to another
location with ANY set of internal nodes omitted while it stays in use (current source).  Then
(a) the tree in use is exactly what it was, it is covered, and after ANY run of further searches
(each of which unloads what it visits and may evict cached nodes) it is still covered and a search
returns exactly the linear scan over everything stored, the inserted signatures included;
(b) the copy written, loaded as version 4-6 with any cache bound, is covered and holds the same
signatures; when no node was omitted it is searchable with the same exactness -/
theorem cover_after_save_elsewhere {d : Nat} {sizes : List Nat} (hd : 2 ≤ d) (hsz : SizesOK sizes) {t t1 t2 : Tree}
    (hr : Reach d sizes t) {ver : Nat} (cm : Option Nat) (hv : ver ≠ 3) {fixed0 : Bool}
    (hload : load fixed0 (save t (fun _ => false)) ver cm = .ok t1) {fixed pre : Bool} (ls : List Leaf)
    (hins : insAllV fixed pre t1 ls = .ok t2) (omitted : Nat → Bool) :
    (saveElsewhere t2 omitted).1 = t2 ∧ Cover t2 ∧ (∀ l ∈ ls, ∃ p, t2.leaves.get? p = some l) ∧
    (∀ (fixed' : Bool) (qs : List Query) (q : Query),
      let t3 := searchMany fixed' true (saveElsewhere t2 omitted).1 qs
      Cover t3 ∧ t3.leaves = t2.leaves ∧
      ∃ res, (search fixed' true t3 q).2 = .ok res ∧
        ∀ l, l ∈ res ↔ (leafPasses q l = true ∧ ∃ p, t2.leaves.get? p = some l)) ∧
    (∀ (fixed'' : Bool) (ver' : Nat) (cm' : Option Nat) (t4 : Tree), ver' ≠ 3 →
      load fixed'' (saveElsewhere t2 omitted).2 ver' cm' = .ok t4 →
      Base t4 ∧ Cover t4 ∧ t4.leaves = t2.leaves) ∧
    (∀ (fixed'' keep : Bool) (ver' : Nat) (cm' : Option Nat) (t4 : Tree) (q : Query), ver' ≠ 3 →
      load fixed'' (saveElsewhere t2 (fun _ => false)).2 ver' cm' = .ok t4 →
      ∃ res, (search fixed'' keep t4 q).2 = .ok res ∧
        ∀ l, l ∈ res ↔ (leafPasses q l = true ∧ ∃ p, t2.leaves.get? p = some l)) := by
  obtain ⟨hinv, _, _, _⟩ := reach_inv hd hsz hr
  obtain ⟨hs1, _⟩ := reach_loaded_searchable (keep := true) hd hsz hr cm hv hload
  obtain ⟨hinv1, _⟩ := insInv_after_full_load cm hv hinv hload
  obtain ⟨hinv2, hs2, hls, _⟩ := insAllV_searchable ls t1 t2 hinv1 hs1 hins
  refine ⟨rfl, hs2.cover, hls, ?_, ?_, ?_⟩
  · intro fixed' qs q
    show Cover (searchMany fixed' true t2 qs) ∧ _
    obtain ⟨h3, h4⟩ := searchMany_searchable (fixed := fixed') qs t2 hs2
    obtain ⟨_, _, res, hres, hiff⟩ := search_exact (fixed := fixed') (keep := true) h3 q
    refine ⟨h3.cover, h4, res, hres, ?_⟩
    intro l; rw [hiff l, h4]
  · intro fixed'' ver' cm' t4 hv' hl4
    obtain ⟨h1, h2, _, h4, _⟩ := load_save_cover (fixed := fixed'') omitted cm' hv' hinv2.1 hinv2.2.1 hl4
    exact ⟨h1, h2, h4⟩
  · intro fixed'' keep ver' cm' t4 q hv' hl4
    obtain ⟨_, hs4, hle4⟩ := searchable_after_full_load (keep := keep) cm' hv' hinv2 hs2 hl4
    obtain ⟨_, _, res, hres, hiff⟩ := search_exact (fixed := fixed'') (keep := keep) hs4 q
    exact ⟨res, hres, fun l => by rw [hiff l, hle4]⟩

end Sm.SBT
