/-
`CounterGather` on list sketches: the invariant "every counter equals the overlap of its
sketch with the unassigned hashes", established by `add`, preserved by `consume`, and what
`peek` / `_find_best` return under it.
-/
import SmVerif.Lemmas.GatherL

set_option autoImplicit false

namespace Sm.Gather

open Sm

/-- no two candidate signatures share an md5 without sharing their hashes
    (md5 is computed from the hashes; collisions are outside the model) -/
def MD5OK (cand : List (Sig LS)) : Prop :=
  ∀ d ∈ cand, ∀ d' ∈ cand, d.md5 = d'.md5 → d.mh.hs = d'.mh.hs

/-- invariant of a `CounterGather` loaded with the candidate signatures `cand`, against the
unassigned hashes `Q` at resolution `s` -/
structure CInv (s : Nat) (cand : List (Sig LS)) (Q : List Nat) (c : Counter LS) : Prop where
  /-- every counter is the overlap of its sketch with the unassigned hashes -/
  exact : ∀ e ∈ c.entries, EInv s Q e
  /-- entries hold candidates -/
  sound : ∀ e ∈ c.entries, e.sig ∈ cand
  /-- every candidate that still overlaps is present (up to identical content) -/
  complete : ∀ d ∈ cand, ovl Q (dn s d.mh.hs) ≠ 0 → ∃ e ∈ c.entries, e.sig.mh.hs = d.mh.hs
  /-- the counter's own `scaled` is the comparison resolution once it holds anything -/
  scaled_ok : c.entries ≠ [] → c.scaled = s

theorem diffL_eq_self_of_filter_nil {Q B : List Nat} (h : Q.filter (inL B) = []) : diffL Q B = Q := by
  unfold diffL
  apply filter_eq_self_of_forall
  intro x hx
  rw [List.filter_eq_nil_iff] at h
  have := h x hx
  simpa using this

/-- **`counter_inv` (preservation)**: consuming the intersection `Q ∩ B` turns the invariant for `Q`
into the invariant for `Q ∖ B` -/
theorem CInv.consume {s : Nat} {cand : List (Sig LS)} {Q B : List Nat} {c : Counter LS} {inter : LS}
    (hc : CInv s cand Q c) (hs : inter.scaled = s) (hI : inter.hs = Q.filter (inL B)) (hQ : Sorted Q) :
    ∃ c', c.consume lsOps inter = .ok c' ∧ CInv s cand (diffL Q B) c' ∧
      c'.origQuery = c.origQuery ∧ c'.scaled = c.scaled := by
  unfold Counter.consume
  by_cases h0 : len lsOps inter = 0
  · rw [if_pos h0]
    have hnil : Q.filter (inL B) = [] := by
      rw [← hI]; exact List.eq_nil_of_length_eq_zero h0
    rw [diffL_eq_self_of_filter_nil hnil]
    exact ⟨c, rfl, hc, rfl, rfl⟩
  · rw [if_neg h0]
    obtain ⟨es', hr, h1, h2⟩ := consumeEntries_spec hs hI hQ c.entries hc.exact
    rw [hr]
    refine ⟨_, rfl, ⟨?_, ?_, ?_, ?_⟩, rfl, rfl⟩
    · intro e he; exact (h1 e he).1
    · intro e he
      obtain ⟨_, x, hx, hsig, _⟩ := h1 e he
      rw [hsig]; exact hc.sound x hx
    · intro d hd hne
      have hne0 : ovl Q (dn s d.mh.hs) ≠ 0 := by
        have := ovl_diff_le Q B (dn s d.mh.hs); omega
      obtain ⟨e, he, heq⟩ := hc.complete d hd hne0
      obtain ⟨e', he', hsig, _⟩ := h2 e he (by rw [heq]; exact hne)
      exact ⟨e', he', by rw [hsig]; exact heq⟩
    · intro hne
      apply hc.scaled_ok
      intro hnil
      apply hne
      show es' = []
      cases es' with
      | nil => rfl
      | cons x xs =>
        obtain ⟨_, y, hy, _⟩ := h1 x List.mem_cons_self
        rw [hnil] at hy; cases hy

theorem CInv.with_scaled {s : Nat} {cand : List (Sig LS)} {Q : List Nat} {c : Counter LS}
    (hc : CInv s cand Q c) : CInv s cand Q { c with scaled := s } :=
  ⟨hc.exact, hc.sound, hc.complete, fun _ => rfl⟩

theorem CInv.entry_wf {s : Nat} {cand : List (Sig LS)} {Q : List Nat} {c : Counter LS}
    (hc : CInv s cand Q c) : ∀ e ∈ c.entries, e.sig.mh.WF ∧ e.sig.mh.scaled ≤ s :=
  fun e he => ⟨(hc.exact e he).1, (hc.exact e he).2.1⟩

/-- **`greedy_max` for one counter**: a match returned by `peek` is a candidate whose overlap with the
unassigned hashes is maximal among all candidates and reaches the threshold; the intersection returned
is exactly (unassigned) ∩ (match) -/
theorem CInv.peek_some {σ : Type} {ops : ScoreOps σ} {s : Nat} {cand : List (Sig LS)} {Q : List Nat}
    {c c' : Counter LS} {cur : LS} {thr : Nat} {score : σ} {sig : Sig LS} {inter : LS}
    (hc : CInv s cand Q c) (hcur : dn s cur.hs = Q) (hcs : Sorted cur.hs) (hle : cur.scaled ≤ s)
    (h : c.peek lsOps ops cur thr = .ok (c', some (score, sig, inter))) :
    CInv s cand Q c' ∧ c'.origQuery = c.origQuery ∧ sig ∈ cand ∧
      inter = ⟨s, Q.filter (inL (dn s sig.mh.hs)), none⟩ ∧
      (∀ d ∈ cand, ovl Q (dn s d.mh.hs) ≤ ovl Q (dn s sig.mh.hs)) ∧
      reaches thr s Q.length (ovl Q (dn s sig.mh.hs)) ∧
      score = ops.contained (ovl Q (dn s sig.mh.hs)) Q.length s ∧
      ops.isZero score = false ∧ Q ≠ [] := by
  have hne : c.entries ≠ [] := by
    intro h0
    unfold Counter.peek at h
    rw [h0] at h
    simp at h
  have hsc : max c.scaled cur.scaled = s := by rw [hc.scaled_ok hne]; omega
  have hexact : ∀ e ∈ c.entries, e.count = (ovl (dn s cur.hs) (dn s e.sig.mh.hs) : Int) := by
    intro e he; rw [hcur]; exact (hc.exact e he).2.2
  obtain ⟨hc', best, hbest, hsig, hint, hreach, hscore, hz, hq⟩ :=
    Counter.peek_some hsc hcs hc.entry_wf hexact h
  obtain ⟨hbmem, hbmax⟩ := mostCommon_some hbest
  rw [hcur] at hint hreach hscore hq
  subst hsig
  have hbcount := (hc.exact best hbmem).2.2
  refine ⟨?_, ?_, hc.sound best hbmem, hint, ?_, ?_, hscore, hz, hq⟩
  · rw [hc']; exact hc.with_scaled
  · rw [hc']
  · intro d hd
    by_cases h0 : ovl Q (dn s d.mh.hs) = 0
    · omega
    · obtain ⟨e, he, heq⟩ := hc.complete d hd h0
      have h1 := hbmax e he
      have h2 := (hc.exact e he).2.2
      rw [heq] at h2
      rw [h2, hbcount] at h1
      exact_mod_cast h1
  · rw [hbcount] at hreach; exact hreach

/-- **`stops_only_below` for one counter**: no match means the unassigned set is empty, or no candidate
overlaps it any more, or the best remaining overlap does not reach the threshold -/
theorem CInv.peek_none {σ : Type} {ops : ScoreOps σ} {s : Nat} {cand : List (Sig LS)} {Q : List Nat}
    {c c' : Counter LS} {cur : LS} {thr : Nat}
    (hc : CInv s cand Q c) (hcur : dn s cur.hs = Q) (hcs : Sorted cur.hs) (hle : cur.scaled ≤ s)
    (h : c.peek lsOps ops cur thr = .ok (c', none)) :
    CInv s cand Q c' ∧ c'.origQuery = c.origQuery ∧
    (Q = [] ∨ (∀ d ∈ cand, ovl Q (dn s d.mh.hs) = 0) ∨
      ∃ b ∈ cand, (∀ d ∈ cand, ovl Q (dn s d.mh.hs) ≤ ovl Q (dn s b.mh.hs)) ∧
        ¬ reaches thr s Q.length (ovl Q (dn s b.mh.hs))) := by
  by_cases hne : c.entries = []
  · have : c' = c := by
      unfold Counter.peek at h
      rw [hne] at h
      simp only [List.isEmpty_nil, if_true, Except.ok.injEq, Prod.mk.injEq, and_true] at h
      exact h.symm
    subst this
    refine ⟨hc, rfl, Or.inr (Or.inl ?_)⟩
    intro d hd
    by_cases h0 : ovl Q (dn s d.mh.hs) = 0
    · exact h0
    · obtain ⟨e, he, _⟩ := hc.complete d hd h0
      rw [hne] at he; cases he
  · have hsc : max c.scaled cur.scaled = s := by rw [hc.scaled_ok hne]; omega
    have hexact : ∀ e ∈ c.entries, e.count = (ovl (dn s cur.hs) (dn s e.sig.mh.hs) : Int) := by
      intro e he; rw [hcur]; exact (hc.exact e he).2.2
    obtain ⟨h1, h2, h2b, h3⟩ := Counter.peek_none hsc hcs hc.entry_wf hexact h
    rw [hcur] at h3
    have hc' : CInv s cand Q c' := by
      refine ⟨by rw [h1]; exact hc.exact, by rw [h1]; exact hc.sound, by rw [h1]; exact hc.complete, ?_⟩
      intro _
      exact h2b hne
    refine ⟨hc', h2, ?_⟩
    rcases h3 with h3 | h3 | ⟨best, hbest, hnr⟩
    · exact absurd h3 hne
    · exact Or.inl h3
    · right; right
      obtain ⟨hbmem, hbmax⟩ := mostCommon_some hbest
      have hbcount := (hc.exact best hbmem).2.2
      refine ⟨best.sig, hc.sound best hbmem, ?_, by rw [hbcount] at hnr; exact hnr⟩
      intro d hd
      by_cases h0 : ovl Q (dn s d.mh.hs) = 0
      · omega
      · obtain ⟨e, he, heq⟩ := hc.complete d hd h0
        have h1 := hbmax e he
        have h2 := (hc.exact e he).2.2
        rw [heq] at h2
        rw [h2, hbcount] at h1
        exact_mod_cast h1

end Sm.Gather
