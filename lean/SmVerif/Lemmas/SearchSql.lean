/-
C06, SQLite index: the signed mapping `convert_hash_to/from` is a bijection between `u64` and
`i64` that preserves order on the non-negative half, so the SQL clause
`hashval >= 0 AND hashval <= max_hash` selects exactly the stored hashes `≤ max_hash` whenever
`max_hash ≤ MAX_SQLITE_INT`; the clause never removes a row that matches a query hash
(`range_clause_redundant`); the size `_load_sketch_size` reports.
-/
import SmVerif.Lemmas.SearchSbt

namespace Sm.Search

open Sm

theorem sqlMaxInt_eq : Gen.sqlMaxInt = 2 ^ 63 - 1 := by decide

theorem convTo_of_le {h : Nat} (hh : h ≤ Gen.sqlMaxInt) : convTo h = (h : Int) := by
  unfold convTo; rw [if_neg (by omega)]

theorem convTo_of_gt {h : Nat} (hh : h > Gen.sqlMaxInt) : convTo h = (h : Int) - 2 ^ 64 := by
  unfold convTo; rw [if_pos hh]

/-- the stored value is a signed 64-bit integer -/
theorem convTo_range {h : Nat} (hh : h < 2 ^ 64) : -(2 ^ 63 : Int) ≤ convTo h ∧ convTo h < 2 ^ 63 := by
  have e := sqlMaxInt_eq
  by_cases c : h > Gen.sqlMaxInt
  · rw [convTo_of_gt c]; omega
  · rw [convTo_of_le (by omega)]; omega

theorem convFrom_convTo {h : Nat} (hh : h < 2 ^ 64) : convFrom (convTo h) = h := by
  have e := sqlMaxInt_eq
  unfold convFrom
  by_cases c : h > Gen.sqlMaxInt
  · rw [convTo_of_gt c, if_pos (by omega)]; omega
  · rw [convTo_of_le (by omega), if_neg (by omega)]; omega

theorem convTo_convFrom {x : Int} (h1 : -(2 ^ 63 : Int) ≤ x) (h2 : x < 2 ^ 63) : convTo (convFrom x) = x := by
  have e := sqlMaxInt_eq
  unfold convFrom
  by_cases c : x < 0
  · rw [if_pos c, convTo_of_gt (by omega)]; omega
  · rw [if_neg c, convTo_of_le (by omega)]; omega

theorem convTo_injective {a b : Nat} (ha : a < 2 ^ 64) (hb : b < 2 ^ 64) (h : convTo a = convTo b) : a = b := by
  rw [← convFrom_convTo ha, ← convFrom_convTo hb, h]

/-- **order on the non-negative half**: for a bound `M ≤ MAX_SQLITE_INT`, a `u64` hash is `≤ M`
iff its stored value satisfies the SQL range clause -/
theorem convert_order {h M : Nat} (hh : h < 2 ^ 64) (hM : M ≤ Gen.sqlMaxInt) :
    h ≤ M ↔ (0 ≤ convTo h ∧ convTo h ≤ (M : Int)) := by
  have e := sqlMaxInt_eq
  by_cases c : h > Gen.sqlMaxInt
  · rw [convTo_of_gt c]; omega
  · rw [convTo_of_le (by omega)]; omega

/-! ### the table of one sketch -/

/-- the rows `insert` writes for a sketch -/
def rowsOf (id : Nat) (s : MH) : List (Int × Nat) := s.mins.map (fun h => (convTo h, id))

/-- the size clause on the rows of one sketch: with `max_hash ≤ MAX_SQLITE_INT` it counts the
hashes `≤ max_hash` -/
theorem size_clause_le {id M : Nat} {s : MH} (hM : M ≤ Gen.sqlMaxInt) (hU : ∀ h ∈ s.mins, h < 2 ^ 64) :
    ((rowsOf id s).filter (fun r => decide (r.2 = id ∧ r.1 ≥ 0 ∧ r.1 ≤ (M : Int)))).length =
      (s.mins.filter (fun h => decide (h ≤ M))).length := by
  unfold rowsOf
  rw [List.filter_map, List.length_map]
  congr 1
  apply List.filter_congr
  intro h hh
  have := convert_order (hU h hh) hM
  simp only [Function.comp]
  by_cases c : h ≤ M
  · have := this.1 c; simp [c, this.1, this.2]
  · have h' : ¬ (0 ≤ convTo h ∧ convTo h ≤ (M : Int)) := fun x => c (this.2 x)
    simp only [c, decide_false, true_and]
    simp only [decide_eq_false_iff_not]
    exact h'

/-- **order on the whole `u64` range**: for a bound `M > MAX_SQLITE_INT`, a hash is `≤ M` iff its
stored value is non-negative or at most the stored value of `M` -/
theorem convert_order_high {h M : Nat} (hh : h < 2 ^ 64) (hM : M > Gen.sqlMaxInt) :
    h ≤ M ↔ (0 ≤ convTo h ∨ convTo h ≤ convTo M) := by
  have e := sqlMaxInt_eq
  rw [convTo_of_gt hM]
  by_cases c : h > Gen.sqlMaxInt
  · rw [convTo_of_gt c]; omega
  · rw [convTo_of_le (by omega)]; omega

/-- the size clause used when `max_hash > MAX_SQLITE_INT` also counts the hashes `≤ max_hash` -/
theorem size_clause_gt {id M : Nat} {s : MH} (hM : M > Gen.sqlMaxInt)
    (hU : ∀ h ∈ s.mins, h < 2 ^ 64) :
    ((rowsOf id s).filter (fun r => decide (r.2 = id ∧ (r.1 ≥ 0 ∨ r.1 ≤ convTo M)))).length =
      (s.mins.filter (fun h => decide (h ≤ M))).length := by
  unfold rowsOf
  rw [List.filter_map, List.length_map]
  congr 1
  apply List.filter_congr
  intro h hh
  have := convert_order_high (hU h hh) hM
  simp only [Function.comp]
  by_cases c : h ≤ M
  · have h1 := this.1 c
    simp only [c, decide_true, true_and]
    exact decide_eq_true h1
  · have h' : ¬ (0 ≤ convTo h ∨ convTo h ≤ convTo M) := fun x => c (this.2 x)
    simp only [c, decide_false, true_and]
    exact decide_eq_false h'

/-- **the range clause of `_get_matching_sketches` is redundant**: it never removes a row whose
hash is one of the query's (all of which are `≤ min(max_hash, max(hashes))`) -/
theorem range_clause_redundant {Q : List Nat} {maxHash mx : Nat} (hb : ∀ h ∈ Q, h ≤ maxHash)
    (hmx : ∀ h ∈ Q, h ≤ mx) (hU : ∀ h ∈ Q, h < 2 ^ 64) {hv : Int}
    (hq : hv ∈ Q.map convTo) (hle : min maxHash mx ≤ Gen.sqlMaxInt) :
    0 ≤ hv ∧ hv ≤ ((min maxHash mx : Nat) : Int) := by
  obtain ⟨h, hh, rfl⟩ := List.mem_map.1 hq
  have h1 := hb h hh
  have h2 := hmx h hh
  exact (convert_order (hU h hh) hle).1 (by omega)

/-- the number of rows of a sketch joined with the query's hashes is the size of the overlap -/
theorem join_count {id : Nat} {s : MH} {Q : List Nat} (hU : ∀ h ∈ s.mins, h < 2 ^ 64)
    (hQ : ∀ h ∈ Q, h < 2 ^ 64) :
    ((rowsOf id s).filter (fun r => (Q.map convTo).contains r.1)).length =
      (s.mins.filter (fun h => decide (h ∈ Q))).length := by
  unfold rowsOf
  rw [List.filter_map, List.length_map]
  congr 1
  apply List.filter_congr
  intro h hh
  simp only [Function.comp]
  have key : (Q.map convTo).contains (convTo h) = true ↔ h ∈ Q := by
    rw [List.contains_iff_mem, List.mem_map]
    constructor
    · intro ⟨h', hh', e⟩
      exact convTo_injective (hQ h' hh') (hU h hh) e ▸ hh'
    · intro c
      exact ⟨h, c, rfl⟩
  by_cases c : h ∈ Q
  · rw [key.2 c]; simp [c]
  · have : (Q.map convTo).contains (convTo h) = false := by
      cases hcon : (Q.map convTo).contains (convTo h) with
      | true => exact absurd (key.1 hcon) c
      | false => rfl
    rw [this]; simp [c]

end Sm.Search
