/-
C09 helper lemmas: pickling and copying a `MinHash` rebuilds exactly the same sketch.

`__setstate__` / `__copy__` create a fresh object from `(num, ksize, flags, seed,
track_abundance, max_hash)` -- going through `scaled = _get_scaled_for_max_hash(max_hash)`
and back through `max_hash_for_scaled` -- and then re-add the hashes.  For a sketch
satisfying the representation invariant (`Inv`), with a threshold that survives the
conversion (`mhR (scP M) = M`: C03, every `M = mhR S`, `S ≤ 2^31`), the result has the same
fields and an empty md5 cache.
-/
import SmVerif.Lemmas.SigJsonCodec
import SmVerif.Lemmas.Scaled
import SmVerif.Model.DriverJson

namespace Sm.SigJson

open Sm MH

/-! ### adding ascending hashes appends -/

theorem addHashAb_append {s : MH} {h a : Nat} (hlt : ∀ x ∈ s.mins, x < h) (ha : a ≠ 0)
    (hM : s.maxHash ≠ 0 → h ≤ s.maxHash) (hN : s.maxHash = 0 → s.mins.length < s.num) :
    s.addHashAb h a =
      { s with mins := s.mins ++ [h], abunds := s.abunds.map (fun ab => ab ++ [a]), md5 := none } := by
  unfold MH.addHashAb
  simp only
  have c1 : ¬ (h > s.maxHash ∧ s.maxHash ≠ 0) := by
    intro hc; have := hM hc.2; omega
  have c2 : ¬ (s.num = 0 ∧ s.maxHash = 0) := by
    intro hc; have := hN hc.2; omega
  rw [if_neg c1, if_neg c2, if_neg ha]
  by_cases he : s.mins.isEmpty = true
  · rw [if_pos he]
    have : s.mins = [] := List.isEmpty_iff.mp he
    simp [this]
  · rw [if_neg he]
    have c5 : h ≤ s.maxHash ∨ h ≤ lastOr s.mins U64MAX ∨ s.mins.length < s.num := by
      by_cases hm : s.maxHash = 0
      · exact Or.inr (Or.inr (hN hm))
      · exact Or.inl (hM hm)
    rw [if_pos c5]
    have hpos : lowerBound s.mins h = s.mins.length := lowerBound_eq_length_iff.mpr hlt
    simp [hpos]

theorem option_map_append (o : Option (List Nat)) (a : Nat) (rest : List Nat) :
    (o.map (fun ab => ab ++ [a])).map (fun ab => ab ++ rest) = o.map (fun ab => ab ++ a :: rest) := by
  cases o <;> simp

/-- re-adding strictly ascending (hash, abundance) pairs to a sketch whose hashes are all smaller -/
theorem addManyAb_ascending : ∀ (ps : List (Nat × Nat)) {s : MH}, Sorted (ps.map Prod.fst) →
    (∀ p ∈ ps, p.2 ≠ 0) → (∀ x ∈ s.mins, ∀ p ∈ ps, x < p.1) →
    (s.maxHash ≠ 0 → ∀ p ∈ ps, p.1 ≤ s.maxHash) →
    (s.maxHash = 0 → s.mins.length + ps.length ≤ s.num) → s.md5 = none →
    s.addManyAb ps =
      { s with mins := s.mins ++ ps.map Prod.fst,
               abunds := s.abunds.map (fun ab => ab ++ ps.map Prod.snd), md5 := none }
  | [], s, _, _, _, _, _, hmd => by
    obtain ⟨num, maxHash, ksize, seed, hf, mins, abunds, md5⟩ := s
    simp only at hmd
    subst hmd
    cases abunds <;> simp [MH.addManyAb]
  | p :: ps, s, hs, hpos, hlt, hM, hN, _ => by
    have hs' := List.pairwise_cons.mp hs
    have hstep := addHashAb_append (s := s) (h := p.1) (a := p.2)
      (fun x hx => hlt x hx p (by simp)) (hpos p (by simp))
      (fun hm => hM hm p (by simp))
      (fun hm => by have := hN hm; simp at this; omega)
    have ih := addManyAb_ascending ps
      (s := { s with mins := s.mins ++ [p.1], abunds := s.abunds.map (fun ab => ab ++ [p.2]), md5 := none })
      hs'.2 (fun q hq => hpos q (by simp [hq]))
      (by
        intro x hx q hq
        simp only [List.mem_append, List.mem_singleton] at hx
        rcases hx with hx | rfl
        · exact hlt x hx q (by simp [hq])
        · exact hs'.1 q.1 (List.mem_map.mpr ⟨q, hq, rfl⟩))
      (fun hm q hq => hM hm q (by simp [hq]))
      (fun hm => by have := hN hm; simp at this ⊢; omega)
      rfl
    show (s.addHashAb p.1 p.2).addManyAb ps = _
    rw [hstep, ih]
    cases hab : s.abunds <;> simp [List.append_assoc]

/-! ### the `hashes` dict of a valid sketch is its pair list -/

theorem foldl_dictInsert_fresh : ∀ (ps acc : List (Nat × Nat)),
    (ps.map Prod.fst).Nodup → (∀ p ∈ ps, ∀ q ∈ acc, q.1 ≠ p.1) →
    ps.foldl (fun d p => Py.dictInsert d p.1 p.2) acc = acc ++ ps
  | [], acc, _, _ => by simp
  | p :: ps, acc, hnd, hfresh => by
    have hnd' := List.nodup_cons.mp hnd
    have hno : (acc.any fun q => q.1 == p.1) = false := by
      rw [List.any_eq_false]
      intro q hq
      have := hfresh p (by simp) q hq
      simpa using this
    have hins : Py.dictInsert acc p.1 p.2 = acc ++ [p] := by
      unfold Py.dictInsert
      simp [hno]
    rw [List.foldl_cons, hins]
    rw [foldl_dictInsert_fresh ps (acc ++ [p]) hnd'.2 (by
      intro q hq r hr
      simp only [List.mem_append, List.mem_singleton] at hr
      rcases hr with hr | rfl
      · exact hfresh q (by simp [hq]) r hr
      · intro heq
        exact hnd'.1 (List.mem_map.mpr ⟨q, hq, heq.symm⟩))]
    simp

theorem dictOf_of_nodup {ps : List (Nat × Nat)} (h : (ps.map Prod.fst).Nodup) : Py.dictOf ps = ps := by
  unfold Py.dictOf
  rw [foldl_dictInsert_fresh ps [] h (by intro p _ q hq; cases hq)]
  simp

theorem Sorted.nodup {l : List Nat} (h : Sorted l) : l.Nodup :=
  List.Pairwise.imp (fun hab => Nat.ne_of_lt hab) h

/-- `MinHash.hashes` of a sketch with strictly ascending, aligned vectors -/
theorem hashes_eq_pairs {m : MH} (hi : InvW m) : Py.hashes m = m.pairs := by
  unfold Py.hashes
  apply dictOf_of_nodup
  rw [pairs_keys hi]
  exact Sorted.nodup hi.sorted

/-! ### flags and k -/

theorem hfOfFlags_flagsOf {hf : Nat} (h1 : 1 ≤ hf) (h4 : hf ≤ 4) : Py.hfOfFlags (Py.flagsOf hf) = hf := by
  have : hf = 1 ∨ hf = 2 ∨ hf = 3 ∨ hf = 4 := by omega
  rcases this with rfl | rfl | rfl | rfl <;> rfl

/-- the k a user sees, multiplied back, is the stored k -/
theorem ksizeProp_ok {m : MH} (hk : m.hf = 1 ∨ m.ksize % 3 = 0) :
    ∃ k, Py.ksizeProp m = .ok k ∧ Py.ctorKsize m.hf k = m.ksize := by
  unfold Py.ksizeProp Py.ctorKsize
  by_cases h1 : m.hf = 1
  · exact ⟨m.ksize, by simp [h1], by simp [h1]⟩
  · have h3 : m.ksize % 3 = 0 := by rcases hk with h | h; exact absurd h h1; exact h
    refine ⟨m.ksize / 3, by simp [h1, h3], ?_⟩
    simp only [h1, if_false]
    omega

/-! ### what a sketch must satisfy for pickle / copy to be the identity -/

structure PyStable (m : MH) : Prop where
  inv : Inv m
  excl : Excl m
  nonzero : m.num ≠ 0 ∨ m.maxHash ≠ 0
  stable : mhR (scP m.maxHash) = m.maxHash
  hf : 1 ≤ m.hf ∧ m.hf ≤ 4
  k3 : m.hf = 1 ∨ m.ksize % 3 = 0

/-- C03: a threshold that came from a scaled value up to 2^31 survives the Python conversion -/
theorem stable_of_scaled {S : Nat} (h1 : 1 ≤ S) (h2 : S ≤ 2 ^ 31) : mhR (scP (mhR S)) = mhR S := by
  rw [scP_mhR h1 h2]

theorem stable_zero : mhR (scP 0) = 0 := by rw [scP_zero, mhR_zero]

theorem new_fields (sc k hf seed : Nat) (tr : Bool) (n : Nat) :
    MH.new sc k hf seed tr n =
      { num := n, maxHash := mhR sc, ksize := k, seed := seed, hf := hf, mins := [],
        abunds := if tr then some [] else none, md5 := none } := rfl

theorem pairs_sorted_keys {m : MH} (hi : InvW m) : Sorted (m.pairs.map Prod.fst) := by
  rw [pairs_keys hi]; exact hi.sorted

theorem pairs_snd {m : MH} (hi : InvW m) :
    m.abunds.map (fun _ => m.pairs.map Prod.snd) = m.abunds := by
  cases hab : m.abunds with
  | none => rfl
  | some ab =>
    simp only [Option.map_some, pairs_some hab]
    rw [List.map_snd_zip (Nat.le_of_eq (hi.aligned ab hab))]

theorem pairs_lexLe {m : MH} (hi : InvW m) : m.pairs.Pairwise LexLe := by
  have hk := pairs_sorted_keys hi
  generalize m.pairs = ps at hk
  induction ps with
  | nil => exact List.Pairwise.nil
  | cons p ps ih =>
    simp only [List.map_cons] at hk
    have hk' := List.pairwise_cons.mp hk
    exact List.pairwise_cons.mpr
      ⟨fun q hq => Or.inl (hk'.1 q.1 (List.mem_map.mpr ⟨q, hq, rfl⟩)), ih hk'.2⟩

theorem clear_new (sc k hf seed : Nat) (tr : Bool) (n : Nat) :
    (MH.new sc k hf seed tr n).clear = MH.new sc k hf seed tr n := by
  cases tr <;> rfl

/-- re-adding the pairs of a valid sketch to a fresh one with the same parameters -/
theorem readd_fresh {m : MH} (hi : Inv m) (hnz : m.num ≠ 0 ∨ m.maxHash ≠ 0) (sc : Nat) (hsc : mhR sc = m.maxHash) :
    (MH.new sc m.ksize m.hf m.seed m.trackAbundance m.num).addManyAb m.pairs = { m with md5 := none } := by
  have hw := hi.toW
  have hkeys := pairs_keys hw
  have hsorted := pairs_sorted_keys hw
  have hpos : ∀ p ∈ m.pairs, p.2 ≠ 0 := fun p hp => Nat.ne_of_gt (pairs_pos hw p hp)
  have hbound : m.maxHash ≠ 0 → ∀ p ∈ m.pairs, p.1 ≤ m.maxHash := by
    intro hm p hp
    exact hi.bounded hm p.1 (by rw [← hkeys]; exact List.mem_map.mpr ⟨p, hp, rfl⟩)
  have hcap : m.maxHash = 0 → m.pairs.length ≤ m.num := by
    intro hm
    have hn : m.num ≠ 0 := by rcases hnz with hn | hn; exact hn; exact absurd hm hn
    rw [pairs_length hw]
    exact hi.capped hn
  have hsnd := pairs_snd hw
  have hmax : (MH.new sc m.ksize m.hf m.seed m.trackAbundance m.num).maxHash = m.maxHash := hsc
  rw [addManyAb_ascending m.pairs (s := MH.new sc m.ksize m.hf m.seed m.trackAbundance m.num) hsorted hpos
    (by intro x hx; cases hx)
    (by intro hm; rw [hmax] at hm ⊢; exact hbound hm)
    (by intro hm; rw [hmax] at hm; have := hcap hm; simpa [MH.new] using this)
    rfl]
  obtain ⟨num, maxHash, ksize, seed, hf, mins, abunds, md5⟩ := m
  simp only at hkeys hsc hsnd
  cases abunds with
  | none => simp [MH.new, MH.trackAbundance, hsc, hkeys]
  | some ab =>
    simp only [Option.map_some, Option.some.injEq] at hsnd
    simp [MH.new, MH.trackAbundance, hsc, hkeys, hsnd]

/-- the heart of `__setstate__`: re-adding the pairs of a valid sketch to a fresh one -/
theorem rebuild {m : MH} (h : PyStable m) :
    Sm.Py.setState m.num m.ksize m.hf m.seed m.trackAbundance m.maxHash m.pairs = { m with md5 := none } := by
  have hw := h.inv.toW
  unfold Sm.Py.setState
  simp only
  by_cases ht : m.trackAbundance = true
  · rw [if_pos ht]
    unfold MH.ffiSetAbundances
    simp only [if_true]
    rw [sortPairs_of_sorted (pairs_lexLe hw), clear_new]
    exact readd_fresh h.inv h.nonzero (scP m.maxHash) h.stable
  · rw [if_neg ht]
    have htf : m.trackAbundance = false := by simpa using ht
    have hnone : m.abunds = none := by
      unfold MH.trackAbundance at htf
      cases hab : m.abunds with
      | none => rfl
      | some ab => rw [hab] at htf; simp at htf
    have hp : m.pairs = ones m.mins := pairs_none hnone
    have hfst : m.pairs.map Prod.fst = m.mins := pairs_keys hw
    rw [hfst, addMany_eq_addManyAb, ← hp]
    exact readd_fresh h.inv h.nonzero (scP m.maxHash) h.stable

/-- **pickle**: `__getstate__` then `__setstate__` gives back the same sketch (fresh md5 cache) -/
theorem pickleMH_eq {m : MH} (h : PyStable m) : Py.pickleMH m = .ok { m with md5 := none } := by
  obtain ⟨k, hk, hck⟩ := ksizeProp_ok h.k3
  unfold Py.pickleMH
  simp only [hk, bind, Except.bind, pure, Except.pure]
  have hks : (if m.hf = 1 then k else k * 3) = m.ksize := by
    unfold Py.ctorKsize at hck; exact hck
  rw [hks, hfOfFlags_flagsOf h.hf.1 h.hf.2, hashes_eq_pairs h.inv.toW, rebuild h]

/-- merging a valid sketch into a fresh one with the same parameters -/
theorem merge_into_fresh {m : MH} (hi : Inv m) (sc : Nat) (hsc : mhR sc = m.maxHash) :
    (MH.new sc m.ksize m.hf m.seed m.trackAbundance m.num).merge m = .ok { m with md5 := none } := by
  have hw := hi.toW
  have hkeys := pairs_keys hw
  have hsnd := pairs_snd hw
  have hplen := pairs_length hw
  have hcap := hi.capped
  have hc := checkCompatible_ok_of (s := MH.new sc m.ksize m.hf m.seed m.trackAbundance m.num) (o := m)
    rfl rfl hsc rfl
  have hempty : (MH.new sc m.ksize m.hf m.seed m.trackAbundance m.num).pairs = [] := by
    unfold MH.trackAbundance
    cases m.abunds <;> simp [MH.new, MH.pairs, ones]
  unfold MH.merge
  rw [hc]
  simp only [bind, Except.bind, pure, Except.pure, hempty]
  have hmp : mergeP [] m.pairs = m.pairs := rfl
  rw [hmp]
  have hnotake : ¬ (m.pairs.length > (MH.new sc m.ksize m.hf m.seed m.trackAbundance m.num).num ∧
      (MH.new sc m.ksize m.hf m.seed m.trackAbundance m.num).num ≠ 0) := by
    intro hcn
    have h1 : (MH.new sc m.ksize m.hf m.seed m.trackAbundance m.num).num = m.num := rfl
    rw [h1, hplen] at hcn
    have := hcap hcn.2
    omega
  rw [if_neg hnotake, hkeys]
  obtain ⟨num, maxHash, ksize, seed, hf, mins, abunds, md5⟩ := m
  simp only at hsc hsnd
  cases abunds with
  | none => simp [MH.new, MH.trackAbundance, hsc]
  | some ab =>
    simp only [Option.map_some, Option.some.injEq] at hsnd
    simp [MH.new, MH.trackAbundance, hsc, hsnd]

/-- the constructor call inside `__copy__` succeeds and yields a fresh sketch with the same threshold -/
theorem mkMinHash_for_copy {m : MH} (h : PyStable m) :
    ∃ sc, Sm.Py.mkMinHash m.num m.ksize m.hf m.seed m.trackAbundance m.maxHash 0 =
        .ok (MH.new sc m.ksize m.hf m.seed m.trackAbundance m.num) ∧ mhR sc = m.maxHash := by
  have hst := h.stable
  have hx := h.excl
  have hnz := h.nonzero
  unfold Excl at hx
  unfold Sm.Py.mkMinHash
  by_cases hm : m.maxHash = 0
  · have hn : m.num ≠ 0 := by rcases hnz with hn | hn; exact hn; exact absurd hm hn
    refine ⟨0, ?_, by rw [hm]; rfl⟩
    simp [hm, hn]
  · have hn : m.num = 0 := by rcases hx with hn | hn; exact hn; exact absurd hn hm
    have hs0 : scP m.maxHash ≠ 0 := by
      intro hz
      rw [hz, mhR_zero] at hst
      exact hm hst.symm
    refine ⟨scP m.maxHash, ?_, hst⟩
    simp [hm, hn, hs0]

/-- **copy**: `MinHash.__copy__` gives back the same sketch (fresh md5 cache) -/
theorem copyMH_eq {m : MH} (h : PyStable m) : Py.copyMH m = .ok { m with md5 := none } := by
  obtain ⟨k, hk, hck⟩ := ksizeProp_ok h.k3
  obtain ⟨sc, hmk, hsc⟩ := mkMinHash_for_copy h
  unfold Py.copyMH Py.mkMH
  simp only [hk, bind, Except.bind, hfOfFlags_flagsOf h.hf.1 h.hf.2, hck, hmk, Py.liftMH,
    merge_into_fresh h.inv sc hsc]

/-! ### the driver's short-cut for `hashes` is `hashes` -/

theorem sorted_of_strictlyAscending : ∀ (l : List Nat), DriverJson.strictlyAscending l = true → Sorted l
  | [], _ => List.Pairwise.nil
  | [_], _ => List.pairwise_singleton _ _
  | a :: b :: r, h => by
    simp only [DriverJson.strictlyAscending, Bool.and_eq_true, decide_eq_true_eq] at h
    have ih := sorted_of_strictlyAscending (b :: r) h.2
    refine List.pairwise_cons.mpr ⟨?_, ih⟩
    intro x hx
    rcases List.mem_cons.mp hx with rfl | hx
    · exact h.1
    · exact Nat.lt_trans h.1 ((List.pairwise_cons.mp ih).1 x hx)

theorem hashesFast_eq (m : MH) : DriverJson.hashesFast m = Py.hashes m := by
  unfold DriverJson.hashesFast
  generalize hcond : (DriverJson.strictlyAscending m.mins &&
    (match m.abunds with
     | some ab => ab.length == m.mins.length
     | none => true)) = c
  cases c with
  | false => simp
  | true =>
    simp only [if_true]
    rw [Bool.and_eq_true] at hcond
    have hs := sorted_of_strictlyAscending _ hcond.1
    symm
    unfold Py.hashes
    apply dictOf_of_nodup
    have hk : m.pairs.map Prod.fst = m.mins := by
      unfold MH.pairs
      cases hab : m.abunds with
      | none => simp [ones, Function.comp_def]
      | some ab =>
        have hl := hcond.2
        rw [hab] at hl
        simp only [beq_iff_eq] at hl
        exact List.map_fst_zip (Nat.le_of_eq hl.symm)
    rw [hk]
    exact Sorted.nodup hs

theorem pickleMHFast_eq (m : MH) : DriverJson.pickleMHFast m = Py.pickleMH m := by
  unfold DriverJson.pickleMHFast Py.pickleMH
  rw [hashesFast_eq]

theorem pickleSigFast_eq (s : Sig) : DriverJson.pickleSigFast s = Py.pickleSig s := by
  unfold DriverJson.pickleSigFast Py.pickleSig
  simp only [pickleMHFast_eq]

end Sm.SigJson
