/-
Index versions 1 and 2 (`_load_v1` / `_load_v2`): with the loader ending in `_fill_min_n_below()`
(`fills = true`, candidate patch C13.3) a legacy load of a fully saved insertion-built tree is the
version-3 load, hence establishes `Cover`; without it (`fills = false`, the source as it is) no
internal node records a size bound.
-/
import SmVerif.Lemmas.SBTV3

namespace Sm.SBT

/-- the factory re-derived from the root's filter file reproduces the tree's own factory: the
first table size, rounded to the hundred as `extract_nodegraph_info` does, selects the same primes -/
def LegacySizesOK (sizes : List Nat) : Prop :=
  ∃ s rest, sizes = s :: rest ∧ NG.tableSizes (round100 s) (rest.length + 1) = s :: rest

theorem loadLegacy_eq_v3 {fixed : Bool} {t : Tree} {m M : Nat} (hb : Base t) (hs : Shape t m M)
    (hz : LegacySizesOK t.sizes) (cm : Option Nat) :
    loadLegacy fixed true (save t (fun _ => false)) cm = load fixed (save t (fun _ => false)) 3 cm := by
  obtain ⟨s, rest, hsz, hts⟩ := hz
  obtain ⟨⟨n0, hn0⟩, _⟩ := hs.node_at (p := 0) (by have := hs.m1; omega)
  have hd0 := data_ok hb.sizes (hb.nodesOK 0 n0 hn0)
  have hroot : PMap.get? (save t (fun _ => false)).nodes 0 = some ⟨n0.data t.sizes, n0.minN⟩ := by
    rw [save_nodes_get?]; simp [hn0]
  have hbs : ∃ b bs, (n0.data t.sizes).bs = b :: bs ∧ b.length = s ∧ (b :: bs).length = rest.length + 1 := by
    have h1 : (n0.data t.sizes).sizes = s :: rest := by rw [hd0.2, hsz]
    unfold NG.sizes at h1
    cases hbs : (n0.data t.sizes).bs with
    | nil => rw [hbs] at h1; cases h1
    | cons b bs =>
      rw [hbs] at h1
      simp only [List.map_cons, List.cons.injEq] at h1
      refine ⟨b, bs, rfl, h1.1, ?_⟩
      have := congrArg List.length h1.2
      simp only [List.length_map] at this
      simp [this]
  obtain ⟨b, bs, hbb, hbl, hlen⟩ := hbs
  have hleaf : (save t (fun _ => false)).leaves.isEmpty = false := by
    show t.leaves.isEmpty = false
    exact not_isEmpty_of_get? ((hs.leaves m).mpr ⟨Nat.le_refl _, hs.mM⟩)
  rw [load_v3_eq]
  unfold loadLegacy
  simp only [hroot, hbb, hleaf, Bool.false_eq_true, ↓reduceIte]
  have hmiss : (v3Tree (save t (fun _ => false)) cm).missing = [] := by
    rw [v3Tree_missing]; exact loadMissing_save_shape hs
  have hsizes : NG.tableSizes (round100 b.length) (b :: bs).length = (save t (fun _ => false)).sizes := by
    rw [hbl, hlen, hts]; exact hsz.symm
  congr 1
  unfold v3Tree at hmiss ⊢
  simp only at hmiss
  rw [hmiss, hsizes]
  rfl

/-- **legacy loaders with the fill (candidate patch C13.3)**: `Cover` after a version-1/2 load of a
fully saved insertion-built tree -/
theorem cover_after_load_legacy {d : Nat} {sizes : List Nat} (hd : 2 ≤ d) (hsz : SizesOK sizes) {t t' : Tree}
    (hr : Reach d sizes t) (hsm : SmallLeaves t) (hz : LegacySizesOK t.sizes) (cm : Option Nat) {fixed : Bool}
    (h : loadLegacy fixed true (save t (fun _ => false)) cm = .ok t') :
    Base t' ∧ Cover t' ∧ t'.leaves = t.leaves := by
  obtain ⟨⟨hb, _, hsh⟩, _, _, _⟩ := reach_inv hd hsz hr
  rcases hsh with he | ⟨m, M, hs⟩
  · exfalso
    unfold loadLegacy at h
    have : PMap.get? (save t (fun _ => false)).nodes 0 = none := by
      rw [save_nodes_get?]; simp [he.1, PMap.get?_nil]
    simp [this] at h
  · rw [loadLegacy_eq_v3 hb hs hz cm] at h
    obtain ⟨h1, h2, h3, _⟩ := cover_after_load_v3 hd hsz hr hsm cm h
    exact ⟨h1, h2, h3⟩

/-- the loaders as they are (`fills = false`): every internal node of the loaded tree is without a
`min_n_below` -/
theorem loadLegacy_nofill_minN {fixed : Bool} {im : Image} {cm : Option Nat} {t' : Tree}
    (h : loadLegacy fixed false im cm = .ok t') : ∀ p n, t'.nodes.get? p = some n → n.minN = none := by
  unfold loadLegacy at h
  split at h
  · cases h
  · split at h
    · cases h
    · simp only [Bool.false_eq_true, ↓reduceIte, Except.ok.injEq] at h
      subst h
      intro p n hn
      simp only at hn
      rw [PMap.get?_map_val im.nodes (fun (sn : SavedNode) => (⟨none, some sn.data, true, none⟩ : INode)) p] at hn
      cases hg : PMap.get? im.nodes p with
      | none => rw [hg] at hn; cases hn
      | some sn => rw [hg] at hn; simp only [Option.map_some, Option.some.injEq] at hn; rw [← hn]

end Sm.SBT
