/-
C16: the placement loop of `compare_parallel` writes every cell AT MOST once
(together with `parallel_writes_cover`: exactly once).
-/
import Mathlib.Data.List.Nodup
import SmVerif.Lemmas.CompareFill

namespace Sm.Compare

variable {α : Type}

theorem zipIdx_map_range' {β : Type} (g : Nat → β) (s m : Nat) :
    ((List.range' s m).map g).zipIdx = (List.range m).map (fun c => (g (s + c), c)) := by
  apply List.ext_getElem?
  intro i
  simp only [List.getElem?_zipIdx, List.getElem?_map, Nat.zero_add]
  by_cases h : i < m
  · simp [List.getElem?_range' h, List.getElem?_range h]
  · rw [List.getElem?_eq_none (by simp; omega), List.getElem?_eq_none (by simp; omega)]
    rfl

theorem zipIdx_map_range {β : Type} (g : Nat → β) (n : Nat) :
    ((List.range n).map g).zipIdx = (List.range n).map (fun i => (g i, i)) := by
  rw [List.range_eq_range', zipIdx_map_range' g 0 n]
  simp [List.range_eq_range']

/-- the cells the placement loop assigns, in order -/
def parCells (n : Nat) : List (Nat × Nat) :=
  (List.range n).flatMap fun i => (List.range (n - (i + 1))).flatMap fun c => [(i, i + 1 + c), (c + (i + 1), i)]

theorem parWrites_cells (n : Nat) (f : Nat → Nat → α) :
    (parWrites (rowsOf n f)).map (fun w => (w.1, w.2.1)) = parCells n := by
  unfold parWrites rowsOf rowWrites parCells
  rw [zipIdx_map_range]
  simp only [List.flatMap_map, List.map_flatMap, zipIdx_map_range', List.map_cons, List.map_nil]

theorem parCells_nodup (n : Nat) : (parCells n).Nodup := by
  unfold parCells
  rw [List.nodup_flatMap]
  constructor
  · intro i _
    rw [List.nodup_flatMap]
    constructor
    · intro c _
      simp only [List.nodup_cons, List.mem_cons, Prod.mk.injEq, List.not_mem_nil, or_false, not_false_eq_true,
        List.nodup_nil, and_true]
      omega
    · apply List.Pairwise.imp _ (List.pairwise_lt_range)
      intro c c' hlt
      simp only [Function.onFun, List.disjoint_left, List.mem_cons, List.not_mem_nil, or_false]
      rintro x (rfl | rfl) <;> simp only [Prod.mk.injEq] <;> omega
  · apply List.Pairwise.imp _ (List.pairwise_lt_range)
    intro i j hlt
    simp only [Function.onFun, List.disjoint_left, List.mem_flatMap, List.mem_range, List.mem_cons,
      List.not_mem_nil, or_false]
    rintro x ⟨c, _, (rfl | rfl)⟩ ⟨c', _, h⟩ <;> simp only [Prod.mk.injEq] at h <;> omega

/-- no cell is assigned twice by the placement loop of `compare_parallel` -/
theorem parWrites_nodup (n : Nat) (f : Nat → Nat → α) :
    ((parWrites (rowsOf n f)).map (fun w => (w.1, w.2.1))).Nodup := by
  rw [parWrites_cells]
  exact parCells_nodup n

end Sm.Compare
