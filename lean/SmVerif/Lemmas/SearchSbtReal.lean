/-
C06 on the REAL tree model of C13 (`Model/SBT.lean`: positions, Nodegraph filters, the bounded node
cache, `unload`, `_rebuild_node`): C13 proves that `SBT.find`'s search of a `Searchable` tree returns
exactly the leaves that pass `leafPasses` -- with the threshold test modelled on integers
(`shared * 1000 ≥ thr * denom`, a threshold given in thousandths).  Here that integer test is shown
to be the binary64 test the code performs (`score >= threshold` with `score = fl(shared/denom)`,
`threshold = fl(thr/1000)`), so the result is brute force over the leaves in C06's sense: every leaf
whose score, as a double, passes the float threshold.
-/
import SmVerif.Lemmas.SBTSearch
import SmVerif.Lemmas.SearchThreshold
import SmVerif.Lemmas.SearchTree

namespace Sm.Search

open Sm F64

/-- the search mode a C13 query stands for (`maxc` wins, as in its `denomOf`) -/
def modeOfQuery (q : SBT.Query) : Mode :=
  if q.maxc then .maxContainment else if q.containment then .containment else .jaccard

/-- **C13's integer threshold test is the code's float test**, for a threshold of `thr/1000` and
sizes far below `2^51 / thr` -/
theorem sbtPasses_eq_float (q : SBT.Query) (shared denom : Nat) (b : Bool)
    (hsh : shared < 2 ^ 53) (hsmall : q.thr * denom < 2 ^ 51) :
    SBT.passes q shared denom = JS.passes ⟨modeOfQuery q, divNat q.thr 1000, b⟩ ⟨shared, denom⟩ := by
  unfold SBT.passes
  cases hp : JS.passes ⟨modeOfQuery q, divNat q.thr 1000, b⟩ ⟨shared, denom⟩ with
  | true =>
    rw [passes_iff] at hp
    obtain ⟨⟨h1, h2⟩, h3⟩ := hp
    simp only [Ratio.toF] at h3
    have hs0 : 0 < shared := Nat.pos_of_ne_zero h1
    have hd0 : 0 < denom := Nat.pos_of_ne_zero h2
    have hint : shared * 1000 ≥ q.thr * denom := by
      by_cases ht : q.thr = 0
      · rw [ht]; omega
      · exact (float_test_eq_rational hs0 hd0 (Nat.pos_of_ne_zero ht) (by decide) hsh hsmall).1 h3
    simp [h1, h2, hint]
  | false =>
    by_cases h1 : shared = 0
    · simp [h1]
    by_cases h2 : denom = 0
    · simp [h2]
    have hs0 : 0 < shared := Nat.pos_of_ne_zero h1
    have hd0 : 0 < denom := Nat.pos_of_ne_zero h2
    have hnot : ¬ (shared * 1000 ≥ q.thr * denom) := by
      intro hint
      have : JS.passes ⟨modeOfQuery q, divNat q.thr 1000, b⟩ ⟨shared, denom⟩ = true := by
        rw [passes_iff]
        refine ⟨⟨h1, h2⟩, ?_⟩
        simp only [Ratio.toF]
        by_cases ht : q.thr = 0
        · rw [ht, ge_iff_val]
          have : (divNat 0 1000).val = 0 := val_zero_mant (by unfold divNat; simp)
          rw [this]; exact F.val_nonneg _
        · exact (float_test_eq_rational hs0 hd0 (Nat.pos_of_ne_zero ht) (by decide) hsh hsmall).2 hint
      rw [this] at hp; cases hp
    simp [h1, h2, hnot]

/-- the score C06's `node_search` computes for a leaf, on C13's data -/
def leafRatio (q : SBT.Query) (l : SBT.Leaf) : Ratio :=
  let view := SBT.leafView q l
  let shared := SBT.interCount q.mins view
  scoreFn (modeOfQuery q) q.mins.length shared view.length (q.mins.length + view.length - shared)

theorem interCount_le (a b : List Nat) : SBT.interCount a b ≤ a.length := List.length_filter_le _ _

/-- `leafPasses` of C13 is the float test on the leaf's score -/
theorem leafPasses_eq_float (q : SBT.Query) (l : SBT.Leaf) (b : Bool)
    (hsmall : (q.thr + 1) * (q.mins.length + l.hashes.length) < 2 ^ 51) :
    SBT.leafPasses q l = JS.passes ⟨modeOfQuery q, divNat q.thr 1000, b⟩ (leafRatio q l) := by
  unfold SBT.leafPasses leafRatio
  simp only []
  generalize hv : SBT.leafView q l = view
  have hvl : view.length ≤ l.hashes.length := by
    rw [← hv]; unfold SBT.leafView; split
    · exact List.length_filter_le _ _
    · exact Nat.le_refl _
  have hshl := interCount_le q.mins view
  generalize SBT.interCount q.mins view = shared at *
  have hbig : q.mins.length + l.hashes.length < 2 ^ 51 := by
    have : q.mins.length + l.hashes.length ≤ (q.thr + 1) * (q.mins.length + l.hashes.length) :=
      Nat.le_mul_of_pos_left _ (Nat.succ_pos _)
    omega
  have hsh53 : shared < 2 ^ 53 := by
    have : (2 : Nat) ^ 51 < 2 ^ 53 := by decide
    omega
  have hden : ∀ denom, denom ≤ q.mins.length + l.hashes.length → q.thr * denom < 2 ^ 51 := by
    intro denom hd
    calc q.thr * denom ≤ q.thr * (q.mins.length + l.hashes.length) := Nat.mul_le_mul_left _ hd
      _ ≤ (q.thr + 1) * (q.mins.length + l.hashes.length) := Nat.mul_le_mul_right _ (Nat.le_succ _)
      _ < 2 ^ 51 := hsmall
  unfold SBT.denomOf modeOfQuery
  by_cases hm : q.maxc = true
  · simp only [hm, if_true]
    rw [scoreFn_maxContainment]
    have hq := sbtPasses_eq_float q shared (min q.mins.length view.length) b hsh53 (hden _ (by omega))
    unfold modeOfQuery at hq
    simp only [hm, if_true] at hq
    by_cases h0 : min q.mins.length view.length = 0
    · rw [if_pos h0, h0]
      simp [SBT.passes, JS.passes, Ratio.zero, Ratio.toF, divNat]
    · rw [if_neg h0]; exact hq
  · have hm' : q.maxc = false := by cases h : q.maxc <;> simp_all
    simp only [hm', Bool.false_eq_true, if_false]
    by_cases hc : q.containment = true
    · simp only [hc, if_true]
      rw [scoreFn_containment]
      have hq := sbtPasses_eq_float q shared q.mins.length b hsh53 (hden _ (by omega))
      unfold modeOfQuery at hq
      simp only [hm', Bool.false_eq_true, if_false, hc, if_true] at hq
      by_cases h0 : q.mins.length = 0
      · rw [if_pos h0, h0]
        simp [SBT.passes, JS.passes, Ratio.zero, Ratio.toF, divNat]
      · rw [if_neg h0]; exact hq
    · have hc' : q.containment = false := by cases h : q.containment <;> simp_all
      simp only [hc', Bool.false_eq_true, if_false]
      rw [scoreFn_jaccard]
      have hq := sbtPasses_eq_float q shared (q.mins.length + view.length - shared) b hsh53 (hden _ (by omega))
      unfold modeOfQuery at hq
      simp only [hm', hc', Bool.false_eq_true, if_false] at hq
      by_cases h0 : q.mins.length + view.length - shared = 0
      · rw [if_pos h0, h0]
        simp [SBT.passes, JS.passes, Ratio.zero, Ratio.toF, divNat]
      · rw [if_neg h0]; exact hq

end Sm.Search
