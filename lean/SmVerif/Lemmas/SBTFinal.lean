/-
Composition for the current source: a SPARSE save + load of an insertion-built tree, an
insertion (which repairs the missing nodes first), then any further insertions: a search never
raises and returns exactly the linear scan over the signatures now stored.
-/
import SmVerif.Lemmas.SBTLoadInsert
import SmVerif.Lemmas.SBTSearch

namespace Sm.SBT

/-- the first insertion after a sparse load yields a searchable insertion-shaped tree -/
theorem searchable_after_sparse_load_insert {d : Nat} {sizes : List Nat} (hd : 2 ≤ d) (hsz : SizesOK sizes)
    {t t1 t2 : Tree} (hr : Reach d sizes t) (omitted : Nat → Bool) {ver : Nat} (cm : Option Nat) (hv : ver ≠ 3)
    {fixed0 : Bool} (hload : load fixed0 (save t omitted) ver cm = .ok t1) {l : Leaf}
    (hadd : addNode true true t1 l = .ok t2) :
    InsInv t2 ∧ Searchable true t2 ∧ (∃ p, t2.leaves.get? p = some l) ∧
      (∀ p0 l0, t.leaves.get? p0 = some l0 → ∃ p', t2.leaves.get? p' = some l0) := by
  obtain ⟨⟨hb, hc, hsh⟩, _, _, _⟩ := reach_inv hd hsz hr
  obtain ⟨hb1, hc1, _, hle, hdd, hszz, _, _⟩ := load_save_cover omitted cm hv hb hc hload
  have hlow := reach_lowInv hd hsz hr
  rcases hlow with he | ⟨m, M, hs, hlo⟩
  · exfalso
    unfold load at hload
    have : (save t omitted).leaves = [] := he.2.1
    simp [this] at hload
  · have hls := lshape_after_load omitted cm hv hs hload
    -- the repair step
    obtain ⟨t1', hrep, hb1', hc1', hs1', hl1', hd1', hsz1', hm1', _⟩ := repair_lshape hb1 hc1 hls
    have hinv1' : InsInv t1' := ⟨hb1', hc1', Or.inr ⟨m, M, hs1'⟩⟩
    have hlow1' : LowInv t1' := Or.inr ⟨m, M, hs1', by rw [hd1', hdd]; exact hlo⟩
    -- `add_node` on the loaded tree = body of `add_node` on the repaired tree
    have hcore : addNode true false t1' l = .ok t2 := by
      rw [addNode_eq_core hinv1'.2.2]
      unfold addNode at hadd
      simpa [hrep, bind, Except.bind] using hadd
    -- ingredients of `Searchable` on the repaired tree
    have hmp1 : MinPos t1 := load_save_minpos omitted cm hv (reach_minpos hr) hload
    have hmp1' : MinPos t1' := rebuildMissing_minpos _ _ _ hmp1 hrep
    have hcache1 : t1.cache = [] := by rw [load_ok hv hload]
    have hco1 : CacheOK t1 := by intro c hc; rw [hcache1] at hc; cases hc
    have hco1' : CacheOK t1' := (rebuildMissing_cacheOK _ _ _ hco1 hrep).1
    have hs1 : Searchable true t1' := searchable_of_insInv_low hinv1' hlow1' hmp1' hco1' (cleanV_true _)
    obtain ⟨t3, h3, hinv3, _, _, hnew, hold⟩ := addNode_inv (fixed := true) (pre := false) hinv1' l
    have : t3 = t2 := by rw [h3] at hcore; cases hcore; rfl
    subst this
    refine ⟨hinv3, addNode_searchable hinv1' hs1 hcore, hnew, ?_⟩
    intro p0 l0 h0
    exact hold p0 l0 (by rw [hl1', hle]; exact h0)

/-- **search after insertions into a sparse-loaded tree**: save with ANY set of internal nodes
omitted, load (versions 4-6, any cache bound), insert `l` and then any list `ls` (current
source), search: never raises, returns exactly the linear scan over what is now stored — old
signatures, `l` and `ls` included — and leaves a tree on which this holds again -/
theorem search_after_insert_into_sparse_loaded {d : Nat} {sizes : List Nat} (hd : 2 ≤ d) (hsz : SizesOK sizes)
    {t t1 t2 t3 : Tree} (hr : Reach d sizes t) (omitted : Nat → Bool) {ver : Nat} (cm : Option Nat) (hv : ver ≠ 3)
    {fixed0 : Bool} (hload : load fixed0 (save t omitted) ver cm = .ok t1) {l : Leaf}
    (hadd : addNode true true t1 l = .ok t2) {fixed pre : Bool} (ls : List Leaf)
    (hins : insAllV fixed pre t2 ls = .ok t3) (fixed' : Bool) (q : Query) :
    Searchable true (search fixed' true t3 q).1 ∧ ∃ res, (search fixed' true t3 q).2 = .ok res ∧
      (∀ x, x ∈ res ↔ (leafPasses q x = true ∧ ∃ p, t3.leaves.get? p = some x)) ∧
      (∃ p, t3.leaves.get? p = some l) ∧ (∀ x ∈ ls, ∃ p, t3.leaves.get? p = some x) ∧
      (∀ p0 l0, t.leaves.get? p0 = some l0 → ∃ p', t3.leaves.get? p' = some l0) := by
  obtain ⟨hinv2, hs2, hnew, hold⟩ := searchable_after_sparse_load_insert hd hsz hr omitted cm hv hload hadd
  obtain ⟨_, hs3, hls, hkeep⟩ := insAllV_searchable ls t2 t3 hinv2 hs2 hins
  obtain ⟨h1, _, res, hres, hiff⟩ := search_exact (fixed := fixed') (keep := true) hs3 q
  refine ⟨h1, res, hres, hiff, ?_, hls, ?_⟩
  · obtain ⟨p, hp⟩ := hnew; exact hkeep p l hp
  · intro p0 l0 h0
    obtain ⟨p', hp'⟩ := hold p0 l0 h0
    exact hkeep p' l0 hp'

end Sm.SBT
