/-
Prefetch mode against on-demand mode (C08 `mode_equiv`), for `threshold_bp = 0` (every threshold:
`Lemmas/GatherModesT.lean`).
-/
import SmVerif.Lemmas.GatherIdx
import SmVerif.Lemmas.GatherPartition

set_option autoImplicit false

namespace Sm.Gather

open Sm

variable {σ : Type} {ops : ScoreOps σ}

/-- a `StopIteration` leaves everything but the counters untouched -/
theorem next_none_scalars {α : Type} {K : SkOps α} {g g' : GD α} (h : g.next K ops = .ok (g', none)) :
    g'.query = g.query ∧ g'.resultN = g.resultN ∧ g'.origSigMh = g.origSigMh ∧
    g'.origQueryAbunds = g.origQueryAbunds ∧ g'.trackAbundance = g.trackAbundance ∧
    g'.thresholdBp = g.thresholdBp := by
  unfold GD.next at h
  split at h
  · simp only [Except.ok.injEq, Prod.mk.injEq] at h
    obtain ⟨rfl, _⟩ := h
    exact ⟨rfl, rfl, rfl, rfl, rfl, rfl⟩
  · split at h
    · cases h
    · simp only [Except.ok.injEq, Prod.mk.injEq] at h
      obtain ⟨rfl, _⟩ := h
      exact ⟨rfl, rfl, rfl, rfl, rfl, rfl⟩
    · exfalso
      unfold GD.report at h
      simp only [] at h
      repeat' split at h
      all_goals first | cases h | (simp only [Except.ok.injEq, Prod.mk.injEq] at h; exact absurd h.2 (by simp))

theorem reaches_zero (s n k : Nat) : reaches 0 s n (k : Int) := by
  refine ⟨fzero, fzero, calcThreshold_zero s n, ?_⟩
  rw [belowThreshold_nat, ge_fzero]
  rfl

/-- what one round guarantees for `threshold_bp = 0`, in either mode, w.r.t. the sketches `pool` -/
def Round0 (ops : ScoreOps σ) (sq sd : Nat) (pool : List (Sig LS)) (Q0 NI0 : List Nat) (g g' : GD LS) :
    Option (GRes σ) → Prop
  | none =>
    g'.unassigned sq sd = g.unassigned sq sd ∧ g'.resultN = g.resultN ∧ g'.origSigMh = g.origSigMh ∧
    g'.origQueryAbunds = g.origQueryAbunds ∧ g'.trackAbundance = g.trackAbundance ∧
    g'.thresholdBp = g.thresholdBp ∧
    ∀ d ∈ pool, ovl (g.unassigned sq sd) (dn (max sq sd) d.mh.hs) = 0
  | some res =>
    ∃ best ∈ pool, res.name = best.name ∧ res.md5 = best.md5 ∧
      ovl (g.unassigned sq sd) (dn (max sq sd) best.mh.hs) ≠ 0 ∧
      (∀ d ∈ pool, ovl (g.unassigned sq sd) (dn (max sq sd) d.mh.hs)
        ≤ ovl (g.unassigned sq sd) (dn (max sq sd) best.mh.hs)) ∧
      g'.unassigned sq sd = diffL (g.unassigned sq sd) (dn (max sq sd) best.mh.hs) ∧
      g'.resultN = g.resultN + 1 ∧ g'.origSigMh = g.origSigMh ∧
      g'.origQueryAbunds = g.origQueryAbunds ∧ g'.trackAbundance = g.trackAbundance ∧
      g'.thresholdBp = g.thresholdBp ∧
      ColsOK ops res best (max sq sd) (max sq sd) g.origSigMh.hs g.query.hs g.origQueryAbunds
        g.trackAbundance g.resultN
        (wsum g.origQueryAbunds (dn (max sq sd) Q0) + wsum g.origQueryAbunds (dn (max sq sd) NI0)
          - (wsum g.origQueryAbunds (diffL (g.unassigned sq sd) (dn (max sq sd) best.mh.hs))
              + wsum g.origQueryAbunds (dn (max sq sd) NI0)))
        ((dn (max sq sd) Q0).length + (dn (max sq sd) NI0).length) ((dn (max sq sd) NI0).length * max sq sd)
        (wsum g.origQueryAbunds (dn (max sq sd) Q0) + wsum g.origQueryAbunds (dn (max sq sd) NI0))
        g.origSigMh.scaled

/-- two rounds (of two runs, in whatever modes) over permuted pools, from related states, agree -/
theorem round0_agree {sq sd : Nat} {P P' : List (Sig LS)} {Q0 NI0 : List Nat} {g g' h h' : GD LS}
    {rA rB : Option (GRes σ)} (hA : Round0 ops sq sd P Q0 NI0 g g' rA) (hB : Round0 ops sq sd P' Q0 NI0 h h' rB)
    (hperm : P.Perm P') (rel : Rel sq sd g h) :
    match rA, rB with
    | none, none => Rel sq sd g' h'
    | some a, some b =>
      ∃ bestA ∈ P, ∃ bestB ∈ P',
        a.name = bestA.name ∧ a.md5 = bestA.md5 ∧ b.name = bestB.name ∧ b.md5 = bestB.md5 ∧
        ovl (g.unassigned sq sd) (dn (max sq sd) bestA.mh.hs)
          = ovl (g.unassigned sq sd) (dn (max sq sd) bestB.mh.hs) ∧
        (dn (max sq sd) bestA.mh.hs = dn (max sq sd) bestB.mh.hs → SameNumbers a b ∧ Rel sq sd g' h')
    | none, some _ => False
    | some _, none => False := by
  cases rA with
  | none =>
    cases rB with
    | none =>
      obtain ⟨a1, a2, a3, a4, a5, a6, _⟩ := hA
      obtain ⟨b1, b2, b3, b4, b5, b6, _⟩ := hB
      exact ⟨by rw [a1, b1]; exact rel.un, by rw [a2, b2]; exact rel.rank, by rw [a3, b3]; exact rel.orig,
        by rw [a4, b4]; exact rel.abunds, by rw [a5, b5]; exact rel.track, by rw [a6, b6]; exact rel.thr⟩
    | some b =>
      obtain ⟨_, _, _, _, _, _, az⟩ := hA
      obtain ⟨best, bm, _, _, bnz, _⟩ := hB
      simp only []
      apply bnz
      rw [← rel.un]
      exact az best (hperm.mem_iff.2 bm)
  | some a =>
    cases rB with
    | none =>
      obtain ⟨best, am, _, _, anz, _⟩ := hA
      obtain ⟨_, _, _, _, _, _, bz⟩ := hB
      simp only []
      apply anz
      rw [rel.un]
      exact bz best (hperm.mem_iff.1 am)
    | some b =>
      obtain ⟨bA, mA, a1, a2, _, maxA, a8, a13, a17, a18, a19, a14, colsA⟩ := hA
      obtain ⟨bB, mB, b1, b2, _, maxB, b8, b13, b17, b18, b19, b14, colsB⟩ := hB
      simp only []
      rw [← rel.un] at maxB
      have h1 := maxA bB (hperm.mem_iff.2 mB)
      have h2 := maxB bA (hperm.mem_iff.1 mA)
      refine ⟨bA, mA, bB, mB, a1, a2, b1, b2, by omega, ?_⟩
      intro hsame
      have eq1 : dn (max sq sd) g.query.hs = dn (max sq sd) h.query.hs := rel.un
      rw [← rel.un, ← rel.orig, ← rel.abunds, ← rel.track, ← rel.rank, ← hsame] at colsB
      refine ⟨ColsOK.same_numbers colsA colsB hsame eq1, ?_⟩
      exact ⟨by rw [a8, b8, ← rel.un, hsame], by rw [a13, b13, rel.rank], by rw [a17, b17, rel.orig],
        by rw [a18, b18, rel.abunds], by rw [a19, b19, rel.track], by rw [a14, b14, rel.thr]⟩

/-- a prefetch-mode round with `threshold_bp = 0` -/
theorem round0_prefetch (laws : ScoreLaws ops) {q : LS} {sd : Nat} {t nT : F64.F}
    {dbs : List (List (Sig LS))} {Q0 NI0 : List Nat} {g0 g g' : GD LS} {r : Option (GRes σ)}
    (A : RunSetup q sd 0 t nT dbs Q0 NI0 g0) (hr : Reach ops g0 g) (hn : g.next lsOps ops = .ok (g', r)) :
    Round0 ops q.scaled sd dbs.flatten Q0 NI0 g g' r := by
  obtain ⟨hi, ha, hh⟩ := reach_inv laws A.h0 A.a0 hr
  have hthr : g.thresholdBp = 0 := by rw [hh.thr, A.hthr0]
  cases r with
  | none =>
    obtain ⟨s1, s2, s3, s4, s5, s6⟩ := next_none_scalars hn
    have st := stops_only_below_db laws A.hq A.hdb A.hthr A.hcase A.hsize A.h0 A.a0 A.hun0 A.hthr0 hr hn
    refine ⟨by unfold GD.unassigned; rw [s1], s2, s3, s4, s5, s6, ?_⟩
    intro d hd
    rcases st with hnil | hall
    · rw [hnil]; rfl
    · rcases hall d hd with hz | hnr
      · exact hz
      · exact absurd (reaches_zero _ _ _) hnr
  | some res =>
    have sp := next_spec laws hi ha hn rfl rfl
    simp only [] at sp
    obtain ⟨best, bm, b1, b2, b3, b4, _, b6, b7, b8, _, _, _, _, b13, b14, _, _, b17, b18, b19, cols⟩ := sp
    rw [hthr] at b4
    have hmax := max_over_db A.hq A.hdb A.hthr A.hcase A.hsize A.hun0 hh b3 b4
    refine ⟨best, mem_candLists_flatten bm, b1, b2, ?_, hmax, b8, b13, b17, b18, b19, b14, cols⟩
    intro hz
    apply b7
    rw [b6]
    exact List.eq_nil_of_length_eq_zero hz

theorem scoreContainment_m_ne_zero {n k : Nat} : (scoreContainment n k).m ≠ 0 ↔ n ≠ 0 ∧ k ≠ 0 := by
  unfold scoreContainment
  by_cases hn : n = 0
  · simp [hn, fzero]
  · rw [if_neg hn]
    by_cases hk : k = 0
    · subst hk
      have : (F64.divNat 0 n).m = 0 := by unfold F64.divNat; simp
      simp [this, hn]
    · have := F64.divNat_pos k n (by omega) (by omega)
      constructor
      · intro _; exact ⟨hn, hk⟩
      · intro _; omega

theorem passes_zero_iff {n k : Nat} : passes (scoreContainment n k) fzero = true ↔ n ≠ 0 ∧ k ≠ 0 := by
  unfold passes
  simp only [Bool.and_eq_true, decide_eq_true_eq, ge_fzero, and_true]
  exact scoreContainment_m_ne_zero

/-- at a fixed non-empty query, a larger containment means a larger overlap (sizes below 2^50) -/
theorem ovl_le_of_score_ge {n k k' : Nat} (hn : n ≠ 0) (hk : k < 2 ^ 50) (hk' : k' < 2 ^ 50)
    (h : F64.ge (scoreContainment n k) (scoreContainment n k') = true) : k' ≤ k := by
  by_contra hlt
  have hlt' : k < k' := by omega
  unfold scoreContainment at h
  rw [if_neg hn, if_neg hn, F64.ge_iff] at h
  have := F64.divNat_strict_mono hlt' hk' (by omega : 0 < n)
  linarith

/-- the score `Index.find` computes for the current query of a run -/
theorem findScore_run {sq sd : Nat} {g : GD LS} (hb : GBasic sq sd g) {d : LS} (hd : d.scaled = sd) :
    findScore g.query d = scoreContainment (g.unassigned sq sd).length
      (ovl (g.unassigned sq sd) (dn (max sq sd) d.hs)) := by
  have hs : max g.query.scaled d.scaled = max sq sd := by
    rw [hb.q_scaled, hd]
    rcases hb.cmp with h1 | h1 <;> rw [h1] <;> omega
  unfold findScore
  rw [hs]
  rfl

/-- an on-demand round with `threshold_bp = 0` -/
theorem round0_idx (laws : IdxLaws ops) {sq sd : Nat} {dbs : List (List (Sig LS))} {Q0 NI0 : List Nat}
    {g g' : GD LS} {r : Option (GRes σ)} (hinv : GInvI sq sd dbs g) (ha : AInv sq sd Q0 NI0 g)
    (hthr : g.thresholdBp = 0) (hsz : g.query.hs.length < 2 ^ 50) (hn : g.next lsOps ops = .ok (g', r)) :
    Round0 ops sq sd dbs.flatten Q0 NI0 g g' r ∧ GInvI sq sd dbs g' ∧ AInv sq sd Q0 NI0 g' ∧
      g'.thresholdBp = 0 ∧ g'.query.hs.length < 2 ^ 50 := by
  have hcalc : calcThreshold g.thresholdBp g.query.scaled g.query.hs.length = .ok (fzero, fzero) := by
    rw [hthr]; exact calcThreshold_zero _ _
  have sp := next_idx laws hinv ha hcalc hn
  have hQlen : (g.unassigned sq sd).length < 2 ^ 50 :=
    Nat.lt_of_le_of_lt (List.length_filter_le _ _) hsz
  have hscore : ∀ d ∈ dbs.flatten, findScore g.query d.mh = scoreContainment (g.unassigned sq sd).length
      (ovl (g.unassigned sq sd) (dn (max sq sd) d.mh.hs)) := by
    intro d hd
    obtain ⟨db, hdb, hddb⟩ := List.mem_flatten.1 hd
    exact findScore_run hinv.basic (hinv.db_ok db hdb d hddb).2
  cases r with
  | none =>
    simp only [] at sp
    obtain ⟨s1, s2, s3, s4, s5, s6, s7, s8, s9⟩ := sp
    refine ⟨⟨by unfold GD.unassigned; rw [s1], s2, s4, s5, s6, s3, ?_⟩, s7, s8, by rw [s3, hthr], by rw [s1]; exact hsz⟩
    intro d hd
    rcases s9 with hnil | hnp
    · unfold GD.unassigned; rw [hnil]; rfl
    · obtain ⟨db, hdb, hddb⟩ := List.mem_flatten.1 hd
      have := hnp db hdb d hddb
      rw [hscore d hd] at this
      by_contra hne
      have hpz := (passes_zero_iff (n := (g.unassigned sq sd).length)
        (k := ovl (g.unassigned sq sd) (dn (max sq sd) d.mh.hs))).2
      by_cases hn0 : (g.unassigned sq sd).length = 0
      · apply hne
        have : g.unassigned sq sd = [] := List.eq_nil_of_length_eq_zero hn0
        rw [this]; rfl
      · rw [hpz ⟨hn0, hne⟩] at this; cases this
  | some res =>
    simp only [] at sp
    obtain ⟨best, bm, p1, p2, r1, r2, r3, r4, r5, r7, r8, r9, r10, r11, r12, r13, r13b, r14⟩ := sp
    have hbnz : ovl (g.unassigned sq sd) (dn (max sq sd) best.mh.hs) ≠ 0 := by
      intro hz
      apply r4
      rw [r3]
      exact List.eq_nil_of_length_eq_zero hz
    have hn0 : (g.unassigned sq sd).length ≠ 0 := by
      intro h0
      apply hbnz
      have : g.unassigned sq sd = [] := List.eq_nil_of_length_eq_zero h0
      rw [this]; rfl
    refine ⟨⟨best, bm, r1, r2, hbnz, ?_, r5, r7, r9, r10, r11, r8, r14⟩, r12, r13, by rw [r8, hthr], by omega⟩
    intro d hd
    by_cases hz : ovl (g.unassigned sq sd) (dn (max sq sd) d.mh.hs) = 0
    · omega
    · have hpd : passes (findScore g.query d.mh) fzero = true := by
        rw [hscore d hd]; exact passes_zero_iff.2 ⟨hn0, hz⟩
      have hge := p2 d hd hpd
      rw [hscore best bm, hscore d hd] at hge
      exact ovl_le_of_score_ge hn0 (Nat.lt_of_le_of_lt (ovl_le _ _) hQlen)
        (Nat.lt_of_le_of_lt (ovl_le _ _) hQlen) hge

/-- the hypotheses of an on-demand run with `threshold_bp = 0` -/
structure IdxSetup (sq sd : Nat) (dbs : List (List (Sig LS))) (Q0 NI0 : List Nat) (h0 : GD LS) : Prop where
  inv : GInvI sq sd dbs h0
  acc : AInv sq sd Q0 NI0 h0
  thr : h0.thresholdBp = 0
  size : h0.query.hs.length < 2 ^ 50

/-- the on-demand invariants hold in every reachable state -/
theorem reach_idx (laws : IdxLaws ops) {sq sd : Nat} {dbs : List (List (Sig LS))} {Q0 NI0 : List Nat}
    {h0 h : GD LS} (B : IdxSetup sq sd dbs Q0 NI0 h0) (hr : Reach ops h0 h) : IdxSetup sq sd dbs Q0 NI0 h := by
  induction hr with
  | refl => exact B
  | @step g g' r _ hn ih =>
    obtain ⟨_, i2, i3, i4, i5⟩ := round0_idx laws ih.inv ih.acc ih.thr ih.size hn
    exact ⟨i2, i3, i4, i5⟩

/-- **`mode_equiv` for `threshold_bp = 0`**: a prefetch-mode run (`counter_gather` + `CounterGather.peek`) and
an on-demand run (`Index.peek` = `best_containment` every round) over the same sketches (organised in any
way), in states that have assigned the same hashes: they stop together, they pick sketches of the same
(maximal) overlap, and given the same pick all numbers coincide and the successor states are related. -/
theorem mode_equiv_thr0 (lawsA : ScoreLaws ops) (lawsB : IdxLaws ops) {q : LS} {sd : Nat} {t nT : F64.F}
    {dbs dbs' : List (List (Sig LS))} {Q0 NI0 : List Nat} {g0 h0 g h g' h' : GD LS}
    {rA rB : Option (GRes σ)}
    (A : RunSetup q sd 0 t nT dbs Q0 NI0 g0) (B : IdxSetup q.scaled sd dbs' Q0 NI0 h0)
    (hperm : dbs.flatten.Perm dbs'.flatten)
    (hrA : Reach ops g0 g) (hrB : Reach ops h0 h) (rel : Rel q.scaled sd g h)
    (hnA : g.next lsOps ops = .ok (g', rA)) (hnB : h.next lsOps ops = .ok (h', rB)) :
    match rA, rB with
    | none, none => Rel q.scaled sd g' h'
    | some a, some b =>
      ∃ bestA ∈ dbs.flatten, ∃ bestB ∈ dbs'.flatten,
        a.name = bestA.name ∧ a.md5 = bestA.md5 ∧ b.name = bestB.name ∧ b.md5 = bestB.md5 ∧
        ovl (g.unassigned q.scaled sd) (dn (max q.scaled sd) bestA.mh.hs)
          = ovl (g.unassigned q.scaled sd) (dn (max q.scaled sd) bestB.mh.hs) ∧
        (dn (max q.scaled sd) bestA.mh.hs = dn (max q.scaled sd) bestB.mh.hs →
          SameNumbers a b ∧ Rel q.scaled sd g' h')
    | none, some _ => False
    | some _, none => False := by
  have rA' := round0_prefetch lawsA A hrA hnA
  have Bh := reach_idx lawsB B hrB
  have rB' := (round0_idx lawsB Bh.inv Bh.acc Bh.thr Bh.size hnB).1
  have key := round0_agree rA' rB' hperm rel
  cases rA <;> cases rB <;> exact key

/-- the on-demand invariants hold after `GatherDatabases.__init__(query, [index, ...])` -/
theorem init_idx {q : LS} (hq : q.WF) {sd : Nat} (hsd1 : 1 ≤ sd) (hsd2 : sd ≤ 2 ^ 31)
    {dbs : List (List (Sig LS))} {ign : Bool} {g : GD LS}
    (hdb : ∀ db ∈ dbs, ∀ d ∈ db, d.mh.WF ∧ d.mh.scaled = sd) (hsize : q.hs.length < 2 ^ 50)
    (h : GD.init lsOps q (dbs.map CObj.idx) 0 ign none none = .ok g) :
    IdxSetup q.scaled sd dbs q.hs [] g ∧ g.unassigned q.scaled sd = dn (max q.scaled sd) q.hs ∧
    g.origSigMh = q ∧ g.resultN = 0 := by
  obtain ⟨i1, i2, i3, i4, i5, i6, i7, i8, i9, i10, i11, i12, i13, i14, i15⟩ := init_plain hq h
  have hqab : g.query.ab = none := init_plain_flat h
  refine ⟨⟨⟨⟨?_, ⟨?_, ?_, ?_, ?_, ?_⟩, hqab, ?_, Or.inl i3, ?_⟩, i4, hdb⟩,
    ⟨⟨hq.lo, hq.hi, hsd1, hsd2⟩, ?_, ?_, ?_, ?_, ?_, ?_⟩, i5, ?_⟩, ?_, i6, i7⟩
  · rw [i6]; exact hq.sorted
  · rw [i2]; exact hq.lo
  · rw [i2]; exact hq.hi
  · rw [i1]; exact hq.sorted
  · rw [i1, i2]; exact hq.bounded
  · intro ab hab; rw [hqab] at hab; cases hab
  · rw [i2, i3]
  · rw [i1]; exact Nat.lt_trans hsize (by decide)
  · rw [i10, i3]
  · rw [i11, i3]
  · rw [i12, i3]
  · rw [i13, i3]
  · rw [i14, i3]
  · rw [i15, i3]
  · rw [i1]; exact hsize
  · unfold GD.unassigned; rw [i1]

end Sm.Gather
