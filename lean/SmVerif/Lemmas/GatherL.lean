/-
The gather model on list sketches (`lsOps`): what each sketch operation computes on
well-formed sketches, as filters of hash lists.
-/
import SmVerif.Lemmas.GatherList
import SmVerif.Lemmas.ScaledNum
import SmVerif.Model.GatherL

set_option autoImplicit false

namespace Sm.Gather

open Sm

/-- the hashes of `l` a sketch at `sc` retains -/
def dn (sc : Nat) (l : List Nat) : List Nat := l.filter (fun h => decide (h ≤ mhR sc))

/-- number of elements of `Q` that are in `D` (for ascending lists: `|Q ∩ D|`) -/
def ovl (Q D : List Nat) : Nat := (Q.filter (inL D)).length

/-- `Q ∖ D` -/
def diffL (Q D : List Nat) : List Nat := Q.filter (fun x => !inL D x)

/-- a well-formed list sketch -/
structure LS.WF (s : LS) : Prop where
  lo : 1 ≤ s.scaled
  hi : s.scaled ≤ 2 ^ 31
  sorted : Sorted s.hs
  bounded : ∀ h ∈ s.hs, h ≤ mhR s.scaled
  aligned : ∀ ab, s.ab = some ab → ab.length = s.hs.length

theorem mhR_anti {s1 s2 : Nat} (h1 : 1 ≤ s1) (h : s1 ≤ s2) (h2 : s2 ≤ 2 ^ 31) : mhR s2 ≤ mhR s1 :=
  mhR_antitone h1 h (Nat.le_trans h2 (by decide))

theorem sorted_dn {l : List Nat} (h : Sorted l) (sc : Nat) : Sorted (dn sc l) := h.filter _

theorem mem_dn {sc : Nat} {l : List Nat} {x : Nat} : x ∈ dn sc l ↔ x ∈ l ∧ x ≤ mhR sc := by
  simp [dn, List.mem_filter]

theorem dn_self {sc : Nat} {l : List Nat} (h : ∀ x ∈ l, x ≤ mhR sc) : dn sc l = l :=
  filter_eq_self_of_forall (fun x hx => by simpa using h x hx)

theorem dn_dn {s1 s2 : Nat} (h1 : 1 ≤ s1) (h : s1 ≤ s2) (h2 : s2 ≤ 2 ^ 31) (l : List Nat) :
    dn s2 (dn s1 l) = dn s2 l := by
  unfold dn
  rw [List.filter_filter]
  apply List.filter_congr
  intro x _
  have := mhR_anti h1 h h2
  by_cases hx : x ≤ mhR s2
  · have : x ≤ mhR s1 := by omega
    simp [hx, this]
  · simp [hx]

theorem LS.WF.dn_self {s : LS} (h : s.WF) : dn s.scaled s.hs = s.hs := Sm.Gather.dn_self h.bounded

theorem dn_filter (sc : Nat) (l : List Nat) (p : Nat → Bool) : dn sc (l.filter p) = (dn sc l).filter p := by
  unfold dn
  rw [List.filter_filter, List.filter_filter]
  apply List.filter_congr
  intro x _
  rw [Bool.and_comm]

theorem ovl_le (Q D : List Nat) : ovl Q D ≤ Q.length := List.length_filter_le _ _

/-- **the accounting identity**: removing from `Q` its part in `B` lowers the overlap with any `D`
by the overlap of the removed part with `D` -/
theorem ovl_split (Q B D : List Nat) : ovl Q D = ovl (diffL Q B) D + ovl (Q.filter (inL B)) D :=
  length_filter_split Q (inL D) (inL B)

theorem ovl_diff_le (Q B D : List Nat) : ovl (diffL Q B) D ≤ ovl Q D := by
  have := ovl_split Q B D; omega

theorem length_split (Q B : List Nat) : Q.length = (diffL Q B).length + ovl Q B :=
  length_filter_add_not Q (inL B)

theorem sorted_diffL {Q : List Nat} (h : Sorted Q) (B : List Nat) : Sorted (diffL Q B) := h.filter _

theorem mem_diffL {Q B : List Nat} {x : Nat} : x ∈ diffL Q B ↔ x ∈ Q ∧ x ∉ B := by
  unfold diffL
  rw [List.mem_filter]
  constructor
  · rintro ⟨h1, h2⟩
    refine ⟨h1, ?_⟩
    have : inL B x = false := by simpa using h2
    exact inL_false_iff.1 this
  · rintro ⟨h1, h2⟩
    exact ⟨h1, by simp [inL_false_iff.2 h2]⟩

/-- the overlap of two ascending lists is symmetric -/
theorem ovl_comm {a b : List Nat} (ha : Sorted a) (hb : Sorted b) : ovl a b = ovl b a := by
  unfold ovl
  have : a.filter (inL b) = b.filter (inL a) := by
    apply Sorted.eq_of_mem_iff (ha.filter _) (hb.filter _)
    intro x
    rw [List.mem_filter, List.mem_filter, inL_iff, inL_iff]
    exact And.comm
  rw [this]

/-! ### the sketch operations on well-formed list sketches -/

theorem LS.ds_ok {x : LS} {sc : Nat} (h : x.scaled ≤ sc) :
    LS.ds x sc = .ok { (LS.filterH (fun h => decide (h ≤ mhR sc)) x) with scaled := sc } := by
  unfold LS.ds
  rw [if_neg (by omega)]

theorem LS.ds_hs {x r : LS} {sc : Nat} (h : LS.ds x sc = .ok r) :
    r.scaled = sc ∧ r.hs = dn sc x.hs ∧ (r.ab.isSome = x.ab.isSome) := by
  unfold LS.ds at h
  split at h
  · cases h
  · cases h
    refine ⟨rfl, rfl, ?_⟩
    simp [LS.filterH]

theorem LS.ds_le {x r : LS} {sc : Nat} (h : LS.ds x sc = .ok r) : x.scaled ≤ sc := by
  unfold LS.ds at h
  split at h
  · cases h
  · omega

/-- `count_common(downsample=True)` when the first sketch is the coarser (or equal) one -/
theorem LS.cc_ge {a b : LS} (hb : b.WF) (ha : Sorted a.hs) (h : b.scaled ≤ a.scaled) :
    LS.cc a b = .ok (ovl a.hs (dn a.scaled b.hs)) := by
  unfold LS.cc
  by_cases he : a.scaled = b.scaled
  · rw [if_pos he, he, hb.dn_self, interL_eq_filter _ _ ha hb.sorted]
    rfl
  · rw [if_neg he, if_pos (by omega), interL_eq_filter _ _ ha (hb.sorted.filter _)]
    rfl

/-- ... and when it is the finer one -/
theorem LS.cc_le {a b : LS} (ha : a.WF) (hb : Sorted b.hs) (h : a.scaled ≤ b.scaled) :
    LS.cc a b = .ok (ovl b.hs (dn b.scaled a.hs)) := by
  unfold LS.cc
  by_cases he : a.scaled = b.scaled
  · rw [if_pos he, ← he, ha.dn_self, interL_eq_filter _ _ ha.sorted hb]
    show Except.ok (ovl a.hs b.hs) = Except.ok (ovl b.hs a.hs)
    rw [ovl_comm ha.sorted hb]
  · rw [if_neg he, if_neg (by omega), interL_eq_filter _ _ hb (ha.sorted.filter _)]
    rfl

/-! ### `CounterGather` on list sketches -/

/-- what an entry's counter must be against the unassigned hashes `Q` at resolution `s` -/
def EInv (s : Nat) (Q : List Nat) (e : CEntry LS) : Prop :=
  e.sig.mh.WF ∧ e.sig.mh.scaled ≤ s ∧ e.count = (ovl Q (dn s e.sig.mh.hs) : Int)

theorem lsOps_cc (a b : LS) : lsOps.cc a b = LS.cc a b := rfl

/-- **`consume` keeps every counter exact**: after removing `Q ∩ B` from the unassigned hashes, every
surviving entry counts its overlap with `Q ∖ B`, and exactly the entries whose overlap became 0 are gone -/
theorem consumeEntries_spec {s : Nat} {Q B : List Nat} {inter : LS}
    (hs : inter.scaled = s) (hI : inter.hs = Q.filter (inL B)) (hQ : Sorted Q) :
    ∀ (es : List (CEntry LS)), (∀ e ∈ es, EInv s Q e) →
    ∃ es', consumeEntries lsOps inter es = .ok es' ∧
      (∀ e' ∈ es', EInv s (diffL Q B) e' ∧ ∃ e ∈ es, e'.sig = e.sig ∧ e'.md5 = e.md5) ∧
      (∀ e ∈ es, ovl (diffL Q B) (dn s e.sig.mh.hs) ≠ 0 → ∃ e' ∈ es', e'.sig = e.sig ∧ e'.md5 = e.md5) := by
  intro es
  induction es with
  | nil => intro _; exact ⟨[], rfl, by simp, by simp⟩
  | cons e rest ih =>
    intro hall
    have he : EInv s Q e := hall e (by simp)
    obtain ⟨rest', hr, h1, h2⟩ := ih (fun x hx => hall x (List.mem_cons_of_mem _ hx))
    obtain ⟨hwf, hle, hcnt⟩ := he
    have hIs : Sorted inter.hs := by rw [hI]; exact hQ.filter _
    have hcc : lsOps.cc inter e.sig.mh = .ok (ovl (Q.filter (inL B)) (dn s e.sig.mh.hs)) := by
      rw [lsOps_cc, LS.cc_ge hwf hIs (by omega), hs, hI]
    have hsplit := ovl_split Q B (dn s e.sig.mh.hs)
    unfold consumeEntries
    rw [hcc]
    simp only [hr]
    by_cases hk : ovl (Q.filter (inL B)) (dn s e.sig.mh.hs) = 0
    · -- nothing of this entry was consumed
      rw [if_neg (by simpa using hk)]
      refine ⟨e :: rest', rfl, ?_, ?_⟩
      · intro e' he'
        rcases List.mem_cons.1 he' with rfl | he'
        · exact ⟨⟨hwf, hle, by rw [hcnt]; congr 1; omega⟩, e', by simp, rfl, rfl⟩
        · obtain ⟨a, x, hx, b⟩ := h1 e' he'
          exact ⟨a, x, List.mem_cons_of_mem _ hx, b⟩
      · intro x hx hne
        rcases List.mem_cons.1 hx with rfl | hx
        · exact ⟨x, by simp, rfl, rfl⟩
        · obtain ⟨e', he', b⟩ := h2 x hx hne
          exact ⟨e', List.mem_cons_of_mem _ he', b⟩
    · rw [if_pos (by simpa using hk)]
      have hnew : e.count - (ovl (Q.filter (inL B)) (dn s e.sig.mh.hs) : Int)
          = (ovl (diffL Q B) (dn s e.sig.mh.hs) : Int) := by
        rw [hcnt]; omega
      by_cases hz : ovl (diffL Q B) (dn s e.sig.mh.hs) = 0
      · rw [if_pos (by rw [hnew, hz]; rfl)]
        refine ⟨rest', rfl, ?_, ?_⟩
        · intro e' he'
          obtain ⟨a, x, hx, b⟩ := h1 e' he'
          exact ⟨a, x, List.mem_cons_of_mem _ hx, b⟩
        · intro x hx hne
          rcases List.mem_cons.1 hx with rfl | hx
          · exact absurd hz hne
          · exact h2 x hx hne
      · rw [if_neg (by rw [hnew]; exact_mod_cast hz)]
        refine ⟨_, rfl, ?_, ?_⟩
        · intro e' he'
          rcases List.mem_cons.1 he' with rfl | he'
          · exact ⟨⟨hwf, hle, hnew⟩, e, by simp, rfl, rfl⟩
          · obtain ⟨a, x, hx, b⟩ := h1 e' he'
            exact ⟨a, x, List.mem_cons_of_mem _ hx, b⟩
        · intro x hx hne
          rcases List.mem_cons.1 hx with rfl | hx
          · exact ⟨_, List.mem_cons_self, rfl, rfl⟩
          · obtain ⟨e', he', b⟩ := h2 x hx hne
            exact ⟨e', List.mem_cons_of_mem _ he', b⟩

theorem mostCommon_eq_none {α : Type} {l : List (CEntry α)} : mostCommon l = none ↔ l = [] := by
  cases l with
  | nil => simp [mostCommon]
  | cons x xs =>
    simp only [mostCommon]
    cases mostCommon xs with
    | none => simp
    | some y => simp only []; split <;> simp

theorem mostCommon_some {α : Type} : ∀ {l : List (CEntry α)} {e : CEntry α}, mostCommon l = some e →
    e ∈ l ∧ ∀ x ∈ l, x.count ≤ e.count := by
  intro l
  induction l with
  | nil => intro e h; simp [mostCommon] at h
  | cons x xs ih =>
    intro e h
    simp only [mostCommon] at h
    cases hm : mostCommon xs with
    | none =>
      rw [hm] at h
      simp only [Option.some.injEq] at h
      subst h
      have : xs = [] := mostCommon_eq_none.1 hm
      subst this
      simp
    | some y =>
      rw [hm] at h
      obtain ⟨hy, hmax⟩ := ih hm
      simp only [] at h
      split at h
      · rename_i hgt
        simp only [Option.some.injEq] at h; subst h
        refine ⟨List.mem_cons_of_mem _ hy, ?_⟩
        intro z hz
        rcases List.mem_cons.1 hz with rfl | hz
        · omega
        · exact hmax z hz
      · rename_i hgt
        simp only [Option.some.injEq] at h; subst h
        refine ⟨List.mem_cons_self, ?_⟩
        intro z hz
        rcases List.mem_cons.1 hz with rfl | hz
        · omega
        · have := hmax z hz; omega

/-- the per-round threshold test of `CounterGather.peek`: the overlap `count` is not below
`threshold_bp / scaled` (as the code computes and compares it) and the threshold is attainable -/
def reaches (thr s n : Nat) (count : Int) : Prop :=
  ∃ t nT, calcThreshold thr s n = .ok (t, nT) ∧ belowThreshold count nT = false

theorem lsOps_dsF (x : LS) (sc : Nat) : lsOps.dsF x sc = LS.ds x sc := rfl
theorem lsOps_dsM (x : LS) (sc : Nat) : lsOps.dsM x sc = LS.ds x sc := rfl
theorem lsOps_flat (x : LS) : lsOps.flat x = .ok x.flat := rfl
theorem lsOps_and (a b : LS) : lsOps.and a b = LS.and a b := rfl
theorem lsOps_mins (x : LS) : lsOps.mins x = x.hs := rfl
theorem lsOps_scaled (x : LS) : lsOps.scaled x = x.scaled := rfl
theorem len_ls (x : LS) : len lsOps x = x.hs.length := rfl

/-- the sketch `downsample(scaled=sc)` returns -/
def LS.dsv (x : LS) (sc : Nat) : LS :=
  { (LS.filterH (fun h => decide (h ≤ mhR sc)) x) with scaled := sc }

theorem LS.ds_eq {x : LS} {sc : Nat} (h : x.scaled ≤ sc) : LS.ds x sc = .ok (x.dsv sc) := LS.ds_ok h

theorem LS.dsv_hs (x : LS) (sc : Nat) : (x.dsv sc).hs = dn sc x.hs := rfl
theorem LS.dsv_scaled (x : LS) (sc : Nat) : (x.dsv sc).scaled = sc := rfl
theorem LS.dsv_ab_isSome (x : LS) (sc : Nat) : (x.dsv sc).ab.isSome = x.ab.isSome := by
  simp [LS.dsv, LS.filterH]

theorem LS.and_ok {a b r : LS} (ha : Sorted a.hs) (hb : Sorted b.hs) (h : LS.and a b = .ok r) :
    a.ab = none ∧ b.ab = none ∧ a.scaled = b.scaled ∧
    r = ⟨a.scaled, a.hs.filter (inL b.hs), none⟩ := by
  unfold LS.and at h
  split at h
  · cases h
  · rename_i h1
    split at h
    · cases h
    · rename_i h2
      cases h
      have h1' : a.ab = none ∧ b.ab = none := by
        cases ha' : a.ab <;> cases hb' : b.ab <;> simp_all
      refine ⟨h1'.1, h1'.2, by omega, ?_⟩
      rw [interL_eq_filter _ _ ha hb]

/-- the lazy-refresh loop of `peek` on counters that are exact for the (downsampled) current query: the
first entry taken is accepted, nothing is refreshed -/
theorem peekLoop_exact {cur : LS} {s : Nat} {nT : F64.F} {es es' : List (CEntry LS)}
    {r : Option (CEntry LS × LS)} (hcs : Sorted cur.hs) (hsc : cur.scaled = s)
    (hent : ∀ e ∈ es, e.sig.mh.WF ∧ e.sig.mh.scaled ≤ s)
    (hexact : ∀ e ∈ es, e.count = (ovl cur.hs (dn s e.sig.mh.hs) : Int)) (fuel : Nat)
    (h : peekLoop lsOps cur s nT (fuel + 1) es = .ok (es', r)) :
    es' = es ∧
    match r with
    | none => es = [] ∨ ∃ best, mostCommon es = some best ∧ belowThreshold best.count nT = true
    | some x => mostCommon es = some x.1 ∧ belowThreshold x.1.count nT = false ∧
        x.2 = ⟨s, cur.hs.filter (inL (dn s x.1.sig.mh.hs)), none⟩ := by
  unfold peekLoop at h
  cases hm : mostCommon es with
  | none =>
    rw [hm] at h
    simp only [Except.ok.injEq, Prod.mk.injEq] at h
    obtain ⟨rfl, rfl⟩ := h
    exact ⟨rfl, Or.inl (mostCommon_eq_none.1 hm)⟩
  | some best =>
    rw [hm] at h
    simp only [] at h
    obtain ⟨hbmem, _⟩ := mostCommon_some hm
    obtain ⟨hbwf, hble⟩ := hent best hbmem
    by_cases hbelow : belowThreshold best.count nT = true
    · rw [if_pos hbelow] at h
      simp only [Except.ok.injEq, Prod.mk.injEq] at h
      obtain ⟨rfl, rfl⟩ := h
      exact ⟨rfl, Or.inr ⟨best, rfl, hbelow⟩⟩
    · rw [if_neg hbelow, lsOps_dsF, LS.ds_eq hble] at h
      simp only [lsOps_flat] at h
      cases hand : lsOps.and cur (best.sig.mh.dsv s).flat with
      | error e => rw [hand] at h; cases h
      | ok inter =>
        rw [hand] at h
        simp only [] at h
        have hbs : Sorted ((best.sig.mh.dsv s).flat).hs := sorted_dn hbwf.sorted s
        obtain ⟨_, _, _, hr⟩ := LS.and_ok hcs hbs hand
        have hlen : ((len lsOps inter : Nat) : Int) = best.count := by
          rw [hexact best hbmem, hr]
          rfl
        rw [if_pos hlen] at h
        simp only [Except.ok.injEq, Prod.mk.injEq] at h
        obtain ⟨rfl, rfl⟩ := h
        refine ⟨rfl, rfl, by simpa using hbelow, ?_⟩
        rw [hr, hsc]
        rfl

/-- what `CounterGather.peek` returns when it returns a match (counters exact for the current query) -/
theorem Counter.peek_some {σ : Type} {ops : ScoreOps σ} {c c' : Counter LS} {cur : LS} {thr s : Nat}
    {score : σ} {sig : Sig LS} {inter : LS}
    (hsc : max c.scaled cur.scaled = s) (hcs : Sorted cur.hs)
    (hent : ∀ e ∈ c.entries, e.sig.mh.WF ∧ e.sig.mh.scaled ≤ s)
    (hexact : ∀ e ∈ c.entries, e.count = (ovl (dn s cur.hs) (dn s e.sig.mh.hs) : Int))
    (h : c.peek lsOps ops cur thr = .ok (c', some (score, sig, inter))) :
    c' = { c with scaled := s } ∧ ∃ best, mostCommon c.entries = some best ∧ sig = best.sig ∧
      inter = ⟨s, (dn s cur.hs).filter (inL (dn s best.sig.mh.hs)), none⟩ ∧
      reaches thr s (dn s cur.hs).length best.count ∧
      score = ops.contained (ovl (dn s cur.hs) (dn s best.sig.mh.hs)) (dn s cur.hs).length s ∧
      ops.isZero score = false ∧ (dn s cur.hs) ≠ [] := by
  unfold Counter.peek at h
  by_cases hem : c.entries.isEmpty = true
  · rw [if_pos hem] at h; cases h
  rw [if_neg hem] at h
  simp only [lsOps_scaled, hsc] at h
  rw [lsOps_dsF, LS.ds_eq (by omega)] at h
  simp only [] at h
  by_cases hne' : len lsOps (cur.dsv s) = 0
  · rw [if_pos hne'] at h; cases h
  rw [if_neg hne'] at h
  have hne : ¬ (dn s cur.hs).length = 0 := hne'
  have hlen : len lsOps (cur.dsv s) = (dn s cur.hs).length := rfl
  rw [hlen] at h
  cases hsub : containedBy lsOps ops (cur.dsv s) c.origQuery with
  | error e => rw [hsub] at h; cases h
  | ok sub =>
    rw [hsub] at h
    simp only [] at h
    by_cases hlt : ops.ltOne sub = true
    · rw [if_pos hlt] at h; cases h
    rw [if_neg hlt] at h
    cases hthr : calcThreshold thr s (dn s cur.hs).length with
    | error e =>
      rw [hthr] at h
      cases e <;> cases h
    | ok tn =>
      obtain ⟨t, nT⟩ := tn
      rw [hthr] at h
      simp only [] at h
      have hcurs : Sorted (cur.dsv s).hs := sorted_dn hcs s
      cases hloop : peekLoop lsOps (cur.dsv s) s nT (c.entries.length + 1) c.entries with
      | error e => rw [hloop] at h; cases h
      | ok lr =>
        obtain ⟨es, r⟩ := lr
        rw [hloop] at h
        obtain ⟨hes, hr⟩ := peekLoop_exact hcurs rfl hent hexact _ hloop
        cases r with
        | none => simp only [] at h; cases h
        | some x =>
          obtain ⟨best, inter'⟩ := x
          simp only [] at h hr
          obtain ⟨hbest, hbelow, hint⟩ := hr
          obtain ⟨hbmem, _⟩ := mostCommon_some hbest
          obtain ⟨hbwf, hble⟩ := hent best hbmem
          have hcont : containedBy lsOps ops (cur.dsv s) best.sig.mh =
              .ok (ops.contained (ovl (dn s cur.hs) (dn s best.sig.mh.hs)) (dn s cur.hs).length s)
              ∨ ∃ e, containedBy lsOps ops (cur.dsv s) best.sig.mh = .error e := by
            unfold containedBy
            by_cases h0 : lsOps.scaled (cur.dsv s) = 0 ∨ lsOps.scaled best.sig.mh = 0
            · rw [if_pos h0]; exact Or.inr ⟨_, rfl⟩
            · rw [if_neg h0, if_neg hne', lsOps_cc,
                LS.cc_ge hbwf hcurs (by simpa [LS.dsv_scaled] using hble)]
              left; rfl
          rcases hcont with hcont | ⟨e, hcont⟩
          · rw [hcont] at h
            simp only [] at h
            by_cases hz : ops.isZero (ops.contained (ovl (dn s cur.hs) (dn s best.sig.mh.hs)) (dn s cur.hs).length s) = true
            · rw [if_pos hz] at h; cases h
            rw [if_neg hz] at h
            split at h
            · cases h
            · simp only [Except.ok.injEq, Prod.mk.injEq, Option.some.injEq] at h
              obtain ⟨h1, h2, h3, h4⟩ := h
              subst h1 h2 h3 h4
              refine ⟨by rw [hes], best, hbest, rfl, hint, ⟨t, nT, hthr, hbelow⟩, rfl, by simpa using hz, ?_⟩
              intro h0; apply hne; rw [h0]; rfl
          · rw [hcont] at h; cases h

/-- what `CounterGather.peek` means when it returns no match (counters exact for the current query) -/
theorem Counter.peek_none {σ : Type} {ops : ScoreOps σ} {c c' : Counter LS} {cur : LS} {thr s : Nat}
    (hsc : max c.scaled cur.scaled = s) (hcs : Sorted cur.hs)
    (hent : ∀ e ∈ c.entries, e.sig.mh.WF ∧ e.sig.mh.scaled ≤ s)
    (hexact : ∀ e ∈ c.entries, e.count = (ovl (dn s cur.hs) (dn s e.sig.mh.hs) : Int))
    (h : c.peek lsOps ops cur thr = .ok (c', none)) :
    c'.entries = c.entries ∧ c'.origQuery = c.origQuery ∧ (c.entries ≠ [] → c'.scaled = s) ∧
    (c.entries = [] ∨ dn s cur.hs = [] ∨
      ∃ best, mostCommon c.entries = some best ∧ ¬ reaches thr s (dn s cur.hs).length best.count) := by
  unfold Counter.peek at h
  by_cases hem : c.entries.isEmpty = true
  · rw [if_pos hem] at h
    cases h
    have : c.entries = [] := by simpa using hem
    exact ⟨rfl, rfl, fun hne => absurd this hne, Or.inl this⟩
  rw [if_neg hem] at h
  simp only [lsOps_scaled, hsc] at h
  rw [lsOps_dsF, LS.ds_eq (by omega)] at h
  simp only [] at h
  by_cases hne' : len lsOps (cur.dsv s) = 0
  · rw [if_pos hne'] at h
    cases h
    refine ⟨rfl, rfl, fun _ => rfl, Or.inr (Or.inl ?_)⟩
    exact List.eq_nil_of_length_eq_zero hne'
  rw [if_neg hne'] at h
  have hlen : len lsOps (cur.dsv s) = (dn s cur.hs).length := rfl
  rw [hlen] at h
  cases hsub : containedBy lsOps ops (cur.dsv s) c.origQuery with
  | error e => rw [hsub] at h; cases h
  | ok sub =>
    rw [hsub] at h
    simp only [] at h
    by_cases hlt : ops.ltOne sub = true
    · rw [if_pos hlt] at h; cases h
    rw [if_neg hlt] at h
    cases hthr : calcThreshold thr s (dn s cur.hs).length with
    | error e =>
      rw [hthr] at h
      cases e <;> cases h
      refine ⟨rfl, rfl, fun _ => rfl, Or.inr (Or.inr ?_)⟩
      have hne : c.entries ≠ [] := by simpa using hem
      cases hb : mostCommon c.entries with
      | none => exact absurd (mostCommon_eq_none.1 hb) hne
      | some best =>
        refine ⟨best, rfl, ?_⟩
        rintro ⟨t, nT, h1, _⟩
        rw [hthr] at h1; cases h1
    | ok tn =>
      obtain ⟨t, nT⟩ := tn
      rw [hthr] at h
      simp only [] at h
      have hcurs : Sorted (cur.dsv s).hs := sorted_dn hcs s
      cases hloop : peekLoop lsOps (cur.dsv s) s nT (c.entries.length + 1) c.entries with
      | error e => rw [hloop] at h; cases h
      | ok lr =>
        obtain ⟨es, r⟩ := lr
        rw [hloop] at h
        obtain ⟨hes, hr⟩ := peekLoop_exact hcurs rfl hent hexact _ hloop
        cases r with
        | none =>
          simp only [Except.ok.injEq, Prod.mk.injEq] at h
          obtain ⟨rfl, _⟩ := h
          simp only [] at hr
          refine ⟨hes, rfl, fun _ => rfl, ?_⟩
          rcases hr with hnil | ⟨best, hbest, hbelow⟩
          · exact Or.inl hnil
          · right; right
            refine ⟨best, hbest, ?_⟩
            rintro ⟨t', nT', h1, h2⟩
            rw [hthr] at h1
            cases h1
            rw [hbelow] at h2; cases h2
        | some x =>
          obtain ⟨best, inter'⟩ := x
          simp only [] at h
          cases hc : containedBy lsOps ops (cur.dsv s) best.sig.mh with
          | error e => rw [hc] at h; cases h
          | ok cont =>
            rw [hc] at h
            simp only [] at h
            split at h
            · cases h
            · split at h <;> cases h

end Sm.Gather
